import TsV.Lemmas.C09_HelperParams
/-!
# C09_HelperParams — the generic parameter lists in the fact records of the five helper-writing back ends

For each of Kotlin, Swift, Scala, Go and Python: the declaration record the model builds for the
helper struct of a struct variant (`structFacts` / `classFacts` applied to `Lang.anonymousStruct …`)
carries exactly `helperGens e fs` as its generic parameter list, the field types are printed with that
list as `generic_types`, and (Kotlin, Swift, Scala) the enum's case applies the helper to the very same
list.  Lifted to the lists of helper declarations `enumFacts` / `algEnumFacts` / `unionFacts` return.
-/
namespace TsV.C09_HelperParams
open TsV TsV.Pipeline TsV.Generate TsV.Lang TsV.C09

/-! ## Kotlin -/

/-- the `<A, B>` a Kotlin declaration declares (as printed; `""` for none) -/
def ktGenerics : Kotlin.KtDecl → Str
  | .typeAlias _ _ g _ => g
  | .valueClass _ _ _ _ => []
  | .object _ _ => []
  | .dataClass _ _ g _ _ => g
  | .enumClass _ _ g _ => g
  | .sealedClass _ _ g _ => g

/-- the helper is an `object` when the variant has no fields (nothing to mention), else a
`data class` whose parameters are printed with `helperGens e fs` as `generic_types` -/
theorem kotlin_helper_facts (c : Kotlin.Cfg) (e : RustEnum) (n v : Str) (fs : List RustField) :
    Kotlin.structFacts c (anonymousStruct e n v fs) =
      if fs.isEmpty then .ok (.object (anonymousStruct e n v fs).comments (c.pfx ++ n))
      else
        (Kotlin.paramsFacts c (helperGens e fs) (fs.any fun f => f.id.renamed.contains '-') fs).bind fun ps =>
          .ok (.dataClass (anonymousStruct e n v fs).comments (c.pfx ++ n) (genericSuffix (helperGens e fs)) ps
                (if e.isRedacted then some n else none)) := rfl

theorem tie_kotlin_helper (c : Kotlin.Cfg) (e : RustEnum) (n v : Str) (fs : List RustField) (d : Kotlin.KtDecl)
    (h : Kotlin.structFacts c (anonymousStruct e n v fs) = .ok d) :
    ktGenerics d = genericSuffix (helperGens e fs) := by
  rw [kotlin_helper_facts] at h
  split at h
  · rename_i hfs
    cases h
    have : fs = [] := by simpa using hfs
    subst this
    rfl
  · obtain ⟨ps, _, h⟩ := bindOk h
    cases h; rfl

theorem kotlin_inner_generics (c : Kotlin.Cfg) (e : RustEnum) :
    ∀ (vs : List (Id × List RustField)) (ds : List Kotlin.KtDecl),
      Kotlin.structsFacts c (vs.map fun p => anonymousStruct e (e.id.renamed ++ p.1.original ++ s%"Inner") p.1.original p.2)
        = .ok ds →
      ds.map ktGenerics = vs.map fun p => genericSuffix (helperGens e p.2)
  | [], ds, h => by simp [Kotlin.structsFacts] at h; subst h; rfl
  | p :: vs, ds, h => by
    simp only [List.map_cons, Kotlin.structsFacts] at h
    obtain ⟨d, hd, h⟩ := bindOk h
    obtain ⟨ds', hds, h⟩ := bindOk h
    cases h
    simp [tie_kotlin_helper c e _ _ _ d hd, kotlin_inner_generics c e vs ds' hds]

/-- **Kotlin**: the helper classes `enumFacts` returns (all declarations but the last, which is the
enum's own class and declares the enum's full list) declare exactly `helperGens` -/
theorem tie_kotlin_enum_generics (c : Kotlin.Cfg) (e : RustEnum) (ds : List Kotlin.KtDecl)
    (h : Kotlin.enumFacts c e = .ok ds) :
    ds.map ktGenerics = ((structVariants e).map fun p => genericSuffix (helperGens e p.2)) ++
      [genericSuffix e.genericTypes] := by
  unfold Kotlin.enumFacts at h
  obtain ⟨inners, hi, h⟩ := bindOk h
  have hin := kotlin_inner_generics c e (structVariants e) inners (by simpa [Kotlin.innerStructs] using hi)
  cases hk : e.keys with
  | none =>
    simp only [hk] at h
    cases h
    simp [hin, ktGenerics]
  | some kc =>
    simp only [hk] at h
    obtain ⟨cases', _, h⟩ := bindOk h
    cases h
    simp [hin, ktGenerics]

/-- … and the case of the sealed class applies the helper to the same list -/
theorem tie_kotlin_case_generics (c : Kotlin.Cfg) (e : RustEnum) (key : Str) (id : Id) (cs : List Str)
    (fs : List RustField) (k : Kotlin.KtCase) (h : Kotlin.caseFacts c e key (.anonymousStruct id cs fs) = .ok k) :
    k.payload = .inner key (c.pfx ++ e.id.renamed ++ id.original ++ s%"Inner") (genericSuffix (helperGens e fs)) := by
  unfold Kotlin.caseFacts at h
  cases h; rfl

/-! ## Swift -/

theorem swift_genericParams_names (U : UnicodeOps) (c : Swift.Cfg) (dm : DecoratorMap) (gens : List Str) :
    (Swift.genericParams U c dm gens).map (·.name) = gens := by
  simp only [Swift.genericParams, List.map_map]
  conv => rhs; rw [← List.map_id gens]
  apply List.map_congr_left
  intro g _
  simp only [Function.comp]
  split <;> rfl

/-- the stored properties and the `init` parameters of the helper are printed with `helperGens e fs`
as `generic_types` -/
theorem swift_helper_facts (U : UnicodeOps) (c : Swift.Cfg) (e : RustEnum) (n v : Str) (fs : List RustField) (st : Swift.St) :
    Swift.structFacts U c (anonymousStruct e n v fs) st =
      (Swift.storedProps c (helperGens e fs) fs st).bind fun (props, st) =>
      (Swift.initParams c (helperGens e fs) fs st).bind fun (params, st) =>
        .ok ({ comments := (anonymousStruct e n v fs).comments,
               name := Swift.kw (c.pfx ++ n),
               generics := Swift.genericParams U c e.decorators (helperGens e fs),
               conformances := Swift.structConformances c e.decorators,
               props,
               codingKeys := fs.map Swift.fieldCodingKey,
               explicitCodingKeys := fs.any fun f => f.id.renamed.contains '-',
               initParams := params,
               initAssigns := fs.map fun f => ⟨Swift.removeDash f.id.renamed, Swift.memberName f⟩ }, st) := rfl

theorem tie_swift_helper (U : UnicodeOps) (c : Swift.Cfg) (e : RustEnum) (n v : Str) (fs : List RustField)
    (st st' : Swift.St) (d : Swift.SwiftStruct) (h : Swift.structFacts U c (anonymousStruct e n v fs) st = .ok (d, st')) :
    d.generics.map (·.name) = helperGens e fs := by
  rw [swift_helper_facts] at h
  obtain ⟨⟨props, st1⟩, _, h⟩ := bindOk h
  obtain ⟨⟨params, st2⟩, _, h⟩ := bindOk h
  cases h
  exact swift_genericParams_names U c _ _

theorem swift_anon_generics (U : UnicodeOps) (c : Swift.Cfg) (e : RustEnum) :
    ∀ (vs : List (Id × List RustField)) (st st' : Swift.St) (ds : List Swift.SwiftStruct),
      Swift.anonymousStructs U c e vs st = .ok (ds, st') →
      ds.map (fun d => d.generics.map (·.name)) = vs.map fun p => helperGens e p.2
  | [], st, st', ds, h => by simp [Swift.anonymousStructs] at h; obtain ⟨rfl, _⟩ := h; rfl
  | (id, fs) :: vs, st, st', ds, h => by
    simp only [Swift.anonymousStructs] at h
    obtain ⟨⟨d, st1⟩, hd, h⟩ := bindOk h
    obtain ⟨⟨ds', st2⟩, hds, h⟩ := bindOk h
    cases h
    simp [tie_swift_helper U c e _ _ _ _ _ d hd, swift_anon_generics U c e vs st1 st2 ds' hds]

/-- **Swift**: the helper structs `enumFacts` returns declare exactly `helperGens` -/
theorem tie_swift_enum_generics (U : UnicodeOps) (c : Swift.Cfg) (e : RustEnum) (st st' : Swift.St)
    (ss : List Swift.SwiftStruct) (d : Swift.SwiftEnum) (h : Swift.enumFacts U c e st = .ok (ss, d, st')) :
    ss.map (fun s => s.generics.map (·.name)) = (structVariants e).map (fun p => helperGens e p.2) ∧
    d.generics.map (·.name) = e.genericTypes := by
  unfold Swift.enumFacts at h
  obtain ⟨⟨structs, st1⟩, hs, h⟩ := bindOk h
  obtain ⟨⟨cases', st2⟩, _, h⟩ := bindOk h
  cases h
  exact ⟨swift_anon_generics U c e _ _ _ _ hs, swift_genericParams_names U c _ _⟩

/-- … and the enum's case applies the helper to the same list -/
theorem tie_swift_case_generics {U : UnicodeOps} (c : Swift.Cfg) (e : RustEnum) (id : Id) (cs : List Str) (fs : List RustField)
    (st st' : Swift.St) (k : Swift.EnumCase)
    (h : Swift.algebraicCase U c e (.anonymousStruct id cs fs) st = .ok (k, st')) :
    k.payload = some ⟨c.pfx ++ Swift.anonymousStructName e id.original ++ genericSuffix (helperGens e fs), false⟩ := by
  unfold Swift.algebraicCase at h
  cases h; rfl

/-! ## Scala -/

/-- the parameters of the helper class are printed with `helperGens e fs` as `generic_types` -/
theorem scala_helper_facts (c : Scala.Cfg) (e : RustEnum) (n v : Str) (fs : List RustField) :
    Scala.classFacts c (anonymousStruct e n v fs) =
      (Outcome.mapM' (Scala.paramFacts c (helperGens e fs)) fs).bind fun params =>
        .ok { comments := (anonymousStruct e n v fs).comments, name := n, generics := helperGens e fs, params } := rfl

theorem tie_scala_helper (c : Scala.Cfg) (e : RustEnum) (n v : Str) (fs : List RustField) (d : Scala.ScClass)
    (h : Scala.classFacts c (anonymousStruct e n v fs) = .ok d) : d.generics = helperGens e fs := by
  rw [scala_helper_facts] at h
  obtain ⟨ps, _, h⟩ := bindOk h
  cases h; rfl

/-- **Scala**: the helper classes `enumFacts` returns declare exactly `helperGens` -/
theorem tie_scala_enum_generics (c : Scala.Cfg) (e : RustEnum) (d : Scala.ScEnum) (h : Scala.enumFacts c e = .ok d) :
    d.inner.map (·.generics) = (structVariants e).map (fun p => helperGens e p.2) ∧ d.generics = e.genericTypes := by
  unfold Scala.enumFacts at h
  obtain ⟨inner, hi, h⟩ := bindOk h
  obtain ⟨cases', _, h⟩ := bindOk h
  cases h
  refine ⟨?_, rfl⟩
  exact Outcome.mapM'_map (fun (p : Id × List RustField) =>
      Scala.classFacts c (anonymousStruct e (e.id.renamed ++ p.1.original ++ s%"Inner") p.1.original p.2))
    (·.generics) (fun p => helperGens e p.2)
    (fun p b hb => tie_scala_helper c e _ _ _ b hb)
    (structVariants e) inner hi

/-- … and the case class of the companion object applies the helper to the same list -/
theorem tie_scala_case_generics (c : Scala.Cfg) (e : RustEnum) (kc : Str × Str) (hk : e.keys = some kc) (id : Id)
    (cs : List Str) (fs : List RustField) (k : Scala.ScCase)
    (h : Scala.caseFacts c e (.anonymousStruct id cs fs) = .ok k) :
    k.content = some (e.genericTypes, kc.2,
      e.id.renamed ++ id.original ++ s%"Inner" ++ Scala.genericSq (helperGens e fs)) := by
  unfold Scala.caseFacts at h
  simp only [hk] at h
  cases h; rfl

/-! ## Go -/

/-- Go's `format_type` ignores `generic_types` (nothing is ever prefixed); the declaration carries the list -/
theorem go_helper_facts (U : UnicodeOps) (c : Go.Cfg) (e : RustEnum) (n v : Str) (fs : List RustField) (st : Go.Imports) :
    Go.structFacts U c (anonymousStruct e n v fs) st =
      (Go.acr U c n).bind fun name =>
      (Go.fieldsFacts U c fs st).bind fun (fields, st) =>
        .ok ({ comments := (anonymousStruct e n v fs).comments, name, generics := helperGens e fs, fields }, st) := rfl

theorem tie_go_helper (U : UnicodeOps) (c : Go.Cfg) (e : RustEnum) (n v : Str) (fs : List RustField)
    (st st' : Go.Imports) (d : Go.GoStruct) (h : Go.structFacts U c (anonymousStruct e n v fs) st = .ok (d, st')) :
    d.generics = helperGens e fs := by
  rw [go_helper_facts] at h
  obtain ⟨name, _, h⟩ := bindOk h
  obtain ⟨⟨fields, st1⟩, _, h⟩ := bindOk h
  cases h; rfl

theorem go_anon_generics (U : UnicodeOps) (c : Go.Cfg) (e : RustEnum) :
    ∀ (vs : List (Id × List RustField)) (st st' : Go.Imports) (ds : List Go.GoStruct),
      Go.anonStructs U c e vs st = .ok (ds, st') → ds.map (·.generics) = vs.map fun p => helperGens e p.2
  | [], st, st', ds, h => by simp [Go.anonStructs] at h; obtain ⟨rfl, _⟩ := h; rfl
  | (id, fs) :: vs, st, st', ds, h => by
    simp only [Go.anonStructs] at h
    obtain ⟨sn, _, h⟩ := bindOk h
    obtain ⟨⟨d, st1⟩, hd, h⟩ := bindOk h
    obtain ⟨⟨ds', st2⟩, hds, h⟩ := bindOk h
    cases h
    simp [tie_go_helper U c e _ _ _ _ _ d hd, go_anon_generics U c e vs st1 st2 ds' hds]

/-- **Go**: the helper structs of an algebraic enum declare exactly `helperGens` (printed `[T any, …]`) -/
theorem tie_go_enum_generics (U : UnicodeOps) (c : Go.Cfg) (e : RustEnum) (tag content : Str) (cs : List Str)
    (st st' : Go.Imports) (d : Go.GoAlgEnum) (h : Go.algEnumFacts U c e tag content cs st = .ok (d, st')) :
    d.anonymous.map (·.generics) = (structVariants e).map fun p => helperGens e p.2 := by
  unfold Go.algEnumFacts at h
  obtain ⟨⟨anon, st1⟩, ha, h⟩ := bindOk h
  obtain ⟨name, _, h⟩ := bindOk h
  obtain ⟨tagField, _, h⟩ := bindOk h
  obtain ⟨short, _, h⟩ := bindOk h
  obtain ⟨tagAcr, _, h⟩ := bindOk h
  obtain ⟨⟨variants, st2⟩, _, h⟩ := bindOk h
  cases h
  exact go_anon_generics U c e _ _ _ _ ha

/-! ## Python -/

/-- the fields of the helper class are printed with `helperGens e fs` as `generic_types`, and every
one of them is declared as a `TypeVar` -/
theorem python_helper_facts (E : Ext) (c : Python.Cfg) (e : RustEnum) (n v : Str) (fs : List RustField) (st : Python.St) :
    ∃ st0, Python.structFacts E c (anonymousStruct e n v fs) st =
      (Python.fieldsFacts E c (helperGens e fs) fs st0).bind fun (fields, st) =>
        .ok ({ name := n, generics := helperGens e fs, comments := (anonymousStruct e n v fs).comments,
               modelConfig := fs.any fun f => Python.propertyAwareRename E f.id.original != f.id.renamed,
               fields }, st) := ⟨_, rfl⟩

theorem tie_python_helper (E : Ext) (c : Python.Cfg) (e : RustEnum) (n v : Str) (fs : List RustField)
    (st st' : Python.St) (d : Python.PyClass) (h : Python.structFacts E c (anonymousStruct e n v fs) st = .ok (d, st')) :
    d.generics = helperGens e fs := by
  unfold Python.structFacts at h
  obtain ⟨⟨fields, st1⟩, _, h⟩ := bindOk h
  cases h; rfl

theorem python_inner_generics (E : Ext) (c : Python.Cfg) (e : RustEnum) :
    ∀ (vs : List (Id × List RustField)) (st st' : Python.St) (ds : List Python.PyClass),
      Python.innerFacts E c e vs st = .ok (ds, st') → ds.map (·.generics) = vs.map fun p => helperGens e p.2
  | [], st, st', ds, h => by simp [Python.innerFacts] at h; obtain ⟨rfl, _⟩ := h; rfl
  | (id, fs) :: vs, st, st', ds, h => by
    simp only [Python.innerFacts] at h
    obtain ⟨⟨d, st1⟩, hd, h⟩ := bindOk h
    obtain ⟨⟨ds', st2⟩, hds, h⟩ := bindOk h
    cases h
    simp [tie_python_helper E c e _ _ _ _ _ d hd, python_inner_generics E c e vs st1 st2 ds' hds]

/-- **Python**: the helper classes of a union declare exactly `helperGens` (the `Generic[…]` base) -/
theorem tie_python_enum_generics (E : Ext) (c : Python.Cfg) (e : RustEnum) (tag content : Str) (st st' : Python.St)
    (d : Python.PyUnion) (h : Python.unionFacts E c e tag content st = .ok (d, st')) :
    d.inner.map (·.generics) = (structVariants e).map fun p => helperGens e p.2 := by
  unfold Python.unionFacts at h
  obtain ⟨⟨inner, st1⟩, hi, h⟩ := bindOk h
  obtain ⟨⟨variants, st2⟩, _, h⟩ := bindOk h
  cases h
  exact python_inner_generics E c e _ _ _ _ hi

end TsV.C09_HelperParams
