import TsV.Lemmas.C10_Lex
import TsV.Lemmas.Outcome
import TsV.Model.Lang.Kotlin
/-!
# C10 — Kotlin: every declaration the model renders is lexically well-formed
-/
namespace TsV.C10Kotlin
open TsV TsV.Lang TsV.C10Lex TsV.Lang.Kotlin

/-- Kotlin's lexer: `<`/`>` are brackets in declarations, no raw strings -/
def K : LexCfg := ⟨true, false⟩

/-! ## scope -/

/-- the configuration: the prefix is an identifier fragment and every type mapping maps to a
balanced string -/
structure CfgOk (cfg : Cfg) : Prop where
  pfx : KeyStr cfg.pfx
  maps : ∀ p ∈ cfg.typeMappings, wellBracketed K p.2 = true

theorem CfgOk.mapped {cfg : Cfg} (H : CfgOk cfg) {k v : Str} (h : mapGet cfg.typeMappings k = some v) : NB K v := by
  obtain ⟨p, hp, rfl⟩ := mapGet_mem h
  exact nb_of_wb (H.maps p hp)

theorem formatSimple_nb {cfg : Cfg} (H : CfgOk cfg) (gens : List Str) (base : Str) (hb : KeyStr base) :
    NB K (formatSimple cfg gens base) := by
  unfold formatSimple
  split
  · rename_i m hm; exact H.mapped hm
  · split
    · exact hb.nb
    · exact H.pfx.nb.append hb.nb

theorem formatPrim_nb (p : Prim) (s : Str) (h : formatPrim p = .ok s) : NB K s := by
  cases p <;> simp only [formatPrim] at h <;> first | (cases h; exact fun _ => rfl) | cases h

mutual
  theorem formatType_nb {cfg : Cfg} (H : CfgOk cfg) (gens : List Str) :
      ∀ (t : RustType) (s : Str), TypeOk t → formatType cfg gens t = .ok s → NB K s
    | .simple id, s, ht, h => by
      simp only [formatType] at h; cases h
      exact formatSimple_nb H gens id (ht id (by simp [typeNames]))
    | .generic id ps, s, ht, h => by
      simp only [formatType] at h
      split at h
      · rename_i m hm; cases h; exact H.mapped hm
      · split at h
        · rename_i strs hs
          cases h
          have hps : TypesOk ps := fun n hn => ht n (by simp [typeNames, hn])
          have hall := formatTypes_nb H gens ps strs hps hs
          refine (formatSimple_nb H gens id (ht id (by simp [typeNames]))).append ?_
          split
          · exact NB.nil
          · exact NB.angleList strs hall
        · cases h
        · cases h
    | .vec r, s, ht, h => by
      simp only [formatType] at h
      split at h
      · rename_i x hx; cases h
        exact NB.wrap (b := '<') (fun _ => rfl) (formatType_nb H gens r x (by simpa [TypeOk, typeNames] using ht) hx) (fun _ => rfl)
      · cases h
      · cases h
    | .array r n, s, ht, h => by
      simp only [formatType] at h
      split at h
      · rename_i x hx; cases h
        exact NB.wrap (b := '<') (fun _ => rfl) (formatType_nb H gens r x (by simpa [TypeOk, typeNames] using ht) hx) (fun _ => rfl)
      · cases h
      · cases h
    | .slice r, s, ht, h => by
      simp only [formatType] at h
      split at h
      · rename_i x hx; cases h
        exact NB.wrap (b := '<') (fun _ => rfl) (formatType_nb H gens r x (by simpa [TypeOk, typeNames] using ht) hx) (fun _ => rfl)
      · cases h
      · cases h
    | .option r, s, ht, h => by
      simp only [formatType] at h
      split at h
      · rename_i x hx; cases h
        exact (formatType_nb H gens r x (by simpa [TypeOk, typeNames] using ht) hx).append (fun _ => rfl)
      · cases h
      · cases h
    | .hashMap k v, s, ht, h => by
      simp only [formatType] at h
      split at h
      · rename_i ks hk
        split at h
        · rename_i vs hv; cases h
          have hkn := formatType_nb H gens k ks (fun n hn => ht n (by simp [typeNames, hn])) hk
          have hvn := formatType_nb H gens v vs (fun n hn => ht n (by simp [typeNames, hn])) hv
          intro stk
          have r1 : Run K s%"HashMap<" ⟨.code, stk⟩ ⟨.code, '<' :: stk⟩ := rfl
          have r3 : Run K s%", " ⟨.code, '<' :: stk⟩ ⟨.code, '<' :: stk⟩ := rfl
          have r5 : Run K s%">" ⟨.code, '<' :: stk⟩ ⟨.code, stk⟩ := rfl
          exact (((r1.append (hkn _)).append r3).append (hvn _)).append r5
        · cases h
        · cases h
      · cases h
      · cases h
    | .prim p, s, _, h => by
      simp only [formatType] at h
      exact formatPrim_nb p s h
  theorem formatTypes_nb {cfg : Cfg} (H : CfgOk cfg) (gens : List Str) :
      ∀ (ts : List RustType) (ss : List Str), TypesOk ts → formatTypes cfg gens ts = .ok ss → ∀ s ∈ ss, NB K s
    | [], ss, _, h => by
      simp only [formatTypes] at h; cases h; simp
    | t :: ts, ss, ht, h => by
      simp only [formatTypes] at h
      split at h
      · rename_i x hx
        split at h
        · rename_i xs hxs; cases h
          intro s hs
          simp only [List.mem_cons] at hs
          rcases hs with rfl | hs
          · exact formatType_nb H gens t _ (fun n hn => ht n (by simp [typeNamesList, hn])) hx
          · exact formatTypes_nb H gens ts xs (fun n hn => ht n (by simp [typeNamesList, hn])) hxs s hs
        · cases h
        · cases h
      · cases h
      · cases h
end


/-! ## comments, names -/

/-- doc lines: no line break inside one comment (the `Bad` class of C15 for `///` comments) -/
def DocsOk (cs : List Str) : Prop := ∀ c ∈ cs, '\n' ∉ c

instance (cs : List Str) : Decidable (DocsOk cs) := by unfold DocsOk; infer_instance

theorem comments_nb (n : Nat) (cs : List Str) (h : DocsOk cs) : NB K (comments n cs) := by
  unfold comments
  apply NB.flatMap
  intro c hc
  have e : tabs n ++ s%"/// " ++ c ++ nl = tabs n ++ (s%"//" ++ (s%"/ " ++ c) ++ s%"\n") := by simp [nl]
  rw [e]
  refine (NB.tabs n).append (NB.lineComment _ ?_)
  have := h c hc
  simp [this]

theorem removeDash_key {s : Str} (h : KeyStr s) : KeyStr (removeDash s) := replaceDash_key h

theorem variantName_ident {U : UnicodeOps} {s : Str} (h : IdentStr s) : IdentStr (variantName U s) := by
  have hp := toPascal_ident (U := U) h
  simp only [variantName]
  cases hn : Rename.toPascal U s with
  | nil => intro c hc; simp at hc
  | cons c t =>
    rw [hn] at hp
    simp only
    split
    · intro d hd
      simp only [List.mem_cons] at hd
      rcases hd with rfl | hd
      · decide
      · exact hp d (by simpa using hd)
    · exact hp

/-! ## constructor parameters -/

structure ParamOk (p : KtParam) : Prop where
  docs : DocsOk p.comments
  name : NB K p.name
  ty : NB K p.ty
  dflt : NB K p.dflt

theorem renderParam_nb (p : KtParam) (h : ParamOk p) : NB K (renderParam p) := by
  unfold renderParam
  nb_pieces
  · exact comments_nb 1 _ h.docs
  · split
    · exact NB.wrap (b := '(') (fun _ => rfl) (NB.debugStr _) (fun _ => rfl)
    · exact NB.nil
  · split <;> nb_lit
  · exact h.name
  · nb_lit
  · exact h.ty
  · exact h.dflt

/-- what the property assumes about one field -/
abbrev FieldOk := FieldScope Lang.kotlin K DocsOk

theorem defaultSuffix_nb (f : RustField) : NB K (defaultSuffix f) := by
  unfold defaultSuffix
  split
  · nb_lit
  · split
    · nb_lit
    · exact NB.nil

theorem paramFacts_ok {cfg : Cfg} (H : CfgOk cfg) (gens : List Str) (rs priv : Bool) (f : RustField) (p : KtParam)
    (hf : FieldOk f) (h : paramFacts cfg gens rs priv f = .ok p) : ParamOk p := by
  unfold paramFacts at h
  cases hm : typeOverride f .kotlin with
  | some t =>
    simp only [hm] at h
    cases h
    exact ⟨hf.docs, (removeDash_key hf.key).nb, nb_of_wb (hf.override t hm), defaultSuffix_nb f⟩
  | none =>
    simp only [hm] at h
    cases hft : formatType cfg gens f.ty with
    | ok ty =>
      rw [hft] at h
      simp only [Outcome.bind] at h
      cases h
      exact ⟨hf.docs, (removeDash_key hf.key).nb, formatType_nb H gens f.ty ty hf.ty hft, defaultSuffix_nb f⟩
    | err e => rw [hft] at h; cases h
    | panic s => rw [hft] at h; cases h

theorem paramsFacts_ok {cfg : Cfg} (H : CfgOk cfg) (gens : List Str) (rs : Bool) :
    ∀ (fs : List RustField) (ps : List KtParam), (∀ f ∈ fs, FieldOk f) →
      paramsFacts cfg gens rs fs = .ok ps → ∀ p ∈ ps, ParamOk p
  | [], ps, _, h => by simp only [paramsFacts] at h; cases h; simp
  | f :: fs, ps, hf, h => by
    simp only [paramsFacts] at h
    cases hp : paramFacts cfg gens rs false f with
    | ok p =>
      rw [hp] at h
      simp only [Outcome.bind] at h
      cases hps : paramsFacts cfg gens rs fs with
      | ok ps' =>
        rw [hps] at h; simp only [Outcome.bind] at h; cases h
        intro q hq
        simp only [List.mem_cons] at hq
        rcases hq with rfl | hq
        · exact paramFacts_ok H gens rs false f _ (hf f (by simp)) hp
        · exact paramsFacts_ok H gens rs fs ps' (fun g hg => hf g (by simp [hg])) hps q hq
      | err e => rw [hps] at h; cases h
      | panic s => rw [hps] at h; cases h
    | err e => rw [hp] at h; cases h
    | panic s => rw [hp] at h; cases h

theorem renderParams_nb : ∀ (ps : List KtParam), (∀ p ∈ ps, ParamOk p) → NB K (renderParams ps)
  | [], _ => NB.nil
  | [p], h => (renderParam_nb p (h p (by simp))).append NB.nl
  | p :: q :: ps, h => by
    show NB K (renderParam p ++ s%",\n" ++ renderParams (q :: ps))
    nb_pieces
    · exact renderParam_nb p (h p (by simp))
    · nb_lit
    · exact renderParams_nb (q :: ps) fun x hx => h x (by simp [hx])

/-! ## enum entries and sealed-class cases -/

theorem renderEntry_nb (c : KtEntry) (hd : DocsOk c.comments) (hn : NB K c.name) : NB K (renderEntry c) := by
  unfold renderEntry
  intro stk
  have r0 := comments_nb 1 _ hd stk
  have q1 : Run K s%"\t@SerialName(" ⟨.code, stk⟩ ⟨.code, '(' :: stk⟩ := rfl
  have q3 : Run K s%")\n" ⟨.code, '(' :: stk⟩ ⟨.code, stk⟩ := rfl
  have r1 : Run K s%"\t" ⟨.code, stk⟩ ⟨.code, stk⟩ := rfl
  have r3 : Run K s%"(" ⟨.code, stk⟩ ⟨.code, '(' :: stk⟩ := rfl
  have r5 : Run K s%"),\n" ⟨.code, '(' :: stk⟩ ⟨.code, stk⟩ := rfl
  exact (((((((r0.append q1).append (NB.debugStr _ _)).append q3).append r1).append (hn _)).append r3).append
    (NB.debugStr _ _)).append r5

def PayloadOk : KtPayload → Prop
  | .object => True
  | .content key ty => NB K key ∧ NB K ty
  | .inner key tyName gens => NB K key ∧ NB K tyName ∧ NB K gens

structure CaseOk (c : KtCase) : Prop where
  docs : DocsOk c.comments
  /-- the wire name is written between plain quotes, unescaped -/
  serial : KeyStr c.serialName
  name : NB K c.name
  generics : NB K c.generics
  payload : PayloadOk c.payload
  parent : NB K c.parent
  parentGenerics : NB K c.parentGenerics

theorem renderCase_nb (c : KtCase) (h : CaseOk c) : NB K (renderCase c) := by
  unfold renderCase
  have hpay : NB K (match c.payload with
      | .object => s%"\tobject " ++ c.name
      | .content key ty =>
        s%"\tdata class " ++ c.name ++ c.generics ++ s%"(" ++ s%"val " ++ key ++ s%": " ++ ty ++ s%")"
      | .inner key tyName gens =>
        s%"\tdata class " ++ c.name ++ c.generics ++ s%"(" ++ s%"val " ++ key ++ s%": " ++ tyName ++ gens ++ s%")") := by
    have hp := h.payload
    split
    · refine NB.append ?_ h.name
      nb_lit
    · rename_i key ty heq
      rw [heq] at hp
      intro stk
      have r1 : Run K s%"\tdata class " ⟨.code, stk⟩ ⟨.code, stk⟩ := rfl
      have r4 : Run K s%"(" ⟨.code, stk⟩ ⟨.code, '(' :: stk⟩ := rfl
      have r5 : Run K s%"val " ⟨.code, '(' :: stk⟩ ⟨.code, '(' :: stk⟩ := rfl
      have r7 : Run K s%": " ⟨.code, '(' :: stk⟩ ⟨.code, '(' :: stk⟩ := rfl
      have r9 : Run K s%")" ⟨.code, '(' :: stk⟩ ⟨.code, stk⟩ := rfl
      exact (((((((r1.append (h.name _)).append (h.generics _)).append r4).append r5).append (hp.1 _)).append r7).append
        (hp.2 _)).append r9
    · rename_i key tyName gens heq
      rw [heq] at hp
      intro stk
      have r1 : Run K s%"\tdata class " ⟨.code, stk⟩ ⟨.code, stk⟩ := rfl
      have r4 : Run K s%"(" ⟨.code, stk⟩ ⟨.code, '(' :: stk⟩ := rfl
      have r5 : Run K s%"val " ⟨.code, '(' :: stk⟩ ⟨.code, '(' :: stk⟩ := rfl
      have r7 : Run K s%": " ⟨.code, '(' :: stk⟩ ⟨.code, '(' :: stk⟩ := rfl
      have r9 : Run K s%")" ⟨.code, '(' :: stk⟩ ⟨.code, stk⟩ := rfl
      exact ((((((((r1.append (h.name _)).append (h.generics _)).append r4).append r5).append (hp.1 _)).append r7).append
        (hp.2.1 _)).append (hp.2.2 _)).append r9
  intro stk
  have r0 := comments_nb 1 _ h.docs stk
  have r1 : Run K s%"\t@Serializable\n" ⟨.code, stk⟩ ⟨.code, stk⟩ := rfl
  have s1 : Run K s%"\t@SerialName(\"" ⟨.code, stk⟩ ⟨.str '"', '(' :: stk⟩ := rfl
  have s2 := str_body (cfg := K) c.serialName ('(' :: stk) fun d hd => keyChar_strChar d (h.serial d hd)
  have s3 : Run K s%"\")\n" ⟨.str '"', '(' :: stk⟩ ⟨.code, stk⟩ := rfl
  have r4 : Run K s%": " ⟨.code, stk⟩ ⟨.code, stk⟩ := rfl
  have r7 : Run K s%"()\n" ⟨.code, stk⟩ ⟨.code, stk⟩ := rfl
  exact ((((((((r0.append r1).append s1).append s2).append s3).append (hpay stk)).append r4).append (h.parent stk)).append
    (h.parentGenerics stk)).append r7

/-! ## declarations -/

def DeclOk : KtDecl → Prop
  | .typeAlias cs name gens ty => DocsOk cs ∧ NB K name ∧ NB K gens ∧ NB K ty
  | .valueClass cs name p _ => DocsOk cs ∧ NB K name ∧ ParamOk p
  | .object cs name => DocsOk cs ∧ NB K name
  | .dataClass cs name gens ps _ => DocsOk cs ∧ NB K name ∧ NB K gens ∧ ∀ p ∈ ps, ParamOk p
  | .enumClass cs name gens es => DocsOk cs ∧ NB K name ∧ NB K gens ∧ ∀ e ∈ es, DocsOk e.comments ∧ NB K e.name
  | .sealedClass cs name gens cases => DocsOk cs ∧ NB K name ∧ NB K gens ∧ ∀ c ∈ cases, CaseOk c

/-- **every Kotlin declaration whose pieces are in scope is lexically closed** -/
theorem renderDecl_nb : ∀ (d : KtDecl), DeclOk d → NB K (renderDecl d)
  | .typeAlias cs name gens ty, ⟨hd, hn, hg, ht⟩ => by
    unfold renderDecl
    nb_pieces
    · exact comments_nb 0 _ hd
    · nb_lit
    · exact hn
    · exact hg
    · nb_lit
    · exact ht
    · nb_lit
  | .valueClass cs name p red, ⟨hd, hn, hp⟩ => by
    unfold renderDecl
    intro stk
    have r1 := comments_nb 0 _ hd stk
    have r2 : Run K s%"@Serializable\n@JvmInline\nvalue class " ⟨.code, stk⟩ ⟨.code, stk⟩ := rfl
    have r4 : Run K s%"(\n" ⟨.code, stk⟩ ⟨.code, '(' :: stk⟩ := rfl
    have r5 := renderParam_nb p hp ('(' :: stk)
    have r6 : Run K nl ⟨.code, '(' :: stk⟩ ⟨.code, '(' :: stk⟩ := rfl
    have r7 : Run K (if red = true then
        s%") {\n\tfun unwrap() = value\n\n\toverride fun toString(): String = \"***\"\n}\n"
      else s%")\n") ⟨.code, '(' :: stk⟩ ⟨.code, stk⟩ := by split <;> rfl
    have r8 : Run K nl ⟨.code, stk⟩ ⟨.code, stk⟩ := rfl
    exact ((((((r1.append r2).append (hn _)).append r4).append r5).append r6).append r7).append r8
  | .object cs name, ⟨hd, hn⟩ => by
    unfold renderDecl
    nb_pieces
    · exact comments_nb 0 _ hd
    · nb_lit
    · nb_lit
    · exact hn
    · nb_lit
  | .dataClass cs name gens ps red, ⟨hd, hn, hg, hps⟩ => by
    unfold renderDecl
    intro stk
    have r1 := comments_nb 0 _ hd stk
    have r2 : Run K s%"@Serializable\n" ⟨.code, stk⟩ ⟨.code, stk⟩ := rfl
    have r3 : Run K s%"data class " ⟨.code, stk⟩ ⟨.code, stk⟩ := rfl
    have r6 : Run K s%" (\n" ⟨.code, stk⟩ ⟨.code, '(' :: stk⟩ := rfl
    have r7 := renderParams_nb ps hps ('(' :: stk)
    have r8 : Run K (match red with
        | some s => s%") {\n\toverride fun toString(): String = " ++ debugStr s ++ s%"\n}\n"
        | none => s%")\n") ⟨.code, '(' :: stk⟩ ⟨.code, stk⟩ := by
      split
      · rename_i s
        have a1 : Run K s%") {\n\toverride fun toString(): String = " ⟨.code, '(' :: stk⟩ ⟨.code, '{' :: stk⟩ := rfl
        have a3 : Run K s%"\n}\n" ⟨.code, '{' :: stk⟩ ⟨.code, stk⟩ := rfl
        exact (a1.append (NB.debugStr s _)).append a3
      · rfl
    have r9 : Run K nl ⟨.code, stk⟩ ⟨.code, stk⟩ := rfl
    exact (((((((r1.append r2).append r3).append (hn _)).append (hg _)).append r6).append r7).append r8).append r9
  | .enumClass cs name gens es, ⟨hd, hn, hg, hes⟩ => by
    unfold renderDecl
    intro stk
    have r1 := comments_nb 0 _ hd stk
    have r2 : Run K s%"@Serializable\n" ⟨.code, stk⟩ ⟨.code, stk⟩ := rfl
    have r3 : Run K s%"enum class " ⟨.code, stk⟩ ⟨.code, stk⟩ := rfl
    have r6 : Run K s%"(val string: String) " ⟨.code, stk⟩ ⟨.code, stk⟩ := rfl
    have r7 : Run K s%"{\n" ⟨.code, stk⟩ ⟨.code, '{' :: stk⟩ := rfl
    have r8 := NB.flatMap (cfg := K) renderEntry es (fun e he => renderEntry_nb e (hes e he).1 (hes e he).2) ('{' :: stk)
    have r9 : Run K s%"}\n\n" ⟨.code, '{' :: stk⟩ ⟨.code, stk⟩ := rfl
    exact (((((((r1.append r2).append r3).append (hn _)).append (hg _)).append r6).append r7).append r8).append r9
  | .sealedClass cs name gens cases, ⟨hd, hn, hg, hcs⟩ => by
    unfold renderDecl
    intro stk
    have r1 := comments_nb 0 _ hd stk
    have r2 : Run K s%"@Serializable\n" ⟨.code, stk⟩ ⟨.code, stk⟩ := rfl
    have r3 : Run K s%"sealed class " ⟨.code, stk⟩ ⟨.code, stk⟩ := rfl
    have r6 : Run K s%" " ⟨.code, stk⟩ ⟨.code, stk⟩ := rfl
    have r7 : Run K s%"{\n" ⟨.code, stk⟩ ⟨.code, '{' :: stk⟩ := rfl
    have r8 := NB.flatMap (cfg := K) renderCase cases (fun c hc => renderCase_nb c (hcs c hc)) ('{' :: stk)
    have r9 : Run K s%"}\n\n" ⟨.code, '{' :: stk⟩ ⟨.code, stk⟩ := rfl
    exact (((((((r1.append r2).append r3).append (hn _)).append (hg _)).append r6).append r7).append r8).append r9


/-! ## from the parsed items to the declarations -/

abbrev StructOk := StructScope Lang.kotlin K DocsOk
abbrev AliasOk := AliasScope DocsOk
abbrev VariantOk := VariantScope Lang.kotlin K DocsOk
abbrev EnumOk := EnumScope Lang.kotlin K DocsOk

theorem generics_nb {gs : List Str} (h : ∀ g ∈ gs, IdentStr g) : NB K (genericSuffix gs) :=
  NB.genericSuffix gs fun g hg => (h g hg).nb

theorem structFacts_ok {cfg : Cfg} (H : CfgOk cfg) (rs : RustStruct) (d : KtDecl) (hs : StructOk rs)
    (h : structFacts cfg rs = .ok d) : DeclOk d := by
  unfold structFacts at h
  split at h
  · cases h
    exact ⟨hs.docs, (KeyStr.nb (KeyStr.append H.pfx hs.name))⟩
  · simp only at h
    cases hp : paramsFacts cfg rs.genericTypes (rs.fields.any fun f => f.id.renamed.contains '-') rs.fields with
    | ok ps =>
      rw [hp] at h
      simp only [Outcome.bind] at h
      cases h
      exact ⟨hs.docs, (KeyStr.nb (KeyStr.append H.pfx hs.name)), generics_nb hs.generics,
        paramsFacts_ok H _ _ rs.fields ps hs.fields hp⟩
    | err e => rw [hp] at h; cases h
    | panic s => rw [hp] at h; cases h

theorem structsFacts_ok {cfg : Cfg} (H : CfgOk cfg) : ∀ (ss : List RustStruct) (ds : List KtDecl),
    (∀ s ∈ ss, StructOk s) → structsFacts cfg ss = .ok ds → ∀ d ∈ ds, DeclOk d
  | [], ds, _, h => by simp only [structsFacts] at h; cases h; simp
  | s :: ss, ds, hs, h => by
    simp only [structsFacts] at h
    cases hd : structFacts cfg s with
    | ok d =>
      rw [hd] at h; simp only [Outcome.bind] at h
      cases hr : structsFacts cfg ss with
      | ok ds' =>
        rw [hr] at h; simp only [Outcome.bind] at h; cases h
        intro x hx
        simp only [List.mem_cons] at hx
        rcases hx with rfl | hx
        · exact structFacts_ok H s _ (hs s (by simp)) hd
        · exact structsFacts_ok H ss ds' (fun t ht => hs t (by simp [ht])) hr x hx
      | err e => rw [hr] at h; cases h
      | panic s => rw [hr] at h; cases h
    | err e => rw [hd] at h; cases h
    | panic s => rw [hd] at h; cases h

theorem aliasFacts_ok {cfg : Cfg} (H : CfgOk cfg) (a : RustTypeAlias) (d : KtDecl) (ha : AliasOk a)
    (h : aliasFacts cfg a = .ok d) : DeclOk d := by
  unfold aliasFacts at h
  split at h
  · cases hp : paramFacts cfg [] false a.isRedacted (valueField a.ty) with
    | ok p =>
      rw [hp] at h; simp only [Outcome.bind] at h; cases h
      refine ⟨ha.docs, (KeyStr.nb (KeyStr.append H.pfx ha.renamed)), paramFacts_ok H [] false a.isRedacted _ p ?_ hp⟩
      exact ⟨by intro c hc; simp [valueField] at hc, (by decide : KeyStr s%"value"), (by decide : IdentStr s%"value"), ha.ty,
        by intro t ht; simp [valueField, typeOverride] at ht⟩
    | err e => rw [hp] at h; cases h
    | panic s => rw [hp] at h; cases h
  · cases hf : formatType cfg a.genericTypes a.ty with
    | ok ty =>
      rw [hf] at h; simp only [Outcome.bind] at h; cases h
      exact ⟨ha.docs, (KeyStr.nb (KeyStr.append H.pfx ha.renamed)), generics_nb ha.generics,
        formatType_nb H a.genericTypes a.ty ty ha.ty hf⟩
    | err e => rw [hf] at h; cases h
    | panic s => rw [hf] at h; cases h

theorem usedGenerics_sub (e : RustEnum) (fields : List RustField) : ∀ g ∈ usedGenerics e fields, g ∈ e.genericTypes := by
  intro g hg
  unfold usedGenerics at hg
  have := List.mem_eraseDups.mp hg
  simp only [List.mem_flatMap, List.mem_filter] at this
  obtain ⟨_, _, h, _⟩ := this
  exact h

theorem caseFacts_ok {cfg : Cfg} (H : CfgOk cfg) (e : RustEnum) (he : EnumOk e) (key : Str) (hk : KeyStr key)
    (v : RustEnumVariant) (hv : VariantOk v) (c : KtCase) (h : caseFacts cfg e key v = .ok c) : CaseOk c := by
  have hgp := generics_nb he.generics
  have hparent : NB K (cfg.pfx ++ e.id.renamed) := (KeyStr.nb (KeyStr.append H.pfx he.renamed))
  have hname : NB K (variantName cfg.U v.id.original) := IdentStr.nb (variantName_ident hv.original)
  unfold caseFacts at h
  cases v with
  | unit id cs =>
    simp only at h; cases h
    exact ⟨hv.docs, hv.renamed, hname, hgp, trivial, hparent, hgp⟩
  | tuple id cs ty =>
    simp only at h
    cases hf : formatType cfg e.genericTypes ty with
    | ok t =>
      rw [hf] at h; simp only [Outcome.bind] at h; cases h
      exact ⟨hv.docs, hv.renamed, hname, hgp, ⟨hk.nb, formatType_nb H _ ty t hv.2.2.2 hf⟩, hparent, hgp⟩
    | err e => rw [hf] at h; cases h
    | panic s => rw [hf] at h; cases h
  | anonymousStruct id cs fs =>
    simp only at h; cases h
    refine ⟨hv.docs, hv.renamed, hname, hgp, ⟨hk.nb, ?_, ?_⟩, hparent, hgp⟩
    · exact KeyStr.nb (KeyStr.append (KeyStr.append (KeyStr.append H.pfx he.renamed) (IdentStr.key hv.original)) (by decide : KeyStr s%"Inner"))
    · exact generics_nb fun g hg => he.generics g (usedGenerics_sub e fs g hg)

theorem casesFacts_ok {cfg : Cfg} (H : CfgOk cfg) (e : RustEnum) (he : EnumOk e) (key : Str) (hk : KeyStr key) :
    ∀ (vs : List RustEnumVariant) (cs : List KtCase), (∀ v ∈ vs, VariantOk v) →
      casesFacts cfg e key vs = .ok cs → ∀ c ∈ cs, CaseOk c
  | [], cs, _, h => by simp only [casesFacts] at h; cases h; simp
  | v :: vs, cs, hv, h => by
    simp only [casesFacts] at h
    cases hc : caseFacts cfg e key v with
    | ok c =>
      rw [hc] at h; simp only [Outcome.bind] at h
      cases hr : casesFacts cfg e key vs with
      | ok cs' =>
        rw [hr] at h; simp only [Outcome.bind] at h; cases h
        intro x hx
        simp only [List.mem_cons] at hx
        rcases hx with rfl | hx
        · exact caseFacts_ok H e he key hk v (hv v (by simp)) _ hc
        · exact casesFacts_ok H e he key hk vs cs' (fun w hw => hv w (by simp [hw])) hr x hx
      | err e => rw [hr] at h; cases h
      | panic s => rw [hr] at h; cases h
    | err e => rw [hc] at h; cases h
    | panic s => rw [hc] at h; cases h

/-- the helper struct synthesised for a struct variant is in scope when the enum is -/
theorem innerStruct_ok (e : RustEnum) (he : EnumOk e) : ∀ s ∈ innerStructs e, StructOk s := by
  intro s hs
  simp only [innerStructs, List.mem_map] at hs
  obtain ⟨⟨id, fields⟩, hmem, rfl⟩ := hs
  simp only [structVariants, List.mem_filterMap] at hmem
  obtain ⟨v, hv, hsome⟩ := hmem
  have hvo := he.variants v hv
  cases v with
  | unit _ _ => simp at hsome
  | tuple _ _ _ => simp at hsome
  | anonymousStruct vid cs fs =>
    simp only [Option.some.injEq, Prod.mk.injEq] at hsome
    obtain ⟨rfl, rfl⟩ := hsome
    refine ⟨?_, ?_, ?_, ?_⟩
    · intro c hc
      simp only [anonymousStruct, List.mem_singleton] at hc
      subst hc
      have h1 : '\n' ∉ vid.original := KeyStr.no_nl (IdentStr.key hvo.2.1)
      have h2 : '\n' ∉ e.id.original := KeyStr.no_nl (IdentStr.key he.original)
      simp [h1, h2]
    · exact KeyStr.append (KeyStr.append he.renamed (IdentStr.key hvo.2.1)) (by decide : KeyStr s%"Inner")
    · intro g hg
      simp only [anonymousStruct] at hg
      have := List.mem_eraseDups.mp hg
      simp only [List.mem_flatMap, List.mem_filter] at this
      obtain ⟨_, _, h, _⟩ := this
      exact he.generics g h
    · exact hvo.2.2.2

theorem enumFacts_ok {cfg : Cfg} (H : CfgOk cfg) (e : RustEnum) (he : EnumOk e) (ds : List KtDecl)
    (h : enumFacts cfg e = .ok ds) : ∀ d ∈ ds, DeclOk d := by
  unfold enumFacts at h
  cases hi : structsFacts cfg (innerStructs e) with
  | ok inners =>
    rw [hi] at h; simp only [Outcome.bind] at h
    have hin := structsFacts_ok H _ inners (innerStruct_ok e he) hi
    have hname : NB K (cfg.pfx ++ e.id.renamed) := (KeyStr.nb (KeyStr.append H.pfx he.renamed))
    split at h
    · cases h
      intro d hd
      simp only [List.mem_append, List.mem_singleton] at hd
      rcases hd with hd | rfl
      · exact hin d hd
      · refine ⟨he.docs, hname, generics_nb he.generics, ?_⟩
        intro en hen
        simp only [List.mem_map] at hen
        obtain ⟨v, hv, rfl⟩ := hen
        exact ⟨(he.variants v hv).docs, IdentStr.nb (he.variants v hv).original⟩
    · rename_i tag contentKey hkeys
      cases hc : casesFacts cfg e contentKey e.variants with
      | ok cases =>
        rw [hc] at h; simp only [Outcome.bind] at h; cases h
        intro d hd
        simp only [List.mem_append, List.mem_singleton] at hd
        rcases hd with hd | rfl
        · exact hin d hd
        · exact ⟨he.docs, hname, generics_nb he.generics,
            casesFacts_ok H e he contentKey (he.content _ hkeys) e.variants cases he.variants hc⟩
      | err e => rw [hc] at h; cases h
      | panic s => rw [hc] at h; cases h
  | err e => rw [hi] at h; cases h
  | panic s => rw [hi] at h; cases h

/-- the scope of one parsed item -/
abbrev ItemOk := ItemScope Lang.kotlin K DocsOk

theorem itemFacts_ok {cfg : Cfg} (H : CfgOk cfg) (it : RustItem) (hit : ItemOk it) (ds : List KtDecl)
    (h : itemFacts cfg it = .ok ds) : ∀ d ∈ ds, DeclOk d := by
  cases it with
  | struct s =>
    simp only [itemFacts] at h
    cases hd : structFacts cfg s with
    | ok d => rw [hd] at h; simp only [Outcome.bind] at h; cases h; simpa using structFacts_ok H s d hit hd
    | err e => rw [hd] at h; cases h
    | panic s => rw [hd] at h; cases h
  | «enum» e => exact enumFacts_ok H e hit ds h
  | alias a =>
    simp only [itemFacts] at h
    cases hd : aliasFacts cfg a with
    | ok d => rw [hd] at h; simp only [Outcome.bind] at h; cases h; simpa using aliasFacts_ok H a d hit hd
    | err e => rw [hd] at h; cases h
    | panic s => rw [hd] at h; cases h
  | const c => simp [itemFacts] at h


theorem itemsFacts_ok {cfg : Cfg} (H : CfgOk cfg) : ∀ (its : List RustItem) (ds : List KtDecl),
    (∀ it ∈ its, ItemOk it) → itemsFacts cfg its = .ok ds → ∀ d ∈ ds, DeclOk d
  | [], ds, _, h => by simp only [itemsFacts] at h; cases h; simp
  | it :: its, ds, hit, h => by
    simp only [itemsFacts] at h
    cases ha : itemFacts cfg it with
    | ok a =>
      rw [ha] at h; simp only [Outcome.bind] at h
      cases hb : itemsFacts cfg its with
      | ok b =>
        rw [hb] at h; simp only [Outcome.bind] at h; cases h
        intro d hd
        rcases List.mem_append.mp hd with hd | hd
        · exact itemFacts_ok H it (hit it (by simp)) a ha d hd
        · exact itemsFacts_ok H its b (fun x hx => hit x (by simp [hx])) hb d hd
      | err e => rw [hb] at h; cases h
      | panic s => rw [hb] at h; cases h
    | err e => rw [ha] at h; cases h
    | panic s => rw [ha] at h; cases h

/-! ## the file around the declarations -/

/-- the settings that reach the file header: the version text has no `*` or `/`, the package name and
the crate / type names of the import lines are dotted identifier fragments -/
structure FileOk (cfg : Cfg) (d : ParsedData) (imports : Option Pipeline.ScopedCrateTypes) : Prop where
  version : ∀ v, cfg.versionHeader = some v → Dotted v
  package : Dotted cfg.package
  crate : Dotted d.crateName
  imports : ∀ i, imports = some i → ∀ p ∈ i, Dotted p.1 ∧ ∀ t ∈ p.2, Dotted t

theorem beginFile_nb (cfg : Cfg) (d : ParsedData) (imports) (hf : FileOk cfg d imports) : NB K (beginFile cfg d) := by
  unfold beginFile
  split
  · exact NB.nil
  · nb_pieces
    · split
      · rename_i v hv
        intro stk
        have r1 : Run K s%"/**\n * Generated by typeshare " ⟨.code, stk⟩ ⟨.block, stk⟩ := rfl
        have r3 : Run K s%"\n */\n\n" ⟨.block, stk⟩ ⟨.code, stk⟩ := rfl
        exact (r1.append (dotted_block (cfg := K) v (hf.version v hv) stk)).append r3
      · exact NB.nil
    · split
      · nb_pieces
        · nb_lit
        · exact hf.package.nb
        · nb_lit
        · exact hf.crate.nb
        · exact NB.nl
      · nb_pieces
        · nb_lit
        · exact hf.package.nb
        · exact NB.nl
    · nb_lit

theorem writeImports_nb (cfg : Cfg) (i : Pipeline.ScopedCrateTypes) (hp : Dotted cfg.package)
    (hx : KeyStr cfg.pfx) (hi : ∀ p ∈ i, Dotted p.1 ∧ ∀ t ∈ p.2, Dotted t) : NB K (writeImports cfg i) := by
  unfold writeImports
  refine NB.append (NB.flatMap _ _ ?_) NB.nl
  intro p hpm
  obtain ⟨path, tys⟩ := p
  apply NB.flatMap
  intro t ht
  nb_pieces
  · nb_lit
  · exact hp.nb
  · nb_lit
  · exact (hi _ hpm).1.nb
  · nb_lit
  · exact hx.nb
  · exact ((hi _ hpm).2 t ht).nb
  · exact NB.nl

/-! ## what a declaration defines (binding semantics) -/

/-- the name a top-level declaration introduces -/
def declName : KtDecl → Str
  | .typeAlias _ n _ _ | .valueClass _ n _ _ | .object _ n | .dataClass _ n _ _ _
  | .enumClass _ n _ _ | .sealedClass _ n _ _ => n

theorem structFacts_name {cfg : Cfg} (rs : RustStruct) (d : KtDecl) (h : structFacts cfg rs = .ok d) :
    declName d = cfg.pfx ++ rs.id.renamed := by
  unfold structFacts at h
  split at h
  · cases h; rfl
  · simp only at h
    cases hp : paramsFacts cfg rs.genericTypes (rs.fields.any fun f => f.id.renamed.contains '-') rs.fields with
    | ok ps => rw [hp] at h; simp only [Outcome.bind] at h; cases h; rfl
    | err e => rw [hp] at h; cases h
    | panic s => rw [hp] at h; cases h

theorem aliasFacts_name {cfg : Cfg} (a : RustTypeAlias) (d : KtDecl) (h : aliasFacts cfg a = .ok d) :
    declName d = cfg.pfx ++ a.id.renamed := by
  unfold aliasFacts at h
  split at h
  · cases hp : paramFacts cfg [] false a.isRedacted (valueField a.ty) with
    | ok p => rw [hp] at h; simp only [Outcome.bind] at h; cases h; rfl
    | err e => rw [hp] at h; cases h
    | panic s => rw [hp] at h; cases h
  · cases hf : formatType cfg a.genericTypes a.ty with
    | ok ty => rw [hf] at h; simp only [Outcome.bind] at h; cases h; rfl
    | err e => rw [hf] at h; cases h
    | panic s => rw [hf] at h; cases h

theorem structsFacts_names {cfg : Cfg} : ∀ (ss : List RustStruct) (ds : List KtDecl),
    structsFacts cfg ss = .ok ds → ∀ d ∈ ds, ∃ s ∈ ss, declName d = cfg.pfx ++ s.id.renamed
  | [], ds, h => by simp only [structsFacts] at h; cases h; simp
  | s :: ss, ds, h => by
    simp only [structsFacts] at h
    cases hd : structFacts cfg s with
    | ok d =>
      rw [hd] at h; simp only [Outcome.bind] at h
      cases hr : structsFacts cfg ss with
      | ok ds' =>
        rw [hr] at h; simp only [Outcome.bind] at h; cases h
        intro x hx
        simp only [List.mem_cons] at hx
        rcases hx with rfl | hx
        · exact ⟨s, by simp, structFacts_name s _ hd⟩
        · obtain ⟨t, ht, hn⟩ := structsFacts_names ss ds' hr x hx
          exact ⟨t, by simp [ht], hn⟩
      | err e => rw [hr] at h; cases h
      | panic s => rw [hr] at h; cases h
    | err e => rw [hd] at h; cases h
    | panic s => rw [hd] at h; cases h

/-- item names that are identifiers (the complement of the dashed-name class) -/
def NamesIdent : RustItem → Prop
  | .struct s => isIdentifier s.id.renamed = true
  | .enum e => isIdentifier e.id.renamed = true ∧
      ∀ v ∈ e.variants, IdentStr v.id.original
  | .alias a => isIdentifier a.id.renamed = true   -- (the `typealias` is named after `id.renamed` since 0c924cd)
  | .const _ => True

/-- **every name a Kotlin declaration introduces is an identifier** when the item's names are -/
theorem declName_identifier {cfg : Cfg} (hp : IdentPrefix cfg.pfx) (it : RustItem) (hn : NamesIdent it)
    (ds : List KtDecl) (h : itemFacts cfg it = .ok ds) : ∀ d ∈ ds, isIdentifier (declName d) = true := by
  cases it with
  | struct s =>
    simp only [itemFacts] at h
    cases hd : structFacts cfg s with
    | ok d =>
      rw [hd] at h; simp only [Outcome.bind] at h; cases h
      intro x hx
      simp only [List.mem_singleton] at hx; subst hx
      rw [structFacts_name s _ hd]; exact isIdentifier_prefixed hp hn
    | err e => rw [hd] at h; cases h
    | panic s => rw [hd] at h; cases h
  | alias a =>
    simp only [itemFacts] at h
    cases hd : aliasFacts cfg a with
    | ok d =>
      rw [hd] at h; simp only [Outcome.bind] at h; cases h
      intro x hx
      simp only [List.mem_singleton] at hx; subst hx
      rw [aliasFacts_name a _ hd]
      exact isIdentifier_prefixed hp hn
    | err e => rw [hd] at h; cases h
    | panic s => rw [hd] at h; cases h
  | const c => simp [itemFacts] at h
  | «enum» e =>
    simp only [itemFacts, enumFacts] at h
    cases hi : structsFacts cfg (innerStructs e) with
    | ok inners =>
      rw [hi] at h; simp only [Outcome.bind] at h
      have hinner : ∀ d ∈ inners, isIdentifier (declName d) = true := by
        intro d hd
        obtain ⟨s, hs, hnm⟩ := structsFacts_names _ inners hi d hd
        rw [hnm]
        simp only [innerStructs, List.mem_map] at hs
        obtain ⟨⟨id, fields⟩, hmem, rfl⟩ := hs
        simp only [structVariants, List.mem_filterMap] at hmem
        obtain ⟨v, hv, hsome⟩ := hmem
        have hvo := hn.2 v hv
        cases v with
        | unit _ _ => simp at hsome
        | tuple _ _ _ => simp at hsome
        | anonymousStruct vid cs fs =>
          simp only [Option.some.injEq, Prod.mk.injEq] at hsome
          obtain ⟨rfl, rfl⟩ := hsome
          refine isIdentifier_prefixed hp ?_
          simp only [anonymousStruct]
          exact isIdentifier_append (isIdentifier_append hn.1 hvo) (by decide : IdentStr s%"Inner")
      split at h
      · cases h
        intro d hd
        simp only [List.mem_append, List.mem_singleton] at hd
        rcases hd with hd | rfl
        · exact hinner d hd
        · exact isIdentifier_prefixed hp hn.1
      · rename_i tag contentKey hkeys
        cases hc : casesFacts cfg e contentKey e.variants with
        | ok cases =>
          rw [hc] at h; simp only [Outcome.bind] at h; cases h
          intro d hd
          simp only [List.mem_append, List.mem_singleton] at hd
          rcases hd with hd | rfl
          · exact hinner d hd
          · exact isIdentifier_prefixed hp hn.1
        | err e => rw [hc] at h; cases h
        | panic s => rw [hc] at h; cases h
    | err e => rw [hi] at h; cases h
    | panic s => rw [hi] at h; cases h

end TsV.C10Kotlin
