import TsV.Model.Sx
import TsV.Model.Syn
/-!
# s-expression → `Syn` decoders (driver glue; not used by theorems)

Encoding (one constructor = one tagged list):
* Lit: `(s "text")` | `(i 12 "u8")` | `o`
* Meta: `(p seg…)` | `(nv (seg…) <lit>|none)` | `(l (seg…) true|false <meta>…)`
* Attr: a Meta
* Type: `(tuple t…)` | `(ref t)` | `(path (qual…) last t…)` | `(array t n|none)` | `(slice t)` | `other`
* Field: `(f (attr…) "ident"|none type)`
* Fields: `(named f…)` | `(unnamed f…)` | `unit`
* Variant: `(v (attr…) "ident" fields)`
* Generic: `(ty "T")` | `lt` | `const`
* UseTree: `(upath "id" tree)` | `(uname "id")` | `(urename "id" "as")` | `uglob` | `(ugroup tree…)`
* Item: `(struct (attr…) "id" (gen…) fields)` | `(enum (attr…) "id" (gen…) (variant…))`
        | `(alias (attr…) "id" (gen…) type)` | `(const (attr…) "id" type <lit>|none)` | `(use tree)`
        | `(mod (attr…) "id" (item…))` | `(other ((seg…)…) (item…))`
* File: `(file (attr…) (item…) true|false)`
-/
namespace TsV.Decode
open TsV TsV.Syn

def strs (xs : List Sx) : Option (List Str) := xs.mapM Sx.asStr?

def lit : Sx → Option Lit
  | .list [.atom "s", .str s] => some (.str s)
  | .list [.atom "i", n, .str suf] => do some (.int (← n.asNat?) suf)
  | .atom "o" => some .other
  | _ => none

partial def meta' : Sx → Option Meta
  | .list (.atom "p" :: segs) => do some (.path (← strs segs))
  | .list [.atom "nv", .list segs, .atom "none"] => do some (.nameValue (← strs segs) none)
  | .list [.atom "nv", .list segs, l] => do some (.nameValue (← strs segs) (some (← lit l)))
  | .list (.atom "l" :: .list segs :: parsed :: args) => do
    some (.list (← strs segs) (← parsed.asBool?) (← args.mapM meta'))
  | _ => none

def attrs (x : Sx) : Option (List Attr) := do
  (← x.asList?).mapM fun m => do some ⟨← meta' m⟩

partial def ty : Sx → Option SynType
  | .list (.atom "tuple" :: es) => do some (.tuple (← es.mapM ty))
  | .list [.atom "ref", e] => do some (.reference (← ty e))
  | .list (.atom "path" :: .list quals :: .str last :: args) => do
    some (.path (← strs quals) last (← args.mapM ty))
  | .list [.atom "array", e, .atom "none"] => do some (.array (← ty e) none)
  | .list [.atom "array", e, n] => do some (.array (← ty e) (some (← n.asNat?)))
  | .list [.atom "slice", e] => do some (.slice (← ty e))
  | .atom "other" => some .other
  | _ => none

def field : Sx → Option Field
  | .list [.atom "f", a, .atom "none", t] => do some ⟨← attrs a, none, ← ty t⟩
  | .list [.atom "f", a, .str id, t] => do some ⟨← attrs a, some id, ← ty t⟩
  | _ => none

def fields : Sx → Option Fields
  | .list (.atom "named" :: fs) => do some (.named (← fs.mapM field))
  | .list (.atom "unnamed" :: fs) => do some (.unnamed (← fs.mapM field))
  | .atom "unit" => some .unit
  | _ => none

def variant : Sx → Option Variant
  | .list [.atom "v", a, .str id, fs] => do some ⟨← attrs a, id, ← fields fs⟩
  | _ => none

def generic : Sx → Option GenericParam
  | .list [.atom "ty", .str n] => some (.type n)
  | .atom "lt" => some .lifetime
  | .atom "const" => some .const
  | _ => none

def generics (x : Sx) : Option (List GenericParam) := do (← x.asList?).mapM generic

partial def useTree : Sx → Option UseTree
  | .list [.atom "upath", .str id, t] => do some (.path id (← useTree t))
  | .list [.atom "uname", .str id] => some (.name id)
  | .list [.atom "urename", .str id, .str a] => some (.rename id a)
  | .atom "uglob" => some .glob
  | .list (.atom "ugroup" :: ts) => do some (.group (← ts.mapM useTree))
  | _ => none

partial def item : Sx → Option Item
  | .list [.atom "struct", a, .str id, g, fs] => do
    some (.struct (← attrs a) id (← generics g) (← fields fs))
  | .list [.atom "enum", a, .str id, g, .list vs] => do
    some (.enum (← attrs a) id (← generics g) (← vs.mapM variant))
  | .list [.atom "alias", a, .str id, g, t] => do
    some (.alias (← attrs a) id (← generics g) (← ty t))
  | .list [.atom "const", a, .str id, t, .atom "none"] => do
    some (.const (← attrs a) id (← ty t) none)
  | .list [.atom "const", a, .str id, t, l] => do
    some (.const (← attrs a) id (← ty t) (some (← lit l)))
  | .list [.atom "use", t] => do some (.use (← useTree t))
  | .list [.atom "mod", a, .str id, .list is] => do
    some (.mod (← attrs a) id (← is.mapM item))
  | .list [.atom "other", .list ps, .list is] => do
    let paths ← ps.mapM fun p => do strs (← p.asList?)
    some (.other paths (← is.mapM item))
  | _ => none

def file : Sx → Option File
  | .list [.atom "file", a, .list is, marker] => do
    some ⟨← attrs a, ← is.mapM item, ← marker.asBool?⟩
  | _ => none

end TsV.Decode
