import TsV.Props.C03_Emission
import TsV.Props.C01
import TsV.Props.C02
import TsV.Props.C04
import TsV.Props.C05
import TsV.Props.C09
import TsV.Props.C11_Coverage
/-!
# Capstone — the language-independent part of the composition

From `Generate.run … [f] = .ok (.outputs outs)` to "this source item of `f` was parsed to `p`, the
back end received `recItem … p`", and what `reconcile` (`recItem`) leaves alone: identifiers, keys,
`serde(default)`, decorators, optionality — so that the per-item theorems (C01, C02, C04, C05), which
speak about one parsed item, apply to what the back end printed.

Glue definitions of this file (no new specification, only packaging; listed in the report):
`Forall₃`, `FieldFrom`, `progOf`.
-/
namespace TsV.Cap
open TsV TsV.Syn TsV.Parser TsV.Pipeline TsV.Generate TsV.C03E TsV.Lang TsV.Outcome

/-! ## the parsed items of the file, aligned with the source items -/

theorem okItems_all : ∀ (outs : List (Outcome RustItem)), (∀ o ∈ outs, NP o) → errKinds outs = [] →
    outs = (okItems outs).map Outcome.ok
  | [], _, _ => rfl
  | .ok it :: r, hnp, h => by
    have := okItems_all r (fun o ho => hnp o (by simp [ho])) (by simpa [errKinds] using h)
    simp only [okItems, List.map_cons]
    rw [← this]
  | .err e :: r, _, h => by simp [errKinds] at h
  | .panic s :: r, hnp, _ => by
    have := hnp (.panic s) (by simp)
    simp [NP, Outcome.isPanic] at this

/-- **every annotated accepted item parsed** (when there is no parse error): the parsed items are the
source items, in order, each the result of the item parser -/
theorem parsed_aligned (E : Ext) (ctx : ParseContext) (f : Syn.File) (h : parseErrs E ctx f = []) :
    (sourceItems ctx f).map (C03.parseItem E ctx) = (parsedItems E ctx f).map Outcome.ok := by
  unfold parsedItems
  exact okItems_all _ (by
    intro o ho
    simp only [List.mem_map] at ho
    obtain ⟨it, _, rfl⟩ := ho
    exact C03.parseItem_np E ctx it) h

theorem mem_okItems {p : RustItem} : ∀ {outs : List (Outcome RustItem)}, Outcome.ok p ∈ outs → p ∈ okItems outs
  | [], h => by simp at h
  | .ok it :: r, h => by
    simp only [List.mem_cons, Outcome.ok.injEq] at h
    rcases h with rfl | h
    · simp [okItems]
    · simp [okItems, mem_okItems h]
  | .err e :: r, h => by
    simp only [List.mem_cons, reduceCtorEq, false_or] at h
    simpa [okItems] using mem_okItems h
  | .panic s :: r, h => by
    simp only [List.mem_cons, reduceCtorEq, false_or] at h
    simpa [okItems] using mem_okItems h

/-- a source item that parses is among the parsed items -/
theorem mem_parsed (E : Ext) (ctx : ParseContext) (f : Syn.File) {src : Item} {p : RustItem}
    (hs : src ∈ sourceItems ctx f) (hp : C03.parseItem E ctx src = .ok p) : p ∈ parsedItems E ctx f := by
  unfold parsedItems
  exact mem_okItems (List.mem_map.2 ⟨src, hs, hp⟩)

/-- … and its reconciled form is among the items handed to the back end -/
theorem mem_emitted (E : Ext) (lang : LangCfg) (targetOs : List Str) (f : SourceFile) {src : Item} {p : RustItem}
    (hs : src ∈ sourceItems (ctxOf lang targetOs) f.file) (hp : C03.parseItem E (ctxOf lang targetOs) src = .ok p) :
    recItem f.crateName (renamesFor f.crateName (parsedItems E (ctxOf lang targetOs) f.file)) p ∈
      C03_Emission.emitted E lang targetOs f :=
  List.mem_map.2 ⟨p, mem_parsed E _ _ hs hp, rfl⟩

theorem getElem?_of_perm_mem {α} {l l' : List α} (h : l.Perm l') {a : α} (ha : a ∈ l') : ∃ k : Nat, l[k]? = some a :=
  List.getElem?_of_mem (h.symm.subset ha)

/-! ## what `reconcile` leaves alone -/

theorem checkType_isOptional (c : Str) (r : Renames) (i : List ImportedType) (t : RustType) :
    (checkType c r i t).isOptional = t.isOptional := by
  cases t with
  | simple id => cases h : resolveRenamed c r i id <;> simp [checkType, RustType.isOptional, h]
  | generic id ps => cases h : resolveRenamed c r i id <;> simp [checkType, RustType.isOptional, h]
  | _ => simp [checkType, RustType.isOptional]

theorem checkType_stripOption (c : Str) (r : Renames) (i : List ImportedType) (t : RustType) :
    C04.stripOption (checkType c r i t) = checkType c r i (C04.stripOption t) := by
  cases t with
  | simple id => cases h : resolveRenamed c r i id <;> simp [checkType, C04.stripOption, h]
  | generic id ps => cases h : resolveRenamed c r i id <;> simp [checkType, C04.stripOption, h]
  | _ => simp [checkType, C04.stripOption]

theorem checkType_isDoubleOptional (c : Str) (r : Renames) (i : List ImportedType) (t : RustType) :
    (checkType c r i t).isDoubleOptional = t.isDoubleOptional := by
  rw [Bool.eq_iff_iff, C04.isDoubleOptional_iff, C04.isDoubleOptional_iff, checkType_isOptional,
    checkType_stripOption, checkType_isOptional]

@[simp] theorem checkField_id (c : Str) (r : Renames) (i : List ImportedType) (f : RustField) :
    (checkField c r i f).id = f.id := rfl
@[simp] theorem checkField_hasDefault (c : Str) (r : Renames) (i : List ImportedType) (f : RustField) :
    (checkField c r i f).hasDefault = f.hasDefault := rfl
@[simp] theorem checkField_decorators (c : Str) (r : Renames) (i : List ImportedType) (f : RustField) :
    (checkField c r i f).decorators = f.decorators := rfl
@[simp] theorem checkField_ty (c : Str) (r : Renames) (i : List ImportedType) (f : RustField) :
    (checkField c r i f).ty = checkType c r i f.ty := rfl

theorem checkField_opt (c : Str) (r : Renames) (i : List ImportedType) (f : RustField) :
    C04.opt (checkField c r i f) = C04.opt f := by
  simp [C04.opt, checkType_isOptional]

theorem checkField_typeOverride (c : Str) (r : Renames) (i : List ImportedType) (f : RustField) (l : TsV.Lang) :
    typeOverride (checkField c r i f) l = typeOverride f l := rfl

/-- the struct a back end receives for the parsed struct `rs` -/
def recStruct (c : Str) (r : Renames) (rs : RustStruct) : RustStruct :=
  { rs with fields := rs.fields.map (checkField c r []) }

/-- the enum a back end receives for the parsed enum `e` -/
def recEnum (c : Str) (r : Renames) (e : RustEnum) : RustEnum :=
  { e with variants := e.variants.map (checkVariant c r []) }

theorem recItem_struct (c : Str) (r : Renames) (rs : RustStruct) : recItem c r (.struct rs) = .struct (recStruct c r rs) := rfl
theorem recItem_enum (c : Str) (r : Renames) (e : RustEnum) : recItem c r (.enum e) = .enum (recEnum c r e) := rfl

theorem recStruct_ids (c : Str) (r : Renames) (rs : RustStruct) :
    C01.fieldIds (recStruct c r rs).fields = C01.fieldIds rs.fields :=
  C01.reconcile_keeps_ids c r [] rs.fields

theorem recEnum_ids (c : Str) (r : Renames) (e : RustEnum) :
    (structVariants (recEnum c r e)).map (fun p => C01.fieldIds p.2) =
      (structVariants e).map (fun p => C01.fieldIds p.2) :=
  C01.reconcile_keeps_variant_ids c r [] e

theorem recEnum_variant_ids (c : Str) (r : Renames) (e : RustEnum) :
    (recEnum c r e).variants.map (·.id) = e.variants.map (·.id) := by
  simp [recEnum, List.map_map, Function.comp_def, checkVariant_id]

/-- the scope of C02's back-end half is not touched by `reconcile` -/
theorem recEnum_inScope (c : Str) (r : Renames) (e : RustEnum) (h : C02.InScopeEnum e) :
    C02.InScopeEnum (recEnum c r e) := by
  constructor
  · intro v hv
    simp only [recEnum, List.mem_map] at hv
    obtain ⟨v0, hv0, rfl⟩ := hv
    rw [checkVariant_id]
    exact h.camel v0 hv0
  · have : (recEnum c r e).variants.map (·.id.original) = e.variants.map (·.id.original) := by
      simp [recEnum, List.map_map, Function.comp_def, checkVariant_id]
    rw [this]
    exact h.distinct

/-- … nor is what `Correct` says: names, keys and distinctness only read the identifiers and the keys -/
theorem correct_recEnum (c : Str) (r : Renames) (e : RustEnum) (w : C02.EnumWire)
    (h : w.Correct (recEnum c r e)) : w.Correct e := by
  refine ⟨?_, h.distinct, ?_⟩
  · have := h.names
    unfold C02.EnumWire.Names at this ⊢
    rw [this]
    simp [recEnum, List.map_map, Function.comp_def, checkVariant_id]
  · have := h.keys
    unfold C02.EnumWire.Keys at this ⊢
    exact this

theorem variantIsUnit_check (c : Str) (r : Renames) (v : RustEnumVariant) :
    variantIsUnit (checkVariant c r [] v) = variantIsUnit v := by
  cases v <;> rfl

/-! ## three lists, position by position -/

/-- three lists of the same length related position by position -/
inductive Forall₃ {α β γ : Type} (R : α → β → γ → Prop) : List α → List β → List γ → Prop
  | nil : Forall₃ R [] [] []
  | cons {a b c as bs cs} : R a b c → Forall₃ R as bs cs → Forall₃ R (a :: as) (b :: bs) (c :: cs)

theorem Forall₃.mk' {α β γ : Type} {P : α → β → Prop} {Q : β → γ → Prop} :
    ∀ {as : List α} {bs : List β} {cs : List γ}, C01.Forall₂ P as bs → C04.Pointwise Q bs cs →
      Forall₃ (fun a b c => P a b ∧ Q b c) as bs cs
  | _, _, _, .nil, .nil => .nil
  | _, _, _, .cons h1 t1, .cons h2 t2 => .cons ⟨h1, h2⟩ (Forall₃.mk' t1 t2)

theorem Forall₃.mk₂ {α β γ : Type} {P : α → β → Prop} {Q : β → γ → Prop} :
    ∀ {as : List α} {bs : List β} {cs : List γ}, C01.Forall₂ P as bs → C01.Forall₂ Q bs cs →
      Forall₃ (fun a b c => P a b ∧ Q b c) as bs cs
  | _, _, _, .nil, .nil => .nil
  | _, _, _, .cons h1 t1, .cons h2 t2 => .cons ⟨h1, h2⟩ (Forall₃.mk₂ t1 t2)

theorem Forall₃.imp {α β γ : Type} {R S : α → β → γ → Prop} (h : ∀ a b c, R a b c → S a b c) :
    ∀ {as : List α} {bs : List β} {cs : List γ}, Forall₃ R as bs cs → Forall₃ S as bs cs
  | _, _, _, .nil => .nil
  | _, _, _, .cons hr t => .cons (h _ _ _ hr) (Forall₃.imp h t)

/-- index form -/
theorem Forall₃.get {α β γ : Type} {R : α → β → γ → Prop} :
    ∀ {as : List α} {bs : List β} {cs : List γ}, Forall₃ R as bs cs →
      as.length = bs.length ∧ bs.length = cs.length ∧
      ∀ (i : Nat) a b c, as[i]? = some a → bs[i]? = some b → cs[i]? = some c → R a b c
  | _, _, _, .nil => ⟨rfl, rfl, fun i a b c h => by simp at h⟩
  | _, _, _, .cons hr t => by
    obtain ⟨h1, h2, h3⟩ := Forall₃.get t
    refine ⟨by simp [h1], by simp [h2], ?_⟩
    intro i a b c ha hb hc
    cases i with
    | zero => simp at ha hb hc; subst ha hb hc; exact hr
    | succ j => exact h3 j a b c (by simpa using ha) (by simpa using hb) (by simpa using hc)

theorem pointwise_of_forall₂ {α β} {R : α → β → Prop} : ∀ {l1 : List α} {l2 : List β},
    C01.Forall₂ R l1 l2 → C04.Pointwise R l1 l2
  | _, _, .nil => .nil
  | _, _, .cons h t => .cons h (pointwise_of_forall₂ t)

theorem forall₂_of_pointwise {α β} {R : α → β → Prop} : ∀ {l1 : List α} {l2 : List β},
    C04.Pointwise R l1 l2 → C01.Forall₂ R l1 l2
  | _, _, .nil => .nil
  | _, _, .cons h t => .cons h (forall₂_of_pointwise t)

/-! ## source field ↦ the field the back end receives -/

/-- the field `rf'` a back end receives comes from the source field `f` of a container whose
`rename_all` is `ra`: parsed by `parse_field`, its type rewritten by `reconcile` -/
def FieldFrom (E : Ext) (ra : Option Str) (c : Str) (r : Renames) (f : Field) (rf' : RustField) : Prop :=
  ∃ rf, parseField E true ra f = .ok rf ∧ rf' = checkField c r [] rf

theorem parseStruct_fields (E : Ext) (targetOs : List Str) (attrs : List Attr)
    (ident : Str) (gens : List GenericParam) (fs : List Field) (rs : RustStruct)
    (h : parseStruct E targetOs attrs ident gens (.named fs) = .ok (.struct rs)) :
    C01.Forall₂ (fun f rf => parseField E true (serdeRenameAll E attrs) f = .ok rf) (C01.kept targetOs fs) rs.fields := by
  unfold parseStruct at h
  split at h
  · unfold serializedAlias at h
    obtain ⟨ty, _, h2⟩ := (bind_eq_ok _ _ _).1 h
    exact absurd h2 (C01.mkAlias_not_struct _ _ _ _ _ _)
  · simp only at h
    obtain ⟨rfs, h1, h2⟩ := (bind_eq_ok _ _ _).1 h
    obtain ⟨rs', h3, h4⟩ := C01.mkStruct_fields _ _ _ _ _ _ h2
    cases h3
    rw [h4]
    exact C01.mapM'_forall₂ _ _ _ h1

/-- **every kept source field of a struct, in order, is the origin of one field of the reconciled struct** -/
theorem parseStruct_fieldsFrom (E : Ext) (targetOs : List Str) (attrs : List Attr)
    (ident : Str) (gens : List GenericParam) (fs : List Field) (rs : RustStruct) (c : Str) (r : Renames)
    (h : parseStruct E targetOs attrs ident gens (.named fs) = .ok (.struct rs)) :
    C01.Forall₂ (FieldFrom E (serdeRenameAll E attrs) c r) (C01.kept targetOs fs) (recStruct c r rs).fields :=
  C01.forall₂_map_right (R := FieldFrom E (serdeRenameAll E attrs) c r) _
    (C01.forall₂_imp (fun _ rf hf => ⟨rf, hf, rfl⟩) (parseStruct_fields E targetOs attrs ident gens fs rs h))

/-- **C04's parse clause through `reconcile`**: the field the back end receives is optional (C04's ground
truth `opt`) exactly when the written type (after `serialized_as`) is `Option<_>` or the field carries the
bare `serde(default)`; its decorators and `Option`-ness are those of the parsed field -/
theorem fieldFrom_opt {E : Ext} {ra : Option Str} {c : Str} {r : Renames} {f : Field} {rf' : RustField}
    (h : FieldFrom E ra c r f rf') :
    ∃ t ty, C04.effectiveType E f.attrs f.ty = some t ∧ RustTypes.tryFrom t = .ok ty ∧
      rf'.ty = checkType c r [] ty ∧
      C04.opt rf' = (C04.isOptionSyn t || C04.bareDefault f.attrs) ∧
      rf'.ty.isDoubleOptional = C04.isDoubleOptionSyn t ∧
      rf'.decorators = getFieldDecorators E f.attrs := by
  obtain ⟨rf, hp, rfl⟩ := h
  obtain ⟨hd, hty⟩ := C04.parseField_ok E true ra f rf hp
  obtain ⟨t, het, htf⟩ := C04.fieldType_spec E f.attrs f.ty rf.ty hty
  refine ⟨t, rf.ty, het, htf, rfl, ?_, ?_, ?_⟩
  · rw [checkField_opt, C04.opt, hd, C04.serdeDefault_eq, C04.isOptional_spec t _ htf]
  · rw [← C04.isDoubleOptional_spec t _ htf]
    exact checkType_isDoubleOptional c r [] rf.ty
  · unfold parseField at hp
    obtain ⟨ty, _, hp⟩ := (bind_eq_ok _ _ _).1 hp
    split at hp
    · cases hp
    · obtain ⟨id, _, hp⟩ := (bind_eq_ok _ _ _).1 hp
      cases hp
      rfl

/-! ## the parsed items of one kind are parse results of that kind -/

theorem parseItem_struct (E : Ext) (lang : LangCfg) (targetOs : List Str) (attrs : List Attr) (ident : Str)
    (gens : List GenericParam) (fields : Fields) :
    C03.parseItem E (ctxOf lang targetOs) (.struct attrs ident gens fields) =
      parseStruct E targetOs attrs ident gens fields := rfl

theorem parseItem_enum (E : Ext) (lang : LangCfg) (targetOs : List Str) (attrs : List Attr) (ident : Str)
    (gens : List GenericParam) (vs : List Variant) :
    C03.parseItem E (ctxOf lang targetOs) (.enum attrs ident gens vs) = parseEnum E targetOs attrs ident gens vs := rfl

end TsV.Cap
