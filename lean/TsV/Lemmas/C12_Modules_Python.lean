import TsV.Lemmas.C12_Python
/-!
# C12_Modules, Python — the printer state along a folder run

`Python::generate_types` never clears `imports`, `type_variables` and
`types_for_custom_json_translation`: the state of one crate's module is the start state of the next.
`C12L.Python.generate_spec` holds for every start state; what it cannot say is that the *header* a
module writes from a leaked state is closed in itself: the lines `X = TypeVar("X")` (one per leaked
type variable) use the name `TypeVar`.  This file proves the run invariant that makes it so:

* `TV st st'` — a printer step leaves the set of type variables alone or ends in a state that
  imports `TypeVar`; proved for every printer function (`generate_tv`);
* `Inv st` — "type variables declared ⇒ `TypeVar` imported" holds for the empty state and is
  preserved by every module of a run (`generate_inv`).
-/
namespace TsV.C12_Modules.Py
open TsV TsV.Lang TsV.Lang.Python TsV.C12L TsV.C12L.Python

/-- a printer step either does not touch the type variables or ends with `TypeVar` imported -/
def TV (st st' : St) : Prop := st'.typeVars = st.typeVars ∨ Provides st' impTypeVar

theorem TV.refl (st : St) : TV st st := .inl rfl

theorem TV.of_eq {st st' : St} (h : st'.typeVars = st.typeVars) : TV st st' := .inl h

theorem TV.trans {a b c : St} (h1 : TV a b) (h2 : TV b c) (hm : Mono b c) : TV a c := by
  rcases h2 with h2 | h2
  · rcases h1 with h1 | h1
    · exact .inl (h2.trans h1)
    · exact .inr (hm _ h1)
  · exact .inr h2

@[simp] theorem tv_addImport (st : St) (m i : Str) : (addImport st m i).typeVars = st.typeVars := rfl
@[simp] theorem tv_addCustom (st : St) (t : Str) : (addCustom st t).typeVars = st.typeVars := rfl
@[simp] theorem tv_addImports (st : St) (t : Str) : (addImports st t).typeVars = st.typeVars := by
  unfold addImports
  split
  · rfl
  · split <;> rfl
@[simp] theorem tv_addCommonImports (st : St) (a b c : Bool) : (addCommonImports st a b c).typeVars = st.typeVars := by
  unfold addCommonImports
  cases a <;> cases b <;> cases c <;> rfl
@[simp] theorem tv_addDatetimeImport (st : St) : (addDatetimeImport st).typeVars = st.typeVars := by
  unfold addDatetimeImport; split <;> rfl

theorem special_tv (cfg : Cfg) (t : RustType) (st : St) (k : St → Outcome (Str × St)) (s : Str) (st' : St)
    (hk : ∀ s st', k st = .ok (s, st') → st'.typeVars = st.typeVars)
    (h : special cfg t st k = .ok (s, st')) : st'.typeVars = st.typeVars := by
  unfold special at h
  cases hm : mapGet cfg.typeMappings t.display with
  | some m =>
    rw [hm] at h
    simp only [Outcome.ok.injEq, Prod.mk.injEq] at h
    rw [← h.2]
    split <;> rfl
  | none => rw [hm] at h; exact hk s st' h

theorem wrap_tv (cfg : Cfg) (gens : List Str) (r : RustType) (st : St) (m i : Str) (pre post : Str) (s : Str) (st' : St)
    (ih : ∀ st s st', formatType cfg gens r st = .ok (s, st') → st'.typeVars = st.typeVars)
    (h : ((formatType cfg gens r (addImport st m i)).bind fun (x : Str × St) =>
      Outcome.ok (pre ++ x.1 ++ post, x.2)) = .ok (s, st')) : st'.typeVars = st.typeVars := by
  simp only [bind_ok_iff] at h
  obtain ⟨⟨s1, st1⟩, h1, h2⟩ := h
  simp only [Outcome.ok.injEq, Prod.mk.injEq] at h2
  rw [← h2.2, ih _ s1 st1 h1]; rfl

mutual
  /-- formatting a type never touches the type variables -/
  theorem formatType_tv (cfg : Cfg) (gens : List Str) : ∀ (t : RustType) (st : St) (s : Str) (st' : St),
      formatType cfg gens t st = .ok (s, st') → st'.typeVars = st.typeVars
    | .simple id, st, s, st', h => by
      simp only [formatType, formatSimple, Outcome.ok.injEq, Prod.mk.injEq] at h
      rw [← h.2]; simp
    | .generic id ps, st, s, st', h => by
      simp only [formatType] at h
      cases hm : mapGet cfg.typeMappings id with
      | some m =>
        rw [hm] at h
        simp only [Outcome.ok.injEq, Prod.mk.injEq] at h
        rw [← h.2]; simp
      | none =>
        rw [hm] at h
        simp only at h
        cases hps : formatTypes cfg gens ps (addImports st id) with
        | ok r =>
          obtain ⟨strs, st1⟩ := r
          rw [hps] at h
          simp only [formatSimple, Outcome.ok.injEq, Prod.mk.injEq] at h
          rw [← h.2, tv_addImports, formatTypes_tv cfg gens ps _ strs st1 hps, tv_addImports]
        | err e => rw [hps] at h; simp at h
        | panic e => rw [hps] at h; simp at h
    | .vec r, st, s, st', h => by
      simp only [formatType] at h
      exact special_tv cfg _ st _ s st' (fun s st' hk => wrap_tv cfg gens r st _ _ _ _ s st' (formatType_tv cfg gens r) hk) h
    | .slice r, st, s, st', h => by
      simp only [formatType] at h
      exact special_tv cfg _ st _ s st' (fun s st' hk => wrap_tv cfg gens r st _ _ _ _ s st' (formatType_tv cfg gens r) hk) h
    | .array r n, st, s, st', h => by
      simp only [formatType] at h
      exact special_tv cfg _ st _ s st' (fun s st' hk => wrap_tv cfg gens r st _ _ _ _ s st' (formatType_tv cfg gens r) hk) h
    | .option r, st, s, st', h => by
      simp only [formatType] at h
      exact special_tv cfg _ st _ s st' (fun s st' hk => wrap_tv cfg gens r st _ _ _ _ s st' (formatType_tv cfg gens r) hk) h
    | .hashMap k v, st, s, st', h => by
      simp only [formatType] at h
      refine special_tv cfg _ st _ s st' (fun s st' hk => ?_) h
      have key : ((formatType cfg gens k (addImport st kTyping s%"Dict")).bind fun (ks, st) =>
            (formatType cfg gens v st).bind fun (vs, st) =>
              .ok (s%"Dict[" ++ ks ++ s%", " ++ vs ++ s%"]", st)) = .ok (s, st') → st'.typeVars = st.typeVars := by
        intro hxo
        simp only [bind_ok_iff] at hxo
        obtain ⟨⟨s1, st1⟩, h1, ⟨s2, st2⟩, h2, h3⟩ := hxo
        simp only [Outcome.ok.injEq, Prod.mk.injEq] at h3
        rw [← h3.2, formatType_tv cfg gens v _ s2 st2 h2, formatType_tv cfg gens k _ s1 st1 h1]; rfl
      split at hk
      · split at hk
        · simp at hk
        · exact key hk
      · exact key hk
    | .prim p, st, s, st', h => by
      simp only [formatType] at h
      refine special_tv cfg _ st _ s st' (fun s st' hk => ?_) h
      cases p <;> simp only [Outcome.ok.injEq, Prod.mk.injEq] at hk <;> rw [← hk.2] <;> rfl
  theorem formatTypes_tv (cfg : Cfg) (gens : List Str) : ∀ (ts : List RustType) (st : St) (ss : List Str) (st' : St),
      formatTypes cfg gens ts st = .ok (ss, st') → st'.typeVars = st.typeVars
    | [], st, ss, st', h => by
      simp only [formatTypes, Outcome.ok.injEq, Prod.mk.injEq] at h
      rw [← h.2]
    | t :: ts, st, ss, st', h => by
      simp only [formatTypes, bind_ok_iff] at h
      obtain ⟨⟨s1, st1⟩, h1, ⟨s2, st2⟩, h2, h3⟩ := h
      simp only [Outcome.ok.injEq, Prod.mk.injEq] at h3
      rw [← h3.2, formatTypes_tv cfg gens ts st1 s2 st2 h2, formatType_tv cfg gens t st s1 st1 h1]
end

theorem fieldFacts_tv (E : Ext) (cfg : Cfg) (gens : List Str) (f : RustField) (st : St) (pf : PyField) (st' : St)
    (h : fieldFacts E cfg gens f st = .ok (pf, st')) : st'.typeVars = st.typeVars := by
  simp only [fieldFacts, bind_ok_iff] at h
  obtain ⟨⟨ty, st1⟩, h1, h2⟩ := h
  have := formatType_tv cfg gens f.ty st ty st1 h1
  cases hj : jsonTranslation ty with
  | none =>
    simp only [hj, Outcome.ok.injEq, Prod.mk.injEq] at h2
    rw [← h2.2]; simp [this]
  | some c =>
    simp only [hj, Outcome.ok.injEq, Prod.mk.injEq] at h2
    rw [← h2.2]; simp [this]

theorem fieldsFacts_tv (E : Ext) (cfg : Cfg) (gens : List Str) : ∀ (fs : List RustField) (st : St) r (st' : St),
    fieldsFacts E cfg gens fs st = .ok (r, st') → st'.typeVars = st.typeVars
  | [], st, r, st', h => by
    simp only [fieldsFacts, Outcome.ok.injEq, Prod.mk.injEq] at h
    rw [← h.2]
  | f :: fs, st, r, st', h => by
    simp only [fieldsFacts, bind_ok_iff] at h
    obtain ⟨⟨a, st1⟩, h1, ⟨b, st2⟩, h2, h3⟩ := h
    simp only [Outcome.ok.injEq, Prod.mk.injEq] at h3
    rw [← h3.2, fieldsFacts_tv E cfg gens fs st1 b st2 h2, fieldFacts_tv E cfg gens f st a st1 h1]

theorem tv_ite {c : Prop} [Decidable c] (a b st : St) (ha : a.typeVars = st.typeVars) (hb : b.typeVars = st.typeVars) :
    (if c then a else b).typeVars = st.typeVars := by split <;> assumption

theorem mono_ite {c : Prop} [Decidable c] (a b st : St) (ha : Mono st a) (hb : Mono st b) :
    Mono st (if c then a else b) := by split <;> assumption

/-- registering the generic parameters of an item: nothing for none, else `TypeVar` is imported -/
theorem foldl_addTypeVar_tv (gs : List Str) (st : St) : TV st (gs.foldl addTypeVar st) := by
  cases gs with
  | nil => exact .inl rfl
  | cons g gs => exact .inr (provides_foldl_addTypeVar (g :: gs) st g (by simp)).2

theorem structFacts_tv (E : Ext) (cfg : Cfg) (rs : RustStruct) (st : St) (c : PyClass) (st' : St)
    (h : structFacts E cfg rs st = .ok (c, st')) : TV st st' := by
  simp only [structFacts, bind_ok_iff] at h
  obtain ⟨⟨fields, st1⟩, h1, h2⟩ := h
  simp only [Outcome.ok.injEq, Prod.mk.injEq] at h2
  rw [← h2.2]
  generalize hA : rs.genericTypes.foldl addTypeVar (addImport st kPydantic s%"BaseModel") = stA at h1
  have htvA : TV st stA := by
    rw [← hA]
    exact TV.trans (b := addImport st kPydantic s%"BaseModel") (.inl rfl) (foldl_addTypeVar_tv _ _) (mono_foldl_addTypeVar _ _)
  have hf := fieldsFacts_tv E cfg rs.genericTypes rs.fields _ fields st1 h1
  have hm := (fieldsFacts_spec E cfg rs.genericTypes rs.fields _ fields st1 h1).1
  refine TV.trans htvA (.inl ?_) ?_
  · rw [hf]
    exact tv_ite _ _ _ (by rw [tv_addImport]; exact tv_ite _ _ _ rfl rfl) (tv_ite _ _ _ rfl rfl)
  · refine Mono.trans ?_ hm
    have hB : Mono stA (if rs.genericTypes.isEmpty = true then stA else addImport stA kTyping s%"Generic") :=
      mono_ite _ _ _ (Mono.refl _) (mono_addImport _ _ _)
    exact mono_ite _ _ _ (hB.trans (mono_addImport _ _ _)) hB

theorem innerFacts_tv (E : Ext) (cfg : Cfg) (e : RustEnum) : ∀ (l : List (Id × List RustField)) (st : St) r (st' : St),
    innerFacts E cfg e l st = .ok (r, st') → TV st st'
  | [], st, r, st', h => by
    simp only [innerFacts, Outcome.ok.injEq, Prod.mk.injEq] at h
    rw [← h.2]; exact TV.refl st
  | (id, fs) :: rest, st, r, st', h => by
    simp only [innerFacts, bind_ok_iff] at h
    obtain ⟨⟨c, st1⟩, h1, ⟨cs, st2⟩, h2, h3⟩ := h
    simp only [Outcome.ok.injEq, Prod.mk.injEq] at h3
    rw [← h3.2]
    exact TV.trans (structFacts_tv E cfg _ st c st1 h1) (innerFacts_tv E cfg e rest st1 cs st2 h2)
      (innerFacts_spec E cfg e rest st1 cs st2 h2).1

theorem variantFacts_tv (E : Ext) (cfg : Cfg) (e : RustEnum) (tag content : Str) (v : RustEnumVariant) (st : St)
    (pv : PyVariant) (st' : St) (h : variantFacts E cfg e tag content v st = .ok (pv, st')) :
    st'.typeVars = st.typeVars := by
  cases v with
  | unit id cs =>
    simp only [variantFacts, Outcome.ok.injEq, Prod.mk.injEq] at h
    rw [← h.2]; rfl
  | tuple id cs ty =>
    simp only [variantFacts, bind_ok_iff] at h
    obtain ⟨⟨t, st1⟩, h1, h2⟩ := h
    simp only [Outcome.ok.injEq, Prod.mk.injEq] at h2
    rw [← h2.2, tv_addImport, formatType_tv cfg _ ty st t st1 h1]
  | anonymousStruct id cs fs =>
    simp only [variantFacts, Outcome.ok.injEq, Prod.mk.injEq] at h
    rw [← h.2]; rfl

theorem variantsFacts_tv (E : Ext) (cfg : Cfg) (e : RustEnum) (tag content : Str) :
    ∀ (vs : List RustEnumVariant) (st : St) r (st' : St),
    variantsFacts E cfg e tag content vs st = .ok (r, st') → st'.typeVars = st.typeVars
  | [], st, r, st', h => by
    simp only [variantsFacts, Outcome.ok.injEq, Prod.mk.injEq] at h
    rw [← h.2]
  | v :: vs, st, r, st', h => by
    simp only [variantsFacts, bind_ok_iff] at h
    obtain ⟨⟨a, st1⟩, h1, ⟨b, st2⟩, h2, h3⟩ := h
    simp only [Outcome.ok.injEq, Prod.mk.injEq] at h3
    rw [← h3.2, variantsFacts_tv E cfg e tag content vs st1 b st2 h2, variantFacts_tv E cfg e tag content v st a st1 h1]

theorem writeEnum_tv (E : Ext) (cfg : Cfg) (e : RustEnum) (st : St) (text : Str) (st' : St)
    (h : writeEnum E cfg e st = .ok (text, st')) : TV st st' := by
  unfold writeEnum at h
  cases hk : e.keys with
  | none =>
    rw [hk] at h
    simp only [bind_ok_iff] at h
    obtain ⟨⟨inner, st1⟩, h1, ms, _, h3⟩ := h
    simp only [Outcome.ok.injEq, Prod.mk.injEq] at h3
    rw [← h3.2]
    exact TV.trans (innerFacts_tv E cfg e _ st inner st1 h1) (.inl rfl) (mono_addImport _ _ _)
  | some k =>
    rw [hk] at h
    simp only [bind_ok_iff, unionFacts] at h
    obtain ⟨⟨u, st5⟩, ⟨⟨inner, st1⟩, h1, ⟨vs, st4⟩, h2, h3⟩, h4⟩ := h
    simp only [Outcome.ok.injEq, Prod.mk.injEq] at h3 h4
    rw [← h4.2, ← h3.2]
    generalize hB : addImport (addImport (e.genericTypes.foldl addTypeVar st1) kPydantic s%"BaseModel") s%"enum" s%"Enum" = stB at h2
    have h12 : TV st1 stB := by
      rw [← hB]
      exact TV.trans (foldl_addTypeVar_tv _ _) (.inl rfl) ((mono_addImport _ _ _).trans (mono_addImport _ _ _))
    have hm12 : Mono st1 stB := by
      rw [← hB]
      exact (mono_foldl_addTypeVar _ _).trans ((mono_addImport _ _ _).trans (mono_addImport _ _ _))
    have hv := variantsFacts_tv E cfg e _ _ e.variants stB vs st4 h2
    have hmv := (variantsFacts_spec E cfg e _ _ e.variants stB vs st4 h2).1
    have hlast : TV stB (if (vs.length == 1) = true then st4 else addImport st4 kTyping s%"Union") :=
      .inl ((tv_ite st4 (addImport st4 kTyping s%"Union") st4 rfl rfl).trans hv)
    have hmlast : Mono stB (if (vs.length == 1) = true then st4 else addImport st4 kTyping s%"Union") :=
      hmv.trans (mono_ite _ _ _ (Mono.refl _) (mono_addImport _ _ _))
    exact TV.trans (TV.trans (innerFacts_tv E cfg e _ st inner st1 h1) h12 hm12) hlast hmlast

theorem writeItem_tv (E : Ext) (cfg : Cfg) (it : RustItem) (st : St) (text : Str) (st' : St)
    (h : writeItem E cfg it st = .ok (text, st')) : TV st st' := by
  cases it with
  | struct rs =>
    simp only [writeItem, writeStruct, bind_ok_iff] at h
    obtain ⟨⟨c, st1⟩, h1, h2⟩ := h
    simp only [Outcome.ok.injEq, Prod.mk.injEq] at h2
    rw [← h2.2]; exact structFacts_tv E cfg rs st c st1 h1
  | «enum» e => exact writeEnum_tv E cfg e st text st' h
  | alias a =>
    simp only [writeItem, aliasFacts, bind_ok_iff] at h
    obtain ⟨⟨pa, st1⟩, ⟨⟨ty, st2⟩, h1, h2⟩, h3⟩ := h
    simp only [Outcome.ok.injEq, Prod.mk.injEq] at h2 h3
    rw [← h3.2, ← h2.2]
    exact TV.trans (.inl (formatType_tv cfg _ a.ty st ty st2 h1)) (foldl_addTypeVar_tv _ _) (mono_foldl_addTypeVar _ _)
  | const c =>
    simp only [writeItem, constFacts, bind_ok_iff] at h
    obtain ⟨⟨pc, st1⟩, ⟨⟨ty, st2⟩, h1, h2⟩, h3⟩ := h
    simp only [Outcome.ok.injEq, Prod.mk.injEq] at h2 h3
    rw [← h3.2, ← h2.2]
    exact .inl (formatType_tv cfg _ c.ty st ty st2 h1)

theorem writeItems_tv (E : Ext) (cfg : Cfg) : ∀ (its : List RustItem) (st : St) (text : Str) (st' : St),
    writeItems E cfg its st = .ok (text, st') → TV st st'
  | [], st, text, st', h => by
    simp only [writeItems, Outcome.ok.injEq, Prod.mk.injEq] at h
    rw [← h.2]; exact TV.refl st
  | it :: its, st, text, st', h => by
    simp only [writeItems, bind_ok_iff] at h
    obtain ⟨⟨a, st1⟩, h1, ⟨b, st2⟩, h2, h3⟩ := h
    simp only [Outcome.ok.injEq, Prod.mk.injEq] at h3
    rw [← h3.2]
    exact TV.trans (writeItem_tv E cfg it st a st1 h1) (writeItems_tv E cfg its st1 b st2 h2)
      (writeItems_spec E cfg its st1 b st2 h2).1

/-- **one module**: the type variables are left alone or `TypeVar` is imported afterwards -/
theorem generate_tv (E : Ext) (cfg : Cfg) (d : ParsedData) (st0 : St) (text : Str) (st : St)
    (h : generate E cfg d st0 = .ok (text, st)) : TV st0 st := by
  unfold generate at h
  cases ho : Pipeline.generateOrder d with
  | none => rw [ho] at h; simp at h
  | some items =>
    rw [ho] at h
    simp only [bind_ok_iff] at h
    obtain ⟨⟨body, st1⟩, h1, h2⟩ := h
    simp only [Outcome.ok.injEq, Prod.mk.injEq] at h2
    rw [← h2.2]
    exact TV.trans (writeItems_tv E cfg items st0 body st1 h1) (.inl (tv_addDatetimeImport st1)) (mono_addDatetimeImport st1)

/-! ## the run invariant -/

/-- whenever the header declares a type variable it imports `TypeVar` -/
def Inv (st : St) : Prop := st.typeVars ≠ [] → Provides st impTypeVar

instance (st : St) : Decidable (Inv st) := by unfold Inv; infer_instance

theorem inv_empty : Inv {} := fun h => absurd rfl h

theorem inv_step {st st' : St} (hi : Inv st) (ht : TV st st') (hm : Mono st st') : Inv st' := by
  intro hne
  rcases ht with h | h
  · exact hm _ (hi (h ▸ hne))
  · exact h

/-- **the invariant is carried from one module of a run to the next** -/
theorem generate_inv (E : Ext) (cfg : Cfg) (d : ParsedData) (st0 : St) (text : Str) (st : St)
    (h : generate E cfg d st0 = .ok (text, st)) (hi : Inv st0) : Inv st :=
  inv_step hi (generate_tv E cfg d st0 text st h) (generate_spec E cfg d st0 text st h).1

end TsV.C12_Modules.Py
