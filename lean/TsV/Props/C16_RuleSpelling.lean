import TsV.Props.C16
/-!
# C16 — a rule is recognised by its exact spelling only

`Props/C16.lean` has `unknown_rule` (`Rule.ofStr r = none → renameAllToCase U s (some r) = .ok s`) and
`rename_by_rule` (typeshare's dispatch is serde's `RenameRule::from_str`).  This module adds *which* strings
are rules:

* `ruleName` / `ruleNames`: the eight spellings of `serde_derive/src/internals/case.rs` (trusted, compared with
  the vendored file by the C16 check).
* `ofStr_iff`: `Rule.ofStr s = some r ↔ r ≠ .none ∧ s = ruleName r` — byte equality with one of the eight
  names, nothing weaker (no case folding, no trimming, no separator normalisation); `ofStr_iff_mem` is the
  same over the table; `ofStr_none_iff`: `Rule.ofStr s = none ↔ s ∉ ruleNames`.
* `C16_RuleSpelling : C16_RuleSpelling_full` — for every string that is not byte-equal to one of the eight
  names, `renameAllToCase U ident (some s) = .ok ident` for every identifier and every Unicode table; and for
  a name, the dispatch is that rule's (`rename_by_rule`).
* `near_misses_unknown`: a kernel-checked list of near-miss spellings (letter case, `-` for `_`, blanks,
  prefixes, the other family's separators, look-alike letters), none of which is a rule.

The string meant is the one `rename_all_to_case` receives, i.e. the attribute value *after* `literal_to_string`
has trimmed it: the spellings with blanks around a name are unknown to `Rule.ofStr`, but written in an
attribute they reach it trimmed (the recorded finding `rule-string-trimmed`, `Parser.exprToString`).
-/
namespace TsV.C16_RuleSpelling
open TsV TsV.Str TsV.Serde TsV.Rename

/-- serde's spelling of a rule (`RENAME_RULES` in `case.rs`); `Rule.none` has none -/
def ruleName : Rule → Str
  | .none => []
  | .lower => s%"lowercase"
  | .upper => s%"UPPERCASE"
  | .pascal => s%"PascalCase"
  | .camel => s%"camelCase"
  | .snake => s%"snake_case"
  | .screamingSnake => s%"SCREAMING_SNAKE_CASE"
  | .kebab => s%"kebab-case"
  | .screamingKebab => s%"SCREAMING-KEBAB-CASE"

def rules : List Rule := [.lower, .upper, .pascal, .camel, .snake, .screamingSnake, .kebab, .screamingKebab]
def ruleNames : List Str := rules.map ruleName

/-- **exact spelling**: a string denotes the rule `r` iff it is byte-equal to `r`'s name -/
theorem ofStr_iff (s : Str) (r : Rule) : Rule.ofStr s = some r ↔ r ≠ .none ∧ s = ruleName r := by
  constructor
  · intro h
    unfold Rule.ofStr at h
    repeat' split at h
    all_goals first
      | (cases h; subst_vars; exact ⟨by decide, rfl⟩)
      | cases h
  · rintro ⟨hn, rfl⟩
    cases r <;> first | exact absurd rfl hn | decide +kernel

theorem ofStr_name (r : Rule) (h : r ≠ .none) : Rule.ofStr (ruleName r) = some r :=
  (ofStr_iff _ r).2 ⟨h, rfl⟩

theorem mem_rules (r : Rule) : r ∈ rules ↔ r ≠ .none := by
  cases r <;> decide

theorem ofStr_iff_mem (s : Str) (r : Rule) : Rule.ofStr s = some r ↔ r ∈ rules ∧ s = ruleName r := by
  rw [ofStr_iff, mem_rules]

/-- a string is no rule iff it is none of the eight names -/
theorem ofStr_none_iff (s : Str) : Rule.ofStr s = none ↔ s ∉ ruleNames := by
  constructor
  · intro h hm
    obtain ⟨r, hr, rfl⟩ := List.mem_map.1 hm
    rw [ofStr_name r ((mem_rules r).1 hr)] at h
    cases h
  · intro h
    cases ho : Rule.ofStr s with
    | none => rfl
    | some r =>
      obtain ⟨hr, rfl⟩ := (ofStr_iff_mem s r).1 ho
      exact absurd (List.mem_map.2 ⟨r, hr, rfl⟩) h

/-- the names are pairwise different, so `ruleName` is injective on the eight rules -/
theorem ruleNames_nodup : ruleNames.Nodup := by decide +kernel

/-- **the statement**: outside the eight exact spellings `rename_all` renames nothing; on a spelling the
dispatch is that rule's -/
def C16_RuleSpelling_full : Prop :=
  ∀ (U : UnicodeOps) (ident s : Str),
    (s ∉ ruleNames → renameAllToCase U ident (some s) = .ok ident) ∧
    (∀ r ∈ rules, s = ruleName r → renameAllToCase U ident (some s) = C16.byRule U ident (some r))

/-- **C16_RuleSpelling.** -/
theorem C16_RuleSpelling : C16_RuleSpelling_full := by
  intro U ident s
  refine ⟨fun h => C16.unknown_rule U ident s ((ofStr_none_iff s).2 h), ?_⟩
  rintro r hr rfl
  rw [C16.rename_by_rule, ofStr_name r ((mem_rules r).1 hr)]

/-! ## near misses, kernel-checked -/

def nearMisses : List Str :=
  [s%"", s%" ", s%"lowerCase", s%"Lowercase", s%"LOWERCASE", s%"lower", s%"lowercase ", s%" lowercase",
   s%"lower_case", s%"lower-case",
   s%"uppercase", s%"UpperCase", s%"UPPER_CASE", s%"UPPER", s%"UPPERCASE\n",
   s%"pascalCase", s%"Pascalcase", s%"PASCALCASE", s%"Pascal_Case", s%"PascalCase\t", s%"UpperCamelCase",
   s%"CamelCase", s%"camelcase", s%"camel_case", s%"camel-case", s%"camelCASE", s%"lowerCamelCase",
   s%"snake-case", s%"snakeCase", s%"Snake_case", s%"SNAKE_CASE", s%"snake_Case", s%"snake case", s%"snake__case",
   s%"SCREAMING-SNAKE-CASE", s%"screaming_snake_case", s%"SCREAMING_SNAKE", s%"SCREAMINGSNAKECASE",
   s%"Screaming_Snake_Case", s%"SCREAMING_SNAKE-CASE",
   s%"kebab_case", s%"Kebab-case", s%"KEBAB-CASE", s%"kebabcase", s%"kebab–case", s%"kebab-Case",
   s%"SCREAMING_KEBAB_CASE", s%"screaming-kebab-case", s%"SCREAMING-KEBAB", s%"SCREAMING-KEBAB_CASE",
   s%"Train-Case", s%"сamelCase", s%"ｓnake_case", s%"\"camelCase\"", s%"camelCase,", s%"rename_all"]

theorem near_misses_unknown : ∀ s ∈ nearMisses, Rule.ofStr s = none := by decide +kernel

/-- hence they rename nothing, whatever the identifier -/
theorem near_misses_rename_nothing (U : UnicodeOps) (ident : Str) :
    ∀ s ∈ nearMisses, renameAllToCase U ident (some s) = .ok ident :=
  fun s hs => C16.unknown_rule U ident s (near_misses_unknown s hs)

/-! ## non-vacuity -/

example : nearMisses.length = 56 ∧ ∀ s ∈ nearMisses, s ∉ ruleNames := by
  refine ⟨by decide +kernel, fun s hs => (ofStr_none_iff s).1 (near_misses_unknown s hs)⟩
/-- the eight names are rules, and do rename -/
example : ruleNames.map Rule.ofStr = rules.map some := by decide +kernel
example : renameAllToCase .ascii s%"fooBar" (some s%"snake_case") = .ok s%"foo_bar" ∧
    renameAllToCase .ascii s%"fooBar" (some s%"snake-case") = .ok s%"fooBar" ∧
    renameAllToCase .ascii s%"fooBar" (some s%"Snake_case") = .ok s%"fooBar" := by decide +kernel

end TsV.C16_RuleSpelling
