import TsV.Lemmas.C09
import TsV.Lemmas.C09_Tie
/-!
# C09 — every reference to a generated type uses the name the type is defined under

Within one generation run, each use of a typeshared type — as a field type, payload, generic
argument, alias target, enum-variant parent or helper struct of a struct variant — is spelled with
exactly the name under which that type's definition is emitted, after `serde(rename)` on the type
and after the configured Swift / Kotlin prefix.  Generic parameters are never prefixed or renamed.

The statement is about the model's fact records through the binding semantics of
`TsV/Lemmas/C09_Defs.lean` (`defName`, `innerDefName`, `refs`, `Defines`): `refs lc r it` lists
every use of a type name in the declarations generated for the source item `it` (spelled as the
back end spells the leaf `reconcile` left there) together with the Rust-level thing it refers to.

* `C09_reconcile_leaves`, `C09_reconcile_names` — what `reconcile` does to references.
* `C09_full` — the property at full strength; still **false** (`C09_not_full`: Go defines a renamed
  enum under its Rust name).
* `Known_def_original` (per reference: a reference to a renamed *Go enum*) and `Known_shadow` (per
  program): the decidable classes in which it fails.  The classes `Known_generic_head`,
  `Known_parent`, `Known_inner` of the previous round are repaired (`fix:` commits 944b749, 3d3e1e7)
  and `Known_def_original` has shrunk from "Kotlin / Scala / Go aliases and Go enums" to Go enums
  (0c924cd); their old witnesses are positive regression examples now (`repaired_*`).
* `C09_partial` — outside them it holds, for all six back ends and every prefix;
  `C09_exact` / `C09_converse` — and inside the per-reference class it always fails.
* `C09_no_renames`, `C09_all_but_go`, `C09_go_without_renamed_enums`, `C09_generic_heads`,
  `C09_generic_parameters` — the corollaries.
* Not covered by `C09_full` (single-file programs): Kotlin multi-file import lines.  The finding
  `kotlin-import-without-prefix` is repaired (`fix:` commit 8dc01bf): `C09_kotlin_import_lines` —
  every import line names the type with the prefix, as its own module defines it — and the old
  witness is the positive regression example `repaired_kotlin_import_prefix`.
-/
namespace TsV.C09
open TsV TsV.Pipeline TsV.Generate

/-! ## the property -/

/-- configurations in scope: no type mappings (a mapping replaces names on purpose); Go without
`uppercase_acronyms` (which re-spell names after the fact; only the `tie_go_*` lemmas use this) -/
def CfgOk (lc : LangCfg) : Prop :=
  typeMappingsOf lc = [] ∧
  match lc with
  | .go c => c.uppercaseAcronyms = []
  | _ => True

/-- every reference of every item is spelled with the name its target is defined under (for a
generic parameter: the parameter's own name) -/
def Consistent (lc : LangCfg) (P : ParsedData) : Prop :=
  ∀ it ∈ typeItems P, ∀ ref ∈ refs lc (renamesOf P) it, ∀ n, Defines lc P ref.target n → ref.spelling = n

/-- **C09 at full strength**: every program in scope, every back end, every prefix -/
def C09_full : Prop := ∀ P : ParsedData, InScope P → ∀ lc : LangCfg, CfgOk lc → Consistent lc P

/-! ## witness programs -/

def mkId (o : Str) (r : Option Str) : Id :=
  match r with
  | some n => ⟨o, n, true⟩
  | none => ⟨o, o, false⟩

def fld (n : Str) (ty : RustType) : RustField :=
  { id := ⟨n, n, false⟩, ty, comments := [], hasDefault := false, decorators := [] }

def mkStruct (o : Str) (r : Option Str) (gens : List Str) (fs : List RustField) : RustStruct :=
  { id := mkId o r, genericTypes := gens, fields := fs, comments := [], decorators := {}, isRedacted := false }

/-- `#[serde(rename = "AliasNew")] type Al = String;  struct User { a: Al }` -/
def wAlias : RustTypeAlias :=
  { id := mkId s%"Al" (some s%"AliasNew"), genericTypes := [], ty := .prim .string, comments := [],
    decorators := {}, isRedacted := false }
def wUserA : RustStruct := mkStruct s%"User" none [] [fld s%"a" (.simple s%"Al")]
def W_alias : ParsedData := { structs := [wUserA], aliases := [wAlias] }

/-- `#[serde(rename = "UnitNew")] enum Un { P, Q }  struct User { u: Un }` -/
def wUnit : RustEnum :=
  { keys := none, id := mkId s%"Un" (some s%"UnitNew"), genericTypes := [], comments := [],
    variants := [.unit (mkId s%"P" none) [], .unit (mkId s%"Q" none) []], decorators := {},
    isRecursive := false, isRedacted := false }
def wUserU : RustStruct := mkStruct s%"User" none [] [fld s%"u" (.simple s%"Un")]
def W_unit : ParsedData := { structs := [wUserU], enums := [wUnit] }

/-- `#[serde(rename = "EnumNew", tag = "t", content = "c")] enum En { A { x: u8 }, B(String), C }` -/
def wEnum : RustEnum :=
  { keys := some (s%"t", s%"c"), id := mkId s%"En" (some s%"EnumNew"), genericTypes := [], comments := [],
    variants := [.anonymousStruct (mkId s%"A" none) [] [fld s%"x" (.prim .u8)],
                 .tuple (mkId s%"B" none) [] (.prim .string), .unit (mkId s%"C" none) []],
    decorators := {}, isRecursive := false, isRedacted := false }
def W_enum : ParsedData := { enums := [wEnum] }

/-- `#[serde(rename = "GenNew")] struct Ge<T> { v: T }  struct User { g: Ge<String> }` -/
def wGe : RustStruct := mkStruct s%"Ge" (some s%"GenNew") [s%"T"] [fld s%"v" (.simple s%"T")]
def wUserG : RustStruct := mkStruct s%"User" none [] [fld s%"g" (.generic s%"Ge" [.prim .string])]
def W_generic : ParsedData := { structs := [wGe, wUserG] }

/-- `#[serde(rename = "GnNew", tag = "t", content = "c")] enum Gn<T> { A(T) }  struct User { g: Gn<String> }` -/
def wGn : RustEnum :=
  { keys := some (s%"t", s%"c"), id := mkId s%"Gn" (some s%"GnNew"), genericTypes := [s%"T"], comments := [],
    variants := [.tuple (mkId s%"A" none) [] (.simple s%"T")], decorators := {},
    isRecursive := false, isRedacted := false }
def wUserGn : RustStruct := mkStruct s%"User" none [] [fld s%"g" (.generic s%"Gn" [.prim .string])]
def W_genericEnum : ParsedData := { structs := [wUserGn], enums := [wGn] }

/-- `#[serde(rename = "TNew")] struct T { z: u8 }  struct Holder<T> { t: T }` -/
def wT : RustStruct := mkStruct s%"T" (some s%"TNew") [] [fld s%"z" (.prim .u8)]
def wHolder : RustStruct := mkStruct s%"Holder" none [s%"T"] [fld s%"t" (.simple s%"T")]
def W_shadow : ParsedData := { structs := [wT, wHolder] }

/-- a program with renamed items whose references are all consistent in every back end:
`#[serde(rename = "PointNew")] struct Point { x: u8 }  struct Line<T> { a: Point, b: Vec<Point>, t: T }` -/
def wPoint : RustStruct := mkStruct s%"Point" (some s%"PointNew") [] [fld s%"x" (.prim .u8)]
def wLine : RustStruct :=
  mkStruct s%"Line" none [s%"T"]
    [fld s%"a" (.simple s%"Point"), fld s%"b" (.vec (.simple s%"Point")), fld s%"t" (.simple s%"T")]
def W_good : ParsedData := { structs := [wPoint, wLine] }

theorem W_alias_inScope : InScope W_alias := inScope_of _ (by decide) (by decide) (by decide) (by decide) rfl rfl
theorem W_unit_inScope : InScope W_unit := inScope_of _ (by decide) (by decide) (by decide) (by decide) rfl rfl
theorem W_enum_inScope : InScope W_enum := inScope_of _ (by decide) (by decide) (by decide) (by decide) rfl rfl
theorem W_generic_inScope : InScope W_generic := inScope_of _ (by decide) (by decide) (by decide) (by decide) rfl rfl
theorem W_genericEnum_inScope : InScope W_genericEnum := inScope_of _ (by decide) (by decide) (by decide) (by decide) rfl rfl
theorem W_shadow_inScope : InScope W_shadow := inScope_of _ (by decide) (by decide) (by decide) (by decide) rfl rfl
theorem W_good_inScope : InScope W_good := inScope_of _ (by decide) (by decide) (by decide) (by decide) rfl rfl

def ts0 : LangCfg := .typescript {}
def kt0 : LangCfg := .kotlin {}
def ktOP : LangCfg := .kotlin { pfx := s%"OP" }
def sw0 : LangCfg := .swift {}
def swOP : LangCfg := .swift { pfx := s%"OP" }
def sc0 : LangCfg := .scala { package := s%"com.example" }
def go0 : LangCfg := .go { package := s%"proto" }
def py0 : LangCfg := .python {}
def allLangs : List LangCfg := [ts0, kt0, ktOP, sw0, swOP, sc0, go0, py0]

theorem cfgOk_all : ∀ lc ∈ allLangs, CfgOk lc := by
  intro lc h
  simp only [allLangs, List.mem_cons, List.not_mem_nil, or_false] at h
  rcases h with rfl | rfl | rfl | rfl | rfl | rfl | rfl | rfl <;> exact ⟨rfl, by simp [go0, ts0, kt0, ktOP, sw0, swOP, sc0, py0]⟩

/-! ## the pipeline part: what `reconcile` does to references -/

/-- **`reconcile` rewrites every name in a type**: in a single-file run the leaves of a reconciled
type are the leaves of the source type, each `id` — a plain leaf or (since the `fix:` commit 944b749)
the head of a generic application — replaced by `recName … id` -/
theorem C09_reconcile_leaves (P : ParsedData) (hs : InScope P) (ty : RustType) :
    leaves (checkType [] (renamesOf P) P.importTypes ty) =
      (leaves ty).map fun l => ⟨recName (renamesOf P) l.id, l.head⟩ := by
  rw [hs.single, leaves_checkType]
  rfl

/-- **… to the `serde(rename)` name of the item they name**: a leaf naming an item of the
program carries that item's (re)name afterwards; a leaf naming no renamed item is unchanged -/
theorem C09_reconcile_names (P : ParsedData) (hs : InScope P) :
    (∀ t ∈ typeItems P, recName (renamesOf P) (itemId t).original = (itemId t).renamed) ∧
    (∀ id, (∀ t ∈ typeItems P, (itemId t).serdeRename = true → (itemId t).original ≠ id) →
      recName (renamesOf P) id = id) :=
  ⟨fun _ ht => renamed_of_scope hs ht, fun _ h => recName_other h⟩

/-! ## the property is still false -/

/-- **`C09_full` does not hold**: Go defines the renamed enum `Un` as `type Un string` and refers to it
as `UnitNew` -/
theorem C09_not_full : ¬ C09_full := by
  intro h
  have := h W_unit W_unit_inScope go0 (cfgOk_all _ (by simp [allLangs])) (.struct wUserU) (by simp [typeItems, W_unit])
    ⟨s%"UnitNew", .type s%"Un", false⟩ (by decide +kernel) s%"Un" ⟨.enum wUnit, by simp [typeItems, W_unit], rfl, rfl⟩
  exact absurd this (by decide)

/-! ## the exact characterisation -/

/-- **C09, partial**: in every program in scope in which no generic parameter shadows a renamed
item, every reference outside `Known_def_original` (= `KnownRef`: a reference to a renamed Go enum)
is spelled with the name its target is defined under — all six back ends, every prefix; generic parameters are spelled unchanged -/
theorem C09_partial : ∀ P : ParsedData, InScope P → ∀ lc : LangCfg, CfgOk lc → Known_shadow P = false →
    ∀ it ∈ typeItems P, ∀ ref ∈ refs lc (renamesOf P) it, KnownRef lc P ref = false →
    ∀ n, Defines lc P ref.target n → ref.spelling = n :=
  fun _ hs _ hc hsh _ hit _ href hk _ hd => (ref_exact hs hc.1 hsh hit href hd).2 hk

/-- **C09, exact**: … and a reference to something the program defines is consistent *only* outside
`KnownRef` -/
theorem C09_exact : ∀ P : ParsedData, InScope P → ∀ lc : LangCfg, CfgOk lc → Known_shadow P = false →
    ∀ it ∈ typeItems P, ∀ ref ∈ refs lc (renamesOf P) it, ∀ n, Defines lc P ref.target n →
    (ref.spelling = n ↔ KnownRef lc P ref = false) :=
  fun _ hs _ hc hsh _ hit _ href _ hd => ref_exact hs hc.1 hsh hit href hd

/-- **C09, converse**: a reference in the known class refers to something the program defines
(`defines_of_known`), under a different name than the one it is spelled with: the class really is a
class of failures -/
theorem C09_converse : ∀ P : ParsedData, InScope P → ∀ lc : LangCfg, CfgOk lc → Known_shadow P = false →
    ∀ it ∈ typeItems P, ∀ ref ∈ refs lc (renamesOf P) it, KnownRef lc P ref = true →
    (∃ n, Defines lc P ref.target n) ∧ ∀ n, Defines lc P ref.target n → ref.spelling ≠ n := by
  intro P hs lc hc hsh it hit ref href hk
  refine ⟨defines_of_known lc P ref hk, fun n hd heq => ?_⟩
  have := (ref_exact hs hc.1 hsh hit href hd).1 heq
  rw [hk] at this; cases this

/-- program level: without shadowing, a program is consistent exactly when none of its references is
in the known class -/
theorem C09_program_exact (P : ParsedData) (hs : InScope P) (lc : LangCfg) (hc : CfgOk lc)
    (hsh : Known_shadow P = false) :
    Consistent lc P ↔ ∀ it ∈ typeItems P, ∀ ref ∈ refs lc (renamesOf P) it, KnownRef lc P ref = false := by
  constructor
  · intro h it hit ref href
    cases hk : KnownRef lc P ref with
    | false => rfl
    | true =>
      obtain ⟨⟨n, hd⟩, hne⟩ := C09_converse P hs lc hc hsh it hit ref href hk
      exact absurd (h it hit ref href n hd) (hne n hd)
  · intro h it hit ref href n hd
    exact C09_partial P hs lc hc hsh it hit ref href (h it hit ref href) n hd

/-! ## corollaries -/

/-- **(a) without `serde(rename)` on items the property holds in full**: all six back ends, every
prefix — references are spelled `prefix ++ name` exactly like the definitions, generic parameters
are left alone -/
theorem C09_no_renames (P : ParsedData) (hs : InScope P)
    (hr : ∀ it ∈ typeItems P, (itemId it).serdeRename = false) (lc : LangCfg) (hc : CfgOk lc) :
    Consistent lc P := by
  have hsh : Known_shadow P = false := by
    unfold Known_shadow
    apply List.any_eq_false.2
    intro it _
    simp only [List.any_eq_true, not_exists, not_and, Bool.and_eq_true]
    intro g _ t ht
    simp [hr t ht]
  have hren : ∀ t ∈ typeItems P, Renamed t = false := by
    intro t ht
    simp [Renamed, hs.ids t ht (hr t ht)]
  exact (C09_program_exact P hs lc hc hsh).2 fun _ _ ref _ => knownRef_false_of_not_renamed lc P hren ref

def isGo : LangCfg → Bool
  | .go _ => true
  | _ => false

/-- **(b) with renames, TypeScript, Swift, Python, Kotlin and Scala are consistent in full** — field
types, payloads, generic heads and arguments, alias targets, parent classes, helper structs, every
prefix — in every program without shadowing.  (Before the `fix:` commits 944b749 / 0c924cd / 3d3e1e7
this held for Swift, Python and TypeScript only, and only off generic heads.) -/
theorem C09_all_but_go (P : ParsedData) (hs : InScope P) (lc : LangCfg) (hc : CfgOk lc)
    (hl : isGo lc = false) (hsh : Known_shadow P = false) : Consistent lc P :=
  (C09_program_exact P hs lc hc hsh).2 fun _ _ ref _ =>
    knownRef_false_of_not_go lc (fun c h => by subst h; cases hl) P ref

/-- **(c) Go is consistent in full when no *enum* is renamed** (structs and aliases may be) -/
theorem C09_go_without_renamed_enums (P : ParsedData) (hs : InScope P) (lc : LangCfg) (hc : CfgOk lc)
    (he : ∀ e ∈ P.enums, e.id.renamed = e.id.original) (hsh : Known_shadow P = false) : Consistent lc P :=
  (C09_program_exact P hs lc hc hsh).2 fun _ _ ref _ => knownRef_false_of_no_renamed_enum lc P he ref

/-- **(d) what is left**: an inconsistent reference is printed by the Go back end and names a
`serde(rename)`d enum of the program -/
theorem C09_failures_are_go_enums (P : ParsedData) (hs : InScope P) (lc : LangCfg) (hc : CfgOk lc)
    (hsh : Known_shadow P = false) :
    ∀ it ∈ typeItems P, ∀ ref ∈ refs lc (renamesOf P) it, ∀ n, Defines lc P ref.target n → ref.spelling ≠ n →
      isGo lc = true ∧ ∃ o, ref.target = .type o ∧ ∃ e ∈ P.enums, e.id.original = o ∧ e.id.renamed ≠ e.id.original := by
  intro it hit ref href n hd hne
  have hk : KnownRef lc P ref = true := by
    cases hk : KnownRef lc P ref with
    | true => rfl
    | false => exact absurd (C09_partial P hs lc hc hsh it hit ref href hk n hd) hne
  obtain ⟨⟨c, rfl⟩, h⟩ := known_is_go_enum lc P ref hk
  exact ⟨rfl, h⟩

/-- **the head of a generic application is renamed like a plain reference** (the repaired class
`generic-head-not-renamed`): it is spelled with the name its target is defined under, in all six back
ends, unless it names a renamed Go enum -/
theorem C09_generic_heads (P : ParsedData) (hs : InScope P) (lc : LangCfg) (hc : CfgOk lc)
    (hsh : Known_shadow P = false) :
    ∀ it ∈ typeItems P, ∀ ref ∈ refs lc (renamesOf P) it, ref.head = true →
    Known_def_original lc P ref = false → ∀ n, Defines lc P ref.target n → ref.spelling = n :=
  fun it hit ref href _ hk n hd => C09_partial P hs lc hc hsh it hit ref href hk n hd

/-- **generic parameters are never prefixed or renamed** (unless one shadows a renamed item) -/
theorem C09_generic_parameters (P : ParsedData) (hs : InScope P) (lc : LangCfg) (hc : CfgOk lc)
    (hsh : Known_shadow P = false) :
    ∀ it ∈ typeItems P, ∀ ref ∈ refs lc (renamesOf P) it, ∀ g, ref.target = .param g → ref.spelling = g := by
  intro it hit ref href g hg
  apply C09_partial P hs lc hc hsh it hit ref href
  · obtain ⟨sp, tg, hd⟩ := ref
    simp only at hg
    subst hg
    exact knownRef_param lc P sp g hd
  · rw [hg]; rfl

/-! ## every known class is inhabited, in every language it is claimed for (kernel-checked) -/

/-- does the item have a reference with this spelling, target and class? -/
def hasRef (lc : LangCfg) (P : ParsedData) (it : RustItem) (sp : Str) (tg : Target) (hd : Bool)
    (cls : LangCfg → ParsedData → Ref → Bool) : Bool :=
  (refs lc (renamesOf P) it).any fun r => r.spelling == sp && r.target == tg && r.head == hd && cls lc P r

/-- Go refers to the renamed enum as `UnitNew` and defines `Un` -/
theorem known_def_original_go_enum :
    (hasRef go0 W_unit (.struct wUserU) s%"UnitNew" (.type s%"Un") false Known_def_original &&
      defName go0 (.enum wUnit) == s%"Un") = true := by decide +kernel

/-- … also at the head of a generic application: `Gn<String>` is printed `GnNew[string]`, Go defines `Gn` -/
theorem known_def_original_go_enum_head :
    (hasRef go0 W_genericEnum (.struct wUserGn) s%"GnNew" (.type s%"Gn") true Known_def_original &&
      defName go0 (.enum wGn) == s%"Gn") = true := by decide +kernel

/-! ## the repaired classes: their old witnesses are consistent now (kernel-checked regressions) -/

/-- is every reference of the program spelled with the name its target is defined under?  (`Defines`
evaluated: the first item / enum of that Rust name) -/
def consistentB (lc : LangCfg) (P : ParsedData) : Bool :=
  (typeItems P).all fun it => (refs lc (renamesOf P) it).all fun r =>
    match r.target with
    | .type o => (typeItems P).all fun t => (itemId t).original != o || r.spelling == defName lc t
    | .param g => r.spelling == g
    | .parent o => P.enums.all fun e => e.id.original != o || r.spelling == defName lc (.enum e)
    | .inner o v => P.enums.all fun e => e.id.original != o || innerDefName lc e v == some r.spelling

theorem consistentB_sound {lc : LangCfg} {P : ParsedData} (h : consistentB lc P = true) : Consistent lc P := by
  intro it hit ref href n hd
  have hr := List.all_eq_true.1 (List.all_eq_true.1 h it hit) ref href
  obtain ⟨sp, tg, hd'⟩ := ref
  cases tg with
  | type o =>
    obtain ⟨t, ht, ho, rfl⟩ := hd
    have := List.all_eq_true.1 hr t ht
    simpa [ho] using this
  | param g =>
    simp only [Defines] at hd
    subst hd
    simpa using hr
  | parent o =>
    obtain ⟨e, he, ho, rfl⟩ := hd
    have := List.all_eq_true.1 hr e he
    simpa [ho] using this
  | inner o v =>
    obtain ⟨e, he, ho, hn⟩ := hd
    have := List.all_eq_true.1 hr e he
    simp only [ho, bne_self_eq_false, Bool.false_or, hn, beq_iff_eq, Option.some.injEq] at this
    exact this.symm

/-- **repaired `definition-under-original-name` (aliases, 0c924cd)**: Kotlin, Scala and Go define the
renamed alias as `AliasNew`, the name they refer to it by; the whole program is consistent in all
eight configurations -/
theorem repaired_alias_definition :
    ([kt0, sc0, go0].all (fun lc =>
      hasRef lc W_alias (.struct wUserA) s%"AliasNew" (.type s%"Al") false (fun _ _ _ => true) &&
      defName lc (.alias wAlias) == s%"AliasNew") &&
     (hasRef ktOP W_alias (.struct wUserA) s%"OPAliasNew" (.type s%"Al") false (fun _ _ _ => true) &&
      defName ktOP (.alias wAlias) == s%"OPAliasNew") &&
     allLangs.all fun lc => consistentB lc W_alias) = true := by decide +kernel

/-- **repaired `parent-class-original-name` (3d3e1e7)**: the cases extend `EnumNew`, the name of the
sealed class / trait -/
theorem repaired_parent_class :
    ([kt0, sc0].all (fun lc =>
      hasRef lc W_enum (.enum wEnum) s%"EnumNew" (.parent s%"En") false (fun _ _ _ => true) &&
      defName lc (.enum wEnum) == s%"EnumNew") &&
     (hasRef ktOP W_enum (.enum wEnum) s%"OPEnumNew" (.parent s%"En") false (fun _ _ _ => true) &&
      defName ktOP (.enum wEnum) == s%"OPEnumNew")) = true := by decide +kernel

/-- **repaired `inner-struct-original-name` (3d3e1e7)**: the content of `A` is `EnumNewAInner`, the
name the helper is defined under; the whole program is consistent in all eight configurations -/
theorem repaired_inner_struct :
    ([kt0, sc0].all (fun lc =>
      hasRef lc W_enum (.enum wEnum) s%"EnumNewAInner" (.inner s%"En" s%"A") false (fun _ _ _ => true) &&
      innerDefName lc wEnum s%"A" == some s%"EnumNewAInner") &&
     allLangs.all fun lc => consistentB lc W_enum) = true := by decide +kernel

/-- **repaired `generic-head-not-renamed` (944b749)**: all six back ends print `GenNew<String>` and
define `GenNew`; the whole program is consistent in all eight configurations -/
theorem repaired_generic_head :
    ([ts0, kt0, sw0, sc0, go0, py0].all (fun lc =>
      hasRef lc W_generic (.struct wUserG) s%"GenNew" (.type s%"Ge") true (fun _ _ _ => true) &&
      defName lc (.struct wGe) == s%"GenNew") &&
     allLangs.all fun lc => consistentB lc W_generic) = true := by decide +kernel

theorem repaired_consistent :
    ∀ lc ∈ allLangs, Consistent lc W_alias ∧ Consistent lc W_enum ∧ Consistent lc W_generic := by
  intro lc hlc
  have h1 := repaired_alias_definition
  have h2 := repaired_inner_struct
  have h3 := repaired_generic_head
  simp only [Bool.and_eq_true, List.all_eq_true] at h1 h2 h3
  exact ⟨consistentB_sound (h1.2 lc hlc), consistentB_sound (h2.2 lc hlc), consistentB_sound (h3.2 lc hlc)⟩

/-- all six back ends print the generic parameter `T` of `Holder<T>` as `TNew` -/
theorem known_shadow_witness :
    (Known_shadow W_shadow && [ts0, kt0, sw0, sc0, go0, py0].all fun lc =>
      hasRef lc W_shadow (.struct wHolder) s%"TNew" (.param s%"T") false fun _ _ _ => true) = true := by
  decide +kernel

/-- hence `Known_shadow` cannot be dropped from `C09_partial` -/
theorem C09_shadow_fails : ¬ ∀ P : ParsedData, InScope P → ∀ lc : LangCfg, CfgOk lc →
    ∀ it ∈ typeItems P, ∀ ref ∈ refs lc (renamesOf P) it, KnownRef lc P ref = false →
    ∀ n, Defines lc P ref.target n → ref.spelling = n := by
  intro h
  have := h W_shadow W_shadow_inScope ts0 (cfgOk_all _ (by simp [allLangs])) (.struct wHolder) (by simp [typeItems, W_shadow])
    ⟨s%"TNew", .param s%"T", false⟩ (by decide +kernel) (knownRef_param _ _ _ _ _) s%"T" rfl
  exact absurd this (by decide)

/-! ## the witnesses in the generated text of the models (what is compared byte for byte) -/

def E0 : Ext := { U := .ascii, parseType := fun _ => none }

/-- the items in the order `generate_types` hands them to the topological sort (the sort itself is
not evaluated here: it does not change any text, only the order of the declarations) -/
def itemsOf (d : ParsedData) : List RustItem := d.aliases.map .alias ++ d.structs.map .struct ++ d.enums.map .enum

/-- the model's Kotlin output for `W_alias` after `reconcile`: `typealias AliasNew` next to
`val a: AliasNew` (was `typealias Al` before 0c924cd) -/
theorem kotlin_text_alias :
    (Lang.Kotlin.itemsFacts {} (itemsOf (reconcileOne (renamesOf W_alias) [] W_alias))).bind
        (fun ds => .ok (ds.flatMap Lang.Kotlin.renderDecl)) =
      .ok s%"typealias AliasNew = String\n\n@Serializable\ndata class User (\n\tval a: AliasNew\n)\n\n" := by
  decide +kernel

/-- the model's Kotlin output for `W_enum`: `sealed class EnumNew`, cases `: EnumNew()`, content
`EnumNewAInner`, helper `data class EnumNewAInner` (were `: En()` and `EnAInner` before 3d3e1e7) -/
theorem kotlin_text_enum :
    (Lang.Kotlin.itemsFacts {} (itemsOf (reconcileOne (renamesOf W_enum) [] W_enum))).bind
        (fun ds => .ok (ds.flatMap Lang.Kotlin.renderDecl)) =
      .ok s%"/// Generated type representing the anonymous struct variant `A` of the `En` Rust enum\n@Serializable\ndata class EnumNewAInner (\n\tval x: UByte\n)\n\n@Serializable\nsealed class EnumNew {\n\t@Serializable\n\t@SerialName(\"A\")\n\tdata class A(val c: EnumNewAInner): EnumNew()\n\t@Serializable\n\t@SerialName(\"B\")\n\tdata class B(val c: String): EnumNew()\n\t@Serializable\n\t@SerialName(\"C\")\n\tobject C: EnumNew()\n}\n\n" := by
  decide +kernel

/-- `#[serde(rename = "GenNew")] struct Ge<T> { v: T }  type User = Ge<String>;` (one item per list: the
kernel does not unfold `List.mergeSort` on longer lists) -/
def wUserAlias : RustTypeAlias :=
  { id := mkId s%"User" none, genericTypes := [], ty := .generic s%"Ge" [.prim .string], comments := [],
    decorators := {}, isRedacted := false }
def W_generic2 : ParsedData := { structs := [wGe], aliases := [wUserAlias] }

/-- the model's Kotlin output for `W_generic2`: `data class GenNew<T>` next to
`typealias User = GenNew<String>` (was `Ge<String>` before 944b749) -/
theorem kotlin_text_generic :
    (Lang.Kotlin.itemsFacts {} (itemsOf (reconcileOne (renamesOf W_generic2) [] W_generic2))).bind
        (fun ds => .ok (ds.flatMap Lang.Kotlin.renderDecl)) =
      .ok s%"typealias User = GenNew<String>\n\n@Serializable\ndata class GenNew<T> (\n\tval v: T\n)\n\n" := by
  decide +kernel

/-- `#[serde(rename = "EnumNew", tag = "t", content = "c")] enum En { A {}, C }` (no payload types: the
Scala type printer is defined by well-founded recursion, which the kernel does not unfold) -/
def wEnum2 : RustEnum :=
  { keys := some (s%"t", s%"c"), id := mkId s%"En" (some s%"EnumNew"), genericTypes := [], comments := [],
    variants := [.anonymousStruct (mkId s%"A" none) [] [], .unit (mkId s%"C" none) []],
    decorators := {}, isRecursive := false, isRedacted := false }
def W_enum2 : ParsedData := { enums := [wEnum2] }

/-- the model's Scala output (whole file) for `W_enum2`: `sealed trait EnumNew`, cases
`extends EnumNew`, content `EnumNewAInner`, helper `class EnumNewAInner` (were `extends En` and
`EnAInner` before 3d3e1e7) -/
theorem scala_text_enum :
    Lang.Scala.generate { package := s%"com.example" } (reconcileOne (renamesOf W_enum2) [] W_enum2) =
      .ok s%"package com\n\npackage example {\n\n// Generated type representing the anonymous struct variant `A` of the `En` Rust enum\nclass EnumNewAInner extends Serializable\n\nsealed trait EnumNew {\n\tdef serialName: String\n}\nobject EnumNew {\n\tcase class A(c: EnumNewAInner) extends EnumNew {\n\t\tval serialName: String = \"A\"\n\t}\n\tcase object C extends EnumNew {\n\t\tval serialName: String = \"C\"\n\t}\n}\n\n}\n" := by
  decide +kernel

/-- the open finding in the model's Go output for `W_unit` after `reconcile`: `type Un string` (go.rs
`write_enum`, `id.original`) next to the field `U UnitNew` -/
theorem go_text_unit :
    ((Lang.Go.writeEnum .ascii { package := s%"proto" } wUnit [] []).bind fun (t, _) => .ok t) =
      .ok s%"type Un string\nconst (\n\tUnP Un = \"P\"\n\tUnQ Un = \"Q\"\n)\n" ∧
    ((reconcileOne (renamesOf W_unit) [] W_unit).structs.map fun s =>
      (Lang.Go.writeStruct .ascii { package := s%"proto" } s []).bind fun (t, _) => .ok t) =
      [.ok s%"type User struct {\n\tU UnitNew `json:\"u\"`\n}\n"] := by
  decide +kernel

/-! ## Kotlin multi-file import lines (repaired by the `fix:` commit 8dc01bf)

Before the repair `write_imports` (kotlin.rs:288) named the imported type as in the Rust source
(`import com.example.alpha.Foo`) although the other module defines it behind the configured prefix
(`OPFoo`): the class `kotlin-import-without-prefix`. -/

/-- **Every Kotlin import line names the type exactly as its own module defines it**: for every
entry `t` of the scoped imports of crate `c` and every item whose (renamed) name is `t` — the names
`used_imports` collects are the other crate's `id.renamed` — the line
`import <package>.<c>.<defName>` is in what `write_imports` prints, for every prefix. -/
theorem C09_kotlin_import_lines (cfg : Lang.Kotlin.Cfg) (imps : ScopedCrateTypes) (c t : Str) (tys : List Str)
    (h : (c, tys) ∈ imps) (ht : t ∈ tys) (it : RustItem) (hit : (itemId it).renamed = t) :
    (s%"import " ++ cfg.package ++ s%"." ++ c ++ s%"." ++ defName (.kotlin cfg) it ++ Lang.nl) <:+:
      Lang.Kotlin.writeImports cfg imps := by
  subst hit
  unfold Lang.Kotlin.writeImports
  refine List.IsInfix.trans ?_ (List.prefix_append _ _).isInfix
  refine List.IsInfix.trans ?_ (infix_flatMap_of_mem _ imps (c, tys) h)
  have := infix_flatMap_of_mem
    (fun t => s%"import " ++ cfg.package ++ s%"." ++ c ++ s%"." ++ cfg.pfx ++ t ++ Lang.nl) tys _ ht
  simpa only [defName, List.append_assoc] using this

/-- the old witness as a positive regression example: with prefix `OP` the import line of `Foo`
reads `import com.example.alpha.OPFoo`, the name the class is defined under (it read
`import com.example.alpha.Foo` before 8dc01bf) -/
theorem repaired_kotlin_import_prefix :
    Lang.Kotlin.writeImports { package := s%"com.example", pfx := s%"OP" } [(s%"alpha", [s%"Foo"])] =
      s%"import com.example.alpha.OPFoo\n\n" ∧
    defName (.kotlin { package := s%"com.example", pfx := s%"OP" }) (.struct (mkStruct s%"Foo" none [] [])) =
      s%"OPFoo" := by
  decide +kernel

/-- `C09_kotlin_import_lines`: hypotheses met by the witness (and by a serde-renamed type) -/
example : (s%"alpha", [s%"Foo", s%"BarNew"]) ∈ [(s%"alpha", [s%"Foo", s%"BarNew"])] ∧ s%"BarNew" ∈ [s%"Foo", s%"BarNew"] ∧
    (itemId (.struct (mkStruct s%"Bar" (some s%"BarNew") [] []))).renamed = s%"BarNew" := by decide

/-! ## the `ids` clause of `InScope` is an invariant of the parser -/

theorem getIdent_invariant (E : Ext) (ident : Option Str) (attrs : List Syn.Attr) (id : Id)
    (h : Parser.getIdent E ident attrs none = .ok id) : id.serdeRename = false → id.renamed = id.original := by
  unfold Parser.getIdent at h
  simp only [Rename.renameAllToCase, Outcome.ok_bind'] at h
  split at h
  · cases h; intro hh; cases hh
  · cases h; intro _; rfl

/-! ## non-vacuity -/

/-- `C09_partial` / `C09_exact`: a program with a renamed item, in scope, without shadowing, all of
whose references are outside the known class — in all eight configurations -/
example : InScope W_good ∧ Known_shadow W_good = false ∧
    (allLangs.all fun lc => (typeItems W_good).all fun it =>
      (refs lc (renamesOf W_good) it).all fun r => !KnownRef lc W_good r) = true ∧
    hasRef swOP W_good (.struct wLine) s%"OPPointNew" (.type s%"Point") false (fun _ _ _ => true) = true ∧
    hasRef swOP W_good (.struct wLine) s%"T" (.param s%"T") false (fun _ _ _ => true) = true ∧
    defName swOP (.struct wPoint) = s%"OPPointNew" :=
  ⟨W_good_inScope, by decide +kernel, by decide +kernel, by decide +kernel, by decide +kernel, by decide +kernel⟩

/-- `C09_converse` / `C09_failures_are_go_enums`: hypotheses met by the Go enum witness -/
example : InScope W_unit ∧ CfgOk go0 ∧ Known_shadow W_unit = false ∧
    KnownRef go0 W_unit ⟨s%"UnitNew", .type s%"Un", false⟩ = true :=
  ⟨W_unit_inScope, cfgOk_all _ (by simp [allLangs]), by decide +kernel, by decide +kernel⟩

/-- `C09_no_renames`: a program without `serde(rename)` that has references, a generic parameter and
a prefix -/
example : InScope ({ structs := [mkStruct s%"Point" none [] [fld s%"x" (.prim .u8)], wLine] } : ParsedData) ∧
    (∀ it ∈ typeItems ({ structs := [mkStruct s%"Point" none [] [fld s%"x" (.prim .u8)], wLine] } : ParsedData),
      (itemId it).serdeRename = false) :=
  ⟨inScope_of _ (by decide) (by decide) (by decide) (by decide) rfl rfl, by decide⟩

/-- `C09_all_but_go`: Kotlin with a prefix on the alias witness (inconsistent there before 0c924cd)
and on the tagged-enum witness (before 3d3e1e7) -/
example : isGo ktOP = false ∧ Known_shadow W_alias = false ∧ Known_shadow W_enum = false ∧
    hasRef ktOP W_alias (.struct wUserA) s%"OPAliasNew" (.type s%"Al") false (fun _ _ _ => true) = true ∧
    defName ktOP (.alias wAlias) = s%"OPAliasNew" :=
  ⟨rfl, by decide +kernel, by decide +kernel, by decide +kernel, by decide +kernel⟩

/-- `C09_go_without_renamed_enums`: Go on the alias witness and on the generic-head witness (renamed
alias / struct, no renamed enum) -/
example : (∀ e ∈ W_alias.enums, e.id.renamed = e.id.original) ∧ (∀ e ∈ W_generic.enums, e.id.renamed = e.id.original) ∧
    Known_shadow W_generic = false ∧
    hasRef go0 W_generic (.struct wUserG) s%"GenNew" (.type s%"Ge") true (fun _ _ _ => true) = true :=
  ⟨by simp [W_alias], by simp [W_generic], by decide +kernel, by decide +kernel⟩

/-- `C09_generic_heads`: a head reference outside the known class (TypeScript, `GenNew<String>`) -/
example : hasRef ts0 W_generic (.struct wUserG) s%"GenNew" (.type s%"Ge") true
    (fun lc P r => !Known_def_original lc P r) = true := by decide +kernel

/-- `getIdent_invariant`: `#[serde(rename = "X")]` and no attribute -/
example : Parser.getIdent E0 (some s%"Foo") [] none = .ok ⟨s%"Foo", s%"Foo", false⟩ := by decide +kernel

end TsV.C09
