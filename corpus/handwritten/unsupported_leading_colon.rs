// `Path::is_ident` is false for `::serde`, so the real code ignores this rename; the abstract AST keeps only the
// segments of an attribute path and cannot tell `::serde` from `serde`: the translator reports the file as unsupported.
#[typeshare]
pub struct LeadingColon {
    #[::serde(rename = "ignored_by_typeshare")]
    pub a: u8,
}
