import TsV.Lemmas.C10_Lex
import TsV.Model.Lang.Swift
import TsV.Model.Lang.Python
import TsV.Model.Lang.Scala
import TsV.Model.Lang.Kotlin
/-!
# C10 — keyword escaping (Swift, Python) and the leading-digit rule (Kotlin, Swift, Scala)
-/
namespace TsV.C10Kw
open TsV TsV.Lang

theorem contains_false_of {l : List Str} {x : Str} (h : x ∉ l) : l.contains x = false := by
  simpa using h

/-! ## Swift: `swift_keyword_aware_rename` -/

theorem swift_no_keyword_starts_with_backtick : ∀ k ∈ Swift.keywords, k.head? ≠ some '`' := by decide
theorem swift_no_keyword_has_underscore : ∀ k ∈ Swift.keywords, '_' ∉ k := by decide

/-- **the result of `swift_keyword_aware_rename` is never a bare keyword** -/
theorem swift_kw_not_keyword (name : Str) : Swift.keywords.contains (Swift.kw name) = false := by
  unfold Swift.kw
  split
  · apply contains_false_of
    intro hm
    exact swift_no_keyword_starts_with_backtick _ hm (by simp)
  · rename_i h; simpa using h

theorem replaceChar_id (s : Str) (c : Char) (r : Str) (h : c ∉ s) : Str.replaceChar s c r = s := by
  induction s with
  | nil => rfl
  | cons x t ih =>
    have hx : x ≠ c := fun e => h (by simp [e])
    have ht : c ∉ t := fun e => h (by simp [e])
    simp only [Str.replaceChar, List.flatMap_cons, hx, if_false] at ih ⊢
    simpa [Str.replaceChar] using ih ht

theorem replaceChar_mem (s : Str) (c d : Char) (h : c ∈ s) : d ∈ Str.replaceChar s c [d] := by
  simp only [Str.replaceChar, List.mem_flatMap]
  exact ⟨c, h, by simp⟩

theorem replaceChar_head (s : Str) (c d x : Char) (t : Str) (h : s = x :: t) (hx : x ≠ c) :
    (Str.replaceChar s c [d]).head? = some x := by
  subst h
  simp [Str.replaceChar, hx]

/-- **the printed member name of a struct field is never a bare keyword**
(`remove_dash_from_identifier(swift_keyword_aware_rename(renamed))`) -/
theorem swift_memberName_not_keyword (f : RustField) : Swift.keywords.contains (Swift.memberName f) = false := by
  unfold Swift.memberName Swift.removeDash Swift.kw
  split
  · -- escaped: the name starts with a back-tick
    apply contains_false_of
    intro hm
    refine swift_no_keyword_starts_with_backtick _ hm ?_
    exact replaceChar_head _ '-' '_' '`' (f.id.renamed ++ s%"`") (by simp) (by decide)
  · rename_i hk
    by_cases hd : '-' ∈ f.id.renamed
    · apply contains_false_of
      intro hm
      exact swift_no_keyword_has_underscore _ hm (replaceChar_mem _ '-' '_' hd)
    · rw [replaceChar_id _ _ _ hd]; simpa using hk

/-! ## Python: `python_property_aware_rename` -/

theorem python_no_keyword_ends_with_underscore : ∀ k ∈ Python.keywords, k.getLast? ≠ some '_' := by decide

/-- **the attribute name of a pydantic field is never a Python keyword**, whatever the external
snake-casing function does -/
theorem python_rename_not_keyword (E : Ext) (name : Str) :
    Python.keywords.contains (Python.propertyAwareRename E name) = false := by
  simp only [Python.propertyAwareRename]
  split
  · apply contains_false_of
    intro hm
    exact python_no_keyword_ends_with_underscore _ hm (by simp)
  · rename_i h; simpa using h

/-! ## leading digits -/

theorem us_not_digit : Str.isAsciiDigit '_' = false := by decide

/-- **Kotlin: the class name of a sealed-class case never starts with a digit** -/
theorem kotlin_variantName_head (U : UnicodeOps) (s : Str) (c : Char) (rest : Str) (h : Kotlin.variantName U s = c :: rest) :
    Str.isAsciiDigit c = false := by
  simp only [Kotlin.variantName] at h
  cases hp : Rename.toPascal U s with
  | nil => rw [hp] at h; simp at h
  | cons d t =>
    rw [hp] at h
    simp only at h
    split at h
    · cases h; exact us_not_digit
    · rename_i hd; cases h; simpa using hd

/-- **Scala: the name of a case class / object of an algebraic enum never starts with a digit** -/
theorem scala_variantName_head (s : Str) (c : Char) (rest : Str) (h : Scala.variantName s = c :: rest) :
    Str.isAsciiDigit c = false := by
  unfold Scala.variantName at h
  cases s with
  | nil => simp at h
  | cons d t =>
    simp only at h
    split at h
    · cases h; exact us_not_digit
    · rename_i hd; cases h; simpa using hd

/-- **Swift: the case name of an algebraic enum never starts with a digit** -/
theorem swift_algebraicCaseName_head (U : UnicodeOps) (v : RustEnumVariant) (c : Char) (rest : Str)
    (h : Swift.algebraicCaseName U v = c :: rest) : Str.isAsciiDigit c = false := by
  simp only [Swift.algebraicCaseName] at h
  cases hp : Rename.toCamel U v.id.original with
  | nil => rw [hp] at h; simp at h
  | cons d t =>
    rw [hp] at h
    simp only at h
    split at h
    · cases h; exact us_not_digit
    · rename_i hd; cases h; simpa using hd

end TsV.C10Kw
