import TsV.Model.Sx
import TsV.Model.Decode
import TsV.Model.Integer
import TsV.Model.TargetOs
import TsV.Model.Rename
import TsV.Model.Serde
import TsV.Model.Topsort
import TsV.Model.Encode
import TsV.Model.Generate
import TsV.Model.Writer
import TsV.Model.Config
import TsV.Model.Annotation
import TsV.Model.Files
import TsV.Lemmas.C10_Spec
import TsV.Lemmas.C15_Driver
import TsV.Lemmas.C09_Defs
import TsV.Lemmas.C04_TypeScript
import TsV.Lemmas.C04_Kotlin
import TsV.Lemmas.C04_Swift
import TsV.Lemmas.C04_Scala
import TsV.Lemmas.C04_Go
import TsV.Lemmas.C04_Python
/-!
# `tsmodel`: one s-expression request per line in, one JSON answer per line out.
The driver only decodes, calls the model's executable definitions and prints.
-/
open TsV

structure DriverState where
  /-- non-ASCII rows of the Unicode table: (char, isUpper, isLower, lower, upper, isWhite) -/
  utable : List (Char × Bool × Bool × Str × Str × Bool) := []
  /-- `convert_case` snake-casing of the strings of this session, computed by the real crate -/
  snake : List (Str × Str) := []

def DriverState.U (st : DriverState) : UnicodeOps :=
  let look (c : Char) := st.utable.find? (·.1 == c)
  { isUpper := fun c => if c.toNat < 128 then Str.isAsciiUpper c else
      match look c with | some r => r.2.1 | none => false
    isLower := fun c => if c.toNat < 128 then Str.isAsciiLower c else
      match look c with | some r => r.2.2.1 | none => false
    toLower := fun c => if c.toNat < 128 then [Str.asciiLower c] else
      match look c with | some r => r.2.2.2.1 | none => [c]
    toUpper := fun c => if c.toNat < 128 then [Str.asciiUpper c] else
      match look c with | some r => r.2.2.2.2.1 | none => [c]
    isWhite := fun c => if c.toNat < 128 then UnicodeOps.ascii.isWhite c else
      match look c with | some r => r.2.2.2.2.2 | none => false }

def jOutcome {α} (f : α → J) : Outcome α → J := Encode.outcome f

/-- the model's choice among equally minimal candidates of `min_by_key` in `find_type` (they are all
the same import, so any valid choice gives the same result): the smallest candidate -/
def pickSmallest (c : List ImportedType) : Option ImportedType :=
  c.foldl (fun acc i => match acc with
    | none => some i
    | some a => if Visitor.ImportedType.lt i a then some i else some a) none

def decodePairs (x : Sx) : Option (List (Str × Str)) := do
  (← x.asList?).mapM fun p => match p with
    | .list [.str k, .str v] => some (k, v)
    | _ => none

def optStr : Sx → Option (Option Str)
  | .atom "none" => some none
  | .str s => some (some s)
  | _ => none

def langOf : String → Option Lang
  | "typescript" => some .typescript | "kotlin" => some .kotlin | "swift" => some .swift
  | "scala" => some .scala | "go" => some .go | "python" => some .python | _ => none

/-- `(typescript ((k v)…) header|none)` … one clause per back end -/
def decodeLang (U : UnicodeOps) : Sx → Option Generate.LangCfg
  | .list [.atom "typescript", m, h] => do
    some (.typescript { typeMappings := ← decodePairs m, versionHeader := ← optStr h })
  | .list [.atom "kotlin", m, h, .str pkg, .str modName, .str pfx] => do
    some (.kotlin { typeMappings := ← decodePairs m, versionHeader := ← optStr h, package := pkg,
                    moduleName := modName, pfx, U })
  | .list [.atom "swift", m, h, .str pfx, .list dd, .list dgc, .list cvc] => do
    some (.swift { typeMappings := ← decodePairs m, versionHeader := ← optStr h, pfx,
                   defaultDecorators := ← Decode.strs dd, defaultGenericConstraints := ← Decode.strs dgc,
                   codablevoidConstraints := ← Decode.strs cvc })
  | .list [.atom "scala", m, h, .str pkg, .str modName] => do
    some (.scala { typeMappings := ← decodePairs m, versionHeader := ← optStr h, package := pkg, moduleName := modName })
  | .list [.atom "go", m, h, .str pkg, .list acr, nps] => do
    some (.go { typeMappings := ← decodePairs m, versionHeader := ← optStr h, package := pkg,
                uppercaseAcronyms := ← Decode.strs acr, noPointerSlice := ← nps.asBool? })
  | .list [.atom "python", m, h] => do
    some (.python { typeMappings := ← decodePairs m, versionHeader := ← optStr h })
  | _ => none

def decodeSource : Sx → Option Generate.SourceFile
  | .list [.str c, .str fn, .str p, f] => do some ⟨c, fn, p, ← Decode.file f⟩
  | _ => none

namespace Ann
open TsV.Annotation
def attr : Sx → Option AAttr
  | .list [.list segs, .str t] => do some ⟨← Decode.strs segs, t⟩
  | _ => none
def attrs (x : Sx) : Option (List AAttr) := do (← x.asList?).mapM attr
def fld : Sx → Option AField
  | .list [a, .str r] => do some ⟨← attrs a, r⟩
  | _ => none
def variant : Sx → Option AVariant
  | .list [a, .str n, .list fs, .str r] => do some ⟨← attrs a, n, ← fs.mapM fld, r⟩
  | _ => none
def item : Sx → Option AItem
  | .list [.atom "struct", a, .str h, .list fs] => do some (.struct (← attrs a) h (← fs.mapM fld))
  | .list [.atom "union", a, .str h, .list fs] => do some (.union (← attrs a) h (← fs.mapM fld))
  | .list [.atom "enum", a, .str h, .list vs] => do some (.enum (← attrs a) h (← vs.mapM variant))
  | .list [.atom "other", .str t] => some (.other t)
  | _ => none
def jAttrs (as : List AAttr) : J := .arr (as.map fun a => .arr [J.ofStrs a.path, .str a.tokens])
def jField (f : AField) : J := .obj [("attrs", jAttrs f.attrs), ("rest", .str f.rest)]
def jItem : AItem → J
  | .struct a h fs => .obj [("kind", .str "struct".toList), ("attrs", jAttrs a), ("head", .str h), ("fields", .arr (fs.map jField))]
  | .union a h fs => .obj [("kind", .str "union".toList), ("attrs", jAttrs a), ("head", .str h), ("fields", .arr (fs.map jField))]
  | .enum a h vs => .obj [("kind", .str "enum".toList), ("attrs", jAttrs a), ("head", .str h),
      ("variants", .arr (vs.map fun v => .obj [("attrs", jAttrs v.attrs), ("name", .str v.name),
        ("fields", .arr (v.fields.map jField)), ("rest", .str v.rest)]))]
  | .other t => .obj [("kind", .str "other".toList), ("tokens", .str t)]
end Ann

def decodeCtx : Sx → Option ParseContext
  | .list [.atom "ctx", .list ign, multi, .list tos] => do
    some { ignoredTypes := ← Decode.strs ign, multiFile := ← multi.asBool?, targetOs := ← Decode.strs tos }
  | _ => none

/-- `(ext (("Vec<u8>" <type>) …))`: what `syn::parse_str::<Type>` makes of each serialized_as string -/
def decodeExt (st : UnicodeOps) (snake : List (Str × Str)) : Sx → Option Ext
  | .list [.atom "ext", .list rows] => do
    let table ← rows.mapM fun r => match r with
      | .list [.str s, .atom "none"] => some (s, none)
      | .list [.str s, t] => do some (s, some (← Decode.ty t))
      | _ => none
    some { U := st,
           parseType := fun s => (match table.find? (·.1 == s) with
             | some (_, t) => t
             | none => none),
           snakeCase := fun s => (match snake.find? (·.1 == s) with
             | some (_, r) => r
             | none => s) }
  | _ => none

def jOptInt : Option Int → J
  | some n => .obj [("ok", .num n)]
  | none => .obj [("err", .str "range".toList)]

def bad (why : String) : J := .obj [("bad-request", .str why.toList)]

/-- C04: the binding-semantics reading (`TsV.C04.*.isOptional` / `stripOptional`) of the fact record the
back-end model builds for every named field of every struct and struct variant of `d`:
`[name, optional, type without the marker]`; for Python (whose semantics is the relation
`Py.Denotes`) the raw record `[name, default is None, printed type]`. -/
def c04Facts (E : Ext) (lang : Generate.LangCfg) (d : ParsedData) : J :=
  let fields : List (List Str × RustField) :=
    d.structs.flatMap (fun s => s.fields.map fun f => (s.genericTypes, f)) ++
    d.enums.flatMap fun e => e.variants.flatMap fun v =>
      match v with
      | .anonymousStruct id _ fs =>
        fs.map fun f => ((Lang.anonymousStruct e [] id.original fs).genericTypes, f)
      | _ => []
  let row (f : RustField) (o : Bool) (core : Str) : J := .arr [.str f.id.original, .bool o, .str core]
  .arr (fields.filterMap fun (gens, f) =>
    match lang with
    | .typescript cfg =>
      (match Lang.TypeScript.fieldFacts cfg gens f [] with
       | .ok (tf, _) => some (row f (C04.Ts.isOptional tf) (C04.Ts.stripOptional tf))
       | _ => none)
    | .kotlin cfg =>
      (match Lang.Kotlin.paramFacts cfg gens false false f with
       | .ok p => some (row f (C04.Kt.isOptional p) (C04.Kt.stripOptional p))
       | _ => none)
    | .swift cfg =>
      (match Lang.Swift.fieldType cfg gens f false with
       | .ok (ty, _) =>
         some (row f (C04.Sw.isOptional ty (Lang.Swift.fieldOptional f)) (C04.Sw.stripOptional ty (Lang.Swift.fieldOptional f)))
       | _ => none)
    | .scala cfg =>
      (match Lang.Scala.paramFacts cfg gens f with
       | .ok p => some (row f (C04.Sc.isOptional p) (C04.Sc.stripOptional p))
       | _ => none)
    | .go cfg =>
      (match Lang.Go.fieldFacts E.U cfg f [] with
       | .ok (g, _) => some (row f (C04.Go.isOptional cfg g) (C04.Go.stripOptional g))
       | _ => none)
    | .python cfg =>
      (match Lang.Python.fieldFacts E cfg gens f {} with
       | .ok (p, _) => some (row f (p.default == some s%"None") p.ty)
       | _ => none))

def ruleOf (s : Sx) : Option (Option Str) :=
  match s with
  | .atom "none" => some none
  | .str r => some (some r)
  | _ => none

def natList (x : Sx) : Option (List Nat) := do (← x.asList?).mapM Sx.asNat?


/-- C09: the binding-semantics facts of `TsV.C09` for a single-file program, as JSON:
the defined names, and per item the references (spelling, target, generic head?, known class) -/
def c09Facts (lang : Generate.LangCfg) (P : ParsedData) : J :=
  let tgt : C09.Target → J
    | .type o => .arr [.str "type".toList, .str o]
    | .param g => .arr [.str "param".toList, .str g]
    | .parent o => .arr [.str "parent".toList, .str o]
    | .inner o v => .arr [.str "inner".toList, .str o, .str v]
  let known (r : C09.Ref) : J :=
    -- the classes generic-head / parent / inner are repaired (821da1d, 03e02a1): one class is left
    if C09.Known_def_original lang P r then .str "def-original".toList
    else .null
  let rn := C09.renamesOf P
  .obj [("defs", J.ofStrs (C09.allDefs lang P)),
        ("shadow", .bool (C09.Known_shadow P)),
        ("refs", .arr ((C09.typeItems P).flatMap fun it =>
          (C09.refs lang rn it).map fun r =>
            .arr [.str (C09.itemId it).original, .str r.spelling, tgt r.target, .bool r.head, known r]))]

def handle (st : DriverState) (req : Sx) : DriverState × J :=
  match req with
  | .list [.atom "unicode", .list rows] =>
    let parsed := rows.filterMap fun r =>
      match r with
      | .list [.str [c], iu, il, .str lo, .str up, iw] => do
        some (c, ← iu.asBool?, ← il.asBool?, lo, up, ← iw.asBool?)
      | _ => none
    ({ st with utable := parsed }, .obj [("ok", .num parsed.length)])
  | .list [.atom "snake-table", .list rows] =>
    let parsed := rows.filterMap fun r => match r with
      | .list [.str a, .str b] => some (a, b)
      | _ => none
    ({ st with snake := parsed }, .obj [("ok", .num parsed.length)])
  | .list [.atom "lexok", .atom lang, .str text] =>
    -- C10: the lexical specification `C10Spec.lexOk` evaluated on a given text
    (st, match C10Spec.langOfName lang with
      | some l => .obj [("ok", .bool (C10Spec.lexOk l text))]
      | none => bad "lexok")
  | .list [.atom "int", .atom op, a] =>
    (st, match a.asInt? with
      | none => bad "int"
      | some n =>
        match op with
        | "u53try" => jOptInt (Integer.u53TryFrom n)
        | "i54try" => jOptInt (Integer.i54TryFrom n)
        | "u53json" => jOptInt (Integer.u53FromJson n)
        | "i54json" => jOptInt (Integer.i54FromJson n)
        | "f64" => .obj [("ok", .num (Integer.f64Round n))]
        | "usizesat" => .obj [("ok", .num (Integer.usizeFromU53Saturated n))]
        | _ => bad "int-op")
  | .list [.atom "int", .atom op, b, a] =>
    (st, match b.asNat?, a.asInt? with
      | some bits, some n =>
        match op with
        | "u53narrow" => jOptInt (Integer.u53ToNarrow bits n)
        | "i54narrow" => jOptInt (Integer.i54ToNarrow bits n)
        | "u53widen" => jOptInt (Integer.u53TryFrom (Integer.fromNarrow n))
        | "i54widen" => jOptInt (Integer.i54TryFrom (Integer.fromNarrow n))
        | _ => bad "int-op"
      | _, _ => bad "int")
  | .list [.atom "intcmp", a, b] =>
    (st, match a.asInt?, b.asInt? with
      | some x, some y => .obj [("ok", .arr [.bool (x < y), .bool (x == y), .bool (x > y), .bool (x == y), .bool (x < y)])]
      | _, _ => bad "intcmp")
  | .list [.atom "accept-os", a, .list ts] =>
    (st, match Decode.attrs a, Decode.strs ts with
      | some attrs, some targets =>
        match TargetOs.accept attrs targets with
        | some b => .obj [("ok", .bool b)]
        | none => .obj [("panic", .str "fuel".toList)]
      | _, _ => bad "accept-os")
  | .list [.atom "rename", r, .str s] =>
    (st, match ruleOf r with
      | some rule => jOutcome .str (Rename.renameAllToCase st.U s rule)
      | none => bad "rename")
  | .list [.atom "renameext", .atom f, .str s] =>
    (st, match f with
      | "camel" => .obj [("ok", .str (Rename.toCamel st.U s))]
      | "pascal" => .obj [("ok", .str (Rename.toPascal st.U s))]
      | "snake" => .obj [("ok", .str (Rename.toSnake st.U s))]
      | "screaming_snake" => .obj [("ok", .str (Rename.toScreamingSnake st.U s))]
      | "kebab" => .obj [("ok", .str (Rename.toKebab st.U s))]
      | "screaming_kebab" => .obj [("ok", .str (Rename.toScreamingKebab st.U s))]
      | _ => bad "renameext")
  | .list [.atom "crate-name", .list comps, .atom lang] =>
    (st, match Decode.strs comps, langOf lang with
      | some cs, some l =>
        match Files.findCrateName cs with
        | some c => .obj [("ok", .str c), ("file", .str (Files.outputFileName st.U l c))]
        | none => .obj [("ok", .null)]
      | _, _ => bad "crate-name")
  | .list [.atom "serde", .atom pos, .str r, .str s] =>
    (st, match Serde.Rule.ofStr r with
      | none => .obj [("err", .str "unknown-rule".toList)]
      | some rule =>
        match pos with
        | "field" => jOutcome .str (Serde.applyField rule s)
        | "variant" => jOutcome .str (Serde.applyVariant st.U rule s)
        | _ => bad "serde")
  | .list [.atom "parse", c, e, .str crate, .str fileName, .str path, f] =>
    (st, match decodeCtx c, decodeExt st.U st.snake e, Decode.file f with
      | some ctx, some ext, some file =>
        jOutcome (fun o => match o with | some d => Encode.parsed d | none => .null)
          (Visitor.parseFile ext ctx pickSmallest crate fileName path file)
      | _, _, _ => bad "parse")
  | .list [.atom "generate", l, multi, .list tos, e, .list fs] =>
    (st, match decodeLang st.U l, multi.asBool?, Decode.strs tos, decodeExt st.U st.snake e, fs.mapM decodeSource with
      | some lang, some m, some targets, some ext, some files =>
        (match Generate.run ext lang m targets pickSmallest files with
        | .ok (.outputs outs) =>
          .obj [("ok", .obj (outs.map fun (c, t) => (String.ofList c, .str t)))]
        | .ok (.parseErrors errs) =>
          .obj [("errors", .arr (errs.map fun (e, f) => .arr [.str (Encode.errName e).toList, .str f]))]
        | .err e => .obj [("err", .str (Encode.errName e).toList)]
        | .panic p => .obj [("panic", .str p)])
      | _, _, _, _, _ => bad "generate")
  | .list [.atom "c09-facts", l, .list tos, e, .list fs] =>
    (st, match decodeLang st.U l, Decode.strs tos, decodeExt st.U st.snake e, fs.mapM decodeSource with
      | some lang, some targets, some ext, some files =>
        let ctx : ParseContext := { ignoredTypes := Generate.ignoredTypes lang, multiFile := false, targetOs := targets }
        (match Generate.parseAll ext ctx pickSmallest files with
        | .ok arrivals =>
          (match Pipeline.collect arrivals with
           | [(_, P)] => .obj [("ok", c09Facts lang P)]
           | [] => .obj [("ok", c09Facts lang {})]
           | _ => bad "c09-facts: more than one crate")
        | .err e => .obj [("err", .str (Encode.errName e).toList)]
        | .panic p => .obj [("panic", .str p)])
      | _, _, _, _ => bad "c09-facts")
  | .list [.atom "c04-facts", l, e, f] =>
    (st, match decodeLang st.U l, decodeExt st.U st.snake e, Decode.file f with
      | some lang, some ext, some file =>
        (match Visitor.parseFile ext {} pickSmallest [] s%"out" s%"src/lib.rs" file with
         | .ok (some d) => .obj [("ok", c04Facts ext lang d)]
         | .ok none => .obj [("ok", .arr [])]
         | .err e => .obj [("err", .str (Encode.errName e).toList)]
         | .panic p => .obj [("panic", .str p)])
      | _, _, _ => bad "c04-facts")
  | .list [.atom "writer-run", .list fs, now, .list outs] =>
    (st, match fs.mapM (fun e => match e with
            | .list [.str p, .str b, m] => do some (p, (⟨b, ← m.asNat?⟩ : Writer.FileState))
            | _ => none),
          now.asNat?, outs.mapM (fun e => match e with
            | .list [.str p, .str b] => some (p, b)
            | _ => none) with
      | some fs0, some t, some os =>
        let (fs1, acts) := Writer.run fs0 t os
        .obj [("fs", .arr (fs1.map fun (p, f) => .arr [.str p, .str f.bytes, .num f.mtime])),
              ("actions", .arr (acts.map fun a => .str (match a with
                | .skippedSame => "skipped-same" | .skippedEmpty => "skipped-empty" | .wrote => "wrote").toList))]
      | _, _, _ => bad "writer-run")
  | .list [.atom "config", file, .list cli, goFlag] =>
    (st, match (match file with
            | .atom "none" => some none
            | .list [.str a, .str b, .str c, .str d, .str e, .str f, .str g] =>
              some (some (({ swiftPrefix := a, kotlinPrefix := b, kotlinPackage := c, kotlinModule := d,
                             scalaPackage := e, scalaModule := f, goPackage := g } : Config.Shared), ()))
            | _ => none), cli.mapM optStr, goFlag.asBool? with
      | some fileCfg, some [a, b, c, d, e, f, g], some isGo =>
        let o : Config.Cli := { swiftPrefix := a, kotlinPrefix := b, javaPackage := c, kotlinModule := d,
                                scalaPackage := e, scalaModule := f, goPackage := g, langIsGo := isGo }
        (match Config.overrideConfiguration (Config.loadConfig () fileCfg) o with
        | some c => .obj [("ok", J.ofStrs [c.shared.swiftPrefix, c.shared.kotlinPrefix, c.shared.kotlinPackage,
            c.shared.kotlinModule, c.shared.scalaPackage, c.shared.scalaModule, c.shared.goPackage])]
        | none => .obj [("err", .str "go-package-required".toList)])
      | _, _, _ => bad "config")
  | .list [.atom "expand", it] =>
    (st, match Ann.item it with
      | some i => .obj [("ok", Ann.jItem (Annotation.expand i))]
      | none => bad "expand")
  | .list [.atom "tryfrom", t] =>
    (st, match Decode.ty t with
      | some ty => jOutcome Encode.ty (RustTypes.tryFrom ty)
      | none => bad "tryfrom")
  | .list [.atom "format-type", l, .list gens, t] =>
    -- C05: `ty.parse::<RustType>()` then `Language::format_type(&ty, &generics)` on a fresh printer
    (st, match decodeLang st.U l, Decode.strs gens, Decode.ty t with
      | some lang, some gs, some sty =>
        (match RustTypes.tryFrom sty with
        | .ok rt =>
          let text : Outcome Str := match lang with
            | .typescript c => (Lang.TypeScript.formatType c gs rt []).bind fun r => .ok r.1
            | .kotlin c => Lang.Kotlin.formatType c gs rt
            | .swift c => (Lang.Swift.formatType c gs rt false).bind fun r => .ok r.1
            | .scala c => Lang.Scala.formatType c gs rt
            | .go c => (Lang.Go.formatType c rt []).bind fun r => .ok r.1
            | .python c => (Lang.Python.formatType c gs rt {}).bind fun r => .ok r.1
          (match jOutcome .str text with
           | .obj kvs => .obj (kvs ++ [("ty", Encode.ty rt)])
           | j => j)
        | .err e => .obj [("err", .str (Encode.errName e).toList)]
        | .panic p => .obj [("panic", .str p)])
      | _, _, _ => bad "format-type")
  | .list [.atom "toposort", .list g] =>
    (st, match g.mapM natList with
      | some graph =>
        match Topsort.toposort graph with
        | some r => .obj [("ok", J.ofNats r)]
        | none => .obj [("panic", .str "topsort".toList)]
      | none => bad "toposort")
  | .list [.atom "sortidx", d, i] =>
    (st, match natList d, natList i with
      | some data, some idx =>
        match Topsort.sortByIndices data idx with
        | some r => .obj [("ok", J.ofNats r)]
        | none => .obj [("panic", .str "sort_by_indices".toList)]
      | _, _ => bad "sortidx")
  | .list (.atom "c15" :: _) | .list (.atom "c15-mask" :: _) =>
    (st, (C15.request st.U req).getD (bad "c15"))
  | _ => (st, bad "unknown-request")

partial def loop (h : IO.FS.Stream) (out : IO.FS.Stream) (st : DriverState) : IO Unit := do
  let line ← h.getLine
  if line.isEmpty then return ()
  let (st', ans) :=
    match Sx.parse line with
    | some req => handle st req
    | none => (st, bad "parse")
  out.putStrLn ans.render
  loop h out st'

def main : IO Unit := do
  let out ← IO.getStdout
  loop (← IO.getStdin) out {}
