import TsV.Lemmas.C10_Files_Common
import TsV.Lemmas.C10_TypeScript
import TsV.Lemmas.C03_Emission_TypeScript
/-!
# C10, whole files — TypeScript

The file-level lexer of TypeScript (`lexCfg .typescript = ⟨false, false⟩`) does not track `<`/`>`
(the reviver / replacer helpers use `=>`, `<=`, `>=`); the declaration-level theorems are proved for
the stricter lexer `T = ⟨true, false⟩` and transferred with `nb_dropAngles`.

The printer state (`types_for_custom_json_translation`) reaches the text through the `key === "…"`
clauses of the `Date` reviver: the invariant `StOk` says every recorded property name is over
`[A-Za-z0-9_-]`.
-/
namespace TsV.C10Files.TS
open TsV TsV.Lang TsV.C10Lex TsV.Lang.TypeScript TsV.C10TypeScript TsV.C03E TsV.C10Files

/-- the file-level lexer -/
def F : LexCfg := ⟨false, false⟩

theorem nb_of_T {x : Str} (h : NB T x) : NB F x := nb_dropAngles h

/-! ## the state invariant -/

def StOk (st : CustomMap) : Prop := ∀ p ∈ st, ∀ i ∈ p.2, KeyStr i

theorem stOk_nil : StOk [] := fun _ h => by simp at h

theorem cmInsert_ok {k : Str} {v : List Str} (hv : ∀ i ∈ v, KeyStr i) : ∀ {m : CustomMap}, StOk m → StOk (cmInsert m k v)
  | [], _ => by
    intro p hp; simp only [cmInsert, List.mem_singleton] at hp; subst hp; exact hv
  | (k', v') :: rest, h => by
    simp only [cmInsert]
    have hr : StOk rest := fun p hp => h p (by simp [hp])
    split
    · intro p hp
      simp only [List.mem_cons] at hp
      rcases hp with rfl | hp
      · exact hv
      · exact hr p hp
    · split
      · intro p hp
        simp only [List.mem_cons] at hp
        rcases hp with rfl | rfl | hp
        · exact hv
        · exact h _ (by simp)
        · exact hr p hp
      · intro p hp
        simp only [List.mem_cons] at hp
        rcases hp with rfl | hp
        · exact h _ (by simp)
        · exact cmInsert_ok hv hr p hp

theorem cmGet_ok {m : CustomMap} (h : StOk m) (k : Str) : ∀ i ∈ (cmGet m k).getD [], KeyStr i := by
  unfold cmGet
  cases hf : m.find? (·.1 == k) with
  | none => simp
  | some p => simpa using h p (List.mem_of_find?_eq_some hf)

/-- the invariant is carried from `st` to `st'` -/
def Pres (st st' : CustomMap) : Prop := StOk st → StOk st'

theorem Pres.refl (st : CustomMap) : Pres st st := id
theorem Pres.trans {a b c : CustomMap} (h1 : Pres a b) (h2 : Pres b c) : Pres a c := fun h => h2 (h1 h)
theorem Pres.insertNil (st : CustomMap) (k : Str) : Pres st (cmInsert st k []) :=
  fun h => cmInsert_ok (by simp) h

theorem special_pres (cfg : Cfg) (gens : List Str) (t : RustType) (st : CustomMap)
    (k : CustomMap → Outcome (Str × CustomMap)) (s : Str) (st' : CustomMap)
    (hk : ∀ s st', k st = .ok (s, st') → Pres st st')
    (h : special cfg gens t st k = .ok (s, st')) : Pres st st' := by
  unfold special at h
  cases hm : mapGet cfg.typeMappings t.display with
  | some m =>
    rw [hm] at h
    simp only [Outcome.ok.injEq, Prod.mk.injEq] at h
    rw [← h.2]
    split
    · exact Pres.insertNil st m
    · exact Pres.refl st
  | none => rw [hm] at h; exact hk s st' h

open TsV.C12L in
mutual
  theorem formatType_pres (cfg : Cfg) (gens : List Str) : ∀ (t : RustType) (st : CustomMap) (s : Str) (st' : CustomMap),
      formatType cfg gens t st = .ok (s, st') → Pres st st'
    | .simple id, st, s, st', h => by
      simp only [formatType, Outcome.ok.injEq, Prod.mk.injEq] at h
      rw [← h.2]; exact Pres.refl st
    | .generic id ps, st, s, st', h => by
      simp only [formatType] at h
      cases hm : mapGet cfg.typeMappings id with
      | some m =>
        rw [hm] at h
        simp only [Outcome.ok.injEq, Prod.mk.injEq] at h
        rw [← h.2]; exact Pres.refl st
      | none =>
        rw [hm] at h
        simp only at h
        cases hps : formatTypes cfg gens ps st with
        | ok r =>
          obtain ⟨strs, st1⟩ := r
          rw [hps] at h
          simp only [Outcome.ok.injEq, Prod.mk.injEq] at h
          rw [← h.2]; exact formatTypes_pres cfg gens ps st strs st1 hps
        | err e => rw [hps] at h; simp at h
        | panic e => rw [hps] at h; simp at h
    | .vec r, st, s, st', h => by
      simp only [formatType] at h
      refine special_pres cfg gens _ st _ s st' ?_ h
      intro s2 st2 hk
      simp only [bind_ok_iff] at hk
      obtain ⟨⟨s1, st1⟩, h1, h2⟩ := hk
      simp only [Outcome.ok.injEq, Prod.mk.injEq] at h2
      rw [← h2.2]; exact formatType_pres cfg gens r st s1 st1 h1
    | .slice r, st, s, st', h => by
      simp only [formatType] at h
      refine special_pres cfg gens _ st _ s st' ?_ h
      intro s2 st2 hk
      simp only [bind_ok_iff] at hk
      obtain ⟨⟨s1, st1⟩, h1, h2⟩ := hk
      simp only [Outcome.ok.injEq, Prod.mk.injEq] at h2
      rw [← h2.2]; exact formatType_pres cfg gens r st s1 st1 h1
    | .array r n, st, s, st', h => by
      simp only [formatType] at h
      refine special_pres cfg gens _ st _ s st' ?_ h
      intro s2 st2 hk
      simp only [bind_ok_iff] at hk
      obtain ⟨⟨s1, st1⟩, h1, h2⟩ := hk
      simp only [Outcome.ok.injEq, Prod.mk.injEq] at h2
      rw [← h2.2]; exact formatType_pres cfg gens r st s1 st1 h1
    | .option r, st, s, st', h => by
      simp only [formatType] at h
      refine special_pres cfg gens _ st _ s st' ?_ h
      intro s2 st2 hk
      exact formatType_pres cfg gens r st s2 st2 hk
    | .hashMap k v, st, s, st', h => by
      simp only [formatType] at h
      refine special_pres cfg gens _ st _ s st' ?_ h
      intro s3 st3 hk
      have key : ∀ (x : Outcome (Str × CustomMap)),
          x = ((formatType cfg gens k st).bind fun (ks, st) =>
            (formatType cfg gens v st).bind fun (vs, st) =>
              .ok (s%"Record<" ++ ks ++ s%", " ++ vs ++ s%">", st)) → x = .ok (s3, st3) → Pres st st3 := by
        intro x hx hxo
        rw [hx] at hxo
        simp only [bind_ok_iff] at hxo
        obtain ⟨⟨s1, st1⟩, h1, ⟨s2, st2⟩, h2, h3⟩ := hxo
        simp only [Outcome.ok.injEq, Prod.mk.injEq] at h3
        rw [← h3.2]
        exact (formatType_pres cfg gens k st s1 st1 h1).trans (formatType_pres cfg gens v st1 s2 st2 h2)
      split at hk
      · split at hk
        · simp at hk
        · exact key _ rfl hk
      · exact key _ rfl hk
    | .prim p, st, s, st', h => by
      simp only [formatType] at h
      refine special_pres cfg gens _ st _ s st' ?_ h
      intro s2 st2 hk
      cases p <;> simp only [Outcome.ok.injEq, Prod.mk.injEq] at hk <;>
        first | (rw [← hk.2]; exact Pres.refl st) | (simp at hk)
  theorem formatTypes_pres (cfg : Cfg) (gens : List Str) : ∀ (ts : List RustType) (st : CustomMap) (ss : List Str)
      (st' : CustomMap), formatTypes cfg gens ts st = .ok (ss, st') → Pres st st'
    | [], st, ss, st', h => by
      simp only [formatTypes, Outcome.ok.injEq, Prod.mk.injEq] at h
      rw [← h.2]; exact Pres.refl st
    | t :: ts, st, ss, st', h => by
      simp only [formatTypes, bind_ok_iff] at h
      obtain ⟨⟨s1, st1⟩, h1, ⟨s2, st2⟩, h2, h3⟩ := h
      simp only [Outcome.ok.injEq, Prod.mk.injEq] at h3
      rw [← h3.2]
      exact (formatType_pres cfg gens t st s1 st1 h1).trans (formatTypes_pres cfg gens ts st1 s2 st2 h2)
end

theorem fieldFacts_pres (cfg : Cfg) (gens : List Str) (f : RustField) (hk : KeyStr f.id.renamed) (st : CustomMap)
    (tf : TsField) (st' : CustomMap) (h : fieldFacts cfg gens f st = .ok (tf, st')) : Pres st st' := by
  unfold fieldFacts at h
  obtain ⟨ty, st1, hty, h⟩ := bind_pair_ok' h
  have h1 : Pres st st1 := by
    split at hty
    · cases hty; exact Pres.refl st
    · exact formatType_pres cfg gens f.ty st ty st1 hty
  simp only [Outcome.ok.injEq, Prod.mk.injEq] at h
  rw [← h.2]
  refine h1.trans ?_
  split
  · intro hst
    refine cmInsert_ok ?_ hst
    intro i hi
    rcases TsV.C12L.mem_insertSorted_iff.1 hi with rfl | hi
    · exact hk
    · exact cmGet_ok hst ty i hi
  · exact Pres.refl st1

theorem writeFields_pres (cfg : Cfg) (gens : List Str) : ∀ (fs : List RustField) (st : CustomMap)
    (text : Str) (st' : CustomMap), (∀ f ∈ fs, KeyStr f.id.renamed) → writeFields cfg gens fs st = .ok (text, st') →
    Pres st st'
  | [], st, text, st', _, h => by simp only [writeFields] at h; cases h; exact Pres.refl st
  | f :: fs, st, text, st', hf, h => by
    simp only [writeFields] at h
    obtain ⟨tf, st1, htf, h⟩ := bind_pair_ok' h
    obtain ⟨rest, st2, hrest, h⟩ := bind_pair_ok' h
    cases h
    exact (fieldFacts_pres cfg gens f (hf f (by simp)) st tf st1 htf).trans
      (writeFields_pres cfg gens fs st1 rest _ (fun g hg => hf g (by simp [hg])) hrest)

theorem writeVariants_pres (cfg : Cfg) (e : RustEnum) (tag content : Str) : ∀ (vs : List RustEnumVariant)
    (st : CustomMap) (text : Str) (st' : CustomMap), (∀ v ∈ vs, VariantOk v) →
    writeVariants cfg e tag content vs st = .ok (text, st') → Pres st st'
  | [], st, text, st', _, h => by simp only [writeVariants] at h; cases h; exact Pres.refl st
  | v :: vs, st, text, st', hv, h => by
    simp only [writeVariants] at h
    obtain ⟨a, st1, ha, h⟩ := bind_pair_ok' h
    obtain ⟨b, st2, hb, h⟩ := bind_pair_ok' h
    cases h
    refine Pres.trans ?_ (writeVariants_pres cfg e tag content vs st1 b _ (fun w hw => hv w (by simp [hw])) hb)
    have hvo := hv v (by simp)
    unfold writeVariant at ha
    cases v with
    | unit id cs => simp only at ha; cases ha; exact Pres.refl st
    | tuple id cs ty =>
      simp only at ha
      obtain ⟨t, st3, ht, ha⟩ := bind_pair_ok' ha
      cases ha
      exact formatType_pres cfg e.genericTypes ty st t _ ht
    | anonymousStruct id cs fs =>
      simp only at ha
      obtain ⟨body, st3, hbd, ha⟩ := bind_pair_ok' ha
      cases ha
      exact writeFields_pres cfg e.genericTypes fs st body _ (fun f hf => (hvo.2.2.2 f hf).key) hbd

/-- `write_item` keeps the invariant when the item's field keys are over `[A-Za-z0-9_-]` -/
theorem writeItem_pres (U : UnicodeOps) (cfg : Cfg) (it : RustItem) (hs : ItemOk it) (st : CustomMap) (text : Str)
    (st' : CustomMap) (h : writeItem U cfg it st = .ok (text, st')) : Pres st st' := by
  cases it with
  | struct s =>
    simp only [writeItem, writeStruct] at h
    obtain ⟨body, st1, hb, h⟩ := bind_pair_ok' h
    cases h
    exact writeFields_pres cfg s.genericTypes s.fields st body _ (fun f hf => (hs.fields f hf).key) hb
  | alias a =>
    simp only [writeItem, writeAlias] at h
    obtain ⟨ty, st1, hty, h⟩ := bind_pair_ok' h
    cases h
    exact formatType_pres cfg a.genericTypes a.ty st ty _ hty
  | const c =>
    simp only [writeItem, writeConst] at h
    obtain ⟨ty, st1, hty, h⟩ := bind_pair_ok' h
    cases h
    exact formatType_pres cfg [] c.ty st ty _ hty
  | «enum» e =>
    simp only [writeItem, writeEnum] at h
    split at h
    · cases h; exact Pres.refl st
    · obtain ⟨body, st1, hb, h⟩ := bind_pair_ok' h
      cases h
      exact writeVariants_pres cfg e _ _ e.variants st body _ hs.variants hb

/-! ## header, imports, footer -/

theorem dottedChar_strChar (c : Char) (h : dottedChar c = true) : strChar c = true := by
  simp only [dottedChar, Bool.or_eq_true, beq_iff_eq] at h
  rcases h with h | h
  · exact keyChar_strChar c h
  · subst h; decide

/-- what reaches the file around the declarations: the version text and the crate / type names of the
import lines are dotted identifier fragments -/
structure FileOk (cfg : Cfg) (imports : Option Pipeline.ScopedCrateTypes) : Prop where
  version : ∀ v, cfg.versionHeader = some v → Dotted v
  imports : ∀ i, imports = some i → ∀ p ∈ i, Dotted p.1 ∧ ∀ t ∈ p.2, Dotted t

theorem beginFile_nb (cfg : Cfg) (hv : ∀ v, cfg.versionHeader = some v → Dotted v) : NB F (beginFile cfg) := by
  unfold beginFile
  split
  · rename_i v hv'
    intro stk
    have r1 : Run F s%"/*\n Generated by typeshare " ⟨.code, stk⟩ ⟨.block, stk⟩ := rfl
    have r3 : Run F s%"\n*/\n\n" ⟨.block, stk⟩ ⟨.code, stk⟩ := rfl
    exact (r1.append (dotted_block (cfg := F) v (hv v hv') stk)).append r3
  · exact NB.nil

theorem writeImports_nb (i : Pipeline.ScopedCrateTypes) (h : ∀ p ∈ i, Dotted p.1 ∧ ∀ t ∈ p.2, Dotted t) :
    NB F (writeImports i) := by
  unfold writeImports
  refine NB.append (NB.flatMap _ _ ?_) NB.nl
  rintro ⟨path, tys⟩ hp
  obtain ⟨h1, h2⟩ := h _ hp
  intro stk
  have r1 : Run F s%"import { " ⟨.code, stk⟩ ⟨.code, '{' :: stk⟩ := rfl
  have r2 := NB.intercalate (cfg := F) s%", " nb_commaSep tys (fun t ht => (h2 t ht).nb) ('{' :: stk)
  have r3 : Run F s%" } from \"./" ⟨.code, '{' :: stk⟩ ⟨.str '"', stk⟩ := rfl
  have r4 := str_body (cfg := F) path stk (fun c hc => dottedChar_strChar c (h1 c hc))
  have r5 : Run F s%"\";\n" ⟨.str '"', stk⟩ ⟨.code, stk⟩ := rfl
  exact (((r1.append r2).append r3).append r4).append r5

theorem header_nb (cfg : Cfg) (imports) (hf : FileOk cfg imports) : NB F (TsV.C03E.TS.header cfg imports) := by
  unfold TsV.C03E.TS.header
  refine (beginFile_nb cfg hf.version).append ?_
  cases imports with
  | none => exact NB.nil
  | some i => exact writeImports_nb i (hf.imports i rfl)

theorem reviverUint8_nb : NB F reviverUint8 := nb_of_wb (by decide +kernel)
theorem replacerUint8_nb : NB F replacerUint8 := nb_of_wb (by decide +kernel)
theorem replacerDate_nb : NB F replacerDate := nb_of_wb (by decide +kernel)

theorem reviverDate_nb (ids : List Str) (h : ∀ i ∈ ids, KeyStr i) : NB F (reviverDate ids) := by
  unfold reviverDate
  intro stk
  have r1 : Run F s%"if (typeof value === \"string\" && /^\\d{4}-\\d{2}-\\d{2}T\\d{2}:\\d{2}:\\d{2}(\\.\\d+)?Z$/.test(value)"
      ⟨.code, stk⟩ ⟨.code, '(' :: stk⟩ := rfl
  have r2 : NB F (if ids.isEmpty then [] else
      s%" && (" ++ Str.intercalate s%" || " (ids.map fun i => s%"key === \"" ++ i ++ s%"\"") ++ s%")") := by
    split
    · exact NB.nil
    · have e : s%" && (" ++ Str.intercalate s%" || " (ids.map fun i => s%"key === \"" ++ i ++ s%"\"") ++ s%")"
          = s%" && " ++ (s%"(" ++ Str.intercalate s%" || " (ids.map fun i => s%"key === \"" ++ i ++ s%"\"") ++ s%")") := by
        simp
      rw [e]
      refine NB.append (by nb_lit) (NB.paren (NB.intercalate _ (by nb_lit) _ ?_))
      intro x hx
      simp only [List.mem_map] at hx
      obtain ⟨i, hi, rfl⟩ := hx
      have e2 : s%"key === \"" ++ i ++ s%"\"" = s%"key === " ++ (s%"\"" ++ i ++ s%"\"") := by simp
      rw [e2]
      exact NB.append (by nb_lit) (KeyStr.quoted (h i hi))
  have r3 : Run F s%") {\n        return new Date(value);\n    }" ⟨.code, '(' :: stk⟩ ⟨.code, stk⟩ := rfl
  exact (r1.append (r2 _)).append r3

theorem footerDocs_nb : NB F (comments 0 [s%"Custom JSON reviver and replacer functions for dynamic data transformation",
    s%"ReviverFunc is used during JSON parsing to detect and transform specific data structures",
    s%"ReplacerFunc is used during JSON serialization to modify certain values before stringifying.",
    s%"These functions allow for flexible encoding and decoding of data, ensuring that complex types are properly handled when converting between TS objects and JSON"]) :=
  nb_of_T (comments_nb 0 _ (by decide +kernel))

/-- the (reviver, replacer) clauses `end_file` writes -/
def clauses (st : CustomMap) : List (Str × Str) :=
  st.filterMap fun (t, _) =>
    if t == s%"Uint8Array" then some (reviverUint8, replacerUint8)
    else if t == s%"Date" then some (reviverDate ((cmGet st s%"Date").getD []), replacerDate)
    else none

def footerDocs : Str :=
  comments 0 [s%"Custom JSON reviver and replacer functions for dynamic data transformation",
    s%"ReviverFunc is used during JSON parsing to detect and transform specific data structures",
    s%"ReplacerFunc is used during JSON serialization to modify certain values before stringifying.",
    s%"These functions allow for flexible encoding and decoding of data, ensuring that complex types are properly handled when converting between TS objects and JSON"]

theorem endFile_eq (st : CustomMap) : endFile st =
    if st.isEmpty then [] else
      footerDocs ++
      s%"export const ReviverFunc = (key: string, value: unknown): unknown => {\n    " ++
      Str.intercalate s%"\n    " ((clauses st).map (·.1)) ++
      s%"\n    return value;\n};\n\nexport const ReplacerFunc = (key: string, value: unknown): unknown => {\n    " ++
      Str.intercalate s%"\n    " ((clauses st).map (·.2)) ++ s%"\n    return value;\n};\n" := rfl

theorem clauses_nb (st : CustomMap) (h : StOk st) : ∀ p ∈ clauses st, NB F p.1 ∧ NB F p.2 := by
  intro p hp
  simp only [clauses, List.mem_filterMap] at hp
  obtain ⟨x, _, hx⟩ := hp
  split at hx
  · cases hx; exact ⟨reviverUint8_nb, replacerUint8_nb⟩
  · split at hx
    · cases hx; exact ⟨reviverDate_nb _ (cmGet_ok h _), replacerDate_nb⟩
    · cases hx

theorem endFile_nb (st : CustomMap) (h : StOk st) : NB F (endFile st) := by
  rw [endFile_eq]
  split
  · exact NB.nil
  · have hc := clauses_nb st h
    have hsep : NB F s%"\n    " := by nb_lit
    have h1 : ∀ a ∈ (clauses st).map (·.1), NB F a := by
      intro a ha
      simp only [List.mem_map] at ha
      obtain ⟨p, hp, rfl⟩ := ha
      exact (hc p hp).1
    have h2 : ∀ a ∈ (clauses st).map (·.2), NB F a := by
      intro a ha
      simp only [List.mem_map] at ha
      obtain ⟨p, hp, rfl⟩ := ha
      exact (hc p hp).2
    intro stk
    have r0 := footerDocs_nb stk
    have r1 : Run F s%"export const ReviverFunc = (key: string, value: unknown): unknown => {\n    "
        ⟨.code, stk⟩ ⟨.code, '{' :: stk⟩ := rfl
    have r2 := NB.intercalate (cfg := F) s%"\n    " hsep _ h1 ('{' :: stk)
    have r3 : Run F s%"\n    return value;\n};\n\nexport const ReplacerFunc = (key: string, value: unknown): unknown => {\n    "
        ⟨.code, '{' :: stk⟩ ⟨.code, '{' :: stk⟩ := rfl
    have r4 := NB.intercalate (cfg := F) s%"\n    " hsep _ h2 ('{' :: stk)
    have r5 : Run F s%"\n    return value;\n};\n" ⟨.code, '{' :: stk⟩ ⟨.code, stk⟩ := rfl
    exact ((((r0.append r1).append r2).append r3).append r4).append r5

/-! ## the whole file -/

theorem writeItem_nb (U : UnicodeOps) (hU : U.AsciiCorrect) {cfg : Cfg} (H : CfgOk cfg) (it : RustItem) (hs : ItemOk it)
    (st : CustomMap) (text : Str) (st' : CustomMap) (h : writeItem U cfg it st = .ok (text, st')) : NB T text := by
  cases it with
  | struct s => exact writeStruct_nb H s st text st' hs h
  | «enum» en => exact writeEnum_nb H en st text st' hs h
  | alias a => exact writeAlias_nb H a st text st' hs h
  | const c =>
    exact writeConst_nb U H c st text st' hs.ty (IdentStr.key (upperStr_ident U hU (toSnake_ident U hs.name))) h

/-- **one output file**: closed at file level, and the printer state keeps its invariant -/
theorem generate_nb (U : UnicodeOps) (hU : U.AsciiCorrect) {cfg : Cfg} (H : CfgOk cfg) (d : ParsedData)
    (imports : Option Pipeline.ScopedCrateTypes) (hf : FileOk cfg imports)
    (hitems : ∀ it ∈ TsV.C12L.itemsOf d, ItemOk it) (st0 : CustomMap) (h0 : StOk st0) (text : Str) (st : CustomMap)
    (h : generate U cfg d imports st0 = .ok (text, st)) : NB F text ∧ StOk st := by
  obtain ⟨items, blocks, ho, hth, rfl⟩ := TsV.C03E.TS.generate_blocks U cfg d imports st0 text st h
  obtain ⟨hb, hst⟩ := Threaded.inv (P := StOk) (Q := NB T) hth h0 (fun it hit s b s' hs hw =>
    ⟨writeItem_nb U hU H it (hitems it (mem_of_generateOrder ho hit)) s b s' hw,
     writeItem_pres U cfg it (hitems it (mem_of_generateOrder ho hit)) s b s' hw hs⟩)
  exact ⟨((header_nb cfg imports hf).append (NB.flatten _ fun b hb' => nb_of_T (hb b hb'))).append (endFile_nb st hst), hst⟩

/-- what a run needs of its jobs -/
def JobsOk (cfg : Cfg) (jobs : List (Str × ParsedData × Option Pipeline.ScopedCrateTypes)) : Prop :=
  ∀ j ∈ jobs, FileOk cfg j.2.2 ∧ ∀ it ∈ TsV.C12L.itemsOf j.2.1, ItemOk it

theorem generateFrom_nb (U : UnicodeOps) (hU : U.AsciiCorrect) {cfg : Cfg} (H : CfgOk cfg) :
    ∀ (jobs : List (Str × ParsedData × Option Pipeline.ScopedCrateTypes)) (st0 : CustomMap), StOk st0 → JobsOk cfg jobs →
      ∀ outs, generateFrom U cfg jobs st0 = .ok outs → ∀ o ∈ outs, NB F o.2
  | [], _, _, _, outs, h => by simp only [generateFrom] at h; cases h; simp
  | (crate, d, imps) :: rest, st0, h0, hj, outs, h => by
    simp only [generateFrom] at h
    obtain ⟨text, st, hg, h⟩ := bind_pair_ok' h
    obtain ⟨outs', ho, h⟩ := obind_ok h
    cases h
    obtain ⟨hf, hit⟩ := hj (crate, d, imps) (by simp)
    obtain ⟨hnb, hst⟩ := generate_nb U hU H d imps hf hit st0 h0 text st hg
    intro o hoo
    rcases List.mem_cons.1 hoo with rfl | hoo
    · exact hnb
    · exact generateFrom_nb U hU H rest st hst (fun j hjm => hj j (by simp [hjm])) outs' ho o hoo

end TsV.C10Files.TS
