import TsV.Model.Lang.Common
import TsV.Lemmas.Rename
/-!
# C10 — the lexical layer: a character automaton for the C-family targets and its algebra

`scan` runs a small lexer over a text, character by character: code, the state after a `/`, line
comment, block comment (and the state after a `*` inside it), string literal delimited by `"` or
`'` (and the state after a back-slash inside it), Go raw string.  In code state brackets are pushed
and popped on a stack; a closer that does not match the innermost opener, a line break inside a
string literal, or a closer on an empty stack stop the run (`none`).

`wellBracketed cfg s`: the run over `s` from code state with the empty stack ends in code state
with the empty stack — every comment, string literal and bracket opened in `s` is closed in `s`, in
the right order.  `cfg.angles` makes `<`/`>` brackets (TypeScript, Kotlin, Swift declarations);
`cfg.rawTick` makes the back-tick a raw-string delimiter (Go struct tags).

Block comments are not nested here (exact for TypeScript and Go; Kotlin, Swift and Scala nest them,
but those back ends write block comments only in the file header, and line comments elsewhere).

This file is the trusted *specification* of "all delimiters, string literals and comments are
closed" plus the lemmas that make it compositional (`NB`: neutral pieces; `Run`: explicit runs).
-/
namespace TsV.C10Lex
open TsV TsV.Lang

inductive Mode where
  | code | slash | line | block | blockStar
  | str (q : Char) | strEsc (q : Char) | raw
deriving DecidableEq, Repr

structure LexCfg where
  angles : Bool
  rawTick : Bool
deriving DecidableEq, Repr

structure St where
  mode : Mode
  stack : List Char
deriving DecidableEq, Repr

def isQuote (c : Char) : Bool := c == '"' || c == '\''

def isOpen (cfg : LexCfg) (c : Char) : Bool :=
  c == '(' || c == '[' || c == '{' || (cfg.angles && c == '<')

/-- for a closing bracket: the opener it has to match -/
def opener? (cfg : LexCfg) (c : Char) : Option Char :=
  if c = ')' then some '(' else if c = ']' then some '[' else if c = '}' then some '{'
  else if cfg.angles && c == '>' then some '<' else none

def codeStep (cfg : LexCfg) (stk : List Char) (c : Char) : Option St :=
  if c = '/' then some ⟨.slash, stk⟩
  else if isQuote c then some ⟨.str c, stk⟩
  else if cfg.rawTick && c == '`' then some ⟨.raw, stk⟩
  else if isOpen cfg c then some ⟨.code, c :: stk⟩
  else
    match opener? cfg c with
    | some o =>
      (match stk with
       | top :: rest => if top = o then some ⟨.code, rest⟩ else none
       | [] => none)
    | none => some ⟨.code, stk⟩

def step (cfg : LexCfg) (st : St) (c : Char) : Option St :=
  match st.mode with
  | .code => codeStep cfg st.stack c
  | .slash =>
    if c = '/' then some ⟨.line, st.stack⟩ else if c = '*' then some ⟨.block, st.stack⟩
    else codeStep cfg st.stack c
  | .line => if c = '\n' then some ⟨.code, st.stack⟩ else some ⟨.line, st.stack⟩
  | .block => if c = '*' then some ⟨.blockStar, st.stack⟩ else some ⟨.block, st.stack⟩
  | .blockStar =>
    if c = '/' then some ⟨.code, st.stack⟩ else if c = '*' then some ⟨.blockStar, st.stack⟩
    else some ⟨.block, st.stack⟩
  | .str q =>
    if c = '\\' then some ⟨.strEsc q, st.stack⟩ else if c = q then some ⟨.code, st.stack⟩
    else if c = '\n' then none else some ⟨.str q, st.stack⟩
  | .strEsc q => if c = '\n' then none else some ⟨.str q, st.stack⟩
  | .raw => if c = '`' then some ⟨.code, st.stack⟩ else some ⟨.raw, st.stack⟩

def scan (cfg : LexCfg) : St → Str → Option St
  | st, [] => some st
  | st, c :: cs =>
    match step cfg st c with
    | some st' => scan cfg st' cs
    | none => none

def init : St := ⟨.code, []⟩

/-- **the specification**: everything opened in `s` is closed in `s` -/
def wellBracketed (cfg : LexCfg) (s : Str) : Bool := scan cfg init s == some init

/-! ## runs -/

/-- the run over `x` from `a` ends in `b` -/
def Run (cfg : LexCfg) (x : Str) (a b : St) : Prop := scan cfg a x = some b

theorem scan_append (cfg : LexCfg) : ∀ (x y : Str) (a : St),
    scan cfg a (x ++ y) = (scan cfg a x).bind fun b => scan cfg b y
  | [], _, _ => rfl
  | c :: cs, y, a => by
    simp only [List.cons_append, scan]
    cases step cfg a c with
    | none => rfl
    | some a' => exact scan_append cfg cs y a'

theorem Run.nil {cfg a} : Run cfg [] a a := rfl

theorem Run.append {cfg x y a b c} (h1 : Run cfg x a b) (h2 : Run cfg y b c) : Run cfg (x ++ y) a c := by
  unfold Run at *
  rw [scan_append, h1]; exact h2

/-- a *neutral, balanced* piece: from code state it returns to code state with the same stack,
whatever the stack -/
def NB (cfg : LexCfg) (x : Str) : Prop := ∀ stk, Run cfg x ⟨.code, stk⟩ ⟨.code, stk⟩

theorem NB.wb {cfg x} (h : NB cfg x) : wellBracketed cfg x = true := by
  have := h []
  unfold Run at this
  simp [wellBracketed, init, this]

theorem NB.nil {cfg} : NB cfg [] := fun _ => rfl

theorem NB.append {cfg x y} (hx : NB cfg x) (hy : NB cfg y) : NB cfg (x ++ y) :=
  fun stk => (hx stk).append (hy stk)

theorem NB.flatMap {cfg} {α} (f : α → Str) : ∀ (l : List α), (∀ a ∈ l, NB cfg (f a)) → NB cfg (l.flatMap f)
  | [], _ => NB.nil
  | a :: as, h => by
    rw [List.flatMap_cons]
    exact (h a (by simp)).append (NB.flatMap f as fun b hb => h b (by simp [hb]))

theorem NB.flatten {cfg} (l : List Str) (h : ∀ a ∈ l, NB cfg a) : NB cfg l.flatten := by
  have := NB.flatMap (cfg := cfg) id l (by simpa using h)
  simpa using this

theorem NB.intercalate {cfg} (sep : Str) (hs : NB cfg sep) :
    ∀ (l : List Str), (∀ a ∈ l, NB cfg a) → NB cfg (Str.intercalate sep l)
  | [], _ => NB.nil
  | [x], h => h x (by simp)
  | x :: y :: r, h => by
    show NB cfg (x ++ sep ++ Str.intercalate sep (y :: r))
    exact ((h x (by simp)).append hs).append (NB.intercalate sep hs (y :: r) fun a ha => h a (by simp [ha]))

theorem NB.ite {cfg} (c : Prop) [Decidable c] {a b : Str} (ha : NB cfg a) (hb : NB cfg b) :
    NB cfg (if c then a else b) := by split <;> assumption

theorem NB.replicate {cfg} (n : Nat) (c : Char) (h : NB cfg [c]) : NB cfg (List.replicate n c) := by
  induction n with
  | zero => exact NB.nil
  | succ k ih => rw [List.replicate_succ]; exact NB.append (x := [c]) h ih

/-- closes `NB cfg lit` for a closed literal and a closed lexer configuration -/
macro "nb_lit" : tactic => `(tactic| exact fun _ => rfl)
/-- splits `NB cfg (a ++ b ++ …)` into one goal per piece, left to right -/
macro "nb_pieces" : tactic => `(tactic| repeat' (with_reducible apply NB.append))

/-! ## plain characters -/

/-- characters that mean nothing to the lexer in code state -/
def plainChar (cfg : LexCfg) (c : Char) : Bool :=
  c != '/' && !isQuote c && !(cfg.rawTick && c == '`') && !isOpen cfg c && (opener? cfg c).isNone

def Plain (cfg : LexCfg) (s : Str) : Prop := ∀ c ∈ s, plainChar cfg c = true

theorem codeStep_plain {cfg stk c} (h : plainChar cfg c = true) : codeStep cfg stk c = some ⟨.code, stk⟩ := by
  simp only [plainChar, Bool.and_eq_true, bne_iff_ne, ne_eq, Bool.not_eq_true', Option.isNone_iff_eq_none] at h
  obtain ⟨⟨⟨⟨h1, h2⟩, h3⟩, h4⟩, h5⟩ := h
  simp [codeStep, h1, h2, h3, h4, h5]

theorem Plain.nb {cfg} : ∀ {s : Str}, Plain cfg s → NB cfg s
  | [], _ => NB.nil
  | c :: cs, h => by
    intro stk
    have hc := h c (by simp)
    have ih := Plain.nb (s := cs) (fun d hd => h d (by simp [hd])) stk
    unfold Run at *
    simp only [scan, step, codeStep_plain hc]
    exact ih

theorem Plain.append {cfg a b} (ha : Plain cfg a) (hb : Plain cfg b) : Plain cfg (a ++ b) := by
  intro c hc
  rcases List.mem_append.mp hc with h | h
  · exact ha c h
  · exact hb c h

/-- identifier characters `[A-Za-z0-9_]` -/
def identChar (c : Char) : Bool := Str.isAsciiLower c || Str.isAsciiUpper c || Str.isAsciiDigit c || c == '_'

/-- key characters `[A-Za-z0-9_-]` -/
def keyChar (c : Char) : Bool := identChar c || c == '-'

def IdentStr (s : Str) : Prop := ∀ c ∈ s, identChar c = true
def KeyStr (s : Str) : Prop := ∀ c ∈ s, keyChar c = true

instance (s : Str) : Decidable (IdentStr s) := by unfold IdentStr; infer_instance
instance (s : Str) : Decidable (KeyStr s) := by unfold KeyStr; infer_instance
instance (cfg : LexCfg) (s : Str) : Decidable (Plain cfg s) := by unfold Plain; infer_instance

theorem lower_plain (cfg : LexCfg) (c : Char) (h : Str.isAsciiLower c = true) : plainChar cfg c = true := by
  cases cfg with | mk a r =>
  unfold Str.isAsciiLower at h
  split at h <;> first | (cases a <;> cases r <;> decide) | simp at h
theorem upper_plain (cfg : LexCfg) (c : Char) (h : Str.isAsciiUpper c = true) : plainChar cfg c = true := by
  cases cfg with | mk a r =>
  unfold Str.isAsciiUpper at h
  split at h <;> first | (cases a <;> cases r <;> decide) | simp at h
theorem digit_plain (cfg : LexCfg) (c : Char) (h : Str.isAsciiDigit c = true) : plainChar cfg c = true := by
  cases cfg with | mk a r =>
  unfold Str.isAsciiDigit at h
  split at h <;> first | (cases a <;> cases r <;> decide) | simp at h

theorem keyChar_plain (cfg : LexCfg) (c : Char) (h : keyChar c = true) : plainChar cfg c = true := by
  simp only [keyChar, identChar, Bool.or_eq_true, beq_iff_eq] at h
  rcases h with (((h | h) | h) | h) | h
  · exact lower_plain cfg c h
  · exact upper_plain cfg c h
  · exact digit_plain cfg c h
  · subst h; cases cfg with | mk a r => cases a <;> cases r <;> decide
  · subst h; cases cfg with | mk a r => cases a <;> cases r <;> decide

theorem identChar_plain (cfg : LexCfg) (c : Char) (h : identChar c = true) : plainChar cfg c = true :=
  keyChar_plain cfg c (by simp [keyChar, h])

theorem IdentStr.key {s} (h : IdentStr s) : KeyStr s := fun c hc => by simp [keyChar, h c hc]
theorem KeyStr.plain {cfg s} (h : KeyStr s) : Plain cfg s := fun c hc => keyChar_plain cfg c (h c hc)
theorem IdentStr.plain {cfg s} (h : IdentStr s) : Plain cfg s := h.key.plain
theorem KeyStr.nb {cfg s} (h : KeyStr s) : NB cfg s := h.plain.nb
theorem IdentStr.nb {cfg s} (h : IdentStr s) : NB cfg s := h.plain.nb

/-! ## comments -/

theorem line_body {cfg} : ∀ (s : Str) (stk), '\n' ∉ s → Run cfg s ⟨.line, stk⟩ ⟨.line, stk⟩
  | [], _, _ => rfl
  | c :: cs, stk, h => by
    have hc : c ≠ '\n' := fun e => h (by simp [e])
    have ih := line_body (cfg := cfg) cs stk (fun e => h (by simp [e]))
    unfold Run at *
    simp only [scan, step, hc, if_false]
    exact ih

/-- `pre // text \n` where `pre` is neutral and the text has no line break -/
theorem NB.lineComment {cfg} (text : Str) (h : '\n' ∉ text) : NB cfg (s%"//" ++ text ++ s%"\n") := by
  intro stk
  have h1 : Run cfg s%"//" ⟨.code, stk⟩ ⟨.line, stk⟩ := rfl
  have h3 : Run cfg s%"\n" ⟨.line, stk⟩ ⟨.code, stk⟩ := rfl
  exact (h1.append (line_body text stk h)).append h3

/-- inside a block comment: a text without `*/` leaves the lexer inside the comment -/
theorem block_body {cfg} : ∀ (s : Str) (stk), Str.containsSub s s%"*/" = false →
    (Run cfg s ⟨.block, stk⟩ ⟨.block, stk⟩ ∨ Run cfg s ⟨.block, stk⟩ ⟨.blockStar, stk⟩) ∧
    ((s.head? ≠ some '/') →
      (Run cfg s ⟨.blockStar, stk⟩ ⟨.block, stk⟩ ∨ Run cfg s ⟨.blockStar, stk⟩ ⟨.blockStar, stk⟩))
  | [], stk, _ => ⟨.inl rfl, fun _ => .inr rfl⟩
  | c :: cs, stk, h => by
    have hsub : Str.containsSub cs s%"*/" = false := by
      simp only [Str.containsSub, Bool.or_eq_false_iff] at h; exact h.2
    have hst : Str.startsWith (c :: cs) s%"*/" = false := by
      simp only [Str.containsSub, Bool.or_eq_false_iff] at h; exact h.1
    obtain ⟨ih1, ih2⟩ := block_body (cfg := cfg) cs stk hsub
    by_cases hc : c = '*'
    · subst hc
      have hhead : cs.head? ≠ some '/' := by
        intro e
        cases cs with
        | nil => simp at e
        | cons d ds =>
          simp at e; subst e
          simp [Str.startsWith] at hst
      have := ih2 hhead
      constructor
      · unfold Run at *; simpa [scan, step] using this
      · intro _; unfold Run at *; simpa [scan, step] using this
    · constructor
      · unfold Run at *; simpa [scan, step, hc] using ih1
      · intro hne
        have hc2 : c ≠ '/' := by intro e; subst e; simp at hne
        unfold Run at *; simpa [scan, step, hc, hc2] using ih1

/-- `/*` text ` */` (a blank before the closer, as every printer writes it) -/
theorem NB.blockComment {cfg} (text : Str) (h : Str.containsSub text s%"*/" = false) :
    NB cfg (s%"/*" ++ text ++ s%" */") := by
  intro stk
  have h1 : Run cfg s%"/*" ⟨.code, stk⟩ ⟨.block, stk⟩ := rfl
  have e1 : Run cfg s%" */" ⟨.block, stk⟩ ⟨.code, stk⟩ := rfl
  have e2 : Run cfg s%" */" ⟨.blockStar, stk⟩ ⟨.code, stk⟩ := rfl
  rcases (block_body (cfg := cfg) text stk h).1 with hb | hb
  · exact (h1.append hb).append e1
  · exact (h1.append hb).append e2

/-! ## string literals -/

/-- characters that keep a `"`-delimited literal open and unescaped -/
def strChar (c : Char) : Bool := c != '"' && c != '\\' && c != '\n'

theorem str_body {cfg} : ∀ (s : Str) (stk), (∀ c ∈ s, strChar c = true) → Run cfg s ⟨.str '"', stk⟩ ⟨.str '"', stk⟩
  | [], _, _ => rfl
  | c :: cs, stk, h => by
    have hc := h c (by simp)
    simp only [strChar, Bool.and_eq_true, bne_iff_ne, ne_eq] at hc
    have ih := str_body (cfg := cfg) cs stk (fun d hd => h d (by simp [hd]))
    unfold Run at *
    simp only [scan, step, hc.1.1, hc.1.2, hc.2, if_false]
    exact ih

/-- `"text"` with a text free of quotes, back-slashes and line breaks -/
theorem NB.quoted {cfg} (text : Str) (h : ∀ c ∈ text, strChar c = true) : NB cfg (s%"\"" ++ text ++ s%"\"") := by
  intro stk
  have h1 : Run cfg s%"\"" ⟨.code, stk⟩ ⟨.str '"', stk⟩ := rfl
  have h3 : Run cfg s%"\"" ⟨.str '"', stk⟩ ⟨.code, stk⟩ := rfl
  exact (h1.append (str_body text stk h)).append h3

theorem keyChar_strChar (c : Char) (h : keyChar c = true) : strChar c = true := by
  have := keyChar_plain ⟨false, false⟩ c h
  simp only [plainChar, isQuote, Bool.and_eq_true, bne_iff_ne, ne_eq, Bool.not_eq_true', Bool.or_eq_false_iff,
    beq_eq_false_iff_ne] at this
  simp only [strChar, Bool.and_eq_true, bne_iff_ne, ne_eq]
  refine ⟨⟨this.1.1.1.2.1, ?_⟩, ?_⟩
  · intro e; subst e; revert h; decide
  · intro e; subst e; revert h; decide

theorem KeyStr.quoted {cfg s} (h : KeyStr s) : NB cfg (s%"\"" ++ s ++ s%"\"") :=
  NB.quoted s fun c hc => keyChar_strChar c (h c hc)

/-- every character of the hexadecimal rendering of a control character is harmless in a literal -/
theorem hexOf_strChar : ∀ n : Fin 256, (hexOf n.val).all strChar = true := by decide +kernel

/-- one character as `{:?}` prints it keeps the literal open -/
theorem debugChar_run {cfg} (c : Char) (stk) :
    Run cfg (if c = '"' then ['\\', '"'] else if c = '\\' then ['\\', '\\']
      else if c = '\n' then ['\\', 'n'] else if c = '\r' then ['\\', 'r']
      else if c = '\t' then ['\\', 't'] else if c.toNat = 0 then ['\\', '0']
      else if c.toNat < 32 || c.toNat = 127 then s%"\\u{" ++ hexOf c.toNat ++ s%"}"
      else [c]) ⟨.str '"', stk⟩ ⟨.str '"', stk⟩ := by
  split
  · rfl
  split
  · rfl
  split
  · rfl
  split
  · rfl
  split
  · rfl
  split
  · rfl
  split
  · rename_i h
    have hlt : c.toNat < 256 := by
      simp only [Bool.or_eq_true, decide_eq_true_eq] at h
      omega
    have hx := hexOf_strChar ⟨c.toNat, hlt⟩
    have h1 : Run cfg s%"\\u{" ⟨.str '"', stk⟩ ⟨.str '"', stk⟩ := rfl
    have h3 : Run cfg s%"}" ⟨.str '"', stk⟩ ⟨.str '"', stk⟩ := rfl
    exact (h1.append (str_body _ stk (by simpa using hx))).append h3
  · rename_i h1 h2 h3 _ _ _ _
    exact str_body [c] stk (by
      intro d hd
      simp only [List.mem_singleton] at hd; subst hd
      simp [strChar, h1, h2, h3])

/-- **`format!("{:?}", s)` is a closed string literal, for every `s`.** -/
theorem NB.debugStr {cfg} (s : Str) : NB cfg (debugStr s) := by
  intro stk
  have h1 : Run cfg s%"\"" ⟨.code, stk⟩ ⟨.str '"', stk⟩ := rfl
  have h3 : Run cfg s%"\"" ⟨.str '"', stk⟩ ⟨.code, stk⟩ := rfl
  have body : ∀ (t : Str), Run cfg (t.flatMap fun c =>
      if c = '"' then ['\\', '"'] else if c = '\\' then ['\\', '\\']
      else if c = '\n' then ['\\', 'n'] else if c = '\r' then ['\\', 'r']
      else if c = '\t' then ['\\', 't'] else if c.toNat = 0 then ['\\', '0']
      else if c.toNat < 32 || c.toNat = 127 then s%"\\u{" ++ hexOf c.toNat ++ s%"}"
      else [c]) ⟨.str '"', stk⟩ ⟨.str '"', stk⟩ := by
    intro t
    induction t with
    | nil => rfl
    | cons c cs ih => rw [List.flatMap_cons]; exact (debugChar_run c stk).append ih
  unfold Lang.debugStr
  exact (h1.append (body s)).append h3

/-! ## brackets -/

theorem NB.paren {cfg x} (h : NB cfg x) : NB cfg (s%"(" ++ x ++ s%")") := by
  intro stk
  have h1 : Run cfg s%"(" ⟨.code, stk⟩ ⟨.code, '(' :: stk⟩ := by
    cases cfg with | mk a r => cases a <;> cases r <;> rfl
  have h3 : Run cfg s%")" ⟨.code, '(' :: stk⟩ ⟨.code, stk⟩ := by
    cases cfg with | mk a r => cases a <;> cases r <;> rfl
  exact (h1.append (h _)).append h3

theorem NB.square {cfg x} (h : NB cfg x) : NB cfg (s%"[" ++ x ++ s%"]") := by
  intro stk
  have h1 : Run cfg s%"[" ⟨.code, stk⟩ ⟨.code, '[' :: stk⟩ := by
    cases cfg with | mk a r => cases a <;> cases r <;> rfl
  have h3 : Run cfg s%"]" ⟨.code, '[' :: stk⟩ ⟨.code, stk⟩ := by
    cases cfg with | mk a r => cases a <;> cases r <;> rfl
  exact (h1.append (h _)).append h3

theorem NB.curly {cfg x} (h : NB cfg x) : NB cfg (s%"{" ++ x ++ s%"}") := by
  intro stk
  have h1 : Run cfg s%"{" ⟨.code, stk⟩ ⟨.code, '{' :: stk⟩ := by
    cases cfg with | mk a r => cases a <;> cases r <;> rfl
  have h3 : Run cfg s%"}" ⟨.code, '{' :: stk⟩ ⟨.code, stk⟩ := by
    cases cfg with | mk a r => cases a <;> cases r <;> rfl
  exact (h1.append (h _)).append h3

/-- `<…>`: a bracket pair when `cfg.angles`, two plain characters otherwise -/
theorem NB.angle {cfg x} (h : NB cfg x) : NB cfg (s%"<" ++ x ++ s%">") := by
  intro stk
  cases cfg with | mk a r =>
  cases a
  · have h1 : Run ⟨false, r⟩ s%"<" ⟨.code, stk⟩ ⟨.code, stk⟩ := by cases r <;> rfl
    have h3 : Run ⟨false, r⟩ s%">" ⟨.code, stk⟩ ⟨.code, stk⟩ := by cases r <;> rfl
    exact (h1.append (h _)).append h3
  · have h1 : Run ⟨true, r⟩ s%"<" ⟨.code, stk⟩ ⟨.code, '<' :: stk⟩ := by cases r <;> rfl
    have h3 : Run ⟨true, r⟩ s%">" ⟨.code, '<' :: stk⟩ ⟨.code, stk⟩ := by cases r <;> rfl
    exact (h1.append (h _)).append h3

/-- a general wrapper: an opening literal that nets one push, a neutral middle, a closing literal
that nets the matching pop -/
theorem NB.wrap {cfg} {o m c : Str} {b : Char}
    (ho : ∀ stk, Run cfg o ⟨.code, stk⟩ ⟨.code, b :: stk⟩) (hm : NB cfg m)
    (hc : ∀ stk, Run cfg c ⟨.code, b :: stk⟩ ⟨.code, stk⟩) : NB cfg (o ++ m ++ c) :=
  fun stk => ((ho stk).append (hm _)).append (hc stk)

/-! ## the shared helpers of `Lang/Common.lean` -/

theorem NB.tabs {cfg} (n : Nat) : NB cfg (tabs n) :=
  NB.replicate n '\t' (by cases cfg with | mk a r => cases a <;> cases r <;> exact fun _ => rfl)

theorem NB.nl {cfg} : NB cfg Lang.nl := by
  cases cfg with | mk a r => cases a <;> cases r <;> exact fun _ => rfl

theorem nb_commaSep {cfg} : NB cfg s%", " := by
  cases cfg with | mk a r => cases a <;> cases r <;> exact fun _ => rfl

/-- `<A, B>` over neutral pieces -/
theorem NB.angleList {cfg} (ps : List Str) (h : ∀ p ∈ ps, NB cfg p) : NB cfg (Lang.angle ps) :=
  NB.angle (NB.intercalate _ nb_commaSep ps h)

theorem NB.genericSuffix {cfg} (gs : List Str) (h : ∀ g ∈ gs, NB cfg g) : NB cfg (Lang.genericSuffix gs) := by
  unfold Lang.genericSuffix
  split
  · exact NB.nil
  · exact NB.angleList gs h

/-! ## type trees and type mappings -/

mutual
  /-- the user-defined names a type tree mentions -/
  def typeNames : RustType → List Str
    | .simple id => [id]
    | .generic id ps => id :: typeNamesList ps
    | .vec t | .array t _ | .slice t | .option t => typeNames t
    | .hashMap k v => typeNames k ++ typeNames v
    | .prim _ => []
  def typeNamesList : List RustType → List Str
    | [] => []
    | t :: ts => typeNames t ++ typeNamesList ts
end

/-- every name in the tree is over `[A-Za-z0-9_-]` (`-` can arrive through an item rename) -/
def TypeOk (t : RustType) : Prop := ∀ n ∈ typeNames t, KeyStr n
def TypesOk (ts : List RustType) : Prop := ∀ n ∈ typeNamesList ts, KeyStr n

instance (t : RustType) : Decidable (TypeOk t) := by unfold TypeOk; infer_instance
instance (ts : List RustType) : Decidable (TypesOk ts) := by unfold TypesOk; infer_instance

theorem mapGet_mem {m : List (Str × Str)} {k v : Str} (h : mapGet m k = some v) : ∃ p ∈ m, p.2 = v := by
  unfold mapGet at h
  cases hf : m.find? (·.1 == k) with
  | none => simp [hf] at h
  | some p =>
    simp [hf] at h
    exact ⟨p, List.mem_of_find?_eq_some hf, h⟩

/-! ## identifier strings under the renaming helpers -/

theorem replaceDash_key {s : Str} (h : KeyStr s) : KeyStr (Str.replaceChar s '-' ['_']) := by
  intro c hc
  simp only [Str.replaceChar, List.mem_flatMap] at hc
  obtain ⟨x, hx, hcx⟩ := hc
  by_cases hd : x = '-'
  · simp only [hd, if_true, List.mem_singleton] at hcx; subst hcx; decide
  · simp only [hd, if_false, List.mem_singleton] at hcx; rw [hcx]; exact h x hx

theorem KeyStr.append {a b : Str} (ha : KeyStr a) (hb : KeyStr b) : KeyStr (a ++ b) := by
  intro c hc
  rcases List.mem_append.mp hc with h | h
  · exact ha c h
  · exact hb c h

theorem IdentStr.append {a b : Str} (ha : IdentStr a) (hb : IdentStr b) : IdentStr (a ++ b) := by
  intro c hc
  rcases List.mem_append.mp hc with h | h
  · exact ha c h
  · exact hb c h

theorem identChar_upper (c : Char) (h : identChar c = true) : identChar (Str.asciiUpper c) = true := by
  unfold Str.asciiUpper; split <;> first | decide | exact h
theorem identChar_lower (c : Char) (h : identChar c = true) : identChar (Str.asciiLower c) = true := by
  unfold Str.asciiLower; split <;> first | decide | exact h

theorem pascalGo_ident (b : Bool) : ∀ (cap : Bool) (s : Str), IdentStr s → IdentStr (Rename.pascalGo b cap s)
  | _, [], _ => by intro c hc; simp [Rename.pascalGo] at hc
  | cap, ch :: rest, h => by
    have hch := h ch (by simp)
    have hrest : IdentStr rest := fun d hd => h d (by simp [hd])
    simp only [Rename.pascalGo]
    split
    · exact pascalGo_ident b true rest hrest
    · split
      · intro c hc
        simp only [List.mem_cons] at hc
        rcases hc with rfl | hc
        · exact identChar_upper ch hch
        · exact pascalGo_ident b false rest hrest c hc
      · intro c hc
        simp only [List.mem_cons] at hc
        rcases hc with rfl | hc
        · split
          · exact identChar_lower ch hch
          · exact hch
        · exact pascalGo_ident b false rest hrest c hc

theorem toPascal_ident {U : UnicodeOps} {s : Str} (h : IdentStr s) : IdentStr (Rename.toPascal U s) := pascalGo_ident _ _ s h

theorem identChar_ne_nl {c : Char} (h : identChar c = true) : c ≠ '\n' := by
  intro e; subst e; revert h; decide
theorem keyChar_ne_nl {c : Char} (h : keyChar c = true) : c ≠ '\n' := by
  intro e; subst e; revert h; decide
theorem KeyStr.no_nl {s : Str} (h : KeyStr s) : '\n' ∉ s := fun hm => keyChar_ne_nl (h _ hm) rfl

/-! ## the Unicode parameter on identifiers -/

theorem identChar_ascii (c : Char) (h : identChar c = true) : c.toNat < 128 := by
  simp only [identChar, Bool.or_eq_true, beq_iff_eq] at h
  rcases h with ((h | h) | h) | h
  · exact RenameLemmas.lower_ascii c h
  · exact RenameLemmas.upper_ascii c h
  · exact RenameLemmas.digit_ascii c h
  · subst h; decide

theorem upperStr_ident (U : UnicodeOps) (hU : U.AsciiCorrect) {s : Str} (h : IdentStr s) : IdentStr (U.upperStr s) := by
  rw [RenameLemmas.upperStr_ascii U hU s fun c hc => identChar_ascii c (h c hc)]
  intro c hc
  simp only [Str.toAsciiUpper, List.mem_map] at hc
  obtain ⟨d, hd, rfl⟩ := hc
  exact identChar_upper d (h d hd)

theorem lowerStr_ident (U : UnicodeOps) (hU : U.AsciiCorrect) {s : Str} (h : IdentStr s) : IdentStr (U.lowerStr s) := by
  rw [RenameLemmas.lowerStr_ascii U hU s fun c hc => identChar_ascii c (h c hc)]
  intro c hc
  simp only [Str.toAsciiLower, List.mem_map] at hc
  obtain ⟨d, hd, rfl⟩ := hc
  exact identChar_lower d (h d hd)

theorem snakeGo_ident (U : UnicodeOps) (b : Bool) : ∀ (first : Bool) (s : Str), IdentStr s → IdentStr (Rename.snakeGo U b first s)
  | _, [], _ => by intro c hc; simp [Rename.snakeGo] at hc
  | first, ch :: rest, h => by
    have hch := h ch (by simp)
    have ih := snakeGo_ident U b false rest (fun d hd => h d (by simp [hd]))
    simp only [Rename.snakeGo]
    intro c hc
    simp only [List.mem_append, List.mem_cons] at hc
    rcases hc with hc | rfl | hc
    · split at hc
      · simp only [List.mem_singleton] at hc; subst hc; decide
      · simp at hc
    · exact identChar_lower ch hch
    · exact ih c hc

/-- `to_snake_case` keeps identifiers identifiers, whatever `char::is_uppercase` is -/
theorem toSnake_ident (U : UnicodeOps) {s : Str} (h : IdentStr s) : IdentStr (Rename.toSnake U s) :=
  snakeGo_ident U _ true s h

/-! ## decimal numbers -/

theorem isDigit_plain (cfg : LexCfg) (c : Char) (h : c.isDigit = true) : plainChar cfg c = true := by
  have ne : ∀ x : Char, x.isDigit = false → c ≠ x := fun x hx e => by subst e; simp [hx] at h
  have n1 := ne '/' (by decide)
  have n2 := ne '"' (by decide)
  have n3 := ne '\'' (by decide)
  have n4 := ne '`' (by decide)
  have n5 := ne '(' (by decide)
  have n6 := ne '[' (by decide)
  have n7 := ne '{' (by decide)
  have n8 := ne '<' (by decide)
  have n9 := ne ')' (by decide)
  have n10 := ne ']' (by decide)
  have n11 := ne '}' (by decide)
  have n12 := ne '>' (by decide)
  simp [plainChar, isQuote, isOpen, opener?, n1, n2, n3, n4, n5, n6, n7, n8, n9, n10, n11, n12]

/-- the decimal rendering of a number is a plain string -/
theorem natToStr_plain (cfg : LexCfg) (n : Nat) : Plain cfg (Str.natToStr n) := by
  intro c hc
  have : Str.natToStr n = Nat.toDigits 10 n := by
    simp [Str.natToStr, Nat.repr, toString, ToString.toString]
  rw [this] at hc
  exact isDigit_plain cfg c (Nat.isDigit_of_mem_toDigits (by decide) (by decide) hc)

/-! ## `Outcome` plumbing -/

theorem obind_ok {α β} {x : Outcome α} {f : α → Outcome β} {r : β} (h : x.bind f = .ok r) :
    ∃ a, x = .ok a ∧ f a = .ok r := by
  cases x with
  | ok a => exact ⟨a, rfl, h⟩
  | err e => cases h
  | panic s => cases h

theorem obind_pair_ok {α β γ} {x : Outcome (α × β)} {f : α × β → Outcome γ} {r : γ}
    (h : x.bind f = .ok r) : ∃ a b, x = .ok (a, b) ∧ f (a, b) = .ok r := by
  cases x with
  | ok p => exact ⟨p.1, p.2, rfl, h⟩
  | err e => cases h
  | panic s => cases h

theorem replaceChar_plain {cfg : LexCfg} {s : Str} (c d : Char) (h : Plain cfg s) (hd : plainChar cfg d = true) :
    Plain cfg (Str.replaceChar s c [d]) := by
  intro x hx
  simp only [Str.replaceChar, List.mem_flatMap] at hx
  obtain ⟨y, hy, hxy⟩ := hx
  by_cases e : y = c
  · simp only [e, if_true, List.mem_singleton] at hxy; rw [hxy]; exact hd
  · simp only [e, if_false, List.mem_singleton] at hxy; rw [hxy]; exact h y hy

/-! ## dotted names (packages, versions) -/

def dottedChar (c : Char) : Bool := keyChar c || c == '.'

theorem dottedChar_plain (cfg : LexCfg) (c : Char) (h : dottedChar c = true) : plainChar cfg c = true := by
  simp only [dottedChar, Bool.or_eq_true, beq_iff_eq] at h
  rcases h with h | h
  · exact keyChar_plain cfg c h
  · subst h; cases cfg with | mk a r => cases a <;> cases r <;> decide

def Dotted (s : Str) : Prop := ∀ c ∈ s, dottedChar c = true
instance (s : Str) : Decidable (Dotted s) := by unfold Dotted; infer_instance

theorem Dotted.nb {cfg : LexCfg} {s : Str} (h : Dotted s) : NB cfg s := Plain.nb fun c hc => dottedChar_plain cfg c (h c hc)

theorem dotted_block {cfg : LexCfg} (v : Str) (h : Dotted v) (stk : List Char) : Run cfg v ⟨.block, stk⟩ ⟨.block, stk⟩ := by
  induction v with
  | nil => rfl
  | cons c t ih =>
    have hc : c ≠ '*' := by
      intro e; subst e; have := h '*' (by simp); revert this; decide
    have := ih (fun d hd => h d (by simp [hd]))
    unfold Run at *
    simpa [scan, step, hc] using this

/-! ## identifiers -/

def identStart (c : Char) : Bool := Str.isAsciiLower c || Str.isAsciiUpper c || c == '_'

/-- `[A-Za-z_][A-Za-z0-9_]*` -/
def isIdentifier (s : Str) : Bool :=
  match s with
  | [] => false
  | c :: t => identStart c && t.all identChar

theorem identStart_identChar (c : Char) (h : identStart c = true) : identChar c = true := by
  simp only [identStart, Bool.or_eq_true] at h
  simp only [identChar, Bool.or_eq_true]
  rcases h with (h | h) | h
  · exact .inl (.inl (.inl h))
  · exact .inl (.inl (.inr h))
  · exact .inr h

theorem isIdentifier.identStr {s : Str} (h : isIdentifier s = true) : IdentStr s := by
  cases s with
  | nil => simp [isIdentifier] at h
  | cons c t =>
    simp only [isIdentifier, Bool.and_eq_true, List.all_eq_true] at h
    intro d hd
    simp only [List.mem_cons] at hd
    rcases hd with rfl | hd
    · exact identStart_identChar _ h.1
    · exact h.2 d hd

/-- an identifier stays one when identifier characters are appended -/
theorem isIdentifier_append {a b : Str} (ha : isIdentifier a = true) (hb : IdentStr b) : isIdentifier (a ++ b) = true := by
  cases a with
  | nil => simp [isIdentifier] at ha
  | cons c t =>
    simp only [isIdentifier, Bool.and_eq_true, List.all_eq_true] at ha
    simp only [List.cons_append, isIdentifier, Bool.and_eq_true, List.all_eq_true, List.mem_append]
    exact ⟨ha.1, fun d hd => hd.elim (ha.2 d) (hb d)⟩

/-- a prefix setting: empty, or itself an identifier -/
def IdentPrefix (p : Str) : Prop := p = [] ∨ isIdentifier p = true

theorem isIdentifier_prefixed {p a : Str} (hp : IdentPrefix p) (ha : isIdentifier a = true) : isIdentifier (p ++ a) = true := by
  rcases hp with rfl | hp
  · simpa using ha
  · exact isIdentifier_append hp (isIdentifier.identStr ha)

theorem isIdentifier_dash {s : Str} (h : '-' ∈ s) : isIdentifier s = false := by
  cases hs : isIdentifier s with
  | false => rfl
  | true =>
    have := isIdentifier.identStr hs '-' h
    revert this; decide

/-! ## the scope of the partial theorems, per parsed item

`L` is the target language (for type overrides), `lx` its lexer, `D` what the language's comment
syntax tolerates in doc text (the complement of C15's `Bad` class). -/

section scope
variable (L : Lang) (lx : LexCfg) (D : List Str → Prop)

/-- one field: doc text harmless, the wire key over `[A-Za-z0-9_-]`, the Rust name an identifier, the
type tree over such names, a type override (if any) a balanced string -/
structure FieldScope (f : RustField) : Prop where
  docs : D f.comments
  key : KeyStr f.id.renamed
  original : IdentStr f.id.original
  ty : TypeOk f.ty
  override : ∀ t, typeOverride f L = some t → wellBracketed lx t = true

structure StructScope (s : RustStruct) : Prop where
  docs : D s.comments
  name : KeyStr s.id.renamed
  generics : ∀ g ∈ s.genericTypes, IdentStr g
  fields : ∀ f ∈ s.fields, FieldScope L lx D f

structure AliasScope (a : RustTypeAlias) : Prop where
  docs : D a.comments
  original : KeyStr a.id.original
  renamed : KeyStr a.id.renamed
  generics : ∀ g ∈ a.genericTypes, IdentStr g
  ty : TypeOk a.ty

def VariantScope : RustEnumVariant → Prop
  | .unit id cs => D cs ∧ IdentStr id.original ∧ KeyStr id.renamed
  | .tuple id cs ty => D cs ∧ IdentStr id.original ∧ KeyStr id.renamed ∧ TypeOk ty
  | .anonymousStruct id cs fs =>
    D cs ∧ IdentStr id.original ∧ KeyStr id.renamed ∧ ∀ f ∈ fs, FieldScope L lx D f

theorem VariantScope.docs {L lx D} {v : RustEnumVariant} (h : VariantScope L lx D v) : D v.comments := by
  cases v <;> exact h.1
theorem VariantScope.original {L lx D} {v : RustEnumVariant} (h : VariantScope L lx D v) : IdentStr v.id.original := by
  cases v <;> exact h.2.1
theorem VariantScope.renamed {L lx D} {v : RustEnumVariant} (h : VariantScope L lx D v) : KeyStr v.id.renamed := by
  cases v <;> first | exact h.2.2 | exact h.2.2.1

structure EnumScope (e : RustEnum) : Prop where
  docs : D e.comments
  original : IdentStr e.id.original
  renamed : KeyStr e.id.renamed
  generics : ∀ g ∈ e.genericTypes, IdentStr g
  variants : ∀ v ∈ e.variants, VariantScope L lx D v
  /-- tag and content keys are identifiers -/
  tag : ∀ k, e.keys = some k → IdentStr k.1
  content : ∀ k, e.keys = some k → KeyStr k.2

structure ConstScope (c : RustConst) : Prop where
  name : IdentStr c.id.renamed
  ty : TypeOk c.ty

def ItemScope : RustItem → Prop
  | .struct s => StructScope L lx D s
  | .enum e => EnumScope L lx D e
  | .alias a => AliasScope D a
  | .const c => ConstScope c

end scope

/-! ## frame: facts proved on the empty stack hold on every stack -/

theorem codeStep_frame {cfg stk c st'} (t : List Char) (h : codeStep cfg stk c = some st') :
    codeStep cfg (stk ++ t) c = some ⟨st'.mode, st'.stack ++ t⟩ := by
  unfold codeStep at *
  repeat' split at h
  all_goals first | cases h | skip
  all_goals first | (simp_all; done) | (simp_all; assumption)

theorem step_frame {cfg a c b} (t : List Char) (h : step cfg a c = some b) :
    step cfg ⟨a.mode, a.stack ++ t⟩ c = some ⟨b.mode, b.stack ++ t⟩ := by
  cases a with | mk m s =>
  cases m <;> simp only [step] at h ⊢
  case code => exact codeStep_frame t h
  case slash =>
    split at h
    · cases h; simp_all
    split at h
    · cases h; simp_all
    · simp only [*, if_false]; exact codeStep_frame t h
  all_goals
    repeat' split at h
    all_goals first | cases h | skip
    all_goals simp_all

theorem scan_frame {cfg} (t : List Char) : ∀ (x : Str) (a b : St), scan cfg a x = some b →
    scan cfg ⟨a.mode, a.stack ++ t⟩ x = some ⟨b.mode, b.stack ++ t⟩
  | [], a, b, h => by cases h; rfl
  | c :: cs, a, b, h => by
    simp only [scan] at h ⊢
    cases hs : step cfg a c with
    | none => rw [hs] at h; cases h
    | some a' =>
      rw [hs] at h
      rw [step_frame t hs]
      exact scan_frame t cs a' b h

/-- `wellBracketed` pieces are neutral on every stack -/
theorem nb_of_wb {cfg x} (h : wellBracketed cfg x = true) : NB cfg x := by
  intro stk
  have h0 : scan cfg init x = some init := by simpa [wellBracketed] using h
  have := scan_frame stk x init init h0
  simpa [init, Run] using this

theorem wb_iff_nb {cfg x} : wellBracketed cfg x = true ↔ NB cfg x := ⟨nb_of_wb, NB.wb⟩

end TsV.C10Lex
