import TsV.Model.Str
/-!
# The fragment of `syn`'s AST that typeshare observes

Everything the Rust code inspects has a constructor; everything it ignores is collapsed.  The
correspondence generators build values of these types, render them to Rust source text (so `syn`
itself is inside the compared path) and ship the same value to the model.
-/
namespace TsV.Syn

/-- literal expressions -/
inductive Lit where
  | str (s : Str)                 -- `LitStr::value()`
  | int (value : Nat) (suffix : Str)  -- `LitInt::base10_digits()` as a number, suffix kept
  | other                          -- float, bool, char, byte string …
deriving DecidableEq, Inhabited

/-- `syn::Meta`.  A `list` whose tokens do not parse as `Punctuated<Meta, ,>` has `parsed = false`
(and `args = []`). Paths are lists of segment identifiers. -/
inductive Meta where
  | path (segs : List Str)
  | nameValue (segs : List Str) (value : Option Lit)   -- `none`: value is not a literal expression
  | list (segs : List Str) (parsed : Bool) (args : List Meta)
deriving Inhabited

/-- an attribute; doc comments are `doc = "…"` name-values -/
structure Attr where
  val : Meta
deriving Inhabited

def Meta.segs : Meta → List Str
  | .path s => s
  | .nameValue s _ => s
  | .list s _ _ => s

/-- `Path::is_ident` -/
def Meta.isIdent (m : Meta) (name : Str) : Bool := m.segs == [name]

/-- `syn::Type` as far as `RustType::try_from` and the path visitor look -/
inductive SynType where
  | tuple (elems : List SynType)
  | reference (elem : SynType)
  | path (quals : List Str) (last : Str) (args : List SynType)
      -- `quals`: idents of the segments before the last; `args`: the *type* arguments of the last
      -- segment (lifetime / const arguments are dropped by typeshare and not represented)
  | array (elem : SynType) (len : Option Nat)   -- `none`: the length is not an integer literal
  | slice (elem : SynType)
  | other                                        -- ptr, fn, impl, dyn, paren, never, infer, macro
deriving Inhabited

structure Field where
  attrs : List Attr
  ident : Option Str     -- as `Ident::to_string()` gives it, i.e. including a leading `r#`
  ty : SynType
deriving Inhabited

inductive Fields where
  | named (fs : List Field)
  | unnamed (fs : List Field)
  | unit
deriving Inhabited

structure Variant where
  attrs : List Attr
  ident : Str
  fields : Fields
deriving Inhabited

inductive GenericParam where
  | type (name : Str)
  | lifetime
  | const
deriving Inhabited

inductive UseTree where
  | path (ident : Str) (tree : UseTree)
  | name (ident : Str)
  | rename (ident : Str) (as : Str)
  | glob
  | group (trees : List UseTree)
deriving Inhabited

inductive Item where
  | struct (attrs : List Attr) (ident : Str) (generics : List GenericParam) (fields : Fields)
  | enum (attrs : List Attr) (ident : Str) (generics : List GenericParam) (variants : List Variant)
  | alias (attrs : List Attr) (ident : Str) (generics : List GenericParam) (ty : SynType)
  | const (attrs : List Attr) (ident : Str) (ty : SynType) (init : Option Lit)
      -- `init`: `some l` when the initialiser is exactly the literal `l`, `none` for any other expression
  | use (tree : UseTree)
  | mod (attrs : List Attr) (ident : Str) (items : List Item)
  | other (paths : List (List Str)) (items : List Item)
      -- fn / impl / trait / union / static / macro: paths they mention, items nested in them
deriving Inhabited

structure File where
  attrs : List Attr      -- inner attributes `#![…]`
  items : List Item
  marker : Bool          -- the rendered text contains the substring `#[typeshare`
deriving Inhabited

end TsV.Syn
