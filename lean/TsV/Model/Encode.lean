import TsV.Model.Sx
import TsV.Model.Visitor
/-!
# model values → JSON (driver glue; mirrors `harness/runner/src/main.rs::j_*`)
-/
namespace TsV.Encode
open TsV

def errName : ErrKind → String
  | .synError => "SynError"
  | .unsupportedType => "UnsupportedType"
  | .unsupportedItem => "UnsupportedTypeP"
  | .unexpectedToken => "UnexpectedToken"
  | .unexpectedParameterizedTuple => "UnexpectedParameterizedTuple"
  | .numericLiteral => "NumericLiteral"
  | .complexTupleStruct => "ComplexTupleStruct"
  | .multipleUnnamedAssociatedTypes => "MultipleUnnamedAssociatedTypes"
  | .serdeTagNotAllowed => "SerdeTagNotAllowed"
  | .serdeContentNotAllowed => "SerdeContentNotAllowed"
  | .serdeTagRequired => "SerdeTagRequired"
  | .serdeContentRequired => "SerdeContentRequired"
  | .rustConstExprInvalid => "RustConstExprInvalid"
  | .rustConstTypeInvalid => "RustConstTypeInvalid"
  | .serdeFlattenNotAllowed => "SerdeFlattenNotAllowed"
  | .ioError => "IOError"
  | .formatError w => "FormatError:" ++ String.ofList w

def outcome {α} (f : α → J) : Outcome α → J
  | .ok a => .obj [("ok", f a)]
  | .err e => .obj [("err", .str (errName e).toList)]
  | .panic s => .obj [("panic", .str s)]

def id (i : Id) : J := .obj [("o", .str i.original), ("r", .str i.renamed), ("s", .bool i.serdeRename)]

partial def ty : RustType → J
  | .simple i => .obj [("S", .str i)]
  | .generic i ps => .obj [("G", .str i), ("p", .arr (ps.map ty))]
  | .vec t => .obj [("Sp", .str "Vec".toList), ("a", .arr [ty t])]
  | .array t n => .obj [("Sp", .str "Array".toList), ("a", .arr [ty t]), ("n", .num n)]
  | .slice t => .obj [("Sp", .str "Slice".toList), ("a", .arr [ty t])]
  | .hashMap k v => .obj [("Sp", .str "HashMap".toList), ("a", .arr [ty k, ty v])]
  | .option t => .obj [("Sp", .str "Option".toList), ("a", .arr [ty t])]
  | .prim p => .obj [("Sp", .str p.id)]

def strs (xs : List Str) : J := .arr (xs.map .str)

def decorators (d : DecoratorMap) : J :=
  -- keys in the order of `format!("{k:?}")` sorted: Kotlin, Swift, SwiftGenericConstraints
  .obj ((match d.kotlin with | some v => [("Kotlin", strs v)] | none => []) ++
        (match d.swift with | some v => [("Swift", strs v)] | none => []) ++
        (match d.swiftGenericConstraints with | some v => [("SwiftGenericConstraints", strs v)] | none => []))

def langName : Lang → String
  | .go => "Go" | .kotlin => "Kotlin" | .scala => "Scala" | .swift => "Swift"
  | .typescript => "TypeScript" | .python => "Python"

def fieldDecorators (d : List (Lang × List FieldDecorator)) : J :=
  .obj (d.map fun (l, fds) => (langName l, .arr (fds.map fun fd => match fd with
    | .word w => .arr [.str "w".toList, .str w]
    | .nameValue n v => .arr [.str "nv".toList, .str n, .str v])))

def field (f : RustField) : J :=
  .obj [("id", id f.id), ("ty", ty f.ty), ("comments", strs f.comments),
        ("has_default", .bool f.hasDefault), ("decorators", fieldDecorators f.decorators)]

def struct (s : RustStruct) : J :=
  .obj [("id", id s.id), ("generic_types", strs s.genericTypes), ("fields", .arr (s.fields.map field)),
        ("comments", strs s.comments), ("decorators", decorators s.decorators),
        ("is_redacted", .bool s.isRedacted)]

def variant : RustEnumVariant → J
  | .unit i c => .obj [("kind", .str "unit".toList), ("id", id i), ("comments", strs c)]
  | .tuple i c t => .obj [("kind", .str "tuple".toList), ("id", id i), ("comments", strs c), ("ty", ty t)]
  | .anonymousStruct i c fs =>
    .obj [("kind", .str "struct".toList), ("id", id i), ("comments", strs c), ("fields", .arr (fs.map field))]

def enum (e : RustEnum) : J :=
  .obj [("kind", .str (match e.keys with | some _ => "alg" | none => "unit").toList),
        ("tag", match e.keys with | some (t, _) => .str t | none => .null),
        ("content", match e.keys with | some (_, c) => .str c | none => .null),
        ("id", id e.id), ("generic_types", strs e.genericTypes), ("comments", strs e.comments),
        ("variants", .arr (e.variants.map variant)), ("decorators", decorators e.decorators),
        ("is_recursive", .bool e.isRecursive), ("is_redacted", .bool e.isRedacted)]

def alias (a : RustTypeAlias) : J :=
  .obj [("id", id a.id), ("generic_types", strs a.genericTypes), ("ty", ty a.ty),
        ("comments", strs a.comments), ("decorators", decorators a.decorators),
        ("is_redacted", .bool a.isRedacted)]

def const (c : RustConst) : J :=
  .obj [("id", id c.id), ("ty", ty c.ty), ("expr", .str (toString c.expr).toList)]

def sortStrs (xs : List Str) : List Str := (xs.toArray.qsort fun a b => Str.lt a b).toList

def parsed (d : ParsedData) : J :=
  let imps := (d.importTypes.toArray.qsort fun a b => Visitor.ImportedType.lt a b).toList
  .obj [("structs", .arr (d.structs.map struct)), ("enums", .arr (d.enums.map enum)),
        ("aliases", .arr (d.aliases.map alias)), ("consts", .arr (d.consts.map const)),
        ("import_types", .arr (imps.map fun i => .arr [.str i.baseCrate, .str i.typeName])),
        ("type_names", strs (sortStrs d.typeNames)),
        ("errors", .arr (d.errors.map fun (e, f) => .arr [.str (errName e).toList, .str f])),
        ("crate_name", .str d.crateName), ("file_name", .str d.fileName),
        ("multi_file", .bool d.multiFile)]

end TsV.Encode
