import sys, random, os
sys.path.insert(0, os.path.dirname(os.path.abspath(__file__)))
import common
from l2 import *
lang = sys.argv[1]
rng = random.Random(int(sys.argv[2]) if len(sys.argv) > 2 else 1)
N = int(sys.argv[3]) if len(sys.argv) > 3 else 300
common.build_runner()
cases = []
MAPS = {"typescript": [{}, {}, {"Url": "string"}, {"Vec<u8>": "Uint8Array"}, {"OffsetDateTime": "Date", "Foo": "FooMapped"}, {"Option<String>": "Maybe", "HashMap<String,u8>": "Dict"}],
        "kotlin": [{}, {}, {"Url": "String"}, {"OffsetDateTime": "Instant"}, {"Foo": "FooMapped", "Bar": "kotlin.Any"},
                   {"Vec<u8>": "ByteArray", "Option<String>": "Maybe"}, {"T": "Mapped", "Item": "List<Int>"}],
        "python": [{}, {}, {}, {"Url": "AnyUrl"}, {"OffsetDateTime": "datetime"}, {"Vec<u8>": "bytes"},
                   {"Vec<u8>": "bytes", "OffsetDateTime": "datetime", "Foo": "FooMapped"},
                   {"Option<String>": "MaybeStr", "HashMap<String,u8>": "Dict[str, int]"},
                   {"Foo": "bytes", "Bar": "datetime", "Item": "bytes", "User": "datetime"},
                   {"DateTime": "datetime", "Url": "bytes", "Bytes": "bytes"},
                   {"String": "bytes", "()": "datetime", "u8": "bytes"},
                   {"[u8]": "bytes", "&[u8]": "bytes", "Option<u8>": "bytes", "Option<OffsetDateTime>": "datetime",
                    "Vec<String>": "datetime", "HashMap<String,String>": "bytes"}],
        "scala": [{}, {}, {"Url": "String"}, {"OffsetDateTime": "String"}, {"Foo": "FooMapped", "Bar": "Map[String, Any]"},
                  {"Vec<u8>": "Array[Byte]", "u8": "Short", "Option<String>": "Maybe"}],
        "go": [{}, {}, {"Url": "string"}, {"OffsetDateTime": "time.Time"}, {"Vec<u8>": "[]byte"}, {"Foo": "FooMapped", "Id": "uuid.UUID"},
               {"Option<String>": "*Str", "HashMap<String,u8>": "Dict", "char": "string", "()": "Unit"},
               {"Vec<String>": "Strings", "[u8]": "Bytes", "&[u8]": "ByteSlice"}],
        "swift": [{}, {}, {"Url": "URL"}, {"OffsetDateTime": "Date"}, {"Url": "URL", "OffsetDateTime": "Date", "Foo": "FooMapped"},
                  {"T": "Mapped", "Wrapper": "Box", "Vec<u8>": "Data"}, {"Pair": "Tuple2", "Id": "UUID", "String": "NSString", "()": "Void"}]}
# go: acronym lists (incl. tag keys, overlapping / empty / underscore / non-ASCII entries), package names
GO_ACRONYMS = [[], [], ["id", "url"], ["ID", "Url", "line"], ["type", "kind", "id"], ["foo", "foo_bar", "bar"], ["a", "b"],
               ["", "id"], ["_", "user_id"], ["i", "d", "id"], ["inner", "variant", "s"], ["é", "id"], ["ü", "e"], ["ñ"], ["ß", "name"]]
GO_PACKAGES = ["proto", "com.example.pkg", "", "my_pkg"]
SWIFT_DECS = [[], [], [], ["Equatable"], ["Sendable", "Hashable"], ["Codable"], ["Equatable", "Equatable"], ["String"], [" Padded "]]
SWIFT_GCS = [[], [], [], ["Equatable"], ["Sendable & Identifiable"], ["Hashable&Codable", " Equatable "], ["Z", "A & M", "A"], [""], ["Equatable & "]]
SWIFT_CVC = [[], [], ["Equatable"], ["Sendable", "Hashable"], ["Codable"], ["Equatable", "Codable", "Equatable"]]
import gen as _gen
if lang == "swift":
    # Swift keywords after camel-casing, leading digits after `_`, empty camel form
    _gen.VARIANT_WORDS.extend(["Default", "Case", "In", "Protocol", "Is", "Do", "_1", "_2nd", "__", "Type", "Any"])
MULTI = "--multi" in sys.argv
from gen import TYPE_WORDS
for i in range(N):
    g = Gen(rng, p_cfg=0.0, p_edge=0.0, p_decorators=0.15, p_doc=0.4, multi_file=MULTI, crates=["alpha", "beta_x"])
    cfg = {"type_mappings": rng.choice(MAPS.get(lang, [{}])), "version_header": rng.random() < 0.3,
           "package": "com.example.pkg", "module_name": rng.choice(["mod", "", "Other"]), "prefix": rng.choice(["", "", "OP", "Core_"])}
    if lang == "kotlin":
        cfg["package"] = rng.choice(["com.example.pkg", "com.example.pkg", "", "x"])
    if lang == "go":
        g.o["nonascii"] = rng.choice([0.0, 0.0, 0.1, 0.3])
        cfg["package"] = rng.choice(GO_PACKAGES)
        cfg["uppercase_acronyms"] = rng.choice(GO_ACRONYMS)
        cfg["no_pointer_slice"] = rng.random() < 0.4
    if lang == "swift":
        cfg["prefix"] = rng.choice(["", "", "OP", "Core_", "`", "Ty", "Sel"])
        cfg["default_decorators"] = rng.choice(SWIFT_DECS)
        cfg["default_generic_constraints"] = rng.choice(SWIFT_GCS)
        cfg["codablevoid_constraints"] = rng.choice(SWIFT_CVC)
    if lang == "scala":
        cfg["package"] = rng.choice(["com.example.pkg"] * 6 + ["pkg", "a.b", "trailing.", ".leading", "x..y", ".", ""])
    if not MULTI:
        if lang == "python" and rng.random() < 0.4:
            # undeclared simple types that python.rs::add_imports special-cases (`Url`, `DateTime`)
            nm = rng.sample(TYPE_WORDS, rng.randint(1, 5))
            f = g.file(names=nm, extern_types=[e for e in rng.sample(["Url", "DateTime", "Bytes"], rng.randint(1, 3)) if e not in nm])
        else:
            f = g.file()
        m, r, t = requests(lang, cfg, [{"crate": "", "file_name": "out", "path": "src/lib.rs", "file": f}], g)
        cases.append((m, r, t, names_of(f)))
    else:
        words = rng.sample(TYPE_WORDS, 8)
        split = {"alpha": words[:4], "beta_x": words[4:]}
        files, names = [], set()
        for crate, mine in split.items():
            others = [w for c, ws in split.items() if c != crate for w in ws]
            ext = rng.sample(others, 2)
            f = g.file(names=rng.sample(mine, rng.randint(1, 4)), extern_types=ext)
            for e in ext:
                if rng.random() < 0.7:
                    oc = [c for c in split if c != crate][0]
                    f["items"].insert(0, {"kind": "use", "tree": ("upath", oc, ("uname", e))})
            files.append({"crate": crate, "file_name": crate + ".out", "path": crate + "/src/lib.rs", "file": f})
            names |= names_of(f)
        rng.shuffle(files)
        m, r, t = requests(lang, cfg, files, g, multi_file=True)
        cases.append((m, r, t, names))
allnames = set().union(*[c[3] for c in cases]) if lang == "python" else None
mans = [norm(a) for a in common.model([c[0] for c in cases], names=allnames)]
rans = [norm(a) for a in common.runner([c[1] for c in cases])]
diffs = [i for i, (a, b) in enumerate(zip(mans, rans)) if a != b]
from collections import Counter
print("cases", N, "diffs", len(diffs), Counter(list(a.keys())[0] for a in rans))
for i in diffs[:3]:
    print("------", i)
    print("\n// ---- next file ----\n".join(cases[i][2]))
    a, b = mans[i], rans[i]
    if "ok" in a and "ok" in b:
        for k in b["ok"]:
            print(text_diff(a["ok"].get(k, ""), b["ok"][k]))
            print("IMPL:\n" + b["ok"][k])
    else:
        print("model:", str(a)[:400]); print("impl:", str(b)[:400])
