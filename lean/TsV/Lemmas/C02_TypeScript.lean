import TsV.Lemmas.C02_Base
import TsV.Model.Lang.TypeScript
/-!
# C02, TypeScript: fact records for `write_enum` (the model prints enums directly), their rendering,
and what they say on the wire
-/
namespace TsV.C02.TS
open TsV TsV.Lang TsV.Lang.TypeScript TsV.C02

/-- one member of a string `enum`: `name = "value",` -/
structure EnumMember where
  comments : List Str
  name : Str
  value : Str            -- printed with `{:?}`
deriving Repr, DecidableEq

/-- what follows the content key in a union member -/
inductive Payload where
  | undefined                          -- `content?: undefined`
  | ty (optional : Bool) (t : Str)     -- `content: T` / `content?: T`
  | obj (body : Str)                   -- `content: {` fields `}`
deriving Repr, DecidableEq

/-- one member `| { tag: "value", content… }` of a tagged union -/
structure UnionMember where
  comments : List Str
  tagKey : Str
  tagValue : Str         -- printed with `{:?}`
  contentKey : Str
  payload : Payload
deriving Repr, DecidableEq

inductive EnumDecl where
  | enum (comments : List Str) (name generics : Str) (members : List EnumMember)
  | union (comments : List Str) (name generics : Str) (members : List UnionMember)
deriving Repr, DecidableEq

def renderEnumMember (m : EnumMember) : Str :=
  nl ++ TypeScript.comments 1 m.comments ++ s%"\t" ++ m.name ++ s%" = " ++ debugStr m.value ++ s%","

def renderUnionMember (m : UnionMember) : Str :=
  nl ++ TypeScript.comments 1 m.comments ++ s%"\t| { " ++ m.tagKey ++ s%": " ++ debugStr m.tagValue ++ s%", " ++
    m.contentKey ++
    match m.payload with
    | .undefined => s%"?: undefined }"
    | .ty o t => (if o then s%"?" else []) ++ s%": " ++ t ++ s%" }"
    | .obj body => s%": {\n" ++ body ++ s%"}}"

def renderEnumDecl : EnumDecl → Str
  | .enum cs name gp ms =>
    TypeScript.comments 0 cs ++ s%"export enum " ++ name ++ gp ++ s%" {" ++ ms.flatMap renderEnumMember ++ s%"\n}\n\n"
  | .union cs name gp ms =>
    TypeScript.comments 0 cs ++ s%"export type " ++ name ++ gp ++ s%" = " ++ ms.flatMap renderUnionMember ++ s%";\n\n"

def enumMember (v : RustEnumVariant) : EnumMember :=
  { comments := v.comments, name := v.id.original, value := v.id.renamed }

/-- the facts of one union member (the payload type is formatted on the way, which threads the
printer state) -/
def unionMember (cfg : Cfg) (e : RustEnum) (tag content : Str) (v : RustEnumVariant) (st : CustomMap) :
    Outcome (UnionMember × CustomMap) :=
  match v with
  | .unit id cs => .ok (⟨cs, tag, id.renamed, content, .undefined⟩, st)
  | .tuple id cs ty =>
    (formatType cfg e.genericTypes ty st).bind fun (t, st) =>
      .ok (⟨cs, tag, id.renamed, content, .ty ty.isOptional t⟩, st)
  | .anonymousStruct id cs fs =>
    (writeFields cfg e.genericTypes fs st).bind fun (body, st) =>
      .ok (⟨cs, tag, id.renamed, content, .obj body⟩, st)

def unionMembers (cfg : Cfg) (e : RustEnum) (tag content : Str) : List RustEnumVariant → CustomMap →
    Outcome (List UnionMember × CustomMap)
  | [], st => .ok ([], st)
  | v :: vs, st =>
    (unionMember cfg e tag content v st).bind fun (m, st) =>
    (unionMembers cfg e tag content vs st).bind fun (ms, st) => .ok (m :: ms, st)

/-- `write_enum` as facts -/
def enumFacts (cfg : Cfg) (e : RustEnum) (st : CustomMap) : Outcome (EnumDecl × CustomMap) :=
  let gp := genericSuffix e.genericTypes
  match e.keys with
  | none => .ok (.enum e.comments e.id.renamed gp (e.variants.map enumMember), st)
  | some (tag, content) =>
    (unionMembers cfg e tag content e.variants st).bind fun (ms, st) =>
      .ok (.union e.comments e.id.renamed gp ms, st)

theorem writeVariant_eq (cfg : Cfg) (e : RustEnum) (tag content : Str) (v : RustEnumVariant) (st : CustomMap) :
    writeVariant cfg e tag content v st =
      (unionMember cfg e tag content v st).bind fun (m, st) => .ok (renderUnionMember m, st) := by
  cases v with
  | unit id cs => simp [writeVariant, unionMember, renderUnionMember, RustEnumVariant.comments]
  | tuple id cs ty =>
    simp only [writeVariant, unionMember, RustEnumVariant.comments]
    cases formatType cfg e.genericTypes ty st with
    | ok p => simp [renderUnionMember]
    | err x => rfl
    | panic x => rfl
  | anonymousStruct id cs fs =>
    simp only [writeVariant, unionMember, RustEnumVariant.comments]
    cases writeFields cfg e.genericTypes fs st with
    | ok p => simp [renderUnionMember]
    | err x => rfl
    | panic x => rfl

theorem writeVariants_eq (cfg : Cfg) (e : RustEnum) (tag content : Str) : ∀ (vs : List RustEnumVariant) (st : CustomMap),
    writeVariants cfg e tag content vs st =
      (unionMembers cfg e tag content vs st).bind fun (ms, st) => .ok (ms.flatMap renderUnionMember, st)
  | [], st => rfl
  | v :: vs, st => by
    simp only [writeVariants, unionMembers, writeVariant_eq]
    cases unionMember cfg e tag content v st with
    | ok p =>
      simp only [Outcome.bind_ok]
      rw [writeVariants_eq cfg e tag content vs p.2]
      cases unionMembers cfg e tag content vs p.2 with
      | ok q => simp
      | err x => rfl
      | panic x => rfl
    | err x => rfl
    | panic x => rfl

/-- **the facts render to exactly what `write_enum` writes** -/
theorem writeEnum_eq (cfg : Cfg) (e : RustEnum) (st : CustomMap) :
    writeEnum cfg e st = (enumFacts cfg e st).bind fun (d, st) => .ok (renderEnumDecl d, st) := by
  unfold writeEnum enumFacts
  cases hk : e.keys with
  | none =>
    simp only [Outcome.bind_ok, renderEnumDecl]
    congr 3
    simp [List.flatMap_map, renderEnumMember, enumMember]
  | some p =>
    obtain ⟨tag, content⟩ := p
    simp only [writeVariants_eq]
    cases unionMembers cfg e tag content e.variants st with
    | ok q => simp [renderEnumDecl]
    | err x => rfl
    | panic x => rfl

/-- binding semantics: a string-enum member `Name = "value"` is the case `Name` serialised as
`value`; a union member is identified by (and serialised under) its tag literal and prints the tag
key and the content key once each -/
def wire : EnumDecl → EnumWire
  | .enum _ _ _ ms => { cases := ms.map fun m => ⟨some m.name, some m.value⟩, holes := [] }
  | .union _ _ _ ms =>
    { cases := ms.map fun m => ⟨none, some m.tagValue⟩,
      holes := ms.flatMap fun m => [(.tag, m.tagKey), (.content, m.contentKey)] }

theorem unionMember_facts (cfg : Cfg) (e : RustEnum) (tag content : Str) (v : RustEnumVariant) (st st' : CustomMap)
    (m : UnionMember) (h : unionMember cfg e tag content v st = .ok (m, st')) :
    m.tagKey = tag ∧ m.contentKey = content ∧ m.tagValue = v.id.renamed := by
  cases v with
  | unit id cs => simp [unionMember] at h; obtain ⟨rfl, _⟩ := h; exact ⟨rfl, rfl, rfl⟩
  | tuple id cs ty =>
    simp only [unionMember] at h
    cases hf : formatType cfg e.genericTypes ty st with
    | ok p => rw [hf] at h; simp at h; obtain ⟨rfl, _⟩ := h; exact ⟨rfl, rfl, rfl⟩
    | err x => rw [hf] at h; simp at h
    | panic x => rw [hf] at h; simp at h
  | anonymousStruct id cs fs =>
    simp only [unionMember] at h
    cases hf : writeFields cfg e.genericTypes fs st with
    | ok p => rw [hf] at h; simp at h; obtain ⟨rfl, _⟩ := h; exact ⟨rfl, rfl, rfl⟩
    | err x => rw [hf] at h; simp at h
    | panic x => rw [hf] at h; simp at h

theorem unionMembers_facts (cfg : Cfg) (e : RustEnum) (tag content : Str) :
    ∀ (vs : List RustEnumVariant) (st st' : CustomMap) (ms : List UnionMember),
      unionMembers cfg e tag content vs st = .ok (ms, st') →
      ms.map (·.tagValue) = vs.map (·.id.renamed) ∧ ∀ m ∈ ms, m.tagKey = tag ∧ m.contentKey = content
  | [], st, st', ms, h => by
    simp [unionMembers] at h; obtain ⟨rfl, _⟩ := h; simp
  | v :: vs, st, st', ms, h => by
    simp only [unionMembers] at h
    cases hm : unionMember cfg e tag content v st with
    | ok p =>
      obtain ⟨m, st1⟩ := p
      rw [hm] at h
      simp only [Outcome.bind_ok] at h
      cases hr : unionMembers cfg e tag content vs st1 with
      | ok q =>
        obtain ⟨ms', st2⟩ := q
        rw [hr] at h
        simp at h
        obtain ⟨rfl, _⟩ := h
        obtain ⟨h1, h2, h3⟩ := unionMember_facts cfg e tag content v st st1 m hm
        obtain ⟨ih1, ih2⟩ := unionMembers_facts cfg e tag content vs st1 st2 ms' hr
        refine ⟨by simp [h3, ih1], ?_⟩
        intro x hx
        simp only [List.mem_cons] at hx
        rcases hx with rfl | hx
        · exact ⟨h1, h2⟩
        · exact ih2 x hx
      | err x => rw [hr] at h; simp at h
      | panic x => rw [hr] at h; simp at h
    | err x => rw [hm] at h; simp at h
    | panic x => rw [hm] at h; simp at h

/-- **TypeScript**: whatever `write_enum` emits for an in-scope enum is correct on the wire -/
theorem correct (cfg : Cfg) (e : RustEnum) (hs : InScopeEnum e) (st st' : CustomMap) (d : EnumDecl)
    (h : enumFacts cfg e st = .ok (d, st')) : (wire d).Correct e := by
  unfold enumFacts at h
  cases hk : e.keys with
  | none =>
    simp only [hk] at h
    simp at h
    obtain ⟨rfl, _⟩ := h
    refine ⟨?_, ?_, ?_⟩
    · simp [EnumWire.Names, wire, enumMember, Function.comp_def]
    · simpa [EnumWire.Distinct, wire, enumMember, List.filterMap_map, Function.comp_def] using hs.distinct
    · simp [EnumWire.Keys, hk, wire]
  | some p =>
    obtain ⟨tag, content⟩ := p
    simp only [hk] at h
    cases hm : unionMembers cfg e tag content e.variants st with
    | ok q =>
      obtain ⟨ms, st1⟩ := q
      rw [hm] at h
      simp at h
      obtain ⟨rfl, _⟩ := h
      obtain ⟨h1, h2⟩ := unionMembers_facts cfg e tag content e.variants st st1 ms hm
      refine ⟨?_, ?_, ?_⟩
      · have := congrArg (List.map some) h1
        simpa [EnumWire.Names, wire, Function.comp_def] using this
      · have hnone : ∀ (l : List UnionMember), l.filterMap (fun _ => (none : Option Str)) = [] := by
          intro l; induction l with
          | nil => rfl
          | cons a t ih => simp
        simp [EnumWire.Distinct, wire, List.filterMap_map, Function.comp_def, hnone]
      · simp only [EnumWire.Keys, hk, wire, List.mem_flatMap]
        rintro x ⟨m, hm', hx⟩
        obtain ⟨ht, hc⟩ := h2 m hm'
        simp only [List.mem_cons, List.not_mem_nil, or_false] at hx
        rcases hx with rfl | rfl
        · exact Or.inl (by rw [ht])
        · exact Or.inr (by rw [hc])
    | err x => rw [hm] at h; simp at h
    | panic x => rw [hm] at h; simp at h

end TsV.C02.TS
