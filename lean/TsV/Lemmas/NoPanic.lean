import TsV.Model.Visitor
import TsV.Lemmas.Outcome
/-! the parser model never takes a `panic` branch (after the `fix:` commits) -/
namespace TsV.NoPanic
open TsV TsV.Syn TsV.Parser TsV.RustTypes TsV.Outcome

theorem fromPath_np (id : Str) (ps : List RustType) : NP (fromPath id ps) := by
  unfold fromPath
  by_cases h1 : id = s%"Vec"
  · rw [if_pos h1]
    cases ps <;> exact rfl
  rw [if_neg h1]
  by_cases h2 : id = s%"Option"
  · rw [if_pos h2]; cases ps <;> exact rfl
  rw [if_neg h2]
  by_cases h3 : id = s%"HashMap"
  · rw [if_pos h3]
    cases ps with
    | nil => exact rfl
    | cons a t => cases t <;> exact rfl
  rw [if_neg h3]
  by_cases h4 : smartPointers.contains id = true
  · rw [if_pos h4]; cases ps <;> exact rfl
  rw [if_neg h4]
  by_cases h5 : unsupported64.contains id = true
  · rw [if_pos h5]; exact rfl
  rw [if_neg h5]
  cases primTable.lookup id with
  | some p => exact rfl
  | none => simp only; split <;> exact rfl

mutual
  theorem tryFrom_np : ∀ t : SynType, NP (tryFrom t)
    | .tuple [] => by simp [tryFrom]
    | .tuple (_ :: _) => by simp [tryFrom]
    | .reference e => by simpa [tryFrom] using tryFrom_np e
    | .path q last args => by
      have := tryFromList_np args
      simp only [tryFrom]
      cases h : tryFromList args with
      | ok ps => exact fromPath_np last ps
      | err e => exact rfl
      | panic s => rw [h] at this; simp [NP, Outcome.isPanic] at this
    | .array e len => by
      have := tryFrom_np e
      simp only [tryFrom]
      cases h : tryFrom e with
      | ok t =>
        cases len with
        | none => exact rfl
        | some n => simp only; split <;> exact rfl
      | err er => cases len <;> exact rfl
      | panic s => rw [h] at this; simp [NP, Outcome.isPanic] at this
    | .slice e => by
      have := tryFrom_np e
      simp only [tryFrom]
      cases h : tryFrom e with
      | ok t => exact rfl
      | err er => exact rfl
      | panic s => rw [h] at this; simp [NP, Outcome.isPanic] at this
    | .other => by simp [tryFrom]
  theorem tryFromList_np : ∀ ts : List SynType, NP (tryFromList ts)
    | [] => by simp [tryFromList]
    | t :: ts => by
      have h1 := tryFrom_np t
      have h2 := tryFromList_np ts
      simp only [tryFromList]
      cases ht : tryFrom t with
      | ok r =>
        cases hl : tryFromList ts with
        | ok rs => exact rfl
        | err e => exact rfl
        | panic s => rw [hl] at h2; simp [NP, Outcome.isPanic] at h2
      | err e => exact rfl
      | panic s => rw [ht] at h1; simp [NP, Outcome.isPanic] at h1
end

theorem fromStr_np (pt : Str → Option SynType) (s : Str) : NP (fromStr pt s) := by
  unfold fromStr; split
  · exact rfl
  · exact tryFrom_np _

theorem fieldType_np (E : Ext) (attrs : List Attr) (ty : SynType) : NP (fieldType E attrs ty) := by
  unfold fieldType; split
  · exact fromStr_np _ _
  · exact tryFrom_np _

theorem rename_np (U : UnicodeOps) (s : Str) (r : Option Str) : NP (Rename.renameAllToCase U s r) := by
  unfold Rename.renameAllToCase
  repeat' split
  all_goals exact rfl

theorem getIdent_np (E : Ext) (i : Option Str) (attrs : List Attr) (ra : Option Str) :
    NP (getIdent E i attrs ra) := by
  unfold getIdent
  apply np_bind' _ _ (rename_np _ _ _)
  intro a; split <;> exact rfl

theorem parseField_np (E : Ext) (cf : Bool) (ra : Option Str) (f : Field) : NP (parseField E cf ra f) := by
  unfold parseField
  apply np_bind' _ _ (fieldType_np _ _ _)
  intro ty
  split
  · exact rfl
  · apply np_bind' _ _ (getIdent_np _ _ _ _)
    intro id; exact rfl

theorem mkAlias_np (E : Ext) (i : Str) (a : List Attr) (g : List GenericParam) (t : RustType) :
    NP (mkAlias E i a g t) := by
  unfold mkAlias
  apply np_bind' _ _ (getIdent_np _ _ _ _)
  intro id; exact rfl

theorem mkStruct_np (E : Ext) (i : Str) (a : List Attr) (g : List GenericParam) (fs : List RustField) :
    NP (mkStruct E i a g fs) := by
  unfold mkStruct
  apply np_bind' _ _ (getIdent_np _ _ _ _)
  intro id; exact rfl

theorem serializedAlias_np (E : Ext) (i : Str) (a : List Attr) (g : List GenericParam) (s : Str) :
    NP (serializedAlias E i a g s) := by
  unfold serializedAlias
  apply np_bind' _ _ (fromStr_np _ _)
  intro ty; exact mkAlias_np _ _ _ _ _

theorem parseStruct_np (E : Ext) (T : List Str) (a : List Attr) (i : Str) (g : List GenericParam)
    (fs : Fields) : NP (parseStruct E T a i g fs) := by
  unfold parseStruct
  split
  · exact serializedAlias_np _ _ _ _ _
  · split
    · apply np_bind' _ _ (mapM'_np _ (parseField_np E true _) _)
      intro r; exact mkStruct_np _ _ _ _ _
    · split
      · exact rfl
      · split
        · exact rfl
        · apply np_bind' _ _ (fieldType_np _ _ _)
          intro t; exact mkAlias_np _ _ _ _ _
    · exact mkStruct_np _ _ _ _ _

theorem parseEnumVariant_np (E : Ext) (T : List Str) (ra : Option Str) (v : Variant) :
    NP (parseEnumVariant E T ra v) := by
  unfold parseEnumVariant
  apply np_bind' _ _ (getIdent_np _ _ _ _)
  intro id
  split
  · exact rfl
  · split
    · exact rfl
    · split
      · exact rfl
      · apply np_bind' _ _ (fieldType_np _ _ _)
        intro t; exact rfl
  · apply np_bind' _ _ (mapM'_np _ (parseField_np E true _) _)
    intro r; exact rfl

theorem enumShape_np (E : Ext) (a : List Attr) (sh : RustEnum) : NP (enumShape E a sh) := by
  unfold enumShape
  repeat' split
  all_goals exact rfl

theorem parseEnum_np (E : Ext) (T : List Str) (a : List Attr) (i : Str) (g : List GenericParam)
    (vs : List Variant) : NP (parseEnum E T a i g vs) := by
  unfold parseEnum
  split
  · exact serializedAlias_np _ _ _ _ _
  · apply np_bind' _ _ (mapM'_np _ (parseEnumVariant_np E T _) _)
    intro rvs
    apply np_bind' _ _ (getIdent_np _ _ _ _)
    intro id; exact enumShape_np _ _ _

theorem parseTypeAlias_np (E : Ext) (a : List Attr) (i : Str) (g : List GenericParam) (ty : SynType) :
    NP (parseTypeAlias E a i g ty) := by
  unfold parseTypeAlias
  apply np_bind' _ _ (fieldType_np _ _ _)
  intro t; exact mkAlias_np _ _ _ _ _

theorem parseConstExpr_np (init : Option Lit) : NP (parseConstExpr init) := by
  unfold parseConstExpr
  repeat' split
  all_goals exact rfl

theorem parseConst_np (E : Ext) (a : List Attr) (i : Str) (ty : SynType) (init : Option Lit) :
    NP (parseConst E a i ty init) := by
  unfold parseConst
  apply np_bind' _ _ (parseConstExpr_np _)
  intro v
  apply np_bind' _ _ (fieldType_np _ _ _)
  intro t
  split
  · apply np_bind' _ _ (getIdent_np _ _ _ _)
    intro id; exact rfl
  · exact rfl

open Visitor in
theorem collectIf_np (ctx : ParseContext) (path : Str) (d : ParsedData) (attrs : List Attr)
    (p : Outcome RustItem) (hp : NP p) : NP (collectIf ctx path d attrs p) := by
  unfold collectIf
  split
  · unfold collectResult
    cases p with
    | ok a => exact rfl
    | err e => exact rfl
    | panic s => simp [NP, Outcome.isPanic] at hp
  · exact rfl

open Visitor in
mutual
  theorem visitItem_np (E : Ext) (ctx : ParseContext) (path : Str) : ∀ (it : Item) (d : ParsedData),
      NP (visitItem E ctx path d it)
    | .struct a i g f, d => by
      simp only [visitItem]
      exact np_bind _ _ (collectIf_np _ _ _ _ _ (parseStruct_np _ _ _ _ _ _)) fun _ => rfl
    | .enum a i g v, d => by
      simp only [visitItem]
      exact np_bind _ _ (collectIf_np _ _ _ _ _ (parseEnum_np _ _ _ _ _ _)) fun _ => rfl
    | .alias a i g t, d => by
      simp only [visitItem]
      exact np_bind _ _ (collectIf_np _ _ _ _ _ (parseTypeAlias_np _ _ _ _ _)) fun _ => rfl
    | .const a i t l, d => by
      simp only [visitItem]
      exact np_bind _ _ (collectIf_np _ _ _ _ _ (parseConst_np _ _ _ _ _)) fun _ => rfl
    | .use t, d => by
      simp only [visitItem]; split <;> exact rfl
    | .mod a i items, d => by
      simp only [visitItem]; exact visitItems_np E ctx path items _
    | .other p items, d => by
      simp only [visitItem]; exact visitItems_np E ctx path items _
  theorem visitItems_np (E : Ext) (ctx : ParseContext) (path : Str) : ∀ (items : List Item) (d : ParsedData),
      NP (visitItems E ctx path d items)
    | [], d => by simp only [visitItems]; exact rfl
    | i :: is, d => by
      simp only [visitItems]
      exact np_bind _ _ (visitItem_np E ctx path i d) fun d' => visitItems_np E ctx path is d'
end

open Visitor in
theorem visitFile_np (E : Ext) (ctx : ParseContext) (c fn p : Str) (f : File) :
    NP (visitFile E ctx c fn p f) := by
  unfold visitFile
  simp only
  split
  · exact visitItems_np _ _ _ _ _
  · exact rfl

open Visitor in
/-- **the model of `parser::parse` never panics**, in single- and multi-file mode -/
theorem parseFile_np (E : Ext) (ctx : ParseContext) (pick) (c fn p : Str) (f : File) :
    NP (parseFile E ctx pick c fn p f) := by
  unfold parseFile
  split
  · exact rfl
  · apply np_bind _ _ (visitFile_np _ _ _ _ _ _)
    intro d
    repeat' split
    all_goals exact rfl

end TsV.NoPanic
