import TsV.Lemmas.C04_Go
/-!
# C04, Go: the acronym pass commutes with the punctuation of pointer and slice types

`write_field` runs `convert_acronyms_to_uppercase` over the *whole* translated type text, including
the leading `*` / `[]`.  The pass matches each acronym's Pascal-cased pattern in the text; a
pattern that is non-empty and does not begin with the punctuation character cannot match at that
character, and (the character being one byte) every offset behind it is shifted by exactly one,
so the pass on `c :: s` is `c ::` the pass on `s`.
-/
namespace TsV.C04.Go
open TsV TsV.Lang TsV.Lang.Go TsV.C04

/-- the pattern of an acronym is non-empty and does not begin with `c` -/
def GoodPat (c : Char) (pat : Str) : Prop :=
  (match pat with
   | p :: _ => p != c
   | [] => false) = true

instance (c : Char) (pat : Str) : Decidable (GoodPat c pat) := by unfold GoodPat; infer_instance

theorem GoodPat.cons {c : Char} {pat : Str} (h : GoodPat c pat) : ∃ p ps, pat = p :: ps ∧ p ≠ c := by
  cases pat with
  | nil => simp [GoodPat] at h
  | cons p ps => exact ⟨p, ps, rfl, by simpa [GoodPat] using h⟩

theorem go_shift (pat : Str) (k : Nat) : ∀ (fuel off : Nat) (s : Str),
    matchIndices.go pat fuel (off + k) s = (matchIndices.go pat fuel off s).map (· + k) := by
  intro fuel
  induction fuel with
  | zero => intro off s; simp [matchIndices.go]
  | succ n ih =>
    intro off s
    cases s with
    | nil => simp [matchIndices.go]
    | cons c t =>
      simp only [matchIndices.go]
      split
      · have : off + k + utf8Len pat = off + utf8Len pat + k := by omega
        rw [this, ih]; simp
      · have : off + k + c.utf8Size = off + c.utf8Size + k := by omega
        rw [this, ih]

theorem matchIndices_shift {c : Char} (hc : c.utf8Size = 1) {pat : Str} (hp : GoodPat c pat) (name : Str) :
    matchIndices (c :: name) pat = (matchIndices name pat).map (· + 1) := by
  obtain ⟨p, ps, rfl, hne⟩ := hp.cons
  have hsw : Str.startsWith (c :: name) (p :: ps) = false := by
    have : (c == p) = false := by simpa using fun h => hne h.symm
    simp [Str.startsWith, this]
  simp only [matchIndices, List.isEmpty_cons, Bool.false_eq_true, if_false, List.length_cons,
    matchIndices.go, hsw, hc]
  have := go_shift (p :: ps) 1 name.length 0 name
  simpa using this

theorem foldl_utf8 (res : Str) : ∀ (n k : Nat),
    res.foldl (fun n c => n + c.utf8Size) (n + k) = res.foldl (fun n c => n + c.utf8Size) n + k := by
  induction res with
  | nil => intro n k; rfl
  | cons c t ih =>
    intro n k
    simp only [List.foldl_cons]
    have : n + k + c.utf8Size = n + c.utf8Size + k := by omega
    rw [this, ih]

theorem utf8Len_cons {c : Char} (hc : c.utf8Size = 1) (res : Str) : utf8Len (c :: res) = utf8Len res + 1 := by
  simp only [utf8Len, List.foldl_cons, hc]
  exact foldl_utf8 res 0 1

theorem splitAtByte_cons {c : Char} (hc : c.utf8Size = 1) (res : Str) (n : Nat) :
    splitAtByte (c :: res) (n + 1) = (splitAtByte res n).map fun (x : Str × Str) => (c :: x.1, x.2) := by
  simp [splitAtByte, hc]

theorem replaceRange_cons {c : Char} (hc : c.utf8Size = 1) (res : Str) (lo hi : Nat) (rep : Str) :
    replaceRange (c :: res) (lo + 1) (hi + 1) rep =
      (replaceRange res lo hi rep).bind fun r => .ok (c :: r) := by
  unfold replaceRange
  rw [utf8Len_cons hc, splitAtByte_cons hc]
  by_cases hlt : utf8Len res < hi
  · have : utf8Len res + 1 < hi + 1 := by omega
    simp [hlt, this]
  · have : ¬ utf8Len res + 1 < hi + 1 := by omega
    simp only [hlt, this, if_false]
    cases h1 : splitAtByte res lo with
    | none => simp
    | some x =>
      obtain ⟨a, rest⟩ := x
      have : hi + 1 - (lo + 1) = hi - lo := by omega
      simp only [Option.map_some, this]
      cases h2 : splitAtByte rest (hi - lo) with
      | none => simp
      | some y => simp

/-- one acronym -/
theorem applyAcronym_shift (U : UnicodeOps) {c : Char} (hc : c.utf8Size = 1) (a : Str)
    (hp : GoodPat c (Rename.toPascal U a)) (name res : Str) :
    applyAcronym U (c :: name) (c :: res) a = (applyAcronym U name res a).bind fun r => .ok (c :: r) := by
  unfold applyAcronym
  simp only
  rw [matchIndices_shift hc hp]
  generalize matchIndices name (Rename.toPascal U a) = is
  induction is generalizing res with
  | nil => simp [List.foldlM]
  | cons i t ih =>
    simp only [List.map_cons, List.foldlM_cons]
    have hget : (c :: name)[i + 1 + (Rename.toPascal U a).length]? = name[i + (Rename.toPascal U a).length]? := by
      have : i + 1 + (Rename.toPascal U a).length = (i + (Rename.toPascal U a).length) + 1 := by omega
      rw [this, List.getElem?_cons_succ]
    rw [hget]
    split
    · have : i + 1 + (Rename.toPascal U a).length = (i + (Rename.toPascal U a).length) + 1 := by omega
      rw [this, replaceRange_cons hc]
      cases hr : replaceRange res i (i + (Rename.toPascal U a).length) (U.upperStr (Rename.toPascal U a)) with
      | ok r => exact ih r
      | err e => rfl
      | panic s => rfl
    · exact ih res

/-- the whole pass -/
theorem convertAcronyms_shift (U : UnicodeOps) {c : Char} (hc : c.utf8Size = 1) (acronyms : List Str)
    (hp : ∀ a ∈ acronyms, GoodPat c (Rename.toPascal U a)) (name : Str) :
    convertAcronyms U acronyms (c :: name) = (convertAcronyms U acronyms name).bind fun r => .ok (c :: r) := by
  unfold convertAcronyms
  suffices h : ∀ (as : List Str), (∀ a ∈ as, GoodPat c (Rename.toPascal U a)) → ∀ res : Str,
      as.foldlM (applyAcronym U (c :: name)) (c :: res) =
        (as.foldlM (applyAcronym U name) res).bind fun r => .ok (c :: r) from h acronyms hp name
  intro as
  induction as with
  | nil => intro _ res; rfl
  | cons a t ih =>
    intro hgood res
    simp only [List.foldlM_cons]
    rw [applyAcronym_shift U hc a (hgood a (by simp))]
    cases hr : applyAcronym U name res a with
    | ok r => exact ih (fun a' ha' => hgood a' (by simp [ha'])) r
    | err e => rfl
    | panic s => rfl

/-- whether a Pascal-cased pattern is non-empty, and its first character, do not depend on the all-capitals
flag (the first character written is always `asciiUpper` of the first character that is not `_`) -/
theorem goodPat_pascalGo (c : Char) (b b' : Bool) (a : Str) :
    GoodPat c (Rename.pascalGo b true a) ↔ GoodPat c (Rename.pascalGo b' true a) := by
  induction a with
  | nil => simp [Rename.pascalGo]
  | cons x t ih =>
    simp only [Rename.pascalGo]
    by_cases hx : x = '_'
    · simp only [hx, if_true]; exact ih
    · simp only [hx, if_false, if_true, GoodPat]

/-- … hence not on the Unicode tables either -/
theorem goodPat_toPascal (c : Char) (U U' : UnicodeOps) (a : Str) :
    GoodPat c (Rename.toPascal U a) ↔ GoodPat c (Rename.toPascal U' a) :=
  goodPat_pascalGo c _ _ a

/-- the acronyms' patterns are non-empty and begin with none of `*`, `[`, `]` (true of every
acronym made of letters and digits).  The pattern is `to_pascal_case` of the acronym; whether it is empty and
what it begins with is the same for every Unicode table (`goodPat_toPascal`), so the ASCII one is named. -/
def SaneAcronyms (cfg : Cfg) : Prop :=
  ∀ a ∈ cfg.uppercaseAcronyms, ∀ c ∈ ['*', '[', ']'], GoodPat c (Rename.toPascal UnicodeOps.ascii a)

/-- **the acronym pass is transparent for pointer / slice punctuation** for every sane acronym list -/
theorem acrTransparent_of_sane (U : UnicodeOps) (cfg : Cfg) (h : SaneAcronyms cfg) : AcrTransparent U cfg := by
  intro c s hcm
  have hc : c.utf8Size = 1 := by
    simp only [List.mem_cons, List.not_mem_nil, or_false] at hcm
    rcases hcm with rfl | rfl | rfl <;> decide
  exact convertAcronyms_shift U hc _ (fun a ha => (goodPat_toPascal c _ U a).1 (h a ha c hcm)) s

example : SaneAcronyms { uppercaseAcronyms := [s%"id", s%"url", s%"API"] } := by
  intro a ha c hc
  simp only [List.mem_cons, List.not_mem_nil, or_false] at ha hc
  rcases ha with rfl | rfl | rfl <;> rcases hc with rfl | rfl | rfl <;> decide

end TsV.C04.Go
