"""C18 — I54/U53 hold exactly the JavaScript-safe integers (lib/src/integer.rs)."""
from common import *

U53_MAX = 9007199254740991
U64 = (0, 2**64 - 1)
I64 = (-2**63, 2**63 - 1)


def values(check):
    radius = 2**12 if check.thorough else 2**7
    centres = {0, U53_MAX, -U53_MAX, U64[1], I64[0], I64[1]}
    for k in range(0, 65):
        centres.add(2**k)
        centres.add(-(2**k))
    vals = set()
    for c in centres:
        for d in range(-radius, radius + 1):
            vals.add(c + d)
    n_rand = 10**6 if check.thorough else 2 * 10**4
    for _ in range(n_rand):
        bits = check.rng.randint(1, 65)
        v = check.rng.getrandbits(bits)
        if check.rng.random() < 0.5:
            v = -v
        vals.add(v)
    return sorted(v for v in vals if -2**64 <= v <= 2**65)


def expected(op, n, extra=None):
    """the property, stated directly (oracle for the implementation's answer)"""
    if op in ("u53try", "u53json"):
        return {"ok": n} if 0 <= n <= U53_MAX else {"err": "range"}
    if op in ("i54try", "i54json"):
        return {"ok": n} if -U53_MAX <= n <= U53_MAX else {"err": "range"}
    if op == "f64":
        return {"ok": n} if abs(n) <= U53_MAX else None     # outside: no claim
    if op == "usizesat":
        return {"ok": n}
    if op == "u53narrow":
        return {"ok": n} if n <= 2**extra - 1 else {"err": "range"}
    if op == "i54narrow":
        return {"ok": n} if -(2**(extra - 1)) <= n <= 2**(extra - 1) - 1 else {"err": "range"}
    if op in ("u53widen", "i54widen"):
        return {"ok": n}
    return None


PROBES = [("tuple constructor", "pub fn p() -> typeshare::U53 { typeshare::U53(u64::MAX) }"),
          ("tuple constructor (I54)", "pub fn p() -> typeshare::I54 { typeshare::I54(i64::MIN) }"),
          ("field write", "pub fn p(mut v: typeshare::U53) -> typeshare::U53 { v.0 += 1; v }"),
          ("field read", "pub fn p(v: typeshare::I54) -> i64 { v.0 }"),
          ("struct literal", "pub fn p() -> typeshare::U53 { typeshare::U53 { 0: 1 << 60 } }"),
          ("pattern", "pub fn p(v: typeshare::U53) -> u64 { let typeshare::U53(x) = v; x }"),
          ("transmute-free const", "pub const BIG: typeshare::U53 = typeshare::U53(u64::MAX);")]
CONTROL = "pub fn p() -> Option<typeshare::U53> { typeshare::U53::try_from(5u64).ok() }"


def encapsulation_part(check):
    """"hold exactly the JavaScript-safe integers" also needs that no value can be *made* outside the checked constructors: code in
    another crate that builds, reads or writes the wrapped integer directly must not compile (a control probe that uses
    `try_from` must)"""
    import fcntl
    with Scratch() as sc:
        sc.write("crate/Cargo.toml", '[package]\nname = "c18probe"\nversion = "0.1.0"\nedition = "2021"\n\n[workspace]\n\n[dependencies]\n'
                 'typeshare = { path = "%s/lib" }\n' % REPO)
        shutil.copyfile(os.path.join(REPO, "Cargo.lock"), sc.path("crate/Cargo.lock"))
        lock = open(os.path.join(BUILD, "cargo-c19.lock"), "w")
        fcntl.flock(lock, fcntl.LOCK_EX)
        try:
            def builds(code):
                sc.write("crate/src/lib.rs", "#![allow(unused)]\n" + code + "\n")
                p = subprocess.run(["cargo", "check", "--offline", "--target-dir", os.path.join(BUILD, "target-c19")], cwd=sc.path("crate"),
                                   env=ENV, stdout=subprocess.PIPE, stderr=subprocess.STDOUT, text=True)
                return p.returncode == 0, p.stdout
            ok, out = builds(CONTROL)
            if not ok:
                raise InfraError("C18 probe crate: the control probe does not build:\n" + out[-2000:])
            for name, code in PROBES:
                ok, out = builds(code)
                check.saw(("encapsulation", name), nontrivial=True)
                check.count("encapsulation-probe")
                if ok:
                    check.violation("a crate outside typeshare can use the %s of U53 / I54: `%s` compiles, so values outside the JavaScript-safe "
                                    "range can be made without passing a range check" % (name, code), case={"probe": code}, impl={"rustc": "accepted"},
                                    failing_input=True)
                    return
        finally:
            lock.close()


def run(check):
    check.rule = ("values within 2^%d of 0, of ±2^k (k≤64), of ±(2^53-1) and of the u64/i64 extremes, "
                  "exhaustively, plus seeded random draws stratified by bit length; every constructor / "
                  "conversion applicable to the value; a case is (operation, value); non-trivial = the "
                  "value lies within 2^13 of an acceptance boundary (0, ±(2^53-1), ±2^53, the narrow-type limits, the u64/i64 extremes)"
                  % (12 if check.thorough else 7))
    vals = values(check)
    mreq, rreq, meta = [], [], []

    def add(op, n, bits=None, m=None):
        if op in ("u53cmp", "i54cmp"):
            mreq.append([S("intcmp"), n, m])
            rreq.append({"op": "int", "f": op, "n": str(n), "m": str(m)})
        elif bits is not None:
            mreq.append([S("int"), S(op), bits, n])
            rreq.append({"op": "int", "f": op, "n": str(n), "bits": bits})
        else:
            mreq.append([S("int"), S(op), n])
            rreq.append({"op": "int", "f": op, "n": str(n)})
        meta.append((op, n, bits, m))

    valid_u, valid_i = [], []
    for n in vals:
        if U64[0] <= n <= U64[1]:
            add("u53try", n)
        if I64[0] <= n <= I64[1]:
            add("i54try", n)
        add("u53json", n)
        add("i54json", n)
        if I64[0] <= n <= U64[1]:
            add("f64", n)
        if 0 <= n <= U53_MAX:
            valid_u.append(n)
            add("usizesat", n)
            for b in (8, 16, 32):
                add("u53narrow", n, b)
                if n <= 2**b - 1:
                    add("u53widen", n, b)
        if -U53_MAX <= n <= U53_MAX:
            valid_i.append(n)
            for b in (8, 16, 32):
                add("i54narrow", n, b)
                if -(2**(b - 1)) <= n <= 2**(b - 1) - 1:
                    add("i54widen", n, b)
    for _ in range(20000 if check.thorough else 2000):
        a, b = check.rng.choice(valid_u), check.rng.choice(valid_u)
        if check.rng.random() < 0.3:
            b = a
        add("u53cmp", a, m=b)
        a, b = check.rng.choice(valid_i), check.rng.choice(valid_i)
        if check.rng.random() < 0.3:
            b = a
        add("i54cmp", a, m=b)

    # mixed comparisons of an in-range value with an *arbitrary* raw u64 / i64 (in particular values outside the range):
    # they must agree with the ordering of the integers; evaluated against the integers directly
    raw_req, raw_meta = [], []
    extremes_u = [0, 1, U53_MAX - 1, U53_MAX, U53_MAX + 1, 2**53, 2**53 + 1, 2**63, U64[1] - 1, U64[1]]
    extremes_i = [I64[0], I64[0] + 1, -2**53 - 1, -2**53, -U53_MAX, -U53_MAX + 1, -1, 0, 1, U53_MAX, 2**53, 2**53 + 1, I64[1] - 1, I64[1]]
    for k in range(4000 if check.thorough else 600):
        a = check.rng.choice(valid_u)
        mm = check.rng.choice(extremes_u) if k % 2 else check.rng.randint(0, U64[1])
        raw_req.append({"op": "int", "f": "u53cmpraw", "n": str(a), "m": str(mm)})
        raw_meta.append(("u53cmpraw", a, mm))
        a = check.rng.choice(valid_i)
        mm = check.rng.choice(extremes_i) if k % 2 else check.rng.randint(I64[0], I64[1])
        raw_req.append({"op": "int", "f": "i54cmpraw", "n": str(a), "m": str(mm)})
        raw_meta.append(("i54cmpraw", a, mm))
    # and the full cross product of the boundary values of the range (0, the default value, among them) with the extremes
    for a in (0, 1, 2, U53_MAX - 1, U53_MAX):
        for mm in extremes_u:
            raw_req.append({"op": "int", "f": "u53cmpraw", "n": str(a), "m": str(mm)})
            raw_meta.append(("u53cmpraw", a, mm))
    for a in (-U53_MAX, -U53_MAX + 1, -1, 0, 1, U53_MAX - 1, U53_MAX):
        for mm in extremes_i:
            raw_req.append({"op": "int", "f": "i54cmpraw", "n": str(a), "m": str(mm)})
            raw_meta.append(("i54cmpraw", a, mm))
    for (op, a, mm), ra in zip(raw_meta, runner(raw_req)):
        check.saw((op, a, mm), nontrivial=not (-U53_MAX <= mm <= U53_MAX))
        check.count(op)
        want = {"ok": [a < mm, a == mm, a > mm, a <= mm, a >= mm]}
        if ra != want:
            check.violation("%s: comparing %d with the raw value %d gives [<, ==, >, <=, >=] = %s, the integers give %s" % (
                "U53" if op.startswith("u") else "I54", a, mm, ra.get("ok"), want["ok"]),
                case={"op": op, "n": a, "m": mm}, impl=ra, model=want, failing_input=True)
            break

    mans = model(mreq, with_unicode=False)
    rans = [norm_int_answer(a) for a in runner(rreq)]
    boundaries = [0, U53_MAX, -U53_MAX, 2**8, 2**16, 2**32, 2**7, 2**15, 2**31, -2**7, -2**15, -2**31, 2**53, -2**53, 2**64, 2**63, -2**63]
    for (op, n, bits, m), ma, ra in zip(meta, mans, rans):
        near = any(abs(n - b) <= 2**13 for b in boundaries)
        check.saw((op, n, bits, m), nontrivial=near)
        check.count(op)
        if len(check.samples) < 8 and near and check.rng.random() < 0.001:
            check.sample({"op": op, "n": n, "bits": bits, "m": m, "model": ma, "impl": ra})
        if ma != ra:
            exp = expected(op, n, bits)
            if op in ("u53cmp", "i54cmp"):
                exp = {"ok": [n < m, n == m, n > m, n == m, n < m]}
            failing = exp is not None and ra != exp
            check.violation("integer.rs disagrees with the model on %s(%s)" % (op, n),
                            case={"op": op, "n": n, "bits": bits, "m": m}, impl=ra, model=ma,
                            failing_input=failing,
                            broken=None if failing else "correspondence C18/%s (theorems TsV.C18.*)" % op)
    if not check.samples:
        check.sample({"op": meta[0][0], "n": meta[0][1], "model": mans[0], "impl": rans[0]})
    check.exhaustive = False
    if not check.has_failing():
        encapsulation_part(check)
    check.assumptions += ["u64/i64 are modelled as Int restricted to their ranges; `as` casts as reduction modulo 2^bits",
                          "serde_json number parsing is exercised through the real crate, modelled as 'needs a u64/i64 first'",
                          "f64 conversion modelled as round-to-nearest-even to 53 significant bits"]
