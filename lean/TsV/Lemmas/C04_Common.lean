import TsV.Model.Lang.Common
import TsV.Lemmas.Outcome
/-!
# C04, generated side: shared definitions and small string facts
-/
namespace TsV.C04
open TsV TsV.Lang

/-- **ground truth**: the field is `Option<_>` or carries bare `serde(default)` -/
def opt (f : RustField) : Bool := f.ty.isOptional || f.hasDefault

/-- the Rust type under one `Option` -/
def stripOption : RustType → RustType
  | .option t => t
  | t => t

theorem isOptional_iff (t : RustType) : t.isOptional = true ↔ ∃ r, t = .option r := by
  cases t <;> simp [RustType.isOptional]

theorem stripOption_of_not_optional (t : RustType) (h : t.isOptional = false) : stripOption t = t := by
  cases t <;> simp_all [RustType.isOptional, stripOption]

theorem isDoubleOptional_iff (t : RustType) :
    t.isDoubleOptional = true ↔ t.isOptional = true ∧ (stripOption t).isOptional = true := by
  cases t with
  | option r => cases r <;> simp [RustType.isDoubleOptional, RustType.isOptional, stripOption]
  | _ => simp [RustType.isDoubleOptional, RustType.isOptional]

/-- no user-configured type mapping is keyed by this `Option<…>` type itself (Display form).
A mapping with such a key replaces the whole optional type by configuration and is outside the
property's quantifier; it only matters for the back ends whose `format_special_type` consults the
type mappings (TypeScript, Go, Python). -/
def NoOptionKey (m : List (Str × Str)) (t : RustType) : Prop :=
  t.isOptional = true → mapGet m t.display = none

/-! ## string suffix / prefix facts -/

def endsWith (s suf : Str) : Bool := suf.isSuffixOf s

theorem endsWith_append (s suf : Str) : endsWith (s ++ suf) suf = true := by
  simp [endsWith]

theorem dropLast_append_singleton (s : Str) (c : Char) : (s ++ [c]).dropLast = s := by
  simp

theorem isPrefixOf_append (p s : Str) : p.isPrefixOf (p ++ s) = true := by
  simp

theorem drop_length_append (p s : Str) : (p ++ s).drop p.length = s := by
  simp

/-- `typeOverride` depends on the decorators only -/
theorem typeOverride_congr (f g : RustField) (l : Lang) (h : f.decorators = g.decorators) :
    typeOverride f l = typeOverride g l := by
  simp [typeOverride, h]

/-- pointwise relation between the fields of a struct and the fact records generated for them -/
inductive Pointwise {α β} (R : α → β → Prop) : List α → List β → Prop
  | nil : Pointwise R [] []
  | cons {a b as bs} : R a b → Pointwise R as bs → Pointwise R (a :: as) (b :: bs)

theorem Pointwise.length_eq {α β} {R : α → β → Prop} {as : List α} {bs : List β}
    (h : Pointwise R as bs) : as.length = bs.length := by
  induction h with
  | nil => rfl
  | cons _ _ ih => simp [ih]

/-- the `i`-th fact record belongs to the `i`-th field -/
theorem Pointwise.get {α β} {R : α → β → Prop} {as : List α} {bs : List β}
    (h : Pointwise R as bs) : ∀ (i : Nat) (ha : i < as.length) (hb : i < bs.length), R as[i] bs[i] := by
  induction h with
  | nil => intro i ha; simp at ha
  | cons hr _ ih =>
    intro i ha hb
    cases i with
    | zero => simpa using hr
    | succ j => simpa using ih j (by simpa using ha) (by simpa using hb)

theorem Pointwise.imp {α β} {R S : α → β → Prop} (hrs : ∀ a b, R a b → S a b) {as : List α} {bs : List β}
    (h : Pointwise R as bs) : Pointwise S as bs := by
  induction h with
  | nil => exact .nil
  | cons hr _ ih => exact .cons (hrs _ _ hr) ih

theorem Pointwise.map_left {α β γ} {R : α → β → Prop} (g : γ → α) {cs : List γ} {bs : List β}
    (h : Pointwise (fun c b => R (g c) b) cs bs) : Pointwise R (cs.map g) bs := by
  induction h with
  | nil => exact .nil
  | cons hr _ ih => exact .cons hr ih

theorem Pointwise.of_map_left {α β γ} {R : α → β → Prop} (g : γ → α) : ∀ {cs : List γ} {bs : List β},
    Pointwise R (cs.map g) bs → Pointwise (fun c b => R (g c) b) cs bs
  | [], [], _ => .nil
  | [], _ :: _, h => by cases h
  | _ :: _, [], h => by cases h
  | _ :: _, _ :: _, h => by
    cases h with
    | cons hr ht => exact .cons hr (Pointwise.of_map_left g ht)

/-- a successful `mapM'` relates inputs and outputs pointwise -/
theorem mapM'_pointwise {α β} (f : α → Outcome β) : ∀ (l : List α) (r : List β),
    Outcome.mapM' f l = .ok r → Pointwise (fun a b => f a = .ok b) l r := by
  intro l
  induction l with
  | nil => intro r h; simp [Outcome.mapM'] at h; subst h; exact .nil
  | cons a t ih =>
    intro r h
    simp only [Outcome.mapM'] at h
    cases hfa : f a with
    | ok b =>
      rw [hfa] at h
      cases ht : Outcome.mapM' f t with
      | ok bs => rw [ht] at h; simp at h; subst h; exact .cons hfa (ih bs ht)
      | err e => rw [ht] at h; simp at h
      | panic s => rw [ht] at h; simp at h
    | err e => rw [hfa] at h; simp at h
    | panic s => rw [hfa] at h; simp at h

/-- `x.bind f = ok b` -/
theorem bind_ok {α β} {x : Outcome α} {f : α → Outcome β} {b : β} (h : x.bind f = .ok b) :
    ∃ a, x = .ok a ∧ f a = .ok b := by
  cases x with
  | ok a => exact ⟨a, rfl, h⟩
  | err e => simp at h
  | panic s => simp at h

end TsV.C04

namespace TsV.C04
open TsV

/-- the last character decides a one-character suffix test -/
theorem endsWith_snoc (x : Str) (c d : Char) : endsWith (x ++ [c]) [d] = (d == c) := by
  simp [endsWith, List.isSuffixOf, List.isPrefixOf]

theorem endsWith_nil_single (d : Char) : endsWith [] [d] = false := by
  simp [endsWith, List.isSuffixOf]

end TsV.C04
