import TsV.Model.Lang.Swift
import TsV.Lemmas.C04_Common
/-!
# C04 for the Swift back end (`write_struct`, swift.rs:341-349 and 376-383)
-/
namespace TsV.C04.Sw
open TsV TsV.Lang TsV.Lang.Swift TsV.C04

/-! ## binding semantics (trusted specification)

Swift's idiom is the optional type `T?`, on the stored property and on the parameter of the
memberwise initialiser.  The printed type is `ty` followed by `?` when the `optional` flag of the
fact record is set. -/

abbrev kQ : Str := s%"?"

def isOptional (ty : Str) (flag : Bool) : Bool := flag || endsWith ty kQ

/-- the type without the marker -/
def stripOptional (ty : Str) (flag : Bool) : Str :=
  if flag then ty else if endsWith ty kQ then ty.dropLast else ty

def propIsOptional (p : StoredProp) : Bool := isOptional p.ty p.optional
def propStripOptional (p : StoredProp) : Str := stripOptional p.ty p.optional
def initIsOptional (p : InitParam) : Bool := isOptional p.ty p.optional
def initStripOptional (p : InitParam) : Str := stripOptional p.ty p.optional

/-! ## `format_type` on `Option` -/

theorem formatType_option (cfg : Cfg) (gens : List Str) (r : RustType) (st : St) :
    formatType cfg gens (.option r) st =
      (formatType cfg gens r st).bind fun (x : Str × St) => .ok (x.1 ++ s%"?", x.2) := by
  rw [formatType]

theorem formatType_option_ok {cfg : Cfg} {gens : List Str} {r : RustType} {st st' : St} {t : Str}
    (h : formatType cfg gens (.option r) st = .ok (t, st')) :
    ∃ s, formatType cfg gens r st = .ok (s, st') ∧ t = s ++ s%"?" := by
  rw [formatType_option] at h
  obtain ⟨⟨s, st1⟩, hs, h⟩ := bind_ok h
  simp only [Outcome.ok.injEq, Prod.mk.injEq] at h
  obtain ⟨h1, h2⟩ := h
  subst h2
  exact ⟨s, hs, h1.symm⟩

/-! ## the translated non-optional type does not itself end in `?` -/

/-- the head identifier of a user type is not translated to text that ends in `?` (Rust
identifiers, prefixes and sensible type mappings never are).  This is the one place where the
property needs a well-formedness assumption: Swift's only marker is a trailing `?`. -/
def HeadNoQ (cfg : Cfg) (gens : List Str) : RustType → Prop
  | .simple id => endsWith (formatSimple cfg gens id) kQ = false
  | .generic id _ => endsWith (formatSimple cfg gens id) kQ = false
  | _ => True

theorem formatSimple_mapped {cfg : Cfg} {gens : List Str} {id m : Str}
    (h : mapGet cfg.typeMappings id = some m) : formatSimple cfg gens id = m := by
  simp [formatSimple, h]

theorem endsWith_append_nonempty (a b : Str) (d : Char) (hb : b ≠ []) :
    endsWith (a ++ b) [d] = endsWith b [d] := by
  have hb' : b = b.dropLast ++ [b.getLast hb] := (List.dropLast_concat_getLast hb).symm
  rw [hb', ← List.append_assoc, endsWith_snoc, endsWith_snoc]

/-- `HeadNoQ` holds whenever the identifier is non-empty, does not end in `?` (true of every Rust
identifier) and is not mapped to text ending in `?` -/
theorem formatSimple_noQ (cfg : Cfg) (gens : List Str) (id : Str)
    (hm : ∀ m, mapGet cfg.typeMappings id = some m → endsWith m kQ = false)
    (hne : id ≠ []) (hid : endsWith id kQ = false) :
    endsWith (formatSimple cfg gens id) kQ = false := by
  unfold formatSimple
  cases h : mapGet cfg.typeMappings id with
  | some m => exact hm m h
  | none =>
    simp only
    split
    · exact hid
    · rw [endsWith_append_nonempty _ _ _ hne]; exact hid

theorem formatType_noQ {cfg : Cfg} {gens : List Str} {t : RustType} {st st' : St} {s : Str}
    (hno : t.isOptional = false) (hh : HeadNoQ cfg gens t)
    (h : formatType cfg gens t st = .ok (s, st')) : endsWith s kQ = false := by
  cases t with
  | simple id =>
    rw [formatType] at h
    simp only [Outcome.ok.injEq, Prod.mk.injEq] at h
    rw [← h.1]; exact hh
  | generic id ps =>
    rw [formatType] at h
    cases hm : mapGet cfg.typeMappings id with
    | some m =>
      rw [hm] at h
      simp only [Outcome.ok.injEq, Prod.mk.injEq] at h
      rw [← h.1, ← formatSimple_mapped (gens := gens) hm]; exact hh
    | none =>
      rw [hm] at h
      simp only at h
      cases hf : formatTypes cfg gens ps st with
      | ok r =>
        obtain ⟨strs, st1⟩ := r
        rw [hf] at h
        simp only [Outcome.ok.injEq, Prod.mk.injEq] at h
        rw [← h.1]
        by_cases he : strs.isEmpty = true
        · simp only [he, if_true, List.append_nil]; exact hh
        · simp only [he, Bool.false_eq_true, if_false, angle]
          have : formatSimple cfg gens id ++ (s%"<" ++ Str.intercalate s%", " strs ++ s%">") =
              (formatSimple cfg gens id ++ s%"<" ++ Str.intercalate s%", " strs) ++ ['>'] := by
            simp [List.append_assoc]
          rw [this, kQ, endsWith_snoc]; decide
      | err e => rw [hf] at h; simp at h
      | panic p => rw [hf] at h; simp at h
  | vec r =>
    rw [formatType] at h
    obtain ⟨⟨x, st1⟩, _, h⟩ := bind_ok h
    simp only [Outcome.ok.injEq, Prod.mk.injEq] at h
    rw [← h.1, kQ, endsWith_snoc]; decide
  | array r n =>
    rw [formatType] at h
    obtain ⟨⟨x, st1⟩, _, h⟩ := bind_ok h
    simp only [Outcome.ok.injEq, Prod.mk.injEq] at h
    rw [← h.1, kQ, endsWith_snoc]; decide
  | slice r =>
    rw [formatType] at h
    obtain ⟨⟨x, st1⟩, _, h⟩ := bind_ok h
    simp only [Outcome.ok.injEq, Prod.mk.injEq] at h
    rw [← h.1, kQ, endsWith_snoc]; decide
  | hashMap k v =>
    rw [formatType] at h
    obtain ⟨⟨ks, st1⟩, _, h⟩ := bind_ok h
    obtain ⟨⟨vs, st2⟩, _, h⟩ := bind_ok h
    simp only [Outcome.ok.injEq, Prod.mk.injEq] at h
    rw [← h.1, kQ, endsWith_snoc]; decide
  | option r => simp [RustType.isOptional] at hno
  | prim p =>
    cases p <;> simp only [formatType, Outcome.ok.injEq, Prod.mk.injEq] at h <;>
      first
        | (rw [← h.1]; decide)
        | (exact absurd h (by simp))

/-! ## one field -/

theorem fieldType_no_override {cfg : Cfg} {gens : List Str} {f : RustField} {st : St}
    (hov : typeOverride f .swift = none) : fieldType cfg gens f st = formatType cfg gens f.ty st := by
  simp [fieldType, hov]

/-- **Swift, one field** (no `swift(type = …)` override), stated for the pair (printed type, flag)
that both the stored property and the initialiser parameter carry: `T?` exactly when the field is
`Option<_>` or has `serde(default)`; without the marker the type is the translation of the
`Option`-stripped type -/
theorem field {cfg : Cfg} {gens : List Str} {f : RustField} {st st' : St} {ty : Str}
    (hov : typeOverride f .swift = none)
    (hq : f.ty.isOptional = false → HeadNoQ cfg gens f.ty)
    (h : fieldType cfg gens f st = .ok (ty, st')) :
    isOptional ty (fieldOptional f) = opt f ∧
    formatType cfg gens (stripOption f.ty) st = .ok (stripOptional ty (fieldOptional f), st') := by
  rw [fieldType_no_override hov] at h
  by_cases ho : f.ty.isOptional = true
  · obtain ⟨r, hr⟩ := (isOptional_iff _).1 ho
    rw [hr] at h
    obtain ⟨s, hs, hts⟩ := formatType_option_ok h
    have hfo : fieldOptional f = false := by simp [fieldOptional, ho]
    subst hts
    have he : endsWith (s ++ s%"?") kQ = true := endsWith_append _ _
    refine ⟨by simp [isOptional, hfo, he, opt, ho], ?_⟩
    simp [stripOptional, hfo, he, hr, stripOption, hs]
  · have ho' : f.ty.isOptional = false := by simpa using ho
    rw [stripOption_of_not_optional _ ho']
    have he := formatType_noQ ho' (hq ho') h
    cases hdef : f.hasDefault with
    | true =>
      have hfo : fieldOptional f = true := by simp [fieldOptional, ho', hdef]
      exact ⟨by simp [isOptional, hfo, opt, hdef], by simpa [stripOptional, hfo] using h⟩
    | false =>
      have hfo : fieldOptional f = false := by simp [fieldOptional, hdef]
      exact ⟨by simp [isOptional, hfo, he, opt, hdef, ho'], by simpa [stripOptional, hfo, he] using h⟩

/-- with a `swift(type = "t")` override the text replaces the translated type including the `?`
that `Option` would have contributed; the `serde(default)` marker is still appended -/
theorem field_override {cfg : Cfg} {gens : List Str} {f : RustField} {st st' : St} {ty t : Str}
    (hov : typeOverride f .swift = some t) (h : fieldType cfg gens f st = .ok (ty, st')) :
    ty = t ∧ isOptional ty (fieldOptional f) = ((f.hasDefault && !f.ty.isOptional) || endsWith t kQ) := by
  simp only [fieldType, hov, Outcome.ok.injEq, Prod.mk.injEq] at h
  refine ⟨h.1.symm, ?_⟩
  simp [isOptional, fieldOptional, h.1]

/-! ## every field of a struct, of a struct variant; payloads; aliases -/

/-- the stored property belongs to the field -/
def PropGen (cfg : Cfg) (gens : List Str) (f : RustField) (p : StoredProp) : Prop :=
  p.optional = fieldOptional f ∧ ∃ st st', fieldType cfg gens f st = .ok (p.ty, st')

/-- the initialiser parameter belongs to the field -/
def InitGen (cfg : Cfg) (gens : List Str) (f : RustField) (p : InitParam) : Prop :=
  p.optional = fieldOptional f ∧ ∃ st st', fieldType cfg gens f st = .ok (p.ty, st')

theorem storedProps_pointwise (cfg : Cfg) (gens : List Str) :
    ∀ (fs : List RustField) (st : St) (ps : List StoredProp) (st' : St),
      storedProps cfg gens fs st = .ok (ps, st') → Pointwise (PropGen cfg gens) fs ps := by
  intro fs
  induction fs with
  | nil => intro st ps st' h; simp [storedProps] at h; rw [h.1]; exact .nil
  | cons f t ih =>
    intro st ps st' h
    simp only [storedProps] at h
    obtain ⟨⟨ty, st1⟩, hty, h⟩ := bind_ok h
    obtain ⟨⟨rest, st2⟩, hrest, h⟩ := bind_ok h
    simp only [Outcome.ok.injEq, Prod.mk.injEq] at h
    rw [← h.1]
    exact .cons ⟨rfl, st, st1, hty⟩ (ih _ _ _ hrest)

theorem initParams_pointwise (cfg : Cfg) (gens : List Str) :
    ∀ (fs : List RustField) (st : St) (ps : List InitParam) (st' : St),
      initParams cfg gens fs st = .ok (ps, st') → Pointwise (InitGen cfg gens) fs ps := by
  intro fs
  induction fs with
  | nil => intro st ps st' h; simp [initParams] at h; rw [h.1]; exact .nil
  | cons f t ih =>
    intro st ps st' h
    simp only [initParams] at h
    obtain ⟨⟨ty, st1⟩, hty, h⟩ := bind_ok h
    obtain ⟨⟨rest, st2⟩, hrest, h⟩ := bind_ok h
    simp only [Outcome.ok.injEq, Prod.mk.injEq] at h
    rw [← h.1]
    exact .cons ⟨rfl, st, st1, hty⟩ (ih _ _ _ hrest)

/-- **every field of every struct** has its stored property and its initialiser parameter -/
theorem struct_fields {U : UnicodeOps} {cfg : Cfg} {rs : RustStruct} {st st' : St} {s : SwiftStruct}
    (h : structFacts U cfg rs st = .ok (s, st')) :
    Pointwise (PropGen cfg rs.genericTypes) rs.fields s.props ∧
    Pointwise (InitGen cfg rs.genericTypes) rs.fields s.initParams := by
  unfold structFacts at h
  obtain ⟨⟨props, st1⟩, hp, h⟩ := bind_ok h
  obtain ⟨⟨params, st2⟩, hi, h⟩ := bind_ok h
  simp only [Outcome.ok.injEq, Prod.mk.injEq] at h
  rw [← h.1]
  exact ⟨storedProps_pointwise _ _ _ _ _ _ hp, initParams_pointwise _ _ _ _ _ _ hi⟩

theorem anonymousStructs_pointwise (U : UnicodeOps) (cfg : Cfg) (e : RustEnum) :
    ∀ (vs : List (Id × List RustField)) (st : St) (ss : List SwiftStruct) (st' : St),
      anonymousStructs U cfg e vs st = .ok (ss, st') →
      Pointwise (fun (v : Id × List RustField) s => ∃ gens,
        Pointwise (PropGen cfg gens) v.2 s.props ∧ Pointwise (InitGen cfg gens) v.2 s.initParams) vs ss := by
  intro vs
  induction vs with
  | nil => intro st ss st' h; simp [anonymousStructs] at h; rw [h.1]; exact .nil
  | cons v t ih =>
    intro st ss st' h
    obtain ⟨id, fields⟩ := v
    simp only [anonymousStructs] at h
    obtain ⟨⟨s, st1⟩, hs, h⟩ := bind_ok h
    obtain ⟨⟨rest, st2⟩, hrest, h⟩ := bind_ok h
    simp only [Outcome.ok.injEq, Prod.mk.injEq] at h
    rw [← h.1]
    exact .cons ⟨_, struct_fields hs⟩ (ih _ _ _ hrest)

/-- **every field of every struct variant**: one struct per struct variant, in order -/
theorem variant_fields {U : UnicodeOps} {cfg : Cfg} {e : RustEnum} {st st' : St}
    {structs : List SwiftStruct} {se : SwiftEnum}
    (h : enumFacts U cfg e st = .ok (structs, se, st')) :
    Pointwise (fun (v : Id × List RustField) s => ∃ gens,
      Pointwise (PropGen cfg gens) v.2 s.props ∧ Pointwise (InitGen cfg gens) v.2 s.initParams)
      (structVariants e) structs := by
  unfold enumFacts at h
  obtain ⟨⟨ss, st1⟩, hss, h⟩ := bind_ok h
  obtain ⟨⟨cases, st2⟩, _, h⟩ := bind_ok h
  simp only [Outcome.ok.injEq, Prod.mk.injEq] at h
  rw [← h.1]
  exact anonymousStructs_pointwise _ _ _ _ _ _ _ hss

/-- a string that ends in `?` is not a Swift keyword, so `swift_keyword_aware_rename` leaves it -/
theorem kw_q (s : Str) : kw (s ++ s%"?") = s ++ s%"?" := by
  have hall : ∀ k ∈ keywords, endsWith k kQ = false := by decide
  have hmem : s ++ s%"?" ∉ keywords := by
    intro hk
    have := hall _ hk
    rw [endsWith_append] at this
    exact absurd this (by simp)
  simp [kw, hmem]

/-- **newtype-variant payload**: printed as the (keyword-escaped) translation of the payload
type, so `Option<T>` gives `T?` (`formatType_option`, `kw_q`); the `optional` flag of the payload
(which selects the `decodeNil` fallback) is `is_optional()` -/
theorem payload {U : UnicodeOps} {cfg : Cfg} {e : RustEnum} {id : Id} {cs : List Str} {ty : RustType} {st st' : St} {c : EnumCase}
    (h : algebraicCase U cfg e (.tuple id cs ty) st = .ok (c, st')) :
    ∃ t, c.payload = some ⟨kw t, ty.isOptional⟩ ∧ formatType cfg e.genericTypes ty st = .ok (t, st') := by
  unfold algebraicCase at h
  simp only at h
  obtain ⟨⟨t, st1⟩, ht, h⟩ := bind_ok h
  simp only [Outcome.ok.injEq, Prod.mk.injEq] at h
  obtain ⟨h1, h2⟩ := h
  subst h1 h2
  exact ⟨t, rfl, ht⟩

/-- **alias**: `public typealias X = <translation of the type>` -/
theorem alias {U : UnicodeOps} {cfg : Cfg} {a : RustTypeAlias} {st st' : St} {text : Str}
    (h : writeAlias U cfg a st = .ok (text, st')) :
    ∃ ty, formatType cfg a.genericTypes a.ty st = .ok (ty, st') ∧
      text = nl ++ comments U 0 a.comments ++ s%"public typealias " ++ kw (cfg.pfx ++ a.id.renamed) ++
        genericSuffix a.genericTypes ++ s%" = " ++ ty ++ nl := by
  unfold writeAlias at h
  obtain ⟨⟨ty, st1⟩, hty, h⟩ := bind_ok h
  simp only [Outcome.ok.injEq, Prod.mk.injEq] at h
  obtain ⟨h1, h2⟩ := h
  subst h2
  exact ⟨ty, hty, h1.symm⟩

end TsV.C04.Sw
