import TsV.Lemmas.C02_Base
import TsV.Model.Lang.Kotlin
/-!
# C02, Kotlin: `@SerialName` of every entry / subclass, the content parameter name
(kotlinx.serialization's class discriminator is not written by typeshare: no tag key is carried)
-/
namespace TsV.C02.Kt
open TsV TsV.Lang TsV.Lang.Kotlin TsV.C02

/-- the content-key holes of one subclass: the name of its single constructor parameter -/
def payloadHoles : KtPayload → List (Role × Str)
  | .object => []
  | .content key _ => [(.content, key)]
  | .inner key _ _ => [(.content, key)]

/-- binding semantics: an `enum class` entry / a subclass of the `sealed class` is the case named
`name`, serialised under its `@SerialName`; a data subclass carries its payload under the name of
its constructor parameter.  Other declarations (the classes generated for struct variants) declare
no enum case. -/
def declWire : KtDecl → EnumWire
  | .enumClass _ _ _ entries => { cases := entries.map fun c => ⟨some c.name, some c.serialName⟩, holes := [] }
  | .sealedClass _ _ _ cases =>
    { cases := cases.map fun c => ⟨some c.name, some c.serialName⟩,
      holes := cases.flatMap fun c => payloadHoles c.payload }
  | _ => { cases := [], holes := [] }

/-- everything the declarations written for one enum say -/
def wire (ds : List KtDecl) : EnumWire :=
  { cases := ds.flatMap fun d => (declWire d).cases, holes := ds.flatMap fun d => (declWire d).holes }

theorem structFacts_wire (cfg : Cfg) (rs : RustStruct) (d : KtDecl) (h : structFacts cfg rs = .ok d) :
    declWire d = { cases := [], holes := [] } := by
  unfold structFacts at h
  split at h
  · simp at h; subst h; rfl
  · obtain ⟨ps, _, h⟩ := (Outcome.bind_eq_ok _ _ _).1 h
    simp at h; subst h; rfl

theorem structsFacts_wire (cfg : Cfg) : ∀ (ss : List RustStruct) (ds : List KtDecl),
    structsFacts cfg ss = .ok ds → ∀ d ∈ ds, declWire d = { cases := [], holes := [] }
  | [], ds, h => by simp [structsFacts] at h; subst h; simp
  | s :: ss, ds, h => by
    simp only [structsFacts] at h
    cases hs : structFacts cfg s with
    | ok d =>
      rw [hs] at h
      simp only [Outcome.bind_ok] at h
      cases hr : structsFacts cfg ss with
      | ok ds' =>
        rw [hr] at h; simp at h; subst h
        intro x hx
        simp only [List.mem_cons] at hx
        rcases hx with rfl | hx
        · exact structFacts_wire cfg s _ hs
        · exact structsFacts_wire cfg ss ds' hr x hx
      | err x => rw [hr] at h; simp at h
      | panic x => rw [hr] at h; simp at h
    | err x => rw [hs] at h; simp at h
    | panic x => rw [hs] at h; simp at h

theorem wire_inners (inners : List KtDecl) (d : KtDecl)
    (h : ∀ x ∈ inners, declWire x = { cases := [], holes := [] }) : wire (inners ++ [d]) = declWire d := by
  have hc : inners.flatMap (fun d => (declWire d).cases) = [] := by
    rw [List.flatMap_eq_nil_iff]; intro x hx; rw [h x hx]
  have hh : inners.flatMap (fun d => (declWire d).holes) = [] := by
    rw [List.flatMap_eq_nil_iff]; intro x hx; rw [h x hx]
  simp [wire, List.flatMap_append, hc, hh]

theorem caseFacts_facts (cfg : Cfg) (e : RustEnum) (ck : Str) (v : RustEnumVariant) (c : KtCase)
    (h : caseFacts cfg e ck v = .ok c) :
    c.serialName = v.id.renamed ∧ c.name = variantName cfg.U v.id.original ∧ ∀ x ∈ payloadHoles c.payload, x = (.content, ck) := by
  cases v with
  | unit id cs => simp [caseFacts] at h; subst h; simp [payloadHoles, RustEnumVariant.id]
  | tuple id cs ty =>
    simp only [caseFacts] at h
    cases hf : formatType cfg e.genericTypes ty with
    | ok t => rw [hf] at h; simp at h; subst h; simp [payloadHoles, RustEnumVariant.id]
    | err x => rw [hf] at h; simp at h
    | panic x => rw [hf] at h; simp at h
  | anonymousStruct id cs fs => simp [caseFacts] at h; subst h; simp [payloadHoles, RustEnumVariant.id]

theorem casesFacts_facts (cfg : Cfg) (e : RustEnum) (ck : Str) : ∀ (vs : List RustEnumVariant) (cs : List KtCase),
    casesFacts cfg e ck vs = .ok cs →
      cs.map (·.serialName) = vs.map (·.id.renamed) ∧ cs.map (·.name) = vs.map (fun v => variantName cfg.U v.id.original) ∧
      ∀ c ∈ cs, ∀ x ∈ payloadHoles c.payload, x = (.content, ck)
  | [], cs, h => by simp [casesFacts] at h; subst h; simp
  | v :: vs, cs, h => by
    simp only [casesFacts] at h
    cases hc : caseFacts cfg e ck v with
    | ok c =>
      rw [hc] at h
      simp only [Outcome.bind_ok] at h
      cases hr : casesFacts cfg e ck vs with
      | ok cs' =>
        rw [hr] at h; simp at h; subst h
        obtain ⟨h1, h2, h3⟩ := caseFacts_facts cfg e ck v c hc
        obtain ⟨i1, i2, i3⟩ := casesFacts_facts cfg e ck vs cs' hr
        refine ⟨by simp [h1, i1], by simp [h2, i2], ?_⟩
        intro x hx
        simp only [List.mem_cons] at hx
        rcases hx with rfl | hx
        · exact h3
        · exact i3 x hx
      | err x => rw [hr] at h; simp at h
      | panic x => rw [hr] at h; simp at h
    | err x => rw [hc] at h; simp at h
    | panic x => rw [hc] at h; simp at h

/-- the class name of a subclass is the UpperCamelCase identifier itself -/
theorem variantName_upperCamel (U : UnicodeOps) (hU : U.AsciiCorrect) (s : Str) (h : C16.UpperCamel s) :
    variantName U s = s := by
  unfold variantName
  rw [toPascal_upperCamel U hU s h]
  obtain ⟨c, rest, rfl, hc⟩ := upperCamel_head s h
  simp [upper_notDigit c hc]

/-- **Kotlin**: whatever `write_enum` emits for an in-scope enum is correct on the wire -/
theorem correct (cfg : Cfg) (hU : cfg.U.AsciiCorrect) (e : RustEnum) (hs : InScopeEnum e) (ds : List KtDecl)
    (h : enumFacts cfg e = .ok ds) : (wire ds).Correct e := by
  unfold enumFacts at h
  cases hi : structsFacts cfg (innerStructs e) with
  | ok inners =>
    rw [hi] at h
    simp only [Outcome.bind_ok] at h
    have hin := structsFacts_wire cfg _ inners hi
    cases hk : e.keys with
    | none =>
      simp only [hk] at h
      simp at h; subst h
      rw [wire_inners inners _ hin]
      refine ⟨?_, ?_, ?_⟩
      · simp [EnumWire.Names, declWire, entryFacts, Function.comp_def]
      · simpa [EnumWire.Distinct, declWire, entryFacts, List.filterMap_map, Function.comp_def] using hs.distinct
      · simp [EnumWire.Keys, hk, declWire]
    | some p =>
      obtain ⟨tag, content⟩ := p
      simp only [hk] at h
      cases hc : casesFacts cfg e content e.variants with
      | ok cases =>
        rw [hc] at h
        simp at h; subst h
        rw [wire_inners inners _ hin]
        obtain ⟨h1, h2, h3⟩ := casesFacts_facts cfg e content e.variants cases hc
        refine ⟨?_, ?_, ?_⟩
        · have := congrArg (List.map some) h1
          simpa [EnumWire.Names, declWire, Function.comp_def] using this
        · have hn : cases.map (·.name) = e.variants.map (·.id.original) := by
            rw [h2]
            apply List.map_congr_left
            intro v hv
            exact variantName_upperCamel cfg.U hU _ (hs.camel v hv)
          have : (cases.map (·.name)).Nodup := by rw [hn]; exact hs.distinct
          simpa [EnumWire.Distinct, declWire, List.filterMap_map, Function.comp_def] using this
        · simp only [EnumWire.Keys, hk, declWire, List.mem_flatMap]
          rintro x ⟨c, hc', hx⟩
          exact Or.inr (h3 c hc' x hx)
      | err x => rw [hc] at h; simp at h
      | panic x => rw [hc] at h; simp at h
  | err x => rw [hi] at h; simp at h
  | panic x => rw [hi] at h; simp at h

end TsV.C02.Kt
