"""C19 — #[typeshare] is transparent to the Rust compiler and to serde (annotation/src/lib.rs)."""
import re
from common import *

NEEDS = ()

OTHER_ATTRS = [(["serde"], '(rename = "x")'), (["serde"], "(skip)"), (["cfg"], '(feature = "f")'), (["doc"], ' = " a doc "'),
               (["allow"], "(dead_code)"), (["serde"], '(default, rename_all = "camelCase")'), (["derive"], "(Debug, Clone)"),
               (["cfg_attr"], '(feature = "x", derive(Debug))'), (["foo", "bar"], "(1 + 2)"), (["typeshare", "typeshare"], "")]
HELPERS = [(["typeshare"], "(skip)"), (["typeshare"], '(serialized_as = "String")'), (["typeshare"], "(typescript(readonly))"),
           (["typeshare"], '(swift = "Equatable")'), (["typeshare"], "(redacted)"), (["typeshare"], ""),
           (["typeshare"], '(kotlin(type = "x"), go(note = "y"))')]
ARGS = ["", "(swift = \"Equatable, Hashable\")", "(redacted)", "(serialized_as = \"String\")", "(kotlin = \"JvmInline\", swift = \"Codable\")"]


def rand_attrs(rng, allow_helpers):
    out = []
    for _ in range(rng.choice([0, 0, 1, 1, 2, 3, 4])):
        if allow_helpers and rng.random() < 0.45:
            out.append(rng.choice(HELPERS))
        else:
            a = rng.choice(OTHER_ATTRS)
            # rustc itself evaluates cfg / cfg_attr on the *item* before any attribute macro runs; keep
            # them to the inner positions, where they reach the macro untouched
            if not allow_helpers and a[0][0] in ("cfg", "cfg_attr"):
                continue
            out.append(a)
    return out


def r_attrs(attrs):
    return "".join("#[%s%s] " % ("::".join(p), t) for p, t in attrs)


def gen_item(rng, idx):
    """abstract item (the Lean AItem shape) + how to render it"""
    kind = rng.choice(["struct", "struct", "tuple", "unit", "enum", "enum", "union", "alias", "const", "fn"])
    name = "T%d" % idx
    gens = rng.choice(["", "", "<T>", "<'a, T: Clone>", "<const N: usize>"])
    where = rng.choice(["", "", " where T: Copy"]) if "T" in gens else ""
    vis = rng.choice(["pub ", "", "pub(crate) "])
    attrs = rand_attrs(rng, allow_helpers=False)
    if kind in ("struct", "tuple", "unit", "union"):
        n = 0 if kind == "unit" else rng.randint(1, 4)
        fields = []
        for i in range(n):
            fa = rand_attrs(rng, True)
            ty = rng.choice(["u8", "Vec<T>" if "T" in gens else "Vec<u8>", "Option<String>", "&'a str" if "'a" in gens else "String", "[u8; 4]"])
            rest = ("%s%s" % (rng.choice(["pub ", ""]), ty)) if kind == "tuple" else "%sf%d: %s" % (rng.choice(["pub ", ""]), i, ty)
            fields.append({"attrs": fa, "rest": rest})
        kw = "union" if kind == "union" else "struct"
        return {"kind": "union" if kind == "union" else "struct", "style": kind, "attrs": attrs,
                "head": "%s%s %s%s" % (vis, kw, name, gens), "where": where, "fields": fields}
    if kind == "enum":
        variants = []
        for i in range(rng.randint(0, 4)):
            va = rand_attrs(rng, True)
            style = rng.choice(["unit", "unit", "tuple", "struct"])
            fs = []
            for j in range(0 if style == "unit" else rng.randint(0, 3)):
                fa = rand_attrs(rng, True)
                ty = rng.choice(["u8", "String", "Box<Self>", "Option<u32>"])
                fs.append({"attrs": fa, "rest": ty if style == "tuple" else "g%d: %s" % (j, ty)})
            disc = " = %d" % i if style == "unit" and rng.random() < 0.2 else ""
            variants.append({"attrs": va, "name": "V%d" % i, "style": style, "fields": fs, "rest": disc})
        return {"kind": "enum", "attrs": attrs, "head": "%senum %s%s" % (vis, name, gens), "where": where, "variants": variants}
    if kind == "alias":
        return {"kind": "other", "attrs": attrs, "tokens": "%stype %s%s = Vec<u8>;" % (vis, name, "<T>" if gens == "<T>" else "")}
    if kind == "const":
        return {"kind": "other", "attrs": attrs, "tokens": "%sconst C%d: u32 = %d;" % (vis, idx, idx)}
    return {"kind": "other", "attrs": attrs, "tokens": "%sfn f%d(#[typeshare(skip)] x: u8) -> u8 { #[typeshare] struct Inner; x }" % (vis, idx)}


def render(it, attrs_of=lambda x: x["attrs"]):
    """Rust source of the item; `attrs_of` selects the attribute lists (source item or model result)"""
    a = r_attrs(it["attrs"])
    if it["kind"] == "other":
        return a + it["tokens"]
    if it["kind"] in ("struct", "union"):
        fs = ", ".join(r_attrs(attrs_of(f)) + f["rest"] for f in it["fields"])
        if it["style"] == "unit":
            return a + it["head"] + it["where"] + ";"
        if it["style"] == "tuple":
            return a + it["head"] + "(" + fs + ")" + it["where"] + ";"
        return a + it["head"] + it["where"] + " { " + fs + " }"
    vs = []
    for v in it["variants"]:
        fs = ", ".join(r_attrs(attrs_of(f)) + f["rest"] for f in v["fields"])
        body = "" if v["style"] == "unit" else "(" + fs + ")" if v["style"] == "tuple" else " { " + fs + " }"
        vs.append(r_attrs(attrs_of(v)) + v["name"] + body + v["rest"])
    return a + it["head"] + it["where"] + " { " + ", ".join(vs) + " }"


def sx_attrs(attrs):
    return [[list(p), t] for p, t in attrs]


def sx_item(it):
    if it["kind"] == "other":
        return [S("other"), r_attrs(it["attrs"]) + it["tokens"]]
    if it["kind"] in ("struct", "union"):
        return [S(it["kind"]), sx_attrs(it["attrs"]), it["head"], [[sx_attrs(f["attrs"]), f["rest"]] for f in it["fields"]]]
    return [S("enum"), sx_attrs(it["attrs"]), it["head"],
            [[sx_attrs(v["attrs"]), v["name"], [[sx_attrs(f["attrs"]), f["rest"]] for f in v["fields"]], v["rest"]] for v in it["variants"]]]


def apply_model(it, ans):
    """the item with the attribute lists the model's `expand` returned"""
    out = json.loads(json.dumps(it))
    m = ans["ok"]
    if it["kind"] == "other":
        return out
    if it["kind"] in ("struct", "union"):
        for f, mf in zip(out["fields"], m["fields"]):
            f["attrs"] = [(p, t) for p, t in mf["attrs"]]
    else:
        for v, mv in zip(out["variants"], m["variants"]):
            v["attrs"] = [(p, t) for p, t in mv["attrs"]]
            for f, mf in zip(v["fields"], mv["fields"]):
                f["attrs"] = [(p, t) for p, t in mf["attrs"]]
    return out


def squeeze(s):
    return re.sub(r"\s+", "", s)


def run(check):
    rng = check.rng
    n = 6000 if check.thorough else 800
    check.rule = ("generated structs (named/tuple/unit), enums (unit/tuple/struct variants, discriminants), unions, type aliases, "
                  "consts and fns with generics, lifetimes, where-clauses and arbitrary mixes of serde/derive/cfg/doc/unknown "
                  "attributes and typeshare(...) helper attributes on fields, variants, variant fields and union fields; each is "
                  "expanded by the real #[typeshare] macro inside rustc and the tokens rustc hands on (captured by a second "
                  "attribute macro) are compared with the Lean model's expansion; non-trivial = the item carries at least one "
                  "helper attribute")
    items = [gen_item(rng, i) for i in range(n)]
    answers = model([[S("expand"), sx_item(it)] for it in items], with_unicode=False)
    with Scratch() as sc:
        dump = sc.path("dump.txt")
        src = []
        for i, it in enumerate(items):
            src.append("#[typeshare_annotation::typeshare%s] #[attrdump::dump(\"%d\")] %s\n" % (rng.choice(ARGS), i, render(it)))
        sc.write("crate/src/lib.rs", "#![allow(unused)]\n" + "".join(src))
        sc.write("crate/Cargo.toml", '[package]\nname = "c19probe"\nversion = "0.1.0"\nedition = "2021"\n\n[workspace]\n\n[dependencies]\n'
                 'typeshare-annotation = { path = "%s/annotation" }\nattrdump = { path = "%s/harness/attrdump" }\n' % (REPO, VERIF))
        shutil.copyfile(os.path.join(REPO, "Cargo.lock"), sc.path("crate/Cargo.lock"))
        env = dict(ENV, ATTRDUMP_OUT=dump)
        lock = open(os.path.join(BUILD, "cargo-c19.lock"), "w")
        fcntl.flock(lock, fcntl.LOCK_EX)
        p = subprocess.run(["cargo", "build", "--offline", "--target-dir", os.path.join(BUILD, "target-c19")], cwd=sc.path("crate"),
                           env=env, stdout=subprocess.PIPE, stderr=subprocess.STDOUT, text=True)
        if p.returncode != 0 or not os.path.exists(dump):
            # every item is swallowed by `attrdump::dump`, so the crate compiles unless the #[typeshare] macro itself emits an error
            # (or panics).  Cross-check: the same crate without the #[typeshare] attributes must build; then this is a violation
            plain = re.sub(r"#\[typeshare_annotation::typeshare(\([^\n]*?\))?\] #\[attrdump", "#[attrdump", "#![allow(unused)]\n" + "".join(src))
            sc.write("crate/src/lib.rs", plain)
            p2 = subprocess.run(["cargo", "build", "--offline", "--target-dir", os.path.join(BUILD, "target-c19")], cwd=sc.path("crate"),
                                env=env, stdout=subprocess.PIPE, stderr=subprocess.STDOUT, text=True)
            lock.close()
            if p2.returncode != 0:
                raise InfraError("C19 probe crate does not build even without #[typeshare]:\n" + p2.stdout[-3000:])
            errs = [l for l in p.stdout.split("\n") if l.startswith("error")][:4]
            where = re.findall(r"--> src/lib.rs:(\d+):", p.stdout)
            bad_src = src[int(where[0]) - 2] if where and 0 <= int(where[0]) - 2 < len(src) else None
            check.saw(("probe-build", "failed"), nontrivial=True)
            check.violation("the program with #[typeshare] does not compile although the same items without it do: %s" % "; ".join(errs),
                            case={"source": bad_src or "".join(src)[:4000]}, impl={"rustc": p.stdout[-3000:]}, failing_input=True)
            return
        lock.close()
        got = {}
        for line in open(dump, encoding="utf-8"):
            k, _, v = line.rstrip("\n").partition("\t")
            got[int(k)] = v
    for i, (it, ans) in enumerate(zip(items, answers)):
        helpers = sum(1 for p, t in all_attrs(it) if p == ["typeshare"])
        check.saw(render(it), nontrivial=helpers > 0)
        check.count(it["kind"] + ("+helpers" if helpers else ""))
        expected_model = squeeze(render(apply_model(it, ans)))
        impl = squeeze(got.get(i, "<missing>"))
        if len(check.samples) < 4 and helpers >= 2:
            check.sample({"source": render(it), "macro_output": got.get(i), "model_expansion": render(apply_model(it, ans))})
        if impl != expected_model:
            # the property itself on the implementation: exactly the helper attributes removed, nothing else
            twin = json.loads(json.dumps(it))
            strip(twin)
            failing = impl != squeeze(render(twin))
            check.violation("the #[typeshare] macro's output differs from the model's expansion" +
                            (": it is not the item with exactly the typeshare helper attributes removed" if failing else ""),
                            case={"source": render(it)}, impl=got.get(i), model=render(apply_model(it, ans)),
                            failing_input=failing, broken=None if failing else "correspondence annotation macro (theorems TsV.C19.*)")
            break
    twin_part(check)
    if not check.has_failing():
        stacked_part(check)
    check.assumptions += ["rustc and derive macros are functions of the token stream they receive: syntactic identity of the expansion with the stripped twin implies identical compilation and serialisation behaviour for items written directly in source (trusted, not proved); for macro_rules!-generated items the text of the token stream is not everything (hygiene of `$crate`, spans, the origin of None-delimited fragment groups): those are not modelled and are covered only by the twin programs compiled and run by this check (nine fragment/hygiene scenarios per round, helpers and arguments randomised)",
                          "token streams are compared modulo white-space"]


# ----------------------------------------------------------------------------- twin programs through macro_rules!
# Items a user's (exported or local) macro_rules! macro generates: the tokens reach #[typeshare] with the macro's
# hygiene (`$crate`), with None-delimited fragment groups ($ty, $expr, $vis, $meta) and with macro-site spans.  The text
# comparison above cannot see any of that, so these programs are compiled twice and run.
TWIN_HELPERS = ["#[typeshare(skip)]", '#[typeshare(serialized_as = "String")]', "#[typeshare(typescript(readonly))]", ""]

TWIN_SCENARIOS = [
    # (name, macro parameters, body with @TS@ / @H@ markers, invocation arguments, probe expressions over module M)
    ("dollar-crate-struct", "($name:ident)",
     "@TS@ #[derive(serde::Serialize, Default)] pub struct $name { @H@ pub inner: $crate::Inner, @H@ pub deep: $crate::deep::Inner, pub n: u8 }",
     "S", ["serde_json::to_string(&M::S::default()).unwrap()", "std::mem::size_of::<M::S>().to_string()"]),
    ("dollar-crate-enum", "($name:ident)",
     '@TS@ #[derive(serde::Serialize, Default)] #[serde(tag = "t", content = "c")] pub enum $name { #[default] @H@ A, @H@ B($crate::Inner), '
     "C { @H@ x: $crate::deep::Inner, y: Option<$crate::Inner> } }",
     "S", ["serde_json::to_string(&[M::S::default(), M::S::B(Default::default()), M::S::C { x: Default::default(), y: None }]).unwrap()"]),
    ("dollar-crate-union", "($name:ident)",
     "@TS@ #[repr(C)] pub union $name { @H@ pub a: $crate::Inner, @H@ pub b: u32 }",
     "S", ["std::mem::size_of::<M::S>().to_string()", "unsafe { M::S { b: 7 }.b }.to_string()"]),
    ("dollar-crate-alias-const", "($name:ident)",
     "@TS@ pub type $name = $crate::deep::Inner; @TS@ pub const LIMIT: $crate::Inner = $crate::Inner(9);",
     "S", ["serde_json::to_string(&M::S::default()).unwrap()", "M::LIMIT.0.to_string()"]),
    ("ty-vis-meta-fragments", "($(#[$m:meta])* $vis:vis $name:ident : $ty:ty)",
     "@TS@ $(#[$m])* #[derive(Default)] pub struct $name { @H@ $vis first_field: $ty, @H@ pub second_field: Vec<$ty> }",
     '#[derive(serde::Serialize)] #[serde(rename_all = "UPPERCASE")] pub(crate) S : Option<u8>',
     ["serde_json::to_string(&M::S::default()).unwrap()", "std::mem::size_of::<M::S>().to_string()"]),
    ("expr-fragment-array", "($name:ident, $n:expr)",
     "@TS@ #[derive(serde::Serialize, Default)] pub struct $name { @H@ pub bytes: [u8; $n], pub tail: u8 }",
     "S, 1 + 2", ["serde_json::to_string(&M::S::default()).unwrap()", "std::mem::size_of::<M::S>().to_string()"]),
    ("expr-fragment-precedence", "($name:ident, $n:expr)",
     "@TS@ #[derive(serde::Serialize, Default)] pub struct $name { @H@ pub bytes: [u8; $n * 2], pub tail: u8 }",
     "S, 1 + 2", ["serde_json::to_string(&M::S::default()).unwrap()", "std::mem::size_of::<M::S>().to_string()"]),
    ("literal-discriminant", "($name:ident, $d:literal)",
     "@TS@ #[derive(serde::Serialize, Clone, Copy)] #[repr(u8)] pub enum $name { @H@ A = $d, @H@ B }",
     "S, 41", ["(M::S::B as u8).to_string()", "serde_json::to_string(&M::S::A).unwrap()"]),
    ("lifetime-generics", "($name:ident, $lt:lifetime, $g:ident)",
     "@TS@ #[derive(serde::Serialize, Default)] pub struct $name<$lt, $g: Default> where $g: Clone { @H@ pub s: &$lt str, @H@ pub t: $g, "
     "pub i: $crate::Inner }",
     "S, 'x, G", ["serde_json::to_string(&M::S::<'static, u16>::default()).unwrap()"]),
    ("nested-module-macro", "($name:ident)",
     "@TS@ #[derive(serde::Serialize, Default)] pub struct $name(@H@ pub $crate::deep::Inner, @H@ pub $crate::Inner);",
     "S", ["serde_json::to_string(&M::S::default()).unwrap()"]),
]

TWIN_LIB = """#![allow(unused)]
#[derive(serde::Serialize, Default, Debug, Clone, Copy, PartialEq)]
pub struct Inner(pub u8);
pub mod deep {
    #[derive(serde::Serialize, Default, Debug, Clone, Copy, PartialEq)]
    pub struct Inner { pub v: u8 }
}
"""


def twin_part(check):
    rng = check.rng
    rounds = 4 if check.thorough else 1
    for rnd in range(rounds):
        lib, main_mods, probes, feats = [TWIN_LIB], [], [], []
        chosen = []
        for k, (sname, params, body, inv, exprs) in enumerate(TWIN_SCENARIOS):
            exported = rng.random() < 0.5       # macro exported by the library crate / local to the binary crate
            ts = "#[typeshare::typeshare%s]" % rng.choice(ARGS)
            annotated = body.replace("@TS@", ts)
            while "@H@" in annotated:
                annotated = annotated.replace("@H@", rng.choice(TWIN_HELPERS), 1)
            plain = body.replace("@TS@", "").replace("@H@", "")
            chosen.append({"scenario": sname, "exported": exported, "annotated_macro_body": annotated, "invocation": inv})
            for flavour, text in (("plain", plain), ("annot", annotated)):
                mac = "macro_rules! gen_%d_%s { (%s) => { %s }; }\n" % (k, flavour, params[1:-1], text)
                if exported:
                    lib.append("#[macro_export]\n" + mac)
                    call = "c19twin::gen_%d_%s!(%s);" % (k, flavour, inv)
                else:
                    # a binary-local macro: `$crate` is the binary crate, which re-exports the library's items
                    main_mods.append(mac)
                    call = "gen_%d_%s!(%s);" % (k, flavour, inv)
                gate = '#[cfg(feature = "annot_%d")] ' % k if flavour == "annot" else ""
                main_mods.append("%spub mod %s_%d { use super::*; %s }\n" % (gate, flavour, k, call))
            for j, e in enumerate(exprs):
                probes.append('    println!("%d.%d plain {}", %s);\n' % (k, j, e.replace("M::", "plain_%d::" % k)))
                probes.append('    #[cfg(feature = "annot_%d")] println!("%d.%d annot {}", %s);\n' % (k, k, j, e.replace("M::", "annot_%d::" % k)))
            feats.append("annot_%d" % k)
        main = ("#![allow(unused)]\npub use c19twin::{deep, Inner};\n" + "".join(main_mods) + "fn main() {\n" + "".join(probes) + "}\n")
        with Scratch() as sc:
            sc.write("crate/src/lib.rs", "".join(lib))
            sc.write("crate/src/main.rs", main)
            sc.write("crate/Cargo.toml", '[package]\nname = "c19twin"\nversion = "0.1.0"\nedition = "2021"\n\n[workspace]\n\n[features]\n'
                     + "".join("%s = []\n" % f for f in feats) + "annot = [%s]\n" % ", ".join('"%s"' % f for f in feats)
                     + '\n[dependencies]\ntypeshare = { path = "%s/lib" }\nserde = { version = "1", features = ["derive"] }\nserde_json = "1"\n' % REPO)
            shutil.copyfile(os.path.join(REPO, "Cargo.lock"), sc.path("crate/Cargo.lock"))
            lock = open(os.path.join(BUILD, "cargo-c19.lock"), "w")
            fcntl.flock(lock, fcntl.LOCK_EX)

            def build_run(features):
                p = subprocess.run(["cargo", "run", "-q", "--offline", "--target-dir", os.path.join(BUILD, "target-c19")] +
                                   (["--features", ",".join(features)] if features else []), cwd=sc.path("crate"), env=ENV,
                                   stdout=subprocess.PIPE, stderr=subprocess.PIPE, text=True)
                return p
            try:
                p0 = build_run([])
                if p0.returncode != 0:
                    raise InfraError("C19 twin crate: the un-annotated programs do not build:\n" + p0.stderr[-3000:])
                p1 = build_run(["annot"])
                outs = {}
                if p1.returncode != 0:
                    # which scenario stops compiling?
                    for k, f in enumerate(feats):
                        pk = build_run([f])
                        check.count("twin-bisect")
                        if pk.returncode != 0:
                            check.saw(("twin", rnd, k), nontrivial=True)
                            errs = [l for l in pk.stderr.split("\n") if l.startswith("error")][:3]
                            check.violation("macro_rules!-generated item (%s, %s macro): the program with #[typeshare] does not compile "
                                            "although its un-annotated twin does: %s" % (chosen[k]["scenario"], "exported" if chosen[k]["exported"]
                                                                                          else "local", "; ".join(errs)),
                                            case=chosen[k], impl={"rustc": pk.stderr[-2500:]}, failing_input=True)
                            return
                    # each annotated item compiles on its own, the annotated program as a whole does not (the un-annotated one does):
                    # the macro makes the items depend on each other
                    errs = [l for l in p1.stderr.split("\n") if l.startswith("error")][:3]
                    check.saw(("twin-whole", rnd), nontrivial=True)
                    check.violation("the program whose macro_rules!-generated items carry #[typeshare] does not compile although every item "
                                    "compiles alone and the un-annotated program compiles: %s" % "; ".join(errs),
                                    case={"scenarios": chosen, "main.rs": main}, impl={"rustc": p1.stderr[-2500:]}, failing_input=True)
                    return
                lines = {}
                for l in p1.stdout.split("\n"):
                    m = re.match(r"(\d+)\.(\d+) (plain|annot) (.*)$", l)
                    if m:
                        lines[(int(m.group(1)), int(m.group(2)), m.group(3))] = m.group(4)
            finally:
                lock.close()
        for k, (sname, params, body, inv, exprs) in enumerate(TWIN_SCENARIOS):
            check.saw(("twin", chosen[k]["annotated_macro_body"], chosen[k]["exported"]), nontrivial=True)
            check.count("twin-" + sname)
            for j in range(len(exprs)):
                a, b = lines.get((k, j, "plain")), lines.get((k, j, "annot"))
                if a is None or b is None:
                    raise InfraError("C19 twin crate: missing probe output %d.%d" % (k, j))
                if a != b and sname == "expr-fragment-precedence" and check.known(
                        "macro-expr-fragment-regrouped", "`[u8; $n * 2]` with $n = `1 + 2`: annotated %s, twin %s" % (b, a)):
                    continue
                if a != b:
                    check.violation("macro_rules!-generated item (%s): the annotated type behaves differently from its un-annotated twin: "
                                    "`%s` gives %s, the twin %s" % (sname, exprs[j], b, a), case=chosen[k], impl={"annotated": b, "twin": a},
                                    failing_input=True)
                    return


def all_attrs(it):
    if it["kind"] == "other":
        return []
    if it["kind"] in ("struct", "union"):
        return [a for f in it["fields"] for a in f["attrs"]]
    return [a for v in it["variants"] for a in v["attrs"]] + [a for v in it["variants"] for f in v["fields"] for a in f["attrs"]]


def strip(it):
    keep = lambda attrs: [(p, t) for p, t in attrs if p != ["typeshare"]]
    if it["kind"] in ("struct", "union"):
        for f in it["fields"]:
            f["attrs"] = keep(f["attrs"])
    elif it["kind"] == "enum":
        for v in it["variants"]:
            v["attrs"] = keep(v["attrs"])
            for f in v["fields"]:
                f["attrs"] = keep(f["attrs"])


# ----------------------------------------------------------------------------- stacked item-level #[typeshare(..)] lines
# typeshare documents several item-level argument forms (swift / kotlin decorators, `serialized_as`, `redacted`) and users
# write them as separate lines stacked on the item, anywhere between its derive / serde / repr / doc / cfg_attr lines.  The
# first of them (in source order, after rustc evaluated `cfg_attr`) invokes the macro with all the others still on the item.

def L(path, tokens="", cfg=None):
    """one item-level attribute line; cfg = None | "all()" | "any()" wraps it in #[cfg_attr(<cfg>, ..)]"""
    return {"path": path.split("::"), "tokens": tokens, "cfg": cfg}


def line_src(l):
    inner = "::".join(l["path"]) + l["tokens"]
    return "#[cfg_attr(%s, %s)] " % (l["cfg"], inner) if l["cfg"] else "#[%s] " % inner


def line_is_ts(l):
    return l["path"][0] == "typeshare"


def line_live(l):
    return l["cfg"] != "any()"


STACK_TS = [L("typeshare", '(swift = "Equatable")'), L("typeshare", '(swift = "Equatable, Hashable")'), L("typeshare", '(kotlin = "JvmInline")'),
            L("typeshare", '(kotlin = "Serializable", swift = "Codable")'), L("typeshare", '(serialized_as = "String")'),
            L("typeshare", "(redacted)"), L("typeshare"), L("typeshare", '(swift = "Equatable")'), L("typeshare", '(kotlin = "JvmInline")'),
            L("typeshare::typeshare", '(swift = "Sendable")'), L("typeshare", '(kotlin = "Parcelize")', cfg="all()"),
            L("typeshare", '(swift = "Never")', cfg="any()")]
STACK_NEUTRAL = [L("doc", ' = " a doc line "'), L("allow", "(dead_code)"), L("must_use"), L("allow", "(non_camel_case_types)"),
                 L("doc", ' = " another doc line "'), L("serde", '(rename_all = "UPPERCASE")', cfg="any()"),
                 L("derive", "(NoSuchDerive)", cfg="any()")]
STACK_FIELD_ATTRS = [(["typeshare"], "(skip)"), (["typeshare"], '(serialized_as = "String")'), (["typeshare"], "(typescript(readonly))"),
                     (["typeshare"], '(kotlin(type = "x"), go(note = "y"))'), (["doc"], ' = " field doc "'), (["allow"], "(dead_code)")]


def stk_attrs(rng, extra=()):
    out = []
    for _ in range(rng.choice([0, 0, 1, 1, 2, 3])):
        a = rng.choice(STACK_FIELD_ATTRS + list(extra))
        if a[0] != ["serde"] or a not in out:        # serde rejects a repeated argument
            out.append(a)
    return out


def stk_field(rng, rest, extra=()):
    return {"attrs": stk_attrs(rng, extra), "rest": rest}


def stk_variant(rng, name, style, fields, rest="", lead=()):
    va = stk_attrs(rng, [(["serde"], '(rename = "renamed%s")' % name)])
    return {"attrs": list(lead) + va, "name": name, "style": style, "fields": fields, "rest": rest}


def one_of(rng, *groups):
    """serde container arguments: from each group (alternatives that exclude each other) at most one"""
    return [rng.choice(g) for g in groups if rng.random() < 0.7]


def stk_shape(rng):
    """one item: (shape name, kind/style/head/fields-or-variants in the generator's item format, derive names, serde container
    arguments, repr arguments, probe expressions over module M)"""
    shape = rng.choice(["struct", "struct", "enum-adjacent", "enum-adjacent", "enum-internal", "enum-repr", "union", "newtype", "generic"])
    ren = (["serde"], '(rename = "otherName")')
    if shape == "struct":
        it = {"kind": "struct", "style": "struct", "head": "pub struct S", "where": "",
              "fields": [stk_field(rng, "pub first_name: String", [ren]), stk_field(rng, "pub last_seen: u64"),
                         stk_field(rng, "is_ok: Option<u8>", [(["serde"], '(skip_serializing_if = "Option::is_none")')])]}
        derives = ["serde::Serialize", "serde::Deserialize", "Default", "Debug"]
        serde = one_of(rng, ['rename_all = "camelCase"', 'rename_all = "SCREAMING-KEBAB-CASE"', 'rename_all = "PascalCase"'],
                       ["deny_unknown_fields"], ["default"], ['tag = "kind"'], ['rename = "Renamed"'])
        reprs = ["C", "C, align(16)", "Rust"]
        probes = ["serde_json::to_string(&M::S::default()).unwrap()",
                  'format!("{:?}", serde_json::from_str::<M::S>(r#"{"first_name":"a","last_seen":3,"is_ok":null,"extra":1}"#))',
                  'format!("{:?}", serde_json::from_str::<M::S>(r#"{"firstName":"a","LAST-SEEN":4}"#))',
                  "std::mem::size_of::<M::S>().to_string()", "std::mem::align_of::<M::S>().to_string()"]
    elif shape == "enum-adjacent":
        it = {"kind": "enum", "head": "pub enum S", "where": "", "variants": [
            stk_variant(rng, "UnitCase", "unit", [], lead=[(["default"], "")]),
            stk_variant(rng, "NewType", "tuple", [stk_field(rng, "u32")]),
            stk_variant(rng, "PairOf", "tuple", [stk_field(rng, "u8"), stk_field(rng, "String")]),
            stk_variant(rng, "RecOf", "struct", [stk_field(rng, "some_x: u8", [ren]), stk_field(rng, "y: Option<u8>")])]}
        derives = ["serde::Serialize", "serde::Deserialize", "Default", "Debug"]
        serde = one_of(rng, ['tag = "type", content = "content"', 'tag = "t", content = "c"', "untagged"],
                       ['rename_all = "snake_case"', 'rename_all = "UPPERCASE"'], ['rename_all_fields = "camelCase"'])
        reprs = ["C", "u8", "C, u8"]
        probes = ['serde_json::to_string(&[M::S::default(), M::S::NewType(1), M::S::PairOf(2, "p".into()), M::S::RecOf { some_x: 3, y: None }]).unwrap()',
                  'format!("{:?}", serde_json::from_str::<M::S>(r#"{"type":"NewType","content":5}"#))',
                  'format!("{:?}", serde_json::from_str::<M::S>(r#"{"RecOf":{"some_x":1,"y":2}}"#))',
                  "std::mem::size_of::<M::S>().to_string()"]
    elif shape == "enum-internal":
        it = {"kind": "enum", "head": "pub enum S", "where": "", "variants": [
            stk_variant(rng, "UnitCase", "unit", [], lead=[(["default"], "")]),
            stk_variant(rng, "RecOf", "struct", [stk_field(rng, "some_x: u8", [ren]), stk_field(rng, "y: Option<u8>")]),
            stk_variant(rng, "Empty", "struct", [])]}
        derives = ["serde::Serialize", "Default", "Debug", "Clone"]
        serde = one_of(rng, ['tag = "t"', 'tag = "kind"'], ['rename_all = "kebab-case"', 'rename_all = "lowercase"'],
                       ['rename_all_fields = "SCREAMING_SNAKE_CASE"'])
        reprs = ["C", "i8"]
        probes = ["serde_json::to_string(&[M::S::default(), M::S::RecOf { some_x: 3, y: Some(1) }, M::S::Empty {}]).unwrap()",
                  "std::mem::size_of::<M::S>().to_string()"]
    elif shape == "enum-repr":
        it = {"kind": "enum", "head": "pub enum S", "where": "", "variants": [
            stk_variant(rng, "A", "unit", [], rest=" = 3"), stk_variant(rng, "B", "unit", []), stk_variant(rng, "C", "unit", [], rest=" = 40")]}
        derives = ["serde::Serialize", "Clone", "Copy", "Debug", "PartialEq"]
        serde = one_of(rng, ['rename_all = "lowercase"', 'rename_all = "SCREAMING_SNAKE_CASE"'])
        reprs = ["u8", "i16", "u64", "C"]
        probes = ["(M::S::B as i64).to_string()", "std::mem::size_of::<M::S>().to_string()",
                  "serde_json::to_string(&[M::S::A, M::S::B, M::S::C]).unwrap()"]
    elif shape == "union":
        it = {"kind": "union", "style": "union", "head": "pub union S", "where": "",
              "fields": [stk_field(rng, "pub a: u64"), stk_field(rng, "pub b: [u8; 3]")]}
        derives = ["Clone", "Copy"]
        serde = []
        reprs = ["C", "C, align(32)", "C, packed"]
        probes = ["std::mem::size_of::<M::S>().to_string()", "std::mem::align_of::<M::S>().to_string()",
                  "unsafe { M::S { a: 0x0102 }.b[0] }.to_string()"]
    elif shape == "newtype":
        it = {"kind": "struct", "style": "tuple", "head": "pub struct S", "where": "", "fields": [stk_field(rng, "pub u32")]}
        derives = ["serde::Serialize", "serde::Deserialize", "Default", "Debug", "PartialEq"]
        serde = one_of(rng, ["transparent"])
        reprs = ["transparent", "C"]
        probes = ["serde_json::to_string(&M::S::default()).unwrap()", 'format!("{:?}", serde_json::from_str::<M::S>("[7]"))',
                  "std::mem::size_of::<M::S>().to_string()"]
    else:
        it = {"kind": "struct", "style": "struct", "head": "pub struct S<'a, T: Default>", "where": " where T: Clone",
              "fields": [stk_field(rng, "pub the_item: T", [ren]), stk_field(rng, "pub the_list: Vec<T>"), stk_field(rng, "pub the_str: &'a str")]}
        derives = ["serde::Serialize", "Default", "Debug"]
        serde = one_of(rng, ['rename_all = "camelCase"', 'rename_all = "SCREAMING_SNAKE_CASE"'], ['bound = "T: serde::Serialize"'])
        reprs = ["C"]
        probes = ["serde_json::to_string(&M::S::<'static, u16>::default()).unwrap()", 'format!("{:?}", M::S::<\'static, u8>::default())']
    return shape, it, derives, serde, reprs, probes


# items whose stripped twin is rejected while its derives expand: the annotated program must be rejected as well (the attribute
# that makes it wrong stands between / after the stacked lines like any other)
STACK_BAD = [
    ("internal-tag-on-tuple-variant", {"kind": "enum", "head": "pub enum S", "where": "", "variants": [
        {"attrs": [], "name": "A", "style": "tuple", "fields": [{"attrs": [], "rest": "u8"}, {"attrs": [], "rest": "u8"}], "rest": ""}]},
     ["serde::Serialize"], ['tag = "t"']),
    ("untagged-on-struct", {"kind": "struct", "style": "struct", "head": "pub struct S", "where": "", "fields": [{"attrs": [], "rest": "a: u8"}]},
     ["serde::Serialize"], ["untagged"]),
    ("transparent-with-two-fields", {"kind": "struct", "style": "struct", "head": "pub struct S", "where": "",
                                     "fields": [{"attrs": [], "rest": "a: u8"}, {"attrs": [], "rest": "b: u8"}]},
     ["serde::Serialize"], ["transparent"]),
    ("unknown-rename-rule", {"kind": "struct", "style": "struct", "head": "pub struct S", "where": "", "fields": [{"attrs": [], "rest": "a: u8"}]},
     ["serde::Serialize"], ['rename_all = "no-such-case"']),
]


def stk_lines(rng, derives, serde, reprs, n_stacked, wrong=None):
    """the item-level lines of one item: one invoking typeshare line plus `n_stacked` further ones, in a random order between
    1-3 derive lines, 0-3 serde lines, repr, doc/allow/must_use and cfg_attr-wrapped variants of each"""
    derives = list(derives)
    rng.shuffle(derives)
    cuts = sorted(rng.sample(range(1, len(derives)), min(len(derives) - 1, rng.choice([0, 0, 1, 2])))) if len(derives) > 1 else []
    others = [L("derive", "(%s)" % ", ".join(derives[a:b])) for a, b in zip([0] + cuts, cuts + [len(derives)])]
    if len(serde) > 1 and rng.random() < 0.3:
        others.append(L("serde", "(%s)" % ", ".join(serde)))
    else:
        others += [L("serde", "(%s)" % a) for a in serde]
    if reprs and rng.random() < 0.5:
        others.append(L("repr", "(%s)" % rng.choice(reprs)))
    for _ in range(rng.choice([0, 1, 1, 2])):
        others.append(dict(rng.choice(STACK_NEUTRAL)))
    for l in others:
        if l["cfg"] is None and l["path"] != ["doc"] and rng.random() < 0.15:
            l["cfg"] = "all()"
    rng.shuffle(others)
    ts = [dict(L("typeshare", rng.choice(ARGS)))] + [dict(rng.choice(STACK_TS)) for _ in range(n_stacked)]
    rng.shuffle(ts)
    if not any(line_live(l) for l in ts):
        ts[0]["cfg"] = None
    # every typeshare line goes to a uniformly drawn position: last line, directly before serde / derive / repr / doc, adjacent
    # stacked lines and a derive above the invoking line all occur (counted as stacked-last-typeshare-line-* in the evidence)
    lines = list(others)
    for l in ts:
        lines.insert(rng.randint(0, len(lines)), l)
    if wrong is not None:
        w = L("serde", "(%s)" % wrong)
        lines.insert(rng.randint(max(i for i, l in enumerate(lines) if l["path"] == ["derive"]) + 1, len(lines)), w)
    return lines


def stk_expand(lines):
    """the lines as rustc hands them on after evaluating cfg_attr"""
    return [L("::".join(l["path"]), l["tokens"]) for l in lines if line_live(l)]


def stk_source(lines, it, dump=None):
    """(annotated source, stripped twin source) on one line each; `dump` = id of an attrdump line put right after the invoker"""
    out, seen = [], False
    for l in lines:
        out.append(line_src(l))
        if dump is not None and not seen and line_is_ts(l) and line_live(l):
            out.append('#[attrdump::dump("%s")] ' % dump)
            seen = True
    twin = json.loads(json.dumps(it))
    strip(twin)
    body = dict(it, attrs=[])
    return "".join(out) + render(body), "".join(line_src(l) for l in lines if not line_is_ts(l)) + render(dict(twin, attrs=[]))


def stacked_part(check):
    """Dimension: the NUMBER and POSITIONS of item-level `#[typeshare(..)]` lines.  Every item (named / tuple / generic struct, adjacently /
    internally tagged / untagged / repr enum, union) carries the invoking line plus 0-4 further typeshare lines in the documented
    argument forms (swift / kotlin decorators, serialized_as, redacted, bare, full path, inside cfg_attr), shuffled in every order
    with 1-3 derive lines, serde(tag / content / rename_all / rename_all_fields / deny_unknown_fields / transparent / bound ..),
    repr, doc, allow, must_use and live / dead cfg_attr lines; fields and variants carry helpers mixed with serde / doc attributes.
    Demanded, on what the real macro and rustc produce:
    (a) twin programs: the annotated program compiles and every probe (serde_json to_string / from_str, size_of, align_of,
        discriminants, Debug) prints what the twin with all typeshare attributes removed prints;
    (b) items whose twin is rejected (a wrong serde container attribute after the stacked lines) are rejected when annotated too;
    (c) token level (attrdump right after the invoking line): what the macro returns is the item with nothing but typeshare
        attributes removed (further item-level typeshare lines may stay - rustc expands them next - or go), all other attributes
        in their order; and it equals the Lean model's `expand` of the item rustc handed to the macro."""
    rng = check.rng
    check.rule += ("; stacked lines: items with 1-5 item-level #[typeshare(..)] lines (documented argument forms, also inside cfg_attr and "
                   "with the full path) in every order between their derive / serde / repr / doc / allow / cfg_attr lines, compiled as "
                   "twin programs (annotated / all typeshare attributes removed, accepted and rejected ones) and compared through "
                   "serde_json, size_of, align_of, discriminants and Debug, and at token level right after the invoking line")
    for rnd in range(6 if check.thorough else 1):
        n_items = 60 if check.thorough else 36
        def one():
            shape, it, derives, serde, reprs, probes = stk_shape(rng)
            n_stacked = rng.choice([0, 1, 2, 2, 3, 3, 4])
            return {"shape": shape, "it": it, "lines": stk_lines(rng, derives, serde, reprs, n_stacked), "probes": probes, "stacked": n_stacked}
        items = [one() for _ in range(n_items)]
        more = [one() for _ in range(3 * n_items)]          # token level only (no derive runs there: cheap)
        bad = []
        for name, it, derives, wrong in rng.sample(STACK_BAD, 3 if not check.thorough else len(STACK_BAD)):
            bad.append({"shape": name, "it": it, "lines": stk_lines(rng, derives, [], [], rng.choice([1, 2, 2, 3, 4]), wrong=wrong[0])})
        if stacked_twins(check, rnd, items, bad) or stacked_tokens(check, rnd, items + more):
            return


def stk_count(x):
    """item-level typeshare lines rustc sees on the item (the invoking one included)"""
    return sum(1 for l in x["lines"] if line_is_ts(l) and line_live(l))


def stk_case(x, **more):
    ann, twin = stk_source(x["lines"], x["it"])
    return dict({"shape": x["shape"], "annotated": "use typeshare::typeshare; " + ann, "stripped_twin": twin,
                 "item_level_typeshare_lines": stk_count(x),
                 "replay": "put either text into a crate that depends on typeshare (path = <repo>/lib), serde (derive) and serde_json"}, **more)


def stacked_twins(check, rnd, items, bad):
    """(a) and (b); returns True when a violation was reported"""
    rows = ["#![allow(unused, legacy_derive_helpers)]"]       # one source line per module: line number -> item
    where, probes, feats = {}, [], []
    for k, x in enumerate(items):
        ann, twin = stk_source(x["lines"], x["it"])
        rows.append("pub mod plain_%d { %s }" % (k, twin))
        rows.append('#[cfg(any(feature = "annot", feature = "a_%d"))] pub mod annot_%d { use typeshare::typeshare; %s }' % (k, k, ann))
        where[len(rows)] = ("good", k)
        feats.append("a_%d" % k)
        for j, e in enumerate(x["probes"]):
            probes.append('    println!("%d.%d plain {}", %s);' % (k, j, e.replace("M::", "plain_%d::" % k)))
            probes.append('    #[cfg(feature = "annot")] println!("%d.%d annot {}", %s);' % (k, j, e.replace("M::", "annot_%d::" % k)))
    for k, x in enumerate(bad):
        ann, twin = stk_source(x["lines"], x["it"])
        rows.append('#[cfg(any(feature = "pb", feature = "pb_%d"))] pub mod plainbad_%d { %s }' % (k, k, twin))
        where[len(rows)] = ("plainbad", k)
        rows.append('#[cfg(any(feature = "ab", feature = "ab_%d"))] pub mod annotbad_%d { use typeshare::typeshare; %s }' % (k, k, ann))
        where[len(rows)] = ("annotbad", k)
        feats += ["pb_%d" % k, "ab_%d" % k]
    main = "\n".join(rows) + "\nfn main() {\n" + "\n".join(probes) + "\n}\n"
    with Scratch() as sc:
        sc.write("crate/src/main.rs", main)
        sc.write("crate/Cargo.toml", '[package]\nname = "c19stack"\nversion = "0.1.0"\nedition = "2021"\n\n[workspace]\n\n[features]\n'
                 + "".join("%s = []\n" % f for f in feats + ["annot", "pb", "ab"])
                 + '\n[dependencies]\ntypeshare = { path = "%s/lib" }\nserde = { version = "1", features = ["derive"] }\nserde_json = "1"\n' % REPO)
        shutil.copyfile(os.path.join(REPO, "Cargo.lock"), sc.path("crate/Cargo.lock"))
        lock = open(os.path.join(BUILD, "cargo-c19.lock"), "w")
        fcntl.flock(lock, fcntl.LOCK_EX)

        def cargo(verb, features):
            return subprocess.run(["cargo", verb, "-q", "--offline", "--target-dir", os.path.join(BUILD, "target-c19")] +
                                  (["--features", ",".join(features)] if features else []), cwd=sc.path("crate"), env=ENV,
                                  stdout=subprocess.PIPE, stderr=subprocess.PIPE, text=True)

        def culprits(p, group):
            ks = []
            for ln in re.findall(r"--> src/main.rs:(\d+):", p.stderr):
                g = where.get(int(ln))
                if g and g[0] == group and g[1] not in ks:
                    ks.append(g[1])
            return ks

        def errors_of(p):
            msgs = re.findall(r"= help: message: ([^\n]*)", p.stderr)
            return "; ".join([l for l in p.stderr.split("\n") if l.startswith("error") and "could not compile" not in l][:3] + msgs[:1])
        try:
            p1 = cargo("run", ["annot"])
            check.count("stacked-builds")
            if p1.returncode != 0:
                p0 = cargo("build", [])
                if p0.returncode != 0:
                    raise InfraError("C19 stacked lines: the stripped twins do not build:\n" + p0.stderr[-3000:])
                for k in culprits(p1, "good") + [k for k in range(len(items))]:
                    pk = cargo("build", ["a_%d" % k])
                    check.count("stacked-bisect")
                    if pk.returncode != 0:
                        x = items[k]
                        check.saw(("stacked-twin", rnd, k), nontrivial=True)
                        check.violation("item with %d item-level #[typeshare(..)] lines (%s): the annotated program does not compile although "
                                        "its twin without the typeshare attributes does: %s" % (stk_count(x), x["shape"], errors_of(pk)),
                                        case=stk_case(x), impl={"rustc": pk.stderr[-2500:]}, failing_input=True)
                        return True
                check.saw(("stacked-twin-whole", rnd), nontrivial=True)
                check.violation("items with stacked item-level #[typeshare(..)] lines: the annotated program does not compile although every "
                                "annotated item compiles alone and the stripped program compiles: " + errors_of(p1),
                                case={"main.rs": main}, impl={"rustc": p1.stderr[-2500:]}, failing_input=True)
                return True
            out = {}
            for l in p1.stdout.split("\n"):
                m = re.match(r"(\d+)\.(\d+) (plain|annot) (.*)$", l)
                if m:
                    out[(int(m.group(1)), int(m.group(2)), m.group(3))] = m.group(4)
            # (b) rejected twins
            if bad:
                pb = cargo("build", ["pb"])
                ab = cargo("build", ["ab"])
                check.count("stacked-builds", 2)
                plain_rejected, annot_rejected = culprits(pb, "plainbad"), culprits(ab, "annotbad")
                if pb.returncode == 0 or sorted(plain_rejected) != list(range(len(bad))):
                    raise InfraError("C19 stacked lines: a twin that must be rejected is accepted (%r of %d):\n%s" % (plain_rejected, len(bad), pb.stderr[-2000:]))
                for k, x in enumerate(bad):
                    check.saw(("stacked-rejected", stk_source(x["lines"], x["it"])[0]), nontrivial=True)
                    check.count("stacked-rejected-twin-" + x["shape"])
                    if k in annot_rejected:
                        continue
                    pk = cargo("build", ["ab_%d" % k])
                    if pk.returncode == 0:
                        check.violation("item with stacked item-level #[typeshare(..)] lines (%s): the annotated program compiles although its twin "
                                        "without the typeshare attributes is rejected (%s)" % (x["shape"], errors_of(cargo("build", ["pb_%d" % k]))),
                                        case=stk_case(x), impl={"rustc": "accepted"}, failing_input=True)
                        return True
        finally:
            lock.close()
    for k, x in enumerate(items):
        ann = stk_source(x["lines"], x["it"])[0]
        check.saw(("stacked-twin", ann), nontrivial=x["stacked"] > 0)
        check.count("stacked-lines=%d" % x["stacked"])
        check.count("stacked-shape-" + x["shape"])
        live = [l for l in x["lines"] if line_live(l)]
        ts_at = [i for i, l in enumerate(live) if line_is_ts(l)]
        check.count("stacked-last-typeshare-line-" + ("is-last-attribute" if ts_at[-1] == len(live) - 1 else
                                                       "before-" + live[ts_at[-1] + 1]["path"][0]))
        if any(l["path"] == ["derive"] for l in live[:ts_at[0]]):
            check.count("stacked-derive-before-invoking-line")
        for j, e in enumerate(x["probes"]):
            a, b = out.get((k, j, "plain")), out.get((k, j, "annot"))
            if a is None or b is None:
                raise InfraError("C19 stacked lines: missing probe output %d.%d" % (k, j))
            if a != b:
                check.violation("item with %d item-level #[typeshare(..)] lines (%s): the annotated type behaves differently from its twin "
                                "without the typeshare attributes: `%s` gives %s, the twin %s" % (stk_count(x), x["shape"], e, b, a),
                                case=stk_case(x, probe=e), impl={"annotated": b, "twin": a}, failing_input=True)
                return True
    return False


def stacked_tokens(check, rnd, items):
    """(c); returns True when a failing input was reported"""
    chosen = []
    for x in items:
        live = [l for l in x["lines"] if line_live(l)]
        first = min(i for i, l in enumerate(live) if line_is_ts(l))
        # a derive line above the invoking line runs first and would emit impls for an item attrdump then swallows; a serde line
        # above it is resolved through the derive that follows, which never runs here.  Those orders are left to the twin programs
        if not any(l["path"] in (["derive"], ["serde"]) for l in live[:first]):
            chosen.append(x)
    reqs = []
    for x in chosen:
        live = stk_expand(x["lines"])
        first = min(i for i, l in enumerate(live) if line_is_ts(l))
        x["received"] = live[:first] + live[first + 1:]       # what rustc hands to the macro (plus the attrdump line)
        reqs.append([S("expand"), sx_item(dict(x["it"], attrs=[(l["path"], l["tokens"]) for l in x["received"]]))])
    answers = model(reqs, with_unicode=False)
    with Scratch() as sc:
        dump = sc.path("dump.txt")
        rows = ["#![allow(unused, legacy_derive_helpers)]", "use typeshare::typeshare;"]
        where = {}
        for k, x in enumerate(chosen):
            rows.append(stk_source(x["lines"], x["it"], dump=str(k))[0])
            where[len(rows)] = k
        sc.write("crate/src/lib.rs", "\n".join(rows) + "\n")
        sc.write("crate/Cargo.toml", '[package]\nname = "c19stackprobe"\nversion = "0.1.0"\nedition = "2021"\n\n[workspace]\n\n[dependencies]\n'
                 'typeshare = { path = "%s/lib" }\nattrdump = { path = "%s/harness/attrdump" }\n' % (REPO, VERIF))
        shutil.copyfile(os.path.join(REPO, "Cargo.lock"), sc.path("crate/Cargo.lock"))
        env = dict(ENV, ATTRDUMP_OUT=dump)
        lock = open(os.path.join(BUILD, "cargo-c19.lock"), "w")
        fcntl.flock(lock, fcntl.LOCK_EX)
        try:
            cmd = ["cargo", "build", "-q", "--offline", "--target-dir", os.path.join(BUILD, "target-c19")]
            p = subprocess.run(cmd, cwd=sc.path("crate"), env=env, stdout=subprocess.PIPE, stderr=subprocess.PIPE, text=True)
            check.count("stacked-builds")
            if p.returncode != 0 or not os.path.exists(dump):
                # attrdump swallows every item: the crate builds unless #[typeshare] itself fails.  Cross-check without the invoking lines
                plain = []
                for x in chosen:
                    live = [l for l in x["lines"] if line_live(l)]
                    first = min(i for i, l in enumerate(x["lines"]) if line_is_ts(l) and line_live(l))
                    plain.append(stk_source(x["lines"][:first] + [L("attrdump::dump", '("x")')] + x["lines"][first + 1:], x["it"])[0])
                sc.write("crate/src/lib.rs", "\n".join(rows[:2] + plain) + "\n")
                p2 = subprocess.run(cmd, cwd=sc.path("crate"), env=env, stdout=subprocess.PIPE, stderr=subprocess.PIPE, text=True)
                if p2.returncode != 0:
                    raise InfraError("C19 stacked-lines probe does not build even without the invoking #[typeshare] lines:\n" + p2.stderr[-3000:])
                ks = [where[int(ln)] for ln in re.findall(r"--> src/lib.rs:(\d+):", p.stderr) if int(ln) in where]
                errs = "; ".join([l for l in p.stderr.split("\n") if l.startswith("error")][:3])
                check.saw(("stacked-probe-build", rnd), nontrivial=True)
                check.violation("item with stacked item-level #[typeshare(..)] lines: the #[typeshare] macro itself fails on it (the same item "
                                "without the invoking line is accepted): " + errs,
                                case=stk_case(chosen[ks[0]]) if ks else {"lib.rs": "\n".join(rows)}, impl={"rustc": p.stderr[-2500:]},
                                failing_input=True)
                return True
        finally:
            lock.close()
        got = {}
        for line in open(dump, encoding="utf-8"):
            k, _, v = line.rstrip("\n").partition("\t")
            got[int(k)] = v
    for k, (x, ans) in enumerate(zip(chosen, answers)):
        check.saw(("stacked-tokens", rows[k + 2]), nontrivial=x["stacked"] > 0)
        check.count("stacked-token-comparisons")
        impl = squeeze(got.get(k, "<missing>"))
        pairs = [(l["path"], l["tokens"]) for l in x["received"]]
        twin = json.loads(json.dumps(x["it"]))
        strip(twin)
        # nothing but typeshare attributes removed: every subset of the further item-level typeshare lines may have been kept
        ts_idx = [i for i, l in enumerate(x["received"]) if line_is_ts(l)]
        allowed = set()
        for mask in range(1 << len(ts_idx)):
            drop = {i for b, i in enumerate(ts_idx) if mask >> b & 1}
            allowed.add(squeeze(render(dict(twin, attrs=[a for i, a in enumerate(pairs) if i not in drop]))))
        model_src = render(apply_model(dict(x["it"], attrs=pairs), ans))
        if len([s for s in check.samples if "stacked" in s]) < 2 and x["stacked"] >= 2:
            check.sample({"stacked": True, "source": rows[k + 2], "macro_output": got.get(k), "model_expansion": model_src}, limit=8)
        if impl not in allowed:
            check.violation("item with %d item-level #[typeshare(..)] lines (%s): what the macro returns is not the item with only "
                            "typeshare attributes removed (another attribute was dropped, moved or changed)" % (stk_count(x), x["shape"]),
                            case=stk_case(x, probe_source=rows[k + 2]), impl=got.get(k), model=model_src, failing_input=True)
            return True
        if impl != squeeze(model_src) and not any(v["broken_obligation"] for v in check.violations):
            check.violation("stacked item-level #[typeshare(..)] lines: the macro's output differs from the model's expansion (the model keeps "
                            "further item-level typeshare lines for rustc to expand next)", case=stk_case(x, probe_source=rows[k + 2]),
                            impl=got.get(k), model=model_src, failing_input=False, broken="correspondence annotation macro (theorems TsV.C19.*)")
    return False
