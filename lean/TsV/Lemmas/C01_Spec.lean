import TsV.Props.C16
import TsV.Model.Generate
/-!
# C01 — trusted specification

Everything in this file is *specification*: what serde uses as the JSON key of a field
(`fieldKey`, built from the port of serde_derive's `case.rs` in `TsV.Serde` and the attribute
readers of `TsV.Parser`), the property's alphabets as decidable predicates, and — per target
language — the *binding semantics* `boundKey`: which JSON key a generated declaration binds a
field to, read off the fact records of the back-end models.  Nothing here is proved; the theorems
of `TsV.C01` relate these definitions to the model.
-/
namespace TsV.C01
open TsV TsV.Str TsV.Syn TsV.Parser TsV.Serde TsV.Lang

/-- two lists related element by element (core Lean has no `List.Forall₂`) -/
inductive Forall₂ {α β} (R : α → β → Prop) : List α → List β → Prop
  | nil : Forall₂ R [] []
  | cons {a b l₁ l₂} : R a b → Forall₂ R l₁ l₂ → Forall₂ R (a :: l₁) (b :: l₂)

/-! ## serde's key -/

/-- `syn::ext::IdentExt::unraw`: the raw-identifier prefix removed -/
def stripRaw : Str → Str
  | 'r' :: '#' :: rest => rest
  | i => i

/-- the JSON key serde_derive uses for a named field with identifier `i` (as `Ident::to_string`
prints it) and attributes `attrs`, in a container whose `rename_all` string is `ra` (for the
fields of a struct variant: the *variant's* `rename_all`).  `serde(rename = "k")` wins (the first
such name-value in attribute order; serde rejects duplicates); otherwise the container's rule is
applied to the un-raw'd identifier; a `rename_all` string that is no rule name is a serde compile
error, typeshare leaves the name alone.  `applyField` is an `Outcome` because serde_derive itself
panics on an empty Pascal form under `camelCase`. -/
def fieldKey (E : Ext) (ra : Option Str) (attrs : List Attr) (i : Str) : Outcome Str :=
  match serdeRename E attrs with
  | some k => .ok k
  | none =>
    match ra.bind Rule.ofStr with
    | some rule => applyField rule (stripRaw i)
    | none => .ok (stripRaw i)

/-- `fieldKey` of a syntactic field -/
def fieldKeyOf (E : Ext) (ra : Option Str) (f : Field) : Outcome Str :=
  fieldKey E ra f.attrs (f.ident.getD [])

/-- the same reader as `Parser.serdeRename` but *without* `str::trim` (what serde really reads) -/
def serdeRenameRaw (attrs : List Attr) : Option Str :=
  (attrs.flatMap fun a =>
    (getMetaItems a kSerde).filterMap fun m =>
      match m with
      | .nameValue segs (some (.str v)) => if segs == [s%"rename"] then some v else none
      | _ => none).head?

/-! ## the alphabets of the quantifier -/

/-- a conventionally named field: `[a-z0-9_]*`, optionally behind `r#` -/
def IdentConv (i : Str) : Prop := C16.FieldConv (stripRaw i)

instance (s : Str) : Decidable (C16.FieldConv s) := by unfold C16.FieldConv; infer_instance
instance (i : Str) : Decidable (IdentConv i) := by unfold IdentConv; infer_instance

/-- the key alphabet `[A-Za-z0-9_-]` -/
def keyChar (c : Char) : Bool :=
  isAsciiLower c || isAsciiUpper c || isAsciiDigit c || c == '_' || c == '-'

/-- keys over the key alphabet (the property's `[A-Za-z_][A-Za-z0-9_-]*` is a subset) -/
def KeyStr (k : Str) : Prop := ∀ c ∈ k, keyChar c = true

instance (k : Str) : Decidable (KeyStr k) := by unfold KeyStr; infer_instance

/-- a source field inside the property's quantifier: it has an identifier, the identifier is
conventional, and an explicit `serde(rename)` value is over the key alphabet -/
def FieldInScope (E : Ext) (f : Field) : Prop :=
  (∃ i, f.ident = some i ∧ IdentConv i) ∧ ∀ k, serdeRename E f.attrs = some k → KeyStr k

/-- the named fields `parse_struct` / `parse_enum_variant` keep -/
def kept (targetOs : List Str) (fs : List Field) : List Field :=
  fs.filter fun f => !isSkipped f.attrs targetOs

/-! ## binding semantics, per language -/

/-- the value of a double-quoted string literal, read from just after the opening quote:
`\x` stands for `x`, the literal ends at the first unescaped `"` -/
def unescape : Str → Str
  | [] => []
  | '\\' :: c :: rest => c :: unescape rest
  | '"' :: _ => []
  | c :: rest => c :: unescape rest

namespace TypeScript
open TsV.Lang.TypeScript
/-- a property is bound to its name; a quoted property name to the value of the literal -/
def boundKey (f : TsField) : Str :=
  match f.name with
  | '"' :: rest => unescape rest
  | n => n
end TypeScript

namespace Kotlin
open TsV.Lang.Kotlin
/-- kotlinx.serialization: `@SerialName` if present, else the property name -/
def boundKey (p : KtParam) : Str := p.serialName.getD p.name

/-- the constructor parameters a declaration has -/
def declParams : KtDecl → List KtParam
  | .dataClass _ _ _ ps _ => ps
  | .valueClass _ _ p _ => [p]
  | _ => []
end Kotlin

namespace Swift
open TsV.Lang.Swift
/-- an escaped identifier names the identifier between the back-ticks -/
def unbacktick (s : Str) : Str := s.filter (· != '`')

/-- the raw value of a `CodingKeys` case: explicit, or (String-backed enum) the case name -/
def caseRaw (k : CodingKey) : Str := k.rawValue.getD (unbacktick k.caseName)

/-- `Codable` synthesis: with a `CodingKeys` enum the property is bound to the raw value of the case
of the same name; without one, to the property name -/
def boundKey (s : SwiftStruct) (p : StoredProp) : Str :=
  if s.explicitCodingKeys then
    match s.codingKeys.find? (·.caseName == p.name) with
    | some k => caseRaw k
    | none => unbacktick p.name
  else unbacktick p.name

def structKeys (s : SwiftStruct) : List Str := s.props.map (boundKey s)
end Swift

namespace Go
open TsV.Lang.Go
/-- `encoding/json`: the tag value is an (escaped) string; the key is what precedes the first comma -/
def boundKey (g : GoField) : Str := (unescape g.jsonName).takeWhile (· != ',')
end Go

namespace Python
open TsV.Lang.Python
/-- pydantic: `Field(alias=…)` if present, else the attribute name -/
def boundKey (p : PyField) : Str := p.alias.getD p.name
end Python

namespace Scala
open TsV.Lang.Scala
/-- no binding exists: the parameter name is the key -/
def boundKey (p : ScParam) : Str := p.name
end Scala


/-! ## the TypeScript printer as facts

`Lang.TypeScript.writeFields` / `writeVariants` render on the fly; these two functions return the
`TsField` records instead.  `TsV.C01.TypeScript.writeFields_eq`, `writeVariant_struct` and
`writeVariants_facts` (Lemmas/C01_Backends) prove that the model's text is exactly these records
rendered, with the same printer state. -/
namespace TypeScript
open TsV.Lang.TypeScript

/-- `write_field` over a field list, as facts (the model's `writeFields` renders on the fly) -/
def fieldsFacts (cfg : Cfg) (gens : List Str) : List RustField → CustomMap → Outcome (List TsField × CustomMap)
  | [], st => .ok ([], st)
  | f :: fs, st =>
    (fieldFacts cfg gens f st).bind fun (tf, st) =>
    (fieldsFacts cfg gens fs st).bind fun (rest, st) => .ok (tf :: rest, st)

/-- the property lists of the struct variants of an enum, the printer state threaded exactly as
`writeVariants` threads it -/
def variantsFacts (cfg : Cfg) (e : RustEnum) : List RustEnumVariant → CustomMap →
    Outcome (List (List TsField) × CustomMap)
  | [], st => .ok ([], st)
  | .unit _ _ :: vs, st => variantsFacts cfg e vs st
  | .tuple _ _ ty :: vs, st =>
    (formatType cfg e.genericTypes ty st).bind fun (_, st) => variantsFacts cfg e vs st
  | .anonymousStruct _ _ fs :: vs, st =>
    (fieldsFacts cfg e.genericTypes fs st).bind fun (tfs, st) =>
    (variantsFacts cfg e vs st).bind fun (rest, st) => .ok (tfs :: rest, st)

end TypeScript

/-! ## the per-language condition on a key (the property's scope, on the wire name) -/

/-- TypeScript / Go print the key through `{:?}`; Swift puts it between back-ticks / quotes: the
key must be over the key alphabet.  Scala has no binding: only dash-free keys are in scope.
Kotlin and Python need nothing. -/
def KeyOk : Lang → Str → Prop
  | .typescript, k => KeyStr k
  | .go, k => KeyStr k
  | .swift, k => KeyStr k
  | .scala, k => '-' ∉ k
  | .kotlin, _ => True
  | .python, _ => True

instance (L : Lang) (k : Str) : Decidable (KeyOk L k) := by
  cases L <;> unfold KeyOk <;> infer_instance

/-- distinct mangled member names within one declaration.  Swift looks the `CodingKeys` case up by
the property name, so two keys that collide after `-` ↦ `_` (`a-b` / `a_b`: a C10 matter — the
generated Swift does not compile) are outside C01. -/
def Distinct : Lang → List RustField → Prop
  | .swift, fs => (fs.map Lang.Swift.memberName).Nodup
  | _, _ => True

instance (L : Lang) (fs : List RustField) : Decidable (Distinct L fs) := by
  cases L <;> unfold Distinct <;> infer_instance


/-! ## what a back end binds (binding semantics applied to the model's facts) -/

/-- configuration and printer state of one back end -/
def Ctx : TsV.Lang → Type
  | .typescript => Lang.TypeScript.Cfg × Lang.TypeScript.CustomMap
  | .kotlin => Lang.Kotlin.Cfg
  | .swift => Lang.Swift.Cfg × Lang.Swift.St
  | .scala => Lang.Scala.Cfg
  | .go => Lang.Go.Cfg × Lang.Go.Imports
  | .python => Lang.Python.Cfg × Lang.Python.St

/-- the keys the declaration generated for a struct binds, in field order -/
def structKeys (E : Ext) : (L : TsV.Lang) → Ctx L → RustStruct → Outcome (List Str)
  | .typescript, (cfg, st), rs =>
    (TypeScript.fieldsFacts cfg rs.genericTypes rs.fields st).bind fun (tfs, _) =>
      .ok (tfs.map TypeScript.boundKey)
  | .kotlin, cfg, rs =>
    (Lang.Kotlin.structFacts cfg rs).bind fun d => .ok ((Kotlin.declParams d).map Kotlin.boundKey)
  | .swift, (cfg, st), rs =>
    (Lang.Swift.structFacts E.U cfg rs st).bind fun (s, _) => .ok (Swift.structKeys s)
  | .scala, cfg, rs =>
    (Lang.Scala.classFacts cfg rs).bind fun c => .ok (c.params.map Scala.boundKey)
  | .go, (cfg, st), rs =>
    (Lang.Go.structFacts E.U cfg rs st).bind fun (d, _) => .ok (d.fields.map Go.boundKey)
  | .python, (cfg, st), rs =>
    (Lang.Python.structFacts E cfg rs st).bind fun (c, _) => .ok (c.fields.map Python.boundKey)

/-- the keys bound for the struct variants of an enum, one list per struct variant in order:
five back ends generate a helper struct per struct variant (`write_types_for_anonymous_structs`),
TypeScript prints the fields inline -/
def enumKeys (E : Ext) : (L : TsV.Lang) → Ctx L → RustEnum → Outcome (List (List Str))
  | .typescript, (cfg, st), e =>
    (TypeScript.variantsFacts cfg e e.variants st).bind fun (tfss, _) =>
      .ok (tfss.map (·.map TypeScript.boundKey))
  | .kotlin, cfg, e =>
    (Lang.Kotlin.structsFacts cfg (Lang.Kotlin.innerStructs e)).bind fun ds =>
      .ok (ds.map fun d => (Kotlin.declParams d).map Kotlin.boundKey)
  | .swift, (cfg, st), e =>
    (Lang.Swift.anonymousStructs E.U cfg e (structVariants e) st).bind fun (ss, _) =>
      .ok (ss.map Swift.structKeys)
  | .scala, cfg, e =>
    (Lang.Scala.innerClasses cfg e).bind fun cs => .ok (cs.map (·.params.map Scala.boundKey))
  | .go, (cfg, st), e =>
    (Lang.Go.anonStructs E.U cfg e (structVariants e) st).bind fun (ds, _) =>
      .ok (ds.map (·.fields.map Go.boundKey))
  | .python, (cfg, st), e =>
    (Lang.Python.innerFacts E cfg e (structVariants e) st).bind fun (cs, _) =>
      .ok (cs.map (·.fields.map Python.boundKey))

/-- "whenever serde has a key, it is `k`" -/
def SerdeKey (E : Ext) (ra : Option Str) (f : Field) (k : Str) : Prop :=
  C16.Agree (.ok k) (fieldKeyOf E ra f)


/-- what "binds the wire name" means for one field, in scope of language `L` -/
def Binds (L : TsV.Lang) (f : RustField) (k : Str) : Prop := KeyOk L f.id.renamed → k = f.id.renamed


/-- the part of the quantifier that depends on the language: "Scala carries no key binding, so for
Scala only keys without `-` are in scope" -/
def ScalaScope : TsV.Lang → Str → Prop
  | .scala, k => '-' ∉ k
  | _, _ => True

/-- a source field inside the quantifier, for language `L` under container rule `ra` -/
def InScope (E : Ext) (L : TsV.Lang) (ra : Option Str) (f : Field) : Prop :=
  FieldInScope E f ∧ ∀ k, fieldKeyOf E ra f = .ok k → ScalaScope L k

instance (L : TsV.Lang) (k : Str) : Decidable (ScalaScope L k) := by
  cases L <;> unfold ScalaScope <;> infer_instance

/-- `InScope` as a decidable check (sound: `inScopeB_sound`) -/
def inScopeB (E : Ext) (L : TsV.Lang) (ra : Option Str) (f : Field) : Bool :=
  (match f.ident with | some i => decide (IdentConv i) | none => false) &&
  (match serdeRename E f.attrs with | some k => decide (KeyStr k) | none => true) &&
  (match fieldKeyOf E ra f with | .ok k => decide (ScalaScope L k) | _ => true)

/-- the scope hypothesis of the enum clause as a decidable check (sound: `variantsInScopeB_sound`) -/
def variantsInScopeB (E : Ext) (L : TsV.Lang) (targetOs : List Str) (vs : List Variant) : Bool :=
  vs.all fun v => match v.fields with
    | .named fs => (kept targetOs fs).all (inScopeB E L (serdeRenameAll E v.attrs))
    | _ => true

/-- the identifiers of the fields, which `reconcile_aliases` leaves alone (it rewrites types only) -/
def fieldIds (fs : List RustField) : List Id := fs.map (·.id)

/-- a struct variant in the source -/
def namedFields : Variant → Bool
  | ⟨_, _, .named _⟩ => true
  | _ => false


end TsV.C01
