import TsV.Lemmas.C12_Common
/-!
# C12, TypeScript: every custom-translated field type has its clause in the `ReviverFunc` /
`ReplacerFunc` footer
-/
namespace TsV.C12L.TypeScript
open TsV TsV.Lang TsV.Lang.TypeScript TsV.C12L

/-- the keys of the custom-translation map -/
def keys (m : CustomMap) : List Str := m.map (·.1)

theorem keys_cmInsert (k : Str) (v : List Str) : ∀ (m : CustomMap) (x : Str),
    x ∈ keys (cmInsert m k v) ↔ x = k ∨ x ∈ keys m
  | [], x => by simp [cmInsert, keys]
  | (k', v') :: rest, x => by
    simp only [cmInsert]
    split
    · rename_i h
      have : k' = k := by simpa using h
      subst this
      simp [keys]
    · split
      · simp [keys]
      · have ih := keys_cmInsert k v rest x
        simp only [keys, List.map_cons, List.mem_cons] at ih ⊢
        rw [ih]
        constructor
        · rintro (h | h | h)
          · exact Or.inr (Or.inl h)
          · exact Or.inl h
          · exact Or.inr (Or.inr h)
        · rintro (h | h | h)
          · exact Or.inr (Or.inl h)
          · exact Or.inl h
          · exact Or.inr (Or.inr h)

/-- keys are never removed -/
def Sub (st st' : CustomMap) : Prop := ∀ x ∈ keys st, x ∈ keys st'

theorem Sub.refl (st : CustomMap) : Sub st st := fun _ h => h
theorem Sub.trans {a b c : CustomMap} (h1 : Sub a b) (h2 : Sub b c) : Sub a c := fun x hx => h2 x (h1 x hx)
theorem Sub.insert (st : CustomMap) (k : Str) (v : List Str) : Sub st (cmInsert st k v) :=
  fun x hx => (keys_cmInsert k v st x).2 (Or.inr hx)

theorem special_sub (cfg : Cfg) (gens : List Str) (t : RustType) (st : CustomMap)
    (k : CustomMap → Outcome (Str × CustomMap)) (s : Str) (st' : CustomMap)
    (hk : ∀ s st', k st = .ok (s, st') → Sub st st')
    (h : special cfg gens t st k = .ok (s, st')) : Sub st st' := by
  unfold special at h
  cases hm : mapGet cfg.typeMappings t.display with
  | some m =>
    rw [hm] at h
    simp only [Outcome.ok.injEq, Prod.mk.injEq] at h
    rw [← h.2]
    split
    · exact Sub.insert st m []
    · exact Sub.refl st
  | none => rw [hm] at h; exact hk s st' h

mutual
  theorem formatType_sub (cfg : Cfg) (gens : List Str) : ∀ (t : RustType) (st : CustomMap) (s : Str) (st' : CustomMap),
      formatType cfg gens t st = .ok (s, st') → Sub st st'
    | .simple id, st, s, st', h => by
      simp only [formatType, Outcome.ok.injEq, Prod.mk.injEq] at h
      rw [← h.2]; exact Sub.refl st
    | .generic id ps, st, s, st', h => by
      simp only [formatType] at h
      cases hm : mapGet cfg.typeMappings id with
      | some m =>
        rw [hm] at h
        simp only [Outcome.ok.injEq, Prod.mk.injEq] at h
        rw [← h.2]; exact Sub.refl st
      | none =>
        rw [hm] at h
        simp only at h
        cases hps : formatTypes cfg gens ps st with
        | ok r =>
          obtain ⟨strs, st1⟩ := r
          rw [hps] at h
          simp only [Outcome.ok.injEq, Prod.mk.injEq] at h
          rw [← h.2]; exact formatTypes_sub cfg gens ps st strs st1 hps
        | err e => rw [hps] at h; simp at h
        | panic e => rw [hps] at h; simp at h
    | .vec r, st, s, st', h => by
      simp only [formatType] at h
      refine special_sub cfg gens _ st _ s st' ?_ h
      intro s2 st2 hk
      simp only [bind_ok_iff] at hk
      obtain ⟨⟨s1, st1⟩, h1, h2⟩ := hk
      simp only [Outcome.ok.injEq, Prod.mk.injEq] at h2
      rw [← h2.2]; exact formatType_sub cfg gens r st s1 st1 h1
    | .slice r, st, s, st', h => by
      simp only [formatType] at h
      refine special_sub cfg gens _ st _ s st' ?_ h
      intro s2 st2 hk
      simp only [bind_ok_iff] at hk
      obtain ⟨⟨s1, st1⟩, h1, h2⟩ := hk
      simp only [Outcome.ok.injEq, Prod.mk.injEq] at h2
      rw [← h2.2]; exact formatType_sub cfg gens r st s1 st1 h1
    | .array r n, st, s, st', h => by
      simp only [formatType] at h
      refine special_sub cfg gens _ st _ s st' ?_ h
      intro s2 st2 hk
      simp only [bind_ok_iff] at hk
      obtain ⟨⟨s1, st1⟩, h1, h2⟩ := hk
      simp only [Outcome.ok.injEq, Prod.mk.injEq] at h2
      rw [← h2.2]; exact formatType_sub cfg gens r st s1 st1 h1
    | .option r, st, s, st', h => by
      simp only [formatType] at h
      refine special_sub cfg gens _ st _ s st' ?_ h
      intro s2 st2 hk
      exact formatType_sub cfg gens r st s2 st2 hk
    | .hashMap k v, st, s, st', h => by
      simp only [formatType] at h
      refine special_sub cfg gens _ st _ s st' ?_ h
      intro s3 st3 hk
      have key : ∀ (x : Outcome (Str × CustomMap)),
          x = ((formatType cfg gens k st).bind fun (ks, st) =>
            (formatType cfg gens v st).bind fun (vs, st) =>
              .ok (s%"Record<" ++ ks ++ s%", " ++ vs ++ s%">", st)) → x = .ok (s3, st3) → Sub st st3 := by
        intro x hx hxo
        rw [hx] at hxo
        simp only [bind_ok_iff] at hxo
        obtain ⟨⟨s1, st1⟩, h1, ⟨s2, st2⟩, h2, h3⟩ := hxo
        simp only [Outcome.ok.injEq, Prod.mk.injEq] at h3
        rw [← h3.2]
        exact (formatType_sub cfg gens k st s1 st1 h1).trans (formatType_sub cfg gens v st1 s2 st2 h2)
      split at hk
      · split at hk
        · simp at hk
        · exact key _ rfl hk
      · exact key _ rfl hk
    | .prim p, st, s, st', h => by
      simp only [formatType] at h
      refine special_sub cfg gens _ st _ s st' ?_ h
      intro s2 st2 hk
      cases p <;> simp only [Outcome.ok.injEq, Prod.mk.injEq] at hk <;>
        first | (rw [← hk.2]; exact Sub.refl st) | (simp at hk)
  theorem formatTypes_sub (cfg : Cfg) (gens : List Str) : ∀ (ts : List RustType) (st : CustomMap) (ss : List Str)
      (st' : CustomMap), formatTypes cfg gens ts st = .ok (ss, st') → Sub st st'
    | [], st, ss, st', h => by
      simp only [formatTypes, Outcome.ok.injEq, Prod.mk.injEq] at h
      rw [← h.2]; exact Sub.refl st
    | t :: ts, st, ss, st', h => by
      simp only [formatTypes, bind_ok_iff] at h
      obtain ⟨⟨s1, st1⟩, h1, ⟨s2, st2⟩, h2, h3⟩ := h
      simp only [Outcome.ok.injEq, Prod.mk.injEq] at h3
      rw [← h3.2]
      exact (formatType_sub cfg gens t st s1 st1 h1).trans (formatTypes_sub cfg gens ts st1 s2 st2 h2)
end


/-! ### the printed type string does not depend on the printer state -/

theorem special_indep (cfg : Cfg) (gens : List Str) (t : RustType) (st : CustomMap)
    (k : CustomMap → Outcome (Str × CustomMap)) (s : Str) (st' : CustomMap)
    (hk : ∀ s st', k st = .ok (s, st') → ∀ st2, ∃ st2', k st2 = .ok (s, st2'))
    (h : special cfg gens t st k = .ok (s, st')) : ∀ st2, ∃ st2', special cfg gens t st2 k = .ok (s, st2') := by
  intro st2
  unfold special at h ⊢
  cases hm : mapGet cfg.typeMappings t.display with
  | some m =>
    rw [hm] at h
    simp only [Outcome.ok.injEq, Prod.mk.injEq] at h
    exact ⟨_, by rw [h.1]⟩
  | none => rw [hm] at h; exact hk s st' h st2

mutual
  theorem formatType_indep (cfg : Cfg) (gens : List Str) : ∀ (t : RustType) (st : CustomMap) (s : Str) (st' : CustomMap),
      formatType cfg gens t st = .ok (s, st') → ∀ st2, ∃ st2', formatType cfg gens t st2 = .ok (s, st2')
    | .simple id, st, s, st', h => by
      intro st2
      simp only [formatType, Outcome.ok.injEq, Prod.mk.injEq] at h ⊢
      exact ⟨st2, h.1, rfl⟩
    | .generic id ps, st, s, st', h => by
      intro st2
      simp only [formatType] at h ⊢
      cases hm : mapGet cfg.typeMappings id with
      | some m =>
        rw [hm] at h
        simp only [Outcome.ok.injEq, Prod.mk.injEq] at h ⊢
        exact ⟨st2, h.1, rfl⟩
      | none =>
        rw [hm] at h
        simp only at h ⊢
        cases hps : formatTypes cfg gens ps st with
        | ok r =>
          obtain ⟨strs, st1⟩ := r
          rw [hps] at h
          simp only [Outcome.ok.injEq, Prod.mk.injEq] at h
          obtain ⟨st3, h3⟩ := formatTypes_indep cfg gens ps st strs st1 hps st2
          rw [h3]
          exact ⟨st3, by rw [← h.1]⟩
        | err e => rw [hps] at h; simp at h
        | panic e => rw [hps] at h; simp at h
    | .vec r, st, s, st', h => by
      simp only [formatType] at h ⊢
      refine special_indep cfg gens _ st _ s st' ?_ h
      intro s2 st2 hk st3
      simp only [bind_ok_iff] at hk ⊢
      obtain ⟨⟨s1, st1⟩, h1, h2⟩ := hk
      simp only [Outcome.ok.injEq, Prod.mk.injEq] at h2
      obtain ⟨st4, h4⟩ := formatType_indep cfg gens r st s1 st1 h1 st3
      exact ⟨st4, (s1, st4), h4, by simp [← h2.1]⟩
    | .slice r, st, s, st', h => by
      simp only [formatType] at h ⊢
      refine special_indep cfg gens _ st _ s st' ?_ h
      intro s2 st2 hk st3
      simp only [bind_ok_iff] at hk ⊢
      obtain ⟨⟨s1, st1⟩, h1, h2⟩ := hk
      simp only [Outcome.ok.injEq, Prod.mk.injEq] at h2
      obtain ⟨st4, h4⟩ := formatType_indep cfg gens r st s1 st1 h1 st3
      exact ⟨st4, (s1, st4), h4, by simp [← h2.1]⟩
    | .array r n, st, s, st', h => by
      simp only [formatType] at h ⊢
      refine special_indep cfg gens _ st _ s st' ?_ h
      intro s2 st2 hk st3
      simp only [bind_ok_iff] at hk ⊢
      obtain ⟨⟨s1, st1⟩, h1, h2⟩ := hk
      simp only [Outcome.ok.injEq, Prod.mk.injEq] at h2
      obtain ⟨st4, h4⟩ := formatType_indep cfg gens r st s1 st1 h1 st3
      exact ⟨st4, (s1, st4), h4, by simp [← h2.1]⟩
    | .option r, st, s, st', h => by
      simp only [formatType] at h ⊢
      refine special_indep cfg gens _ st _ s st' ?_ h
      intro s2 st2 hk st3
      exact formatType_indep cfg gens r st s2 st2 hk st3
    | .hashMap k v, st, s, st', h => by
      simp only [formatType] at h ⊢
      refine special_indep cfg gens _ st _ s st' ?_ h
      intro s3 st3 hk st4
      have key : ((formatType cfg gens k st).bind fun (ks, st) =>
            (formatType cfg gens v st).bind fun (vs, st) =>
              .ok (s%"Record<" ++ ks ++ s%", " ++ vs ++ s%">", st)) = .ok (s3, st3) →
          ∃ st5, ((formatType cfg gens k st4).bind fun (ks, st) =>
            (formatType cfg gens v st).bind fun (vs, st) =>
              .ok (s%"Record<" ++ ks ++ s%", " ++ vs ++ s%">", st)) = .ok (s3, st5) := by
        intro hxo
        simp only [bind_ok_iff] at hxo ⊢
        obtain ⟨⟨s1, st1⟩, h1, ⟨s2, st2⟩, h2, h3⟩ := hxo
        simp only [Outcome.ok.injEq, Prod.mk.injEq] at h3
        obtain ⟨st6, h6⟩ := formatType_indep cfg gens k st s1 st1 h1 st4
        obtain ⟨st7, h7⟩ := formatType_indep cfg gens v st1 s2 st2 h2 st6
        exact ⟨st7, (s1, st6), h6, (s2, st7), h7, by simp [← h3.1]⟩
      split at hk
      · split at hk
        · simp at hk
        · rename_i hc
          simp only [hc, Bool.false_eq_true, if_false]
          exact key hk
      · exact key hk
    | .prim p, st, s, st', h => by
      simp only [formatType] at h ⊢
      refine special_indep cfg gens _ st _ s st' ?_ h
      intro s2 st2 hk st3
      cases p <;> simp only [Outcome.ok.injEq, Prod.mk.injEq] at hk ⊢ <;>
        first | exact ⟨st3, hk.1, rfl⟩ | (simp at hk)
  theorem formatTypes_indep (cfg : Cfg) (gens : List Str) : ∀ (ts : List RustType) (st : CustomMap) (ss : List Str)
      (st' : CustomMap), formatTypes cfg gens ts st = .ok (ss, st') →
      ∀ st2, ∃ st2', formatTypes cfg gens ts st2 = .ok (ss, st2')
    | [], st, ss, st', h => by
      intro st2
      simp only [formatTypes, Outcome.ok.injEq, Prod.mk.injEq] at h ⊢
      exact ⟨st2, h.1, rfl⟩
    | t :: ts, st, ss, st', h => by
      intro st2
      simp only [formatTypes, bind_ok_iff] at h ⊢
      obtain ⟨⟨s1, st1⟩, h1, ⟨s2, st3⟩, h2, h3⟩ := h
      simp only [Outcome.ok.injEq, Prod.mk.injEq] at h3
      obtain ⟨st4, h4⟩ := formatType_indep cfg gens t st s1 st1 h1 st2
      obtain ⟨st5, h5⟩ := formatTypes_indep cfg gens ts st1 s2 st3 h2 st4
      exact ⟨st5, (s1, st4), h4, (s2, st5), h5, by simp [← h3.1]⟩
end


/-! ## fields, items, files -/

/-- the TypeScript type a field is printed with: the user's override, else what `format_type`
prints (the string does not depend on the printer state: `formatType_indep`) -/
def fieldTy (cfg : Cfg) (gens : List Str) (f : RustField) : Option Str :=
  match typeOverride f .typescript with
  | some t => some t
  | none =>
    match formatType cfg gens f.ty [] with
    | .ok (s, _) => some s
    | _ => none

/-- the custom-translated type (`Uint8Array`, `Date`) a field is printed with, if any: such a field
relies on the matching clause of `ReviverFunc` / `ReplacerFunc` -/
def fieldNeeds (cfg : Cfg) (gens : List Str) (f : RustField) : List Str :=
  match fieldTy cfg gens f with
  | some ty => if hasCustom ty then [ty] else []
  | none => []

theorem fieldFacts_spec (cfg : Cfg) (gens : List Str) (f : RustField) (st : CustomMap) (tf : TsField)
    (st' : CustomMap) (h : fieldFacts cfg gens f st = .ok (tf, st')) :
    Sub st st' ∧ fieldTy cfg gens f = some tf.ty ∧ ∀ t ∈ fieldNeeds cfg gens f, t ∈ keys st' := by
  simp only [fieldFacts, bind_ok_iff] at h
  obtain ⟨⟨ty, st1⟩, h1, h2⟩ := h
  simp only [Outcome.ok.injEq, Prod.mk.injEq] at h2
  obtain ⟨h2a, h2b⟩ := h2
  have hsub1 : Sub st st1 ∧ fieldTy cfg gens f = some ty := by
    unfold fieldTy
    cases ho : typeOverride f .typescript with
    | some t =>
      rw [ho] at h1
      simp only [Outcome.ok.injEq, Prod.mk.injEq] at h1
      rw [← h1.2, ← h1.1]; exact ⟨Sub.refl st, rfl⟩
    | none =>
      rw [ho] at h1
      refine ⟨formatType_sub cfg gens f.ty st ty st1 h1, ?_⟩
      obtain ⟨st2, h3⟩ := formatType_indep cfg gens f.ty st ty st1 h1 []
      simp [h3]
  have hty : tf.ty = ty := by rw [← h2a]
  rw [hty]
  refine ⟨?_, hsub1.2, ?_⟩
  · rw [← h2b]
    split
    · exact hsub1.1.trans (Sub.insert st1 _ _)
    · exact hsub1.1
  · intro t ht
    simp only [fieldNeeds, hsub1.2] at ht
    split at ht
    · rename_i hc
      simp only [List.mem_singleton] at ht
      subst ht
      rw [← h2b]
      simp only [hc, if_true]
      exact (keys_cmInsert _ _ _ _).2 (Or.inl rfl)
    · simp at ht

theorem writeFields_spec (cfg : Cfg) (gens : List Str) : ∀ (fs : List RustField) (st : CustomMap) (text : Str)
    (st' : CustomMap), writeFields cfg gens fs st = .ok (text, st') →
    Sub st st' ∧ ∀ t ∈ fs.flatMap (fieldNeeds cfg gens), t ∈ keys st'
  | [], st, text, st', h => by
    simp only [writeFields, Outcome.ok.injEq, Prod.mk.injEq] at h
    rw [← h.2]; exact ⟨Sub.refl st, by simp⟩
  | f :: fs, st, text, st', h => by
    simp only [writeFields, bind_ok_iff] at h
    obtain ⟨⟨tf, st1⟩, h1, ⟨r, st2⟩, h2, h3⟩ := h
    simp only [Outcome.ok.injEq, Prod.mk.injEq] at h3
    obtain ⟨hs1, _, hn1⟩ := fieldFacts_spec cfg gens f st tf st1 h1
    obtain ⟨hs2, hn2⟩ := writeFields_spec cfg gens fs st1 r st2 h2
    rw [← h3.2]
    refine ⟨hs1.trans hs2, ?_⟩
    intro t ht
    simp only [List.flatMap_cons, List.mem_append] at ht
    rcases ht with ht | ht
    · exact hs2 t (hn1 t ht)
    · exact hn2 t ht

def variantNeeds (cfg : Cfg) (e : RustEnum) : RustEnumVariant → List Str
  | .anonymousStruct _ _ fs => fs.flatMap (fieldNeeds cfg e.genericTypes)
  | _ => []

theorem writeVariants_spec (cfg : Cfg) (e : RustEnum) (tag content : Str) :
    ∀ (vs : List RustEnumVariant) (st : CustomMap) (text : Str) (st' : CustomMap),
    writeVariants cfg e tag content vs st = .ok (text, st') →
    Sub st st' ∧ ∀ t ∈ vs.flatMap (variantNeeds cfg e), t ∈ keys st'
  | [], st, text, st', h => by
    simp only [writeVariants, Outcome.ok.injEq, Prod.mk.injEq] at h
    rw [← h.2]; exact ⟨Sub.refl st, by simp⟩
  | v :: vs, st, text, st', h => by
    simp only [writeVariants, bind_ok_iff] at h
    obtain ⟨⟨a, st1⟩, h1, ⟨b, st2⟩, h2, h3⟩ := h
    simp only [Outcome.ok.injEq, Prod.mk.injEq] at h3
    have hv : Sub st st1 ∧ ∀ t ∈ variantNeeds cfg e v, t ∈ keys st1 := by
      cases v with
      | unit i c =>
        simp only [writeVariant, Outcome.ok.injEq, Prod.mk.injEq] at h1
        rw [← h1.2]; exact ⟨Sub.refl st, by simp [variantNeeds]⟩
      | tuple i c ty =>
        simp only [writeVariant, bind_ok_iff] at h1
        obtain ⟨⟨t, st3⟩, h4, h5⟩ := h1
        simp only [Outcome.ok.injEq, Prod.mk.injEq] at h5
        rw [← h5.2]; exact ⟨formatType_sub cfg _ ty st t st3 h4, by simp [variantNeeds]⟩
      | anonymousStruct i c fs =>
        simp only [writeVariant, bind_ok_iff] at h1
        obtain ⟨⟨t, st3⟩, h4, h5⟩ := h1
        simp only [Outcome.ok.injEq, Prod.mk.injEq] at h5
        rw [← h5.2]; exact writeFields_spec cfg _ fs st t st3 h4
    obtain ⟨hs2, hn2⟩ := writeVariants_spec cfg e tag content vs st1 b st2 h2
    rw [← h3.2]
    refine ⟨hv.1.trans hs2, ?_⟩
    intro t ht
    simp only [List.flatMap_cons, List.mem_append] at ht
    rcases ht with ht | ht
    · exact hs2 t (hv.2 t ht)
    · exact hn2 t ht

/-- the custom-translated field types one item is printed with -/
def itemNeeds (cfg : Cfg) : RustItem → List Str
  | .struct s => s.fields.flatMap (fieldNeeds cfg s.genericTypes)
  | .enum e => (match e.keys with
    | none => []
    | some _ => e.variants.flatMap (variantNeeds cfg e))
  | _ => []

theorem writeItem_spec (U : UnicodeOps) (cfg : Cfg) (it : RustItem) (st : CustomMap) (text : Str) (st' : CustomMap)
    (h : writeItem U cfg it st = .ok (text, st')) : Sub st st' ∧ ∀ t ∈ itemNeeds cfg it, t ∈ keys st' := by
  cases it with
  | struct rs =>
    simp only [writeItem, writeStruct, bind_ok_iff] at h
    obtain ⟨⟨b, st1⟩, h1, h2⟩ := h
    simp only [Outcome.ok.injEq, Prod.mk.injEq] at h2
    rw [← h2.2]; exact writeFields_spec cfg _ rs.fields st b st1 h1
  | «enum» e =>
    simp only [writeItem, writeEnum] at h
    simp only [itemNeeds]
    cases hk : e.keys with
    | none =>
      rw [hk] at h
      simp only [Outcome.ok.injEq, Prod.mk.injEq] at h
      rw [← h.2]; exact ⟨Sub.refl st, by simp⟩
    | some k =>
      rw [hk] at h
      simp only [bind_ok_iff] at h
      obtain ⟨⟨b, st1⟩, h1, h2⟩ := h
      simp only [Outcome.ok.injEq, Prod.mk.injEq] at h2
      rw [← h2.2]; exact writeVariants_spec cfg e _ _ e.variants st b st1 h1
  | alias a =>
    simp only [writeItem, writeAlias, bind_ok_iff] at h
    obtain ⟨⟨t, st1⟩, h1, h2⟩ := h
    simp only [Outcome.ok.injEq, Prod.mk.injEq] at h2
    rw [← h2.2]; exact ⟨formatType_sub cfg _ a.ty st t st1 h1, by simp [itemNeeds]⟩
  | const c =>
    simp only [writeItem, writeConst, bind_ok_iff] at h
    obtain ⟨⟨t, st1⟩, h1, h2⟩ := h
    simp only [Outcome.ok.injEq, Prod.mk.injEq] at h2
    rw [← h2.2]; exact ⟨formatType_sub cfg _ c.ty st t st1 h1, by simp [itemNeeds]⟩

theorem writeItems_spec (U : UnicodeOps) (cfg : Cfg) : ∀ (its : List RustItem) (st : CustomMap) (text : Str)
    (st' : CustomMap), writeItems U cfg its st = .ok (text, st') →
    Sub st st' ∧ ∀ t ∈ its.flatMap (itemNeeds cfg), t ∈ keys st'
  | [], st, text, st', h => by
    simp only [writeItems, Outcome.ok.injEq, Prod.mk.injEq] at h
    rw [← h.2]; exact ⟨Sub.refl st, by simp⟩
  | it :: its, st, text, st', h => by
    simp only [writeItems, bind_ok_iff] at h
    obtain ⟨⟨a, st1⟩, h1, ⟨b, st2⟩, h2, h3⟩ := h
    simp only [Outcome.ok.injEq, Prod.mk.injEq] at h3
    obtain ⟨hs1, hn1⟩ := writeItem_spec U cfg it st a st1 h1
    obtain ⟨hs2, hn2⟩ := writeItems_spec U cfg its st1 b st2 h2
    rw [← h3.2]
    refine ⟨hs1.trans hs2, ?_⟩
    intro t ht
    simp only [List.flatMap_cons, List.mem_append] at ht
    rcases ht with ht | ht
    · exact hs2 t (hn1 t ht)
    · exact hn2 t ht

/-- **helpersUsed (TypeScript)**: the custom-translated types the fields of the file are printed with -/
def used (cfg : Cfg) (d : ParsedData) : List Str := (itemsOf d).flatMap (itemNeeds cfg)

theorem used_custom (cfg : Cfg) (d : ParsedData) : ∀ t ∈ used cfg d, hasCustom t = true := by
  intro t ht
  simp only [used, List.mem_flatMap] at ht
  obtain ⟨it, _, hit⟩ := ht
  have hf : ∀ gens (f : RustField), t ∈ fieldNeeds cfg gens f → hasCustom t = true := by
    intro gens f h
    unfold fieldNeeds at h
    split at h
    · split at h
      · rename_i hc; simp only [List.mem_singleton] at h; rw [h]; exact hc
      · simp at h
    · simp at h
  cases it with
  | struct rs =>
    simp only [itemNeeds, List.mem_flatMap] at hit
    obtain ⟨f, _, h⟩ := hit
    exact hf _ f h
  | «enum» e =>
    simp only [itemNeeds] at hit
    cases hk : e.keys with
    | none => rw [hk] at hit; simp at hit
    | some k =>
      rw [hk] at hit
      simp only [List.mem_flatMap] at hit
      obtain ⟨v, _, h⟩ := hit
      cases v with
      | unit i c => simp [variantNeeds] at h
      | tuple i c ty => simp [variantNeeds] at h
      | anonymousStruct i c fs =>
        simp only [variantNeeds, List.mem_flatMap] at h
        obtain ⟨f, _, h⟩ := h
        exact hf _ f h
  | alias a => simp [itemNeeds] at hit
  | const c => simp [itemNeeds] at hit

theorem generate_spec (U : UnicodeOps) (cfg : Cfg) (d : ParsedData) (imports : Option Pipeline.ScopedCrateTypes)
    (st0 : CustomMap) (text : Str) (st : CustomMap) (h : generate U cfg d imports st0 = .ok (text, st)) :
    (∀ t ∈ used cfg d, t ∈ keys st) ∧ Sub st0 st ∧ ∃ pre, text = pre ++ endFile st := by
  unfold generate at h
  cases ho : Pipeline.generateOrder d with
  | none => rw [ho] at h; simp at h
  | some items =>
    rw [ho] at h
    simp only [bind_ok_iff] at h
    obtain ⟨⟨body, st1⟩, h1, h2⟩ := h
    simp only [Outcome.ok.injEq, Prod.mk.injEq] at h2
    obtain ⟨hs, hn⟩ := writeItems_spec U cfg items st0 body st1 h1
    rw [← h2.2]
    refine ⟨?_, hs, _, h2.1.symm⟩
    intro t ht
    apply hn
    simp only [used, List.mem_flatMap] at ht ⊢
    obtain ⟨it, hit, h⟩ := ht
    exact ⟨it, (generateOrder_perm d items ho).symm.subset hit, h⟩

/-- the clauses `end_file` puts into `ReviverFunc` / `ReplacerFunc` -/
def clauses (st : CustomMap) : List (Str × Str) :=
  st.filterMap fun (t, _) =>
    if t == s%"Uint8Array" then some (reviverUint8, replacerUint8)
    else if t == s%"Date" then some (reviverDate ((cmGet st s%"Date").getD []), replacerDate)
    else none

/-- the clause that handles values of the custom-translated type `t` -/
def clauseFor (st : CustomMap) (t : Str) : Str × Str :=
  if t == s%"Uint8Array" then (reviverUint8, replacerUint8)
  else (reviverDate ((cmGet st s%"Date").getD []), replacerDate)

/-- **helpersProvided (TypeScript)**: a key of the final map that has a custom translation gets its
clause, and the footer with both functions is written -/
theorem endFile_provides (st : CustomMap) (t : Str) (ht : t ∈ keys st) (hc : hasCustom t = true) :
    clauseFor st t ∈ clauses st ∧
    ∃ pre, endFile st = pre ++
      s%"export const ReviverFunc = (key: string, value: unknown): unknown => {\n    " ++
      Str.intercalate s%"\n    " ((clauses st).map (·.1)) ++
      s%"\n    return value;\n};\n\nexport const ReplacerFunc = (key: string, value: unknown): unknown => {\n    " ++
      Str.intercalate s%"\n    " ((clauses st).map (·.2)) ++ s%"\n    return value;\n};\n" := by
  constructor
  · simp only [keys, List.mem_map] at ht
    obtain ⟨⟨t', v⟩, hm, rfl⟩ := ht
    simp only [clauses, List.mem_filterMap]
    refine ⟨(t', v), hm, ?_⟩
    simp only [hasCustom, Bool.or_eq_true] at hc
    simp only [clauseFor]
    rcases hc with hc | hc
    · simp [hc]
    · by_cases h8 : (t' == s%"Uint8Array") = true
      · simp [h8]
      · simp [h8, hc]
  · have hne : st.isEmpty = false := by
      cases st with
      | nil => simp [keys] at ht
      | cons a b => rfl
    unfold endFile
    simp only [hne, Bool.false_eq_true, if_false]
    exact ⟨_, rfl⟩

end TsV.C12L.TypeScript
