import TsV.Lemmas.C06_Multi_Jobs
/-!
# `used_imports`: exact membership, completeness of the three branches, the fallback oracle

`C06M.usedImports_eq_fold` / `C06M.foldC_mem` show that the fold of `Pipeline.usedImports` computes a union of
per-import *contributions* (`C06M.contrib`): the scoped map operations never lose an earlier insertion.  This
file turns that into the membership characterisation used by C14 and evaluates `contrib` on its three branches
(named import that resolves directly, glob import, re-export fallback).
-/
namespace TsV.C14I
open TsV TsV.Pipeline TsV.C06M

/-! ### monotonicity of the scoped map operations (earlier insertions are kept) -/

theorem scopedInsert_keeps (m : ScopedCrateTypes) (c t c' t' : Str) (h : SMem m c' t') :
    SMem (scopedInsert m c t true) c' t' := (scopedInsert_mem c t c' t' m).2 (Or.inr h)

theorem scopedInsert_adds (m : ScopedCrateTypes) (c t : Str) : SMem (scopedInsert m c t true) c t :=
  (scopedInsert_mem c t c t m).2 (Or.inl ⟨rfl, rfl⟩)

theorem scopedEnsure_keeps (m : ScopedCrateTypes) (c c' t' : Str) (h : SMem m c' t') :
    SMem (scopedEnsure m c) c' t' := (scopedEnsure_mem c c' t' m).2 h

theorem insertSorted_keeps (t x : Str) (v : List Str) (h : x ∈ v) : x ∈ Parser.insertSorted Str.lt t v :=
  (mem_insertSorted x t v).2 (Or.inr h)

theorem insertSorted_adds (t : Str) (v : List Str) : t ∈ Parser.insertSorted Str.lt t v :=
  (mem_insertSorted t t v).2 (Or.inl rfl)

/-! ### exact membership in the result of `used_imports` -/

/-- **exact characterisation**: `t` is imported from crate `c` iff some import of another crate contributes it -/
theorem usedImports_smem_iff (d : ParsedData) (all : List (Str × List Str)) (imports : List ImportedType)
    (fo : Str → Option Str) (c t : Str) :
    SMem (usedImports d all imports fo) c t ↔
      ∃ i ∈ imports, i.baseCrate ≠ d.crateName ∧ ∃ x, contrib all fo i = some x ∧ c = x.1 ∧ t ∈ x.2 := by
  rw [usedImports_eq_fold, foldC_mem]
  constructor
  · rintro (⟨i, hi, x, hx, hc, ht⟩ | h)
    · simp only [List.mem_filter, bne_iff_ne, ne_eq] at hi
      exact ⟨i, hi.1, hi.2, x, hx, hc, ht⟩
    · exact absurd h (smem_nil c t)
  · rintro ⟨i, hi, hne, x, hx, hc, ht⟩
    exact Or.inl ⟨i, by simp only [List.mem_filter, bne_iff_ne, ne_eq]; exact ⟨hi, hne⟩, x, hx, hc, ht⟩

/-- the crates that get an import line -/
theorem usedImports_keys_iff (d : ParsedData) (all : List (Str × List Str)) (imports : List ImportedType)
    (fo : Str → Option Str) (c : Str) :
    c ∈ SKeys (usedImports d all imports fo) ↔
      ∃ i ∈ imports, i.baseCrate ≠ d.crateName ∧ ∃ x, contrib all fo i = some x ∧ c = x.1 := by
  rw [usedImports_eq_fold, foldC_keys]
  constructor
  · rintro (⟨i, hi, x, hx, hc⟩ | h)
    · simp only [List.mem_filter, bne_iff_ne, ne_eq] at hi
      exact ⟨i, hi.1, hi.2, x, hx, hc⟩
    · simp [SKeys] at h
  · rintro ⟨i, hi, hne, x, hx, hc⟩
    exact Or.inl ⟨i, by simp only [List.mem_filter, bne_iff_ne, ne_eq]; exact ⟨hi, hne⟩, x, hx, hc⟩

/-! ### the three branches of one import's contribution -/

theorem contrib_named (all : List (Str × List Str)) (fo : Str → Option Str) (imp : ImportedType) (k : Str)
    (ns : List Str) (hf : all.find? (·.1 == imp.baseCrate) = some (k, ns))
    (hstar : imp.typeName ≠ s%"*") (hn : imp.typeName ∈ ns) :
    contrib all fo imp = some (imp.baseCrate, [imp.typeName]) := by
  unfold contrib
  rw [hf]
  have h1 : (imp.typeName == s%"*") = false := by simpa using hstar
  have h2 : ns.contains imp.typeName = true := by simpa using hn
  simp only [h1, Bool.false_eq_true, if_false, h2, if_true]

theorem contrib_glob (all : List (Str × List Str)) (fo : Str → Option Str) (imp : ImportedType) (k : Str)
    (ns : List Str) (hf : all.find? (·.1 == imp.baseCrate) = some (k, ns)) (hstar : imp.typeName = s%"*") :
    contrib all fo imp = some (imp.baseCrate, ns) := by
  unfold contrib
  rw [hf]
  have h1 : (imp.typeName == s%"*") = true := by simpa using hstar
  simp only [h1, if_true]

theorem contrib_fallback (all : List (Str × List Str)) (fo : Str → Option Str) (imp : ImportedType)
    (h : takesFallback all imp = true) :
    contrib all fo imp = (fo imp.typeName).map fun c => (c, [imp.typeName]) := by
  unfold contrib
  unfold takesFallback at h
  cases hf : all.find? (·.1 == imp.baseCrate) with
  | none => rfl
  | some p =>
    obtain ⟨k, ns⟩ := p
    rw [hf] at h
    simp only [Bool.and_eq_true, Bool.not_eq_true'] at h
    simp only [h.1, h.2, Bool.false_eq_true, if_false]

/-- whatever the branch: an import whose crate entry lists its name contributes (crate, name) -/
theorem contrib_direct (all : List (Str × List Str)) (fo : Str → Option Str) (imp : ImportedType) (k : Str)
    (ns : List Str) (hf : all.find? (·.1 == imp.baseCrate) = some (k, ns)) (hn : imp.typeName ∈ ns) :
    ∃ x, contrib all fo imp = some x ∧ imp.baseCrate = x.1 ∧ imp.typeName ∈ x.2 := by
  by_cases hstar : imp.typeName = s%"*"
  · exact ⟨_, contrib_glob all fo imp k ns hf hstar, rfl, hn⟩
  · exact ⟨_, contrib_named all fo imp k ns hf hstar hn, rfl, by simp⟩

/-! ### the entry of a crate in an association list with distinct keys -/

theorem find?_key_of_mem {β} : ∀ (all : List (Str × β)) (c : Str) (v : β),
    (all.map (·.1)).Nodup → (c, v) ∈ all → all.find? (·.1 == c) = some (c, v)
  | [], _, _, _, h => by simp at h
  | (k, w) :: rest, c, v, hnd, h => by
    simp only [List.map_cons, List.nodup_cons] at hnd
    simp only [List.mem_cons, Prod.mk.injEq] at h
    rcases h with ⟨rfl, rfl⟩ | h
    · simp
    · have hne : (k == c) = false := by
        cases hkc : k == c with
        | false => rfl
        | true =>
          have := eq_of_beq hkc
          subst this
          exact absurd (List.mem_map.2 ⟨(k, v), h, rfl⟩) hnd.1
      simp only [List.find?_cons, hne]
      exact find?_key_of_mem rest c v hnd.2 h

/-! ### the fallback oracle of the pipeline -/

/-- `firstOther` finds a crate whenever some crate other than the current one lists the name -/
theorem firstOther_complete (all : List (Str × List Str)) (cur name : Str)
    (h : ∃ p ∈ all, p.1 ≠ cur ∧ name ∈ p.2) : ∃ c, Generate.firstOther all cur name = some c := by
  obtain ⟨p, hp, hne, hn⟩ := h
  cases hf : Generate.firstOther all cur name with
  | some c => exact ⟨c, rfl⟩
  | none => exact absurd hn (MinByKey.firstOther_eq_none.1 hf p.1 p.2 hp hne)

/-- … and the crate it answers with is another crate that lists the name … -/
theorem firstOther_spec (all : List (Str × List Str)) (cur name c : Str)
    (h : Generate.firstOther all cur name = some c) : c ≠ cur ∧ ∃ ns, (c, ns) ∈ all ∧ name ∈ ns := by
  obtain ⟨⟨ns, hm, hne, hn⟩, _⟩ := MinByKey.firstOther_spec h
  exact ⟨hne, ns, hm, hn⟩

/-- … the one with the smallest name among them (`min_by_key` on the crate name) -/
theorem firstOther_smallest (all : List (Str × List Str)) (cur name c : Str)
    (h : Generate.firstOther all cur name = some c) :
    ∀ c' ns, (c', ns) ∈ all → c' ≠ cur → name ∈ ns → Str.le c c' = true :=
  (MinByKey.firstOther_spec h).2

end TsV.C14I
