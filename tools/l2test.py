import sys, random
sys.path.insert(0, '/verif/tools')
import common
from l2 import *
lang = sys.argv[1]
rng = random.Random(int(sys.argv[2]) if len(sys.argv) > 2 else 1)
N = int(sys.argv[3]) if len(sys.argv) > 3 else 300
common.build_runner()
cases = []
MAPS = {"typescript": [{}, {}, {"Url": "string"}, {"Vec<u8>": "Uint8Array"}, {"OffsetDateTime": "Date", "Foo": "FooMapped"}, {"Option<String>": "Maybe", "HashMap<String,u8>": "Dict"}]}
for i in range(N):
    g = Gen(rng, p_cfg=0.0, p_edge=0.0, p_decorators=0.15, p_doc=0.4)
    f = g.file()
    cfg = {"type_mappings": rng.choice(MAPS.get(lang, [{}])), "version_header": rng.random() < 0.2,
           "package": "com.example.pkg", "module_name": "mod", "prefix": rng.choice(["", "", "OP"])}
    m, r, t = requests(lang, cfg, [{"crate": "", "file_name": "out", "path": "src/lib.rs", "file": f}], g)
    cases.append((m, r, t))
mans = [norm(a) for a in common.model([c[0] for c in cases])]
rans = [norm(a) for a in common.runner([c[1] for c in cases])]
diffs = [i for i, (a, b) in enumerate(zip(mans, rans)) if a != b]
from collections import Counter
print("cases", N, "diffs", len(diffs), Counter(list(a.keys())[0] for a in rans))
for i in diffs[:3]:
    print("------", i)
    print(cases[i][2][0])
    a, b = mans[i], rans[i]
    if "ok" in a and "ok" in b:
        for k in b["ok"]:
            print(text_diff(a["ok"].get(k, ""), b["ok"][k]))
            print("IMPL:\n" + b["ok"][k])
    else:
        print("model:", str(a)[:400]); print("impl:", str(b)[:400])
