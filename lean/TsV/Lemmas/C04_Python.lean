import TsV.Model.Lang.Python
import TsV.Lemmas.C04_Common
/-!
# C04 for the Python back end (`write_field`, python.rs:436-483)
-/
namespace TsV.C04.Py
open TsV TsV.Lang TsV.Lang.Python TsV.C04

/-! ## binding semantics (trusted specification)

pydantic's idiom for an optional field is `name: Optional[T] = Field(default=None)`: the type is
`Optional[…]` *and* the default is `None`.  For the two custom-translated types (`bytes`,
`datetime`) the type is wrapped as `Annotated[<type>, BeforeValidator(f), PlainSerializer(g)]`;
the validators are metadata, the first argument is the type.  Because of that wrapper the
semantics is given as a relation between the fact record and the pair (optional?, underlying
type) rather than by parsing the string. -/

/-- `Annotated[core, BeforeValidator(…), PlainSerializer(…)]` with the functions of `c` -/
def annotated (core : Str) (c : CustomFns) : Str :=
  s%"Annotated[" ++ core ++ s%", BeforeValidator(" ++ c.deserializationName ++
    s%"), PlainSerializer(" ++ c.serializationName ++ s%")]"

/-- `ty` spells the type `core`: bare, or inside the `Annotated[…]` wrapper of one of the two
custom translations -/
def Spells (ty core : Str) : Prop :=
  ty = core ∨ ty = annotated core bytesFns ∨ ty = annotated core datetimeFns

def optionalOf (core : Str) : Str := s%"Optional[" ++ core ++ s%"]"

/-- the field record declares a field that is optional (`o = true`: `Optional[core]` with default
`None`) or required (`o = false`: `core`, no default) -/
def Denotes (p : PyField) (o : Bool) (core : Str) : Prop :=
  p.default = (if o then some s%"None" else none) ∧
  Spells p.ty (if o then optionalOf core else core)

/-! ## `format_type` on `Option` -/

theorem formatType_option {cfg : Cfg} {gens : List Str} {r : RustType} (st : St)
    (h : NoOptionKey cfg.typeMappings (.option r)) :
    formatType cfg gens (.option r) st =
      (formatType cfg gens r (addImport st kTyping s%"Optional")).bind fun (x : Str × St) =>
        .ok (optionalOf x.1, x.2) := by
  have h' : mapGet cfg.typeMappings (RustType.option r).display = none := h rfl
  rw [formatType]
  simp only [special, h']
  rfl

theorem formatType_option_ok {cfg : Cfg} {gens : List Str} {r : RustType} {st st' : St} {t : Str}
    (hk : NoOptionKey cfg.typeMappings (.option r))
    (h : formatType cfg gens (.option r) st = .ok (t, st')) :
    ∃ s, formatType cfg gens r (addImport st kTyping s%"Optional") = .ok (s, st') ∧ t = optionalOf s := by
  rw [formatType_option st hk] at h
  obtain ⟨⟨s, st1⟩, hs, h⟩ := bind_ok h
  simp only [Outcome.ok.injEq, Prod.mk.injEq] at h
  obtain ⟨h1, h2⟩ := h
  subst h2
  exact ⟨s, hs, h1.symm⟩

theorem jsonTranslation_optionalOf (s : Str) : jsonTranslation (optionalOf s) = none := by
  simp [jsonTranslation, optionalOf]

theorem jsonTranslation_cases {t : Str} {c : CustomFns} (h : jsonTranslation t = some c) :
    c = bytesFns ∨ c = datetimeFns := by
  unfold jsonTranslation at h
  split at h
  · left; simpa using h.symm
  · split at h
    · right; simpa using h.symm
    · simp at h

/-! ## one field -/

/-- **Python, one field**: `Optional[T]` with default `None` exactly when the field is `Option<_>`
or has `serde(default)`; `T` is the translation of the `Option`-stripped Rust type (for some
printer state: the import set differs, the text does not depend on it) -/
theorem field {E : Ext} {cfg : Cfg} {gens : List Str} {f : RustField} {st st' : St} {p : PyField}
    (hk : NoOptionKey cfg.typeMappings f.ty)
    (h : fieldFacts E cfg gens f st = .ok (p, st')) :
    ∃ core st0 st1, formatType cfg gens (stripOption f.ty) st0 = .ok (core, st1) ∧
      Denotes p (opt f) core := by
  unfold fieldFacts at h
  obtain ⟨⟨pt, st1⟩, hpt, h⟩ := bind_ok h
  simp only at h
  by_cases ho : f.ty.isOptional = true
  · obtain ⟨r, hr⟩ := (isOptional_iff _).1 ho
    rw [hr] at hpt hk
    obtain ⟨s, hs, hts⟩ := formatType_option_ok hk hpt
    subst hts
    refine ⟨s, _, _, by rw [hr]; exact hs, ?_⟩
    simp only [jsonTranslation_optionalOf, ho, Bool.true_or, Bool.not_true, Bool.false_and,
      Bool.false_eq_true, if_false, if_true, Outcome.ok.injEq, Prod.mk.injEq] at h
    rw [← h.1]
    exact ⟨by simp [opt, ho], by simp [opt, ho, Spells]⟩
  · have ho' : f.ty.isOptional = false := by simpa using ho
    refine ⟨pt, st, st1, by rw [stripOption_of_not_optional _ ho']; exact hpt, ?_⟩
    cases hdef : f.hasDefault with
    | true =>
      cases hc : jsonTranslation pt with
      | none =>
        simp only [hc, ho', hdef, Bool.false_or, Bool.not_false, Bool.true_and, if_true,
          Outcome.ok.injEq, Prod.mk.injEq] at h
        rw [← h.1]
        exact ⟨by simp [opt, hdef], by simp [opt, hdef, Spells, optionalOf]⟩
      | some c =>
        simp only [hc, ho', hdef, Bool.false_or, Bool.not_false, Bool.true_and, if_true,
          Outcome.ok.injEq, Prod.mk.injEq] at h
        rw [← h.1]
        refine ⟨by simp [opt, hdef], ?_⟩
        rcases jsonTranslation_cases hc with rfl | rfl <;>
          simp [opt, hdef, Spells, optionalOf, annotated]
    | false =>
      cases hc : jsonTranslation pt with
      | none =>
        simp only [hc, ho', hdef, Bool.false_or, Bool.and_false, Bool.false_eq_true, if_false,
          Outcome.ok.injEq, Prod.mk.injEq] at h
        rw [← h.1]
        exact ⟨by simp [opt, hdef, ho'], by simp [opt, hdef, ho', Spells]⟩
      | some c =>
        simp only [hc, ho', hdef, Bool.false_or, Bool.and_false, Bool.false_eq_true, if_false,
          Outcome.ok.injEq, Prod.mk.injEq] at h
        rw [← h.1]
        refine ⟨by simp [opt, hdef, ho'], ?_⟩
        rcases jsonTranslation_cases hc with rfl | rfl <;>
          simp [opt, hdef, ho', Spells, annotated]

/-! ## every field of a struct, of a struct variant; payloads; aliases -/

def FieldGen (E : Ext) (cfg : Cfg) (gens : List Str) (f : RustField) (p : PyField) : Prop :=
  ∃ st st', fieldFacts E cfg gens f st = .ok (p, st')

theorem fieldsFacts_pointwise (E : Ext) (cfg : Cfg) (gens : List Str) :
    ∀ (fs : List RustField) (st : St) (ps : List PyField) (st' : St),
      fieldsFacts E cfg gens fs st = .ok (ps, st') → Pointwise (FieldGen E cfg gens) fs ps := by
  intro fs
  induction fs with
  | nil => intro st ps st' h; simp [fieldsFacts] at h; rw [h.1]; exact .nil
  | cons f t ih =>
    intro st ps st' h
    simp only [fieldsFacts] at h
    obtain ⟨⟨pf, st1⟩, hpf, h⟩ := bind_ok h
    obtain ⟨⟨rest, st2⟩, hrest, h⟩ := bind_ok h
    simp only [Outcome.ok.injEq, Prod.mk.injEq] at h
    rw [← h.1]
    exact .cons ⟨st, st1, hpf⟩ (ih _ _ _ hrest)

/-- **every field of every struct** has its pydantic field, in order -/
theorem struct_fields {E : Ext} {cfg : Cfg} {rs : RustStruct} {st st' : St} {c : PyClass}
    (h : structFacts E cfg rs st = .ok (c, st')) :
    Pointwise (FieldGen E cfg rs.genericTypes) rs.fields c.fields := by
  unfold structFacts at h
  simp only at h
  obtain ⟨⟨fields, st1⟩, hf, h⟩ := bind_ok h
  simp only [Outcome.ok.injEq, Prod.mk.injEq] at h
  rw [← h.1]
  exact fieldsFacts_pointwise _ _ _ _ _ _ _ hf

theorem innerFacts_pointwise (E : Ext) (cfg : Cfg) (e : RustEnum) :
    ∀ (vs : List (Id × List RustField)) (st : St) (cs : List PyClass) (st' : St),
      innerFacts E cfg e vs st = .ok (cs, st') →
      Pointwise (fun (v : Id × List RustField) c => ∃ gens, Pointwise (FieldGen E cfg gens) v.2 c.fields) vs cs := by
  intro vs
  induction vs with
  | nil => intro st cs st' h; simp [innerFacts] at h; rw [h.1]; exact .nil
  | cons v t ih =>
    intro st cs st' h
    obtain ⟨id, fields⟩ := v
    simp only [innerFacts] at h
    obtain ⟨⟨c, st1⟩, hc, h⟩ := bind_ok h
    obtain ⟨⟨rest, st2⟩, hrest, h⟩ := bind_ok h
    simp only [Outcome.ok.injEq, Prod.mk.injEq] at h
    rw [← h.1]
    exact .cons ⟨_, struct_fields hc⟩ (ih _ _ _ hrest)

/-- **every field of every struct variant**: one inner class per struct variant, in order -/
theorem variant_fields {E : Ext} {cfg : Cfg} {e : RustEnum} {tag content : Str} {st st' : St} {u : PyUnion}
    (h : unionFacts E cfg e tag content st = .ok (u, st')) :
    Pointwise (fun (v : Id × List RustField) c => ∃ gens, Pointwise (FieldGen E cfg gens) v.2 c.fields)
      (structVariants e) u.inner := by
  unfold unionFacts at h
  obtain ⟨⟨inner, st1⟩, hin, h⟩ := bind_ok h
  simp only at h
  obtain ⟨⟨variants, st2⟩, _, h⟩ := bind_ok h
  simp only [Outcome.ok.injEq, Prod.mk.injEq] at h
  rw [← h.1]
  exact innerFacts_pointwise _ _ _ _ _ _ _ hin

/-- **newtype-variant payload**: the content attribute is typed with the translation of the
payload type (so `Option<T>` gives `Optional[T]`, `formatType_option`; no default is printed) -/
theorem payload {E : Ext} {cfg : Cfg} {e : RustEnum} {tag content : Str} {id : Id} {cs : List Str}
    {ty : RustType} {st st' : St} {v : PyVariant}
    (h : variantFacts E cfg e tag content (.tuple id cs ty) st = .ok (v, st')) :
    ∃ t st1, v.contentType = some t ∧ formatType cfg e.genericTypes ty st = .ok (t, st1) := by
  unfold variantFacts at h
  simp only at h
  obtain ⟨⟨t, st1⟩, ht, h⟩ := bind_ok h
  simp only [Outcome.ok.injEq, Prod.mk.injEq] at h
  rw [← h.1]
  exact ⟨t, st1, rfl, ht⟩

/-- **alias**: `X = <translation of the type>`; afterwards the generic parameters of the alias are
registered as type variables (since the `fix:` commit f8d1040) -/
theorem alias {cfg : Cfg} {a : RustTypeAlias} {st st' : St} {pa : PyAlias}
    (h : aliasFacts cfg a st = .ok (pa, st')) :
    ∃ st1, formatType cfg a.genericTypes a.ty st = .ok (pa.ty, st1) ∧
      st' = a.genericTypes.foldl addTypeVar st1 := by
  unfold aliasFacts at h
  obtain ⟨⟨ty, st1⟩, hty, h⟩ := bind_ok h
  simp only [Outcome.ok.injEq, Prod.mk.injEq] at h
  obtain ⟨h1, h2⟩ := h
  subst h1 h2
  exact ⟨st1, hty, rfl⟩

end TsV.C04.Py
