import TsV.Props.C03
import TsV.Lemmas.C06_Multi_Parse
/-!
# Which imports a file's `use` items yield, and which survive `reconcile_referenced_types`

* `leafNames` / `hasGlob`: the names / globs a `use` tree lists (a `use … as …` leaf lists nothing);
* `useIter_mem`: with the base crate fixed, the drained `ItemUseIter` yields exactly the accepted leaves;
* `Grows`: the visitor only ever adds to the hash sets and item lists of `ParsedData`;
* `visitItems_uses`: every `use` item (at any depth) contributes its imports to `import_types`;
* `visitItems_defines`: every annotated, accepted item that parses is in the item lists and in `type_names`;
* `reconcile_*`: what `reconcile_referenced_types` keeps.
-/
namespace TsV.C14I
open TsV TsV.Syn TsV.Visitor TsV.C06M

/-! ### what a `use` tree lists -/

mutual
  /-- the identifiers at the `name` leaves of a `use` tree (a renamed leaf `X as Y` lists nothing: the
  Rust iterator skips `UseTree::Rename`) -/
  def leafNames : UseTree → List Str
    | .path _ t => leafNames t
    | .name id => [id]
    | .rename _ _ => []
    | .glob => []
    | .group ts => leafNamesList ts
  def leafNamesList : List UseTree → List Str
    | [] => []
    | t :: ts => leafNames t ++ leafNamesList ts
end

mutual
  /-- the tree has a `*` leaf -/
  def hasGlob : UseTree → Bool
    | .path _ t => hasGlob t
    | .name _ => false
    | .rename _ _ => false
    | .glob => true
    | .group ts => hasGlobList ts
  def hasGlobList : List UseTree → Bool
    | [] => false
    | t :: ts => hasGlob t || hasGlobList ts
end

mutual
  /-- the `X as Y` leaves of a `use` tree -/
  def renameLeaves : UseTree → List (Str × Str)
    | .path _ t => renameLeaves t
    | .name _ => []
    | .rename x y => [(x, y)]
    | .glob => []
    | .group ts => renameLeavesList ts
  def renameLeavesList : List UseTree → List (Str × Str)
    | [] => []
    | t :: ts => renameLeaves t ++ renameLeavesList ts
end

theorem mem_leafNamesList (x : Str) : ∀ l : List UseTree, x ∈ leafNamesList l ↔ ∃ t ∈ l, x ∈ leafNames t
  | [] => by simp [leafNamesList]
  | t :: ts => by simp [leafNamesList, mem_leafNamesList x ts]

theorem hasGlobList_iff : ∀ l : List UseTree, hasGlobList l = true ↔ ∃ t ∈ l, hasGlob t = true
  | [] => by simp [hasGlobList]
  | t :: ts => by simp [hasGlobList, hasGlobList_iff ts]

theorem useSizeList_append : ∀ l₁ l₂ : List UseTree, useSizeList (l₁ ++ l₂) = useSizeList l₁ + useSizeList l₂
  | [], l₂ => by simp [useSizeList]
  | t :: ts, l₂ => by simp [useSizeList, useSizeList_append ts l₂]; omega

theorem useSizeList_reverse : ∀ l : List UseTree, useSizeList l.reverse = useSizeList l
  | [] => rfl
  | t :: ts => by
    simp [useSizeList_append, useSizeList, useSizeList_reverse ts]; omega

theorem useSize_pos (t : UseTree) : 0 < useSize t := by
  cases t <;> simp [useSize] <;> omega

/-- `ItemUseIter`'s crate resolution -/
def resolveBase (crateName b : Str) : Str := if isSelfish b then crateName else b

/-- **the drained `ItemUseIter` with the base crate fixed**: the result is the accumulator plus, when the
(resolved) base crate is accepted, one import per accepted `name` leaf and `*` for a glob leaf -/
theorem useIter_mem (E : Ext) (cn b : Str) : ∀ (fuel : Nat) (stack : List UseTree) (acc : List ImportedType),
    useSizeList stack ≤ fuel → ∀ i : ImportedType,
    (i ∈ useIter E cn fuel stack (some b) acc ↔
      i ∈ acc ∨ (acceptCrate E.U (resolveBase cn b) = true ∧
        ((∃ id ∈ leafNamesList stack, acceptType E.U id = true ∧ i = ⟨resolveBase cn b, id⟩) ∨
         (hasGlobList stack = true ∧ i = ⟨resolveBase cn b, s%"*"⟩))))
  | 0, stack, acc, hf, i => by
    cases stack with
    | nil => simp [useIter, leafNamesList, hasGlobList]
    | cons t ts =>
      have := useSize_pos t
      simp only [useSizeList] at hf
      omega
  | fuel + 1, [], acc, _, i => by simp [useIter, leafNamesList, hasGlobList]
  | fuel + 1, t :: stack, acc, hf, i => by
    cases t with
    | path id sub =>
      have e : useIter E cn (fuel + 1) (.path id sub :: stack) (some b) acc =
          useIter E cn fuel (sub :: stack) (some b) acc := by simp [useIter]
      rw [e, useIter_mem E cn b fuel (sub :: stack) acc (by simp only [useSizeList, useSize] at hf ⊢; omega) i]
      simp only [leafNamesList, leafNames, hasGlobList, hasGlob]
    | name id =>
      have hf' : useSizeList stack ≤ fuel := by simp only [useSizeList, useSize] at hf; omega
      by_cases hacc : (acceptCrate E.U (resolveBase cn b) && acceptType E.U id) = true
      · have e : useIter E cn (fuel + 1) (.name id :: stack) (some b) acc =
            useIter E cn fuel stack (some b) (acc ++ [⟨resolveBase cn b, id⟩]) := by
          simp only [useIter, resolveBase] at hacc ⊢
          simp only [hacc, if_true]
        rw [e, useIter_mem E cn b fuel stack _ hf' i]
        simp only [Bool.and_eq_true] at hacc
        simp only [leafNamesList, leafNames, hasGlobList, hasGlob, List.mem_append,
          List.mem_cons, List.not_mem_nil, or_false, Bool.false_or, List.singleton_append]
        constructor
        · rintro ((h | h) | h)
          · exact Or.inl h
          · exact Or.inr ⟨hacc.1, Or.inl ⟨id, Or.inl rfl, hacc.2, h⟩⟩
          · rcases h with ⟨hc, ⟨x, hx, hx2, hx3⟩ | h⟩
            · exact Or.inr ⟨hc, Or.inl ⟨x, Or.inr hx, hx2, hx3⟩⟩
            · exact Or.inr ⟨hc, Or.inr h⟩
        · rintro (h | ⟨hc, ⟨x, hx | hx, hx2, hx3⟩ | h⟩)
          · exact Or.inl (Or.inl h)
          · subst hx; exact Or.inl (Or.inr hx3)
          · exact Or.inr ⟨hc, Or.inl ⟨x, hx, hx2, hx3⟩⟩
          · exact Or.inr ⟨hc, Or.inr h⟩
      · have e : useIter E cn (fuel + 1) (.name id :: stack) (some b) acc =
            useIter E cn fuel stack (some b) acc := by
          simp only [useIter, resolveBase] at hacc ⊢
          simp only [hacc, Bool.false_eq_true, if_false]
        rw [e, useIter_mem E cn b fuel stack _ hf' i]
        simp only [Bool.and_eq_true, not_and] at hacc
        simp only [leafNamesList, leafNames, hasGlobList, hasGlob, List.mem_cons, List.singleton_append,
          Bool.false_or]
        constructor
        · rintro (h | ⟨hc, ⟨x, hx, hx2, hx3⟩ | h⟩)
          · exact Or.inl h
          · exact Or.inr ⟨hc, Or.inl ⟨x, Or.inr hx, hx2, hx3⟩⟩
          · exact Or.inr ⟨hc, Or.inr h⟩
        · rintro (h | ⟨hc, ⟨x, hx | hx, hx2, hx3⟩ | h⟩)
          · exact Or.inl h
          · subst hx; exact absurd hx2 (hacc hc)
          · exact Or.inr ⟨hc, Or.inl ⟨x, hx, hx2, hx3⟩⟩
          · exact Or.inr ⟨hc, Or.inr h⟩
    | rename x y =>
      have hf' : useSizeList stack ≤ fuel := by simp only [useSizeList, useSize] at hf; omega
      have e : useIter E cn (fuel + 1) (.rename x y :: stack) (some b) acc =
          useIter E cn fuel stack (some b) acc := by simp [useIter]
      rw [e, useIter_mem E cn b fuel stack _ hf' i]
      simp only [leafNamesList, leafNames, hasGlobList, hasGlob, List.nil_append, Bool.false_or]
    | glob =>
      have hf' : useSizeList stack ≤ fuel := by simp only [useSizeList, useSize] at hf; omega
      by_cases hacc : acceptCrate E.U (resolveBase cn b) = true
      · have e : useIter E cn (fuel + 1) (.glob :: stack) (some b) acc =
            useIter E cn fuel stack (some b) (acc ++ [⟨resolveBase cn b, s%"*"⟩]) := by
          simp only [useIter, resolveBase] at hacc ⊢
          simp only [hacc, if_true]
        rw [e, useIter_mem E cn b fuel stack _ hf' i]
        simp only [leafNamesList, leafNames, hasGlobList, hasGlob, List.mem_append, List.mem_singleton,
          List.nil_append, Bool.true_or, true_and]
        constructor
        · rintro ((h | h) | h)
          · exact Or.inl h
          · exact Or.inr ⟨hacc, Or.inr h⟩
          · rcases h with ⟨hc, h | h⟩
            · exact Or.inr ⟨hc, Or.inl h⟩
            · exact Or.inr ⟨hc, Or.inr h.2⟩
        · rintro (h | ⟨hc, h | h⟩)
          · exact Or.inl (Or.inl h)
          · exact Or.inr ⟨hc, Or.inl h⟩
          · exact Or.inl (Or.inr h)
      · have e : useIter E cn (fuel + 1) (.glob :: stack) (some b) acc =
            useIter E cn fuel stack (some b) acc := by
          simp only [useIter, resolveBase] at hacc ⊢
          simp only [hacc, Bool.false_eq_true, if_false]
        rw [e, useIter_mem E cn b fuel stack _ hf' i]
        constructor
        · rintro (h | ⟨hc, _⟩)
          · exact Or.inl h
          · exact absurd hc hacc
        · rintro (h | ⟨hc, _⟩)
          · exact Or.inl h
          · exact absurd hc hacc
    | group ts =>
      have e : useIter E cn (fuel + 1) (.group ts :: stack) (some b) acc =
          useIter E cn fuel (ts.reverse ++ stack) (some b) acc := by simp [useIter]
      rw [e, useIter_mem E cn b fuel (ts.reverse ++ stack) acc
        (by simp only [useSizeList, useSize, useSizeList_append, useSizeList_reverse] at hf ⊢; omega) i]
      have h1 : ∀ x, x ∈ leafNamesList (ts.reverse ++ stack) ↔ x ∈ leafNamesList (.group ts :: stack) := by
        intro x
        simp only [mem_leafNamesList, List.mem_append, List.mem_reverse, List.mem_cons]
        constructor
        · rintro ⟨t, ht | ht, hx⟩
          · exact ⟨.group ts, Or.inl rfl, by simp only [leafNames]; exact (mem_leafNamesList x ts).2 ⟨t, ht, hx⟩⟩
          · exact ⟨t, Or.inr ht, hx⟩
        · rintro ⟨t, rfl | ht, hx⟩
          · simp only [leafNames] at hx
            obtain ⟨t', ht', hx'⟩ := (mem_leafNamesList x ts).1 hx
            exact ⟨t', Or.inl ht', hx'⟩
          · exact ⟨t, Or.inr ht, hx⟩
      have h2 : hasGlobList (ts.reverse ++ stack) = true ↔ hasGlobList (.group ts :: stack) = true := by
        simp only [hasGlobList_iff, List.mem_append, List.mem_reverse, List.mem_cons]
        constructor
        · rintro ⟨t, ht | ht, hx⟩
          · exact ⟨.group ts, Or.inl rfl, by simp only [hasGlob]; exact (hasGlobList_iff ts).2 ⟨t, ht, hx⟩⟩
          · exact ⟨t, Or.inr ht, hx⟩
        · rintro ⟨t, rfl | ht, hx⟩
          · simp only [hasGlob] at hx
            obtain ⟨t', ht', hx'⟩ := (hasGlobList_iff ts).1 hx
            exact ⟨t', Or.inl ht', hx'⟩
          · exact ⟨t, Or.inr ht, hx⟩
      simp only [h1, h2]

/-- the imports of one `use` item whose tree starts with a path segment (`use b::…;`) -/
theorem useIter_path (E : Ext) (cn b : Str) (sub : UseTree) (i : ImportedType) :
    i ∈ useIter E cn (useSize (.path b sub) + 1) [.path b sub] none [] ↔
      (acceptCrate E.U (resolveBase cn b) = true ∧
        ((∃ id ∈ leafNames sub, acceptType E.U id = true ∧ i = ⟨resolveBase cn b, id⟩) ∨
         (hasGlob sub = true ∧ i = ⟨resolveBase cn b, s%"*"⟩))) := by
  have e : useIter E cn (useSize (.path b sub) + 1) [.path b sub] none [] =
      useIter E cn (useSize (.path b sub)) [sub] (some b) [] := by simp [useIter]
  rw [e, useIter_mem E cn b _ [sub] [] (by simp only [useSizeList, useSize]; omega) i]
  simp [leafNamesList, hasGlobList]

/-! ### the visitor only adds -/

/-- `d'` is `d` after some more visiting: same crate / file / mode, every set and list only grew -/
structure Grows (d d' : ParsedData) : Prop where
  crateName : d'.crateName = d.crateName
  fileName : d'.fileName = d.fileName
  multiFile : d'.multiFile = d.multiFile
  imports : ∀ i ∈ d.importTypes, i ∈ d'.importTypes
  typeNames : ∀ t ∈ d.typeNames, t ∈ d'.typeNames
  structs : ∀ s ∈ d.structs, s ∈ d'.structs
  enums : ∀ s ∈ d.enums, s ∈ d'.enums
  aliases : ∀ s ∈ d.aliases, s ∈ d'.aliases
  consts : ∀ s ∈ d.consts, s ∈ d'.consts

theorem Grows.refl (d : ParsedData) : Grows d d :=
  ⟨rfl, rfl, rfl, fun _ h => h, fun _ h => h, fun _ h => h, fun _ h => h, fun _ h => h, fun _ h => h⟩

theorem Grows.trans {d₁ d₂ d₃ : ParsedData} (h : Grows d₁ d₂) (h' : Grows d₂ d₃) : Grows d₁ d₃ :=
  ⟨h'.crateName.trans h.crateName, h'.fileName.trans h.fileName, h'.multiFile.trans h.multiFile,
   fun i hi => h'.imports i (h.imports i hi), fun i hi => h'.typeNames i (h.typeNames i hi),
   fun i hi => h'.structs i (h.structs i hi), fun i hi => h'.enums i (h.enums i hi),
   fun i hi => h'.aliases i (h.aliases i hi), fun i hi => h'.consts i (h.consts i hi)⟩

theorem mem_insertSet {α} [BEq α] [LawfulBEq α] (x y : α) (l : List α) :
    x ∈ insertSet y l ↔ x = y ∨ x ∈ l := by
  unfold insertSet
  by_cases h : l.contains y = true
  · simp only [h, if_true]
    constructor
    · exact Or.inr
    · rintro (rfl | h')
      · simpa using h
      · exact h'
  · simp only [h, Bool.false_eq_true, if_false, List.mem_append, List.mem_singleton]
    exact or_comm

theorem mem_addImports (d : ParsedData) (imps : List ImportedType) (i : ImportedType) :
    i ∈ (addImports d imps).importTypes ↔ i ∈ d.importTypes ∨ i ∈ imps := by
  simp only [addImports]
  exact mem_foldl_insertSet i imps d.importTypes

theorem addImports_grows (d : ParsedData) (imps : List ImportedType) : Grows d (addImports d imps) :=
  ⟨rfl, rfl, rfl, fun i hi => (mem_addImports d imps i).2 (Or.inl hi), fun _ h => h, fun _ h => h,
   fun _ h => h, fun _ h => h, fun _ h => h⟩

theorem addPaths_grows (E : Ext) (ctx : ParseContext) (d : ParsedData) (ps : List (List Str)) :
    Grows d (addPaths E ctx d ps) := by
  unfold addPaths
  split
  · exact addImports_grows d _
  · exact Grows.refl d

theorem push_grows (d : ParsedData) (it : RustItem) : Grows d (push d it) := by
  cases it <;>
    exact ⟨rfl, rfl, rfl, fun _ h => h, fun t ht => (mem_insertSet _ _ _).2 (Or.inr ht),
      fun _ h => by simp [push, h], fun _ h => by simp [push, h], fun _ h => by simp [push, h],
      fun _ h => by simp [push, h]⟩

theorem collectResult_grows (d d' : ParsedData) (fp : Str) (o : Outcome RustItem)
    (h : collectResult d fp o = .ok d') : Grows d d' := by
  cases o with
  | ok it => simp only [collectResult, Outcome.ok.injEq] at h; subst h; exact push_grows d it
  | err e =>
    simp only [collectResult, Outcome.ok.injEq] at h; subst h
    exact ⟨rfl, rfl, rfl, fun _ h => h, fun _ h => h, fun _ h => h, fun _ h => h, fun _ h => h, fun _ h => h⟩
  | panic s => simp [collectResult] at h

theorem collectIf_grows (ctx : ParseContext) (fp : Str) (d d' : ParsedData) (attrs : List Attr)
    (o : Outcome RustItem) (h : collectIf ctx fp d attrs o = .ok d') : Grows d d' := by
  unfold collectIf at h
  split at h
  · exact collectResult_grows d d' fp o h
  · simp only [pure, Outcome.ok.injEq] at h; subst h; exact Grows.refl d

/-- the shape shared by the four item visitors: collect, then add the paths -/
theorem collectThenPaths_grows (E : Ext) (ctx : ParseContext) (fp : Str) (d d' : ParsedData) (attrs : List Attr)
    (o : Outcome RustItem) (ps : List (List Str))
    (h : ((collectIf ctx fp d attrs o).bind fun d₁ => pure (addPaths E ctx d₁ ps)) = .ok d') : Grows d d' := by
  obtain ⟨d₁, h1, h2⟩ := (Outcome.bind_eq_ok _ _ _).1 h
  simp only [pure, Outcome.ok.injEq] at h2; subst h2
  exact (collectIf_grows ctx fp d d₁ attrs o h1).trans (addPaths_grows E ctx d₁ ps)

mutual
  theorem visitItem_grows (E : Ext) (ctx : ParseContext) (fp : Str) :
      ∀ (it : Item) (d d' : ParsedData), visitItem E ctx fp d it = .ok d' → Grows d d'
    | .struct a i g f, d, d', h => by
      simp only [visitItem] at h; exact collectThenPaths_grows E ctx fp d d' a _ _ h
    | .enum a i g v, d, d', h => by
      simp only [visitItem] at h; exact collectThenPaths_grows E ctx fp d d' a _ _ h
    | .alias a i g t, d, d', h => by
      simp only [visitItem] at h; exact collectThenPaths_grows E ctx fp d d' a _ _ h
    | .const a i t l, d, d', h => by
      simp only [visitItem] at h; exact collectThenPaths_grows E ctx fp d d' a _ _ h
    | .use t, d, d', h => by
      simp only [visitItem] at h
      split at h
      · simp only [pure, Outcome.ok.injEq] at h; subst h; exact addImports_grows d _
      · simp only [pure, Outcome.ok.injEq] at h; subst h; exact Grows.refl d
    | .mod a i items, d, d', h => by
      simp only [visitItem] at h
      exact (addPaths_grows E ctx d _).trans (visitItems_grows E ctx fp items _ d' h)
    | .other p items, d, d', h => by
      simp only [visitItem] at h
      exact (addPaths_grows E ctx d _).trans (visitItems_grows E ctx fp items _ d' h)
  theorem visitItems_grows (E : Ext) (ctx : ParseContext) (fp : Str) :
      ∀ (items : List Item) (d d' : ParsedData), visitItems E ctx fp d items = .ok d' → Grows d d'
    | [], d, d', h => by
      simp only [visitItems, pure, Outcome.ok.injEq] at h; subst h; exact Grows.refl d
    | i :: is, d, d', h => by
      simp only [visitItems] at h
      obtain ⟨d₁, h1, h2⟩ := (Outcome.bind_eq_ok _ _ _).1 h
      exact (visitItem_grows E ctx fp i d d₁ h1).trans (visitItems_grows E ctx fp is d₁ d' h2)
end

/-! ### every `use` item contributes its imports -/

mutual
  /-- the `use` trees of an item, at any depth (modules, function bodies) -/
  def useTrees : Item → List UseTree
    | .use t => [t]
    | .mod _ _ items => useTreesList items
    | .other _ items => useTreesList items
    | .struct _ _ _ _ => []
    | .enum _ _ _ _ => []
    | .alias _ _ _ _ => []
    | .const _ _ _ _ => []
  def useTreesList : List Item → List UseTree
    | [] => []
    | i :: is => useTrees i ++ useTreesList is
end

/-- what `visit_item_use` inserts for one `use` tree -/
def useImports (E : Ext) (ctx : ParseContext) (cn : Str) (tree : UseTree) : List ImportedType :=
  (useIter E cn (useSize tree + 1) [tree] none []).filter fun i => !ctx.ignoredTypes.contains i.typeName

mutual
  theorem visitItem_uses (E : Ext) (ctx : ParseContext) (hmf : ctx.multiFile = true) (fp : Str) :
      ∀ (it : Item) (d d' : ParsedData), visitItem E ctx fp d it = .ok d' →
        ∀ t ∈ useTrees it, ∀ i ∈ useImports E ctx d.crateName t, i ∈ d'.importTypes
    | .struct a i g f, d, d', h => by simp [useTrees]
    | .enum a i g v, d, d', h => by simp [useTrees]
    | .alias a i g t, d, d', h => by simp [useTrees]
    | .const a i t l, d, d', h => by simp [useTrees]
    | .use t, d, d', h => by
      intro t' ht' i hi
      simp only [useTrees, List.mem_singleton] at ht'
      subst ht'
      simp only [visitItem, hmf, if_true, pure, Outcome.ok.injEq] at h
      subst h
      exact (mem_addImports d _ i).2 (Or.inr hi)
    | .mod a i items, d, d', h => by
      simp only [visitItem] at h
      intro t ht i hi
      have := visitItems_uses E ctx hmf fp items _ d' h t (by simpa [useTrees] using ht) i
      rw [(addPaths_grows E ctx d _).crateName] at this
      exact this hi
    | .other p items, d, d', h => by
      simp only [visitItem] at h
      intro t ht i hi
      have := visitItems_uses E ctx hmf fp items _ d' h t (by simpa [useTrees] using ht) i
      rw [(addPaths_grows E ctx d _).crateName] at this
      exact this hi
  theorem visitItems_uses (E : Ext) (ctx : ParseContext) (hmf : ctx.multiFile = true) (fp : Str) :
      ∀ (items : List Item) (d d' : ParsedData), visitItems E ctx fp d items = .ok d' →
        ∀ t ∈ useTreesList items, ∀ i ∈ useImports E ctx d.crateName t, i ∈ d'.importTypes
    | [], d, d', h => by simp [useTreesList]
    | it :: is, d, d', h => by
      simp only [visitItems] at h
      obtain ⟨d₁, h1, h2⟩ := (Outcome.bind_eq_ok _ _ _).1 h
      intro t ht i hi
      simp only [useTreesList, List.mem_append] at ht
      rcases ht with ht | ht
      · exact (visitItems_grows E ctx fp is d₁ d' h2).imports i (visitItem_uses E ctx hmf fp it d d₁ h1 t ht i hi)
      · have := visitItems_uses E ctx hmf fp is d₁ d' h2 t ht i
        rw [(visitItem_grows E ctx fp it d d₁ h1).crateName] at this
        exact this hi
end

/-! ### every annotated, accepted item that parses is recorded -/

/-- the parsed item is in the item list of its kind -/
def ItemIn (ri : RustItem) (d : ParsedData) : Prop :=
  match ri with
  | .struct s => s ∈ d.structs
  | .enum e => e ∈ d.enums
  | .alias a => a ∈ d.aliases
  | .const c => c ∈ d.consts

theorem ItemIn.mono {ri : RustItem} {d d' : ParsedData} (h : ItemIn ri d) (g : Grows d d') : ItemIn ri d' := by
  cases ri with
  | struct s => exact g.structs s h
  | enum e => exact g.enums e h
  | alias a => exact g.aliases a h
  | const c => exact g.consts c h

theorem push_records (d : ParsedData) (ri : RustItem) :
    ItemIn ri (push d ri) ∧ ri.renamedName ∈ (push d ri).typeNames := by
  cases ri <;> exact ⟨by simp [ItemIn, push], (mem_insertSet _ _ _).2 (Or.inl rfl)⟩

/-- the shape shared by the four item visitors, when the item is accepted and parses -/
theorem collectThenPaths_records (E : Ext) (ctx : ParseContext) (fp : Str) (d d' : ParsedData) (attrs : List Attr)
    (ri : RustItem) (ps : List (List Str)) (hacc : accepted ctx attrs = true)
    (h : ((collectIf ctx fp d attrs (.ok ri)).bind fun d₁ => pure (addPaths E ctx d₁ ps)) = .ok d') :
    ItemIn ri d' ∧ ri.renamedName ∈ d'.typeNames := by
  obtain ⟨d₁, h1, h2⟩ := (Outcome.bind_eq_ok _ _ _).1 h
  simp only [pure, Outcome.ok.injEq] at h2; subst h2
  simp only [collectIf, hacc, if_true, collectResult, Outcome.ok.injEq] at h1
  subst h1
  have g := addPaths_grows E ctx (push d ri) ps
  exact ⟨(push_records d ri).1.mono g, g.typeNames _ (push_records d ri).2⟩

mutual
  theorem visitItem_defines (E : Ext) (ctx : ParseContext) (fp : Str) :
      ∀ (it : Item) (d d' : ParsedData), visitItem E ctx fp d it = .ok d' →
        ∀ it' ∈ C03.annotated ctx it, ∀ ri, C03.parseItem E ctx it' = .ok ri →
          ItemIn ri d' ∧ ri.renamedName ∈ d'.typeNames
    | .struct a i g f, d, d', h => by
      intro it' hit ri hri
      simp only [C03.annotated] at hit
      split at hit
      · rename_i hacc
        simp only [List.mem_singleton] at hit; subst hit
        simp only [C03.parseItem] at hri
        simp only [visitItem, hri] at h
        exact collectThenPaths_records E ctx fp d d' a ri _ hacc h
      · simp at hit
    | .enum a i g v, d, d', h => by
      intro it' hit ri hri
      simp only [C03.annotated] at hit
      split at hit
      · rename_i hacc
        simp only [List.mem_singleton] at hit; subst hit
        simp only [C03.parseItem] at hri
        simp only [visitItem, hri] at h
        exact collectThenPaths_records E ctx fp d d' a ri _ hacc h
      · simp at hit
    | .alias a i g t, d, d', h => by
      intro it' hit ri hri
      simp only [C03.annotated] at hit
      split at hit
      · rename_i hacc
        simp only [List.mem_singleton] at hit; subst hit
        simp only [C03.parseItem] at hri
        simp only [visitItem, hri] at h
        exact collectThenPaths_records E ctx fp d d' a ri _ hacc h
      · simp at hit
    | .const a i t l, d, d', h => by
      intro it' hit ri hri
      simp only [C03.annotated] at hit
      split at hit
      · rename_i hacc
        simp only [List.mem_singleton] at hit; subst hit
        simp only [C03.parseItem] at hri
        simp only [visitItem, hri] at h
        exact collectThenPaths_records E ctx fp d d' a ri _ hacc h
      · simp at hit
    | .use t, d, d', h => by simp [C03.annotated]
    | .mod a i items, d, d', h => by
      simp only [visitItem] at h
      intro it' hit ri hri
      exact visitItems_defines E ctx fp items _ d' h it' (by simpa [C03.annotated] using hit) ri hri
    | .other p items, d, d', h => by
      simp only [visitItem] at h
      intro it' hit ri hri
      exact visitItems_defines E ctx fp items _ d' h it' (by simpa [C03.annotated] using hit) ri hri
  theorem visitItems_defines (E : Ext) (ctx : ParseContext) (fp : Str) :
      ∀ (items : List Item) (d d' : ParsedData), visitItems E ctx fp d items = .ok d' →
        ∀ it' ∈ C03.annotatedList ctx items, ∀ ri, C03.parseItem E ctx it' = .ok ri →
          ItemIn ri d' ∧ ri.renamedName ∈ d'.typeNames
    | [], d, d', h => by simp [C03.annotatedList]
    | it :: is, d, d', h => by
      simp only [visitItems] at h
      obtain ⟨d₁, h1, h2⟩ := (Outcome.bind_eq_ok _ _ _).1 h
      intro it' hit ri hri
      simp only [C03.annotatedList, List.mem_append] at hit
      rcases hit with hit | hit
      · have := visitItem_defines E ctx fp it d d₁ h1 it' hit ri hri
        have g := visitItems_grows E ctx fp is d₁ d' h2
        exact ⟨this.1.mono g, g.typeNames _ this.2⟩
      · exact visitItems_defines E ctx fp is d₁ d' h2 it' hit ri hri
end

/-! ### the whole file -/

/-- the visitor's start value -/
def d0 (ctx : ParseContext) (cn fn : Str) : ParsedData := { crateName := cn, fileName := fn, multiFile := ctx.multiFile }

theorem visitFile_eq (E : Ext) (ctx : ParseContext) (cn fn fp : Str) (f : File) :
    visitFile E ctx cn fn fp f =
      if (TargetOs.accept f.attrs ctx.targetOs).getD true then
        visitItems E ctx fp (addPaths E ctx (d0 ctx cn fn) (attrPaths f.attrs)) f.items
      else pure (d0 ctx cn fn) := rfl

/-- crate name, file name and mode of a file's result are the ones it was called with -/
theorem visitFile_meta (E : Ext) (ctx : ParseContext) (cn fn fp : Str) (f : File) (d : ParsedData)
    (h : visitFile E ctx cn fn fp f = .ok d) :
    d.crateName = cn ∧ d.fileName = fn ∧ d.multiFile = ctx.multiFile := by
  rw [visitFile_eq] at h
  split at h
  · have g := (addPaths_grows E ctx (d0 ctx cn fn) (attrPaths f.attrs)).trans (visitItems_grows E ctx fp _ _ d h)
    exact ⟨g.crateName, g.fileName, g.multiFile⟩
  · simp only [pure, Outcome.ok.injEq] at h; subst h; exact ⟨rfl, rfl, rfl⟩

/-- a file with a non-empty result was visited (its `#![cfg(target_os = …)]`, if any, was accepted) -/
theorem visitFile_visited (E : Ext) (ctx : ParseContext) (cn fn fp : Str) (f : File) (d : ParsedData)
    (h : visitFile E ctx cn fn fp f = .ok d) (hne : isEmpty d = false) :
    visitItems E ctx fp (addPaths E ctx (d0 ctx cn fn) (attrPaths f.attrs)) f.items = .ok d := by
  rw [visitFile_eq] at h
  split at h
  · exact h
  · simp only [pure, Outcome.ok.injEq] at h; subst h
    simp [isEmpty, d0] at hne

/-- **`use` items of a visited file**: every import a `use` tree of the file yields is in `import_types` -/
theorem visitFile_uses (E : Ext) (ctx : ParseContext) (hmf : ctx.multiFile = true) (cn fn fp : Str) (f : File)
    (d : ParsedData) (h : visitFile E ctx cn fn fp f = .ok d) (hne : isEmpty d = false) :
    ∀ t ∈ useTreesList f.items, ∀ i ∈ useImports E ctx cn t, i ∈ d.importTypes := by
  have hv := visitFile_visited E ctx cn fn fp f d h hne
  intro t ht i hi
  have := visitItems_uses E ctx hmf fp f.items _ d hv t ht i
  rw [(addPaths_grows E ctx (d0 ctx cn fn) _).crateName] at this
  exact this hi

/-- **items of a visited file**: every annotated, accepted item that parses is recorded, its (renamed) name is
in `type_names` -/
theorem visitFile_defines (E : Ext) (ctx : ParseContext) (cn fn fp : Str) (f : File)
    (d : ParsedData) (h : visitFile E ctx cn fn fp f = .ok d) (hne : isEmpty d = false) :
    ∀ it' ∈ C03.annotatedList ctx f.items, ∀ ri, C03.parseItem E ctx it' = .ok ri →
      ItemIn ri d ∧ ri.renamedName ∈ d.typeNames :=
  visitItems_defines E ctx fp f.items _ d (visitFile_visited E ctx cn fn fp f d h hne)

/-! ### references -/

/-- the types mentioned by the items of a result (`all_references` before the `accept_type` filter) -/
def refTypes (d : ParsedData) : List RustType :=
  d.structs.flatMap (fun s => s.fields.map (·.ty)) ++
  d.enums.flatMap (fun e => e.variants.flatMap fun v => match v with
    | .unit _ _ => []
    | .tuple _ _ ty => [ty]
    | .anonymousStruct _ _ fs => fs.map (·.ty)) ++
  d.aliases.map (·.ty) ++ d.consts.map (·.ty)

theorem allReferences_eq (U : UnicodeOps) (d : ParsedData) :
    allReferences U d = ((refTypes d).flatMap RustType.allIds).filter (acceptType U) := rfl

theorem mem_allReferences (U : UnicodeOps) (d : ParsedData) (T : Str) :
    T ∈ allReferences U d ↔ acceptType U T = true ∧ ∃ ty ∈ refTypes d, T ∈ ty.allIds := by
  rw [allReferences_eq]
  simp only [List.mem_filter, List.mem_flatMap]
  exact and_comm

/-- a field of a recorded struct -/
theorem ref_of_struct_field (U : UnicodeOps) (d : ParsedData) (s : RustStruct) (fl : RustField) (T : Str)
    (hs : s ∈ d.structs) (hf : fl ∈ s.fields) (hT : T ∈ fl.ty.allIds) (hacc : acceptType U T = true) :
    T ∈ allReferences U d := by
  rw [mem_allReferences]
  refine ⟨hacc, fl.ty, ?_, hT⟩
  simp only [refTypes, List.mem_append, List.mem_flatMap, List.mem_map]
  exact Or.inl (Or.inl (Or.inl ⟨s, hs, fl, hf, rfl⟩))

/-- the aliased type of a recorded alias -/
theorem ref_of_alias (U : UnicodeOps) (d : ParsedData) (a : RustTypeAlias) (T : Str)
    (ha : a ∈ d.aliases) (hT : T ∈ a.ty.allIds) (hacc : acceptType U T = true) : T ∈ allReferences U d := by
  rw [mem_allReferences]
  refine ⟨hacc, a.ty, ?_, hT⟩
  simp only [refTypes, List.mem_append, List.mem_map]
  exact Or.inl (Or.inr ⟨a, ha, rfl⟩)

/-- the payload of a tuple variant / a field of a struct variant of a recorded enum -/
theorem ref_of_enum_tuple (U : UnicodeOps) (d : ParsedData) (e : RustEnum) (i : Id) (c : List Str) (ty : RustType)
    (T : Str) (he : e ∈ d.enums) (hv : RustEnumVariant.tuple i c ty ∈ e.variants) (hT : T ∈ ty.allIds)
    (hacc : acceptType U T = true) : T ∈ allReferences U d := by
  rw [mem_allReferences]
  refine ⟨hacc, ty, ?_, hT⟩
  simp only [refTypes, List.mem_append, List.mem_flatMap]
  exact Or.inl (Or.inl (Or.inr ⟨e, he, _, hv, by simp⟩))

theorem ref_of_enum_field (U : UnicodeOps) (d : ParsedData) (e : RustEnum) (i : Id) (c : List Str)
    (fs : List RustField) (fl : RustField) (T : Str) (he : e ∈ d.enums)
    (hv : RustEnumVariant.anonymousStruct i c fs ∈ e.variants) (hf : fl ∈ fs) (hT : T ∈ fl.ty.allIds)
    (hacc : acceptType U T = true) : T ∈ allReferences U d := by
  rw [mem_allReferences]
  refine ⟨hacc, fl.ty, ?_, hT⟩
  simp only [refTypes, List.mem_append, List.mem_flatMap]
  exact Or.inl (Or.inl (Or.inr ⟨e, he, _, hv, by simp only [List.mem_map]; exact ⟨fl, hf, rfl⟩⟩))

/-- a result that references something is not empty -/
theorem isEmpty_false_of_ref (U : UnicodeOps) (d : ParsedData) (T : Str) (h : T ∈ allReferences U d) :
    isEmpty d = false := by
  cases he : isEmpty d with
  | false => rfl
  | true =>
    simp only [isEmpty, Bool.and_eq_true, List.isEmpty_iff] at he
    obtain ⟨⟨⟨⟨h1, h2⟩, h3⟩, h4⟩, _⟩ := he
    rw [mem_allReferences] at h
    obtain ⟨_, ty, hty, _⟩ := h
    simp [refTypes, h1, h2, h3, h4] at hty

/-! ### `reconcile_referenced_types` -/

theorem reconcile_typeNames (U : UnicodeOps) (pick : List ImportedType → Option ImportedType) (d : ParsedData) :
    (reconcileReferencedTypes U pick d).typeNames = d.typeNames := rfl
theorem reconcile_crateName (U : UnicodeOps) (pick : List ImportedType → Option ImportedType) (d : ParsedData) :
    (reconcileReferencedTypes U pick d).crateName = d.crateName := rfl
theorem reconcile_allReferences (U : UnicodeOps) (pick : List ImportedType → Option ImportedType) (d : ParsedData) :
    allReferences U (reconcileReferencedTypes U pick d) = allReferences U d := rfl

/-- exact membership in the reconciled import set -/
theorem mem_reconcile_imports (U : UnicodeOps) (pick : List ImportedType → Option ImportedType) (d : ParsedData)
    (i : ImportedType) :
    i ∈ (reconcileReferencedTypes U pick d).importTypes ↔
      (∃ name ∈ allReferences U d, name ∉ d.typeNames ∧
          pick (minCrate (d.importTypes.filter (·.typeName == name))) = some i) ∨
      (i ∈ d.importTypes ∧ i.typeName = s%"*") := by
  simp only [reconcileReferencedTypes, List.mem_eraseDups, List.mem_append, List.mem_filterMap, List.mem_filter,
    Bool.not_eq_true', beq_iff_eq]
  constructor
  · rintro (⟨name, ⟨hr, hl⟩, hp⟩ | h)
    · exact Or.inl ⟨name, hr, by simpa using hl, hp⟩
    · exact Or.inr h
  · rintro (⟨name, hr, hl, hp⟩ | h)
    · exact Or.inl ⟨name, ⟨hr, by simpa using hl⟩, hp⟩
    · exact Or.inr h

theorem mem_minCrate {l : List ImportedType} {x : ImportedType} :
    x ∈ minCrate l ↔ x ∈ l ∧ ∀ j ∈ l, Str.le x.baseCrate j.baseCrate = true := by
  simp [minCrate, List.mem_filter, List.all_eq_true]

/-- **a referenced, non-local type name keeps the import from the crate with the smallest name** (`find_type`
takes `min_by_key(|imp| &imp.base_crate)` among the imports of that name) -/
theorem reconcile_keeps_smallest (U : UnicodeOps) (pick : List ImportedType → Option ImportedType)
    (hp : ValidPick pick) (d : ParsedData) (c T : Str) (hmem : ⟨c, T⟩ ∈ d.importTypes)
    (href : T ∈ allReferences U d) (hloc : T ∉ d.typeNames)
    (hmin : ∀ j ∈ d.importTypes, j.typeName = T → Str.le c j.baseCrate = true) :
    ⟨c, T⟩ ∈ (reconcileReferencedTypes U pick d).importTypes := by
  rw [mem_reconcile_imports]
  refine Or.inl ⟨T, href, hloc, ?_⟩
  have hin : (⟨c, T⟩ : ImportedType) ∈ minCrate (d.importTypes.filter (·.typeName == T)) := by
    rw [mem_minCrate]
    refine ⟨by simp [List.mem_filter, hmem], fun j hj => ?_⟩
    simp only [List.mem_filter, beq_iff_eq] at hj
    exact hmin j hj.1 hj.2
  have hv := hp (minCrate (d.importTypes.filter (·.typeName == T)))
  cases hpk : pick (minCrate (d.importTypes.filter (·.typeName == T))) with
  | none =>
    rw [hpk] at hv
    simp only at hv
    rw [hv] at hin
    simp at hin
  | some x =>
    rw [hpk] at hv
    simp only at hv
    have hx := mem_minCrate.1 hv
    have hxl := hx.1
    simp only [List.mem_filter, beq_iff_eq] at hxl
    have h1 : Str.le x.baseCrate c = true := hx.2 ⟨c, T⟩ (by simp [List.mem_filter, hmem])
    have h2 : Str.le c x.baseCrate = true := hmin x hxl.1 hxl.2
    have hb : x.baseCrate = c := Order.le_antisymm _ _ h1 h2
    cases x with
    | mk bc tn =>
      simp only at hb hxl
      rw [hb, hxl.2]

/-- in particular: a name imported from one crate only keeps that import -/
theorem reconcile_keeps_named (U : UnicodeOps) (pick : List ImportedType → Option ImportedType)
    (hp : ValidPick pick) (d : ParsedData) (c T : Str) (hmem : ⟨c, T⟩ ∈ d.importTypes)
    (href : T ∈ allReferences U d) (hloc : T ∉ d.typeNames)
    (huniq : ∀ j ∈ d.importTypes, j.typeName = T → j.baseCrate = c) :
    ⟨c, T⟩ ∈ (reconcileReferencedTypes U pick d).importTypes :=
  reconcile_keeps_smallest U pick hp d c T hmem href hloc fun j hj ht => by
    rw [huniq j hj ht]; simp [Str.le, Order.lt_irrefl]

/-- conversely, of the imports of one referenced name only the one from the smallest crate is kept -/
theorem reconcile_named_smallest (U : UnicodeOps) (pick : List ImportedType → Option ImportedType)
    (hp : ValidPick pick) (d : ParsedData) (i : ImportedType)
    (h : i ∈ (reconcileReferencedTypes U pick d).importTypes) (hns : i.typeName ≠ s%"*") :
    ∀ j ∈ d.importTypes, j.typeName = i.typeName → Str.le i.baseCrate j.baseCrate = true := by
  rw [mem_reconcile_imports] at h
  rcases h with ⟨name, _, _, hpk⟩ | ⟨_, h2⟩
  · have hv := hp (minCrate (d.importTypes.filter (·.typeName == name)))
    rw [hpk] at hv
    simp only at hv
    have hx := mem_minCrate.1 hv
    have hxl := hx.1
    simp only [List.mem_filter, beq_iff_eq] at hxl
    intro j hj ht
    exact hx.2 j (by simp [List.mem_filter, hj, ht, hxl.2])
  · exact absurd h2 hns

/-- wildcard imports are always kept -/
theorem reconcile_keeps_glob (U : UnicodeOps) (pick : List ImportedType → Option ImportedType) (d : ParsedData)
    (c : Str) (hmem : ⟨c, s%"*"⟩ ∈ d.importTypes) :
    ⟨c, s%"*"⟩ ∈ (reconcileReferencedTypes U pick d).importTypes := by
  rw [mem_reconcile_imports]; exact Or.inr ⟨hmem, rfl⟩

/-- nothing is invented: a kept import was an import of the file, and it is a wildcard or names a type that
an item of the file references and the file does not define -/
theorem reconcile_sound (U : UnicodeOps) (pick : List ImportedType → Option ImportedType) (hp : ValidPick pick)
    (d : ParsedData) (i : ImportedType) (h : i ∈ (reconcileReferencedTypes U pick d).importTypes) :
    i ∈ d.importTypes ∧ (i.typeName = s%"*" ∨ (i.typeName ∈ allReferences U d ∧ i.typeName ∉ d.typeNames)) := by
  rw [mem_reconcile_imports] at h
  rcases h with ⟨name, hr, hl, hpk⟩ | ⟨h1, h2⟩
  · have hv := hp (minCrate (d.importTypes.filter (·.typeName == name)))
    rw [hpk] at hv
    simp only at hv
    have hv := (mem_minCrate.1 hv).1
    simp only [List.mem_filter, beq_iff_eq] at hv
    exact ⟨hv.1, Or.inr (by rw [hv.2]; exact ⟨hr, hl⟩)⟩
  · exact ⟨h1, Or.inl h2⟩

/-! ### `parser::parse` of one file -/

theorem parseFile_of_visit (E : Ext) (ctx : ParseContext) (hmf : ctx.multiFile = true)
    (pick : List ImportedType → Option ImportedType) (cn fn fp : Str) (f : File) (d : ParsedData)
    (hm : f.marker = true) (hv : visitFile E ctx cn fn fp f = .ok d) (hne : isEmpty d = false) :
    parseFile E ctx pick cn fn fp f = .ok (some (reconcileReferencedTypes E.U pick d)) := by
  have hmeta := visitFile_meta E ctx cn fn fp f d hv
  unfold parseFile
  simp only [hm, Bool.not_true, Bool.false_eq_true, if_false, hv, Outcome.bind, hne, hmeta.2.2, hmf, if_true, pure]

/-- conversely, an arrival is the reconciled result of visiting its file -/
theorem visit_of_parseFile (E : Ext) (ctx : ParseContext) (hmf : ctx.multiFile = true)
    (pick : List ImportedType → Option ImportedType) (cn fn fp : Str) (f : File) (a : ParsedData)
    (h : parseFile E ctx pick cn fn fp f = .ok (some a)) :
    ∃ d, visitFile E ctx cn fn fp f = .ok d ∧ isEmpty d = false ∧ f.marker = true ∧
      a = reconcileReferencedTypes E.U pick d := by
  unfold parseFile at h
  split at h
  · simp at h
  · rename_i hm
    obtain ⟨d, hv, h2⟩ := (Outcome.bind_eq_ok _ _ _).1 h
    have hmeta := visitFile_meta E ctx cn fn fp f d hv
    split at h2
    · simp [pure] at h2
    · rename_i hne
      simp only [hmeta.2.2, hmf, if_true, pure, Outcome.ok.injEq, Option.some.injEq] at h2
      exact ⟨d, hv, by simpa using hne, by simpa using hm, h2.symm⟩

/-! ### an induction principle for the visitor, and: the names of the recorded types are in `type_names` -/

section preserves
variable (P : ParsedData → Prop)
  (hpush : ∀ d ri, P d → P (push d ri))
  (herr : ∀ (d : ParsedData) e, P d → P { d with errors := d.errors ++ [e] })
  (himp : ∀ d imps, P d → P (addImports d imps))
include hpush herr himp

omit hpush herr in
theorem addPaths_preserves (E : Ext) (ctx : ParseContext) (d : ParsedData) (ps : List (List Str)) (h : P d) :
    P (addPaths E ctx d ps) := by
  unfold addPaths
  split
  · exact himp d _ h
  · exact h

theorem collectThenPaths_preserves (E : Ext) (ctx : ParseContext) (fp : Str) (d d' : ParsedData)
    (attrs : List Attr) (o : Outcome RustItem) (ps : List (List Str))
    (h : ((collectIf ctx fp d attrs o).bind fun d₁ => pure (addPaths E ctx d₁ ps)) = .ok d') (hd : P d) : P d' := by
  obtain ⟨d₁, h1, h2⟩ := (Outcome.bind_eq_ok _ _ _).1 h
  simp only [pure, Outcome.ok.injEq] at h2; subst h2
  apply addPaths_preserves P himp
  unfold collectIf at h1
  split at h1
  · cases o with
    | ok it => simp only [collectResult, Outcome.ok.injEq] at h1; subst h1; exact hpush d it hd
    | err e => simp only [collectResult, Outcome.ok.injEq] at h1; subst h1; exact herr d _ hd
    | panic s => simp [collectResult] at h1
  · simp only [pure, Outcome.ok.injEq] at h1; subst h1; exact hd

set_option linter.unusedSectionVars false in
mutual
  theorem visitItem_preserves (E : Ext) (ctx : ParseContext) (fp : Str) :
      ∀ (it : Item) (d d' : ParsedData), visitItem E ctx fp d it = .ok d' → P d → P d'
    | .struct a i g f, d, d', h, hd => by
      simp only [visitItem] at h; exact collectThenPaths_preserves P hpush herr himp E ctx fp d d' a _ _ h hd
    | .enum a i g v, d, d', h, hd => by
      simp only [visitItem] at h; exact collectThenPaths_preserves P hpush herr himp E ctx fp d d' a _ _ h hd
    | .alias a i g t, d, d', h, hd => by
      simp only [visitItem] at h; exact collectThenPaths_preserves P hpush herr himp E ctx fp d d' a _ _ h hd
    | .const a i t l, d, d', h, hd => by
      simp only [visitItem] at h; exact collectThenPaths_preserves P hpush herr himp E ctx fp d d' a _ _ h hd
    | .use t, d, d', h, hd => by
      simp only [visitItem] at h
      split at h
      · simp only [pure, Outcome.ok.injEq] at h; subst h; exact himp d _ hd
      · simp only [pure, Outcome.ok.injEq] at h; subst h; exact hd
    | .mod a i items, d, d', h, hd => by
      simp only [visitItem] at h
      exact visitItems_preserves E ctx fp items _ d' h (addPaths_preserves P himp E ctx d _ hd)
    | .other p items, d, d', h, hd => by
      simp only [visitItem] at h
      exact visitItems_preserves E ctx fp items _ d' h (addPaths_preserves P himp E ctx d _ hd)
  theorem visitItems_preserves (E : Ext) (ctx : ParseContext) (fp : Str) :
      ∀ (items : List Item) (d d' : ParsedData), visitItems E ctx fp d items = .ok d' → P d → P d'
    | [], d, d', h, hd => by
      simp only [visitItems, pure, Outcome.ok.injEq] at h; subst h; exact hd
    | i :: is, d, d', h, hd => by
      simp only [visitItems] at h
      obtain ⟨d₁, h1, h2⟩ := (Outcome.bind_eq_ok _ _ _).1 h
      exact visitItems_preserves E ctx fp is d₁ d' h2 (visitItem_preserves E ctx fp i d d₁ h1 hd)
end

theorem visitFile_preserves (E : Ext) (ctx : ParseContext) (cn fn fp : Str) (f : File) (d : ParsedData)
    (h : visitFile E ctx cn fn fp f = .ok d) (h0 : P (d0 ctx cn fn)) : P d := by
  rw [visitFile_eq] at h
  split at h
  · exact visitItems_preserves P hpush herr himp E ctx fp f.items _ d h
      (addPaths_preserves P himp E ctx _ _ h0)
  · simp only [pure, Outcome.ok.injEq] at h; subst h; exact h0

end preserves

/-- the identifiers of the types (not consts) a result holds -/
def typeIds (d : ParsedData) : List Id :=
  d.structs.map (·.id) ++ d.enums.map (·.id) ++ d.aliases.map (·.id)

/-- the (renamed) name of every recorded type is in `type_names` -/
def NamesRecorded (d : ParsedData) : Prop := ∀ t ∈ typeIds d, t.renamed ∈ d.typeNames

theorem namesRecorded_push (d : ParsedData) (ri : RustItem) (h : NamesRecorded d) : NamesRecorded (push d ri) := by
  intro t ht
  cases ri with
  | struct s =>
    simp only [typeIds, push, List.map_append, List.map_cons, List.map_nil, List.mem_append, List.mem_cons,
      List.not_mem_nil, or_false] at ht
    refine (mem_insertSet _ _ _).2 ?_
    rcases ht with ((ht | ht) | ht) | ht
    · exact Or.inr (h t (by simp [typeIds, ht]))
    · exact Or.inl (by rw [ht])
    · exact Or.inr (h t (by simp only [typeIds, List.mem_append]; exact Or.inl (Or.inr ht)))
    · exact Or.inr (h t (by simp only [typeIds, List.mem_append]; exact Or.inr ht))
  | enum e =>
    simp only [typeIds, push, List.map_append, List.map_cons, List.map_nil, List.mem_append, List.mem_cons,
      List.not_mem_nil, or_false] at ht
    refine (mem_insertSet _ _ _).2 ?_
    rcases ht with (ht | (ht | ht)) | ht
    · exact Or.inr (h t (by simp only [typeIds, List.mem_append]; exact Or.inl (Or.inl ht)))
    · exact Or.inr (h t (by simp only [typeIds, List.mem_append]; exact Or.inl (Or.inr ht)))
    · exact Or.inl (by rw [ht])
    · exact Or.inr (h t (by simp only [typeIds, List.mem_append]; exact Or.inr ht))
  | alias a =>
    simp only [typeIds, push, List.map_append, List.map_cons, List.map_nil, List.mem_append, List.mem_cons,
      List.not_mem_nil, or_false] at ht
    refine (mem_insertSet _ _ _).2 ?_
    rcases ht with (ht | ht) | (ht | ht)
    · exact Or.inr (h t (by simp only [typeIds, List.mem_append]; exact Or.inl (Or.inl ht)))
    · exact Or.inr (h t (by simp only [typeIds, List.mem_append]; exact Or.inl (Or.inr ht)))
    · exact Or.inr (h t (by simp only [typeIds, List.mem_append]; exact Or.inr ht))
    · exact Or.inl (by rw [ht])
  | const c =>
    exact (mem_insertSet _ _ _).2 (Or.inr (h t ht))

/-- **the invariant of a file's result**: every recorded type's output name is in `type_names` -/
theorem visitFile_namesRecorded (E : Ext) (ctx : ParseContext) (cn fn fp : Str) (f : File) (d : ParsedData)
    (h : visitFile E ctx cn fn fp f = .ok d) : NamesRecorded d :=
  visitFile_preserves NamesRecorded namesRecorded_push (fun _ _ h => h) (fun _ _ h => h) E ctx cn fn fp f d h
    (by intro t ht; simp [typeIds, d0] at ht)

/-- a result that holds a type is not empty -/
theorem isEmpty_false_of_typeId (d : ParsedData) (t : Id) (h : t ∈ typeIds d) : isEmpty d = false := by
  cases he : isEmpty d with
  | false => rfl
  | true =>
    simp only [isEmpty, Bool.and_eq_true, List.isEmpty_iff] at he
    obtain ⟨⟨⟨⟨h1, h2⟩, h3⟩, _⟩, _⟩ := he
    simp [typeIds, h1, h2, h3] at h

end TsV.C14I
