import TsV.Model.Lang.Common
/-!
# Model of `core/src/language/python.rs`

`Python` overrides `generate_types`: the items are rendered into a buffer first (`body`), because
the header of the file (imports, `TypeVar` declarations, the custom JSON translation helpers)
depends on what the items needed.  The printer state (`St`) is the three hash containers of the
`Python` value.  None of them is ever cleared, and the same value is used for every crate of a run,
so the state is threaded through the items *and* through the files (`generateFrom`).

Every place where one of the hash containers is turned into text sorts first
(`write_all_imports`: `type_var_names.sort()`, `identifier_vec.sort()`, `imports.sort()`;
`generate_types`: `.iter().sorted()`), so the containers are kept here as sorted duplicate-free
lists and the text does not depend on the hash order.

Declarations are built as fact records (`PyField`, `PyClass`, `PyMember`, `PyEnumClass`,
`PyVariant`, `PyUnion`, `PyAlias`, `PyConst`) and rendered by `render*`.
-/
namespace TsV.Lang.Python
open TsV TsV.Lang

structure Cfg where
  typeMappings : List (Str × Str) := []
  versionHeader : Option Str := none     -- `some version` when the header is written

/-! ## printer state -/

/-- the mutable part of `struct Python` -/
structure St where
  /-- `imports: HashMap<String, HashSet<String>>`, sorted by module, identifiers sorted -/
  imports : List (Str × List Str) := []
  /-- `type_variables: HashSet<String>`, sorted -/
  typeVars : List Str := []
  /-- `types_for_custom_json_translation: HashSet<String>`, sorted -/
  customJson : List Str := []
deriving Repr, Inhabited

def setInsert (x : Str) (l : List Str) : List Str := Parser.insertSorted Str.lt x l

def impInsert : List (Str × List Str) → Str → Str → List (Str × List Str)
  | [], m, i => [(m, [i])]
  | (k, v) :: rest, m, i =>
    if k == m then (k, setInsert i v) :: rest
    else if Str.lt m k then (m, [i]) :: (k, v) :: rest
    else (k, v) :: impInsert rest m i

/-- `add_import`: `self.imports.entry(module).or_default().insert(identifier)` -/
def addImport (st : St) (module ident : Str) : St := { st with imports := impInsert st.imports module ident }

def kTyping : Str := s%"typing"
def kPydantic : Str := s%"pydantic"

/-- `add_type_var` -/
def addTypeVar (st : St) (name : Str) : St :=
  let st := addImport st kTyping s%"TypeVar"
  { st with typeVars := setInsert name st.typeVars }

/-- `add_imports(tp)`: imports triggered by the *Rust* name of a simple / generic type -/
def addImports (st : St) (tp : Str) : St :=
  if tp == s%"Url" then addImport st s%"pydantic.networks" s%"AnyUrl"
  else if tp == s%"DateTime" then addImport st s%"datetime" s%"datetime"
  else st

def addCustom (st : St) (t : Str) : St := { st with customJson := setInsert t st.customJson }

/-! ## custom JSON translation (`json_translation_for_type`) -/

structure CustomFns where
  serializationName : Str
  serializationContent : Str
  deserializationName : Str
  deserializationContent : Str

def bytesFns : CustomFns :=
  { serializationName := s%"serialize_binary_data",
    serializationContent := s%"def serialize_binary_data(value: bytes) -> list[int]:\n        return list(value)",
    deserializationName := s%"deserialize_binary_data",
    deserializationContent := s%"def deserialize_binary_data(value):\n     if isinstance(value, list):\n         if all(isinstance(x, int) and 0 <= x <= 255 for x in value):\n            return bytes(value)\n         raise ValueError(\"All elements must be integers in the range 0-255 (u8).\")\n     elif isinstance(value, bytes):\n            return value\n     raise TypeError(\"Content must be a list of integers (0-255) or bytes.\")" }

def datetimeFns : CustomFns :=
  { serializationName := s%"serialize_datetime_data",
    serializationContent := s%"def serialize_datetime_data(utc_time: datetime) -> str:\n        return utc_time.strftime(\"%Y-%m-%dT%H:%M:%S.%fZ\")",
    deserializationName := s%"parse_rfc3339",
    deserializationContent := s%"def parse_rfc3339(date_str: str) -> datetime:\n    date_formats = [\n        \"%Y-%m-%dT%H:%M:%SZ\",   \n        \"%Y-%m-%dT%H:%M:%S.%fZ\"\n    ]\n    \n    for fmt in date_formats:\n        try:\n            return datetime.strptime(date_str, fmt)\n        except ValueError:\n            continue\n    \n    raise ValueError(f\"Invalid RFC 3339 date format: {date_str}\")" }

/-- `json_translation_for_type` -/
def jsonTranslation (pyType : Str) : Option CustomFns :=
  if pyType == s%"bytes" then some bytesFns
  else if pyType == s%"datetime" then some datetimeFns
  else none

/-! ## types -/

/-- `format!("[{}]", parameters.join(", "))` -/
def bracket (ps : List Str) : Str := s%"[" ++ Str.intercalate s%", " ps ++ s%"]"

/-- `(!generic_types.is_empty()).then(|| format!("[{}]", generic_types.join(", ")))` -/
def bracketSuffix (gs : List Str) : Str := if gs.isEmpty then [] else bracket gs

/-- `format_simple_type` -/
def formatSimple (cfg : Cfg) (base : Str) (st : St) : Str × St :=
  ((mapGet cfg.typeMappings base).getD base, addImports st base)

/-- the type-mapping prelude of `format_special_type`: a mapped special type is replaced, and
registered for custom translation when the *mapped* name is `bytes` / `datetime` -/
def special (cfg : Cfg) (t : RustType) (st : St) (k : St → Outcome (Str × St)) : Outcome (Str × St) :=
  match mapGet cfg.typeMappings t.display with
  | some m => .ok (m, if (jsonTranslation m).isSome then addCustom st m else st)
  | none => k st

mutual
  /-- `Language::format_type` for Python -/
  def formatType (cfg : Cfg) (gens : List Str) : RustType → St → Outcome (Str × St)
    | .simple id, st => .ok (formatSimple cfg id st)
    | .generic id ps, st =>
      let st := addImports st id
      match mapGet cfg.typeMappings id with
      | some m => .ok (m, st)
      | none =>
        match formatTypes cfg gens ps st with
        | .ok (strs, st') =>
          let (b, st'') := formatSimple cfg id st'
          .ok (b ++ bracketSuffix strs, st'')
        | .err e => .err e
        | .panic s => .panic s
    | t@(.vec r), st => special cfg t st fun st =>
        (formatType cfg gens r (addImport st kTyping s%"List")).bind fun (s, st) =>
          .ok (s%"List[" ++ s ++ s%"]", st)
    | t@(.slice r), st => special cfg t st fun st =>
        (formatType cfg gens r (addImport st kTyping s%"List")).bind fun (s, st) =>
          .ok (s%"List[" ++ s ++ s%"]", st)
    | t@(.array r _), st => special cfg t st fun st =>
        (formatType cfg gens r (addImport st kTyping s%"List")).bind fun (s, st) =>
          .ok (s%"List[" ++ s ++ s%"]", st)
    | t@(.option r), st => special cfg t st fun st =>
        (formatType cfg gens r (addImport st kTyping s%"Optional")).bind fun (s, st) =>
          .ok (s%"Optional[" ++ s ++ s%"]", st)
    | t@(.hashMap k v), st => special cfg t st fun st =>
        let st := addImport st kTyping s%"Dict"
        match k with
        | .simple id =>
          if gens.contains id then .err (.formatError s%"GenericKeyForbiddenInTS")
          else
            (formatType cfg gens k st).bind fun (ks, st) =>
            (formatType cfg gens v st).bind fun (vs, st) =>
              .ok (s%"Dict[" ++ ks ++ s%", " ++ vs ++ s%"]", st)
        | _ =>
          (formatType cfg gens k st).bind fun (ks, st) =>
          (formatType cfg gens v st).bind fun (vs, st) =>
            .ok (s%"Dict[" ++ ks ++ s%", " ++ vs ++ s%"]", st)
    | t@(.prim p), st => special cfg t st fun st =>
        match p with
        | .dateTime => .ok (s%"datetime", addImport st s%"datetime" s%"datetime")
        | .unit => .ok (s%"None", st)
        | .string | .char => .ok (s%"str", st)
        | .i8 | .u8 | .i16 | .u16 | .i32 | .u32 | .i54 | .u53 | .u64 | .i64 | .isize | .usize =>
          .ok (s%"int", st)
        | .f32 | .f64 => .ok (s%"float", st)
        | .bool => .ok (s%"bool", st)
  def formatTypes (cfg : Cfg) (gens : List Str) : List RustType → St → Outcome (List Str × St)
    | [], st => .ok ([], st)
    | t :: ts, st =>
      (formatType cfg gens t st).bind fun (s, st) =>
      (formatTypes cfg gens ts st).bind fun (ss, st) => .ok (s :: ss, st)
end

/-! ## comments -/

/-- `"    ".repeat(indent_level)` -/
def indent (n : Nat) : Str := (List.replicate n s%"    ").flatten

/-- `v.replace("\"\"\"", "\\\"\\\"\\\"")`: a `\"\"\"` in the text is written as `\\\"\\\"\\\"`
(`str::replace`: leftmost non-overlapping matches) -/
def escapeQuotes : Str → Str
  | c :: c2 :: c3 :: r =>
    if c = '"' ∧ c2 = '"' ∧ c3 = '"' then s%"\\\"\\\"\\\"" ++ escapeQuotes r
    else c :: escapeQuotes (c2 :: c3 :: r)
  | s => s

/-- `v.replace('\\', "\\\\")`: every backslash of the doc text is doubled -/
def escapeBackslashes (s : Str) : Str := Str.replaceChar s '\\' s%"\\\\"

/-- one doc line inside a docstring (since the `fix:` commit af54d85):
`v.replace('\\', "\\\\").replace("\"\"\"", "\\\"\\\"\\\"")` — backslashes first, then `\"\"\"` -/
def escapeDoc (s : Str) : Str := escapeQuotes (escapeBackslashes s)

/-- `write_comments(w, true, comments, indent)` -/
def docstring (lvl : Nat) (cs : List Str) : Str :=
  if cs.isEmpty then [] else
  indent lvl ++ s%"\"\"\"\n" ++ Str.intercalate nl (cs.map fun c => indent lvl ++ escapeDoc c) ++ nl ++
    indent lvl ++ s%"\"\"\"" ++ nl

/-- `write_comments(w, false, comments, indent)` -/
def hashComments (lvl : Nat) (cs : List Str) : Str :=
  if cs.isEmpty then [] else
  Str.intercalate nl (cs.map fun c => indent lvl ++ s%"# " ++ c) ++ nl

/-! ## names -/

/-- `get_python_keywords` -/
def keywords : List Str :=
  [s%"False", s%"None", s%"True", s%"and", s%"as", s%"assert", s%"async", s%"await", s%"break", s%"class",
   s%"continue", s%"def", s%"del", s%"elif", s%"else", s%"except", s%"finally", s%"for", s%"from",
   s%"global", s%"if", s%"import", s%"in", s%"is", s%"lambda", s%"nonlocal", s%"not", s%"or", s%"pass",
   s%"raise", s%"return", s%"try", s%"while", s%"with", s%"yield"]

/-- `python_property_aware_rename`: the keyword test is on the snake-cased name, but the escaped
name is built from the *original* one -/
def propertyAwareRename (E : Ext) (name : Str) : Str :=
  let snake := E.snakeCase name
  if keywords.contains snake then name ++ s%"_" else snake

/-! ## structs -/

/-- what one pydantic field line says -/
structure PyField where
  comments : List Str
  name : Str               -- python attribute name
  alias : Option Str       -- `alias="..."` (the wire name) when it differs from the attribute name
  ty : Str                 -- incl. `Optional[...]` / `Annotated[...]`
  default : Option Str     -- `default=None`
deriving Repr, Inhabited

def renderField (f : PyField) : Str :=
  let decorators :=
    (match f.alias with | some a => [s%"alias=\"" ++ a ++ s%"\""] | none => []) ++
    (match f.default with | some d => [s%"default=" ++ d] | none => [])
  s%"    " ++ f.name ++ s%": " ++ f.ty ++
    (if decorators.isEmpty then [] else s%" = Field(" ++ Str.intercalate s%", " decorators ++ s%")") ++ nl ++
    docstring 1 f.comments

/-- `add_common_imports` -/
def addCommonImports (st : St) (isOptional requiresCustom isAliased : Bool) : St :=
  let st := if isOptional then addImport st kTyping s%"Optional" else st
  let st := if requiresCustom then
      addImport (addImport (addImport st kPydantic s%"BeforeValidator") kPydantic s%"PlainSerializer")
        kTyping s%"Annotated"
    else st
  if isAliased || isOptional then addImport st kPydantic s%"Field" else st

/-- `write_field` as a fact record plus the state update.  The type registered for function
generation is the *unwrapped* `python_type` (`bytes` / `datetime`; since the `fix:` commit 0d6268d —
before it the `Optional[..]`-wrapped field type of a defaulted field was registered, for which
`json_translation_for_type` has no functions). -/
def fieldFacts (E : Ext) (cfg : Cfg) (gens : List Str) (f : RustField) (st : St) : Outcome (PyField × St) :=
  let isOptional := f.ty.isOptional || f.hasDefault
  let notOptionalButDefault := !f.ty.isOptional && f.hasDefault
  (formatType cfg gens f.ty st).bind fun (pythonType, st) =>
  let name := propertyAwareRename E f.id.original
  let isAliased := name != f.id.renamed
  let custom := jsonTranslation pythonType
  let st := addCommonImports st isOptional custom.isSome isAliased
  let fieldType := if notOptionalButDefault then s%"Optional[" ++ pythonType ++ s%"]" else pythonType
  let (fieldType, st) := match custom with
    | some c =>
      (s%"Annotated[" ++ fieldType ++ s%", BeforeValidator(" ++ c.deserializationName ++
        s%"), PlainSerializer(" ++ c.serializationName ++ s%")]", addCustom st pythonType)
    | none => (fieldType, st)
  .ok ({ comments := f.comments, name, alias := if isAliased then some f.id.renamed else none,
         ty := fieldType,
         default := if isOptional || notOptionalButDefault then some s%"None" else none }, st)

def fieldsFacts (E : Ext) (cfg : Cfg) (gens : List Str) : List RustField → St → Outcome (List PyField × St)
  | [], st => .ok ([], st)
  | f :: fs, st =>
    (fieldFacts E cfg gens f st).bind fun (pf, st) =>
    (fieldsFacts E cfg gens fs st).bind fun (rest, st) => .ok (pf :: rest, st)

/-- a pydantic model class -/
structure PyClass where
  name : Str
  generics : List Str          -- `Generic[...]` base when non-empty
  comments : List Str
  modelConfig : Bool           -- `model_config = ConfigDict(populate_by_name=True)`
  fields : List PyField
deriving Repr, Inhabited

def renderClass (c : PyClass) : Str :=
  s%"class " ++ c.name ++ s%"(" ++
    (if c.generics.isEmpty then s%"BaseModel"
     else s%"BaseModel, Generic[" ++ Str.intercalate s%", " c.generics ++ s%"]") ++ s%"):\n" ++
    docstring 1 c.comments ++
    (if c.modelConfig then s%"    model_config = ConfigDict(populate_by_name=True)\n\n" else []) ++
    (c.fields.flatMap renderField) ++
    (if c.fields.isEmpty then s%"    pass" else []) ++ nl

/-- `write_struct` -/
def structFacts (E : Ext) (cfg : Cfg) (rs : RustStruct) (st : St) : Outcome (PyClass × St) :=
  let st := addImport st kPydantic s%"BaseModel"
  let st := rs.genericTypes.foldl addTypeVar st
  let st := if rs.genericTypes.isEmpty then st else addImport st kTyping s%"Generic"
  -- `handle_model_config`
  let visiblyRenamed := rs.fields.any fun f => propertyAwareRename E f.id.original != f.id.renamed
  let st := if visiblyRenamed then addImport st kPydantic s%"ConfigDict" else st
  (fieldsFacts E cfg rs.genericTypes rs.fields st).bind fun (fields, st) =>
    .ok ({ name := rs.id.renamed, generics := rs.genericTypes, comments := rs.comments,
           modelConfig := visiblyRenamed, fields }, st)

def writeStruct (E : Ext) (cfg : Cfg) (rs : RustStruct) (st : St) : Outcome (Str × St) :=
  (structFacts E cfg rs st).bind fun (c, st) => .ok (renderClass c, st)

/-! ## aliases and constants -/

structure PyAlias where
  name : Str
  generics : List Str     -- not printed on the left-hand side; each one is declared as a `TypeVar`
  ty : Str
  comments : List Str
deriving Repr, Inhabited

/-- `Name = <type>` (a generic alias is an ordinary assignment whose right-hand side mentions the
type variables); the doc comment is written *after* the assignment -/
def renderAlias (a : PyAlias) : Str :=
  a.name ++ s%" = " ++ a.ty ++ s%"\n\n" ++ docstring 0 a.comments

/-- `write_type_alias` (since the `fix:` commit f8d1040): the type is formatted first, then every
generic parameter is registered with `add_type_var` -/
def aliasFacts (cfg : Cfg) (a : RustTypeAlias) (st : St) : Outcome (PyAlias × St) :=
  (formatType cfg a.genericTypes a.ty st).bind fun (ty, st) =>
    let st := a.genericTypes.foldl addTypeVar st
    .ok ({ name := a.id.renamed, generics := a.genericTypes, ty, comments := a.comments }, st)

structure PyConst where
  name : Str
  ty : Str
  value : Nat
deriving Repr, Inhabited

def renderConst (c : PyConst) : Str :=
  c.name ++ s%": " ++ c.ty ++ s%" = " ++ Str.natToStr c.value ++ nl

/-- `write_const` (`RenameExt::to_snake_case` then `str::to_uppercase`) -/
def constFacts (E : Ext) (cfg : Cfg) (c : RustConst) (st : St) : Outcome (PyConst × St) :=
  (formatType cfg [] c.ty st).bind fun (ty, st) =>
    .ok ({ name := E.U.upperStr (Rename.toSnake E.U c.id.renamed), ty, value := c.expr }, st)

/-! ## enums -/

/-- one member of a `(str, Enum)` class -/
structure PyMember where
  name : Str          -- python member name
  wire : Str          -- the value on the wire (unescaped)
  comments : List Str
deriving Repr, Inhabited

/-- a unit enum -/
structure PyEnumClass where
  name : Str
  comments : List Str
  members : List PyMember
deriving Repr, Inhabited

/-- unit enums escape `"` in the value (`renamed.replace("\"", "\\\"")`) -/
def renderEnumClass (c : PyEnumClass) : Str :=
  s%"class " ++ c.name ++ s%"(str, Enum):\n" ++ docstring 1 c.comments ++
    (if c.members.isEmpty then s%"    pass\n"
     else c.members.flatMap fun m =>
       s%"    " ++ m.name ++ s%" = \"" ++ Str.replaceChar m.wire '"' s%"\\\"" ++ s%"\"\n" ++ docstring 1 m.comments)

/-- the members of a unit enum; a non-unit variant is `unreachable!` -/
def unitMembers (E : Ext) : List RustEnumVariant → Outcome (List PyMember)
  | [] => .ok []
  | .unit id cs :: vs =>
    (unitMembers E vs).bind fun rest =>
      .ok ({ name := E.U.upperStr id.original, wire := id.renamed, comments := cs } :: rest)
  | _ :: _ => .panic s%"python.rs:368"

/-- one variant class of a tagged union -/
structure PyVariant where
  className : Str
  comments : List Str
  tagKey : Str
  tagLiteral : Str            -- `<Enum>Types.<MEMBER>`
  wire : Str                  -- the tag value on the wire
  contentKey : Str
  contentType : Option Str    -- `None` for unit variants
deriving Repr, Inhabited

/-- `write_variant_class` followed by the blank line -/
def renderVariant (v : PyVariant) : Str :=
  s%"class " ++ v.className ++ s%"(BaseModel):\n" ++ docstring 1 v.comments ++
    s%"    " ++ v.tagKey ++ s%": Literal[" ++ v.tagLiteral ++ s%"] = " ++ v.tagLiteral ++ nl ++
    (match v.contentType with
     | none => []
     | some t => s%"    " ++ v.contentKey ++ s%": " ++ t ++ nl) ++ nl

/-- an algebraic enum: the inner classes of the struct variants, the `Types` enumeration of the
tags, one class per variant, and the union alias -/
structure PyUnion where
  name : Str
  comments : List Str
  inner : List PyClass
  typesName : Str
  tags : List PyMember          -- member name = `SNAKE_UPPER(renamed)`, wire = renamed
  variants : List PyVariant
deriving Repr, Inhabited

def renderUnion (u : PyUnion) : Str :=
  (u.inner.flatMap renderClass) ++
  s%"class " ++ u.typesName ++ s%"(str, Enum):\n" ++
  Str.intercalate nl (u.tags.map fun m => s%"    " ++ m.name ++ s%" = \"" ++ m.wire ++ s%"\"") ++ nl ++ nl ++
  (u.variants.flatMap renderVariant) ++
  hashComments 0 u.comments ++
  (match u.variants with
   | [v] => u.name ++ s%" = " ++ v.className ++ nl
   | vs => u.name ++ s%" = Union[" ++ Str.intercalate s%", " (vs.map (·.className)) ++ s%"]" ++ nl)

def innerName (e : RustEnum) (variantOriginal : Str) : Str := e.id.renamed ++ variantOriginal ++ s%"Inner"

/-- `write_types_for_anonymous_structs` -/
def innerFacts (E : Ext) (cfg : Cfg) (e : RustEnum) : List (Id × List RustField) → St → Outcome (List PyClass × St)
  | [], st => .ok ([], st)
  | (id, fs) :: rest, st =>
    (structFacts E cfg (anonymousStruct e (innerName e id.original) id.original fs) st).bind fun (c, st) =>
    (innerFacts E cfg e rest st).bind fun (cs, st) => .ok (c :: cs, st)

/-- `name.to_case(Case::Snake).to_uppercase()` -/
def tagMemberName (E : Ext) (renamed : Str) : Str := E.U.upperStr (E.snakeCase renamed)

def variantFacts (E : Ext) (cfg : Cfg) (e : RustEnum) (tag content : Str) (v : RustEnumVariant) (st : St) :
    Outcome (PyVariant × St) :=
  let base : PyVariant :=
    { className := e.id.renamed ++ v.id.original, comments := v.comments, tagKey := tag,
      tagLiteral := e.id.renamed ++ s%"Types." ++ tagMemberName E v.id.renamed, wire := v.id.renamed,
      contentKey := content, contentType := none }
  match v with
  | .unit _ _ => .ok (base, addImport st kTyping s%"Literal")
  | .tuple _ _ ty =>
    (formatType cfg e.genericTypes ty st).bind fun (t, st) =>
      .ok ({ base with contentType := some t }, addImport st kTyping s%"Literal")
  | .anonymousStruct id _ _ =>
    .ok ({ base with contentType := some (innerName e id.original) }, addImport st kTyping s%"Literal")

def variantsFacts (E : Ext) (cfg : Cfg) (e : RustEnum) (tag content : Str) :
    List RustEnumVariant → St → Outcome (List PyVariant × St)
  | [], st => .ok ([], st)
  | v :: vs, st =>
    (variantFacts E cfg e tag content v st).bind fun (pv, st) =>
    (variantsFacts E cfg e tag content vs st).bind fun (rest, st) => .ok (pv :: rest, st)

/-- `write_enum` for `RustEnum::Algebraic` (`write_algebraic_enum`) -/
def unionFacts (E : Ext) (cfg : Cfg) (e : RustEnum) (tag content : Str) (st : St) : Outcome (PyUnion × St) :=
  (innerFacts E cfg e (structVariants e) st).bind fun (inner, st) =>
  let st := e.genericTypes.foldl addTypeVar st
  let st := addImport st kPydantic s%"BaseModel"
  let st := addImport st s%"enum" s%"Enum"
  (variantsFacts E cfg e tag content e.variants st).bind fun (variants, st) =>
  let st := if variants.length == 1 then st else addImport st kTyping s%"Union"
  .ok ({ name := e.id.renamed, comments := e.comments, inner, typesName := e.id.renamed ++ s%"Types",
         tags := e.variants.map fun v =>
           { name := tagMemberName E v.id.renamed, wire := v.id.renamed, comments := [] },
         variants }, st)

/-- `write_enum` -/
def writeEnum (E : Ext) (cfg : Cfg) (e : RustEnum) (st : St) : Outcome (Str × St) :=
  match e.keys with
  | none =>
    -- `write_types_for_anonymous_structs` runs first (a unit enum has no struct variants; if it had,
    -- their classes would be written before the `unreachable!`)
    (innerFacts E cfg e (structVariants e) st).bind fun (inner, st) =>
    let st := addImport st s%"enum" s%"Enum"
    (unitMembers E e.variants).bind fun members =>
      .ok ((inner.flatMap renderClass) ++
           renderEnumClass { name := e.id.renamed, comments := e.comments, members }, st)
  | some (tag, content) =>
    (unionFacts E cfg e tag content st).bind fun (u, st) => .ok (renderUnion u, st)

/-! ## the file -/

/-- `begin_file` -/
def beginFile (cfg : Cfg) : Str :=
  match cfg.versionHeader with
  | some v => s%"\"\"\"\n Generated by typeshare " ++ v ++ s%"\n\"\"\"\n"
  | none => []

/-- `write_all_imports`: the lines `from M import a, b` are sorted as strings -/
def writeAllImports (st : St) : Str :=
  let typeVars := st.typeVars.map fun n => n ++ s%" = TypeVar(\"" ++ n ++ s%"\")"
  let imports := (st.imports.map fun (m, ids) =>
    s%"from " ++ m ++ s%" import " ++ Str.intercalate s%", " ids).mergeSort fun a b => Str.le a b
  s%"from __future__ import annotations\n\n" ++ Str.intercalate nl imports ++ s%"\n\n" ++
    (if typeVars.isEmpty then nl else Str.intercalate nl typeVars ++ s%"\n\n\n")

/-- the helper functions for the registered types that have a translation (everything registered
is `bytes` or `datetime`, so the `filter_map` drops nothing) -/
def writeCustomFns (st : St) : Str :=
  (st.customJson.filterMap jsonTranslation).flatMap fun c =>
    c.serializationContent ++ s%"\n\n" ++ c.deserializationContent ++ nl ++ nl

def writeItem (E : Ext) (cfg : Cfg) (it : RustItem) (st : St) : Outcome (Str × St) :=
  match it with
  | .enum e => writeEnum E cfg e st
  | .struct s => writeStruct E cfg s st
  | .alias a => (aliasFacts cfg a st).bind fun (pa, st) => .ok (renderAlias pa, st)
  | .const c => (constFacts E cfg c st).bind fun (pc, st) => .ok (renderConst pc, st)

def writeItems (E : Ext) (cfg : Cfg) : List RustItem → St → Outcome (Str × St)
  | [], st => .ok ([], st)
  | it :: its, st =>
    (writeItem E cfg it st).bind fun (a, st) =>
    (writeItems E cfg its st).bind fun (b, st) => .ok (a ++ b, st)

/-- `if self.types_for_custom_json_translation.contains("datetime") { self.add_import("datetime", "datetime") }`
(`fix:` commit bfc37c3): the datetime translation functions mention `datetime` themselves, whatever
Rust type was mapped to it -/
def addDatetimeImport (st : St) : St :=
  if st.customJson.contains s%"datetime" then addImport st s%"datetime" s%"datetime" else st

/-- `Python::generate_types` for one output file; `st0` is the printer state left by the files
generated before this one -/
def generate (E : Ext) (cfg : Cfg) (d : ParsedData) (st0 : St) : Outcome (Str × St) :=
  match Pipeline.generateOrder d with
  | none => .panic s%"topsort"
  | some items =>
    (writeItems E cfg items st0).bind fun (body, st) =>
      let st := addDatetimeImport st
      .ok (beginFile cfg ++ writeAllImports st ++ writeCustomFns st ++ body, st)

/-- all output files of one run, the printer state threaded through the crates in map order
(`write_imports` is a no-op, so the `used_imports` of multi-file mode are not consulted) -/
def generateFrom (E : Ext) (cfg : Cfg) :
    List (Str × ParsedData × Option Pipeline.ScopedCrateTypes) → St → Outcome (List (Str × Str))
  | [], _ => .ok []
  | (crate, d, _) :: rest, st =>
    (generate E cfg d st).bind fun (text, st) =>
    (generateFrom E cfg rest st).bind fun outs => .ok ((crate, text) :: outs)

/-- all output files of one run: `jobs` are the crates in map order with their reconciled data and
(in multi-file mode) the imports `used_imports` computed.  Returns (crate ↦ text) in the same order
(plus, for Swift in multi-file mode, what `post_generation` writes, under the key
`<post>/<file name>`). -/
def generateAll (E : Ext) (cfg : Cfg) (_multiFile : Bool)
    (jobs : List (Str × ParsedData × Option Pipeline.ScopedCrateTypes)) : Outcome (List (Str × Str)) :=
  generateFrom E cfg jobs {}

end TsV.Lang.Python
