"""C10 — generated files are syntactically well-formed in their target language (partial strength).

Every generated program goes through the Lean model and the real generator (byte-exact comparison, the tie for the
theorems of TsV.C10), and the IMPLEMENTATION's text goes through an oracle: CPython's own parser (`ast.parse`, plus a
declaration-shape pass and, in the thorough tier, execution against stub `pydantic`) for Python, recursive-descent
recognisers for the declaration subset for the other five (tools/c10_syntax.py).  A rejected output is a failing
input unless one of the `Known_*` classes of TsV.C10 (same predicates, evaluated here on the implementation's
reconciled ParsedData) explains the rejection.
"""
import re, sys, types, unicodedata
from common import *
from syn_gen import *
import gen as genmod
from gen import Gen, TYPE_WORDS
import l2
import c10_syntax as syn

NEEDS = ("runner", "cli")
TRUSTED = [
    "C10 oracles: CPython's parser for Python; for TypeScript/Kotlin/Swift/Scala/Go the hand-written tokenisers and "
    "recursive-descent recognisers of tools/c10_syntax.py (the declaration subset typeshare emits, NOT the vendors' grammars; "
    "bodies of Swift init(from:)/encode(to:), Go funcs and the TypeScript reviver/replacer are balanced token soup)",
    "keyword policy of the oracles: Swift reserved words are rejected in declaring positions, as init labels only inout/var/let, "
    "lower-case ones in type position; TypeScript/Kotlin/Scala/Go reserved words in identifier position are accepted and counted "
    "(the property demands escaping only where the back end promises it)",
    "identifier alphabets of the five recognisers (c10_syntax.id_start / id_part): Go = Unicode letters (L*), `_`, decimal digits (Nd); Kotlin = "
    "L*, Nl, `_`, Nd; TypeScript = ID_Start / ID_Continue computed from Python's unicodedata categories plus the Other_ID_* lists; Swift = the "
    "identifier-head / identifier-character ranges of the language reference; Scala = the union of the specification (letters, Nl, ASCII digits) "
    "and the scanner's Character.isUnicodeIdentifierPart; a non-ASCII character outside these (and outside comments and literals) is a lexical "
    "error in Go, Kotlin and TypeScript.  Escape sequences inside string literals are not validated",
    "lexer automata and bracket discipline of TsV/Lemmas/C10_Lex.lean (`wellBracketed`) as the specification of 'all "
    "delimiters, string literals and comments are closed'",
]

# ------------------------------------------------------------------------------------------ scope and known classes

IDENT = re.compile(r"[A-Za-z_][A-Za-z0-9_]*\Z")
PY_KEYWORDS = {"False", "None", "True", "and", "as", "assert", "async", "await", "break", "class", "continue", "def", "del",
               "elif", "else", "except", "finally", "for", "from", "global", "if", "import", "in", "is", "lambda",
               "nonlocal", "not", "or", "pass", "raise", "return", "try", "while", "with", "yield"}
SWIFT_KEYWORDS = ["associatedtype", "class", "deinit", "enum", "extension", "fileprivate", "func", "import", "init", "inout",
                  "internal", "let", "operator", "private", "protocol", "public", "rethrows", "static", "struct", "subscript",
                  "typealias", "var", "break", "case", "continue", "default", "defer", "do", "else", "fallthrough", "for",
                  "guard", "if", "in", "repeat", "return", "switch", "where", "while", "as", "Any", "catch", "false", "is",
                  "nil", "super", "self", "Self", "throw", "throws", "true", "try", "Protocol", "Type"]


def to_pascal(s):
    all_upper = rust_all_uppercase(s)       # no lowercase letter of any script (rename.rs: is_all_uppercase)
    out, cap = [], True
    for ch in s:
        if ch == "_":
            cap = True
        elif cap:
            out.append(ch.upper() if ch.isascii() else ch)
            cap = False
        else:
            out.append(ch.lower() if all_upper and ch.isascii() else ch)
    return "".join(out)


def to_camel(s):
    p = to_pascal(s)
    return (p[0].lower() if p[0].isascii() else p[0]) + p[1:] if p else p


def type_names(t, acc):
    if "S" in t:
        acc.append(t["S"])
    elif "G" in t:
        acc.append(t["G"])
        for p in t["p"]:
            type_names(p, acc)
    else:
        for a in t.get("a", []):
            type_names(a, acc)


def all_fields(d):
    for s in d["structs"]:
        for f in s["fields"]:
            yield f
    for e in d["enums"]:
        for v in e["variants"]:
            for f in v.get("fields", []):
                yield f


def printed_type_names(d):
    """every name a back end prints in a type-name position: declared names (original and renamed) and references"""
    acc = []
    for k in ("structs", "enums", "aliases"):
        for it in d[k]:
            acc += [it["id"]["o"], it["id"]["r"]]
    for a in d["aliases"]:
        type_names(a["ty"], acc)
    for c in d["consts"]:
        type_names(c["ty"], acc)
    for f in all_fields(d):
        type_names(f["ty"], acc)
    for e in d["enums"]:
        for v in e["variants"]:
            if "ty" in v:
                type_names(v["ty"], acc)
    return acc


def printed_identifier_names(d):
    """every name some back end prints in an identifier position: type names, field / variant / constant names (original and
    renamed), generic parameters, tag and content keys"""
    acc = printed_type_names(d)
    for f in all_fields(d):
        acc += [f["id"]["o"], f["id"]["r"]]
    for k in ("structs", "enums", "aliases"):
        for it in d[k]:
            acc += it["generic_types"]
    for c in d["consts"]:
        acc += [c["id"]["o"], c["id"]["r"]]
    for e in d["enums"]:
        for v in e["variants"]:
            acc += [v["id"]["o"], v["id"]["r"]]
        if e["kind"] == "alg":
            acc += [e["tag"], e["content"]]
    return acc


def ascii_lower(s):
    return "".join(ch.lower() if ch.isascii() else ch for ch in s)


def known_classes(lang, cfg, datas):
    """the `Known_*` predicates of TsV.C10 evaluated on the implementation's reconciled ParsedData: id -> detail"""
    out = {}

    def add(kid, detail):
        out.setdefault(kid, [])
        out[kid] += [x for x in detail if x not in out[kid]]
    for d in datas:
        dashed = sorted({n for n in printed_type_names(d) if "-" in n})
        if dashed:
            add("dashed-type-name", dashed)
        if lang == "python":
            kw = [k for e in d["enums"] if e["kind"] == "alg" for k in (e["tag"], e["content"]) if k in PY_KEYWORDS]
            if kw:
                add("python-tag-key-keyword", kw)
            alg = [v["id"]["r"] for e in d["enums"] if e["kind"] == "alg" for v in e["variants"]]
            dig = [r for r, sn in zip(alg, snake(alg)) if sn == "" or sn[0].isdigit()]
            if dig:
                add("python-tag-member-not-identifier", dig)
            # struct fields: the attribute name is snake(original); snake-casing drops leading underscores
            fo = [f["id"]["o"] for f in all_fields(d)]
            fdig = [sn for sn in snake(fo) if sn == "" or sn[0].isdigit()]
            if fdig:
                add("field-name-starts-with-digit", fdig)
        else:
            # a field `_1x` is a Rust identifier; PascalCase / camelCase (Go's field names, rename_all) drop the underscore, and the
            # serde name is copied into the member / parameter / property position
            fdig = sorted({c for f in all_fields(d) for c in (f["id"]["r"], to_pascal(f["id"]["o"])) if c and c[0].isdigit()})
            if fdig:
                add("field-name-starts-with-digit", fdig)
        if lang == "kotlin" and d.get("multi_file") and cfg.get("package", "") == "":
            add("kotlin-import-empty-package", [""])
        if lang != "python":
            # a Rust identifier (XID_Start XID_Continue*) has characters the target's identifier alphabet lacks; names are copied
            out_of = sorted({n for n in printed_identifier_names(d) if any(not ch.isascii() and not syn.id_part(lang, ch) for ch in n)})
            if out_of:
                add("identifier-outside-target-alphabet", out_of)
        if lang == "kotlin":
            # algebraic enums: PascalCase drops the leading underscores, the `_` prefix is given back to ASCII digits only
            lost = [v["id"]["o"] for e in d["enums"] if e["kind"] == "alg" for v in e["variants"]
                    if to_pascal(v["id"]["o"]) and not syn.id_start(lang, to_pascal(v["id"]["o"])[0]) and not to_pascal(v["id"]["o"])[0].isascii()]
            if lost:
                add("variant-name-starts-with-non-ascii-digit", lost)
        if lang == "go":
            # the method receiver of an algebraic enum is the lower-cased (full Unicode mapping) first character of its name
            rec = [e["id"]["o"] for e in d["enums"] if e["kind"] == "alg" and e["id"]["o"] and not syn.is_identifier("go", e["id"]["o"][0].lower())
                   and syn.is_identifier("go", e["id"]["o"][0])]
            if rec:
                add("go-receiver-lower-case-expansion", rec)
        if lang == "typescript":
            ge = [e["id"]["r"] for e in d["enums"] if e["kind"] == "unit" and e["generic_types"]]
            if ge:
                add("typescript-generic-unit-enum", ge)
        if lang == "scala":
            du = [f["id"]["r"] for f in all_fields(d) if f["has_default"] and f["ty"].get("Sp") != "Option"]
            if du:
                add("scala-default-underscore", du)
        if lang == "swift":
            kw = [k for e in d["enums"] if e["kind"] == "alg" for k in (e["tag"], e["content"]) if k in syn.SWIFT_RESERVED]
            lab = [f["id"]["r"] for f in all_fields(d) if f["id"]["r"].replace("-", "_") in ("var", "let", "inout")]
            if kw or lab:
                add("swift-keyword-not-escaped", kw + lab)
            bad = []
            for e in d["enums"]:
                for v in e["variants"]:
                    c = to_camel(v["id"]["o"])
                    if c == "" or (e["kind"] == "unit" and c[0].isdigit()):
                        bad.append(v["id"]["o"])
            if bad:
                add("swift-case-name-not-identifier", bad)
    return out


_SNAKE = {}


def snake(strings):
    """convert_case's snake-casing (external to typeshare), by the real crate through the runner"""
    todo = sorted({x for x in strings if x not in _SNAKE})
    if todo:
        for a, b in runner([{"op": "snake", "strings": todo}])[0]["ok"]:
            _SNAKE[a] = b
    return [_SNAKE[x] for x in strings]


def all_comments(d):
    for k in ("structs", "enums", "aliases"):
        for it in d[k]:
            yield from it["comments"]
    for f in all_fields(d):
        yield from f["comments"]
    for e in d["enums"]:
        for v in e["variants"]:
            yield from v["comments"]


def explains(kid, detail, lang, rej, text):
    """does the known class account for THIS rejection (not merely co-occur with it)?"""
    lines = text.split("\n")
    ln = rej.tok[2] if rej.tok else 0
    line = lines[ln - 1] if 0 < ln <= len(lines) else ""
    near = rej.tok[1] if rej.tok else ""
    if kid == "dashed-type-name":
        return any(n in line for n in detail) and (near == "-" or lang == "python")
    if kid == "python-tag-key-keyword":
        return any(re.match(r"\s+%s: " % re.escape(k), line) for k in detail)
    if kid == "python-tag-member-not-identifier":
        return (any(re.match(r"\s+\S* = %s\Z" % re.escape(json.dumps(r, ensure_ascii=False)), line) for r in detail)
                or rej.what.startswith("CPython: invalid decimal literal"))
    if kid == "field-name-starts-with-digit":
        if lang == "python":
            return any(re.match(r"\s+%s: " % re.escape(sn), line) for sn in detail)
        return bool(near) and near[0].isdigit() and any(c == near or c.startswith(near) for c in detail) \
            and any(re.search(r"(?<![A-Za-z0-9_\"])%s" % re.escape(c), line) for c in detail)
    if kid == "kotlin-import-empty-package":
        return line.startswith("import .")
    if kid == "identifier-outside-target-alphabet":
        # the character the recogniser stopped at, together with the character before it, is copied from one of the names
        # (modulo ASCII case): a combining mark that a case mapping of the back end *produced* is not explained by this class
        # a character that *begins* one of the names is explained wherever it stands (names are prefixed and concatenated)
        at = line.find(near) if len(near) == 1 and not near.isascii() else -1
        # (PascalCase / camelCase take the underscores out of a name)
        pair = ascii_lower(line[at - 1:at + 1]) if at > 0 else None
        return at >= 0 and not syn.id_part(lang, near) and any(n.startswith(near) or (pair and (pair in ascii_lower(n) or pair in ascii_lower(n).replace("_", "")))
                                                                for n in detail)
    if kid == "variant-name-starts-with-non-ascii-digit":
        return len(near) >= 1 and not near[0].isascii() and unicodedata.category(near[0]) == "Nd" and any(to_pascal(n).startswith(near[0]) for n in detail)
    if kid == "go-receiver-lower-case-expansion":
        return line.startswith("func (") and len(near) == 1 and any(near in n[0].lower() and line.startswith("func (" + n[0].lower()) for n in detail)
    if kid == "typescript-generic-unit-enum":
        return near == "<" and line.startswith("export enum ")
    if kid == "scala-default-underscore":
        return "not a default-value expression" in rej.what and near == "_"
    if kid == "swift-keyword-not-escaped":
        return "keyword" in rej.what and near in [x.replace("-", "_") for x in detail]
    if kid == "swift-case-name-not-identifier":
        return "expected an identifier (case)" in rej.what
    return False


# stored witnesses: (id, lang, config, source or None for the two-crate Kotlin case)
DASHED = "#[typeshare]\n#[serde(rename = \"New-Name\")]\npub struct Foo { pub a: u8 }\n"
WITNESSES = [
    ("dashed-type-name", "typescript", {}, DASHED),
    ("dashed-type-name", "kotlin", {"package": "com.example"}, DASHED),
    ("dashed-type-name", "swift", {}, DASHED),
    ("dashed-type-name", "scala", {"package": "com.example"}, DASHED),
    ("dashed-type-name", "go", {"package": "proto"}, DASHED),
    ("dashed-type-name", "python", {}, DASHED),
    ("field-name-starts-with-digit", "python", {}, "#[typeshare]\npub struct S { pub _1x: u8, pub ok: u8 }\n"),
    ("field-name-starts-with-digit", "go", {"package": "proto"}, "#[typeshare]\npub struct S { pub _1x: u8, pub ok: u8 }\n"),
    ("field-name-starts-with-digit", "typescript", {}, "#[typeshare]\n#[serde(rename_all = \"camelCase\")]\npub struct S { pub _2fa_code: u8, pub ok: u8 }\n"),
    ("field-name-starts-with-digit", "kotlin", {"package": "com.example"}, "#[typeshare]\n#[serde(rename_all = \"camelCase\")]\npub struct S { pub _2fa_code: u8, pub ok: u8 }\n"),
    ("field-name-starts-with-digit", "swift", {}, "#[typeshare]\n#[serde(rename_all = \"camelCase\")]\npub struct S { pub _2fa_code: u8, pub ok: u8 }\n"),
    ("field-name-starts-with-digit", "scala", {"package": "com.example"}, "#[typeshare]\n#[serde(rename_all = \"camelCase\")]\npub struct S { pub _2fa_code: u8, pub ok: u8 }\n"),
    ("python-tag-key-keyword", "python", {}, "#[typeshare]\n#[serde(tag = \"class\", content = \"content\")]\npub enum E { A(u8) }\n"),
    ("typescript-generic-unit-enum", "typescript", {}, "#[typeshare]\npub enum E<T> { A, #[serde(skip)] P(std::marker::PhantomData<T>) }\n"),
    ("scala-default-underscore", "scala", {"package": "com.example"}, "#[typeshare]\npub struct S { #[serde(default)] pub a: u8 }\n"),
    ("swift-keyword-not-escaped", "swift", {}, "#[typeshare]\n#[serde(tag = \"case\", content = \"content\")]\npub enum E { A(u8) }\n"),
    ("swift-keyword-not-escaped", "swift", {}, "#[typeshare]\npub struct S { pub var: u8 }\n"),
    ("swift-case-name-not-identifier", "swift", {}, "#[typeshare]\npub enum E { _1, B }\n"),
    ("python-tag-member-not-identifier", "python", {}, "#[typeshare]\n#[serde(tag = \"t\", content = \"c\")]\npub enum E { _1(u8), B }\n"),
    ("kotlin-import-empty-package", "kotlin", {"package": ""}, None),
    ("identifier-outside-target-alphabet", "go", {"package": "proto"}, "#[typeshare]\npub struct S { pub x\u0303b: u8 }\n"),
    ("identifier-outside-target-alphabet", "go", {"package": "proto"}, "#[typeshare]\npub struct S { pub \u2167: u8 }\n"),
    ("identifier-outside-target-alphabet", "kotlin", {"package": "com.example"}, "#[typeshare]\npub struct S { pub a\u00b7b: u8 }\n"),
    ("identifier-outside-target-alphabet", "kotlin", {"package": "com.example"}, "#[typeshare]\npub enum E { A\u203fb, C }\n"),
    ("go-receiver-lower-case-expansion", "go", {"package": "proto"},
     "#[typeshare]\n#[serde(tag = \"t\", content = \"c\")]\npub enum \u0130nek { A(u8) }\n"),
    ("variant-name-starts-with-non-ascii-digit", "kotlin", {"package": "com.example"},
     "#[typeshare]\n#[serde(tag = \"t\", content = \"c\")]\npub enum E { _\u0663x(u8), B }\n"),
]
# Classes the Unicode identifier part found on the unchanged tree.  KNOWN_FINDINGS.txt is where they belong (`open: property=C10
# id=<id> <text>`); until the lines are there this table declares them open, so that they are replayed, counted and printed as
# KNOWN-FINDING like the others (an entry of KNOWN_FINDINGS.txt with the same id takes precedence)
# witnesses of repaired findings (python-generic-alias: f8d1040, python-docstring-escape: af54d85,
# scala-package-without-dot: 653aee1): the oracle must accept the implementation's output now
REPAIRED = [
    ("scala-package-without-dot", "scala", {"package": "pkg"}, "#[typeshare]\npub struct S { pub a: u8 }\n"),
    ("scala-package-without-dot", "scala", {"package": "pkg"}, "#[typeshare]\npub struct S;\n"),
    ("scala-package-without-dot", "scala", {"package": "pkg"},
     "#[typeshare]\npub type A = Vec<u8>;\n#[typeshare]\npub struct S { pub a: A }\n#[typeshare]\npub enum E { P, Q }\n"),
    ("python-generic-alias", "python", {}, "#[typeshare]\npub type G<T> = Vec<T>;\n"),
    ("python-generic-alias", "python", {}, "#[typeshare]\n/// doc\npub type M<K, V> = HashMap<String, Option<Vec<V>>>;\n#[typeshare]\npub struct S<K> { pub a: K }\n"),
    ("python-docstring-escape", "python", {}, "#[typeshare]\n/// see C:\\Users\\x\npub struct S { pub a: u8 }\n"),
    ("python-docstring-escape", "python", {}, "#[typeshare]\n/// \\N \\x4 \\u12 \\\"\"\" \\\npub struct S {\n    /// trailing \\\n    pub a: u8 }\n"),
]
# the witness of TsV.C10.C10_not_full (theorem renamed_name_printed_raw): the item rename is copied into the declaration
# unchecked (the mechanism of dashed-type-name), so a dash *and a bracket* leave the file lexically unclosed
NOT_FULL = ("scala", {"package": "com.example", "version_header": False},
            "#[typeshare]\n#[serde(rename = \"New-Name{\")]\npub struct Foo;\n",
            "package com\n\npackage example {\n\nclass New-Name{ extends Serializable\n\n}\n")
KOTLIN_IMPORT_FILES = [
    {"src": "#[typeshare]\npub struct A { pub a: u8 }\n", "crate": "alpha", "file_name": "alpha.out", "path": "alpha/src/lib.rs"},
    {"src": "use alpha::A;\n#[typeshare]\npub struct B { pub a: A }\n", "crate": "beta", "file_name": "beta.out", "path": "beta/src/lib.rs"},
]

# ------------------------------------------------------------------------------------------ generation

MAPS = {
    "typescript": [{}, {}, {"Url": "string"}, {"Vec<u8>": "Uint8Array"}, {"OffsetDateTime": "Date", "Foo": "FooMapped"},
                   {"Option<String>": "Maybe<string>", "HashMap<String,u8>": "Record<string, number>", "Bar": "{ a: number }"}],
    "kotlin": [{}, {}, {"Url": "String"}, {"OffsetDateTime": "Instant"}, {"Foo": "FooMapped", "Bar": "kotlin.Any"},
               {"Item": "List<Int>", "Id": "java.util.UUID"}],
    "swift": [{}, {}, {"Url": "URL"}, {"OffsetDateTime": "Date"}, {"Foo": "FooMapped", "Wrapper": "Box<Int>", "Id": "UUID"}],
    "scala": [{}, {}, {"Url": "String"}, {"OffsetDateTime": "java.time.Instant"}, {"Foo": "FooMapped", "Bar": "Map[String, Any]"}],
    "go": [{}, {}, {"Url": "string"}, {"OffsetDateTime": "time.Time"}, {"Vec<u8>": "[]byte"}, {"Foo": "FooMapped", "Id": "uuid.UUID"},
           {"Option<String>": "*Str", "HashMap<String,u8>": "map[string]int", "()": "Unit"}],
    "python": [{}, {}, {"Url": "AnyUrl"}, {"OffsetDateTime": "datetime"}, {"Vec<u8>": "bytes"},
               {"Vec<u8>": "bytes", "OffsetDateTime": "datetime", "Foo": "FooMapped"},
               {"Option<String>": "MaybeStr", "HashMap<String,u8>": "Dict[str, int]"}],
}
OVERRIDES = {
    "typescript": ["any", "string | undefined", "Custom<number>[]", "[number, string]", "Record<string, unknown>"],
    "kotlin": ["Any", "kotlin.Any?", "List<Custom<Int>>"],
    "swift": ["Any", "[Custom]?", "[String: Custom<Int>]"],
    "scala": ["Any", "Option[Custom]", "Map[String, Vector[Custom]]"],
    "go": ["any", "[]Custom", "map[string]*Custom", "interface{}"],
    "python": [],           # python.rs ignores type overrides
}
DOC_EXTRA = [" see C:\\Users", " \\N", " \\x4z \\u12", " say \"hi\"", " it's", " a /* b", " x // y", " (paren", " brace}", " [", " >", " <T", " `tick", " 100%", " $x ${y}",
             " back\\slash", " two \"\" quotes", " semi;colon", " trailing backslash\\", " @tag", " #", " '"]
KEY_TAGS = [("case", "content"), ("type", "default"), ("class", "value"), ("kind", "in"), ("from", "import"), ("t", "is")]
VARIANT_EXTRA = ["Default", "Case", "In", "Is", "Do", "Type", "Any", "_1", "_2nd", "Class1"]
# `inout` (Swift label keyword); names that are not keywords themselves but whose snake_case form is a Python keyword
FIELD_EXTRA = ["inout", "from_", "in_", "as_", "is_", "_while", "class_", "not_", "_if", "lambda_", "_1x", "_2fa_code", "__3"]


def tweak(rng, lang, f, thorough):
    """additions to a generated file that aim at C10: lang-valid type overrides and decorators, keyword tag keys"""
    feats = {}

    def fields(fs):
        if fs[0] != "named":
            return
        for fl in fs[1]:
            if OVERRIDES[lang] and rng.random() < 0.06:
                fl["attrs"] = fl["attrs"] + [m_list("typeshare", [m_list(lang, [m_nv("type", lit_s(rng.choice(OVERRIDES[lang])))])])]
                feats["type-override"] = feats.get("type-override", 0) + 1
            if lang == "typescript" and rng.random() < 0.04:
                fl["attrs"] = fl["attrs"] + [m_list("typeshare", [m_list("typescript", [m_path("readonly")])])]
                feats["readonly"] = feats.get("readonly", 0) + 1

    def items(its):
        for it in its:
            k = it["kind"]
            if k in ("mod", "other"):
                items(it["items"])
                continue
            if k in ("struct", "enum", "alias") and rng.random() < 0.85:
                # keep the dashed item rename (a known class that breaks the whole file) rare
                it["attrs"] = [m_list("serde", [m_nv("rename", lit_s("NewName")) if (x[0] == "nv" and x[1] == ["rename"] and x[2] == ("s", "New-Name")) else x
                                                 for x in a[3]]) if (a[0] == "l" and a[1] == ["serde"] and a[2]) else a for a in it["attrs"]]
            if k == "struct":
                fields(it["fields"])
            if k == "enum":
                for v in it["variants"]:
                    fields(v["fields"])
                if rng.random() < 0.05:
                    new = []
                    tag, content = rng.choice(KEY_TAGS)
                    hit = False
                    for a in it["attrs"]:
                        if a[0] == "l" and a[1] == ["serde"] and a[2]:
                            args = []
                            for x in a[3]:
                                if x[0] == "nv" and x[1] == ["tag"]:
                                    x, hit = m_nv("tag", lit_s(tag)), True
                                elif x[0] == "nv" and x[1] == ["content"]:
                                    x = m_nv("content", lit_s(content))
                                args.append(x)
                            a = m_list("serde", args)
                        new.append(a)
                    it["attrs"] = new
                    if hit:
                        feats["keyword-tag"] = feats.get("keyword-tag", 0) + 1
            if k in ("struct", "enum", "alias") and rng.random() < 0.1 and any(a[0] in ("p", "l") and a[1][-1] == "typeshare" for a in it["attrs"]):
                if lang == "swift":
                    arg = rng.choice([m_nv("swift", lit_s(rng.choice(["Equatable", "Equatable, Hashable", " Sendable ,Codable"]))),
                                      m_nv("swiftGenericConstraints", lit_s(rng.choice(["T: Equatable", "T: Equatable & Hashable, U: Sendable"])))])
                elif lang == "kotlin":
                    arg = m_nv("kotlin", lit_s(rng.choice(["JvmInline", "Serializable"])))
                else:
                    arg = m_path("redacted")
                it["attrs"] = it["attrs"] + [m_list("typeshare", [arg])]
                feats["decorator"] = feats.get("decorator", 0) + 1
    items(f["items"])
    return feats


def config_for(rng, lang):
    cfg = {"type_mappings": rng.choice(MAPS[lang]), "version_header": rng.random() < 0.4,
           "package": "com.example.pkg", "module_name": rng.choice(["mod", ""]), "prefix": rng.choice(["", "", "OP", "Core_"])}
    if lang == "kotlin":
        cfg["package"] = rng.choice(["com.example.pkg", "com.example.pkg", "", "x"])
    if lang == "go":
        cfg["package"] = rng.choice(["proto", "my_pkg"])
        cfg["uppercase_acronyms"] = rng.choice([[], [], ["id", "url"], ["ID", "Url", "line"], ["type", "kind", "id"]])
        cfg["no_pointer_slice"] = rng.random() < 0.4
    if lang == "swift":
        cfg["default_decorators"] = rng.choice([[], [], ["Equatable"], ["Sendable", "Hashable"], ["Codable"]])
        cfg["default_generic_constraints"] = rng.choice([[], [], ["Equatable"], ["Sendable & Identifiable"]])
        cfg["codablevoid_constraints"] = rng.choice([[], ["Equatable"], ["Sendable", "Hashable"]])
    if lang == "scala":
        cfg["package"] = rng.choice(["com.example.pkg"] * 8 + ["a.b", "pkg"])
    return cfg


def make_cases(rng, lang, n, thorough, pools=None):
    """`pools`: None, or a function (rng, lang) -> dict(fields, variants, types, renames, key_tags, feats) that gives every case its
    own word lists for field / variant / type names, rename strings and tag / content keys (the Unicode identifier part)"""
    cases = []
    consts = lang in ("typescript", "go", "python")
    saved = (genmod.FIELD_WORDS, genmod.VARIANT_WORDS, genmod.TYPE_WORDS, genmod.RENAME_WORDS)
    for i in range(n):
        multi = (i % 8 == 7)
        pool = pools(rng, lang) if pools else None
        if pool:
            genmod.FIELD_WORDS, genmod.VARIANT_WORDS, genmod.TYPE_WORDS, genmod.RENAME_WORDS = pool["fields"], pool["variants"], pool["types"], pool["renames"]
        g = Gen(rng, p_cfg=0.0, p_edge=0.0, p_decorators=0.0, p_type_decorators=0.0, p_doc=0.45, p_redacted=0.1,
                p_rename=0.25, p_default=0.06 if lang == "scala" else 0.25, p_generic=0.3, p_const=0.25 if consts else 0.0,
                multi_file=multi, crates=["alpha", "beta_x"],
                # one case in three draws its doc strings from characters instead of words: line breaks of every kind inside
                # #[doc = ".."] strings (a line comment that is not closed at one of them swallows or spills code)
                doc_alphabet=["a", "b", " ", "x", "\r", "\n", "\t", "'", "z", "*/", "/*", "*", "/", '"""', "\\"] if i % 3 == 1 else None)
        cfg = config_for(rng, lang)
        feats = {}
        if not multi:
            f = g.file()
            feats = tweak(rng, lang, f, thorough)
            if pool:
                unicode_tweak(rng, f, pool)
            files = [{"crate": "", "file_name": "out", "path": "src/lib.rs", "file": f}]
            names = l2.names_of(f)
        else:
            words = rng.sample(pool["types"] if pool else TYPE_WORDS, 8)
            split = {"alpha": words[:4], "beta_x": words[4:]}
            files, names = [], set()
            for crate, mine in split.items():
                others = [w for c, ws in split.items() if c != crate for w in ws]
                ext = rng.sample(others, 2)
                f = g.file(names=rng.sample(mine, rng.randint(1, 4)), extern_types=ext)
                for e in ext:
                    if rng.random() < 0.7:
                        oc = [c for c in split if c != crate][0]
                        f["items"].insert(0, {"kind": "use", "tree": ("upath", oc, ("uname", e))})
                for k, v in tweak(rng, lang, f, thorough).items():
                    feats[k] = feats.get(k, 0) + v
                if pool:
                    unicode_tweak(rng, f, pool)
                files.append({"crate": crate, "file_name": crate + ".out", "path": crate + "/src/lib.rs", "file": f})
                names |= l2.names_of(f)
            rng.shuffle(files)
        m, r, texts = l2.requests(lang, cfg, files, g, multi_file=multi)
        for k, v in g.features.items():
            feats[k] = feats.get(k, 0) + v
        if pool:
            # count a class of names only where one of its names got into the program (as a whole word)
            words_in_source = set(re.split(r"[\x00-\x2f\x3a-\x40\x5b-\x5e\x60\x7b-\x7f]+", "\n".join(texts))) | {""}
            for k, names_ in pool["feats"].items():
                hits = sum(1 for n_ in names_ if n_ in words_in_source)
                if hits:
                    feats[k] = feats.get(k, 0) + hits
        cases.append(dict(lang=lang, cfg=cfg, m=m, r=r, texts=texts, names=names, multi=multi, feats=feats))
    genmod.FIELD_WORDS, genmod.VARIANT_WORDS, genmod.TYPE_WORDS, genmod.RENAME_WORDS = saved
    return cases


# ------------------------------------------------------------------------------------------ Unicode identifiers

# Letters a name (or a word inside it) may begin with.  Every one is XID_Start (a Rust identifier may begin with it) and a
# letter (category L*) - so it belongs to the identifier alphabet of all six target languages; what differs is what the
# Unicode case mappings make of it.
UNI_FIRST = {
    "plain-lower": "\u00e9\u00fc\u00f1\u00f8\u0111\u044f\u0436\u03bb",                 # é ü ñ ø đ я ж λ
    "plain-upper": "\u00c9\u00dc\u00d1\u00d8\u0110\u042f\u0416\u039b\u023a",           # É Ü Ñ Ø Đ Я Ж Λ, Ⱥ (its lower case is longer in UTF-8)
    "upper-case-is-several-letters": "\u00df\u0149\u0587\u1fb3\ufb01",                # ß->SS  ŉ->ʼN  և->ԵՒ  ᾳ->ΑΙ  ﬁ->FI
    "upper-case-has-a-combining-mark": "\u01f0\u1e96\u1e97\u1e98\u1e99\u0390\u03b0",  # ǰ ẖ ẗ ẘ ẙ ΐ ΰ  (J + U+030C, ...)
    "lower-case-has-a-combining-mark": "\u0130",                                      # İ -> i + U+0307
    "title-case-digraph": "\u01c5\u01c8\u01cb\u01f2\u01c4\u01c6\u01f1\u01f3",         # ǅ ǈ ǋ ǲ (Lt) and their Ǆ ǆ Ǳ ǳ forms
    "dotless-i-long-s": "\u0131\u017f",                                               # ı->I  ſ->S (the mappings do not round-trip)
    "sigma": "\u03a3\u03c3\u03c2",                                                    # Σ σ ς (lower-casing Σ depends on its position)
    "no-case": "\u65e5\u672c\u05d0\u0628\u0e01\u02b0\u30fc\u00aa",                    # 日 本 א ب ก (Lo), ʰ ー (Lm), ª (Lo)
}
UPPERISH = ("plain-upper", "lower-case-has-a-combining-mark", "no-case")
# XID_Continue characters a Rust identifier may have after its first letter
UNI_INSIDE = {
    "decimal-digit(Nd)": "\u0663\u0969\uff13",                                        # ٣ ३ ３
}
# Rust identifier characters that are NOT in the identifier alphabet of some target language (Go: letters and Nd only;
# Kotlin: letters, Nl, Nd): names with these are a class of their own (identifier-outside-target-alphabet)
UNI_FOREIGN_FIRST = {"letter-number(Nl)": "\u2167\u2177\u3007\u16ee"}               # Ⅷ ⅷ 〇 ᛮ
UNI_FOREIGN_INSIDE = {
    "mark(Mn)": "\u0303\u0327\u0483\ufe20\u0308",                                  # combining tilde, cedilla, titlo, half ligature, diaeresis
    "mark(Mc)": "\u093e\u0903\u0940",                                               # Devanagari vowel signs / visarga (spacing)
    "connector(Pc)": "\u203f\uff3f",                                                 # ‿ ＿
    "middle-dot(Other_ID_Continue)": "\u00b7",
}
ASCII_LOWER = "abcdefghijklmnopqrstuvwxyz"


def uni_name(rng, style, foreign, feats, underscore_digit=False):
    """one Rust identifier (NFC-stable, so that rustc and syn read the same name) with non-ASCII letters.
    style: snake (words joined by `_`), pascal (capitalised words), upper (all capitals), flat (one word);
    foreign: may use the characters of UNI_FOREIGN_*; feats: class -> list of names (for the counts)"""
    for _ in range(100):
        used = []
        nwords = 1 if style == "flat" else rng.choice([1, 1, 2, 2, 3])
        words = []
        for w in range(nwords):
            r = rng.random()
            if r < 0.3 and not (w == 0 and nwords == 1):
                first = rng.choice(ASCII_LOWER)
            else:
                pool = dict(UNI_FIRST)
                if foreign and rng.random() < 0.3:
                    pool = UNI_FOREIGN_FIRST
                cls = rng.choice([c for c in pool if style != "upper" or c in UPPERISH or pool is UNI_FOREIGN_FIRST])
                first = rng.choice(pool[cls])
                used.append("unicode-first:" + cls)
            rest = []
            for _k in range(rng.choice([0, 1, 2, 2, 3, 4])):
                r = rng.random()
                if r < 0.62:
                    rest.append(rng.choice(ASCII_LOWER))
                elif r < 0.7:
                    rest.append(rng.choice("0123456789"))
                elif foreign and r < 0.8:
                    cls = rng.choice(list(UNI_FOREIGN_INSIDE))
                    rest.append(rng.choice(UNI_FOREIGN_INSIDE[cls]))
                    used.append("unicode-inside:" + cls)
                elif r < (0.86 if foreign else 0.78):
                    cls = rng.choice(list(UNI_INSIDE))
                    rest.append(rng.choice(UNI_INSIDE[cls]))
                    used.append("unicode-inside:" + cls)
                else:
                    cls = rng.choice([c for c in UNI_FIRST if style != "upper" or c in UPPERISH])
                    rest.append(rng.choice(UNI_FIRST[cls]))
                    used.append("unicode-inside:" + cls)
            word = first + "".join(rest)
            if style == "pascal" and word[0].isascii():
                word = word[0].upper() + word[1:]
            if style == "upper":
                word = "".join(ch.upper() if ch.isascii() else ch for ch in word)
            words.append(word)
        name = ("" if style == "pascal" else "_").join(words)
        if underscore_digit and style == "pascal" and rng.random() < 0.1:
            # the leading-digit rule of the Kotlin / Swift / Scala back ends looks at the first character after the underscores
            name = "_" + rng.choice(UNI_INSIDE["decimal-digit(Nd)"]) + name
            used.append("unicode-first:underscore-then-non-ascii-digit")
        if name.isascii() or unicodedata.normalize("NFC", name) != name or not name.isidentifier():
            continue
        for k in used:
            feats.setdefault(k, []).append(name)
        return name
    raise InfraError("uni_name: no name found")


def unicode_pools(rng, lang):
    """word lists of one case: names over the alphabet above in every naming position, next to a few ASCII words"""
    foreign = rng.random() < 0.2
    feats = {}
    if foreign:
        feats["unicode-case-with-characters-outside-a-target-alphabet"] = [""]

    def some(n, styles, underscore_digit=False):
        out = []
        while len(out) < n:
            x = uni_name(rng, rng.choice(styles), foreign, feats, underscore_digit)
            if x not in out:
                out.append(x)
        return out
    fields = some(9, ["snake", "snake", "snake", "flat", "pascal", "upper"]) + rng.sample(genmod_ascii["fields"], 3)
    variants = some(9, ["pascal", "pascal", "pascal", "upper", "flat"], underscore_digit=foreign) + rng.sample(genmod_ascii["variants"], 2)
    types = some(10, ["pascal", "pascal", "pascal", "upper"])
    renames = some(5, ["snake", "pascal", "flat"]) + ["-".join(some(2, ["flat"])), "renamed", "with-dash"]
    key_tags = [tuple(some(2, ["flat", "snake", "pascal"])) for _ in range(3)]
    item_renames = some(6, ["pascal", "pascal", "upper"])
    return dict(fields=fields, variants=variants, types=types, renames=renames, key_tags=key_tags, item_renames=item_renames, feats=feats)


genmod_ascii = {"fields": list(genmod.FIELD_WORDS), "variants": list(genmod.VARIANT_WORDS)}


def unicode_tweak(rng, f, pool):
    """tag / content keys and item-level renames from the case's Unicode pool"""
    fresh = list(pool["item_renames"])

    def items(its):
        for it in its:
            k = it["kind"]
            if k in ("mod", "other"):
                items(it["items"])
                continue
            if k not in ("struct", "enum", "alias"):
                continue
            tag, content = rng.choice(pool["key_tags"])
            keys = k == "enum" and rng.random() < 0.6
            ren = fresh.pop() if fresh and rng.random() < 0.6 else None
            new = []
            for a in it["attrs"]:
                if a[0] == "l" and a[1] == ["serde"] and a[2]:
                    args = []
                    for x in a[3]:
                        if keys and x[0] == "nv" and x[1] == ["tag"]:
                            x = m_nv("tag", lit_s(tag))
                        elif keys and x[0] == "nv" and x[1] == ["content"]:
                            x = m_nv("content", lit_s(content))
                        elif ren and x[0] == "nv" and x[1] == ["rename"]:
                            x = m_nv("rename", lit_s(ren))
                        args.append(x)
                    a = m_list("serde", args)
                new.append(a)
            it["attrs"] = new
    items(f["items"])


def unicode_identifiers_part(check, reported_langs):
    """identifiers beyond ASCII.  The dimension: field, variant, type and constant names, rename strings, item renames and tag /
    content keys built from letters at the corners of the Unicode case mappings - upper-case form of several letters (ß ŉ և ᾳ ﬁ)
    or with a combining mark (ǰ ẖ ẗ ẘ ẙ ΐ ΰ), lower-case form with a combining mark (İ), title-case digraphs (ǅ ...), dotless ı and
    long ſ, the three sigmas, letters without case (Lo, Lm), non-ASCII decimal digits inside a name; as snake_case, PascalCase,
    ALL-CAPITALS and one-word names, alone or mixed with ASCII; in one case out of five also Rust identifier characters that some
    target language does not have in its identifier alphabet (combining marks, letter numbers, connector punctuation, the middle
    dot, `_` + non-ASCII digit) - through the same generator, configurations, model comparison and oracles as the main sweep, all
    six back ends.  Demanded: every name position of the implementation's output holds an identifier of the target language (per-
    language alphabets of c10_syntax.id_start / id_part, CPython for Python), i.e. no case mapping or escaping step of a back end
    leaves the language's alphabet; and the text equals the model's"""
    n = 2500 if check.thorough else 260
    for lang in LANGS:
        sweep(check, lang, make_cases(check.rng, lang, n, check.thorough, pools=unicode_pools), reported_langs, part="unicode-identifiers")


# ------------------------------------------------------------------------------------------ Rust syntax inside type expressions

# User types of the source-text part: name -> kinds of its generic parameters (lt = lifetime, ty = type, const = const generic).
# `Foo`, `Bar`, `Item`, `Id`, `Wrapper`, `Url` are names the type-mapping tables (MAPS) mention; they take no type argument, so that
# a mapped text (`{ a: number }`, `List<Int>`) never gets a type-argument list of its own by a legal use of the configuration.
RS_USER = [("Name", ["lt"]), ("Span", ["lt", "lt"]), ("Matrix", ["const"]), ("Grid", ["const", "const"]), ("Slot", ["lt", "const"]),
           ("Tagged", ["lt", "ty"]), ("Buf", ["ty", "const"]), ("Window", ["lt", "ty", "const"]), ("Pair", ["ty", "ty"]),
           ("Boxed", ["ty"]), ("Plain", []), ("Foo", ["lt"]), ("Bar", ["const"]), ("Item", ["lt", "const"]), ("Id", []),
           ("Wrapper", ["lt", "lt"]), ("Url", [])]
RS_MAPPED = {"Foo", "Bar", "Item", "Id", "Wrapper", "Url"}
RS_CONST_LITERALS = ["3", "0", "16usize", "0x10", "1_000", "true", "false", "'x'", "'\\n'", "-1", "b'a'", "255u8"]
RS_CONST_BLOCKS = ["{ N }", "{N}", "{ 3 }", "{ N + 1 }", "{ 2 * 8 }", "{ SIZE }", "{ usize::MAX }", "{ core::mem::size_of::<u32>() }",
                   "{ if N > 0 { N } else { 1 } }", "{ M }", "{ { 4 } }"]
RS_LEAVES = ["u8", "u32", "i32", "f64", "bool", "String", "char", "i16"]
RS_FIELD_NAMES = ["name", "nick", "grid", "cells", "first", "last", "items", "slot", "owner", "label", "value", "window", "extra", "tag_line"]
RS_TYPE_NAMES = ["Person", "Scene", "Holder", "Frame", "Record", "Layout", "Packet", "Shape", "Event", "Message", "Entry", "Sheet"]


class RustTypeText:
    """type expressions as Rust *source text*, with the syntax typeshare reads past: lifetime arguments, const generic
    arguments (literals, blocks, bare paths), empty angle brackets, associated-type bindings, turbofish and qualified paths"""

    def __init__(self, rng, users, feats):
        self.rng, self.users, self.feats = rng, users, feats
        self.lts, self.tys, self.consts = [], [], []      # parameters of the item being written (declared in first-use order)
        self.no_type_arg = []                             # the user-type references of this item whose brackets hold no type argument

    def feat(self, k):
        self.feats[k] = self.feats.get(k, 0) + 1

    def lifetime(self):
        lt = self.rng.choice(["'a", "'a", "'a", "'b", "'static", "'_"])
        if lt in ("'a", "'b") and lt not in self.lts:
            self.lts.append(lt)
        return lt

    def const_arg(self, may_be_path):
        """(text, is it read as a type argument?)"""
        k = self.rng.choice(["literal", "literal", "block", "block", "path"])
        if k == "path" and not may_be_path:
            k = "block"
        if k == "literal":
            self.feat("argument:const-literal")
            return self.rng.choice(RS_CONST_LITERALS), False
        if k == "block":
            self.feat("argument:const-block")
            b = self.rng.choice(RS_CONST_BLOCKS)
            for p in ("N", "M"):
                if re.search(r"\b%s\b" % p, b) and p not in self.consts:
                    self.consts.append(p)
            return b, False
        # a const parameter written as a bare path is indistinguishable from a type for a parser: typeshare keeps it as a type argument
        self.feat("argument:const-bare-path(read-as-a-type)")
        p = self.rng.choice(["N", "M"])
        if p not in self.consts:
            self.consts.append(p)
        return p, True

    def leaf(self):
        r = self.rng.random()
        if r < 0.12:
            t = self.rng.choice(["T", "U"])
            if t not in self.tys:
                self.tys.append(t)
            return t
        if r < 0.22:
            return "&%s str" % self.lifetime()
        if r < 0.3:
            return "Cow<%s, str>" % self.lifetime()          # a lifetime argument next to a type argument, on a type that is read through
        return self.rng.choice(RS_LEAVES)

    def wrap(self, inner, pos):
        """one generic-argument / element position around `inner`: (text, position name)"""
        w = self.rng.choice(["Option", "Vec", "HashMap", "Box", "ref", "array", "slice", "Cow-less", "Arc", "std-path"])
        if w == "Option" and not inner.startswith("Option"):
            return "Option<%s>" % inner, "option-argument"
        if w == "Vec":
            return "Vec<%s>" % inner, "vec-element"
        if w == "HashMap":
            return "HashMap<String, %s>" % inner, "map-value"
        if w == "Box":
            return self.rng.choice(["Box<%s>", "Box< %s >", "Rc<%s>", "Box<%s,>"]) % inner, "smart-pointer-argument"
        if w == "ref":
            return "&%s %s" % (self.lifetime(), inner), "behind-a-reference"
        if w == "array":
            return "[%s; %s]" % (inner, self.rng.choice(["3", "4usize", "0x10"])), "array-element"
        if w == "slice":
            return "&%s [%s]" % (self.lifetime(), inner), "slice-element"
        if w == "Arc":
            return "std::sync::Arc<%s>" % inner, "smart-pointer-argument"
        if w == "std-path":
            return "std::vec::Vec<%s>" % inner, "vec-element"
        return inner, pos

    def user(self, depth):
        """a reference to a user type; records what its brackets hold"""
        name, kinds = self.rng.choice(self.users)
        mapped = name in RS_MAPPED
        lts = [self.lifetime() for k in kinds if k == "lt"]
        rest, n_type = [], 0
        for k in kinds:
            if k == "ty":
                rest.append(self.ty(depth + 1))
                n_type += 1
            elif k == "const":
                text, as_type = self.const_arg(may_be_path=not mapped)
                rest.append(text)
                n_type += as_type
        style = self.rng.choice(["faithful"] * 6 + ["elided-lifetimes", "no-brackets", "empty-brackets", "shuffled", "binding", "extra-lifetime"])
        brackets = True
        if style == "faithful":
            args = lts + rest
        elif style == "elided-lifetimes":
            args = rest
            brackets = bool(rest) or self.rng.random() < 0.3
            lts = []
        elif style == "no-brackets":
            args, brackets, lts, n_type = [], False, [], 0
        elif style == "empty-brackets":
            args, lts, n_type = [], [], 0
        elif style == "shuffled":
            # rustc wants lifetimes first; a parser does not: every order of lifetime, const and type arguments
            args = lts + rest
            self.rng.shuffle(args)
        elif style == "binding":
            # an associated-type binding / constraint is an argument that is not a type argument either
            args = lts + rest + [self.rng.choice(["Item = u8", "Output = String", "Item: Clone", "Item = Name<'static>"])]
            self.feat("argument:associated-type-binding")
        else:
            args = lts + [self.lifetime()] + rest
        if not brackets:
            self.feat("brackets:none")
            text = name
        else:
            n_lt = sum(1 for a in args if re.match(r"'[A-Za-z_]+\Z", a))
            n_const = len(args) - n_lt - n_type - (1 if style == "binding" else 0)
            what = "+".join(x for x, n in (("lifetime", n_lt), ("const", n_const), ("binding", style == "binding"), ("type", n_type)) if n) or "empty"
            self.feat("brackets:" + what)
            if n_type == 0:
                self.feat("brackets-without-a-type-argument")
            if len({("lt" if re.match(r"'[A-Za-z_]+\Z", a) else "other") for a in args}) == 2 and not re.match(r"'[A-Za-z_]+\Z", args[0]):
                self.feat("argument-order:lifetime-after-another-kind")
            fmt = self.rng.choice(["%s<%s>"] * 5 + ["%s <%s>", "%s< %s >", "%s::<%s>", "%s<%s,>", "%s<\n        %s\n    >"])
            if not args and fmt == "%s<%s,>":
                fmt = "%s<%s>"
            if fmt == "%s::<%s>":
                self.feat("path:turbofish-in-type-position")
            if fmt == "%s<%s,>":
                self.feat("argument-list:trailing-comma")
            text = fmt % (name, self.rng.choice([", ", ",", " , "]).join(args))
            if n_type == 0:
                self.no_type_arg.append(" ".join(text.split()))
        q = self.rng.random()
        if q < 0.08:
            text = self.rng.choice(["crate::", "self::", "super::model::", "crate::types::"]) + text
            self.feat("path:qualified")
        return text

    def ty(self, depth):
        """a type for a type-argument position"""
        r = self.rng.random()
        if depth >= 3 or r < 0.35:
            return self.leaf()
        if r < 0.7:
            return self.user(depth)
        return self.wrap(self.ty(depth + 1), "")[0]

    def positioned(self, pos):
        """a user-type reference at a field / payload / alias position, directly or one or two argument positions down"""
        t = self.user(0)
        for _ in range(self.rng.choice([0, 0, 0, 1, 1, 2])):
            t, pos = self.wrap(t, pos)
        if pos == "generic-argument-of-a-user-type" or self.rng.random() < 0.12:
            # as an argument of a user generic
            other = self.rng.choice(["Pair<%s, u8>", "Boxed<%s>", "Pair<String, %s>", "Tagged<'static, %s>"])
            t, pos = other % t, "generic-argument-of-a-user-type"
        self.feat("position:" + pos)
        return t

    def generics(self, extra=()):
        """the parameter list of the item just written: lifetimes, then types and consts (with bounds and defaults now and then)"""
        ps = []
        for lt in sorted(self.lts):
            ps.append(lt + (": 'static" if self.rng.random() < 0.1 else ""))
        if "'b" in self.lts and "'a" in self.lts and self.rng.random() < 0.3:
            ps[-1] = "'b: 'a"
        rest = [t + self.rng.choice(["", "", ": Clone", ": Clone + Default"]) for t in self.tys]
        rest += ["const %s: usize" % c + (" = 4" if self.rng.random() < 0.15 and not self.tys else "") for c in self.consts]
        if self.rng.random() < 0.3 and not any("= 4" in x for x in rest):
            self.rng.shuffle(rest)        # types and consts may be interleaved
        ps += rest
        return "<%s>" % ", ".join(ps) if ps else ""


def rs_declaration(rng, name, kinds):
    """the declaration of a user type of RS_USER: a struct, an algebraic enum or an alias, with the generics its kinds say"""
    lts = ["'a", "'b"][:kinds.count("lt")]
    tys = ["T", "U"][:kinds.count("ty")]
    cs = ["N", "M"][:kinds.count("const")]
    ps = lts + tys + ["const %s: usize" % c for c in cs]
    g = "<%s>" % ", ".join(ps) if ps else ""
    members = ["&%s str" % lt for lt in lts] + list(tys) + (["Vec<f64>"] if cs else []) + (["u32"] if not ps else [])
    form = rng.choice(["struct", "struct", "struct", "enum", "alias"])
    if form == "alias" and len(tys) == 2:
        form = "struct"              # (a map whose key is a type parameter is refused by the TypeScript and Python back ends)
    if form == "struct":
        body = "".join("    pub m%d: %s,\n" % (i, m) for i, m in enumerate(members))
        return "#[typeshare]\npub struct %s%s {\n%s}\n" % (name, g, body)
    if form == "enum":
        body = "".join("    V%d(%s),\n" % (i, m) for i, m in enumerate(members))
        return "#[typeshare]\n#[serde(tag = \"type\", content = \"content\")]\npub enum %s%s {\n%s    Nothing,\n}\n" % (name, g, body)
    target = "Vec<%s>" % tys[0] if tys else "Cow<'a, str>" if lts else "Vec<f64>" if cs else "String"
    return "#[typeshare]\npub type %s%s = %s;\n" % (name, g, target)


def rs_item(rng, users, feats, name):
    """one item whose type expressions refer to the user types: (source text, the bracketed references without a type argument)"""
    w = RustTypeText(rng, users, feats)
    form = rng.choice(["struct", "struct", "struct", "enum", "enum", "alias", "newtype"])
    fields = rng.sample(RS_FIELD_NAMES, rng.randint(1, 4))
    if form == "struct":
        lines = []
        for f in fields:
            if rng.random() < 0.1:
                # the type given as a string: parsed by the same type reader (`serialized_as`)
                saved = w.lts, w.tys, w.consts
                w.lts, w.tys, w.consts = [], [], []
                lines.append("    #[typeshare(serialized_as = \"%s\")]\n    pub %s: Opaque,\n" % (" ".join(w.positioned("serialized_as-string").split()).replace('"', ""), f))
                w.lts, w.tys, w.consts = saved
            else:
                lines.append("    pub %s: %s,\n" % (f, w.positioned("struct-field")))
        text = "#[typeshare]\npub struct %s%s {\n%s}\n" % (name, w.generics(), "".join(lines))
    elif form == "enum":
        vs = []
        for i, f in enumerate(fields):
            k = rng.choice(["tuple", "tuple", "struct", "unit"]) if i else "tuple"
            if k == "tuple":
                vs.append("    %s(%s),\n" % (to_pascal(f), w.positioned("tuple-variant-payload")))
            elif k == "struct":
                vs.append("    %s { %s: %s, other: %s },\n" % (to_pascal(f), f, w.positioned("struct-variant-field"), w.leaf()))
            else:
                vs.append("    %s,\n" % to_pascal(f))
        text = "#[typeshare]\n#[serde(tag = \"type\", content = \"content\")]\npub enum %s%s {\n%s}\n" % (name, w.generics(), "".join(vs))
    elif form == "alias":
        t = w.positioned("alias-target")
        text = "#[typeshare]\npub type %s%s = %s;\n" % (name, w.generics(), t)
    else:
        t = w.positioned("newtype-payload")
        text = "#[typeshare]\npub struct %s%s(pub %s);\n" % (name, w.generics(), t)
    return text, w.no_type_arg


RS_HEADER = "use std::borrow::Cow;\nuse std::collections::HashMap;\n\npub const SIZE: usize = 4;\n\n"


def rs_case(rng, lang):
    feats = {}
    users = rng.sample(RS_USER, rng.randint(3, 7))
    decls = [rs_declaration(rng, n, k) for n, k in users if rng.random() < 0.8]
    items, item_refs, refs = [], [], []
    for name in rng.sample(RS_TYPE_NAMES, rng.randint(1, 4)):
        text, r = rs_item(rng, users, feats, name)
        items.append(text)
        item_refs.append(r)
        refs += r
    everything = decls + items
    rng.shuffle(everything)
    cfg = config_for(rng, lang)
    return dict(lang=lang, cfg=cfg, texts=[RS_HEADER + "\n".join(everything)], items=items, item_refs=item_refs, feats=feats, multi=False,
                names=set(), about=rs_about(refs))


def rs_about(refs):
    if not refs:
        return "no user type of the source is written with brackets that lack a type argument"
    return "the source writes user types with angle brackets that hold no type argument: %s" % ", ".join("`%s`" % x for x in sorted(set(refs))[:6])


def rs_run(lang, cases):
    """implementation and model on source-text cases: fills in `r`; returns the model's answers (None where the translator
    does not support the source or the source does not parse)"""
    import corpus
    for c in cases:
        c["r"] = corpus.runner_req(lang, c["cfg"], c["texts"][0])
    asts = corpus.translate([c["texts"][0] for c in cases])
    lines, idx, names = [], [], set()
    for i, (c, a) in enumerate(zip(cases, asts)):
        c["translated"] = "ok" if "ok" in a else "unsupported: %s" % a["unsupported"] if "unsupported" in a else "source does not parse"
        if "ok" in a:
            names |= corpus.names_of(a)
            lines.append(corpus.model_line(lang, c["cfg"], a))
            idx.append(i)
    mans = [None] * len(cases)
    if lines:
        for i, m in zip(idx, corpus.run_model(lines, names, [cases[i]["texts"][0] for i in idx])):
            if "bad-request" in m:
                raise InfraError("the model rejected the translated source: %s\n%s" % (m, cases[i]["texts"][0]))
            mans[i] = l2.norm(m)
    return mans


def rs_smaller(check, c):
    """the first item of the case that alone (without the declarations it refers to: typeshare does not resolve names) still gets
    an output the oracle rejects without a known class"""
    for it, refs in zip(c["items"], c["item_refs"]):
        small = dict(c, texts=[it], items=[it], item_refs=[refs], smaller=None)
        ma = rs_run(c["lang"], [small])[0]
        ra = runner([small["r"]])[0]
        if not isinstance(ra.get("ok"), dict):
            continue
        lex = {name: model([[S("lexok"), S(c["lang"]), text]], with_unicode=False)[0].get("ok") for name, text in ra["ok"].items()}
        bad = judge(check, small, ra, lex)
        if bad:
            small["about"] = "reduced to one item of the generated case; " + rs_about(refs)
            return small, bad[0], ma, ma is None or ma == l2.norm(ra)
    return None


def rust_type_syntax_part(check, reported_langs):
    """Rust syntax inside type expressions that typeshare must read past - as *source text* (the abstract generator of the
    main sweep has no lifetimes or const arguments in types).  The dimension: references to user types (declared in the same file
    as structs, algebraic enums or aliases with lifetime / type / const parameters; six of the names are also keys of the type-
    mapping tables) whose angle brackets hold lifetime arguments (`'a`, `'static`, `'_`), const generic arguments (integer, bool,
    char and byte literals, negative literals, blocks `{ N }`, `{ N + 1 }`, `{ core::mem::size_of::<u32>() }`, bare paths), type
    arguments, associated-type bindings, or nothing (`Foo<>`) - in the declared order, with elided lifetimes, without brackets,
    and shuffled into every order; with trailing commas, turbofish (`Name::<'a>`), qualified paths, blanks and line breaks inside
    the brackets; at struct-field, tuple-variant payload, struct-variant field, alias-target, newtype-payload and `serialized_as`
    string positions, directly and as Option / Vec / HashMap / Box / Rc / Arc / reference / array / slice element and as argument
    of a user generic; the items' own parameter lists carry lifetimes, bounds, const parameters with defaults, interleaved.  All
    six back ends, random configurations.  Demanded: the implementation's output is accepted by the language's recogniser - in
    particular a type-argument list is never empty (`Name<>`, `Name[]`), whatever non-type arguments the source wrote - and the
    text equals the model's on the translated source (runner op `ast`)"""
    n = 2000 if check.thorough else 160
    for lang in LANGS:
        cases = [dict(rs_case(check.rng, lang), smaller=rs_smaller) for _ in range(n)]
        mans = rs_run(lang, cases)
        for c in cases:
            check.count("rust-type-syntax:translator-%s" % c["translated"].split(":")[0].replace(" ", "-"))
            for k, v in c["feats"].items():
                check.count("rust-type-syntax:" + k, v)
        sweep(check, lang, cases, reported_langs, part="rust-type-syntax", mans=mans)


# ------------------------------------------------------------------------------------------ content of decorator / constraint lists

DEC_SWIFT = ["Equatable", "Hashable", "Sendable", "Identifiable", "Comparable", "CustomStringConvertible"]
DEC_KOTLIN = ["Serializable", "Parcelize", "Keep", "Immutable"]
DEC_TYPE_NAMES = ["Settings", "Point", "Shape", "Marker", "Level", "Handle", "Envelope", "Choice", "Token", "Series", "Account", "Reading"]
# texts a Swift parser must refuse: the recogniser is tried on them before its verdicts on the implementation's output are used
DEC_ORACLE_SELF_TEST = [
    "public struct S: Codable,  {\n    public let a: UInt32\n\n    public init(a: UInt32) {\n        self.a = a\n    }\n}\n",
    "public struct S: Codable, , Equatable {\n    public let a: UInt32\n\n    public init(a: UInt32) {\n        self.a = a\n    }\n}\n",
    "public struct S:  {\n    public let a: UInt32\n\n    public init(a: UInt32) {\n        self.a = a\n    }\n}\n",
    "public struct S: , Codable {\n    public let a: UInt32\n\n    public init(a: UInt32) {\n        self.a = a\n    }\n}\n",
    "public enum E: String, Codable,  {\n    case a = \"A\"\n}\n",
    "public struct S<T: >: Codable {\n    public let a: T\n\n    public init(a: T) {\n        self.a = a\n    }\n}\n",
    "public struct S<T: Codable & >: Codable {\n    public let a: T\n\n    public init(a: T) {\n        self.a = a\n    }\n}\n",
    "public struct CodableVoid: Codable,  {}\n",
]


def dec_entries(rng, own, always, defaults):
    """the entries of one list and the name of its shape.  `own`: names only the list brings; `always`: what the back end adds on
    its own (`Codable` / `JvmInline` is the one it looks for); `defaults`: the configuration's default entries"""
    others = rng.sample(own, rng.randint(1, 4))
    shapes = ["only-the-entry-the-back-end-adds", "that-entry-twice", "that-entry-among-others", "one-to-four-other-entries", "an-entry-twice"]
    if defaults:
        shapes += ["only-default-entries-of-the-configuration", "default-entries-among-others"]
    shape = rng.choice(shapes)
    if shape == "only-the-entry-the-back-end-adds":
        es = [always]
    elif shape == "that-entry-twice":
        es = [always, always]
    elif shape == "that-entry-among-others":
        es = list(others)
        es.insert(rng.randint(0, len(es)), always)
    elif shape == "one-to-four-other-entries":
        es = others
    elif shape == "an-entry-twice":
        es = others + [rng.choice(others)]
        rng.shuffle(es)
    elif shape == "only-default-entries-of-the-configuration":
        es = rng.sample(defaults, rng.randint(1, len(defaults))) + ([always] if rng.random() < 0.4 else [])
        rng.shuffle(es)
    else:
        es = others[:2] + rng.sample(defaults, rng.randint(1, len(defaults)))
        rng.shuffle(es)
    return es, shape


def dec_spelled(rng, entries, feats, what):
    """the list as the string of the attribute: separators with and without blanks, blanks at both ends"""
    sep = rng.choice([", ", ", ", ",", " , ", ",  ", " ,"])
    text = sep.join(entries)
    if rng.random() < 0.25:
        text = rng.choice([" ", "  "]) + text
        feats["%s:blank-in-front" % what] = feats.get("%s:blank-in-front" % what, 0) + 1
    if rng.random() < 0.25:
        text = text + rng.choice([" ", "  "])
        feats["%s:blank-at-the-end" % what] = feats.get("%s:blank-at-the-end" % what, 0) + 1
    return text


def dec_attributes(rng, lang, cfg, generics, feats, empty_entry):
    """the `#[typeshare(..)]` attributes of one item: a Swift decorator list, generic constraints, a Kotlin decorator list.
    `empty_entry`: put an empty entry into one of the lists (empty string, trailing / leading / doubled comma)"""
    def feat(k):
        feats[k] = feats.get(k, 0) + 1
    args = []
    p_swift, p_kotlin = (0.85, 0.15) if lang == "swift" else (0.15, 0.85) if lang == "kotlin" else (0.5, 0.5)
    if rng.random() < p_swift:
        es, shape = dec_entries(rng, DEC_SWIFT, "Codable", [d.strip() for d in cfg.get("default_decorators", []) if d.strip() != "Codable"])
        feat("swift-list:" + shape)
        feat("swift-list:%d-entries" % len(es))
        text = dec_spelled(rng, es, feats, "swift-list")
        if empty_entry:
            text = rng.choice(["", " ", text + ",", text + ", ", "," + text, text.replace(",", ",,", 1) if "," in text else text + ",,"])
        if len(es) > 1 and not empty_entry and rng.random() < 0.2:
            # the list given in two pieces: two attributes, or the key twice in one attribute
            cut = rng.randint(1, len(es) - 1)
            a, b = dec_spelled(rng, es[:cut], feats, "swift-list"), dec_spelled(rng, es[cut:], feats, "swift-list")
            feat("swift-list:in-two-pieces")
            args.append(["swift = \"%s\"" % a, "swift = \"%s\"" % b])
        else:
            args.append(["swift = \"%s\"" % text])
    if generics and rng.random() < (0.6 if lang == "swift" else 0.2):
        parts = []
        for g in rng.sample(generics, rng.randint(1, len(generics))):
            dflt = [x.strip() for d in cfg.get("default_generic_constraints", []) for x in d.split("&") if x.strip() != "Codable"]
            es, shape = dec_entries(rng, DEC_SWIFT, "Codable", dflt)
            feat("swiftGenericConstraints:" + shape)
            parts.append(rng.choice(["%s: %s", "%s:%s", "%s: %s "]) % (g, rng.choice([" & ", "&", " &  "]).join(es)))
        if rng.random() < 0.1:
            parts.append("V: Equatable")        # a parameter the item does not have
            feat("swiftGenericConstraints:unknown-parameter")
        args.append(["swiftGenericConstraints = \"%s\"" % rng.choice([", ", ","]).join(parts)])
    if rng.random() < p_kotlin:
        es, shape = dec_entries(rng, DEC_KOTLIN, "JvmInline", [])
        feat("kotlin-list:" + shape)
        feat("kotlin-list:%d-entries" % len(es))
        text = dec_spelled(rng, es, feats, "kotlin-list")
        if empty_entry and not args:
            text = rng.choice(["", " ", text + ",", "," + text])
        args.append(["kotlin = \"%s\"" % text])
    # layout: everything inside the one marker attribute, or the marker followed by one attribute per key
    flat = [x for a in args for x in a]
    if not flat:
        return "#[typeshare]\n"
    layout = rng.choice(["one-attribute", "one-attribute", "marker-then-one-attribute-per-entry", "one-attribute-per-entry"])
    feat("attribute-layout:" + layout)
    if layout == "one-attribute":
        return "#[typeshare(%s)]\n" % ", ".join(flat)
    lines = ["#[typeshare(%s)]\n" % x for x in flat]
    return ("#[typeshare]\n" if layout.startswith("marker") else "") + "".join(lines)


def dec_item(rng, lang, cfg, name, feats, empty_entry=False):
    """one item with decorator / constraint lists: source text"""
    form = rng.choice(["struct", "struct", "struct", "unit-struct", "empty-struct", "newtype", "unit-enum", "unit-enum", "algebraic-enum-with-struct-variants",
                       "algebraic-enum-with-struct-variants", "algebraic-enum-without-struct-variants", "alias", "generic-struct", "generic-struct",
                       "generic-algebraic-enum", "generic-alias"])
    feats["on:" + form] = feats.get("on:" + form, 0) + 1
    generics = [] if not form.startswith("generic") else rng.choice([["T"], ["T"], ["T", "U"]])
    g = "<%s>" % ", ".join(generics) if generics else ""
    attrs = dec_attributes(rng, lang, cfg, generics, feats, empty_entry)
    leaf = lambda: rng.choice(["u32", "String", "bool", "Option<String>", "Vec<u8>", "f64", "()", "Option<()>"])
    if form in ("struct", "generic-struct"):
        fs = ["    pub %s: %s,\n" % (f, leaf()) for f in rng.sample(RS_FIELD_NAMES, rng.randint(1, 3))]
        fs += ["    pub g%d: %s,\n" % (i, rng.choice(["%s", "Vec<%s>", "Option<%s>"]) % t) for i, t in enumerate(generics)]
        return "%spub struct %s%s {\n%s}\n" % (attrs, name, g, "".join(fs))
    if form == "unit-struct":
        return "%spub struct %s;\n" % (attrs, name)
    if form == "empty-struct":
        return "%spub struct %s {}\n" % (attrs, name)
    if form == "newtype":
        return "%spub struct %s(pub %s);\n" % (attrs, name, rng.choice(["String", "u32", "Vec<String>"]))
    if form == "unit-enum":
        vs = rng.sample(["Low", "Mid", "High", "Off", "Auto"], rng.randint(1, 4))
        return "%spub enum %s {\n%s}\n" % (attrs, name, "".join("    %s,\n" % v for v in vs))
    if form in ("alias", "generic-alias"):
        return "%spub type %s%s = %s;\n" % (attrs, name, g, "Vec<%s>" % generics[0] if generics else rng.choice(["String", "Vec<u32>", "Option<String>"]))
    vs = []
    for i, v in enumerate(rng.sample(["Circle", "Square", "Line", "Dot", "Path"], rng.randint(2, 4))):
        k = rng.choice(["struct", "tuple", "unit"]) if i else "struct"
        if form == "algebraic-enum-without-struct-variants" and k == "struct":
            k = "tuple"
        if k == "struct":
            vs.append("    %s { %s: %s, extra: %s },\n" % (v, rng.choice(RS_FIELD_NAMES), generics[0] if generics and rng.random() < 0.6 else leaf(), leaf()))
        elif k == "tuple":
            vs.append("    %s(%s),\n" % (v, generics[-1] if generics and rng.random() < 0.6 else rng.choice(["u32", "String", "Vec<u8>"])))
        else:
            vs.append("    %s,\n" % v)
    return "%s#[serde(tag = \"type\", content = \"content\")]\npub enum %s%s {\n%s}\n" % (attrs, name, g, "".join(vs))


def dec_config(rng, lang, feats):
    """a configuration whose default lists have the same shapes: empty, only `Codable`, `Codable` twice, an entry twice, one to four"""
    cfg = config_for(rng, lang)
    if lang != "swift":
        return cfg

    def lst(key, amp):
        shape = rng.choice(["empty", "empty", "only-Codable", "Codable-twice", "Codable-among-others", "an-entry-twice", "one-to-four-entries", "one-to-four-entries"])
        feats["configuration-%s:%s" % (key, shape)] = feats.get("configuration-%s:%s" % (key, shape), 0) + 1
        others = rng.sample(DEC_SWIFT, rng.randint(1, 4))
        if amp and rng.random() < 0.4 and len(others) > 1:
            others = [others[0] + rng.choice([" & ", "&"]) + others[1]] + others[2:]
        es = {"empty": [], "only-Codable": ["Codable"], "Codable-twice": ["Codable", "Codable"], "Codable-among-others": others + ["Codable"],
              "an-entry-twice": others + [others[0]], "one-to-four-entries": others}[shape]
        es = list(es)
        rng.shuffle(es)
        return es
    cfg["default_decorators"] = lst("default_decorators", False)
    cfg["default_generic_constraints"] = lst("default_generic_constraints", True)
    cfg["codablevoid_constraints"] = lst("codablevoid_constraints", False)
    return cfg


def dec_case(rng, lang, empty_entry=False):
    feats = {}
    cfg = dec_config(rng, lang, feats)
    names = rng.sample(DEC_TYPE_NAMES, rng.randint(1, 4))
    items = [dec_item(rng, lang, cfg, n, feats, empty_entry=empty_entry and i == 0) for i, n in enumerate(names)]
    return dict(lang=lang, cfg=cfg, texts=["\n".join(items)], items=items, feats=feats, multi=False, names=set(),
                about="the items carry decorator / constraint lists: %s" % ", ".join("`%s`" % a for a in re.findall(r"#\[typeshare\((.*)\)\]", "\n".join(items))[:6]))


def dec_smaller(check, c):
    """the first item of the case that alone still gets an output the oracle rejects without a known class"""
    for it in c["items"]:
        small = dict(c, texts=[it], items=[it], smaller=None)
        ma = rs_run(c["lang"], [small])[0]
        ra = runner([small["r"]])[0]
        if not isinstance(ra.get("ok"), dict):
            continue
        lex = {name: model([[S("lexok"), S(c["lang"]), text]], with_unicode=False)[0].get("ok") for name, text in ra["ok"].items()}
        bad = judge(check, small, ra, lex)
        if bad:
            small["about"] = "reduced to one item of the generated case; its attributes: %s" % ", ".join("`%s`" % a for a in re.findall(r"#\[typeshare.*\]", it))
            return small, bad[0], ma, ma is None or ma == l2.norm(ra)
    return None


def decorator_lists_part(check, reported_langs):
    """the *content* of decorator and constraint lists (the main sweep only ever writes lists with at least one entry of their
    own).  The dimension: the type-level lists `#[typeshare(swift = "..")]`, `#[typeshare(swiftGenericConstraints = "..")]` and
    `#[typeshare(kotlin = "..")]` - holding only the entry the back end adds anyway (`Codable`, for Kotlin the one it looks for,
    `JvmInline`), that entry twice, that entry at any place among one to four others, only entries the configuration's defaults
    already have, an entry twice, one to four entries; spelled with and without blanks around the commas / ampersands and at the
    ends, in one attribute, one attribute per key, or in two pieces - on structs with named fields, unit, empty and newtype
    structs, unit enums, algebraic enums with and without struct variants (whose `<Enum><Variant>Inner` structs inherit the
    decorators), aliases, and generic structs / enums / aliases with one or two parameters; crossed with configurations whose
    default_decorators / default_generic_constraints / codablevoid_constraints are empty, only `Codable`, `Codable` twice, an
    entry twice, one to four entries (members of type `()` bring in `CodableVoid`).  Swift and Kotlin in depth, the four back ends
    that ignore the lists with fewer cases.  Demanded: the implementation's output is accepted by the language's recogniser - in
    particular an inheritance clause or a constraint list never has an empty entry (`: Codable,  {`, `:  {`, `<T: >`) - and the
    text equals the model's on the translated source.
    Lists that themselves have an empty entry (`swift = ""`, a trailing, leading or doubled comma) are outside the supported
    input (typeshare copies the empty entry); the oracle's verdicts on them are counted, not demanded"""
    for t in DEC_ORACLE_SELF_TEST:
        if syn.check("swift", t)[0] is None:
            raise InfraError("the Swift recogniser accepts a declaration with an empty entry in its inheritance clause / constraint list:\n" + t)
    sizes = {"swift": 4000 if check.thorough else 400, "kotlin": 1200 if check.thorough else 120}
    for lang in LANGS:
        n = sizes.get(lang, 250 if check.thorough else 25)
        cases = [dict(dec_case(check.rng, lang), smaller=dec_smaller) for _ in range(n)]
        mans = rs_run(lang, cases)
        for c in cases:
            check.count("decorator-lists:translator-%s" % c["translated"].split(":")[0].replace(" ", "-"))
            for k, v in c["feats"].items():
                check.count("decorator-lists:" + k, v)
        sweep(check, lang, cases, reported_langs, part="decorator-lists", mans=mans)
    # lists with an empty entry: observed, not demanded
    for lang in ("swift", "kotlin"):
        cases = [dec_case(check.rng, lang, empty_entry=True) for _ in range(60 if check.thorough else 12)]
        for c in cases:
            c["r"] = __import__("corpus").runner_req(lang, c["cfg"], c["texts"][0])
        for c, a in zip(cases, runner([c["r"] for c in cases])):
            check.saw(("decorator-lists-empty-entry", lang, json.dumps(c["cfg"], sort_keys=True), c["texts"][0]), nontrivial=isinstance(a.get("ok"), dict))
            verdicts = [syn.check(lang, text)[0] for text in a["ok"].values()] if isinstance(a.get("ok"), dict) else None
            check.count("decorator-lists:list-with-an-empty-entry(outside-the-supported-input):%s-%s"
                        % (lang, "input-rejected" if verdicts is None else "output-rejected-by-the-oracle" if any(v is not None for v in verdicts)
                           else "output-accepted"))


# ------------------------------------------------------------------------------------------ python import (thorough)

def stub_modules():
    """a stub `pydantic` (and `pydantic.networks`) good enough to *import* a generated module"""
    pyd = types.ModuleType("pydantic")

    class BaseModel:
        def __init__(self, **kw):
            self.__dict__.update(kw)

    def Field(*a, **kw):
        return kw.get("default")

    def ConfigDict(**kw):
        return dict(kw)

    class _Marker:
        def __init__(self, *a, **kw):
            pass
    pyd.BaseModel, pyd.Field, pyd.ConfigDict = BaseModel, Field, ConfigDict
    pyd.BeforeValidator, pyd.PlainSerializer = _Marker, _Marker
    net = types.ModuleType("pydantic.networks")
    net.AnyUrl = str
    pyd.networks = net
    return {"pydantic": pyd, "pydantic.networks": net}


def python_import(text):
    """execute the module against the stubs; returns None or (exception class name, message)"""
    saved = {k: sys.modules.get(k) for k in ("pydantic", "pydantic.networks")}
    sys.modules.update(stub_modules())
    try:
        exec(compile(text, "<generated>", "exec"), {"__name__": "generated"})
        return None
    except Exception as e:            # noqa: the generated module may raise anything
        return type(e).__name__, str(e)[:200]
    finally:
        for k, v in saved.items():
            if v is None:
                sys.modules.pop(k, None)
            else:
                sys.modules[k] = v


# ------------------------------------------------------------------------------------------ the check

def reconciled(case):
    r = dict(case["r"])
    r["reconciled"] = True
    a = runner([r])[0]
    return list(a["ok"].values()) if "ok" in a else []


def judge(check, case, ans, lexok):
    """oracle on the implementation's output of one case; returns the list of unexplained rejections.
    `lexok`: file name -> the Lean specification `C10Spec.lexOk` evaluated on the same text"""
    bad = []
    datas = None
    for name, text in sorted(ans["ok"].items()):
        rej, notes = syn.check(case["lang"], text)
        if rej is None and lexok.get(name) is False:
            bad.append((name, text, syn.Reject("the recogniser accepts the text but the Lean lexical specification lexOk rejects it"), "specification and oracle disagree"))
            continue
        check.count("%s-lexOk=%s-oracle=%s" % (case["lang"], lexok.get(name), "accept" if rej is None else "reject"))
        for role, w in notes:
            check.count("%s-reserved-word-as-%s(accepted,no-promise)" % (case["lang"], role.replace(" ", "-")))
        if rej is None:
            check.count("%s-accepted" % case["lang"])
            if case["lang"] == "python" and check.thorough:
                imp = python_import(text)
                check.count("python-import-%s" % (imp[0] if imp else "ok"))
            continue
        if datas is None:
            datas = reconciled(case)
        classes = known_classes(case["lang"], case["cfg"], datas)
        hit = [k for k, d in classes.items() if explains(k, d, case["lang"], rej, text)]
        if hit:
            check.count("%s-rejected-known:%s" % (case["lang"], hit[0]))
            witness = {"lang": case["lang"], "config": case["cfg"], "source": case["texts"], "rejection": rej.describe()}
            if not check.known(hit[0], witness):
                bad.append((name, text, rej, "class %s is not an open known finding" % hit[0]))
        else:
            bad.append((name, text, rej, "no known class explains it (classes present: %s)" % sorted(classes)))
    return bad


ON_DISK_SRC = "#[typeshare]\npub struct Holder { pub unit: (), pub name: String }\n\n#[typeshare]\n#[serde(tag = \"t\", content = \"c\")]\npub enum Shape { Dot, Line(u32), Box { w: u8 } }\n"
ON_DISK_LONG = "#[typeshare]\npub struct HolderWithAVeryLongNameIndeed { pub unit: (), pub a_rather_long_field_name: String, pub another_one: Vec<Option<String>> }\n\n" + ON_DISK_SRC


def files_on_disk_part(check):
    """well-formedness is a property of the *files*: every file the binary leaves behind - also over a destination that already
    holds an earlier, longer or equally long output, and Swift's `Codable.swift` after the configuration changed between two runs
    into the same folder - is recognised and equals what a run into a fresh destination writes"""
    for lang in LANGS:
        prob = dirty_destination(check, "c10", lang, {"src/lib.rs": ON_DISK_SRC}, earlier_sources={"src/lib.rs": ON_DISK_LONG})
        if prob:
            rej, _ = syn.check(lang, prob["file_after_run"] or "")
            check.violation("%s: written over an existing file (%s) the output %s" % (lang, prob["state"],
                            "is not well-formed: " + rej.describe() if rej is not None else "is not the file a fresh run writes"),
                            case=prob, impl=prob["file_after_run"], model=prob["fresh_run"], failing_input=True)
            return
    # Swift's helper module: three configurations of decreasing / equal / increasing length, run one after the other into one folder
    seqs = [[["Equatable", "Hashable", "Sendable"], [], ["Sendable"]], [["Sendable"], ["Hashable"], ["Equatable", "Hashable"]]]
    for seq in seqs:
        with Scratch() as sc:
            sc.write("ws/alpha/src/lib.rs", ON_DISK_SRC)
            for step, constraints in enumerate(seq):
                sc.write("ws/typeshare.toml", "[swift]\ncodablevoid_constraints = [%s]\n" % ", ".join('"%s"' % c for c in constraints))
                r = run_cli(["--lang", "swift", "-d", sc.path("out"), "-c", sc.path("ws/typeshare.toml"), sc.path("ws")], cwd=sc.path("ws"))
                rf = run_cli(["--lang", "swift", "-d", sc.path("fresh%d" % step), "-c", sc.path("ws/typeshare.toml"), sc.path("ws")], cwd=sc.path("ws"))
                check.saw(("codable-sequence", json.dumps(seq), step), nontrivial=True)
                check.count("codable-sequence-step")
                if r["rc"] != 0 or rf["rc"] != 0:
                    continue
                for fn in sorted(os.listdir(sc.path("fresh%d" % step))):
                    want = open(os.path.join(sc.path("fresh%d" % step), fn), encoding="utf-8").read()
                    got = open(os.path.join(sc.path("out"), fn), encoding="utf-8").read() if os.path.exists(os.path.join(sc.path("out"), fn)) else None
                    rej = syn.check("swift", got)[0] if got is not None else None
                    if got != want or rej is not None:
                        check.violation("swift -d: after %d run(s) into one folder with codablevoid_constraints %s, %s %s"
                                        % (step + 1, seq[:step + 1], fn, "is not well-formed: " + rej.describe() if rej is not None
                                           else "is not the file a fresh folder gets"),
                                        case={"constraint_sequence": seq[:step + 1], "source": ON_DISK_SRC}, impl=got, model=want, failing_input=True)
                        return


def unescape_marks(ans):
    """the answer with every `\\u{hex}` that stands for a nonspacing / enclosing mark replaced by the mark itself"""
    def un(m):
        ch = chr(int(m.group(1), 16))
        return ch if unicodedata.category(ch) in ("Mn", "Me") else m.group(0)
    return {"ok": {k: re.sub(r"\\u\{([0-9a-f]{1,6})\}", un, v) for k, v in ans["ok"].items()}}


def sweep(check, lang, cases, reported_langs, part="", mans=None):
    """model and implementation on every case; the oracle on the implementation's output.  At most one failing input and one
    broken-correspondence report per language (and part); the latter never hides the former.
    `mans`: the model's answers when the caller has run the model itself (source-text cases, whose model input is the translated
    file); an entry None = the translator does not support the source, the case is judged by the oracle alone.
    A case may carry `about` (a sentence for the report) and `smaller` (a function (check, case) -> None or (smaller case, its rejection,
    the model's answer on it, whether the two agree), used on a rejected output)"""
    if mans is None:
        names = set().union(*[c["names"] for c in cases]) if lang == "python" else None
        mans = [l2.norm(a) for a in model([c["m"] for c in cases], names=names)]
    rans_raw = runner([c["r"] for c in cases])
    # the Lean specification on the implementation's text (ties `lexOk` to real outputs)
    lex_reqs, lex_idx = [], []
    for i, ra_raw in enumerate(rans_raw):
        for name, text in sorted(ra_raw.get("ok", {}).items()) if isinstance(ra_raw.get("ok"), dict) else []:
            lex_reqs.append([S("lexok"), S(lang), text])
            lex_idx.append((i, name))
    lex_ans = model(lex_reqs, with_unicode=False) if lex_reqs else []
    lexok = {}
    for (i, name), a in zip(lex_idx, lex_ans):
        lexok.setdefault(i, {})[name] = a.get("ok")
    for ci, (c, ma, ra_raw) in enumerate(zip(cases, mans, rans_raw)):
        ra = l2.norm(ra_raw)
        key = (lang, json.dumps(c["cfg"], sort_keys=True), "\n".join(c["texts"]))
        check.saw(key, nontrivial="ok" in ra)
        check.count("%s%s-%s" % (part and part + ":", lang, "ok" if "ok" in ra else "rejected-input"))
        for k, v in c["feats"].items():
            if k.startswith("unicode-"):
                check.count(k, v)
            elif not part and k in ("keyword-tag", "type-override", "decorator", "doc", "item-rename", "rename", "default", "const", "alias", "enum", "struct"):
                check.count(k, v)
        agree = ma is None or ma == ra
        if ma is None:
            check.count(part + ":judged-by-the-oracle-alone(translator-does-not-support-the-source)")
        if not agree and part and "ok" in ma and "ok" in ra and unescape_marks(ra) == ma:
            # typeshare writes string literals through Rust's escape_debug, which spells a Grapheme_Extend character (every
            # nonspacing mark) `\u{..}`; the model copies the character.  Only names with such marks (Rust identifiers may have
            # them after the first letter) show the difference; it is counted, not reported
            check.count(part + ":model-agrees-modulo-escaped-nonspacing-marks")
            agree = True
        bad = judge(check, c, ra_raw, lexok.get(ci, {})) if "ok" in ra_raw else []
        # one failing input and one broken-correspondence report per language; the latter never hides the former
        reported = (lang, "failing" + part) in reported_langs
        if bad and not reported:
            small = c["smaller"](check, c) if c.get("smaller") else None
            if small:
                c, (name, text, rej, why), ma, agree = small
            else:
                name, text, rej, why = bad[0]
            reported_langs.add((lang, "failing" + part))
            out_lines = text.split("\n")
            at = rej.tok[2] if rej.tok else 0
            shown = "; line %d of the output is %s" % (at, json.dumps(out_lines[at - 1].strip(), ensure_ascii=False)) if 0 < at <= len(out_lines) else ""
            check.violation("%s%s output is not well-formed: %s%s; %s%s" % (part and part + ": ", lang, rej.describe(), shown, why,
                                                                              "; " + c["about"] if c.get("about") else ""),
                            case={"lang": lang, "config": c["cfg"], "source": c["texts"], "request": c["r"]},
                            impl={"file": name, "text": text}, model=ma if not agree else "(agrees with the implementation)",
                            failing_input=True)
        elif not agree and not bad and (lang, "weak" + part) not in reported_langs and not reported:
            reported_langs.add((lang, "weak" + part))
            diff = None
            if "ok" in ma and "ok" in ra:
                for k in ra["ok"]:
                    diff = diff or l2.text_diff(ma["ok"].get(k, ""), ra["ok"][k])
            check.violation("%s%s generator differs from the model (%s); the oracle accepts the implementation's text" % (part and part + ": ", lang, diff or "different outcome"),
                            case={"lang": lang, "config": c["cfg"], "source": c["texts"], "request": c["r"]},
                            impl=ra, model=ma, failing_input=False,
                            broken="correspondence L2 %s generate_types byte-exact (hypotheses of TsV.C10.* are about this model)" % lang)
        if len(check.samples) < 6 and "ok" in ra and lang not in [s_["lang"] for s_ in check.samples]:
            check.sample({"lang": lang, "config": c["cfg"], "source": c["texts"][0][:600],
                          "output": list(ra["ok"].values())[0][:600]})


def run(check):
    rng = check.rng
    per_lang = 20000 if check.thorough else 1800
    check.rule = ("random programs over all item kinds (structs incl. empty/unit/newtype, unit and algebraic enums incl. empty, "
                  "aliases, consts where supported), generics, renames incl. dashed keys and dashed item names, rename_all, "
                  "optionals and serde(default), redaction, decorators and lang-valid type overrides, type mappings, doc comments "
                  "on every level over an alphabet with quotes, back-slashes, comment openers and brackets (C15's bad classes — "
                  "newline, `*/`, `\"\"\"` — excluded), keyword field/variant/tag names; header, package and prefix settings; "
                  "1 in 8 cases multi-file; x 6 languages.  Unicode identifier part: the same generator with field / variant / type / "
                  "constant names, renames, item renames and tag / content keys over letters at the corners of the Unicode case mappings "
                  "(several-letter and mark-bearing upper / lower-case forms, title-case digraphs, dotless i, long s, sigmas, caseless "
                  "letters, non-ASCII digits; 1 case in 5 also marks, letter numbers, connectors, middle dot).  Rust-type-syntax part: source "
                  "text whose type expressions instantiate user types with lifetime arguments, const generic arguments (literals, blocks, bare "
                  "paths), bindings, type arguments or nothing, in every order and spelling, at field / payload / alias / newtype / serialized_as / "
                  "generic-argument positions; model input = the translated source.  Decorator-lists part: source text whose type-level "
                  "swift / swiftGenericConstraints / kotlin lists hold only the entry the back end adds itself, that entry twice or among others, "
                  "only default entries, repeated entries, one to four entries, in every spelling, on every item kind incl. generic ones and enums "
                  "with struct variants, crossed with default_decorators / default_generic_constraints / codablevoid_constraints of the same shapes.  "
                  "non-trivial = the implementation produced at least one output file "
                  "that went through the oracle")
    genmod.DOC_WORDS = list(genmod.DOC_WORDS) + DOC_EXTRA
    genmod.VARIANT_WORDS = list(genmod.VARIANT_WORDS) + VARIANT_EXTRA
    genmod.FIELD_WORDS = list(genmod.FIELD_WORDS) + FIELD_EXTRA
    # type names that are (capitalised) Swift keywords: the escape must apply to the whole prefixed name
    genmod.TYPE_WORDS = list(genmod.TYPE_WORDS) + ["Type", "Protocol", "Any"]
    reported_langs = set()
    for lang in LANGS:
        sweep(check, lang, make_cases(rng, lang, per_lang, check.thorough), reported_langs)
    unicode_identifiers_part(check, reported_langs)
    rust_type_syntax_part(check, reported_langs)
    decorator_lists_part(check, reported_langs)
    replay_witnesses(check)
    replay_repaired(check)
    replay_not_full(check)
    if not check.has_failing():
        files_on_disk_part(check)
    check.assumptions += [
        "partial strength: the Lean theorems prove lexical well-formedness (comments, string literals and brackets closed: `wellBracketed`), the "
        "keyword-escaping promises of Swift and Python and the leading-digit rule on the model; conformance to the declaration grammar is CHECKED "
        "here by recognisers on generated programs, not proved",
        "the recognisers accept a declaration subset, not the vendors' grammars; no name resolution or type checking of the generated code "
        "(duplicate member names, undefined or shadowed names, Go's unused import are outside)",
        "doc comments containing a line break, `*/` (TypeScript) or `\"\"\"` (Python) are C15's known classes and excluded by hypothesis here",
    ]


def replay_not_full(check):
    """the kernel-checked witness of C10_not_full on the real generator: the same bytes as in the theorem, rejected by the
    Lean specification lexOk and by the oracle, inside the open class dashed-type-name"""
    lang, cfg, src, want = NOT_FULL
    req = {"op": "generate", "lang": lang, "config": cfg, "files": [{"src": src, "crate": "", "file_name": "o", "path": "w.rs"}]}
    a = runner([req])[0]
    d = runner([dict(req, reconciled=True)])[0]
    check.saw(("not-full-witness", lang, src), nontrivial=True)
    case = {"lang": lang, "config": cfg, "source": src}
    text = list(a["ok"].values())[0] if "ok" in a else None
    if text != want:
        check.violation("the witness of TsV.C10.C10_not_full is generated differently from the theorem's text", case=case, impl=a,
                        model=want, failing_input=False, broken="correspondence L2 scala generate_types (theorem TsV.C10.renamed_name_printed_raw)")
        return
    lex = model([[S("lexok"), S(lang), text]], with_unicode=False)[0].get("ok")
    rej, _ = syn.check(lang, text)
    classes = known_classes(lang, cfg, list(d["ok"].values())) if "ok" in d else {}
    if lex is not False or rej is None or "dashed-type-name" not in classes:
        check.violation("the witness of TsV.C10.C10_not_full is not rejected any more (lexOk=%s, oracle=%s, classes=%s)"
                        % (lex, rej.describe() if rej else "accept", sorted(classes)), case=case, impl={"text": text},
                        failing_input=False, broken="theorem TsV.C10.C10_not_full is about the model only")
    elif not check.known("dashed-type-name", {"lang": lang, "config": cfg, "source": src, "output": text, "rejection": rej.describe()}):
        check.violation("%s output is not lexically closed: %s (witness of C10_not_full; class dashed-type-name is not an open known finding)"
                        % (lang, rej.describe()), case=case, impl={"text": text}, failing_input=True)


def replay_repaired(check):
    """the witnesses of repaired findings are ordinary inputs now: the oracle must accept what is generated for them"""
    reqs = [{"op": "generate", "lang": l, "config": cfg, "files": [{"src": s_, "crate": "", "file_name": "o", "path": "w.rs"}]}
            for _, l, cfg, s_ in REPAIRED]
    for (kid, lang, cfg, src), a in zip(REPAIRED, runner(reqs)):
        check.saw(("repaired", kid, lang, src), nontrivial=True)
        if "ok" not in a:
            check.violation("the witness of the repaired finding %s is not generated: %s" % (kid, str(a)[:200]),
                            case={"lang": lang, "config": cfg, "source": src}, impl=a, failing_input=True)
            continue
        for text in a["ok"].values():
            rej, _ = syn.check(lang, text)
            lex = model([[S("lexok"), S(lang), text]], with_unicode=False)[0].get("ok")
            if rej is not None or lex is False:
                check.violation("%s output is not well-formed: %s (witness of the repaired finding %s: the defect has returned)"
                                % (lang, rej.describe() if rej is not None else "the Lean specification lexOk rejects it", kid),
                                case={"lang": lang, "config": cfg, "source": src}, impl={"text": text}, failing_input=True)
            elif lang == "python":
                imp = python_import(text)
                check.count("repaired-python-import-%s" % (imp[0] if imp else "ok"))
                if imp:
                    check.violation("python module generated for the witness of the repaired finding %s does not import: %s" % (kid, imp),
                                    case={"lang": lang, "config": cfg, "source": src}, impl={"text": text}, failing_input=True)


def replay_witnesses(check):
    """every stored witness must still be rejected by the oracle, for the reason its class names; a class all of whose
    witnesses are accepted is reported by finish() as 'no longer fails'"""
    reqs = [{"op": "generate", "lang": l, "config": cfg, "files": [{"src": s_, "crate": "", "file_name": "o", "path": "w.rs"}]}
            if s_ is not None else
            {"op": "generate", "lang": l, "config": cfg, "multi_file": True, "files": KOTLIN_IMPORT_FILES}
            for _, l, cfg, s_ in WITNESSES]
    answers = runner(reqs)
    datas = runner([dict(r, reconciled=True) for r in reqs])
    for (kid, lang, cfg, src), a, d in zip(WITNESSES, answers, datas):
        check.saw(("witness", kid, lang, src), nontrivial=True)
        if "ok" not in a or "ok" not in d:
            check.notes.append("witness of %s (%s) is no longer generated: %s" % (kid, lang, str(a)[:200]))
            continue
        rej, text = None, ""
        for text in a["ok"].values():
            rej, _ = syn.check(lang, text)
            if rej is not None:
                break
        if rej is None:
            check.notes.append("witness of %s (%s) is accepted by the oracle now (repaired upstream?)" % (kid, lang))
            continue
        classes = known_classes(lang, cfg, list(d["ok"].values()))
        if kid in classes and explains(kid, classes[kid], lang, rej, text):
            if not check.known(kid, {"lang": lang, "config": cfg, "source": src, "output": text, "rejection": rej.describe()}):
                check.violation("%s output is not well-formed: %s (stored witness of class %s, which is not an open known finding)"
                                % (lang, rej.describe(), kid),
                                case={"lang": lang, "config": cfg, "source": src}, impl={"text": text}, failing_input=True)
        else:
            check.violation("stored witness of %s is rejected for another reason: %s" % (kid, rej.describe()),
                            case={"lang": lang, "config": cfg, "source": src}, impl={"text": text}, failing_input=True)
