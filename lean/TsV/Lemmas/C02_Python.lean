import TsV.Lemmas.C02_Base
import TsV.Model.Lang.Python
/-!
# C02, Python: members of the `(str, Enum)` classes, `Literal[...]` tags and the attribute names of
the variant classes
-/
namespace TsV.C02.Py
open TsV TsV.Str TsV.Lang TsV.Lang.Python TsV.C02

/-- what `write_enum` writes (the unit arm of the model builds its record inline) -/
inductive EnumDecl where
  | unit (inner : List PyClass) (c : PyEnumClass)
  | union (u : PyUnion)

def renderDecl : EnumDecl → Str
  | .unit inner c => inner.flatMap renderClass ++ renderEnumClass c
  | .union u => renderUnion u

/-- `write_enum` as facts -/
def enumFacts (E : Ext) (cfg : Cfg) (e : RustEnum) (st : St) : Outcome (EnumDecl × St) :=
  match e.keys with
  | none =>
    (innerFacts E cfg e (structVariants e) st).bind fun (inner, st) =>
    let st := addImport st s%"enum" s%"Enum"
    (unitMembers E e.variants).bind fun members =>
      .ok (.unit inner { name := e.id.renamed, comments := e.comments, members }, st)
  | some (tag, content) =>
    (unionFacts E cfg e tag content st).bind fun (u, st) => .ok (.union u, st)

/-- **the facts render to exactly what `write_enum` writes** -/
theorem writeEnum_eq (E : Ext) (cfg : Cfg) (e : RustEnum) (st : St) :
    writeEnum E cfg e st = (enumFacts E cfg e st).bind fun (d, st) => .ok (renderDecl d, st) := by
  unfold writeEnum enumFacts
  cases e.keys with
  | none =>
    simp only
    cases innerFacts E cfg e (structVariants e) st with
    | ok p =>
      simp only [Outcome.bind_ok]
      cases unitMembers E e.variants with
      | ok ms => rfl
      | err x => rfl
      | panic x => rfl
    | err x => rfl
    | panic x => rfl
  | some p =>
    obtain ⟨t, c⟩ := p
    simp only
    cases unionFacts E cfg e t c st with
    | ok q => rfl
    | err x => rfl
    | panic x => rfl

/-! ## binding semantics -/

/-- `<Enum>Types.<MEMBER>` denotes the value of the member of the `Types` enumeration with that name —
provided there is exactly one (Python rejects a class body that defines an `Enum` member twice) -/
def resolve (u : PyUnion) (lit : Str) : Option Str :=
  match u.tags.filter fun m => u.typesName ++ s%"." ++ m.name == lit with
  | [m] => some m.wire
  | _ => none

/-- a variant class prints the tag key as the name of its `Literal[...]` attribute, and the content
key as the name of its second attribute when it has one -/
def variantHoles (v : PyVariant) : List (Role × Str) :=
  (.tag, v.tagKey) :: (match v.contentType with | some _ => [(.content, v.contentKey)] | none => [])

/-- a member `NAME = "wire"` of a `(str, Enum)` class is the case `NAME`, serialised as `wire`; a
variant class of a tagged union is the case whose tag attribute is `Literal[<Enum>Types.<MEMBER>]`,
serialised as that member's value -/
def wire : EnumDecl → EnumWire
  | .unit _ c => { cases := c.members.map fun m => ⟨some m.name, some m.wire⟩, holes := [] }
  | .union u =>
    { cases := u.variants.map fun v => ⟨some v.tagLiteral, resolve u v.tagLiteral⟩,
      holes := u.variants.flatMap variantHoles }

/-- the member names `write_enum` derives: `original.to_uppercase()` for a unit enum,
`renamed.to_case(Snake).to_uppercase()` for a tagged union -/
def memberNames (E : Ext) (e : RustEnum) : List Str :=
  match e.keys with
  | none => e.variants.map fun v => E.U.upperStr v.id.original
  | some _ => e.variants.map fun v => tagMemberName E v.id.renamed

/-! ## facts -/

theorem filter_unique {α β} [BEq β] [LawfulBEq β] (f : α → β) : ∀ (l : List α), (l.map f).Nodup →
    ∀ x ∈ l, l.filter (fun y => f y == f x) = [x]
  | [], _, x, hx => by simp at hx
  | a :: t, hn, x, hx => by
    rw [List.map_cons, List.nodup_cons] at hn
    simp only [List.mem_cons] at hx
    rcases hx with rfl | hx
    · have : t.filter (fun y => f y == f x) = [] := by
        rw [List.filter_eq_nil_iff]
        intro y hy hyx
        exact hn.1 (List.mem_map.2 ⟨y, hy, eq_of_beq hyx⟩)
      simp [this]
    · have hne : (f a == f x) = false := by
        cases hb : f a == f x with
        | false => rfl
        | true => exact absurd (List.mem_map.2 ⟨x, hx, (eq_of_beq hb).symm⟩) hn.1
      simp [hne, filter_unique f t hn.2 x hx]

theorem unitMembers_facts (E : Ext) : ∀ (vs : List RustEnumVariant) (ms : List PyMember),
    unitMembers E vs = .ok ms →
      ms.map (·.name) = vs.map (fun v => E.U.upperStr v.id.original) ∧ ms.map (·.wire) = vs.map (·.id.renamed)
  | [], ms, h => by simp [unitMembers] at h; subst h; exact ⟨rfl, rfl⟩
  | .unit id cs :: vs, ms, h => by
    simp only [unitMembers] at h
    obtain ⟨rest, hr, h⟩ := (Outcome.bind_eq_ok _ _ _).1 h
    cases h
    obtain ⟨i1, i2⟩ := unitMembers_facts E vs rest hr
    exact ⟨by simp only [List.map_cons, i1]; rfl, by simp only [List.map_cons, i2]; rfl⟩
  | .tuple _ _ _ :: vs, ms, h => by simp [unitMembers] at h
  | .anonymousStruct _ _ _ :: vs, ms, h => by simp [unitMembers] at h

theorem variantFacts_facts (E : Ext) (cfg : Cfg) (e : RustEnum) (tag content : Str) (v : RustEnumVariant)
    (st st' : St) (pv : PyVariant) (h : variantFacts E cfg e tag content v st = .ok (pv, st')) :
    pv.tagKey = tag ∧ pv.contentKey = content ∧
      pv.tagLiteral = e.id.renamed ++ s%"Types." ++ tagMemberName E v.id.renamed := by
  cases v with
  | unit id cs => simp only [variantFacts] at h; cases h; exact ⟨rfl, rfl, rfl⟩
  | tuple id cs ty =>
    simp only [variantFacts] at h
    obtain ⟨⟨t, st1⟩, _, h⟩ := (Outcome.bind_eq_ok _ _ _).1 h
    cases h; exact ⟨rfl, rfl, rfl⟩
  | anonymousStruct id cs fs => simp only [variantFacts] at h; cases h; exact ⟨rfl, rfl, rfl⟩

theorem variantsFacts_facts (E : Ext) (cfg : Cfg) (e : RustEnum) (tag content : Str) :
    ∀ (vs : List RustEnumVariant) (st st' : St) (pvs : List PyVariant),
      variantsFacts E cfg e tag content vs st = .ok (pvs, st') →
        pvs.map (·.tagLiteral) = vs.map (fun v => e.id.renamed ++ s%"Types." ++ tagMemberName E v.id.renamed) ∧
        ∀ pv ∈ pvs, pv.tagKey = tag ∧ pv.contentKey = content
  | [], st, st', pvs, h => by simp only [variantsFacts] at h; cases h; simp
  | v :: vs, st, st', pvs, h => by
    simp only [variantsFacts] at h
    obtain ⟨⟨pv, st1⟩, hv, h⟩ := (Outcome.bind_eq_ok _ _ _).1 h
    obtain ⟨⟨rest, st2⟩, hr, h⟩ := (Outcome.bind_eq_ok _ _ _).1 h
    cases h
    obtain ⟨h1, h2, h3⟩ := variantFacts_facts E cfg e tag content v st st1 pv hv
    obtain ⟨i1, i2⟩ := variantsFacts_facts E cfg e tag content vs st1 st2 rest hr
    refine ⟨by simp only [List.map_cons, h3, i1], ?_⟩
    intro x hx
    simp only [List.mem_cons] at hx
    rcases hx with rfl | hx
    · exact ⟨h1, h2⟩
    · exact i2 x hx

/-- the tag literal of a variant resolves to the variant's wire name when member names are distinct -/
theorem resolve_variant (E : Ext) (e : RustEnum) (u : PyUnion)
    (htn : u.typesName = e.id.renamed ++ s%"Types")
    (htags : u.tags = e.variants.map fun v => { name := tagMemberName E v.id.renamed, wire := v.id.renamed, comments := [] })
    (hn : (e.variants.map fun v => tagMemberName E v.id.renamed).Nodup) (v : RustEnumVariant) (hv : v ∈ e.variants) :
    resolve u (e.id.renamed ++ s%"Types." ++ tagMemberName E v.id.renamed) = some v.id.renamed := by
  let mk : RustEnumVariant → PyMember := fun v =>
    { name := tagMemberName E v.id.renamed, wire := v.id.renamed, comments := [] }
  have hlit : ∀ n : Str, e.id.renamed ++ s%"Types." ++ n = u.typesName ++ s%"." ++ n := by
    intro n; rw [htn]; simp [List.append_assoc]
  have hnd : (u.tags.map fun m => u.typesName ++ s%"." ++ m.name).Nodup := by
    rw [htags, List.map_map]
    have := nodup_map_on (fun n : Str => u.typesName ++ s%"." ++ n) _ hn
      (fun a _ b _ hab => List.append_cancel_left hab)
    simpa [List.map_map, Function.comp_def] using this
  have hmem : mk v ∈ u.tags := by rw [htags]; exact List.mem_map.2 ⟨v, hv, rfl⟩
  have := filter_unique (fun m : PyMember => u.typesName ++ s%"." ++ m.name) u.tags hnd (mk v) hmem
  unfold resolve
  rw [hlit]
  simp only [mk] at this
  rw [this]

theorem union_names (E : Ext) (e : RustEnum) (u : PyUnion)
    (htn : u.typesName = e.id.renamed ++ s%"Types")
    (htags : u.tags = e.variants.map fun v => { name := tagMemberName E v.id.renamed, wire := v.id.renamed, comments := [] })
    (hn : (e.variants.map fun v => tagMemberName E v.id.renamed).Nodup)
    (h1 : u.variants.map (·.tagLiteral) =
      e.variants.map (fun v => e.id.renamed ++ s%"Types." ++ tagMemberName E v.id.renamed)) :
    u.variants.map (fun v => resolve u v.tagLiteral) = e.variants.map fun v => some v.id.renamed := by
  have : u.variants.map (fun v => resolve u v.tagLiteral) = (u.variants.map (·.tagLiteral)).map (resolve u) := by
    rw [List.map_map]; rfl
  rw [this, h1, List.map_map]
  apply List.map_congr_left
  intro v hvm
  exact resolve_variant E e u htn htags hn v hvm

/-- **Python**: whatever `write_enum` emits for an in-scope enum whose derived member names are
pairwise distinct is correct on the wire -/
theorem correct (E : Ext) (cfg : Cfg) (e : RustEnum) (st st' : St) (d : EnumDecl)
    (hk : (memberNames E e).Nodup) (h : enumFacts E cfg e st = .ok (d, st')) : (wire d).Correct e := by
  unfold enumFacts at h
  unfold memberNames at hk
  cases hkeys : e.keys with
  | none =>
    simp only [hkeys] at h hk
    obtain ⟨⟨inner, st1⟩, _, h⟩ := (Outcome.bind_eq_ok _ _ _).1 h
    obtain ⟨members, hm, h⟩ := (Outcome.bind_eq_ok _ _ _).1 h
    cases h
    obtain ⟨h1, h2⟩ := unitMembers_facts E e.variants members hm
    refine ⟨?_, ?_, ?_⟩
    · have := congrArg (List.map some) h2
      simpa [EnumWire.Names, wire, Function.comp_def] using this
    · have : (members.map (·.name)).Nodup := by rw [h1]; exact hk
      simpa [EnumWire.Distinct, wire, List.filterMap_map, Function.comp_def] using this
    · simp [EnumWire.Keys, hkeys, wire]
  | some p =>
    obtain ⟨tag, content⟩ := p
    simp only [hkeys] at h hk
    obtain ⟨⟨u, st1⟩, hu, h⟩ := (Outcome.bind_eq_ok _ _ _).1 h
    cases h
    unfold unionFacts at hu
    obtain ⟨⟨inner, st2⟩, _, hu⟩ := (Outcome.bind_eq_ok _ _ _).1 hu
    obtain ⟨⟨variants, st3⟩, hv, hu⟩ := (Outcome.bind_eq_ok _ _ _).1 hu
    cases hu
    obtain ⟨h1, h2⟩ := variantsFacts_facts E cfg e tag content e.variants _ st3 variants hv
    refine ⟨?_, ?_, ?_⟩
    · simp only [EnumWire.Names, wire, List.map_map, Function.comp_def]
      exact union_names E e _ rfl rfl hk h1
    · have : (variants.map (·.tagLiteral)).Nodup := by
        rw [h1]
        have := nodup_map_on (fun n : Str => e.id.renamed ++ s%"Types." ++ n) _ hk
          (fun a _ b _ hab => List.append_cancel_left hab)
        simpa [List.map_map, Function.comp_def] using this
      simpa [EnumWire.Distinct, wire, List.filterMap_map, Function.comp_def] using this
    · simp only [EnumWire.Keys, hkeys, wire, List.mem_flatMap]
      rintro x ⟨pv, hpv, hx⟩
      obtain ⟨ht, hc⟩ := h2 pv hpv
      unfold variantHoles at hx
      simp only [List.mem_cons] at hx
      rcases hx with rfl | hx
      · exact Or.inl (by rw [ht])
      · cases hct : pv.contentType with
        | none => simp [hct] at hx
        | some t =>
          simp only [hct, List.mem_cons, List.not_mem_nil, or_false] at hx
          subst hx
          exact Or.inr (by rw [hc])

/-- … and conversely: two variants whose derived member names coincide share one member -/
theorem collide (E : Ext) (cfg : Cfg) (e : RustEnum) (st st' : St) (d : EnumDecl)
    (hk : ¬ (memberNames E e).Nodup) (h : enumFacts E cfg e st = .ok (d, st')) : ¬ (wire d).Distinct := by
  intro hd
  apply hk
  unfold enumFacts at h
  unfold memberNames
  cases hkeys : e.keys with
  | none =>
    simp only [hkeys] at h ⊢
    obtain ⟨⟨inner, st1⟩, _, h⟩ := (Outcome.bind_eq_ok _ _ _).1 h
    obtain ⟨members, hm, h⟩ := (Outcome.bind_eq_ok _ _ _).1 h
    cases h
    obtain ⟨h1, _⟩ := unitMembers_facts E e.variants members hm
    rw [← h1]
    simpa [EnumWire.Distinct, wire, List.filterMap_map, Function.comp_def] using hd
  | some p =>
    obtain ⟨tag, content⟩ := p
    simp only [hkeys] at h ⊢
    obtain ⟨⟨u, st1⟩, hu, h⟩ := (Outcome.bind_eq_ok _ _ _).1 h
    cases h
    unfold unionFacts at hu
    obtain ⟨⟨inner, st2⟩, _, hu⟩ := (Outcome.bind_eq_ok _ _ _).1 hu
    obtain ⟨⟨variants, st3⟩, hv, hu⟩ := (Outcome.bind_eq_ok _ _ _).1 hu
    cases hu
    obtain ⟨h1, _⟩ := variantsFacts_facts E cfg e tag content e.variants _ st3 variants hv
    have : (variants.map (·.tagLiteral)).Nodup := by
      simpa [EnumWire.Distinct, wire, List.filterMap_map, Function.comp_def] using hd
    rw [h1] at this
    -- distinct literals ⇒ distinct member names
    rw [List.Nodup, List.pairwise_map] at this ⊢
    exact this.imp fun hne heq => hne (by rw [heq])

end TsV.C02.Py
