pub struct Outer;
impl Outer {
    pub fn f(&self) -> u8 {
        #[typeshare]
        pub struct InFn { pub a: u8 }
        let c = || {
            #[typeshare]
            struct InClosure { b: &'static str }
            1
        };
        3
    }
    #[typeshare]
    pub const ASSOC: u32 = 3;
}
trait T {
    fn g() {
        #[typeshare]
        struct InTrait(u16);
    }
    #[typeshare]
    type Assoc;
}
const X: u8 = {
    #[typeshare]
    struct InConst { c: char }
    3
};
#[typeshare]
pub const Y: u32 = 0x10_u32;
#[typeshare]
pub static Z: u32 = 3;
macro_rules! m { () => { #[typeshare] struct InMacro { a: u8 } } }
extern "C" { #[typeshare] type Foreign; }
#[typeshare]
union U { a: u8 }
