import TsV.Lemmas.C15_Spec
/-!
# C15 — lemmas

1. tagged text: `erase`, `docChars`, `tInter` against `Str.intercalate`, the flat-map forms of an
   intercalated list;
2. running a lexer: `final` / `okOn` over concatenations, printer text, and the generic
   `run_flatMap` (a block is a prefix, a list of entries, a suffix);
3. per lexer: what one doc string does to the lexer (`line_okOn`, `tsDoc_okOn`, `pyDoc_okOn`);
4. per renderer: `contained = all (not Bad)`;
8. the repaired TypeScript / Python printers never write `*/` / an unescaped `\"\"\"` (`ts_escape_no_close`,
   `py_escape_ok`), and their escaping functions are `str::replace` (`ts_escape_eq_replace`, `py_escape_eq_replace`:
   Python doubles backslashes first, then escapes `\"\"\"`);
9. the parser's comment entries contain neither `\n` nor `\r` (`entries_no_break`) and only characters of
   the doc strings (`entries_any`);
10. `contained_entries`: on parser entries, `contained = !KnownScalaSub`.
-/
namespace TsV.C15
open TsV TsV.Lang

/-! ## 1. tagged text -/

@[simp] theorem P_nil : P [] = [] := rfl
@[simp] theorem D_nil : D [] = [] := rfl
@[simp] theorem P_cons (c : Char) (s : Str) : P (c :: s) = (c, false) :: P s := rfl
@[simp] theorem D_cons (c : Char) (s : Str) : D (c :: s) = (c, true) :: D s := rfl
@[simp] theorem P_append (a b : Str) : P (a ++ b) = P a ++ P b := by simp [P]
@[simp] theorem D_append (a b : Str) : D (a ++ b) = D a ++ D b := by simp [D]
@[simp] theorem erase_nil : erase [] = [] := rfl
@[simp] theorem erase_append (a b : TStr) : erase (a ++ b) = erase a ++ erase b := by simp [erase]
@[simp] theorem erase_P (s : Str) : erase (P s) = s := by
  induction s with
  | nil => rfl
  | cons c s ih => simp [erase] at ih ⊢; exact ih
@[simp] theorem erase_D (s : Str) : erase (D s) = s := by
  induction s with
  | nil => rfl
  | cons c s ih => simp [erase] at ih ⊢; exact ih
@[simp] theorem docChars_nil : docChars [] = [] := rfl
@[simp] theorem docChars_append (a b : TStr) : docChars (a ++ b) = docChars a ++ docChars b := by
  simp [docChars]
@[simp] theorem docChars_P (s : Str) : docChars (P s) = [] := by
  induction s with
  | nil => rfl
  | cons c s ih => simp [docChars] at ih ⊢; exact ih
@[simp] theorem docChars_D (s : Str) : docChars (D s) = s := by
  induction s with
  | nil => rfl
  | cons c s ih => simp [docChars] at ih ⊢; exact ih

theorem erase_tInter (sep : TStr) (xs : List TStr) :
    erase (tInter sep xs) = Str.intercalate (erase sep) (xs.map erase) := by
  induction xs with
  | nil => rfl
  | cons x xs ih =>
    cases xs with
    | nil => simp [tInter, Str.intercalate]
    | cons y ys => simp [tInter, Str.intercalate] at ih ⊢; rw [ih]

theorem erase_flatMap {α} (f : α → TStr) (xs : List α) :
    erase (xs.flatMap f) = xs.flatMap fun x => erase (f x) := by
  induction xs with
  | nil => rfl
  | cons x xs ih => simp [List.flatMap_cons, ih]

theorem docChars_flatMap {α} (f : α → TStr) (xs : List α) :
    docChars (xs.flatMap f) = xs.flatMap fun x => docChars (f x) := by
  induction xs with
  | nil => rfl
  | cons x xs ih => simp [List.flatMap_cons, ih]

/-- `a ⊔ b ⊔ c ⊔` as a flat map -/
theorem tInter_append_sep (sep : TStr) (xs : List TStr) (h : xs ≠ []) :
    tInter sep xs ++ sep = xs.flatMap fun x => x ++ sep := by
  induction xs with
  | nil => exact absurd rfl h
  | cons x xs ih =>
    cases xs with
    | nil => simp [tInter]
    | cons y ys =>
      have := ih (by simp)
      simp only [tInter, List.flatMap_cons, List.append_assoc] at this ⊢
      rw [this]

/-- `⊔ a ⊔ b ⊔ c` as a flat map -/
theorem sep_append_tInter (sep : TStr) (xs : List TStr) (h : xs ≠ []) :
    sep ++ tInter sep xs = xs.flatMap fun x => sep ++ x := by
  induction xs with
  | nil => exact absurd rfl h
  | cons x xs ih =>
    cases xs with
    | nil => simp [tInter]
    | cons y ys =>
      have := ih (by simp)
      simp only [tInter, List.flatMap_cons, List.append_assoc] at this ⊢
      rw [this]

/-! ## 2. running a lexer -/

section run
variable {σ : Type} (step : σ → Char → σ) (inC : σ → Bool)

theorem final_append (s : σ) (a b : TStr) :
    final step s (a ++ b) = final step (final step s a) b := by
  induction a generalizing s with
  | nil => rfl
  | cons x a ih => obtain ⟨c, d⟩ := x; simp [final, ih]

theorem okOn_append (s : σ) (a b : TStr) :
    okOn step inC s (a ++ b) = (okOn step inC s a && okOn step inC (final step s a) b) := by
  induction a generalizing s with
  | nil => simp [okOn, final]
  | cons x a ih => obtain ⟨c, d⟩ := x; simp [okOn, final, ih, Bool.and_assoc]

@[simp] theorem okOn_P (s : σ) (x : Str) : okOn step inC s (P x) = true := by
  induction x generalizing s with
  | nil => rfl
  | cons c x ih => simp [okOn, ih]

@[simp] theorem final_P (s : σ) (x : Str) : final step s (P x) = x.foldl step s := by
  induction x generalizing s with
  | nil => rfl
  | cons c x ih => simp [final, ih]

@[simp] theorem final_D (s : σ) (x : Str) : final step s (D x) = x.foldl step s := by
  induction x generalizing s with
  | nil => rfl
  | cons c x ih => simp [final, ih]

/-- a block `entries ++ suffix` read from a state satisfying the invariant `I`: it is contained
exactly when no entry is bad, provided each entry is fine exactly when it is not bad, a good entry
re-establishes `I`, and the suffix leads from `I` back to `code` -/
theorem run_flatMap [DecidableEq σ] (I : σ → Prop) (ET : Str → TStr) (bad : Str → Bool)
    (suffix : TStr) (code : σ)
    (h1 : ∀ s c, I s → okOn step inC s (ET c) = !bad c)
    (h2 : ∀ s c, I s → bad c = false → I (final step s (ET c)))
    (h3 : ∀ s, I s → okOn step inC s suffix = true ∧ final step s suffix = code)
    (cs : List Str) (s : σ) (hs : I s) :
    (okOn step inC s (cs.flatMap ET ++ suffix) && (final step s (cs.flatMap ET ++ suffix) == code))
      = cs.all fun c => !bad c := by
  induction cs generalizing s with
  | nil => simp [h3 s hs]
  | cons c cs ih =>
    have e : (c :: cs).flatMap ET ++ suffix = ET c ++ (cs.flatMap ET ++ suffix) := by simp
    rw [e, okOn_append, final_append, List.all_cons, h1 s c hs]
    cases hb : bad c with
    | true => simp
    | false => simpa using ih _ (h2 s c hs hb)

/-- the same with a printer-written prefix in front -/
theorem run_block [DecidableEq σ] (I : σ → Prop) (ET : Str → TStr) (bad : Str → Bool)
    (pre : Str) (suffix : TStr) (code : σ)
    (h0 : I (pre.foldl step code))
    (h1 : ∀ s c, I s → okOn step inC s (ET c) = !bad c)
    (h2 : ∀ s c, I s → bad c = false → I (final step s (ET c)))
    (h3 : ∀ s, I s → okOn step inC s suffix = true ∧ final step s suffix = code)
    (cs : List Str) :
    containedIn step inC code (P pre ++ (cs.flatMap ET ++ suffix)) = cs.all fun c => !bad c := by
  unfold containedIn
  rw [okOn_append, final_append, okOn_P, final_P, Bool.true_and]
  exact run_flatMap step inC I ET bad suffix code h1 h2 h3 cs _ h0
end run

/-! ## 3a. line comments -/

theorem foldl_tabs_code (S : CSyntax) (n : Nat) : (tabs n).foldl (cStep S) .code = .code := by
  induction n with
  | zero => rfl
  | succ n ih => simpa [tabs, List.replicate_succ, cStep] using ih

theorem line_okOn (S : CSyntax) (c : Str) :
    okOn (cStep S) CSt.inComment .line (D c) = !c.any S.eol := by
  induction c with
  | nil => rfl
  | cons x t ih =>
    cases h : S.eol x <;> simp [okOn, cStep, h, CSt.inComment, ih]

theorem line_foldl (S : CSyntax) (c : Str) (h : c.any S.eol = false) :
    c.foldl (cStep S) .line = .line := by
  induction c with
  | nil => rfl
  | cons x t ih =>
    simp only [List.any_cons, Bool.or_eq_false_iff] at h
    simp [cStep, h.1, ih h.2]

/-- one `<tabs><pre><doc>\n` line -/
def lineEntry (n : Nat) (pre : Str) (w : Str → Str) (c : Str) : TStr :=
  P (tabs n ++ pre) ++ D (w c) ++ P nl

theorem contained_lines (S : CSyntax) (n : Nat) (pre : Str) (w : Str → Str)
    (hpre : pre.foldl (cStep S) .code = .line) (hnl : S.eol '\n' = true) (cs : List Str) :
    containedIn (cStep S) CSt.inComment .code (cs.flatMap (lineEntry n pre w))
      = cs.all fun c => !(w c).any S.eol := by
  have h := run_block (cStep S) CSt.inComment (fun s => s = .code) (lineEntry n pre w)
    (fun c => (w c).any S.eol) [] [] CSt.code rfl
    (by
      rintro s c rfl
      simp [lineEntry, okOn_append, foldl_tabs_code, hpre, line_okOn])
    (by
      rintro s c rfl hb
      simp [lineEntry, final_append, foldl_tabs_code, hpre, line_foldl S _ hb, nl, final, cStep, hnl])
    (by rintro s rfl; exact ⟨rfl, rfl⟩) cs
  simpa using h

/-! ## 3b. TypeScript block comments -/

/-- inside the (outermost) block comment -/
def InBlock (s : CSt) : Prop := s = .block 0 ∨ s = .blockStar 0

theorem tsSyntax_nest : tsSyntax.nest = false := rfl

theorem tsDoc_okOn (c : Str) :
    okOn (cStep tsSyntax) CSt.inComment (.block 0) (D c) = !Str.containsSub c s%"*/" ∧
    okOn (cStep tsSyntax) CSt.inComment (.blockStar 0) (D c)
      = !(Str.startsWith c s%"/" || Str.containsSub c s%"*/") := by
  induction c with
  | nil => simp [okOn, Str.containsSub, Str.startsWith]
  | cons x t ih =>
    obtain ⟨ih1, ih2⟩ := ih
    by_cases hs : x = '*'
    · subst hs
      simp [okOn, cStep, CSt.inComment, Str.containsSub, Str.startsWith, ih2]
    · by_cases hl : x = '/'
      · subst hl
        simp [okOn, cStep, CSt.inComment, Str.containsSub, Str.startsWith, ih1, tsSyntax_nest]
      · have hs' : (x == '*') = false := by simpa using hs
        have hl' : (x == '/') = false := by simpa using hl
        simp [okOn, cStep, CSt.inComment, Str.containsSub, Str.startsWith, ih1, tsSyntax_nest, hs, hl, hs', hl']

theorem tsDoc_final (c : Str) : ∀ s, InBlock s → okOn (cStep tsSyntax) CSt.inComment s (D c) = true →
    InBlock (c.foldl (cStep tsSyntax) s) := by
  induction c with
  | nil => intro s hs _; exact hs
  | cons x t ih =>
    intro s hs hok
    simp only [D_cons, okOn, Bool.not_true, Bool.false_or, Bool.and_eq_true] at hok
    refine ih _ ?_ hok.2
    rcases hs with rfl | rfl
    · by_cases hx : x = '*' <;> simp [cStep, hx, tsSyntax_nest, InBlock]
    · by_cases hx : x = '/'
      · subst hx; simp [cStep, CSt.inComment] at hok
      · by_cases hx' : x = '*' <;> simp [cStep, hx, hx', InBlock]

theorem foldl_tabs_block (n : Nat) : (tabs n).foldl (cStep tsSyntax) (.block 0) = .block 0 := by
  induction n with
  | zero => rfl
  | succ n ih => simpa [tabs, List.replicate_succ, cStep, tsSyntax_nest] using ih


theorem ts_block (pre sepS suf : Str)
    (hpre : InBlock (pre.foldl (cStep tsSyntax) .code))
    (hsep : ∀ s, InBlock s → sepS.foldl (cStep tsSyntax) s = .block 0)
    (hsuf : ∀ s, InBlock s → suf.foldl (cStep tsSyntax) s = .code) (cs : List Str) :
    containedIn (cStep tsSyntax) CSt.inComment .code
        (P pre ++ (cs.flatMap (fun c => P sepS ++ D c) ++ P suf))
      = cs.all fun c => !Str.containsSub c s%"*/" :=
  run_block _ _ InBlock _ (fun c => Str.containsSub c s%"*/") pre (P suf) .code hpre
    (by intro s c hs; simp [okOn_append, hsep s hs, (tsDoc_okOn c).1])
    (by
      intro s c hs hb
      simp only [final_append, final_P, final_D, hsep s hs]
      exact tsDoc_final c _ (Or.inl rfl) (by simp [(tsDoc_okOn c).1, hb]))
    (by intro s hs; simp [hsuf s hs]) cs

theorem flatMap_map' {α β γ} (f : α → β) (g : β → List γ) (l : List α) :
    (l.map f).flatMap g = l.flatMap fun x => g (f x) := by
  induction l with
  | nil => rfl
  | cons x l ih => simp [List.flatMap_cons, ih]

theorem contained_ts (U : UnicodeOps) (n : Nat) (cs : List Str) :
    contained .typescript U n cs = cs.all fun c => !Bad .typescript U c := by
  have hsp : ∀ s, InBlock s → (s%" ").foldl (cStep tsSyntax) s = .block 0 := by
    rintro s (rfl | rfl) <;> simp [cStep, tsSyntax_nest]
  have hsep : ∀ s, InBlock s → (nl ++ tabs n ++ s%" * ").foldl (cStep tsSyntax) s = .block 0 := by
    rintro s (rfl | rfl) <;>
      simp [nl, List.foldl_append, cStep, tsSyntax_nest, foldl_tabs_block]
  have hpre : InBlock ((tabs n ++ s%"/**").foldl (cStep tsSyntax) .code) := by
    simp [List.foldl_append, foldl_tabs_code, cStep, InBlock]
  show containedIn _ _ _ (renderT .typescript U n cs)
    = cs.all fun c => !Str.containsSub (TypeScript.escapeDoc c) s%"*/"
  have hall : ∀ l : List Str, (l.map TypeScript.escapeDoc).all (fun c => !Str.containsSub c s%"*/")
      = l.all fun c => !Str.containsSub (TypeScript.escapeDoc c) s%"*/" := by
    intro l; simp [List.all_map, Function.comp_def]
  match cs with
  | [] => rfl
  | [c] =>
    have e : renderT .typescript U n [c]
        = P (tabs n ++ s%"/**") ++ (([c].map TypeScript.escapeDoc).flatMap (fun c => P s%" " ++ D c)
            ++ P (s%" */" ++ nl)) := by
      simp [renderT]
    rw [e, ← hall]
    exact ts_block _ _ _ hpre hsp (by
      rintro s (rfl | rfl) <;> simp [nl, cStep, tsSyntax_nest]) _
  | c1 :: c2 :: r =>
    have e : renderT .typescript U n (c1 :: c2 :: r)
        = P (tabs n ++ s%"/**") ++ (((c1 :: c2 :: r).map TypeScript.escapeDoc).flatMap
              (fun c => P (nl ++ tabs n ++ s%" * ") ++ D c)
            ++ P (nl ++ tabs n ++ s%" */" ++ nl)) := by
      have := sep_append_tInter (P (nl ++ tabs n ++ s%" * "))
        (((c1 :: c2 :: r).map TypeScript.escapeDoc).map D) (by simp)
      rw [flatMap_map'] at this
      rw [← this]
      simp [renderT, nl, Function.comp_def]
    rw [e, ← hall]
    exact ts_block _ _ _ hpre hsep (by
      rintro s (rfl | rfl) <;>
        simp [nl, List.foldl_append, cStep, tsSyntax_nest, foldl_tabs_block]) _


/-! ## 3c. Python -/

theorem okOn_D_cons {σ : Type} (step : σ → Char → σ) (inC : σ → Bool) (s : σ) (x : Char) (t : Str) :
    okOn step inC s (D (x :: t)) = ((inC s && inC (step s x)) && okOn step inC (step s x) (D t)) := by
  simp [okOn]

/-- inside the docstring -/
def InDoc (s : PSt) : Prop := s = .long '"' ∨ s = .longEsc '"' ∨ s = .longQ1 '"' ∨ s = .longQ2 '"'

theorem startsWith_q2_q1 (t : Str) (b : Bool) :
    (Str.startsWith t s%"\"" || (Str.startsWith t s%"\"\"" || b)) = (Str.startsWith t s%"\"" || b) := by
  cases t with
  | nil => simp [Str.startsWith]
  | cons y t' => cases hy : (y == '"') <;> simp [Str.startsWith, hy]

theorem pyDoc_okOn (c : Str) :
    okOn pyStep PSt.inComment (.long '"') (D c) = !unescapedTripleQuote false c ∧
    okOn pyStep PSt.inComment (.longEsc '"') (D c) = !unescapedTripleQuote true c ∧
    okOn pyStep PSt.inComment (.longQ1 '"') (D c)
      = !(Str.startsWith c s%"\"\"" || unescapedTripleQuote false c) ∧
    okOn pyStep PSt.inComment (.longQ2 '"') (D c)
      = !(Str.startsWith c s%"\"" || unescapedTripleQuote false c) := by
  induction c with
  | nil => simp [okOn, unescapedTripleQuote, Str.startsWith]
  | cons x t ih =>
    obtain ⟨ih0, ihE, ih1, ih2⟩ := ih
    simp only [okOn_D_cons]
    by_cases hq : x = '"'
    · subst hq
      refine ⟨?_, ?_, ?_, ?_⟩
      · simp [pyStep, PSt.inComment, unescapedTripleQuote, Str.startsWith, ih1]
      · simp [pyStep, PSt.inComment, unescapedTripleQuote, ih0]
      · simp [pyStep, PSt.inComment, unescapedTripleQuote, Str.startsWith, ih2, startsWith_q2_q1]
      · simp [pyStep, PSt.inComment, unescapedTripleQuote, Str.startsWith]
    · have hq' : (x == '"') = false := by simpa using hq
      by_cases hb : x = '\\'
      · subst hb
        simp [pyStep, PSt.inComment, unescapedTripleQuote, Str.startsWith, ihE, ih0]
      · simp [pyStep, PSt.inComment, unescapedTripleQuote, Str.startsWith, ih0, hq, hq', hb]

theorem pyDoc_final (c : Str) : ∀ s, InDoc s → okOn pyStep PSt.inComment s (D c) = true →
    InDoc (c.foldl pyStep s) := by
  induction c with
  | nil => intro s hs _; exact hs
  | cons x t ih =>
    intro s hs hok
    rw [okOn_D_cons] at hok
    simp only [Bool.and_eq_true] at hok
    refine ih _ ?_ hok.2
    have h2 := hok.1.2
    rcases hs with rfl | rfl | rfl | rfl
    · by_cases hx : x = '"'
      · simp [pyStep, hx, InDoc]
      · by_cases hx' : x = '\\' <;> simp [pyStep, hx, hx', InDoc]
    · simp [pyStep, InDoc]
    · by_cases hx : x = '"'
      · simp [pyStep, hx, InDoc]
      · by_cases hx' : x = '\\' <;> simp [pyStep, hx, hx', InDoc]
    · by_cases hx : x = '"'
      · subst hx; simp [pyStep, PSt.inComment] at h2
      · by_cases hx' : x = '\\' <;> simp [pyStep, hx, hx', InDoc]

theorem foldl_indent (s : PSt) (hs : s = .code ∨ s = .long '"' ∨ s = .hash) (n : Nat) :
    (Python.indent n).foldl pyStep s = s := by
  induction n with
  | zero => rfl
  | succ n ih =>
    have : Python.indent (n + 1) = s%"    " ++ Python.indent n := by
      simp [Python.indent, List.replicate_succ]
    rw [this, List.foldl_append]
    rcases hs with rfl | rfl | rfl <;> simpa [pyStep, pyFromCode, pyEol] using ih

theorem hash_okOn (c : Str) : okOn pyStep PSt.inComment .hash (D c) = !c.any pyEol := by
  induction c with
  | nil => rfl
  | cons x t ih =>
    cases h : pyEol x <;> simp [okOn, pyStep, h, PSt.inComment, ih]

theorem hash_foldl (c : Str) (h : c.any pyEol = false) : c.foldl pyStep .hash = .hash := by
  induction c with
  | nil => rfl
  | cons x t ih =>
    simp only [List.any_cons, Bool.or_eq_false_iff] at h
    simp [pyStep, h.1, ih h.2]


/-! ## 4. the renderers -/

theorem contained_pyDoc (U : UnicodeOps) (n : Nat) (cs : List Str) :
    contained .pyDoc U n cs = cs.all fun c => !Bad .pyDoc U c := by
  show containedIn _ _ _ (renderT .pyDoc U n cs)
    = cs.all fun c => !unescapedTripleQuote false (Python.escapeDoc c)
  match cs with
  | [] => rfl
  | c1 :: r =>
    have e : renderT .pyDoc U n (c1 :: r)
        = P (Python.indent n ++ s%"\"\"\"\n") ++
          ((c1 :: r).flatMap (fun c => P (Python.indent n) ++ D (Python.escapeDoc c) ++ P nl)
            ++ P (Python.indent n ++ s%"\"\"\"" ++ nl)) := by
      have := tInter_append_sep (P nl)
        ((c1 :: r).map fun c => P (Python.indent n) ++ D (Python.escapeDoc c)) (by simp)
      rw [flatMap_map'] at this
      rw [← this]
      simp [renderT]
    rw [e]
    refine run_block _ _ (fun s => s = PSt.long '"') _
      (fun c => unescapedTripleQuote false (Python.escapeDoc c)) _ _ PSt.code ?_ ?_ ?_ ?_ _
    · simp [List.foldl_append, foldl_indent, pyStep, pyFromCode]
    · rintro s c rfl
      simp [okOn_append, foldl_indent, (pyDoc_okOn (Python.escapeDoc c)).1]
    · rintro s c rfl hb
      have h := pyDoc_final (Python.escapeDoc c) _ (Or.inl rfl)
        (by simp [(pyDoc_okOn (Python.escapeDoc c)).1, hb])
      simp only [final_append, final_P, final_D, foldl_indent _ (Or.inr (Or.inl rfl))]
      rcases h with h | h | h | h <;> simp [h, nl, pyStep]
    · rintro s rfl
      simp [okOn_append, final_append, okOn, final, foldl_indent, pyStep, pyFromCode, nl]

theorem contained_pyHash (U : UnicodeOps) (n : Nat) (cs : List Str) :
    contained .pyHash U n cs = cs.all fun c => !Bad .pyHash U c := by
  show containedIn _ _ _ (renderT .pyHash U n cs) = cs.all fun c => !c.any pyEol
  match cs with
  | [] => rfl
  | c1 :: r =>
    have e : renderT .pyHash U n (c1 :: r)
        = P [] ++ ((c1 :: r).flatMap (fun c => P (Python.indent n ++ s%"# ") ++ D c ++ P nl) ++ []) := by
      have := tInter_append_sep (P nl) ((c1 :: r).map fun c => P (Python.indent n ++ s%"# ") ++ D c) (by simp)
      rw [flatMap_map'] at this
      rw [← this]
      simp [renderT]
    rw [e]
    refine run_block _ _ (fun s => s = PSt.code) _ (fun c => c.any pyEol) _ _ PSt.code rfl ?_ ?_ ?_ _
    · rintro s c rfl
      have hsp : pyEol ' ' = false := by decide
      simp [okOn_append, okOn, foldl_indent, pyStep, pyFromCode, hash_okOn, hsp]
    · rintro s c rfl hb
      have hsp : pyEol ' ' = false := by decide
      have hnl : pyEol '\n' = true := by decide
      simp [final_append, final, foldl_indent, pyStep, pyFromCode, hash_foldl c hb, nl, hsp, hnl]
    · rintro s rfl; exact ⟨rfl, rfl⟩

theorem contained_kotlin (U : UnicodeOps) (n : Nat) (cs : List Str) :
    contained .kotlin U n cs = cs.all fun c => !Bad .kotlin U c :=
  contained_lines kotlinSyntax n s%"/// " id (by decide) (by decide) cs

theorem contained_swift (U : UnicodeOps) (n : Nat) (cs : List Str) :
    contained .swift U n cs = cs.all fun c => !Bad .swift U c :=
  contained_lines swiftSyntax n s%"/// " (Swift.trimEnd U) (by decide) (by decide) cs

theorem contained_scala (U : UnicodeOps) (n : Nat) (cs : List Str) :
    contained .scala U n cs = cs.all fun c => !Bad .scala U c :=
  contained_lines scalaSyntax n s%"// " id (by decide) (by decide) cs

theorem contained_go (U : UnicodeOps) (n : Nat) (cs : List Str) :
    contained .go U n cs = cs.all fun c => !Bad .go U c :=
  contained_lines goSyntax n s%"// " id (by decide) (by decide) cs

/-- the exact characterisation, all seven renderers -/
theorem contained_eq (sty : Style) (U : UnicodeOps) (n : Nat) (cs : List Str) :
    contained sty U n cs = cs.all fun c => !Bad sty U c := by
  cases sty
  · exact contained_ts U n cs
  · exact contained_kotlin U n cs
  · exact contained_swift U n cs
  · exact contained_scala U n cs
  · exact contained_go U n cs
  · exact contained_pyDoc U n cs
  · exact contained_pyHash U n cs


/-! ## 5. the tagged renderers are the model's renderers -/

@[simp] theorem erase_cons (c : Char) (d : Bool) (t : TStr) : erase ((c, d) :: t) = c :: erase t := rfl
@[simp] theorem docChars_cons_false (c : Char) (t : TStr) : docChars ((c, false) :: t) = docChars t := rfl
@[simp] theorem docChars_cons_true (c : Char) (t : TStr) : docChars ((c, true) :: t) = c :: docChars t := rfl

theorem written_fun (sty : Style) (U : UnicodeOps) :
    written sty U = if sty = .swift then Swift.trimEnd U else if sty = .typescript then TypeScript.escapeDoc
      else if sty = .pyDoc then Python.escapeDoc else id := by
  funext c; cases sty <;> rfl

theorem docChars_tInter (sep : TStr) (h : docChars sep = []) (xs : List TStr) :
    docChars (tInter sep xs) = xs.flatMap docChars := by
  induction xs with
  | nil => rfl
  | cons x xs ih =>
    cases xs with
    | nil => simp [tInter]
    | cons y ys => simp [tInter, h] at ih ⊢; rw [ih]

theorem map_erase_D (cs : List Str) : (cs.map D).map erase = cs := by
  induction cs with
  | nil => rfl
  | cons c cs ih => simp at ih ⊢; exact ih

/-- forgetting the tags gives exactly the text the back-end model writes -/
theorem erase_renderT (sty : Style) (U : UnicodeOps) (n : Nat) (cs : List Str) :
    erase (renderT sty U n cs) = render sty U n cs := by
  cases sty
  · match cs with
    | [] => rfl
    | [c] => simp [renderT, render, TypeScript.comments]
    | c1 :: c2 :: r =>
      simp [renderT, render, TypeScript.comments, erase_tInter, Function.comp_def]
  · simp [renderT, render, Kotlin.comments, erase_flatMap]
  · simp [renderT, render, Swift.comments, erase_flatMap]
  · simp [renderT, render, Scala.comments, erase_flatMap]
  · simp [renderT, render, Go.comments, erase_flatMap]
  · by_cases h : cs = []
    · subst h; rfl
    · simp [renderT, render, Python.docstring, h, erase_tInter, Function.comp_def]
  · by_cases h : cs = []
    · subst h; rfl
    · simp [renderT, render, Python.hashComments, h, erase_tInter, Function.comp_def]

/-- the characters tagged as doc text are exactly the doc strings (as the printer writes them: Swift
strips trailing white space), in order -/
theorem docChars_renderT (sty : Style) (U : UnicodeOps) (n : Nat) (cs : List Str) :
    docChars (renderT sty U n cs) = cs.flatMap (written sty U) := by
  cases sty
  · match cs with
    | [] => rfl
    | [c] => simp [renderT, written]
    | c1 :: c2 :: r =>
      simp [renderT, written_fun, docChars_tInter, flatMap_map']
  · simp [renderT, written_fun, docChars_flatMap]
  · simp [renderT, written_fun, docChars_flatMap]
  · simp [renderT, written_fun, docChars_flatMap]
  · simp [renderT, written_fun, docChars_flatMap]
  · by_cases h : cs = []
    · subst h; rfl
    · simp [renderT, written_fun, h, docChars_tInter, flatMap_map']
  · by_cases h : cs = []
    · subst h; rfl
    · simp [renderT, written_fun, h, docChars_tInter, flatMap_map']


/-! ## 6. reading `Bad` for Python docstrings -/

theorem unescaped_imp_contains (c : Str) : ∀ b, unescapedTripleQuote b c = true →
    Str.containsSub c s%"\"\"\"" = true := by
  induction c with
  | nil => intro b h; simp [unescapedTripleQuote] at h
  | cons x t ih =>
    intro b h
    cases b with
    | true =>
      simp only [unescapedTripleQuote] at h
      simp [Str.containsSub, ih _ h]
    | false =>
      simp only [unescapedTripleQuote] at h
      by_cases hx : x = '\\'
      · simp only [hx, if_true] at h
        simp [Str.containsSub, ih _ h]
      · simp only [hx, if_false, Bool.or_eq_true] at h
        rcases h with h | h
        · simp [Str.containsSub, h]
        · simp [Str.containsSub, ih _ h]

theorem unescaped_eq_contains (c : Str) (h : ∀ x ∈ c, x ≠ '\\') :
    unescapedTripleQuote false c = Str.containsSub c s%"\"\"\"" := by
  induction c with
  | nil => rfl
  | cons x t ih =>
    have hx : x ≠ '\\' := h x (by simp)
    have ht := ih fun y hy => h y (by simp [hy])
    simp [unescapedTripleQuote, hx, Str.containsSub, ht]

/-! ## 7. a contained block is transparent for the text that follows -/

theorem containedIn_final {σ : Type} [DecidableEq σ] (step : σ → Char → σ) (inC : σ → Bool) (code : σ)
    (t : TStr) (h : containedIn step inC code t = true) : final step code t = code := by
  simp only [containedIn, Bool.and_eq_true, beq_iff_eq] at h
  exact h.2

theorem final_eq_foldl {σ : Type} (step : σ → Char → σ) (s : σ) (t : TStr) :
    final step s t = (erase t).foldl step s := by
  induction t generalizing s with
  | nil => rfl
  | cons x t ih => obtain ⟨c, d⟩ := x; simp [final, ih]


/-! ## 8. the repaired printers never write a comment terminator -/

/-! ### TypeScript: `*/` written as `*\/` -/
theorem ts_escape_head (r : Str) : (TypeScript.escapeDoc r).head? = r.head? := by
  cases r with
  | nil => rfl
  | cons c r =>
    simp only [TypeScript.escapeDoc]
    split
    · next h => simp [h.1]
    · rfl

theorem ts_escape_no_close (c : Str) : Str.containsSub (TypeScript.escapeDoc c) s%"*/" = false := by
  induction c with
  | nil => rfl
  | cons x r ih =>
    simp only [TypeScript.escapeDoc]
    split
    · simp [Str.containsSub, Str.startsWith, ih]
    · next h =>
      simp only [Str.containsSub, ih, Bool.or_false]
      by_cases hx : x = '*'
      · subst hx
        have hh := ts_escape_head r
        cases hr : TypeScript.escapeDoc r with
        | nil => simp [Str.startsWith]
        | cons y t =>
          rw [hr] at hh
          have : y ≠ '/' := by
            intro hy; subst hy; exact h ⟨rfl, hh.symm⟩
          simp [Str.startsWith, this]
      · simp [Str.startsWith, hx]

/-! ### Python: backslashes doubled, then `\"\"\"` written as `\\\"\\\"\\\"` -/
/-! the second replacement alone already leaves no unescaped `\"\"\"`, whatever it is applied to -/
theorem py_quotes_head (r : Str) (h : (Python.escapeQuotes r).head? = some '"') : r.head? = some '"' := by
  match r with
  | [] => simp [Python.escapeQuotes] at h
  | [a] => simpa [Python.escapeQuotes] using h
  | [a, b] => simpa [Python.escapeQuotes] using h
  | a :: b :: c :: r' =>
    simp only [Python.escapeQuotes] at h
    split at h
    · simp at h
    · simpa using h

theorem py_quotes_starts2 (r : Str) (h : Str.startsWith (Python.escapeQuotes r) s%"\"\"" = true) :
    Str.startsWith r s%"\"\"" = true := by
  match r with
  | [] => simp [Python.escapeQuotes, Str.startsWith] at h
  | [a] => simpa [Python.escapeQuotes] using h
  | [a, b] => simpa [Python.escapeQuotes] using h
  | a :: b :: c :: r' =>
    simp only [Python.escapeQuotes] at h
    split at h
    · simp [Str.startsWith] at h
    · have hh := py_quotes_head (b :: c :: r')
      cases he : Python.escapeQuotes (b :: c :: r') with
      | nil => rw [he] at h; simp [Str.startsWith] at h
      | cons y t =>
        rw [he] at h hh
        simp [Str.startsWith] at h
        have := hh (by simp [h.2])
        simp at this
        simp [Str.startsWith, h.1, this]

theorem py_quotes_ok (c : Str) :
    unescapedTripleQuote false (Python.escapeQuotes c) = false ∧
    unescapedTripleQuote true (Python.escapeQuotes c) = false := by
  induction c using Python.escapeQuotes.induct with
  | case1 c c2 c3 r h ih =>
    simp [Python.escapeQuotes, h, unescapedTripleQuote, Str.startsWith, ih.1]
  | case2 c c2 c3 r h ih =>
    have e : Python.escapeQuotes (c :: c2 :: c3 :: r) = c :: Python.escapeQuotes (c2 :: c3 :: r) := by
      simp [Python.escapeQuotes, h]
    rw [e]
    refine ⟨?_, by simp [unescapedTripleQuote, ih.1]⟩
    by_cases hb : c = '\\'
    · simp [unescapedTripleQuote, hb, ih.2]
    · simp only [unescapedTripleQuote, hb, if_false, ih.1, Bool.or_false]
      cases hs : Str.startsWith (c :: Python.escapeQuotes (c2 :: c3 :: r)) s%"\"\"\"" with
      | false => rfl
      | true =>
        exfalso
        simp only [Str.startsWith, Bool.and_eq_true, beq_iff_eq] at hs
        have h2 := py_quotes_starts2 (c2 :: c3 :: r) (by simpa [Str.startsWith] using hs.2)
        simp [Str.startsWith] at h2
        exact h ⟨hs.1, h2.1, h2.2⟩
  | case3 s h =>
    match s, h with
    | [], _ => simp [Python.escapeQuotes, unescapedTripleQuote]
    | [a], _ => by_cases ha : a = '\\' <;> simp [Python.escapeQuotes, unescapedTripleQuote, Str.startsWith, ha]
    | [a, b], _ =>
      by_cases ha : a = '\\' <;> by_cases hb : b = '\\' <;>
        simp [Python.escapeQuotes, unescapedTripleQuote, Str.startsWith, ha, hb]
    | a :: b :: c :: r, h => exact absurd rfl (h a b c r)

/-- the docstring writer (`escapeDoc` = backslashes doubled, then `\"\"\"` escaped): the written
text has no unescaped `\"\"\"` -/
theorem py_escape_ok (c : Str) :
    unescapedTripleQuote false (Python.escapeDoc c) = false ∧
    unescapedTripleQuote true (Python.escapeDoc c) = false :=
  py_quotes_ok (Python.escapeBackslashes c)

/-! ### the model's escaping functions are `str::replace` -/

theorem ts_escape_go (fuel : Nat) : ∀ s : Str, s.length ≤ fuel →
    Str.replaceSub.go s%"*/" s%"*\\/" fuel s = TypeScript.escapeDoc s := by
  induction fuel with
  | zero => intro s h; cases s with
    | nil => rfl
    | cons c t => simp at h
  | succ fuel ih =>
    intro s h
    match s with
    | [] => rfl
    | [c] =>
      by_cases hc : c = '*' <;>
        simp [Str.replaceSub.go, TypeScript.escapeDoc, Str.startsWith, hc, ih [] (by simp)]
    | c :: d :: t =>
      have h1 : (d :: t).length ≤ fuel := by simp at h ⊢; omega
      have h2 : t.length ≤ fuel := by simp at h ⊢; omega
      by_cases hc : c = '*' <;> by_cases hd : d = '/'
      · subst hc; subst hd
        simp [Str.replaceSub.go, TypeScript.escapeDoc, Str.startsWith, ih t h2]
      · simp [Str.replaceSub.go, TypeScript.escapeDoc, Str.startsWith, hc, hd, ih _ h1]
      · subst hd
        have e := ih _ h1
        simp only [TypeScript.escapeDoc] at e
        simp [Str.replaceSub.go, TypeScript.escapeDoc, Str.startsWith, hc, e]
      · simp [Str.replaceSub.go, TypeScript.escapeDoc, Str.startsWith, hc, hd, ih _ h1]

/-- the model's `escapeDoc` is `str::replace("*/", "*\\/")` -/
theorem ts_escape_eq_replace (c : Str) :
    TypeScript.escapeDoc c = Str.replaceSub c s%"*/" s%"*\\/" := by
  simp [Str.replaceSub, ts_escape_go c.length c (Nat.le_refl _)]

theorem py_quotes_go (fuel : Nat) : ∀ s : Str, s.length ≤ fuel →
    Str.replaceSub.go s%"\"\"\"" s%"\\\"\\\"\\\"" fuel s = Python.escapeQuotes s := by
  induction fuel with
  | zero => intro s h; cases s with
    | nil => rfl
    | cons c t => simp at h
  | succ fuel ih =>
    intro s h
    match s with
    | [] => rfl
    | [a] =>
      simp [Str.replaceSub.go, Python.escapeQuotes, Str.startsWith, ih [] (by simp)]
    | [a, b] =>
      have := ih [b] (by simp at h ⊢; omega)
      simp [Str.replaceSub.go, Python.escapeQuotes, Str.startsWith, this]
    | a :: b :: c :: r =>
      have h1 : (b :: c :: r).length ≤ fuel := by simp at h ⊢; omega
      have h2 : r.length ≤ fuel := by simp at h ⊢; omega
      by_cases hq : a = '"' ∧ b = '"' ∧ c = '"'
      · obtain ⟨rfl, rfl, rfl⟩ := hq
        simp [Str.replaceSub.go, Python.escapeQuotes, Str.startsWith, ih r h2]
      · have hs : Str.startsWith (a :: b :: c :: r) s%"\"\"\"" = false := by
          cases hh : Str.startsWith (a :: b :: c :: r) s%"\"\"\"" with
          | false => rfl
          | true => simp [Str.startsWith] at hh; exact absurd hh hq
        rw [Str.replaceSub.go, hs]
        simp [Python.escapeQuotes, hq, ih _ h1]

/-- the model's `escapeQuotes` is `str::replace("\"\"\"", "\\\"\\\"\\\"")` -/
theorem py_quotes_eq_replace (c : Str) :
    Python.escapeQuotes c = Str.replaceSub c s%"\"\"\"" s%"\\\"\\\"\\\"" := by
  simp [Str.replaceSub, py_quotes_go c.length c (Nat.le_refl _)]

theorem py_backslashes_go (fuel : Nat) : ∀ s : Str, s.length ≤ fuel →
    Str.replaceSub.go s%"\\" s%"\\\\" fuel s = Python.escapeBackslashes s := by
  induction fuel with
  | zero => intro s h; cases s with
    | nil => rfl
    | cons c t => simp at h
  | succ fuel ih =>
    intro s h
    match s with
    | [] => rfl
    | a :: r =>
      have h1 : r.length ≤ fuel := by simp at h ⊢; omega
      have ih' := ih r h1
      simp only [Python.escapeBackslashes, Str.replaceChar] at ih' ⊢
      by_cases ha : a = '\\'
      · subst ha
        simp [Str.replaceSub.go, Str.startsWith, ih']
      · simp [Str.replaceSub.go, Str.startsWith, ha, ih']

/-- the model's `escapeBackslashes` is `str::replace('\\', "\\\\")` (a `char` pattern matches like the
one-character string) -/
theorem py_backslashes_eq_replace (c : Str) :
    Python.escapeBackslashes c = Str.replaceSub c s%"\\" s%"\\\\" := by
  simp [Str.replaceSub, py_backslashes_go c.length c (Nat.le_refl _)]

/-- the model's `escapeDoc` is `.replace('\\', "\\\\").replace("\"\"\"", "\\\"\\\"\\\"")` -/
theorem py_escape_eq_replace (c : Str) :
    Python.escapeDoc c = Str.replaceSub (Str.replaceSub c s%"\\" s%"\\\\") s%"\"\"\"" s%"\\\"\\\"\\\"" := by
  rw [← py_backslashes_eq_replace, ← py_quotes_eq_replace]; rfl

/-! ## 9. the parser hands single-line entries to the renderers -/

/-- `\n` or `\r` -/
def isBreak (c : Char) : Bool := c = '\n' || c = '\r'

theorem docLines_no_break (s : Str) : ∀ l ∈ Parser.docLines s, l.any isBreak = false := by
  induction s with
  | nil => simp [Parser.docLines]
  | cons c r ih =>
    simp only [Parser.docLines]
    split
    · exact ih
    · split
      · intro l hl
        simp only [List.mem_cons] at hl
        rcases hl with rfl | hl
        · rfl
        · exact ih l hl
      · next h1 h2 =>
        have hc : isBreak c = false := by
          simp only [not_or] at h2
          simp [isBreak, h2.1, h2.2]
        split
        · next l ls hd =>
          intro x hx
          simp only [List.mem_cons] at hx
          rcases hx with rfl | hx
          · simp [hc, ih l (by simp [hd])]
          · exact ih x (by simp [hd, hx])
        · intro x hx
          simp only [List.mem_singleton] at hx
          subst hx; simp [hc]

theorem any_dropWhile {p q : Char → Bool} (s : Str) (h : s.any p = false) : (s.dropWhile q).any p = false := by
  induction s with
  | nil => rfl
  | cons c r ih =>
    simp only [List.any_cons, Bool.or_eq_false_iff] at h
    simp only [List.dropWhile_cons]
    split
    · exact ih h.2
    · simp [h.1, h.2]

theorem any_reverse' {p : Char → Bool} (s : Str) : s.reverse.any p = s.any p := by
  simp [List.any_eq]

theorem any_trim (U : UnicodeOps) {p : Char → Bool} (s : Str) (h : s.any p = false) : (U.trim s).any p = false := by
  unfold UnicodeOps.trim
  rw [any_reverse']
  apply any_dropWhile
  rw [any_reverse']
  exact any_dropWhile _ h

theorem any_trimEnd (U : UnicodeOps) {p : Char → Bool} (s : Str) (h : s.any p = false) :
    (Swift.trimEnd U s).any p = false := by
  unfold Swift.trimEnd
  rw [any_reverse']
  apply any_dropWhile
  rw [any_reverse']
  exact h

/-- no entry produced by the parser contains `\n` or `\r` -/
theorem entries_no_break (U : UnicodeOps) (docs : List Str) :
    ∀ e ∈ entries U docs, e.any isBreak = false := by
  intro e he
  simp only [entries, Parser.docEntries, Parser.splitCommentLines, List.mem_flatMap, List.mem_map] at he
  obtain ⟨d, _, l, hl, rfl⟩ := he
  exact any_trim U l (docLines_no_break _ l hl)

/-- nothing is lost by the split: the lines are the doc string without its line breaks -/
theorem docLines_flatten (s : Str) : (Parser.docLines s).flatten = s.filter fun c => !(c = '\n' || c = '\r') := by
  induction s with
  | nil => rfl
  | cons c r ih =>
    simp only [Parser.docLines]
    split
    · next h => simp [h.1, ih]
    · split
      · next h1 h2 =>
        rcases h2 with h2 | h2 <;> simp [h2, ih]
      · next h1 h2 =>
        simp only [not_or] at h2
        split
        · next l ls hd =>
          rw [hd] at ih
          simp [h2.1, h2.2] at ih ⊢
          exact ih
        · next hd =>
          rw [hd] at ih
          simp [h2.1, h2.2] at ih ⊢
          exact ih

/-- the lines consist of characters of the string -/
theorem docLines_any {p : Char → Bool} (s : Str) (h : s.any p = false) :
    ∀ l ∈ Parser.docLines s, l.any p = false := by
  induction s with
  | nil => simp [Parser.docLines]
  | cons c r ih =>
    simp only [List.any_cons, Bool.or_eq_false_iff] at h
    have ih := ih h.2
    simp only [Parser.docLines]
    split
    · exact ih
    · split
      · intro l hl
        simp only [List.mem_cons] at hl
        rcases hl with rfl | hl
        · rfl
        · exact ih l hl
      · split
        · next l ls hd =>
          intro x hx
          simp only [List.mem_cons] at hx
          rcases hx with rfl | hx
          · simp [h.1, ih l (by simp [hd])]
          · exact ih x (by simp [hd, hx])
        · intro x hx
          simp only [List.mem_singleton] at hx
          subst hx; simp [h.1]

/-- an entry contains only characters of the doc strings -/
theorem entries_any (U : UnicodeOps) {p : Char → Bool} (docs : List Str) (h : ∀ d ∈ docs, d.any p = false) :
    ∀ e ∈ entries U docs, e.any p = false := by
  intro e he
  simp only [entries, Parser.docEntries, Parser.splitCommentLines, List.mem_flatMap, List.mem_map] at he
  obtain ⟨d, hd, l, hl, rfl⟩ := he
  exact any_trim U l (docLines_any _ (any_trim U d (h d hd)) l hl)

/-! ## 10. containment of the block the parser + a renderer make of the `#[doc]` strings -/

theorem any_false_of_imp {p q : Char → Bool} (hpq : ∀ c, q c = true → p c = true) (s : Str)
    (h : s.any p = false) : s.any q = false := by
  induction s with
  | nil => rfl
  | cons c r ih =>
    simp only [List.any_cons, Bool.or_eq_false_iff] at h ⊢
    refine ⟨?_, ih h.2⟩
    cases hq : q c with
    | false => rfl
    | true => rw [hpq c hq] at h; exact absurd h.1 (by simp)

theorem Bad_typescript_never (U : UnicodeOps) (c : Str) : Bad .typescript U c = false :=
  ts_escape_no_close c

theorem Bad_pyDoc_never (U : UnicodeOps) (c : Str) : Bad .pyDoc U c = false :=
  (py_escape_ok c).1

theorem any_or_left_false {p q r : Char → Bool} (hr : ∀ c, r c = (p c || q c)) (s : Str)
    (h : s.any p = false) : s.any r = s.any q := by
  induction s with
  | nil => rfl
  | cons c t ih =>
    simp only [List.any_cons, Bool.or_eq_false_iff] at h
    simp only [List.any_cons, ih h.2, hr c, h.1, Bool.false_or]

theorem all_congr_mem {α} (f g : α → Bool) (l : List α) (h : ∀ x ∈ l, f x = g x) : l.all f = l.all g := by
  induction l with
  | nil => rfl
  | cons x t ih =>
    simp only [List.all_cons]
    rw [h x (by simp), ih fun y hy => h y (by simp [hy])]

theorem all_not_eq {α} (f : α → Bool) (l : List α) : (l.all fun x => !f x) = !l.any f := by
  induction l with
  | nil => rfl
  | cons x t ih => simp only [List.all_cons, List.any_cons, ih, Bool.not_or]

/-- `Bad` on a string without `\n`, `\r`: only Scala's U+001A is left -/
theorem Bad_of_no_break (sty : Style) (U : UnicodeOps) (e : Str) (h : e.any isBreak = false) :
    Bad sty U e = (sty == .scala && e.any isSub) := by
  cases sty
  · rw [Bad_typescript_never]; rfl
  · have : Bad .kotlin U e = false :=
      any_false_of_imp (p := isBreak) (q := kotlinSyntax.eol) (fun c hc => hc) e h
    rw [this]; rfl
  · have : Bad .swift U e = false :=
      any_false_of_imp (p := isBreak) (q := swiftSyntax.eol) (fun c hc => hc) _ (any_trimEnd U e h)
    rw [this]; rfl
  · show e.any scalaSyntax.eol = (true && e.any isSub)
    rw [Bool.true_and]
    exact any_or_left_false (p := isBreak) (fun c => rfl) e h
  · have : Bad .go U e = false :=
      any_false_of_imp (p := isBreak) (q := goSyntax.eol)
        (fun c hc => by simp only [goSyntax, decide_eq_true_eq] at hc; simp [isBreak, hc]) e h
    rw [this]; rfl
  · rw [Bad_pyDoc_never]; rfl
  · have : Bad .pyHash U e = false :=
      any_false_of_imp (p := isBreak) (q := pyEol) (fun c hc => hc) e h
    rw [this]; rfl

/-- the exact characterisation at parser level -/
theorem contained_entries (sty : Style) (U : UnicodeOps) (n : Nat) (docs : List Str) :
    contained sty U n (entries U docs) = !KnownScalaSub sty U docs := by
  rw [contained_eq, all_congr_mem _ (fun e => !(sty == .scala && e.any isSub)) _
    fun e he => by rw [Bad_of_no_break sty U e (entries_no_break U docs e he)]]
  unfold KnownScalaSub
  cases (sty == Style.scala)
  · simp
  · simp only [Bool.true_and]; exact all_not_eq _ _

end TsV.C15
