import TsV.Lemmas.Collect
/-!
# C06 — output is a deterministic function of the inputs, not of scheduling or hashing

A schedule is abstracted to (i) the *arrival order* of the per-file results at the collector and
(ii) the iteration orders of hash containers.  `C06_arrival_order` is the statement for arrival
orders within one crate (in particular the whole of single-file mode, where every file belongs to
the crate `""`): the reconciled, sorted item lists — everything `generate_types` reads — are the
same for every permutation of the arrivals.  Hash iteration order enters the model only through
the explicit parameters `imports` / `firstOther` / `pick` of `Pipeline.resolveRenamed`,
`Pipeline.usedImports` and `Visitor.reconcileReferencedTypes`; in single-file mode
`import_types` is empty, so they are never consulted (`resolve_no_imports`).  In multi-file mode
they are consulted, and `Props/C06_Multi.lean` shows that the result does not depend on them
(each look-up takes the candidate with the smallest crate name since the `fix:` commit "resolve a
type name imported from several crates the same way in every run").
-/
namespace TsV.C06
open TsV TsV.Pipeline TsV.Collect

/-- within the crate no two types share an original name, no two consts do, and (single-file
mode) no imports were recorded -/
structure WF (a : List ParsedData) : Prop where
  types : ((a.flatMap (·.structs)).map (·.id.original) ++ (a.flatMap (·.enums)).map (·.id.original) ++
           (a.flatMap (·.aliases)).map (·.id.original)).Nodup
  consts : ((a.flatMap (·.consts)).map (·.id.original)).Nodup
  noImports : ∀ d ∈ a, d.importTypes = []

theorem merged_imports_nil : ∀ (a : List ParsedData) (acc : ParsedData),
    acc.importTypes = [] → (∀ d ∈ a, d.importTypes = []) → (merged acc a).importTypes = []
  | [], acc, h, _ => h
  | d :: t, acc, h, hd => by
    have := merged_imports_nil t (addAssign acc d) (by simp [addAssign, hd d (by simp), h])
      (fun x hx => hd x (by simp [hx]))
    simpa [merged] using this

/-- with no imports, a reference is resolved in the current crate only: no hash order involved -/
theorem resolve_no_imports (c : Str) (r : Renames) (id : Str) :
    resolveRenamed c r [] id = (if hasRename r id then renameOf r id c else none) := by
  unfold resolveRenamed
  by_cases h : hasRename r id = true <;> simp [h, minByKey]

/-- what `generate_types` reads of one crate -/
def view (p : Str × ParsedData) :
    Str × List RustStruct × List RustEnum × List RustTypeAlias × List RustConst × Str × Bool :=
  (p.1, p.2.structs, p.2.enums, p.2.aliases, p.2.consts, p.2.fileName, p.2.multiFile)

/-- the three rename sources of one crate -/
def renamesOf (c : Str) (ss : List RustStruct) (es : List RustEnum) (as : List RustTypeAlias) : Renames :=
  (ss.filterMap fun s => if s.id.serdeRename then some (s.id.original, c, s.id.renamed) else none) ++
  (es.filterMap fun e => if e.id.serdeRename then some (e.id.original, c, e.id.renamed) else none) ++
  (as.filterMap fun a => if a.id.serdeRename then some (a.id.original, c, a.id.renamed) else none)

theorem collectSerdeRenames_single (c : Str) (d : ParsedData) :
    collectSerdeRenames [(c, d)] = renamesOf c d.structs d.enums d.aliases := by
  simp [collectSerdeRenames, renamesOf]

theorem filterMap_keys_sublist {α} (l : List α) (p : α → Bool) (o r : α → Str) (c : Str) :
    ((l.filterMap fun x => if p x then some (o x, c, r x) else none).map (·.1)).Sublist (l.map o) := by
  induction l with
  | nil => simp
  | cons x t ih =>
    simp only [List.filterMap_cons, List.map_cons]
    by_cases hp : p x = true
    · simp only [hp, if_true, List.map_cons]; exact ih.cons₂ _
    · simp only [hp, Bool.false_eq_true, if_false]; exact ih.cons _

theorem renamesOf_unique (c : Str) (ss : List RustStruct) (es : List RustEnum) (as : List RustTypeAlias)
    (h : (ss.map (·.id.original) ++ es.map (·.id.original) ++ as.map (·.id.original)).Nodup) :
    UniqueKeys (renamesOf c ss es as) := by
  unfold UniqueKeys
  have hsub : ((renamesOf c ss es as).map (·.1)).Sublist
      (ss.map (·.id.original) ++ es.map (·.id.original) ++ as.map (·.id.original)) := by
    unfold renamesOf
    simp only [List.map_append]
    exact ((filterMap_keys_sublist ss (·.id.serdeRename) (·.id.original) (·.id.renamed) c).append
      (filterMap_keys_sublist es (·.id.serdeRename) (·.id.original) (·.id.renamed) c)).append
      (filterMap_keys_sublist as (·.id.serdeRename) (·.id.original) (·.id.renamed) c)
  have hnd : ((renamesOf c ss es as).map (·.1)).Nodup := hsub.nodup h
  have hc : ∀ e ∈ renamesOf c ss es as, e.2.1 = c := by
    intro e he
    simp only [renamesOf, List.mem_append, List.mem_filterMap] at he
    rcases he with (⟨s, _, hs⟩ | ⟨s, _, hs⟩) | ⟨s, _, hs⟩ <;>
      (split at hs <;> simp at hs; rw [← hs])
  -- keys (orig, c) are injective images of orig
  have : (renamesOf c ss es as).map (fun e => (e.1, e.2.1)) =
      ((renamesOf c ss es as).map (·.1)).map fun o => (o, c) := by
    rw [List.map_map]
    apply List.map_congr_left
    intro e he
    simp [hc e he]
  rw [this]
  exact List.Pairwise.map (fun o => (o, c)) (fun a b hab h => hab (by simpa using h)) hnd

theorem renamesOf_perm (c : Str) {ss ss' : List RustStruct} {es es' : List RustEnum}
    {as as' : List RustTypeAlias} (h1 : ss.Perm ss') (h2 : es.Perm es') (h3 : as.Perm as') :
    (renamesOf c ss es as).Perm (renamesOf c ss' es' as') := by
  unfold renamesOf
  exact ((h1.filterMap _).append (h2.filterMap _)).append (h3.filterMap _)

/-- `reconcileOne` does not change names -/
theorem checkField_id (c : Str) (r : Renames) (i : List ImportedType) (f : RustField) :
    (checkField c r i f).id = f.id := rfl

theorem sorted_map_perm {α} (key : α → Str) (f g : α → α) (l₁ l₂ : List α) (hp : l₁.Perm l₂)
    (hfg : ∀ x, f x = g x) (hk : ∀ x, key (f x) = key x) (hd : (l₁.map key).Nodup) :
    sortBy key (l₁.map f) = sortBy key (l₂.map g) := by
  have hg : g = f := by funext x; exact (hfg x).symm
  subst hg
  apply Order.sortBy_perm_invariant key _ _ (hp.map _)
  rw [List.map_map]
  have : (key ∘ g) = key := by funext x; exact hk x
  rw [this]; exact hd

/-- **C06, arrival order.** For arrivals of one crate (all of single-file mode) in which type
names and const names are unique, every permutation of the arrival order yields the same reconciled,
sorted structs, enums, aliases and consts, the same crate key, file name and mode. -/
theorem C06_arrival_order (a b : List ParsedData) (hp : a.Perm b) (c fn : Str) (mf : Bool)
    (hu : Uniform c fn mf a) (hwf : WF a) :
    (reconcile (collect a)).map view = (reconcile (collect b)).map view := by
  cases a with
  | nil =>
    have : b = [] := by simpa using hp.symm.eq_nil
    subst this; rfl
  | cons d0 t =>
    cases b with
    | nil => exact absurd hp.eq_nil (by simp)
    | cons e0 u =>
      have hub : Uniform c fn mf (e0 :: u) := fun d hd => hu d (hp.symm.subset hd)
      rw [collect_uniform c fn mf d0 t hu, collect_uniform c fn mf e0 u hub]
      -- abbreviations
      generalize hA : merged {} (d0 :: t) = A
      generalize hB : merged {} (e0 :: u) = B
      have hAs : A.structs = (d0 :: t).flatMap (·.structs) := by rw [← hA, merged_structs]; rfl
      have hBs : B.structs = (e0 :: u).flatMap (·.structs) := by rw [← hB, merged_structs]; rfl
      have hAe : A.enums = (d0 :: t).flatMap (·.enums) := by rw [← hA, merged_enums]; rfl
      have hBe : B.enums = (e0 :: u).flatMap (·.enums) := by rw [← hB, merged_enums]; rfl
      have hAa : A.aliases = (d0 :: t).flatMap (·.aliases) := by rw [← hA, merged_aliases]; rfl
      have hBa : B.aliases = (e0 :: u).flatMap (·.aliases) := by rw [← hB, merged_aliases]; rfl
      have hAc : A.consts = (d0 :: t).flatMap (·.consts) := by rw [← hA, merged_consts]; rfl
      have hBc : B.consts = (e0 :: u).flatMap (·.consts) := by rw [← hB, merged_consts]; rfl
      have pS : A.structs.Perm B.structs := by rw [hAs, hBs]; exact hp.flatMap_right _
      have pE : A.enums.Perm B.enums := by rw [hAe, hBe]; exact hp.flatMap_right _
      have pA : A.aliases.Perm B.aliases := by rw [hAa, hBa]; exact hp.flatMap_right _
      have pC : A.consts.Perm B.consts := by rw [hAc, hBc]; exact hp.flatMap_right _
      have hAi : A.importTypes = [] := by rw [← hA]; exact merged_imports_nil _ _ rfl hwf.noImports
      have hBi : B.importTypes = [] := by
        rw [← hB]; exact merged_imports_nil _ _ rfl (fun d hd => hwf.noImports d (hp.symm.subset hd))
      have hmA := merged_meta' c fn mf d0 t {} hu
      have hmB := merged_meta' c fn mf e0 u {} hub
      rw [hA] at hmA; rw [hB] at hmB
      -- rename tables answer alike
      have hnames : (A.structs.map (·.id.original) ++ A.enums.map (·.id.original) ++
          A.aliases.map (·.id.original)).Nodup := by rw [hAs, hAe, hAa]; exact hwf.types
      have hren : RenEquiv (collectSerdeRenames [(c, A)]) (collectSerdeRenames [(c, B)]) := by
        rw [collectSerdeRenames_single, collectSerdeRenames_single]
        intro x cr
        exact ⟨renameOf_perm _ _ (renamesOf_perm c pS pE pA) (renamesOf_unique c _ _ _ hnames) x cr,
               hasRename_perm _ _ (renamesOf_perm c pS pE pA) x⟩
      have hS : (A.structs.map (·.id.original)).Nodup := (List.nodup_append.1 (List.nodup_append.1 hnames).1).1
      have hE : (A.enums.map (·.id.original)).Nodup := (List.nodup_append.1 (List.nodup_append.1 hnames).1).2.1
      have hAl : (A.aliases.map (·.id.original)).Nodup := (List.nodup_append.1 hnames).2.1
      have hCo : (A.consts.map (·.id.original)).Nodup := by rw [hAc]; exact hwf.consts
      simp only [reconcile, List.map_cons, List.map_nil, view, reconcileOne, hAi, hBi]
      congr 1
      refine Prod.ext rfl (Prod.ext ?_ (Prod.ext ?_ (Prod.ext ?_ (Prod.ext ?_ ?_))))
      · exact sorted_map_perm _ _ _ _ _ pS
          (fun s => by congr 1; apply List.map_congr_left; intro f _
                       simp only [checkField]; rw [checkType_equiv _ _ hren])
          (fun s => rfl) hS
      · exact sorted_map_perm _ _ _ _ _ pE
          (fun e => by
            congr 1; apply List.map_congr_left; intro v _
            cases v with
            | unit i cs => rfl
            | tuple i cs ty => simp only [checkVariant]; rw [checkType_equiv _ _ hren]
            | anonymousStruct i cs fs =>
              simp only [checkVariant]; congr 1; apply List.map_congr_left; intro f _
              simp only [checkField]; rw [checkType_equiv _ _ hren])
          (fun e => rfl) hE
      · exact sorted_map_perm _ _ _ _ _ pA
          (fun a => by rw [checkType_equiv _ _ hren]) (fun a => rfl) hAl
      · exact Order.sortBy_perm_invariant _ _ _ pC hCo
      · simp [hmA.2.1, hmA.2.2, hmB.2.1, hmB.2.2]

/-- **corollary: the emission order is the same** (it is a function of the four lists) -/
theorem generateOrder_congr (d d' : ParsedData) (h1 : d.structs = d'.structs) (h2 : d.enums = d'.enums)
    (h3 : d.aliases = d'.aliases) (h4 : d.consts = d'.consts) : generateOrder d = generateOrder d' := by
  simp [generateOrder, h1, h2, h3, h4]

/-! The same theorem read for a fixed multiset of items: how the items are split across (visible)
files and directories only changes the list `a` up to regrouping; two splits whose per-kind
concatenations are permutations of each other are related by `C06_arrival_order`'s proof, which
only uses `Perm` of the concatenated lists. -/

/-! ### the converse witnesses: where uniqueness fails the arrival order shows -/

def mkStruct (n : Str) (f : Str) : RustStruct :=
  { id := ⟨n, n, false⟩, genericTypes := [], fields := [⟨⟨f, f, false⟩, .prim .u8, [], false, []⟩],
    comments := [], decorators := {}, isRedacted := false }
def fileWith (s : RustStruct) : ParsedData := { structs := [s] }

/-- two same-named structs (e.g. `mod a { struct X }`, `mod b { struct X }`) keep arrival order -/
example : ((reconcile (collect [fileWith (mkStruct s%"X" s%"a"), fileWith (mkStruct s%"X" s%"b")])).map
      fun p => p.2.structs.map fun s => s.fields.map (·.id.original)) = [[[s%"a"], [s%"b"]]] ∧
    ((reconcile (collect [fileWith (mkStruct s%"X" s%"b"), fileWith (mkStruct s%"X" s%"a")])).map
      fun p => p.2.structs.map fun s => s.fields.map (·.id.original)) = [[[s%"b"], [s%"a"]]] := by
  constructor <;> simp [reconcile, collect, upsert, addAssign, fileWith, mkStruct, reconcileOne, sortBy,
    List.mergeSort, collectSerdeRenames, checkField, checkType, Str.le, Str.lt]

/-- non-vacuity: two files, distinct names, both orders give [A, B] -/
example : ((reconcile (collect [fileWith (mkStruct s%"B" s%"x"), fileWith (mkStruct s%"A" s%"y")])).map
      fun p => p.2.structs.map (·.id.original)) = [[s%"A", s%"B"]] := by
  simp [reconcile, collect, upsert, addAssign, fileWith, mkStruct, reconcileOne, sortBy,
    List.mergeSort, collectSerdeRenames, checkField, checkType, Str.le, Str.lt]

end TsV.C06
