import TsV.Lemmas.C06_Multi_List
/-!
# `used_imports` builds a sorted map of sorted sets; the result is the *union* of the imports' contributions

`ScopedCrateTypes` models `BTreeMap<&CrateName, BTreeSet<&str>>`.  A well-formed value (`WFS`: keys strictly
increasing, every value strictly increasing) is determined by its key set and its membership relation
(`wfs_ext`).  `scopedInsert · · · true` and `scopedEnsure` preserve well-formedness and act on keys / members
as set insertion, so the fold in `Pipeline.usedImports` computes a union, which does not depend on the order of
the import list.
-/
namespace TsV.C06M
open TsV TsV.Pipeline

/-! ### sorted insertion -/

theorem mem_insertSorted (x t : Str) : ∀ v : List Str, x ∈ Parser.insertSorted Str.lt t v ↔ x = t ∨ x ∈ v
  | [] => by simp [Parser.insertSorted]
  | y :: ys => by
    unfold Parser.insertSorted
    by_cases h1 : Str.lt t y = true
    · simp [h1]
    · simp only [h1, Bool.false_eq_true, if_false]
      by_cases h2 : Str.lt y t = true
      · simp only [h2, if_true, List.mem_cons, mem_insertSorted x t ys]
        constructor
        · rintro (h | h | h)
          · exact Or.inr (Or.inl h)
          · exact Or.inl h
          · exact Or.inr (Or.inr h)
        · rintro (h | h | h)
          · exact Or.inr (Or.inl h)
          · exact Or.inl h
          · exact Or.inr (Or.inr h)
      · simp only [h2, Bool.false_eq_true, if_false, List.mem_cons]
        have : t = y := Order.eq_of_not_lt _ _ (by simpa using h1) (by simpa using h2)
        subst this
        constructor
        · rintro (h | h)
          · exact Or.inl h
          · exact Or.inr (Or.inr h)
        · rintro (h | h | h)
          · exact Or.inl h
          · exact Or.inl h
          · exact Or.inr h

theorem insertSorted_sorted (t : Str) : ∀ v : List Str, SSorted v → SSorted (Parser.insertSorted Str.lt t v)
  | [], _ => by simp [Parser.insertSorted, SSorted]
  | y :: ys, h => by
    unfold Parser.insertSorted
    have hy := List.pairwise_cons.1 h
    by_cases h1 : Str.lt t y = true
    · simp only [h1, if_true]
      refine List.pairwise_cons.2 ⟨?_, h⟩
      intro a ha
      simp only [List.mem_cons] at ha
      rcases ha with rfl | ha
      · exact h1
      · exact Order.lt_trans _ _ _ h1 (hy.1 a ha)
    · simp only [h1, Bool.false_eq_true, if_false]
      by_cases h2 : Str.lt y t = true
      · simp only [h2, if_true]
        refine List.pairwise_cons.2 ⟨?_, insertSorted_sorted t ys hy.2⟩
        intro a ha
        rcases (mem_insertSorted a t ys).1 ha with rfl | ha
        · exact h2
        · exact hy.1 a ha
      · simp only [h2, Bool.false_eq_true, if_false]; exact h

/-! ### keys, members, well-formedness -/

def SKeys (m : ScopedCrateTypes) : List Str := m.map (·.1)

/-- `t` is in the set stored under crate `c` -/
def SMem (m : ScopedCrateTypes) (c t : Str) : Prop := ∃ v, (c, v) ∈ m ∧ t ∈ v

structure WFS (m : ScopedCrateTypes) : Prop where
  keys : SSorted (SKeys m)
  vals : ∀ p ∈ m, SSorted p.2

theorem wfs_nil : WFS [] := ⟨by simp [SKeys, SSorted], by simp⟩

theorem smem_nil (c t : Str) : ¬ SMem [] c t := by simp [SMem]

theorem smem_cons (k : Str) (v : List Str) (rest : ScopedCrateTypes) (c t : Str) :
    SMem ((k, v) :: rest) c t ↔ (c = k ∧ t ∈ v) ∨ SMem rest c t := by
  unfold SMem
  constructor
  · rintro ⟨w, hw, ht⟩
    simp only [List.mem_cons, Prod.mk.injEq] at hw
    rcases hw with ⟨rfl, rfl⟩ | hw
    · exact Or.inl ⟨rfl, ht⟩
    · exact Or.inr ⟨w, hw, ht⟩
  · rintro (⟨rfl, ht⟩ | ⟨w, hw, ht⟩)
    · exact ⟨v, by simp, ht⟩
    · exact ⟨w, by simp [hw], ht⟩

theorem wfs_tail {p : Str × List Str} {m : ScopedCrateTypes} (h : WFS (p :: m)) : WFS m :=
  ⟨(List.pairwise_cons.1 h.keys).2, fun q hq => h.vals q (by simp [hq])⟩

/-- **extensionality**: a well-formed scoped map is determined by its keys and members -/
theorem wfs_ext : ∀ {m m' : ScopedCrateTypes}, WFS m → WFS m' → (∀ c, c ∈ SKeys m ↔ c ∈ SKeys m') →
    (∀ c t, SMem m c t ↔ SMem m' c t) → m = m' := by
  intro m m' h h' hk hm
  have hkeys : SKeys m = SKeys m' := ssorted_ext h.keys h'.keys hk
  clear hk
  induction m generalizing m' with
  | nil =>
    cases m' with
    | nil => rfl
    | cons _ _ => simp [SKeys] at hkeys
  | cons p t ih =>
    cases m' with
    | nil => simp [SKeys] at hkeys
    | cons p' t' =>
      obtain ⟨k, v⟩ := p
      obtain ⟨k', v'⟩ := p'
      simp only [SKeys, List.map_cons, List.cons.injEq] at hkeys
      obtain ⟨hk1, hk2⟩ := hkeys
      subst hk1
      have hkt : ∀ q ∈ t, Str.lt k q.1 = true := fun q hq =>
        (List.pairwise_cons.1 h.keys).1 q.1 (List.mem_map.2 ⟨q, hq, rfl⟩)
      have hkt' : ∀ q ∈ t', Str.lt k q.1 = true := fun q hq =>
        (List.pairwise_cons.1 h'.keys).1 q.1 (List.mem_map.2 ⟨q, hq, rfl⟩)
      have notin : ∀ (u : ScopedCrateTypes), (∀ q ∈ u, Str.lt k q.1 = true) → ∀ x, ¬ SMem u k x := by
        rintro u hu x ⟨w, hw, _⟩
        have := hu _ hw
        rw [Order.lt_irrefl] at this
        exact absurd this (by simp)
      have hv : v = v' := by
        apply ssorted_ext (h.vals (k, v) (by simp)) (h'.vals (k, v') (by simp))
        intro x
        have := hm k x
        rw [smem_cons, smem_cons] at this
        constructor
        · intro hx
          rcases this.1 (Or.inl ⟨rfl, hx⟩) with h1 | h1
          · exact h1.2
          · exact absurd h1 (notin t' hkt' x)
        · intro hx
          rcases this.2 (Or.inl ⟨rfl, hx⟩) with h1 | h1
          · exact h1.2
          · exact absurd h1 (notin t hkt x)
      subst hv
      have htt : t = t' := by
        apply ih (wfs_tail h) (wfs_tail h') _ hk2
        intro c x
        have := hm c x
        rw [smem_cons, smem_cons] at this
        constructor
        · intro hx
          rcases this.1 (Or.inr hx) with h1 | h1
          · obtain ⟨rfl, _⟩ := h1
            exact absurd hx (notin t hkt x)
          · exact h1
        · intro hx
          rcases this.2 (Or.inr hx) with h1 | h1
          · obtain ⟨rfl, _⟩ := h1
            exact absurd hx (notin t' hkt' x)
          · exact h1
      rw [htt]

/-! ### `scopedInsert · · · true` -/

theorem scopedInsert_keys (c t c' : Str) : ∀ m : ScopedCrateTypes,
    c' ∈ SKeys (scopedInsert m c t true) ↔ c' = c ∨ c' ∈ SKeys m
  | [] => by simp [scopedInsert, SKeys]
  | (k, v) :: rest => by
    unfold scopedInsert
    by_cases h1 : (k == c) = true
    · have : k = c := eq_of_beq h1
      subst this
      simp only [beq_self_eq_true, if_true, SKeys, List.map_cons, List.mem_cons]
      constructor
      · rintro (h | h)
        · exact Or.inl h
        · exact Or.inr (Or.inr h)
      · rintro (h | h | h)
        · exact Or.inl h
        · exact Or.inl h
        · exact Or.inr h
    · simp only [h1, Bool.false_eq_true, if_false]
      by_cases h2 : Str.lt c k = true
      · simp [h2, SKeys]
      · have ih := scopedInsert_keys c t c' rest
        simp only [SKeys] at ih
        simp only [h2, Bool.false_eq_true, if_false, SKeys, List.map_cons, List.mem_cons, ih]
        constructor
        · rintro (h | h | h)
          · exact Or.inr (Or.inl h)
          · exact Or.inl h
          · exact Or.inr (Or.inr h)
        · rintro (h | h | h)
          · exact Or.inr (Or.inl h)
          · exact Or.inl h
          · exact Or.inr (Or.inr h)

theorem scopedInsert_mem (c t c' t' : Str) : ∀ m : ScopedCrateTypes,
    SMem (scopedInsert m c t true) c' t' ↔ (c' = c ∧ t' = t) ∨ SMem m c' t'
  | [] => by
    simp [scopedInsert, smem_cons, smem_nil]
  | (k, v) :: rest => by
    unfold scopedInsert
    by_cases h1 : (k == c) = true
    · have : k = c := eq_of_beq h1
      subst this
      simp only [beq_self_eq_true, if_true, smem_cons, mem_insertSorted]
      constructor
      · rintro (⟨h, h' | h'⟩ | h)
        · exact Or.inl ⟨h, h'⟩
        · exact Or.inr (Or.inl ⟨h, h'⟩)
        · exact Or.inr (Or.inr h)
      · rintro (⟨h, h'⟩ | ⟨h, h'⟩ | h)
        · exact Or.inl ⟨h, Or.inl h'⟩
        · exact Or.inl ⟨h, Or.inr h'⟩
        · exact Or.inr h
    · simp only [h1, Bool.false_eq_true, if_false]
      by_cases h2 : Str.lt c k = true
      · simp only [h2, if_true, smem_cons, List.mem_singleton]
      · simp only [h2, Bool.false_eq_true, if_false, smem_cons, scopedInsert_mem c t c' t' rest]
        constructor
        · rintro (h | h | h)
          · exact Or.inr (Or.inl h)
          · exact Or.inl h
          · exact Or.inr (Or.inr h)
        · rintro (h | h | h)
          · exact Or.inr (Or.inl h)
          · exact Or.inl h
          · exact Or.inr (Or.inr h)

theorem scopedInsert_wfs (c t : Str) : ∀ m : ScopedCrateTypes, WFS m → WFS (scopedInsert m c t true)
  | [], _ => by
    simp only [scopedInsert, if_true]
    exact ⟨by simp [SKeys, SSorted], by simp [SSorted]⟩
  | (k, v) :: rest, h => by
    have hk := List.pairwise_cons.1 h.keys
    by_cases h1 : (k == c) = true
    · have : k = c := eq_of_beq h1
      subst this
      have e : scopedInsert ((k, v) :: rest) k t true = (k, Parser.insertSorted Str.lt t v) :: rest := by
        simp [scopedInsert]
      rw [e]
      refine ⟨h.keys, ?_⟩
      intro p hp
      simp only [List.mem_cons] at hp
      rcases hp with rfl | hp
      · exact insertSorted_sorted t v (h.vals (k, v) (by simp))
      · exact h.vals p (by simp [hp])
    · by_cases h2 : Str.lt c k = true
      · have e : scopedInsert ((k, v) :: rest) c t true = (c, [t]) :: (k, v) :: rest := by
          simp [scopedInsert, h1, h2]
        rw [e]
        refine ⟨?_, ?_⟩
        · refine List.pairwise_cons.2 ⟨?_, h.keys⟩
          intro a ha
          simp only [List.map_cons, List.mem_cons] at ha
          rcases ha with rfl | ha
          · exact h2
          · exact Order.lt_trans _ _ _ h2 (hk.1 a ha)
        · intro p hp
          simp only [List.mem_cons] at hp
          rcases hp with rfl | hp
          · simp [SSorted]
          · exact h.vals p (by simpa using hp)
      · have e : scopedInsert ((k, v) :: rest) c t true = (k, v) :: scopedInsert rest c t true := by
          simp [scopedInsert, h1, h2]
        rw [e]
        have ih := scopedInsert_wfs c t rest (wfs_tail h)
        have hkc : Str.lt k c = true := lt_of_ne_of_not_lt (by simpa using h1) (by simpa using h2)
        refine ⟨?_, ?_⟩
        · refine List.pairwise_cons.2 ⟨?_, ih.keys⟩
          intro a ha
          rcases (scopedInsert_keys c t a rest).1 ha with rfl | ha
          · exact hkc
          · exact hk.1 a ha
        · intro p hp
          simp only [List.mem_cons] at hp
          rcases hp with rfl | hp
          · exact h.vals (k, v) (by simp)
          · exact ih.vals p hp

/-! ### `scopedEnsure` -/

theorem scopedEnsure_keys (c c' : Str) : ∀ m : ScopedCrateTypes,
    c' ∈ SKeys (scopedEnsure m c) ↔ c' = c ∨ c' ∈ SKeys m
  | [] => by simp [scopedEnsure, SKeys]
  | (k, v) :: rest => by
    unfold scopedEnsure
    by_cases h1 : (k == c) = true
    · have : k = c := eq_of_beq h1
      subst this
      simp only [beq_self_eq_true, if_true, SKeys, List.map_cons, List.mem_cons]
      constructor
      · intro h; exact Or.inr h
      · rintro (h | h)
        · exact Or.inl h
        · exact h
    · simp only [h1, Bool.false_eq_true, if_false]
      by_cases h2 : Str.lt c k = true
      · simp [h2, SKeys]
      · have ih := scopedEnsure_keys c c' rest
        simp only [SKeys] at ih
        simp only [h2, Bool.false_eq_true, if_false, SKeys, List.map_cons, List.mem_cons, ih]
        constructor
        · rintro (h | h | h)
          · exact Or.inr (Or.inl h)
          · exact Or.inl h
          · exact Or.inr (Or.inr h)
        · rintro (h | h | h)
          · exact Or.inr (Or.inl h)
          · exact Or.inl h
          · exact Or.inr (Or.inr h)

theorem scopedEnsure_mem (c c' t' : Str) : ∀ m : ScopedCrateTypes,
    SMem (scopedEnsure m c) c' t' ↔ SMem m c' t'
  | [] => by
    simp only [scopedEnsure, smem_cons, List.not_mem_nil, and_false, false_or]
  | (k, v) :: rest => by
    unfold scopedEnsure
    by_cases h1 : (k == c) = true
    · simp only [h1, if_true]
    · simp only [h1, Bool.false_eq_true, if_false]
      by_cases h2 : Str.lt c k = true
      · simp only [h2, if_true, smem_cons (c), List.not_mem_nil, and_false, false_or]
      · simp only [h2, Bool.false_eq_true, if_false, smem_cons, scopedEnsure_mem c c' t' rest]

theorem scopedEnsure_wfs (c : Str) : ∀ m : ScopedCrateTypes, WFS m → WFS (scopedEnsure m c)
  | [], _ => by
    simp only [scopedEnsure]
    exact ⟨by simp [SKeys, SSorted], by simp [SSorted]⟩
  | (k, v) :: rest, h => by
    have hk := List.pairwise_cons.1 h.keys
    by_cases h1 : (k == c) = true
    · have e : scopedEnsure ((k, v) :: rest) c = (k, v) :: rest := by simp [scopedEnsure, h1]
      rw [e]; exact h
    · by_cases h2 : Str.lt c k = true
      · have e : scopedEnsure ((k, v) :: rest) c = (c, []) :: (k, v) :: rest := by
          simp [scopedEnsure, h1, h2]
        rw [e]
        refine ⟨?_, ?_⟩
        · refine List.pairwise_cons.2 ⟨?_, h.keys⟩
          intro a ha
          simp only [List.map_cons, List.mem_cons] at ha
          rcases ha with rfl | ha
          · exact h2
          · exact Order.lt_trans _ _ _ h2 (hk.1 a ha)
        · intro p hp
          simp only [List.mem_cons] at hp
          rcases hp with rfl | hp
          · simp [SSorted]
          · exact h.vals p (by simpa using hp)
      · have e : scopedEnsure ((k, v) :: rest) c = (k, v) :: scopedEnsure rest c := by
          simp [scopedEnsure, h1, h2]
        rw [e]
        have ih := scopedEnsure_wfs c rest (wfs_tail h)
        have hkc : Str.lt k c = true := lt_of_ne_of_not_lt (by simpa using h1) (by simpa using h2)
        refine ⟨?_, ?_⟩
        · refine List.pairwise_cons.2 ⟨?_, ih.keys⟩
          intro a ha
          rcases (scopedEnsure_keys c a rest).1 ha with rfl | ha
          · exact hkc
          · exact hk.1 a ha
        · intro p hp
          simp only [List.mem_cons] at hp
          rcases hp with rfl | hp
          · exact h.vals (k, v) (by simp)
          · exact ih.vals p hp

/-- `entry(c).or_default()` followed by an insertion is the insertion -/
theorem scopedInsert_ensure (c t : Str) : ∀ m : ScopedCrateTypes,
    scopedInsert (scopedEnsure m c) c t true = scopedInsert m c t true
  | [] => by simp [scopedEnsure, scopedInsert, Parser.insertSorted]
  | (k, v) :: rest => by
    by_cases h1 : (k == c) = true
    · simp [scopedEnsure, h1]
    · by_cases h2 : Str.lt c k = true
      · simp [scopedEnsure, scopedInsert, h1, h2, Parser.insertSorted]
      · simp [scopedEnsure, scopedInsert, h1, h2, scopedInsert_ensure c t rest]

/-! ### one contribution: make sure crate `c` has an entry and add the names `ns` to it -/

def applyC (m : ScopedCrateTypes) (x : Str × List Str) : ScopedCrateTypes :=
  x.2.foldl (fun m n => scopedInsert m x.1 n true) (scopedEnsure m x.1)

def applyOpt (m : ScopedCrateTypes) : Option (Str × List Str) → ScopedCrateTypes
  | none => m
  | some x => applyC m x

theorem insFold_keys (c c' : Str) : ∀ (ns : List Str) (m : ScopedCrateTypes), c ∈ SKeys m →
    (c' ∈ SKeys (ns.foldl (fun m n => scopedInsert m c n true) m) ↔ c' ∈ SKeys m)
  | [], _, _ => Iff.rfl
  | n :: ns, m, hc => by
    simp only [List.foldl_cons]
    rw [insFold_keys c c' ns _ ((scopedInsert_keys c n c m).2 (Or.inl rfl)), scopedInsert_keys]
    constructor
    · rintro (rfl | h)
      · exact hc
      · exact h
    · exact Or.inr

theorem insFold_mem (c c' t' : Str) : ∀ (ns : List Str) (m : ScopedCrateTypes),
    SMem (ns.foldl (fun m n => scopedInsert m c n true) m) c' t' ↔ (c' = c ∧ t' ∈ ns) ∨ SMem m c' t'
  | [], _ => by simp
  | n :: ns, m => by
    simp only [List.foldl_cons, List.mem_cons]
    rw [insFold_mem c c' t' ns, scopedInsert_mem]
    constructor
    · rintro (⟨h, h'⟩ | ⟨h, h'⟩ | h)
      · exact Or.inl ⟨h, Or.inr h'⟩
      · exact Or.inl ⟨h, Or.inl h'⟩
      · exact Or.inr h
    · rintro (⟨h, h' | h'⟩ | h)
      · exact Or.inr (Or.inl ⟨h, h'⟩)
      · exact Or.inl ⟨h, h'⟩
      · exact Or.inr (Or.inr h)

theorem insFold_wfs (c : Str) : ∀ (ns : List Str) (m : ScopedCrateTypes), WFS m →
    WFS (ns.foldl (fun m n => scopedInsert m c n true) m)
  | [], _, h => h
  | n :: ns, m, h => insFold_wfs c ns _ (scopedInsert_wfs c n m h)

theorem applyC_keys (m : ScopedCrateTypes) (x : Str × List Str) (c' : Str) :
    c' ∈ SKeys (applyC m x) ↔ c' = x.1 ∨ c' ∈ SKeys m := by
  unfold applyC
  rw [insFold_keys x.1 c' x.2 _ ((scopedEnsure_keys x.1 x.1 m).2 (Or.inl rfl)), scopedEnsure_keys]

theorem applyC_mem (m : ScopedCrateTypes) (x : Str × List Str) (c' t' : Str) :
    SMem (applyC m x) c' t' ↔ (c' = x.1 ∧ t' ∈ x.2) ∨ SMem m c' t' := by
  unfold applyC
  rw [insFold_mem, scopedEnsure_mem]

theorem applyC_wfs (m : ScopedCrateTypes) (x : Str × List Str) (h : WFS m) : WFS (applyC m x) :=
  insFold_wfs x.1 x.2 _ (scopedEnsure_wfs x.1 m h)

theorem applyOpt_keys (m : ScopedCrateTypes) (o : Option (Str × List Str)) (c' : Str) :
    c' ∈ SKeys (applyOpt m o) ↔ (∃ x, o = some x ∧ c' = x.1) ∨ c' ∈ SKeys m := by
  cases o with
  | none => simp [applyOpt]
  | some x => simp [applyOpt, applyC_keys]

theorem applyOpt_mem (m : ScopedCrateTypes) (o : Option (Str × List Str)) (c' t' : Str) :
    SMem (applyOpt m o) c' t' ↔ (∃ x, o = some x ∧ c' = x.1 ∧ t' ∈ x.2) ∨ SMem m c' t' := by
  cases o with
  | none => simp [applyOpt]
  | some x => simp [applyOpt, applyC_mem]

theorem applyOpt_wfs (m : ScopedCrateTypes) (o : Option (Str × List Str)) (h : WFS m) : WFS (applyOpt m o) := by
  cases o with
  | none => exact h
  | some x => exact applyC_wfs m x h

/-! ### the fold over contributions computes a union -/

theorem foldC_keys {ι} (con : ι → Option (Str × List Str)) (c' : Str) : ∀ (l : List ι) (m : ScopedCrateTypes),
    c' ∈ SKeys (l.foldl (fun m i => applyOpt m (con i)) m) ↔
      (∃ i ∈ l, ∃ x, con i = some x ∧ c' = x.1) ∨ c' ∈ SKeys m
  | [], _ => by simp
  | i :: l, m => by
    simp only [List.foldl_cons]
    rw [foldC_keys con c' l, applyOpt_keys]
    constructor
    · rintro (⟨j, hj, h⟩ | h | h)
      · exact Or.inl ⟨j, by simp [hj], h⟩
      · exact Or.inl ⟨i, by simp, h⟩
      · exact Or.inr h
    · rintro (⟨j, hj, h⟩ | h)
      · simp only [List.mem_cons] at hj
        rcases hj with rfl | hj
        · exact Or.inr (Or.inl h)
        · exact Or.inl ⟨j, hj, h⟩
      · exact Or.inr (Or.inr h)

theorem foldC_mem {ι} (con : ι → Option (Str × List Str)) (c' t' : Str) : ∀ (l : List ι) (m : ScopedCrateTypes),
    SMem (l.foldl (fun m i => applyOpt m (con i)) m) c' t' ↔
      (∃ i ∈ l, ∃ x, con i = some x ∧ c' = x.1 ∧ t' ∈ x.2) ∨ SMem m c' t'
  | [], _ => by simp
  | i :: l, m => by
    simp only [List.foldl_cons]
    rw [foldC_mem con c' t' l, applyOpt_mem]
    constructor
    · rintro (⟨j, hj, h⟩ | h | h)
      · exact Or.inl ⟨j, by simp [hj], h⟩
      · exact Or.inl ⟨i, by simp, h⟩
      · exact Or.inr h
    · rintro (⟨j, hj, h⟩ | h)
      · simp only [List.mem_cons] at hj
        rcases hj with rfl | hj
        · exact Or.inr (Or.inl h)
        · exact Or.inl ⟨j, hj, h⟩
      · exact Or.inr (Or.inr h)

theorem foldC_wfs {ι} (con : ι → Option (Str × List Str)) : ∀ (l : List ι) (m : ScopedCrateTypes), WFS m →
    WFS (l.foldl (fun m i => applyOpt m (con i)) m)
  | [], _, h => h
  | i :: l, m, h => foldC_wfs con l _ (applyOpt_wfs m (con i) h)

/-- two contributions that add the same thing -/
def ContribEq : Option (Str × List Str) → Option (Str × List Str) → Prop
  | none, none => True
  | some x, some y => x.1 = y.1 ∧ ∀ t, t ∈ x.2 ↔ t ∈ y.2
  | _, _ => False

theorem ContribEq.some_left {o o' : Option (Str × List Str)} (h : ContribEq o o') {x} (hx : o = some x) :
    ∃ y, o' = some y ∧ x.1 = y.1 ∧ ∀ t, t ∈ x.2 ↔ t ∈ y.2 := by
  subst hx
  cases o' with
  | none => exact h.elim
  | some y => exact ⟨y, rfl, h⟩

theorem ContribEq.symm {o o' : Option (Str × List Str)} (h : ContribEq o o') : ContribEq o' o := by
  cases o <;> cases o' <;> first | trivial | exact h.elim | exact ⟨h.1.symm, fun t => (h.2 t).symm⟩

/-- **the fold is a function of the set of contributions** -/
theorem foldC_congr {ι} (con con' : ι → Option (Str × List Str)) (l l' : List ι)
    (hl : ∀ i, i ∈ l ↔ i ∈ l') (hc : ∀ i ∈ l, ContribEq (con i) (con' i)) :
    l.foldl (fun m i => applyOpt m (con i)) [] = l'.foldl (fun m i => applyOpt m (con' i)) [] := by
  apply wfs_ext (foldC_wfs con l [] wfs_nil) (foldC_wfs con' l' [] wfs_nil)
  · intro c
    rw [foldC_keys, foldC_keys]
    constructor
    · rintro (⟨i, hi, x, hx, hcx⟩ | h)
      · obtain ⟨y, hy, h1, _⟩ := (hc i hi).some_left hx
        exact Or.inl ⟨i, (hl i).1 hi, y, hy, hcx.trans h1⟩
      · exact Or.inr h
    · rintro (⟨i, hi, x, hx, hcx⟩ | h)
      · obtain ⟨y, hy, h1, _⟩ := (hc i ((hl i).2 hi)).symm.some_left hx
        exact Or.inl ⟨i, (hl i).2 hi, y, hy, hcx.trans h1⟩
      · exact Or.inr h
  · intro c t
    rw [foldC_mem, foldC_mem]
    constructor
    · rintro (⟨i, hi, x, hx, hcx, ht⟩ | h)
      · obtain ⟨y, hy, h1, h2⟩ := (hc i hi).some_left hx
        exact Or.inl ⟨i, (hl i).1 hi, y, hy, hcx.trans h1, (h2 t).1 ht⟩
      · exact Or.inr h
    · rintro (⟨i, hi, x, hx, hcx, ht⟩ | h)
      · obtain ⟨y, hy, h1, h2⟩ := (hc i ((hl i).2 hi)).symm.some_left hx
        exact Or.inl ⟨i, (hl i).2 hi, y, hy, hcx.trans h1, (h2 t).1 ht⟩
      · exact Or.inr h

/-! ### `usedImports` as a fold of contributions -/

/-- what one import adds: the crate whose entry is created and the names put into it -/
def contrib (all : List (Str × List Str)) (fo : Str → Option Str) (imp : ImportedType) : Option (Str × List Str) :=
  match all.find? (·.1 == imp.baseCrate) with
  | some (_, names) =>
    if imp.typeName == s%"*" then some (imp.baseCrate, names)
    else if names.contains imp.typeName then some (imp.baseCrate, [imp.typeName])
    else (fo imp.typeName).map fun c => (c, [imp.typeName])
  | none => (fo imp.typeName).map fun c => (c, [imp.typeName])

theorem applyC_single (m : ScopedCrateTypes) (c n : Str) : applyC m (c, [n]) = scopedInsert m c n true := by
  simp [applyC, scopedInsert_ensure]

theorem usedImports_eq_fold (d : ParsedData) (all : List (Str × List Str)) (imports : List ImportedType)
    (fo : Str → Option Str) :
    usedImports d all imports fo =
      (imports.filter (·.baseCrate != d.crateName)).foldl (fun m i => applyOpt m (contrib all fo i)) [] := by
  unfold usedImports
  dsimp only
  congr 1
  funext m imp
  unfold contrib
  cases h : all.find? (·.1 == imp.baseCrate) with
  | none =>
    simp only
    cases fo imp.typeName with
    | none => rfl
    | some c => simp [applyOpt, applyC_single]
  | some p =>
    obtain ⟨k, names⟩ := p
    simp only
    by_cases h1 : (imp.typeName == s%"*") = true
    · simp only [h1, if_true]; rfl
    · simp only [h1, Bool.false_eq_true, if_false]
      by_cases h2 : names.contains imp.typeName = true
      · simp only [h2, if_true, applyOpt, applyC_single]
      · simp only [h2, Bool.false_eq_true, if_false]
        cases fo imp.typeName with
        | none => rfl
        | some c => simp [applyOpt, applyC_single]

/-- the result of `used_imports` is a sorted map of sorted sets -/
theorem usedImports_wfs (d : ParsedData) (all : List (Str × List Str)) (imports : List ImportedType)
    (fo : Str → Option Str) : WFS (usedImports d all imports fo) := by
  rw [usedImports_eq_fold]; exact foldC_wfs _ _ [] wfs_nil

/-- **`used_imports` depends on the import list only as a set, on `all_types` and the fallback choice
only through the contributions** -/
theorem usedImports_congr (d d' : ParsedData) (hcr : d.crateName = d'.crateName)
    (all all' : List (Str × List Str)) (imps imps' : List ImportedType) (fo fo' : Str → Option Str)
    (hi : ∀ i, i ∈ imps ↔ i ∈ imps')
    (hc : ∀ i ∈ imps, i.baseCrate ≠ d.crateName → ContribEq (contrib all fo i) (contrib all' fo' i)) :
    usedImports d all imps fo = usedImports d' all' imps' fo' := by
  rw [usedImports_eq_fold, usedImports_eq_fold, ← hcr]
  apply foldC_congr
  · intro i; simp only [List.mem_filter, hi i]
  · intro i hi'
    simp only [List.mem_filter, bne_iff_ne, ne_eq] at hi'
    exact hc i hi'.1 hi'.2

/-- hash order of `import_types`: every permutation of the import list gives the same scoped imports -/
theorem usedImports_perm (d : ParsedData) (all : List (Str × List Str)) (imports₁ imports₂ : List ImportedType)
    (fo : Str → Option Str) (hp : imports₁.Perm imports₂) :
    usedImports d all imports₁ fo = usedImports d all imports₂ fo := by
  apply usedImports_congr d d rfl all all imports₁ imports₂ fo fo (fun i => hp.mem_iff)
  intro i _ _
  cases contrib all fo i with
  | none => trivial
  | some x => exact ⟨rfl, fun _ => Iff.rfl⟩

/-! ### dependence on `all_types` (type-name sets) and on the fallback choice -/

/-- same crates in the same order, the same name *sets* -/
def AllRel (all all' : List (Str × List Str)) : Prop :=
  Rel₂ (fun x y => x.1 = y.1 ∧ ∀ t, t ∈ x.2 ↔ t ∈ y.2) all all'

theorem contains_congr {l l' : List Str} (h : ∀ t, t ∈ l ↔ t ∈ l') (x : Str) : l.contains x = l'.contains x := by
  rw [Bool.eq_iff_iff]; simp [h x]

theorem AllRel.find? {bc : Str} : ∀ {all all' : List (Str × List Str)}, AllRel all all' →
    (all.find? (·.1 == bc) = none ∧ all'.find? (·.1 == bc) = none) ∨
    (∃ k ns ns', all.find? (·.1 == bc) = some (k, ns) ∧ all'.find? (·.1 == bc) = some (k, ns') ∧
      ∀ t, t ∈ ns ↔ t ∈ ns')
  | [], [], _ => Or.inl ⟨rfl, rfl⟩
  | (k, ns) :: t, (k', ns') :: t', h => by
    obtain ⟨⟨hk, hn⟩, ht⟩ := h
    simp only at hk hn
    subst hk
    by_cases h1 : (k == bc) = true
    · exact Or.inr ⟨k, ns, ns', by simp [h1], by simp [h1], hn⟩
    · simp only [List.find?_cons, h1]
      exact AllRel.find? ht
  | [], _ :: _, h => h.elim
  | _ :: _, [], h => h.elim

/-- the import does not resolve directly, so the re-export fallback (`firstOther`) is consulted -/
def takesFallback (all : List (Str × List Str)) (imp : ImportedType) : Bool :=
  match all.find? (·.1 == imp.baseCrate) with
  | some (_, names) => !(imp.typeName == s%"*") && !names.contains imp.typeName
  | none => true

theorem contrib_congr (all all' : List (Str × List Str)) (fo fo' : Str → Option Str) (imp : ImportedType)
    (ha : AllRel all all') (hf : takesFallback all imp = true → fo imp.typeName = fo' imp.typeName) :
    ContribEq (contrib all fo imp) (contrib all' fo' imp) := by
  have fb : fo imp.typeName = fo' imp.typeName →
      ContribEq ((fo imp.typeName).map fun c => (c, [imp.typeName]))
        ((fo' imp.typeName).map fun c => (c, [imp.typeName])) := by
    intro h; rw [h]
    cases fo' imp.typeName with
    | none => trivial
    | some c => exact ⟨rfl, fun _ => Iff.rfl⟩
  unfold contrib
  unfold takesFallback at hf
  rcases ha.find? (bc := imp.baseCrate) with ⟨h1, h2⟩ | ⟨k, ns, ns', h1, h2, hn⟩
  · rw [h1] at hf; rw [h1, h2]
    exact fb (hf rfl)
  · rw [h1] at hf; rw [h1, h2]
    simp only at hf ⊢
    by_cases hs : (imp.typeName == s%"*") = true
    · simp only [hs, if_true]; exact ⟨rfl, hn⟩
    · simp only [hs, Bool.false_eq_true, if_false]
      rw [← contains_congr hn]
      by_cases hcn : ns.contains imp.typeName = true
      · simp only [hcn, if_true]; exact ⟨rfl, fun _ => Iff.rfl⟩
      · simp only [hcn, Bool.false_eq_true, if_false]
        exact fb (hf (by rw [Bool.eq_false_iff.2 hs, Bool.eq_false_iff.2 hcn]; rfl))

end TsV.C06M
