import TsV.Model.Parser
import TsV.Model.Topsort
/-!
# Model of the dependency extraction of `core/src/topsort.rs` (`get_dependencies*`, `topsort`)

`types : HashMap<String, &RustItem>` is keyed by original name (a later item with the same name
replaces an earlier one); `seen : HashSet<String>`; `res : Vec<String>`.
-/
namespace TsV.Deps
open TsV

structure DS where
  res : List Str
  seen : List Str    -- a set: no duplicates

def DS.insert (ds : DS) (x : Str) : Bool × DS :=
  if ds.seen.contains x then (false, ds) else (true, { ds with seen := ds.seen ++ [x] })
def DS.remove (ds : DS) (x : Str) : DS := { ds with seen := ds.seen.erase x }
def DS.push (ds : DS) (x : Str) : DS := { ds with res := ds.res ++ [x] }

/-- `types.get(id)`: the last item with that original name -/
def lookup (items : List RustItem) (id : Str) : Option RustItem :=
  (items.reverse.find? fun it => it.originalName == id)

mutual
  /-- `get_dependencies` (dispatch on the item kind) -/
  def depsItem (items : List RustItem) : Nat → RustItem → DS → DS
    | 0, _, ds => ds
    | fuel+1, .enum e, ds =>
      match e.keys with
      | none => ds
      | some _ =>
        let (fresh, ds) := ds.insert e.id.original
        if fresh then
          let ds := e.variants.foldl (fun (ds : DS) v => match v with
            | .tuple _ _ ty => depsType items fuel ty ds
            | .anonymousStruct _ _ fs => fs.foldl (fun (ds : DS) f => depsType items fuel f.ty ds) ds
            | _ => ds) ds
          ds.remove e.id.original
        else ds
    | fuel+1, .struct s, ds =>
      let (fresh, ds) := ds.insert s.id.original
      if fresh then
        let ds := s.fields.foldl (fun (ds : DS) f => depsType items fuel f.ty ds) ds
        ds.remove s.id.original
      else ds
    | fuel+1, .alias a, ds =>
      let (fresh, ds) := ds.insert a.id.original
      if fresh then
        let ds := depsType items fuel a.ty ds
        let ds := a.genericTypes.foldl (fun (ds : DS) g => match lookup items g with
          | some thing => depsItem items fuel thing ds
          | none => ds) ds
        ds.remove a.id.original
      else ds
    | fuel+1, .const c, ds =>
      let (fresh, ds) := ds.insert c.id.original
      if fresh then
        let ds := depsType items fuel c.ty ds
        ds.remove c.id.original
      else ds
  /-- `get_dependencies_from_type` -/
  def depsType (items : List RustItem) : Nat → RustType → DS → DS
    | 0, _, ds => ds
    | fuel+1, tp, ds =>
      let ds := match tp with
        | .generic id params =>
          let ds := (match lookup items id with
          | some thing =>
            let (fresh, ds) := ds.insert id
            if fresh then
              let ds := ds.push id
              let ds := depsItem items fuel thing ds
              ds.remove id
            else ds
          | none => ds)
          params.foldl (fun (ds : DS) (p : RustType) => depsType items fuel p ds) ds
        | .simple id =>
          (match lookup items id with
          | some thing =>
            let (fresh, ds) := ds.insert id
            if fresh then
              let ds := ds.push id
              let ds := depsItem items fuel thing ds
              ds.remove id
            else ds
          | none => ds)
        | .hashMap k v => depsType items fuel v (depsType items fuel k ds)
        | .option t => depsType items fuel t ds
        | .vec t => depsType items fuel t ds
        | .array t _ => depsType items fuel t ds
        | .slice t => depsType items fuel t ds
        | _ => ds
      ds.remove tp.id
end

/-- `PartialEq for RustItem`: same kind and same original name -/
def sameItem : RustItem → RustItem → Bool
  | .struct a, .struct b => a.id.original == b.id.original
  | .enum a, .enum b => a.id.original == b.id.original
  | .alias a, .alias b => a.id.original == b.id.original
  | .const a, .const b => a.id.original == b.id.original
  | _, _ => false

/-- `get_index` (`none`: the `expect("Unable to find thing in things!")`; unreachable because
every looked-up item is an element of the list) -/
def getIndex (items : List RustItem) (thing : RustItem) : Option Nat :=
  items.findIdx? (sameItem · thing)

def fuelFor (items : List RustItem) : Nat := 4 * items.length + 256

/-- the dependency graph `topsort` builds -/
def graph (items : List RustItem) : Option (List (List Nat)) :=
  items.mapM fun it =>
    let ds := depsItem items (fuelFor items) it ⟨[], []⟩
    ds.res.mapM fun dep => (lookup items dep).bind (getIndex items)

/-- `topsort`: order the items by the DFS over the dependency graph -/
def topsort (items : List RustItem) : Option (List RustItem) := do
  let g ← graph items
  let order ← Topsort.toposort g
  Topsort.sortByIndices items order

end TsV.Deps
