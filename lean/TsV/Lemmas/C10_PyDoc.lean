import TsV.Model.Lang.Python
/-!
# C10, Python docstrings: the written doc text contains no backslash sequence other than `\\` and `\"`

Since the `fix:` commit af54d85 `write_comments` doubles every backslash of a doc line before it
escapes `"""`.  In a non-raw Python string literal `\x`, `\u`, `\U`, `\N` start escapes that are
errors unless the right number of hex digits / a character name follows, so doc text such as
`see C:\Users\x` made the module uncompilable (finding `python-docstring-escape`).  `pyEscapesOk`
is the specification of "no such sequence"; `escapeDoc_escapesOk` proves it of every written line.
-/
namespace TsV.C10PyDoc
open TsV TsV.Lang

/-- reading left to right, every backslash is followed by a backslash or a `"` (the two escapes the
docstring writer produces; both are valid in a non-raw string literal) -/
def pyEscapesOk : Str → Bool
  | [] => true
  | [c] => c != '\\'
  | c :: d :: r => if c = '\\' then (d = '\\' || d = '"') && pyEscapesOk r else pyEscapesOk (d :: r)

/-- reading left to right, backslashes come in pairs -/
def pairedBs : Str → Bool
  | [] => true
  | [c] => c != '\\'
  | c :: d :: r => if c = '\\' then d = '\\' && pairedBs r else pairedBs (d :: r)

theorem pairedBs_ne (c : Char) (r : Str) (h : c ≠ '\\') : pairedBs (c :: r) = pairedBs r := by
  cases r <;> simp [pairedBs, h]
theorem pairedBs_bs (d : Char) (r : Str) : pairedBs ('\\' :: d :: r) = (decide (d = '\\') && pairedBs r) := by
  simp [pairedBs]
theorem pairedBs_bs_nil : pairedBs ['\\'] = false := by
  simp [pairedBs]
theorem escapesOk_ne (c : Char) (r : Str) (h : c ≠ '\\') : pyEscapesOk (c :: r) = pyEscapesOk r := by
  cases r <;> simp [pyEscapesOk, h]
theorem escapesOk_bs (d : Char) (r : Str) :
    pyEscapesOk ('\\' :: d :: r) = ((decide (d = '\\') || decide (d = '"')) && pyEscapesOk r) := by
  simp [pyEscapesOk]

theorem pairedBs_escapeBackslashes : ∀ s : Str, pairedBs (Python.escapeBackslashes s) = true
  | [] => rfl
  | c :: r => by
    have ih := pairedBs_escapeBackslashes r
    simp only [Python.escapeBackslashes, Str.replaceChar, List.flatMap_cons] at ih ⊢
    by_cases hc : c = '\\'
    · subst hc; simpa [pairedBs_bs] using ih
    · simpa [hc, pairedBs_ne] using ih

/-- `escapeQuotes` copies a character that does not start a `"""` -/
theorem escapeQuotes_cons (x : Char) (t : Str) (h : ∀ r, ¬ (x = '"' ∧ t = '"' :: '"' :: r)) :
    Python.escapeQuotes (x :: t) = x :: Python.escapeQuotes t := by
  match t with
  | [] => simp [Python.escapeQuotes]
  | [a] => simp [Python.escapeQuotes]
  | a :: b :: r =>
    simp only [Python.escapeQuotes]
    split
    · rename_i hq
      exact absurd ⟨hq.1, by rw [hq.2.1, hq.2.2]⟩ (h r)
    · rfl

theorem escapesOk_quotes : ∀ (n : Nat) (s : Str), s.length ≤ n → pairedBs s = true →
    pyEscapesOk (Python.escapeQuotes s) = true := by
  intro n
  induction n with
  | zero =>
    intro s h _
    cases s with
    | nil => simp [Python.escapeQuotes, pyEscapesOk]
    | cons c t => simp at h
  | succ n ih =>
    intro s hl hp
    match s with
    | [] => simp [Python.escapeQuotes, pyEscapesOk]
    | x :: t =>
      by_cases h3 : ∃ r, x = '"' ∧ t = '"' :: '"' :: r
      · obtain ⟨r, rfl, rfl⟩ := h3
        have hr : r.length ≤ n := by simp at hl; omega
        have hpr : pairedBs r = true := by simpa [pairedBs_ne] using hp
        simpa [Python.escapeQuotes, escapesOk_bs] using ih r hr hpr
      · rw [escapeQuotes_cons x t (fun r hr => h3 ⟨r, hr⟩)]
        have ht : t.length ≤ n := by simp at hl; omega
        by_cases hb : x = '\\'
        · subst hb
          match t with
          | [] => simp [pairedBs_bs_nil] at hp
          | d :: r =>
            simp only [pairedBs_bs, Bool.and_eq_true, decide_eq_true_eq] at hp
            obtain ⟨rfl, hpr⟩ := hp
            rw [escapeQuotes_cons '\\' r (fun r' hr => by simp at hr)]
            have hr : r.length ≤ n := by simp at ht; omega
            simpa [escapesOk_bs] using ih r hr hpr
        · have hpt : pairedBs t = true := by simpa [pairedBs_ne _ _ hb] using hp
          simpa [escapesOk_ne _ _ hb] using ih t ht hpt

/-- **every written docstring line is free of malformed escapes** -/
theorem escapeDoc_escapesOk (c : Str) : pyEscapesOk (Python.escapeDoc c) = true :=
  escapesOk_quotes _ _ (Nat.le_refl _) (pairedBs_escapeBackslashes c)

end TsV.C10PyDoc
