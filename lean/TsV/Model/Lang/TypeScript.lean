import TsV.Model.Lang.Common
/-!
# Model of `core/src/language/typescript.rs`

The printer is a state machine over `types_for_custom_json_translation`; every function returns
the text it writes together with the new state.  Declarations are built as small fact records
(`TsField`, `TsMember`) and rendered by `render*`, so that theorems can speak about what a
declaration binds while the correspondence compares the rendered bytes.
-/
namespace TsV.Lang.TypeScript
open TsV TsV.Lang

structure Cfg where
  typeMappings : List (Str × Str) := []
  versionHeader : Option Str := none     -- `Some(version)` when the header is written

/-- `BTreeMap<String, BTreeSet<String>>` as a sorted association list with sorted values -/
abbrev CustomMap := List (Str × List Str)

def cmInsert (m : CustomMap) (k : Str) (v : List Str) : CustomMap :=
  match m with
  | [] => [(k, v)]
  | (k', v') :: rest =>
    if k' == k then (k, v) :: rest else if Str.lt k k' then (k, v) :: (k', v') :: rest
    else (k', v') :: cmInsert rest k v

def cmGet (m : CustomMap) (k : Str) : Option (List Str) := (m.find? (·.1 == k)).map (·.2)

/-- `custom_translations(ts_type).is_some()` -/
def hasCustom (t : Str) : Bool := t == s%"Uint8Array" || t == s%"Date"

mutual
  /-- `Language::format_type` for TypeScript -/
  def formatType (cfg : Cfg) (gens : List Str) : RustType → CustomMap → Outcome (Str × CustomMap)
    | .simple id, st => .ok ((mapGet cfg.typeMappings id).getD id, st)
    | .generic id ps, st =>
      match mapGet cfg.typeMappings id with
      | some m => .ok (m, st)
      | none =>
        match formatTypes cfg gens ps st with
        | .ok (strs, st') =>
          .ok ((mapGet cfg.typeMappings id).getD id ++ (if strs.isEmpty then [] else angle strs), st')
        | .err e => .err e
        | .panic s => .panic s
    | t@(.vec r), st => special cfg gens t st fun st =>
        (formatType cfg gens r st).bind fun (s, st) => .ok (s ++ s%"[]", st)
    | t@(.slice r), st => special cfg gens t st fun st =>
        (formatType cfg gens r st).bind fun (s, st) => .ok (s ++ s%"[]", st)
    | t@(.array r n), st => special cfg gens t st fun st =>
        (formatType cfg gens r st).bind fun (s, st) =>
          .ok (s%"[" ++ Str.intercalate s%", " (List.replicate n s) ++ s%"]", st)
    | t@(.option r), st => special cfg gens t st fun st => formatType cfg gens r st
    | t@(.hashMap k v), st => special cfg gens t st fun st =>
        match k with
        | .simple id =>
          if gens.contains id then .err (.formatError s%"GenericKeyForbiddenInTS")
          else
            (formatType cfg gens k st).bind fun (ks, st) =>
            (formatType cfg gens v st).bind fun (vs, st) =>
              .ok (s%"Record<" ++ ks ++ s%", " ++ vs ++ s%">", st)
        | _ =>
          (formatType cfg gens k st).bind fun (ks, st) =>
          (formatType cfg gens v st).bind fun (vs, st) =>
            .ok (s%"Record<" ++ ks ++ s%", " ++ vs ++ s%">", st)
    | t@(.prim p), st => special cfg gens t st fun st =>
        match p with
        | .unit => .ok (s%"undefined", st)
        | .dateTime => .ok (s%"Date", st)
        | .string | .char => .ok (s%"string", st)
        | .bool => .ok (s%"boolean", st)
        | .i8 | .u8 | .i16 | .u16 | .i32 | .u32 | .i54 | .u53 | .f32 | .f64 => .ok (s%"number", st)
        | .u64 | .i64 | .isize | .usize => .panic s%"typescript.rs:137"
  /-- the type-mapping prelude of `format_special_type`: a mapped special type is replaced (and its
  custom-translation entry is *reset* to the empty set by `BTreeMap::insert`) -/
  def special (cfg : Cfg) (gens : List Str) (t : RustType) (st : CustomMap)
      (k : CustomMap → Outcome (Str × CustomMap)) : Outcome (Str × CustomMap) :=
    match mapGet cfg.typeMappings t.display with
    | some m => .ok (m, if hasCustom m then cmInsert st m [] else st)
    | none => k st
  def formatTypes (cfg : Cfg) (gens : List Str) : List RustType → CustomMap → Outcome (List Str × CustomMap)
    | [], st => .ok ([], st)
    | t :: ts, st =>
      (formatType cfg gens t st).bind fun (s, st) =>
      (formatTypes cfg gens ts st).bind fun (ss, st) => .ok (s :: ss, st)
end

/-- `c.replace("*/", "*\\/")`: a `*/` in the doc text is written as `*\/` -/
def escapeDoc : Str → Str
  | [] => []
  | c :: r =>
    if c = '*' ∧ r.head? = some '/' then '*' :: '\\' :: escapeDoc r
    else c :: escapeDoc r

/-- `write_comments`: `/** one */` or a ` * `-joined block, `*/` escaped -/
def comments (indent : Nat) (cs : List Str) : Str :=
  match cs with
  | [] => []
  | [c] => tabs indent ++ s%"/** " ++ escapeDoc c ++ s%" */" ++ nl
  | _ =>
    tabs indent ++ s%"/**\n" ++ tabs indent ++ s%" * " ++
      Str.intercalate (nl ++ tabs indent ++ s%" * ") (cs.map escapeDoc) ++ nl ++ tabs indent ++ s%" */" ++ nl

/-- `typescript_property_aware_rename`: a key containing `-` is written as a quoted property -/
def propertyName (name : Str) : Str := if name.contains '-' then debugStr name else name

/-- what one property line says -/
structure TsField where
  comments : List Str
  readonly : Bool
  name : Str            -- as printed (possibly quoted)
  optional : Bool       -- `?`
  ty : Str
  orNull : Bool         -- ` | null`

def renderField (f : TsField) : Str :=
  comments 1 f.comments ++ s%"\t" ++ (if f.readonly then s%"readonly " else []) ++ f.name ++
    (if f.optional then s%"?" else []) ++ s%": " ++ f.ty ++ (if f.orNull then s%" | null" else []) ++ s%";\n"

/-- `write_field` as a fact record plus the state update -/
def fieldFacts (cfg : Cfg) (gens : List Str) (f : RustField) (st : CustomMap) : Outcome (TsField × CustomMap) :=
  (match typeOverride f .typescript with
   | some t => Outcome.ok (t, st)
   | none => formatType cfg gens f.ty st).bind fun (ty, st) =>
  let st := if hasCustom ty then
      cmInsert st ty (Parser.insertSorted Str.lt f.id.renamed ((cmGet st ty).getD []))
    else st
  .ok ({ comments := f.comments, readonly := hasDecoratorNamed f .typescript s%"readonly",
         name := propertyName f.id.renamed, optional := f.ty.isOptional || f.hasDefault, ty,
         orNull := f.ty.isDoubleOptional }, st)

def writeFields (cfg : Cfg) (gens : List Str) : List RustField → CustomMap → Outcome (Str × CustomMap)
  | [], st => .ok ([], st)
  | f :: fs, st =>
    (fieldFacts cfg gens f st).bind fun (tf, st) =>
    (writeFields cfg gens fs st).bind fun (rest, st) => .ok (renderField tf ++ rest, st)

/-- `write_struct` -/
def writeStruct (cfg : Cfg) (rs : RustStruct) (st : CustomMap) : Outcome (Str × CustomMap) :=
  (writeFields cfg rs.genericTypes rs.fields st).bind fun (body, st) =>
    .ok (comments 0 rs.comments ++ s%"export interface " ++ rs.id.renamed ++ genericSuffix rs.genericTypes ++
         s%" {\n" ++ body ++ s%"}\n\n", st)

/-- `write_type_alias` -/
def writeAlias (cfg : Cfg) (a : RustTypeAlias) (st : CustomMap) : Outcome (Str × CustomMap) :=
  (formatType cfg a.genericTypes a.ty st).bind fun (ty, st) =>
    .ok (comments 0 a.comments ++ s%"export type " ++ a.id.renamed ++ genericSuffix a.genericTypes ++ s%" = " ++
         ty ++ (if a.ty.isOptional then s%" | undefined" else []) ++ s%";\n\n", st)

/-- `write_const` (`to_snake_case().to_uppercase()` needs the Unicode parameter) -/
def writeConst (U : UnicodeOps) (cfg : Cfg) (c : RustConst) (st : CustomMap) : Outcome (Str × CustomMap) :=
  (formatType cfg [] c.ty st).bind fun (ty, st) =>
    .ok (s%"export const " ++ U.upperStr (Rename.toSnake U c.id.renamed) ++ s%": " ++ ty ++ s%" = " ++
         Str.natToStr c.expr ++ s%";\n", st)

/-- one member of a tagged union -/
def writeVariant (cfg : Cfg) (e : RustEnum) (tag content : Str) (v : RustEnumVariant) (st : CustomMap) :
    Outcome (Str × CustomMap) :=
  let head := nl ++ comments 1 v.comments
  match v with
  | .unit id _ =>
    .ok (head ++ s%"\t| { " ++ tag ++ s%": " ++ debugStr id.renamed ++ s%", " ++ content ++ s%"?: undefined }", st)
  | .tuple id _ ty =>
    (formatType cfg e.genericTypes ty st).bind fun (t, st) =>
      .ok (head ++ s%"\t| { " ++ tag ++ s%": " ++ debugStr id.renamed ++ s%", " ++ content ++
           (if ty.isOptional then s%"?" else []) ++ s%": " ++ t ++ s%" }", st)
  | .anonymousStruct id _ fs =>
    (writeFields cfg e.genericTypes fs st).bind fun (body, st) =>
      .ok (head ++ s%"\t| { " ++ tag ++ s%": " ++ debugStr id.renamed ++ s%", " ++ content ++ s%": {\n" ++ body ++ s%"}}", st)

def writeVariants (cfg : Cfg) (e : RustEnum) (tag content : Str) : List RustEnumVariant → CustomMap →
    Outcome (Str × CustomMap)
  | [], st => .ok ([], st)
  | v :: vs, st =>
    (writeVariant cfg e tag content v st).bind fun (a, st) =>
    (writeVariants cfg e tag content vs st).bind fun (b, st) => .ok (a ++ b, st)

/-- `write_enum` -/
def writeEnum (cfg : Cfg) (e : RustEnum) (st : CustomMap) : Outcome (Str × CustomMap) :=
  let gp := genericSuffix e.genericTypes
  match e.keys with
  | none =>
    let body := e.variants.flatMap fun v =>
      nl ++ comments 1 v.comments ++ s%"\t" ++ v.id.original ++ s%" = " ++ debugStr v.id.renamed ++ s%","
    .ok (comments 0 e.comments ++ s%"export enum " ++ e.id.renamed ++ gp ++ s%" {" ++ body ++ s%"\n}\n\n", st)
  | some (tag, content) =>
    (writeVariants cfg e tag content e.variants st).bind fun (body, st) =>
      .ok (comments 0 e.comments ++ s%"export type " ++ e.id.renamed ++ gp ++ s%" = " ++ body ++ s%";\n\n", st)

def beginFile (cfg : Cfg) : Str :=
  match cfg.versionHeader with
  | some v => s%"/*\n Generated by typeshare " ++ v ++ s%"\n*/\n\n"
  | none => []

/-- `write_imports` -/
def writeImports (imports : Pipeline.ScopedCrateTypes) : Str :=
  (imports.flatMap fun (path, tys) =>
    s%"import { " ++ Str.intercalate s%", " tys ++ s%" } from \"./" ++ path ++ s%"\";\n") ++ nl

def reviverUint8 : Str := s%"if (Array.isArray(value) && value.every(v => Number.isInteger(v) && v >= 0 && v <= 255) && value.length > 0)  {\n        return new Uint8Array(value);\n    }"
def replacerUint8 : Str := s%"if (value instanceof Uint8Array) {\n        return Array.from(value);\n    }"
def replacerDate : Str := s%"if (value instanceof Date) {\n        return value.toISOString();\n    }"
def reviverDate (ids : List Str) : Str :=
  s%"if (typeof value === \"string\" && /^\\d{4}-\\d{2}-\\d{2}T\\d{2}:\\d{2}:\\d{2}(\\.\\d+)?Z$/.test(value)" ++
    (if ids.isEmpty then [] else
      s%" && (" ++ Str.intercalate s%" || " (ids.map fun i => s%"key === \"" ++ i ++ s%"\"") ++ s%")") ++
    s%") {\n        return new Date(value);\n    }"

/-- `end_file`: the reviver / replacer helpers for the custom-translated types that were used -/
def endFile (st : CustomMap) : Str :=
  if st.isEmpty then [] else
  let content := st.filterMap fun (t, _) =>
    if t == s%"Uint8Array" then some (reviverUint8, replacerUint8)
    else if t == s%"Date" then some (reviverDate ((cmGet st s%"Date").getD []), replacerDate)
    else none
  comments 0 [s%"Custom JSON reviver and replacer functions for dynamic data transformation",
    s%"ReviverFunc is used during JSON parsing to detect and transform specific data structures",
    s%"ReplacerFunc is used during JSON serialization to modify certain values before stringifying.",
    s%"These functions allow for flexible encoding and decoding of data, ensuring that complex types are properly handled when converting between TS objects and JSON"] ++
  s%"export const ReviverFunc = (key: string, value: unknown): unknown => {\n    " ++
  Str.intercalate s%"\n    " (content.map (·.1)) ++ s%"\n    return value;\n};\n\nexport const ReplacerFunc = (key: string, value: unknown): unknown => {\n    " ++
  Str.intercalate s%"\n    " (content.map (·.2)) ++ s%"\n    return value;\n};\n"

def writeItem (U : UnicodeOps) (cfg : Cfg) (it : RustItem) (st : CustomMap) : Outcome (Str × CustomMap) :=
  match it with
  | .struct s => writeStruct cfg s st
  | .enum e => writeEnum cfg e st
  | .alias a => writeAlias cfg a st
  | .const c => writeConst U cfg c st

def writeItems (U : UnicodeOps) (cfg : Cfg) : List RustItem → CustomMap → Outcome (Str × CustomMap)
  | [], st => .ok ([], st)
  | it :: its, st =>
    (writeItem U cfg it st).bind fun (a, st) =>
    (writeItems U cfg its st).bind fun (b, st) => .ok (a ++ b, st)

/-- `Language::generate_types` for one output file; `st0` is the printer state left by the files
generated before this one (the same `TypeScript` value is reused across crates) -/
def generate (U : UnicodeOps) (cfg : Cfg) (d : ParsedData) (imports : Option Pipeline.ScopedCrateTypes)
    (st0 : CustomMap) : Outcome (Str × CustomMap) :=
  match Pipeline.generateOrder d with
  | none => .panic s%"topsort"
  | some items =>
    (writeItems U cfg items st0).bind fun (body, st) =>
      .ok (beginFile cfg ++ (match imports with | some i => writeImports i | none => []) ++ body ++ endFile st, st)

end TsV.Lang.TypeScript

namespace TsV.Lang.TypeScript
open TsV TsV.Lang

/-- all output files of one run, the printer state threaded through the crates in map order -/
def generateFrom (U : UnicodeOps) (cfg : Cfg) :
    List (Str × ParsedData × Option Pipeline.ScopedCrateTypes) → CustomMap → Outcome (List (Str × Str))
  | [], _ => .ok []
  | (crate, d, imps) :: rest, st =>
    (generate U cfg d imps st).bind fun (text, st) =>
    (generateFrom U cfg rest st).bind fun outs => .ok ((crate, text) :: outs)

def generateAll (E : Ext) (cfg : Cfg) (_multiFile : Bool)
    (jobs : List (Str × ParsedData × Option Pipeline.ScopedCrateTypes)) : Outcome (List (Str × Str)) :=
  generateFrom E.U cfg jobs []

end TsV.Lang.TypeScript
