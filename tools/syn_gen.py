"""Abstract syn AST (python side): constructors, rendering to Rust source, s-expression encoding."""
from common import S

# ---- Meta: ("p", [segs]) | ("nv", [segs], lit|None) | ("l", [segs], parsed, [args], raw_tokens)
# ---- Lit: ("s", text) | ("i", value, suffix) | ("o", token_text)


def m_path(*segs):
    return ("p", list(segs))


def m_nv(name, lit):
    return ("nv", [name] if isinstance(name, str) else list(name), lit)


def m_list(name, args, parsed=True, raw=None):
    return ("l", [name] if isinstance(name, str) else list(name), parsed, list(args), raw)


def lit_s(text):
    return ("s", text)


def rust_str(text):
    out = ['"']
    for ch in text:
        if ch == '"':
            out.append('\\"')
        elif ch == "\\":
            out.append("\\\\")
        elif ch == "\n":
            out.append("\\n")
        elif ch == "\r":
            out.append("\\r")
        elif ch == "\t":
            out.append("\\t")
        elif ord(ch) < 32:
            out.append("\\u{%x}" % ord(ch))
        else:
            out.append(ch)
    out.append('"')
    return "".join(out)


def render_lit(l):
    if l is None:
        return "some_path::VALUE"      # a non-literal expression
    if l[0] == "s":
        return rust_str(l[1])
    if l[0] == "i":
        return "%d%s" % (l[1], l[2])
    return l[1]


def render_meta(m):
    if m[0] == "p":
        return "::".join(m[1])
    if m[0] == "nv":
        return "%s = %s" % ("::".join(m[1]), render_lit(m[2]))
    if m[0] == "l":
        if not m[2]:
            return "%s(%s)" % ("::".join(m[1]), m[4])
        return "%s(%s)" % ("::".join(m[1]), ", ".join(render_meta(a) for a in m[3]))
    raise ValueError(m)


def sx_lit(l):
    if l is None:
        return S("none")
    if l[0] == "s":
        return [S("s"), l[1]]
    if l[0] == "i":
        return [S("i"), l[1], l[2]]
    return S("o")


def sx_meta(m):
    if m[0] == "p":
        return [S("p")] + m[1]
    if m[0] == "nv":
        return [S("nv"), m[1], sx_lit(m[2])]
    if m[0] == "l":
        return [S("l"), m[1], bool(m[2])] + [sx_meta(a) for a in (m[3] if m[2] else [])]
    raise ValueError(m)


def render_attr(m, inner=False):
    return "#%s[%s]" % ("!" if inner else "", render_meta(m))
