import TsV.Lemmas.Capstone_Order
/-!
# Capstone — helpers for evaluating a concrete run (`List.mergeSort` on longer lists and
`Topsort.inner` do not reduce under `decide`; a file with one struct and one enum avoids both)
-/
namespace TsV.Cap
open TsV TsV.Pipeline TsV.Generate TsV.C03E TsV.Lang

theorem filterMap_none {α β} (l : List α) : l.filterMap (fun _ => (none : Option β)) = [] := by
  induction l <;> simp_all

theorem structsOf_itemsOf (d : ParsedData) : structsOf (C12L.itemsOf d) = d.structs := by
  simp [structsOf, C12L.itemsOf, List.filterMap_append, List.filterMap_map, Function.comp_def, filterMap_none]
theorem enumsOf_itemsOf (d : ParsedData) : enumsOf (C12L.itemsOf d) = d.enums := by
  simp [enumsOf, C12L.itemsOf, List.filterMap_append, List.filterMap_map, Function.comp_def, filterMap_none]
theorem aliasesOf_itemsOf (d : ParsedData) : aliasesOf (C12L.itemsOf d) = d.aliases := by
  simp [aliasesOf, C12L.itemsOf, List.filterMap_append, List.filterMap_map, Function.comp_def, filterMap_none]
theorem constsOf_itemsOf (d : ParsedData) : constsOf (C12L.itemsOf d) = d.consts := by
  simp [constsOf, C12L.itemsOf, List.filterMap_append, List.filterMap_map, Function.comp_def, filterMap_none]

/-- a job whose items are one struct and one enum holds exactly these, the struct first -/
theorem itemsOf_struct_enum (d : ParsedData) (s : RustStruct) (e : RustEnum)
    (h : (C12L.itemsOf d).Perm [.struct s, .enum e]) :
    C12L.itemsOf d = [.struct s, .enum e] ∧ d.aliases = [] ∧ d.structs = [s] ∧ d.enums = [e] ∧ d.consts = [] := by
  have hs : d.structs = [s] := by
    have := h.filterMap (fun | .struct s => some s | _ => none)
    have h2 : (structsOf (C12L.itemsOf d)).Perm (structsOf [.struct s, .enum e]) := this
    rw [structsOf_itemsOf] at h2
    exact List.perm_singleton.1 (by simpa [structsOf] using h2)
  have he : d.enums = [e] := by
    have := h.filterMap (fun | .enum e => some e | _ => none)
    have h2 : (enumsOf (C12L.itemsOf d)).Perm (enumsOf [.struct s, .enum e]) := this
    rw [enumsOf_itemsOf] at h2
    exact List.perm_singleton.1 (by simpa [enumsOf] using h2)
  have ha : d.aliases = [] := by
    have := h.filterMap (fun | .alias a => some a | _ => none)
    have h2 : (aliasesOf (C12L.itemsOf d)).Perm (aliasesOf [.struct s, .enum e]) := this
    rw [aliasesOf_itemsOf] at h2
    exact List.perm_nil.1 (by simpa [aliasesOf] using h2)
  have hc : d.consts = [] := by
    have := h.filterMap (fun | .const c => some c | _ => none)
    have h2 : (constsOf (C12L.itemsOf d)).Perm (constsOf [.struct s, .enum e]) := this
    rw [constsOf_itemsOf] at h2
    exact List.perm_nil.1 (by simpa [constsOf] using h2)
  exact ⟨by simp [C12L.itemsOf, hs, he, ha, hc], ha, hs, he, hc⟩

/-- a file whose annotated accepted items parse to one struct and one enum (in either order): the back end
gets exactly their reconciled forms, the struct first -/
theorem run_struct_enum (E : Ext) (lang : LangCfg) (targetOs : List Str)
    (pick : List ImportedType → Option ImportedType) (f : SourceFile) (P : List RustItem) (s : RustStruct) (e : RustEnum)
    (hP : parsedItems E (ctxOf lang targetOs) f.file = P) (hPP : P.Perm [.struct s, .enum e])
    (hE : parseErrs E (ctxOf lang targetOs) f.file = []) :
    ∃ d' : ParsedData,
      C12L.itemsOf d' = [.struct (recStruct f.crateName (renamesFor f.crateName P) s),
                         .enum (recEnum f.crateName (renamesFor f.crateName P) e)] ∧
      d'.aliases = [] ∧ d'.structs = [recStruct f.crateName (renamesFor f.crateName P) s] ∧
      d'.enums = [recEnum f.crateName (renamesFor f.crateName P) e] ∧ d'.consts = [] ∧
      d'.multiFile = false ∧ d'.crateName = f.crateName ∧
      run E lang false targetOs pick [f] =
        (genAll E lang false [(f.crateName, d', none)]).bind fun o => .ok (.outputs o) := by
  obtain ⟨d', hperm, hmf, hcr, hrun⟩ := run_single E lang targetOs pick f
  rw [hP] at hperm hrun
  rw [hE] at hrun
  have hperm' := hperm.trans (hPP.map (recItem f.crateName (renamesFor f.crateName P)))
  obtain ⟨h1, h2, h3, h4, h5⟩ := itemsOf_struct_enum d' _ _ (by simpa [recItem_struct, recItem_enum] using hperm')
  refine ⟨d', h1, h2, h3, h4, h5, hmf, hcr, ?_⟩
  rw [hrun]
  have hne : P ≠ [] := by
    intro h0
    rw [h0] at hPP
    simpa using hPP.length_eq
  simp [hne]

/-- the order `generate_types` writes two items in, once the dependency graph and the result of
`toposort` on it are known -/
theorem generateOrder_of (d : ParsedData) (items : List RustItem) (g : List (List Nat)) (order : List Nat)
    (hi : C12L.itemsOf d = items) (hg : Deps.graph items = some g) (ho : Topsort.toposort g = some order) :
    Pipeline.generateOrder d = Topsort.sortByIndices items order := by
  show Deps.topsort (C12L.itemsOf d) = _
  rw [hi]
  exact C11.topsort_eq hg ho

end TsV.Cap
