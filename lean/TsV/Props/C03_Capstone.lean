import TsV.Lemmas.Capstone_Kotlin
import TsV.Lemmas.Capstone_TypeScript
import TsV.Lemmas.Capstone_Swift
import TsV.Lemmas.Capstone_Scala
import TsV.Lemmas.Capstone_Go
import TsV.Lemmas.Capstone_Python
import TsV.Lemmas.Capstone_Example
/-!
# Capstone — what one whole single-file run guarantees about every declaration it writes

The per-property theorems (C01, C02, C04, C05, C09, C11, C03_Emission) speak about one item or one back-end
function.  This file composes them: `run_guarantees_<lang>` starts from
`Generate.run E (.<lang> cfg) false targetOs pick [f] = .ok (.outputs outs)` for a single source file `f` and
concludes, for the text that is written:

1. (C03_Emission) every annotated accepted source item parsed (`sourceItems.map parseItem = parsed.map .ok`);
   the output is one text `header ++ blocks.flatten ++ footer` with one block per parsed item (`items` is a
   permutation of the reconciled parsed items, `Paired` / `Threaded` `writeItem` over it), each block making
   exactly the definitions `*Defs` lists (`SplitsInto`);
2. (C01) for every source struct with named fields — and every struct variant of every source enum — the
   block is the rendering of the back end's fact record(s), and under C01's scope (`C01.InScope`,
   `C01.Distinct`) the keys these records bind are serde's keys of the kept source fields, in order;
3. (C04 + C05) for every source struct: position by position, the source field, the field the back end
   received and its fact record; under C04's scope (`C04.InScope`, not `C04.Known_scalaDefaultNonOption`) the
   record is marked optional iff the written type (after `serialized_as`) is `Option<_>` or the field carries
   the bare `serde(default)`, and its type text without the marker is `show (translate …)` of the
   `Option`-stripped type (Go: followed by the acronym pass);
4. (C02) for every source enum in C02's scope (`C02.InScopeSrc`) outside `C02.Known`: the cases the
   declaration has are, in order, the kept source variants under serde's names, each a case of its own,
   and every printed tag / content key is the value of serde's `tag` / `content` attribute;
5. (C09) under C09's scope (crate name `""`, `C09.InScope`, `C09.CfgOk`, no shadowing) every reference
   (`C09.refs`) outside `C09.KnownRef` is spelled with the name its target is defined under — and that name
   (`C09.defName`) is the last definition the block of the target item makes (`SplitsInto` + `getLast?`);
6. (C11) for the five back ends that use `generateOrder`: if the reconciled items have distinct names,
   bounded depth, used alias parameters and an acyclic reference relation (`C11_order`'s hypotheses, stated
   on the items in *source* order), every block comes after the blocks of the items it mentions.

Level: clauses 2-4 are stated on the **fact records** of the back-end models (`KtDecl`, `TsField`,
`SwiftStruct`, `ScClass`, `GoStruct`, `PyClass`, C02's `EnumDecl`s) together with the equation
`block = render facts`; clause 5 on C09's binding semantics `refs` / `defName` plus the text-level
`SplitsInto`; clauses 1 and 6 on the text blocks.

Glue definitions (no new specification; each is a conjunction / packaging of predicates of the individual
property files): `Cap.StructClauses`, `Cap.EnumClauses`, `Cap.FieldsOK`, `Cap.FieldOK`, `Cap.FieldFrom`,
`Cap.Forall₃`, `Cap.acrOf`, `Cap.RefsClause`, `Cap.OrderClause`, `Cap.progOf`, `Cap.recStruct`, `Cap.recEnum`,
the per-language readings `Cap.*.Reads` and `Cap.Kt.innerKeys`, `Cap.Go.anonOf`, `Cap.Py.innerOf`.
-/
namespace TsV.Capstone
open TsV TsV.Syn TsV.Parser TsV.Pipeline TsV.Generate TsV.C03E TsV.Lang TsV.Cap

/-- **Kotlin.**  (`hcU`: the Unicode tables that `to_pascal_case` consults for the class names of sealed-class
cases travel in `Kotlin.Cfg.U`; like `E.U` they must be right about ASCII.) -/
theorem run_guarantees_kotlin (E : Ext) (hU : E.U.AsciiCorrect) (cfg : Kotlin.Cfg) (hcU : cfg.U.AsciiCorrect)
    (targetOs : List Str)
    (pick : List ImportedType → Option ImportedType) (f : SourceFile) (outs : List (Str × Str))
    (h : run E (.kotlin cfg) false targetOs pick [f] = .ok (.outputs outs)) :
    ∃ (parsed items : List RustItem) (blocks : List Str) (d' : ParsedData),
      parsed = parsedItems E (ctxOf (.kotlin cfg) targetOs) f.file ∧
      -- (1) every annotated accepted item parsed; one block per item, written by `writeItem` on the reconciled item
      (sourceItems (ctxOf (.kotlin cfg) targetOs) f.file).map (C03.parseItem E (ctxOf (.kotlin cfg) targetOs)) =
        parsed.map Outcome.ok ∧
      items.Perm (parsed.map (recItem f.crateName (renamesFor f.crateName parsed))) ∧
      Paired (fun it b => Kt.writeItem cfg it = .ok b ∧ SplitsInto (ktDefs cfg it) b) items blocks ∧
      (parsed = [] → outs = []) ∧
      (parsed ≠ [] → outs = [(f.crateName, Kt.header cfg d' none ++ blocks.flatten)] ∧ d'.multiFile = false) ∧
      -- (2) + (3) structs
      (∀ attrs ident gens fs rs,
        Item.struct attrs ident gens (.named fs) ∈ sourceItems (ctxOf (.kotlin cfg) targetOs) f.file →
        parseStruct E targetOs attrs ident gens (.named fs) = .ok (.struct rs) →
        ∃ (k : Nat) (d : Kotlin.KtDecl),
          items[k]? = some (.struct (recStruct f.crateName (renamesFor f.crateName parsed) rs)) ∧
          Kotlin.structFacts cfg (recStruct f.crateName (renamesFor f.crateName parsed) rs) = .ok d ∧
          blocks[k]? = some (Kotlin.renderDecl d) ∧
          StructClauses E .kotlin (.kotlin cfg) targetOs f.crateName (renamesFor f.crateName parsed) attrs fs
            (recStruct f.crateName (renamesFor f.crateName parsed) rs)
            ((C01.Kotlin.declParams d).map C01.Kotlin.boundKey) Cap.Kt.Reads (C04.Kt.params d)) ∧
      -- (2) + (4) enums
      (∀ attrs ident gens vs e,
        Item.enum attrs ident gens vs ∈ sourceItems (ctxOf (.kotlin cfg) targetOs) f.file →
        parseEnum E targetOs attrs ident gens vs = .ok (.enum e) →
        ∃ (k : Nat) (ds inners rest : List Kotlin.KtDecl),
          items[k]? = some (.enum (recEnum f.crateName (renamesFor f.crateName parsed) e)) ∧
          Kotlin.enumFacts cfg (recEnum f.crateName (renamesFor f.crateName parsed) e) = .ok ds ∧
          blocks[k]? = some (ds.flatMap Kotlin.renderDecl) ∧ ds = inners ++ rest ∧
          Kotlin.structsFacts cfg (Kotlin.innerStructs (recEnum f.crateName (renamesFor f.crateName parsed) e)) = .ok inners ∧
          EnumClauses E .kotlin targetOs attrs vs (recEnum f.crateName (renamesFor f.crateName parsed) e) []
            (Cap.Kt.innerKeys inners) (C02.Kt.wire ds)) ∧
      -- (5) references
      RefsClause (.kotlin cfg) f.crateName parsed ∧
      (∀ t ∈ parsed, ∃ (k : Nat) (b : Str),
        items[k]? = some (recItem f.crateName (renamesFor f.crateName parsed) t) ∧ blocks[k]? = some b ∧
        SplitsInto (ktDefs cfg t) b ∧ ((ktDefs cfg t).map (·.2)).getLast? = some (C09.defName (.kotlin cfg) t)) ∧
      -- (6) order
      OrderClause (parsed.map (recItem f.crateName (renamesFor f.crateName parsed))) items := by
  obtain ⟨hal, hnil, hcons⟩ := run_core E (.kotlin cfg) targetOs pick f outs h
  -- the blocks
  have hblocks : ∃ (items : List RustItem) (blocks : List Str) (d' : ParsedData),
      items.Perm (C03_Emission.emitted E (.kotlin cfg) targetOs f) ∧
      Paired (fun it b => Kt.writeItem cfg it = .ok b) items blocks ∧
      (parsedItems E (ctxOf (.kotlin cfg) targetOs) f.file ≠ [] →
        outs = [(f.crateName, Kt.header cfg d' none ++ blocks.flatten)] ∧ d'.multiFile = false) ∧
      OrderClause (C03_Emission.emitted E (.kotlin cfg) targetOs f) items := by
    by_cases hP : parsedItems E (ctxOf (.kotlin cfg) targetOs) f.file = []
    · exact ⟨[], [], default, by simp [C03_Emission.emitted, hP], .nil, fun hne => absurd hP hne, orderClause_nil _⟩
    · obtain ⟨d', hperm, hmf, _, hg⟩ := hcons hP
      simp only [genAll, Kt.generateAll_single] at hg
      obtain ⟨text, hgen, hg⟩ := bindOk hg
      cases hg
      obtain ⟨items, blocks, ho, hp, htext⟩ := Kt.generate_blocks cfg d' none text hgen
      exact ⟨items, blocks, d', (C12L.generateOrder_perm d' items ho).trans hperm, hp,
        fun _ => ⟨by rw [htext], hmf⟩, orderClause_of d' items _ ho hperm⟩
  obtain ⟨items, blocks, d', hperm, hpair, hout, hord⟩ := hblocks
  refine ⟨_, items, blocks, d', rfl, hal, hperm, hpair.mono fun it b hw => ⟨hw, Kt.block_defines cfg it b hw⟩,
    hnil, hout, ?_, ?_, refsClause _ _ _, ?_, hord⟩
  · intro attrs ident gens fs rs hsrc hparse
    have hmem := mem_emitted E (.kotlin cfg) targetOs f hsrc (by rw [parseItem_struct]; exact hparse)
    obtain ⟨k, b, hk, hb, hw⟩ := Cap.Kt.block_of cfg hperm hpair hmem
    rw [recItem_struct] at hk hw
    obtain ⟨d, hd, rfl⟩ := Cap.Kt.writeItem_struct cfg _ b hw
    exact ⟨k, d, hk, hd, hb, Cap.Kt.struct_ok E hU cfg targetOs _ _ attrs ident gens fs rs d hparse hd⟩
  · intro attrs ident gens vs e hsrc hparse
    have hmem := mem_emitted E (.kotlin cfg) targetOs f hsrc (by rw [parseItem_enum]; exact hparse)
    obtain ⟨k, b, hk, hb, hw⟩ := Cap.Kt.block_of cfg hperm hpair hmem
    rw [recItem_enum] at hk hw
    obtain ⟨ds, hd, rfl⟩ := Cap.Kt.writeItem_enum cfg _ b hw
    obtain ⟨inners, rest, hds, hi, hcl⟩ := Cap.Kt.enum_ok E hU cfg hcU targetOs _ _ attrs ident gens vs e ds [] hparse hd
    exact ⟨k, ds, inners, rest, hk, hd, hb, hds, hi, hcl⟩
  · intro t ht
    obtain ⟨k, b, hk, hb, hw⟩ := Cap.Kt.block_of cfg hperm hpair (List.mem_map.2 ⟨t, ht, rfl⟩)
    have hdef := Kt.block_defines cfg _ b hw
    rw [ktDefs_rec] at hdef
    refine ⟨k, b, hk, hb, hdef, C03_Emission.last_def_kotlin cfg t ?_⟩
    cases t with
    | const c => simp [recItem, Kt.writeItem_not_const] at hw
    | _ => rfl

/-- **TypeScript.** -/
theorem run_guarantees_typescript (E : Ext) (hU : E.U.AsciiCorrect) (cfg : TypeScript.Cfg) (targetOs : List Str)
    (pick : List ImportedType → Option ImportedType) (f : SourceFile) (outs : List (Str × Str))
    (h : run E (.typescript cfg) false targetOs pick [f] = .ok (.outputs outs)) :
    ∃ (parsed items : List RustItem) (blocks : List Str) (stN : TypeScript.CustomMap),
      parsed = parsedItems E (ctxOf (.typescript cfg) targetOs) f.file ∧
      -- (1) every annotated accepted item parsed; one block per item, written by `writeItem` on the reconciled
      -- item, the printer state threaded from block to block
      (sourceItems (ctxOf (.typescript cfg) targetOs) f.file).map (C03.parseItem E (ctxOf (.typescript cfg) targetOs)) =
        parsed.map Outcome.ok ∧
      items.Perm (parsed.map (recItem f.crateName (renamesFor f.crateName parsed))) ∧
      Threaded (TypeScript.writeItem E.U cfg) items [] blocks stN ∧
      Paired (fun it b => SplitsInto (tsDefs E.U it) b) items blocks ∧
      (parsed = [] → outs = []) ∧
      (parsed ≠ [] → outs = [(f.crateName, TS.header cfg none ++ blocks.flatten ++ TypeScript.endFile stN)]) ∧
      -- (2) + (3) structs
      (∀ attrs ident gens fs rs,
        Item.struct attrs ident gens (.named fs) ∈ sourceItems (ctxOf (.typescript cfg) targetOs) f.file →
        parseStruct E targetOs attrs ident gens (.named fs) = .ok (.struct rs) →
        ∃ (k : Nat) (tfs : List TypeScript.TsField) (st st' : TypeScript.CustomMap),
          items[k]? = some (.struct (recStruct f.crateName (renamesFor f.crateName parsed) rs)) ∧
          C01.TypeScript.fieldsFacts cfg rs.genericTypes
            (recStruct f.crateName (renamesFor f.crateName parsed) rs).fields st = .ok (tfs, st') ∧
          blocks[k]? = some (TypeScript.comments 0 rs.comments ++ s%"export interface " ++ rs.id.renamed ++
            genericSuffix rs.genericTypes ++ s%" {\n" ++ tfs.flatMap TypeScript.renderField ++ s%"}\n\n") ∧
          StructClauses E .typescript (.typescript cfg) targetOs f.crateName (renamesFor f.crateName parsed) attrs fs
            (recStruct f.crateName (renamesFor f.crateName parsed) rs)
            (tfs.map C01.TypeScript.boundKey) Cap.TS.Reads tfs) ∧
      -- (2) + (4) enums
      (∀ attrs ident gens vs e,
        Item.enum attrs ident gens vs ∈ sourceItems (ctxOf (.typescript cfg) targetOs) f.file →
        parseEnum E targetOs attrs ident gens vs = .ok (.enum e) →
        ∃ (k : Nat) (d : C02.TS.EnumDecl) (tfss : List (List TypeScript.TsField)) (st st' : TypeScript.CustomMap),
          items[k]? = some (.enum (recEnum f.crateName (renamesFor f.crateName parsed) e)) ∧
          C02.TS.enumFacts cfg (recEnum f.crateName (renamesFor f.crateName parsed) e) st = .ok (d, st') ∧
          blocks[k]? = some (C02.TS.renderEnumDecl d) ∧
          C01.TypeScript.variantsFacts cfg (recEnum f.crateName (renamesFor f.crateName parsed) e)
            (recEnum f.crateName (renamesFor f.crateName parsed) e).variants st = .ok (tfss, st') ∧
          EnumClauses E .typescript targetOs attrs vs (recEnum f.crateName (renamesFor f.crateName parsed) e) []
            (tfss.map (·.map C01.TypeScript.boundKey)) (C02.TS.wire d)) ∧
      -- (5) references
      RefsClause (.typescript cfg) f.crateName parsed ∧
      (∀ t ∈ parsed, ∃ (k : Nat) (b : Str),
        items[k]? = some (recItem f.crateName (renamesFor f.crateName parsed) t) ∧ blocks[k]? = some b ∧
        SplitsInto (tsDefs E.U t) b ∧
        (isConst t = false → ((tsDefs E.U t).map (·.2)).getLast? = some (C09.defName (.typescript cfg) t))) ∧
      -- (6) order
      OrderClause (parsed.map (recItem f.crateName (renamesFor f.crateName parsed))) items := by
  obtain ⟨hal, hnil, hcons⟩ := run_core E (.typescript cfg) targetOs pick f outs h
  have hblocks : ∃ (items : List RustItem) (blocks : List Str) (stN : TypeScript.CustomMap),
      items.Perm (C03_Emission.emitted E (.typescript cfg) targetOs f) ∧
      Threaded (TypeScript.writeItem E.U cfg) items [] blocks stN ∧
      (parsedItems E (ctxOf (.typescript cfg) targetOs) f.file ≠ [] →
        outs = [(f.crateName, TS.header cfg none ++ blocks.flatten ++ TypeScript.endFile stN)]) ∧
      OrderClause (C03_Emission.emitted E (.typescript cfg) targetOs f) items := by
    by_cases hP : parsedItems E (ctxOf (.typescript cfg) targetOs) f.file = []
    · exact ⟨[], [], [], by simp [C03_Emission.emitted, hP], .nil _, fun hne => absurd hP hne, orderClause_nil _⟩
    · obtain ⟨d', hperm, _, _, hg⟩ := hcons hP
      simp only [genAll, TS.generateAll_single] at hg
      obtain ⟨⟨text, stN⟩, hgen, hg⟩ := bindOk hg
      cases hg
      obtain ⟨items, blocks, ho, ht, htext⟩ := TS.generate_blocks E.U cfg d' none [] text stN hgen
      exact ⟨items, blocks, stN, (C12L.generateOrder_perm d' items ho).trans hperm, ht,
        fun _ => by rw [htext], orderClause_of d' items _ ho hperm⟩
  obtain ⟨items, blocks, stN, hperm, hthr, hout, hord⟩ := hblocks
  refine ⟨_, items, blocks, stN, rfl, hal, hperm, hthr,
    hthr.forall₂.mono fun it b ⟨s, s', hw⟩ => TS.block_defines E.U cfg it s b s' hw,
    hnil, hout, ?_, ?_, refsClause _ _ _, ?_, hord⟩
  · intro attrs ident gens fs rs hsrc hparse
    have hmem := mem_emitted E (.typescript cfg) targetOs f hsrc (by rw [parseItem_struct]; exact hparse)
    obtain ⟨k, b, st, st', hk, hb, hw⟩ := Cap.TS.block_of E.U cfg hperm hthr hmem
    rw [recItem_struct] at hk hw
    obtain ⟨tfs, hd, rfl⟩ := Cap.TS.writeItem_struct E.U cfg _ st st' b hw
    exact ⟨k, tfs, st, st', hk, hd, hb,
      Cap.TS.struct_ok E hU cfg targetOs _ _ attrs ident gens fs rs st st' tfs hparse hd⟩
  · intro attrs ident gens vs e hsrc hparse
    have hmem := mem_emitted E (.typescript cfg) targetOs f hsrc (by rw [parseItem_enum]; exact hparse)
    obtain ⟨k, b, st, st', hk, hb, hw⟩ := Cap.TS.block_of E.U cfg hperm hthr hmem
    rw [recItem_enum] at hk hw
    obtain ⟨d, tfss, hd, rfl, ht⟩ :=
      Cap.TS.writeItem_enum E cfg targetOs attrs ident gens vs e _ _ hparse st st' b hw
    exact ⟨k, d, tfss, st, st', hk, hd, hb, ht,
      Cap.TS.enum_ok E hU cfg targetOs _ _ attrs ident gens vs e st st' d tfss [] hparse hd ht⟩
  · intro t ht
    obtain ⟨k, b, st, st', hk, hb, hw⟩ := Cap.TS.block_of E.U cfg hperm hthr (List.mem_map.2 ⟨t, ht, rfl⟩)
    have hdef := TS.block_defines E.U cfg _ st b st' hw
    rw [tsDefs_rec] at hdef
    exact ⟨k, b, hk, hb, hdef, C03_Emission.last_def_typescript E.U cfg t⟩

/-- **Swift.** -/
theorem run_guarantees_swift (E : Ext) (hU : E.U.AsciiCorrect) (cfg : Swift.Cfg) (targetOs : List Str)
    (pick : List ImportedType → Option ImportedType) (f : SourceFile) (outs : List (Str × Str))
    (h : run E (.swift cfg) false targetOs pick [f] = .ok (.outputs outs)) :
    ∃ (parsed items : List RustItem) (blocks : List Str) (stN : Swift.St),
      parsed = parsedItems E (ctxOf (.swift cfg) targetOs) f.file ∧
      -- (1)
      (sourceItems (ctxOf (.swift cfg) targetOs) f.file).map (C03.parseItem E (ctxOf (.swift cfg) targetOs)) =
        parsed.map Outcome.ok ∧
      items.Perm (parsed.map (recItem f.crateName (renamesFor f.crateName parsed))) ∧
      Threaded (Swift.writeItem E.U cfg) items false blocks stN ∧
      Paired (fun it b => SplitsInto (swDefs cfg it) b) items blocks ∧
      (parsed = [] → outs = []) ∧
      (parsed ≠ [] → outs = [(f.crateName, Swift.beginFile cfg ++ blocks.flatten ++ Swift.endFile cfg false stN)]) ∧
      -- (2) + (3) structs
      (∀ attrs ident gens fs rs,
        Item.struct attrs ident gens (.named fs) ∈ sourceItems (ctxOf (.swift cfg) targetOs) f.file →
        parseStruct E targetOs attrs ident gens (.named fs) = .ok (.struct rs) →
        ∃ (k : Nat) (s : Swift.SwiftStruct) (st st' : Swift.St),
          items[k]? = some (.struct (recStruct f.crateName (renamesFor f.crateName parsed) rs)) ∧
          Swift.structFacts E.U cfg (recStruct f.crateName (renamesFor f.crateName parsed) rs) st = .ok (s, st') ∧
          blocks[k]? = some (Swift.renderStruct E.U s) ∧
          StructClauses E .swift (.swift cfg) targetOs f.crateName (renamesFor f.crateName parsed) attrs fs
            (recStruct f.crateName (renamesFor f.crateName parsed) rs)
            (C01.Swift.structKeys s) Cap.Sw.Reads s.props) ∧
      -- (2) + (4) enums
      (∀ attrs ident gens vs e,
        Item.enum attrs ident gens vs ∈ sourceItems (ctxOf (.swift cfg) targetOs) f.file →
        parseEnum E targetOs attrs ident gens vs = .ok (.enum e) →
        ∃ (k : Nat) (ss : List Swift.SwiftStruct) (se : Swift.SwiftEnum) (st st' : Swift.St),
          items[k]? = some (.enum (recEnum f.crateName (renamesFor f.crateName parsed) e)) ∧
          Swift.enumFacts E.U cfg (recEnum f.crateName (renamesFor f.crateName parsed) e) st = .ok (ss, se, st') ∧
          blocks[k]? = some (nl ++ ss.flatMap (Swift.renderStruct E.U) ++ Swift.renderEnum E.U se) ∧
          EnumClauses E .swift targetOs attrs vs (recEnum f.crateName (renamesFor f.crateName parsed) e) []
            (ss.map C01.Swift.structKeys) (C02.Sw.wire se)) ∧
      -- (5) references
      RefsClause (.swift cfg) f.crateName parsed ∧
      (∀ t ∈ parsed, ∃ (k : Nat) (b : Str),
        items[k]? = some (recItem f.crateName (renamesFor f.crateName parsed) t) ∧ blocks[k]? = some b ∧
        SplitsInto (swDefs cfg t) b ∧
        ((swDefs cfg t).map (·.2)).getLast? = some (Swift.kw (C09.defName (.swift cfg) t))) ∧
      -- (6) order
      OrderClause (parsed.map (recItem f.crateName (renamesFor f.crateName parsed))) items := by
  obtain ⟨hal, hnil, hcons⟩ := run_core E (.swift cfg) targetOs pick f outs h
  have hblocks : ∃ (items : List RustItem) (blocks : List Str) (stN : Swift.St),
      items.Perm (C03_Emission.emitted E (.swift cfg) targetOs f) ∧
      Threaded (Swift.writeItem E.U cfg) items false blocks stN ∧
      (parsedItems E (ctxOf (.swift cfg) targetOs) f.file ≠ [] →
        outs = [(f.crateName, Swift.beginFile cfg ++ blocks.flatten ++ Swift.endFile cfg false stN)]) ∧
      OrderClause (C03_Emission.emitted E (.swift cfg) targetOs f) items := by
    by_cases hP : parsedItems E (ctxOf (.swift cfg) targetOs) f.file = []
    · exact ⟨[], [], false, by simp [C03_Emission.emitted, hP], .nil _, fun hne => absurd hP hne, orderClause_nil _⟩
    · obtain ⟨d', hperm, _, _, hg⟩ := hcons hP
      simp only [genAll, Sw.generateAll_single] at hg
      obtain ⟨⟨text, stN⟩, hgen, hg⟩ := bindOk hg
      cases hg
      obtain ⟨items, blocks, ho, ht, htext⟩ := Sw.generate_blocks E.U cfg false d' false text stN hgen
      exact ⟨items, blocks, stN, (C12L.generateOrder_perm d' items ho).trans hperm, ht,
        fun _ => by rw [htext], orderClause_of d' items _ ho hperm⟩
  obtain ⟨items, blocks, stN, hperm, hthr, hout, hord⟩ := hblocks
  refine ⟨_, items, blocks, stN, rfl, hal, hperm, hthr,
    hthr.forall₂.mono fun it b ⟨s, s', hw⟩ => Sw.block_defines E.U cfg it s b s' hw,
    hnil, hout, ?_, ?_, refsClause _ _ _, ?_, hord⟩
  · intro attrs ident gens fs rs hsrc hparse
    have hmem := mem_emitted E (.swift cfg) targetOs f hsrc (by rw [parseItem_struct]; exact hparse)
    obtain ⟨k, b, st, st', hk, hb, hw⟩ := Cap.Sw.block_of E.U cfg hperm hthr hmem
    rw [recItem_struct] at hk hw
    obtain ⟨s, hd, rfl⟩ := Cap.Sw.writeItem_struct E.U cfg _ st st' b hw
    exact ⟨k, s, st, st', hk, hd, hb,
      Cap.Sw.struct_ok E hU cfg targetOs _ _ attrs ident gens fs rs st st' s hparse hd⟩
  · intro attrs ident gens vs e hsrc hparse
    have hmem := mem_emitted E (.swift cfg) targetOs f hsrc (by rw [parseItem_enum]; exact hparse)
    obtain ⟨k, b, st, st', hk, hb, hw⟩ := Cap.Sw.block_of E.U cfg hperm hthr hmem
    rw [recItem_enum] at hk hw
    obtain ⟨ss, se, hd, rfl⟩ := Cap.Sw.writeItem_enum E.U cfg _ st st' b hw
    exact ⟨k, ss, se, st, st', hk, hd, hb,
      Cap.Sw.enum_ok E hU cfg targetOs _ _ attrs ident gens vs e st st' ss se [] hparse hd⟩
  · intro t ht
    obtain ⟨k, b, st, st', hk, hb, hw⟩ := Cap.Sw.block_of E.U cfg hperm hthr (List.mem_map.2 ⟨t, ht, rfl⟩)
    have hdef := Sw.block_defines E.U cfg _ st b st' hw
    rw [swDefs_rec] at hdef
    refine ⟨k, b, hk, hb, hdef, C03_Emission.last_def_swift cfg t ?_⟩
    cases t with
    | const c => simp [recItem, Sw.writeItem_not_const] at hw
    | _ => rfl

/-- **Scala.**  The blocks are in `ParsedData` order (aliases, structs, enums, each list sorted by Rust name
by `reconcile`): Scala does not use `generateOrder`, so there is no clause (6). -/
theorem run_guarantees_scala (E : Ext) (hU : E.U.AsciiCorrect) (cfg : Scala.Cfg) (targetOs : List Str)
    (pick : List ImportedType → Option ImportedType) (f : SourceFile) (outs : List (Str × Str))
    (h : run E (.scala cfg) false targetOs pick [f] = .ok (.outputs outs)) :
    ∃ (parsed items : List RustItem) (blocks : List Str) (d' : ParsedData),
      parsed = parsedItems E (ctxOf (.scala cfg) targetOs) f.file ∧
      -- (1)
      (sourceItems (ctxOf (.scala cfg) targetOs) f.file).map (C03.parseItem E (ctxOf (.scala cfg) targetOs)) =
        parsed.map Outcome.ok ∧
      items.Perm (parsed.map (recItem f.crateName (renamesFor f.crateName parsed))) ∧
      Paired (fun it b => Sc.writeItem cfg it = .ok b ∧ SplitsInto (scDefs it) b) items blocks ∧
      (parsed = [] → outs = []) ∧
      (parsed ≠ [] → items = C12L.itemsOf d' ∧
        outs = [(f.crateName, Sc.pre cfg d' ++ (blocks.take d'.aliases.length).flatten ++ Sc.mid cfg d' ++
          (blocks.drop d'.aliases.length).flatten ++ Sc.post d')]) ∧
      -- (2) + (3) structs
      (∀ attrs ident gens fs rs,
        Item.struct attrs ident gens (.named fs) ∈ sourceItems (ctxOf (.scala cfg) targetOs) f.file →
        parseStruct E targetOs attrs ident gens (.named fs) = .ok (.struct rs) →
        ∃ (k : Nat) (cl : Scala.ScClass),
          items[k]? = some (.struct (recStruct f.crateName (renamesFor f.crateName parsed) rs)) ∧
          Scala.classFacts cfg (recStruct f.crateName (renamesFor f.crateName parsed) rs) = .ok cl ∧
          blocks[k]? = some (Scala.renderClass cl) ∧
          StructClauses E .scala (.scala cfg) targetOs f.crateName (renamesFor f.crateName parsed) attrs fs
            (recStruct f.crateName (renamesFor f.crateName parsed) rs)
            (cl.params.map C01.Scala.boundKey) Cap.Sc.Reads cl.params) ∧
      -- (2) + (4) enums
      (∀ attrs ident gens vs e,
        Item.enum attrs ident gens vs ∈ sourceItems (ctxOf (.scala cfg) targetOs) f.file →
        parseEnum E targetOs attrs ident gens vs = .ok (.enum e) →
        ∃ (k : Nat) (se : Scala.ScEnum),
          items[k]? = some (.enum (recEnum f.crateName (renamesFor f.crateName parsed) e)) ∧
          Scala.enumFacts cfg (recEnum f.crateName (renamesFor f.crateName parsed) e) = .ok se ∧
          blocks[k]? = some (Scala.renderEnum se) ∧
          EnumClauses E .scala targetOs attrs vs (recEnum f.crateName (renamesFor f.crateName parsed) e) []
            (se.inner.map (·.params.map C01.Scala.boundKey)) (C02.Sc.wire se)) ∧
      -- (5) references
      RefsClause (.scala cfg) f.crateName parsed ∧
      (∀ t ∈ parsed, ∃ (k : Nat) (b : Str),
        items[k]? = some (recItem f.crateName (renamesFor f.crateName parsed) t) ∧ blocks[k]? = some b ∧
        SplitsInto (scDefs t) b ∧ ((scDefs t).map (·.2)).getLast? = some (C09.defName (.scala cfg) t)) := by
  obtain ⟨hal, hnil, hcons⟩ := run_core E (.scala cfg) targetOs pick f outs h
  have hblocks : ∃ (items : List RustItem) (blocks : List Str) (d' : ParsedData),
      items.Perm (C03_Emission.emitted E (.scala cfg) targetOs f) ∧
      Paired (fun it b => Sc.writeItem cfg it = .ok b) items blocks ∧
      (parsedItems E (ctxOf (.scala cfg) targetOs) f.file ≠ [] → items = C12L.itemsOf d' ∧
        outs = [(f.crateName, Sc.pre cfg d' ++ (blocks.take d'.aliases.length).flatten ++ Sc.mid cfg d' ++
          (blocks.drop d'.aliases.length).flatten ++ Sc.post d')]) := by
    by_cases hP : parsedItems E (ctxOf (.scala cfg) targetOs) f.file = []
    · exact ⟨[], [], default, by simp [C03_Emission.emitted, hP], .nil, fun hne => absurd hP hne⟩
    · obtain ⟨d', hperm, _, _, hg⟩ := hcons hP
      simp only [genAll, Sc.generateAll_single] at hg
      obtain ⟨text, hgen, hg⟩ := bindOk hg
      cases hg
      obtain ⟨blocks, hp, htext⟩ := Sc.generate_items cfg d' text hgen
      exact ⟨_, blocks, d', hperm, hp, fun _ => ⟨rfl, by rw [htext]⟩⟩
  obtain ⟨items, blocks, d', hperm, hpair, hout⟩ := hblocks
  refine ⟨_, items, blocks, d', rfl, hal, hperm, hpair.mono fun it b hw => ⟨hw, Sc.block_defines cfg it b hw⟩,
    hnil, hout, ?_, ?_, refsClause _ _ _, ?_⟩
  · intro attrs ident gens fs rs hsrc hparse
    have hmem := mem_emitted E (.scala cfg) targetOs f hsrc (by rw [parseItem_struct]; exact hparse)
    obtain ⟨k, b, hk, hb, hw⟩ := Cap.Sc.block_of cfg hperm hpair hmem
    rw [recItem_struct] at hk hw
    obtain ⟨cl, hd, rfl⟩ := Cap.Sc.writeItem_struct cfg _ b hw
    exact ⟨k, cl, hk, hd, hb, Cap.Sc.struct_ok E hU cfg targetOs _ _ attrs ident gens fs rs cl hparse hd⟩
  · intro attrs ident gens vs e hsrc hparse
    have hmem := mem_emitted E (.scala cfg) targetOs f hsrc (by rw [parseItem_enum]; exact hparse)
    obtain ⟨k, b, hk, hb, hw⟩ := Cap.Sc.block_of cfg hperm hpair hmem
    rw [recItem_enum] at hk hw
    obtain ⟨se, hd, rfl⟩ := Cap.Sc.writeItem_enum cfg _ b hw
    exact ⟨k, se, hk, hd, hb, Cap.Sc.enum_ok E hU cfg targetOs _ _ attrs ident gens vs e se [] hparse hd⟩
  · intro t ht
    obtain ⟨k, b, hk, hb, hw⟩ := Cap.Sc.block_of cfg hperm hpair (List.mem_map.2 ⟨t, ht, rfl⟩)
    have hdef := Sc.block_defines cfg _ b hw
    rw [scDefs_rec] at hdef
    refine ⟨k, b, hk, hb, hdef, C03_Emission.last_def_scala cfg t ?_⟩
    cases t with
    | const c => simp [recItem, Sc.writeItem] at hw
    | _ => rfl

/-- **Go.**  `customStructs` (the names `types_mapping_to_struct` finds among the items) is the same for
every block; C02's known class is evaluated at the configured `uppercase_acronyms`. -/
theorem run_guarantees_go (E : Ext) (hU : E.U.AsciiCorrect) (cfg : Go.Cfg) (targetOs : List Str)
    (pick : List ImportedType → Option ImportedType) (f : SourceFile) (outs : List (Str × Str))
    (h : run E (.go cfg) false targetOs pick [f] = .ok (.outputs outs)) :
    ∃ (parsed items : List RustItem) (blocks : List Str) (stN : Go.Imports),
      parsed = parsedItems E (ctxOf (.go cfg) targetOs) f.file ∧
      -- (1)
      (sourceItems (ctxOf (.go cfg) targetOs) f.file).map (C03.parseItem E (ctxOf (.go cfg) targetOs)) =
        parsed.map Outcome.ok ∧
      items.Perm (parsed.map (recItem f.crateName (renamesFor f.crateName parsed))) ∧
      Threaded (Go.writeItem E.U cfg (Go.typesMappingToStruct items)) items (Go.addImport [] s%"encoding/json") blocks stN ∧
      Paired (fun it b => ∃ defs, goDefs E.U cfg it = .ok defs ∧ SplitsInto defs b) items blocks ∧
      (parsed = [] → outs = []) ∧
      (parsed ≠ [] → outs = [(f.crateName, Go.beginFile cfg ++ Go.renderImports stN ++ blocks.flatten)]) ∧
      -- (2) + (3) structs
      (∀ attrs ident gens fs rs,
        Item.struct attrs ident gens (.named fs) ∈ sourceItems (ctxOf (.go cfg) targetOs) f.file →
        parseStruct E targetOs attrs ident gens (.named fs) = .ok (.struct rs) →
        ∃ (k : Nat) (d : Go.GoStruct) (st st' : Go.Imports),
          items[k]? = some (.struct (recStruct f.crateName (renamesFor f.crateName parsed) rs)) ∧
          Go.structFacts E.U cfg (recStruct f.crateName (renamesFor f.crateName parsed) rs) st = .ok (d, st') ∧
          blocks[k]? = some (Go.renderStruct d) ∧
          StructClauses E .go (.go cfg) targetOs f.crateName (renamesFor f.crateName parsed) attrs fs
            (recStruct f.crateName (renamesFor f.crateName parsed) rs)
            (d.fields.map C01.Go.boundKey) (Cap.Go.Reads cfg) d.fields) ∧
      -- (2) + (4) enums
      (∀ attrs ident gens vs e,
        Item.enum attrs ident gens vs ∈ sourceItems (ctxOf (.go cfg) targetOs) f.file →
        parseEnum E targetOs attrs ident gens vs = .ok (.enum e) →
        ∃ (k : Nat) (d : C02.Go.EnumDecl) (st st' : Go.Imports),
          items[k]? = some (.enum (recEnum f.crateName (renamesFor f.crateName parsed) e)) ∧
          C02.Go.enumFacts E.U cfg (recEnum f.crateName (renamesFor f.crateName parsed) e)
            (Go.typesMappingToStruct items) st = .ok (d, st') ∧
          blocks[k]? = some (C02.Go.renderDecl d) ∧
          EnumClauses E .go targetOs attrs vs (recEnum f.crateName (renamesFor f.crateName parsed) e)
            cfg.uppercaseAcronyms ((Cap.Go.anonOf d).map (·.fields.map C01.Go.boundKey)) (C02.Go.wire d)) ∧
      -- (5) references
      RefsClause (.go cfg) f.crateName parsed ∧
      (∀ t ∈ parsed, ∃ (k : Nat) (b : Str) (defs : List (Str × Str)),
        items[k]? = some (recItem f.crateName (renamesFor f.crateName parsed) t) ∧ blocks[k]? = some b ∧
        goDefs E.U cfg t = .ok defs ∧ SplitsInto defs b ∧
        (cfg.uppercaseAcronyms = [] → isConst t = false →
          (defs.map (·.2)).getLast? = some (C09.defName (.go cfg) t))) ∧
      -- (6) order
      OrderClause (parsed.map (recItem f.crateName (renamesFor f.crateName parsed))) items := by
  obtain ⟨hal, hnil, hcons⟩ := run_core E (.go cfg) targetOs pick f outs h
  have hblocks : ∃ (items : List RustItem) (blocks : List Str) (stN : Go.Imports),
      items.Perm (C03_Emission.emitted E (.go cfg) targetOs f) ∧
      Threaded (Go.writeItem E.U cfg (Go.typesMappingToStruct items)) items (Go.addImport [] s%"encoding/json") blocks stN ∧
      (parsedItems E (ctxOf (.go cfg) targetOs) f.file ≠ [] →
        outs = [(f.crateName, Go.beginFile cfg ++ Go.renderImports stN ++ blocks.flatten)]) ∧
      OrderClause (C03_Emission.emitted E (.go cfg) targetOs f) items := by
    by_cases hP : parsedItems E (ctxOf (.go cfg) targetOs) f.file = []
    · exact ⟨[], [], _, by simp [C03_Emission.emitted, hP], .nil _, fun hne => absurd hP hne, orderClause_nil _⟩
    · obtain ⟨d', hperm, _, _, hg⟩ := hcons hP
      simp only [genAll, C03E.Go.generateAll_single] at hg
      obtain ⟨⟨text, stN⟩, hgen, hg⟩ := bindOk hg
      cases hg
      obtain ⟨items, blocks, ho, ht, htext⟩ := C03E.Go.generate_blocks E.U cfg d' [] text stN hgen
      exact ⟨items, blocks, stN, (C12L.generateOrder_perm d' items ho).trans hperm, ht,
        fun _ => by rw [htext], orderClause_of d' items _ ho hperm⟩
  obtain ⟨items, blocks, stN, hperm, hthr, hout, hord⟩ := hblocks
  refine ⟨_, items, blocks, stN, rfl, hal, hperm, hthr,
    hthr.forall₂.mono fun it b ⟨s, s', hw⟩ => C03E.Go.block_defines E.U cfg _ it s b s' hw,
    hnil, hout, ?_, ?_, refsClause _ _ _, ?_, hord⟩
  · intro attrs ident gens fs rs hsrc hparse
    have hmem := mem_emitted E (.go cfg) targetOs f hsrc (by rw [parseItem_struct]; exact hparse)
    obtain ⟨k, b, st, st', hk, hb, hw⟩ := Cap.Go.block_of E.U cfg _ hperm hthr hmem
    rw [recItem_struct] at hk hw
    obtain ⟨d, hd, rfl⟩ := Cap.Go.writeItem_struct E.U cfg _ _ st st' b hw
    exact ⟨k, d, st, st', hk, hd, hb,
      Cap.Go.struct_ok E hU cfg targetOs _ _ attrs ident gens fs rs st st' d hparse hd⟩
  · intro attrs ident gens vs e hsrc hparse
    have hmem := mem_emitted E (.go cfg) targetOs f hsrc (by rw [parseItem_enum]; exact hparse)
    obtain ⟨k, b, st, st', hk, hb, hw⟩ := Cap.Go.block_of E.U cfg _ hperm hthr hmem
    rw [recItem_enum] at hk hw
    obtain ⟨d, hd, rfl⟩ := Cap.Go.writeItem_enum E.U cfg _ _ st st' b hw
    exact ⟨k, d, st, st', hk, hd, hb,
      Cap.Go.enum_ok E hU cfg _ targetOs _ _ attrs ident gens vs e st st' d hparse hd⟩
  · intro t ht
    obtain ⟨k, b, st, st', hk, hb, hw⟩ := Cap.Go.block_of E.U cfg _ hperm hthr (List.mem_map.2 ⟨t, ht, rfl⟩)
    obtain ⟨defs, hdefs, hsp⟩ := C03E.Go.block_defines E.U cfg _ _ st b st' hw
    rw [goDefs_rec] at hdefs
    exact ⟨k, b, defs, hk, hb, hdefs, hsp, fun hc hnc => C03_Emission.last_def_go E.U cfg hc t hnc defs hdefs⟩

/-- **Python.**  C04's reading of a field record is the relation `Py.Denotes`. -/
theorem run_guarantees_python (E : Ext) (hU : E.U.AsciiCorrect) (cfg : Python.Cfg) (targetOs : List Str)
    (pick : List ImportedType → Option ImportedType) (f : SourceFile) (outs : List (Str × Str))
    (h : run E (.python cfg) false targetOs pick [f] = .ok (.outputs outs)) :
    ∃ (parsed items : List RustItem) (blocks : List Str) (stN : Python.St),
      parsed = parsedItems E (ctxOf (.python cfg) targetOs) f.file ∧
      -- (1)
      (sourceItems (ctxOf (.python cfg) targetOs) f.file).map (C03.parseItem E (ctxOf (.python cfg) targetOs)) =
        parsed.map Outcome.ok ∧
      items.Perm (parsed.map (recItem f.crateName (renamesFor f.crateName parsed))) ∧
      Threaded (Python.writeItem E cfg) items {} blocks stN ∧
      Paired (fun it b => SplitsInto (pyDefs E it) b) items blocks ∧
      (parsed = [] → outs = []) ∧
      (parsed ≠ [] → outs = [(f.crateName, Python.beginFile cfg ++
        Python.writeAllImports (Python.addDatetimeImport stN) ++
        Python.writeCustomFns (Python.addDatetimeImport stN) ++ blocks.flatten)]) ∧
      -- (2) + (3) structs
      (∀ attrs ident gens fs rs,
        Item.struct attrs ident gens (.named fs) ∈ sourceItems (ctxOf (.python cfg) targetOs) f.file →
        parseStruct E targetOs attrs ident gens (.named fs) = .ok (.struct rs) →
        ∃ (k : Nat) (cl : Python.PyClass) (st st' : Python.St),
          items[k]? = some (.struct (recStruct f.crateName (renamesFor f.crateName parsed) rs)) ∧
          Python.structFacts E cfg (recStruct f.crateName (renamesFor f.crateName parsed) rs) st = .ok (cl, st') ∧
          blocks[k]? = some (Python.renderClass cl) ∧
          StructClauses E .python (.python cfg) targetOs f.crateName (renamesFor f.crateName parsed) attrs fs
            (recStruct f.crateName (renamesFor f.crateName parsed) rs)
            (cl.fields.map C01.Python.boundKey) C04.Py.Denotes cl.fields) ∧
      -- (2) + (4) enums
      (∀ attrs ident gens vs e,
        Item.enum attrs ident gens vs ∈ sourceItems (ctxOf (.python cfg) targetOs) f.file →
        parseEnum E targetOs attrs ident gens vs = .ok (.enum e) →
        ∃ (k : Nat) (d : C02.Py.EnumDecl) (st st' : Python.St),
          items[k]? = some (.enum (recEnum f.crateName (renamesFor f.crateName parsed) e)) ∧
          C02.Py.enumFacts E cfg (recEnum f.crateName (renamesFor f.crateName parsed) e) st = .ok (d, st') ∧
          blocks[k]? = some (C02.Py.renderDecl d) ∧
          EnumClauses E .python targetOs attrs vs (recEnum f.crateName (renamesFor f.crateName parsed) e) []
            ((Cap.Py.innerOf d).map (·.fields.map C01.Python.boundKey)) (C02.Py.wire d)) ∧
      -- (5) references
      RefsClause (.python cfg) f.crateName parsed ∧
      (∀ t ∈ parsed, ∃ (k : Nat) (b : Str),
        items[k]? = some (recItem f.crateName (renamesFor f.crateName parsed) t) ∧ blocks[k]? = some b ∧
        SplitsInto (pyDefs E t) b ∧
        (isConst t = false → ((pyDefs E t).map (·.2)).getLast? = some (C09.defName (.python cfg) t))) ∧
      -- (6) order
      OrderClause (parsed.map (recItem f.crateName (renamesFor f.crateName parsed))) items := by
  obtain ⟨hal, hnil, hcons⟩ := run_core E (.python cfg) targetOs pick f outs h
  have hblocks : ∃ (items : List RustItem) (blocks : List Str) (stN : Python.St),
      items.Perm (C03_Emission.emitted E (.python cfg) targetOs f) ∧
      Threaded (Python.writeItem E cfg) items {} blocks stN ∧
      (parsedItems E (ctxOf (.python cfg) targetOs) f.file ≠ [] →
        outs = [(f.crateName, Python.beginFile cfg ++ Python.writeAllImports (Python.addDatetimeImport stN) ++
          Python.writeCustomFns (Python.addDatetimeImport stN) ++ blocks.flatten)]) ∧
      OrderClause (C03_Emission.emitted E (.python cfg) targetOs f) items := by
    by_cases hP : parsedItems E (ctxOf (.python cfg) targetOs) f.file = []
    · exact ⟨[], [], {}, by simp [C03_Emission.emitted, hP], .nil _, fun hne => absurd hP hne, orderClause_nil _⟩
    · obtain ⟨d', hperm, _, _, hg⟩ := hcons hP
      simp only [genAll, Py.generateAll_single] at hg
      obtain ⟨⟨text, stF⟩, hgen, hg⟩ := bindOk hg
      cases hg
      obtain ⟨items, blocks, st1, ho, ht, rfl, htext⟩ := Py.generate_blocks E cfg d' {} text stF hgen
      exact ⟨items, blocks, st1, (C12L.generateOrder_perm d' items ho).trans hperm, ht,
        fun _ => by rw [htext], orderClause_of d' items _ ho hperm⟩
  obtain ⟨items, blocks, stN, hperm, hthr, hout, hord⟩ := hblocks
  refine ⟨_, items, blocks, stN, rfl, hal, hperm, hthr,
    hthr.forall₂.mono fun it b ⟨s, s', hw⟩ => Py.block_defines E cfg it s b s' hw,
    hnil, hout, ?_, ?_, refsClause _ _ _, ?_, hord⟩
  · intro attrs ident gens fs rs hsrc hparse
    have hmem := mem_emitted E (.python cfg) targetOs f hsrc (by rw [parseItem_struct]; exact hparse)
    obtain ⟨k, b, st, st', hk, hb, hw⟩ := Cap.Py.block_of E cfg hperm hthr hmem
    rw [recItem_struct] at hk hw
    obtain ⟨cl, hd, rfl⟩ := Cap.Py.writeItem_struct E cfg _ st st' b hw
    exact ⟨k, cl, st, st', hk, hd, hb,
      Cap.Py.struct_ok E hU cfg targetOs _ _ attrs ident gens fs rs st st' cl hparse hd⟩
  · intro attrs ident gens vs e hsrc hparse
    have hmem := mem_emitted E (.python cfg) targetOs f hsrc (by rw [parseItem_enum]; exact hparse)
    obtain ⟨k, b, st, st', hk, hb, hw⟩ := Cap.Py.block_of E cfg hperm hthr hmem
    rw [recItem_enum] at hk hw
    obtain ⟨d, hd, rfl⟩ := Cap.Py.writeItem_enum E cfg _ st st' b hw
    exact ⟨k, d, st, st', hk, hd, hb,
      Cap.Py.enum_ok E hU cfg targetOs _ _ attrs ident gens vs e st st' d [] hparse hd⟩
  · intro t ht
    obtain ⟨k, b, st, st', hk, hb, hw⟩ := Cap.Py.block_of E cfg hperm hthr (List.mem_map.2 ⟨t, ht, rfl⟩)
    have hdef := Py.block_defines E cfg _ st b st' hw
    rw [pyDefs_rec] at hdef
    exact ⟨k, b, hk, hb, hdef, C03_Emission.last_def_python E cfg t⟩

/-! ## non-vacuity

`#[typeshare] #[serde(tag = "type", content = "content")] enum Shape { Dot, Circle { center: Point } }`
`#[typeshare] struct Point { #[serde(rename = "xCoord")] x: u32, label: Option<String> }`
— the enum first, so that the dependency order has something to do.  The runs succeed (`exRun_*`; Scala is
left out: its type printer is defined by well-founded recursion, which `decide` does not unfold — see
`Props/C03_Emission.lean` for a Scala run), every scope hypothesis of the clauses holds, and the theorem is
applied to the Kotlin run to read off concrete facts. -/

def E0 : Ext := { U := .ascii, parseType := fun _ => none }
def tsAttr : Attr := ⟨.path [s%"typeshare"]⟩
def serdeTagged : Attr :=
  ⟨.list [s%"serde"] true [.nameValue [s%"tag"] (some (.str s%"type")), .nameValue [s%"content"] (some (.str s%"content"))]⟩

def exFields : List Field :=
  [⟨[⟨.list [s%"serde"] true [.nameValue [s%"rename"] (some (.str s%"xCoord"))]⟩], some s%"x", .path [] s%"u32" []⟩,
   ⟨[], some s%"label", .path [] s%"Option" [.path [] s%"String" []]⟩]
def exVariants : List Variant :=
  [⟨[], s%"Dot", .unit⟩, ⟨[], s%"Circle", .named [⟨[], some s%"center", .path [] s%"Point" []⟩]⟩]
def exStructSrc : Item := .struct [tsAttr] s%"Point" [] (.named exFields)
def exEnumSrc : Item := .enum [tsAttr, serdeTagged] s%"Shape" [] exVariants
def exSrc : SourceFile :=
  { crateName := [], fileName := s%"lib.rs", path := s%"lib.rs",
    file := { attrs := [], marker := true, items := [exEnumSrc, exStructSrc] } }

def ctx0 : ParseContext := { ignoredTypes := [], multiFile := false, targetOs := [] }

def exS : RustStruct := match parseStruct E0 [] [tsAttr] s%"Point" [] (.named exFields) with
  | .ok (.struct s) => s | _ => default
def exE : RustEnum := match parseEnum E0 [] [tsAttr, serdeTagged] s%"Shape" [] exVariants with
  | .ok (.enum e) => e | _ => default

theorem exSource : sourceItems ctx0 exSrc.file = [exEnumSrc, exStructSrc] := by rfl
theorem exParseS : parseStruct E0 [] [tsAttr] s%"Point" [] (.named exFields) = .ok (.struct exS) := by rfl
theorem exParseE : parseEnum E0 [] [tsAttr, serdeTagged] s%"Shape" [] exVariants = .ok (.enum exE) := by rfl
theorem exParsed : parsedItems E0 ctx0 exSrc.file = [.enum exE, .struct exS] := by rfl
theorem exErrs : parseErrs E0 ctx0 exSrc.file = [] := by decide +kernel
def rn0 : Renames := renamesFor [] [.enum exE, .struct exS]
def exS' : RustStruct := recStruct [] rn0 exS
def exE' : RustEnum := recEnum [] rn0 exE

theorem exPerm : [RustItem.enum exE, .struct exS].Perm [.struct exS, .enum exE] := List.Perm.swap _ _ _

theorem exOrder (d' : ParsedData) (h : C12L.itemsOf d' = [.struct exS', .enum exE']) :
    Pipeline.generateOrder d' = some [.struct exS', .enum exE'] := by
  have hg : Deps.graph [.struct exS', .enum exE'] = some [[], [0]] := by decide +kernel
  have ho : Topsort.toposort [[], [0]] = some [0, 1] := by
    simp [Topsort.toposort, Topsort.inner, List.range, List.range.loop]
  rw [generateOrder_of d' _ _ _ h hg ho]
  rfl

theorem exRun_kotlin : ∃ outs, run E0 (.kotlin {}) false [] (fun _ => none) [exSrc] = .ok (.outputs outs) ∧
    outs.length = 1 := by
  obtain ⟨d', hitems, _, _, _, _, _, _, hrun⟩ :=
    run_struct_enum E0 (.kotlin {}) [] (fun _ => none) exSrc _ exS exE exParsed exPerm exErrs
  have ho := exOrder d' hitems
  have hw : (Kotlin.itemsFacts {} [.struct exS', .enum exE']).isOk = true := by decide +kernel
  obtain ⟨ds, hw⟩ := (Outcome.isOk_iff _).1 hw
  rw [hrun]
  simp only [genAll, Kt.generateAll_single, Kotlin.generate, ho, hw, Outcome.bind_ok]
  exact ⟨_, rfl, rfl⟩

theorem exRun_typescript : ∃ outs, run E0 (.typescript {}) false [] (fun _ => none) [exSrc] = .ok (.outputs outs) ∧
    outs.length = 1 := by
  obtain ⟨d', hitems, _, _, _, _, _, _, hrun⟩ :=
    run_struct_enum E0 (.typescript {}) [] (fun _ => none) exSrc _ exS exE exParsed exPerm exErrs
  have ho := exOrder d' hitems
  have hw : (TypeScript.writeItems E0.U {} [.struct exS', .enum exE'] []).isOk = true := by decide +kernel
  obtain ⟨⟨body, st⟩, hw⟩ := (Outcome.isOk_iff _).1 hw
  rw [hrun]
  simp only [genAll, TS.generateAll_single, TypeScript.generate, ho, hw, Outcome.bind_ok]
  exact ⟨_, rfl, rfl⟩

/-! ### the scope hypotheses of the clauses hold for the example -/

/-- C01 (`InScope`, `Distinct`), for all six languages -/
example (L : TsV.Lang) : ∀ f ∈ C01.kept [] exFields, C01.InScope E0 L (serdeRenameAll E0 [tsAttr]) f :=
  C01.inScopeB_all _ _ _ _ (by cases L <;> decide)
example (L : TsV.Lang) : C01.Distinct L exS'.fields := by cases L <;> decide
example (L : TsV.Lang) : ∀ v ∈ exVariants.filter (fun v => !isSkipped v.attrs []), ∀ fs, v.fields = .named fs →
    ∀ f ∈ C01.kept [] fs, C01.InScope E0 L (serdeRenameAll E0 v.attrs) f :=
  C01.variantsInScopeB_sound _ _ _ _ (by cases L <;> decide)
example (L : TsV.Lang) : ∀ p ∈ structVariants exE', C01.Distinct L p.2 := by cases L <;> decide

/-- C04 (`InScope`, not in the Scala class), TypeScript and Kotlin -/
example : ∀ rf' ∈ exS'.fields, C04.InScope exS'.genericTypes rf' (.kotlin {}) ∧
    C04.Known_scalaDefaultNonOption (.kotlin {}) rf' = false := by
  intro rf' h
  exact ⟨⟨by revert rf' h; decide, trivial, trivial⟩, rfl⟩
example : ∀ rf' ∈ exS'.fields, C04.InScope exS'.genericTypes rf' (.typescript {}) ∧
    C04.Known_scalaDefaultNonOption (.typescript {}) rf' = false := by
  intro rf' h
  exact ⟨⟨by revert rf' h; decide, fun _ => rfl, trivial⟩, rfl⟩

/-- C02 (`InScopeSrc`, outside `Known` in all six languages) -/
theorem exInScopeSrc : C02.InScopeSrc exVariants := by
  constructor
  · intro v hv
    simp only [exVariants, List.mem_cons, List.not_mem_nil, or_false] at hv
    rcases hv with rfl | rfl
    · exact ⟨'D', s%"ot", rfl, by decide, by decide, Or.inl ⟨'o', by decide, by decide⟩⟩
    · exact ⟨'C', s%"ircle", rfl, by decide, by decide, Or.inl ⟨'i', by decide, by decide⟩⟩
  · decide
example (L : TsV.Lang) : ¬ C02.Known L E0 [] exE' := by cases L <;> decide

/-- C09 (`InScope`, `CfgOk`, no shadowing, no reference in `KnownRef` — even for Go) -/
theorem exC09 : C09.InScope (progOf [.enum exE, .struct exS]) :=
  C09.inScope_of _ (by decide) (by decide) (by decide) (by decide) rfl rfl
example : C09.CfgOk (.kotlin {}) ∧ C09.CfgOk (.typescript {}) ∧ C09.CfgOk (.go {}) := ⟨⟨rfl, trivial⟩, ⟨rfl, trivial⟩, ⟨rfl, rfl⟩⟩
theorem exNoShadow : C09.Known_shadow (progOf [.enum exE, .struct exS]) = false := by decide +kernel

/-- C11 (the four hypotheses of `C11_order`, on the reconciled items in *source* order: `Shape` first) -/
theorem exOrderHyps : Deps.NamesDistinct [.enum exE', .struct exS'] ∧ C11.DepthOk [.enum exE', .struct exS'] ∧
    C11.GenericsUsed [.enum exE', .struct exS'] ∧ C11.AcyclicRefs [.enum exE', .struct exS'] :=
  ⟨by decide, by decide, by decide, C11.acyclic_of_rank _ (fun i => 2 - i) (by decide)⟩
/-- and the reference is really there: `Shape` mentions `Point` -/
example : (RustItem.struct exS').originalName ∈ C11.refsItem (.enum exE') := by decide

theorem exMemS : Item.struct [tsAttr] s%"Point" [] (.named exFields) ∈ sourceItems ctx0 exSrc.file := by
  rw [exSource]; exact List.Mem.tail _ (List.Mem.head _)
theorem exMemE : Item.enum [tsAttr, serdeTagged] s%"Shape" [] exVariants ∈ sourceItems ctx0 exSrc.file := by
  rw [exSource]; exact List.Mem.head _

/-- **the theorem applied to the example run** (Kotlin): the data class written for `Point` binds serde's keys
of its two fields, the sealed class written for `Shape` has the cases `Dot`, `Circle` on the wire, and the
block of `Point` comes before the block of `Shape` although `Shape` comes first in the source -/
example : ∃ (items : List RustItem) (blocks : List Str) (k kE : Nat) (d : Kotlin.KtDecl) (ds : List Kotlin.KtDecl),
    items[k]? = some (.struct exS') ∧ blocks[k]? = some (Kotlin.renderDecl d) ∧
    C01.Forall₂ (C01.SerdeKey E0 (serdeRenameAll E0 [tsAttr])) (C01.kept [] exFields)
      ((C01.Kotlin.declParams d).map C01.Kotlin.boundKey) ∧
    items[kE]? = some (.enum exE') ∧ blocks[kE]? = some (ds.flatMap Kotlin.renderDecl) ∧
    (C02.Kt.wire ds).cases.map (·.wire) = [some s%"Dot", some s%"Circle"] ∧
    k < kE := by
  obtain ⟨outs, hrun, _⟩ := exRun_kotlin
  obtain ⟨parsed, items, blocks, d', hp, _, _, _, _, _, hstruct, henum, _, _, hord⟩ :=
    run_guarantees_kotlin E0 UnicodeOps.ascii_correct {} UnicodeOps.ascii_correct [] (fun _ => none) exSrc outs hrun
  have hp' : parsed = [.enum exE, .struct exS] := hp.trans exParsed
  subst hp'
  obtain ⟨k, d, hk, _, hb, hcl⟩ := hstruct [tsAttr] s%"Point" [] exFields exS exMemS exParseS
  obtain ⟨kE, ds, inners, rest, hkE, _, hbE, _, _, hclE⟩ :=
    henum [tsAttr, serdeTagged] s%"Shape" [] exVariants exE exMemE exParseE
  refine ⟨items, blocks, k, kE, d, ds, hk, hb,
    hcl.1 (C01.inScopeB_all _ _ _ _ (by decide)) (by decide), hkE, hbE, ?_, ?_⟩
  · rw [(hclE.2 exInScopeSrc (by decide)).1]
    decide +kernel
  · exact hord exOrderHyps.1 exOrderHyps.2.1 exOrderHyps.2.2.1 exOrderHyps.2.2.2 kE k _ _ hkE hk (by decide)

/-- clause (3) on the example: the parameter written for `label: Option<String>` is marked optional and its
type without the marker is the translation of `String` -/
example : ∃ (d : Kotlin.KtDecl) (p : Kotlin.KtParam), (C04.Kt.params d)[1]? = some p ∧
    C04.Kt.isOptional p = true ∧ C04.Kt.stripOptional p = s%"String" := by
  obtain ⟨outs, hrun, _⟩ := exRun_kotlin
  obtain ⟨parsed, items, blocks, d', hp, _, _, _, _, _, hstruct, _⟩ :=
    run_guarantees_kotlin E0 UnicodeOps.ascii_correct {} UnicodeOps.ascii_correct [] (fun _ => none) exSrc outs hrun
  have hp' : parsed = [.enum exE, .struct exS] := hp.trans exParsed
  subst hp'
  obtain ⟨k, d, _, _, _, hcl⟩ := hstruct [tsAttr] s%"Point" [] exFields exS exMemS exParseS
  obtain ⟨hl1, hl2, hget⟩ := hcl.2.get
  have hlen : 1 < (C04.Kt.params d).length := by
    rw [← hl2, ← hl1]; decide
  obtain ⟨_, hfield⟩ := hget 1 _ _ _ (by rfl) (by rfl) (List.getElem?_eq_getElem hlen)
  obtain ⟨o, core, ⟨ho, hc⟩, t, het, hopt, raw, hraw, hacr⟩ := hfield ⟨rfl, trivial, trivial⟩ rfl
  cases het
  refine ⟨d, _, List.getElem?_eq_getElem hlen, ?_, ?_⟩
  · rw [← ho, hopt]; decide
  · rw [← hc]
    have h1 : raw = s%"String" := by
      have : (Outcome.ok raw : Outcome Str) = .ok s%"String" := by rw [← hraw]; decide +kernel
      cases this; rfl
    subst h1
    cases hacr
    rfl


/-- clause (5) on the example, Go included: every reference of every item is spelled with the defining name -/
example : ∀ it ∈ [RustItem.enum exE, .struct exS],
    ∀ ref ∈ C09.refs (.go {}) (renamesFor [] [.enum exE, .struct exS]) it,
    ∀ n, C09.Defines (.go {}) (progOf [.enum exE, .struct exS]) ref.target n → ref.spelling = n :=
  fun it hit ref href n hd =>
    refsClause (.go {}) [] _ rfl exC09 ⟨rfl, rfl⟩ exNoShadow it hit ref href
      (C09.knownRef_false_of_no_renamed_enum (.go {}) _ (by decide) ref) n hd
example : (C09.refs (.go {}) (renamesFor [] [.enum exE, .struct exS]) (.enum exE)).map (·.spelling) =
    [s%"ShapeCircleInner", s%"Point"] := by decide +kernel

theorem exRun_swift : ∃ outs, run E0 (.swift {}) false [] (fun _ => none) [exSrc] = .ok (.outputs outs) ∧
    outs.length = 1 := by
  obtain ⟨d', hitems, _, _, _, _, _, _, hrun⟩ :=
    run_struct_enum E0 (.swift {}) [] (fun _ => none) exSrc _ exS exE exParsed exPerm exErrs
  have ho := exOrder d' hitems
  have hw : (Swift.writeItems E0.U {} [.struct exS', .enum exE'] false).isOk = true := by decide +kernel
  obtain ⟨⟨body, st⟩, hw⟩ := (Outcome.isOk_iff _).1 hw
  rw [hrun]
  simp only [genAll, Sw.generateAll_single, Swift.generate, ho, hw, Outcome.bind_ok]
  exact ⟨_, rfl, rfl⟩

theorem exRun_go : ∃ outs, run E0 (.go {}) false [] (fun _ => none) [exSrc] = .ok (.outputs outs) ∧
    outs.length = 1 := by
  obtain ⟨d', hitems, _, _, _, _, _, _, hrun⟩ :=
    run_struct_enum E0 (.go {}) [] (fun _ => none) exSrc _ exS exE exParsed exPerm exErrs
  have ho := exOrder d' hitems
  have hw : (Go.writeItems E0.U {} (Go.typesMappingToStruct [.struct exS', .enum exE']) [.struct exS', .enum exE']
      (Go.addImport [] s%"encoding/json")).isOk = true := by decide +kernel
  obtain ⟨⟨body, st⟩, hw⟩ := (Outcome.isOk_iff _).1 hw
  rw [hrun]
  simp only [genAll, C03E.Go.generateAll_single, Go.generate, ho, hw, Outcome.bind_ok]
  exact ⟨_, rfl, rfl⟩

theorem exRun_python : ∃ outs, run E0 (.python {}) false [] (fun _ => none) [exSrc] = .ok (.outputs outs) ∧
    outs.length = 1 := by
  obtain ⟨d', hitems, _, _, _, _, _, _, hrun⟩ :=
    run_struct_enum E0 (.python {}) [] (fun _ => none) exSrc _ exS exE exParsed exPerm exErrs
  have ho := exOrder d' hitems
  have hw : (Python.writeItems E0 {} [.struct exS', .enum exE'] {}).isOk = true := by decide +kernel
  obtain ⟨⟨body, st⟩, hw⟩ := (Outcome.isOk_iff _).1 hw
  rw [hrun]
  simp only [genAll, Py.generateAll_single, Python.generate, ho, hw, Outcome.bind_ok]
  exact ⟨_, rfl, rfl⟩

/-- **the theorem applied to the example run** (TypeScript): the interface written for `Point` binds serde's
keys, the union written for `Shape` has the members `Dot`, `Circle`, every tag key it prints is serde's
`tag = "type"`, and `Point` is written first -/
example : ∃ (items : List RustItem) (blocks : List Str) (k kE : Nat) (tfs : List TypeScript.TsField)
    (d : C02.TS.EnumDecl),
    items[k]? = some (.struct exS') ∧
    blocks[k]? = some (TypeScript.comments 0 exS.comments ++ s%"export interface " ++ exS.id.renamed ++
      genericSuffix exS.genericTypes ++ s%" {\n" ++ tfs.flatMap TypeScript.renderField ++ s%"}\n\n") ∧
    C01.Forall₂ (C01.SerdeKey E0 (serdeRenameAll E0 [tsAttr])) (C01.kept [] exFields)
      (tfs.map C01.TypeScript.boundKey) ∧
    items[kE]? = some (.enum exE') ∧ blocks[kE]? = some (C02.TS.renderEnumDecl d) ∧
    (C02.TS.wire d).cases.map (·.wire) = [some s%"Dot", some s%"Circle"] ∧
    (∀ key, (C02.Role.tag, key) ∈ (C02.TS.wire d).holes → key = s%"type") ∧
    k < kE := by
  obtain ⟨outs, hrun, _⟩ := exRun_typescript
  obtain ⟨parsed, items, blocks, stN, hp, _, _, _, _, _, _, hstruct, henum, _, _, hord⟩ :=
    run_guarantees_typescript E0 UnicodeOps.ascii_correct {} [] (fun _ => none) exSrc outs hrun
  have hp' : parsed = [.enum exE, .struct exS] := hp.trans exParsed
  subst hp'
  obtain ⟨k, tfs, st, st', hk, _, hb, hcl⟩ := hstruct [tsAttr] s%"Point" [] exFields exS exMemS exParseS
  obtain ⟨kE, d, tfss, stE, stE', hkE, _, hbE, _, hclE⟩ :=
    henum [tsAttr, serdeTagged] s%"Shape" [] exVariants exE exMemE exParseE
  obtain ⟨hnames, _, hholes⟩ := hclE.2 exInScopeSrc (by decide)
  refine ⟨items, blocks, k, kE, tfs, d, hk, hb,
    hcl.1 (C01.inScopeB_all _ _ _ _ (by decide)) (by decide), hkE, hbE, ?_, ?_, ?_⟩
  · rw [hnames]
    decide +kernel
  · intro key hkey
    have := (hholes key).1 hkey
    have h2 : getTagKey E0 [tsAttr, serdeTagged] = some s%"type" := by decide +kernel
    rw [h2] at this
    cases this
    rfl
  · exact hord exOrderHyps.1 exOrderHyps.2.1 exOrderHyps.2.2.1 exOrderHyps.2.2.2 kE k _ _ hkE hk (by decide)

end TsV.Capstone
