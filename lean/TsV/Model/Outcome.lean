import TsV.Model.Str
/-!
# Explicit failure

Every model function that can fail in Rust returns an `Outcome`: `err` for a `Result::Err`,
`panic site` for an `unwrap()`, index, byte-slice or `todo!()` reachable from user input.  The
model never "defaults" where Rust would crash.
-/
namespace TsV

/-- the `ParseError` / `RustTypeParseError` variants, by kind (messages are not compared) -/
inductive ErrKind where
  | synError
  | unsupportedType            -- RustTypeParseError::UnsupportedType (64-bit ints; containers without arguments; unparsable serialized_as)
  | unsupportedItem            -- ParseError::UnsupportedType (tuple struct / variant without fields)
  | unexpectedToken            -- RustTypeParseError::UnexpectedToken
  | unexpectedParameterizedTuple
  | numericLiteral
  | complexTupleStruct
  | multipleUnnamedAssociatedTypes
  | serdeTagNotAllowed
  | serdeContentNotAllowed
  | serdeTagRequired
  | serdeContentRequired
  | rustConstExprInvalid
  | rustConstTypeInvalid
  | serdeFlattenNotAllowed
  | ioError
  | formatError (what : Str)   -- RustTypeFormatError at generation time
deriving DecidableEq, Repr, Inhabited

inductive Outcome (α : Type) where
  | ok (a : α)
  | err (e : ErrKind)
  | panic (site : Str)
deriving Repr, Inhabited, DecidableEq

namespace Outcome

def bind {α β} (x : Outcome α) (f : α → Outcome β) : Outcome β :=
  match x with
  | ok a => f a
  | err e => err e
  | panic s => panic s

instance : Monad Outcome where
  pure := ok
  bind := bind

/-- same result up to the place where a panic is raised -/
def agrees {α} [DecidableEq α] : Outcome α → Outcome α → Bool
  | ok a, ok b => a == b
  | err e, err f => e == f
  | panic _, panic _ => true
  | _, _ => false

def errKind? {α} : Outcome α → Option ErrKind
  | err e => some e
  | _ => none

def isOk {α} : Outcome α → Bool
  | ok _ => true
  | _ => false

def isPanic {α} : Outcome α → Bool
  | panic _ => true
  | _ => false

def isErr {α} : Outcome α → Bool
  | err _ => true
  | _ => false

/-- `iter.map(f).collect::<Result<Vec<_>,_>>()`: stops at the first failure -/
def mapM' {α β} (f : α → Outcome β) : List α → Outcome (List β)
  | [] => ok []
  | a :: as =>
    match f a with
    | ok b => (match mapM' f as with
      | ok bs => ok (b :: bs)
      | err e => err e
      | panic s => panic s)
    | err e => err e
    | panic s => panic s

@[simp] theorem ok_bind' {α β} (a : α) (f : α → Outcome β) : (ok a >>= f) = f a := rfl
@[simp] theorem pure_bind' {α β} (a : α) (f : α → Outcome β) : ((pure a : Outcome α) >>= f) = f a := rfl
@[simp] theorem err_bind' {α β} (e) (f : α → Outcome β) : ((err e : Outcome α) >>= f) = err e := rfl
@[simp] theorem panic_bind' {α β} (s) (f : α → Outcome β) : ((panic s : Outcome α) >>= f) = panic s := rfl
@[simp] theorem pure_eq_ok {α} (a : α) : (pure a : Outcome α) = ok a := rfl

@[simp] theorem bind_ok {α β} (a : α) (f : α → Outcome β) : (ok a).bind f = f a := rfl
@[simp] theorem bind_err {α β} (e) (f : α → Outcome β) : (err e : Outcome α).bind f = err e := rfl
@[simp] theorem bind_panic {α β} (s) (f : α → Outcome β) : (panic s : Outcome α).bind f = panic s := rfl

end Outcome
end TsV
