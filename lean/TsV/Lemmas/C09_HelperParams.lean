import TsV.Lemmas.C09
import TsV.Lemmas.C09_Tie
/-!
# C09_HelperParams — lemmas: the mention test `RustType.containsType` and the generic parameters of
the helper struct of a struct variant

1. `Mentions t g` — "the name `g` is written somewhere in `t`", as an inductive predicate over every
   constructor position of `RustType` — and `containsType_iff_mentions`: it is exactly what
   `RustType.containsType` (`RustType::contains_type`) tests;  the relation to the name positions
   (`leaves`) of the C09 reference semantics;
2. list lemmas about `List.eraseDups` (`Itertools::unique`);
3. `helperGens e fs` — the generic parameters `write_types_for_anonymous_structs` gives the helper
   struct — membership, `Nodup`, the order law;
4. `typeRefs` under two scopes that agree on the names the type mentions; a reference for every leaf;
5. the generic parameter lists recorded by the fact records of the five helper-writing back ends.
-/
namespace TsV.C09_HelperParams
open TsV TsV.Pipeline TsV.Generate TsV.Lang TsV.C09

/-! ## 1. the mention test -/

/-- **`g` is written in `t`**: as the type itself, as the head of a generic application, inside one
of its arguments (at any depth), inside `Vec` / array / slice / `Option`, as (part of) a map key or
a map value; the name of a primitive type counts as written where the primitive stands (this is what
`SpecialRustType::contains_type` tests: `ty == self.id()`). -/
inductive Mentions : RustType → Str → Prop
  | simple (g : Str) : Mentions (.simple g) g
  | head (g : Str) (ps : List RustType) : Mentions (.generic g ps) g
  | arg {i : Str} {ps : List RustType} {t : RustType} {g : Str} :
      t ∈ ps → Mentions t g → Mentions (.generic i ps) g
  | vec {t : RustType} {g : Str} : Mentions t g → Mentions (.vec t) g
  | array {t : RustType} {n : Nat} {g : Str} : Mentions t g → Mentions (.array t n) g
  | slice {t : RustType} {g : Str} : Mentions t g → Mentions (.slice t) g
  | option {t : RustType} {g : Str} : Mentions t g → Mentions (.option t) g
  | key {k v : RustType} {g : Str} : Mentions k g → Mentions (.hashMap k v) g
  | value {k v : RustType} {g : Str} : Mentions v g → Mentions (.hashMap k v) g
  | prim (p : Prim) : Mentions (.prim p) p.id

mutual
  theorem mentions_of_contains (g : Str) : ∀ t : RustType, t.containsType g = true → Mentions t g
    | .simple i, h => by
      simp only [RustType.containsType, beq_iff_eq] at h
      subst h; exact .simple _
    | .generic i ps, h => by
      simp only [RustType.containsType, Bool.or_eq_true, beq_iff_eq] at h
      rcases h with h | h
      · subst h; exact .head _ _
      · obtain ⟨t, ht, hm⟩ := mentions_of_containsList g ps h
        exact .arg ht hm
    | .vec t, h => .vec (mentions_of_contains g t (by simpa [RustType.containsType] using h))
    | .array t _, h => .array (mentions_of_contains g t (by simpa [RustType.containsType] using h))
    | .slice t, h => .slice (mentions_of_contains g t (by simpa [RustType.containsType] using h))
    | .option t, h => .option (mentions_of_contains g t (by simpa [RustType.containsType] using h))
    | .hashMap k v, h => by
      simp only [RustType.containsType, Bool.or_eq_true] at h
      rcases h with h | h
      · exact .key (mentions_of_contains g k h)
      · exact .value (mentions_of_contains g v h)
    | .prim p, h => by
      simp only [RustType.containsType, beq_iff_eq] at h
      subst h; exact .prim p
  theorem mentions_of_containsList (g : Str) : ∀ ts : List RustType,
      RustType.containsTypeList g ts = true → ∃ t ∈ ts, Mentions t g
    | [], h => by simp [RustType.containsTypeList] at h
    | t :: ts, h => by
      simp only [RustType.containsTypeList, Bool.or_eq_true] at h
      rcases h with h | h
      · exact ⟨t, List.mem_cons_self, mentions_of_contains g t h⟩
      · obtain ⟨u, hu, hm⟩ := mentions_of_containsList g ts h
        exact ⟨u, List.mem_cons_of_mem _ hu, hm⟩
end

theorem containsList_of_mem {g : Str} : ∀ {ps : List RustType} {t : RustType}, t ∈ ps →
    t.containsType g = true → RustType.containsTypeList g ps = true
  | [], _, h, _ => by cases h
  | p :: ps, t, h, hc => by
    simp only [RustType.containsTypeList, Bool.or_eq_true]
    rcases List.mem_cons.1 h with rfl | h
    · exact .inl hc
    · exact .inr (containsList_of_mem h hc)

theorem contains_of_mentions {t : RustType} {g : Str} (h : Mentions t g) : t.containsType g = true := by
  induction h with
  | simple g => simp [RustType.containsType]
  | head g ps => simp [RustType.containsType]
  | arg hm _ ih => simp [RustType.containsType, containsList_of_mem hm ih]
  | vec _ ih => simpa [RustType.containsType] using ih
  | array _ ih => simpa [RustType.containsType] using ih
  | slice _ ih => simpa [RustType.containsType] using ih
  | option _ ih => simpa [RustType.containsType] using ih
  | key _ ih => simp [RustType.containsType, ih]
  | value _ ih => simp [RustType.containsType, ih]
  | prim p => simp [RustType.containsType]

/-- **`contains_type` is the mention test, exactly** -/
theorem containsType_iff_mentions (t : RustType) (g : Str) : t.containsType g = true ↔ Mentions t g :=
  ⟨mentions_of_contains g t, contains_of_mentions⟩

/-! ### … and the name positions of the C09 reference semantics (`leaves`) -/

mutual
  /-- no name position is missed: every `simple` leaf and every generic head, at any depth -/
  theorem contains_of_leaf : ∀ (t : RustType) (l : Leaf), l ∈ leaves t → t.containsType l.id = true
    | .simple i, l, h => by
      simp only [leaves, List.mem_singleton] at h
      subst h; simp [RustType.containsType]
    | .generic i ps, l, h => by
      simp only [leaves, List.mem_cons] at h
      rcases h with rfl | h
      · simp [RustType.containsType]
      · simp [RustType.containsType, containsList_of_leaf ps l h]
    | .vec t, l, h => by simpa [RustType.containsType] using contains_of_leaf t l (by simpa [leaves] using h)
    | .array t _, l, h => by simpa [RustType.containsType] using contains_of_leaf t l (by simpa [leaves] using h)
    | .slice t, l, h => by simpa [RustType.containsType] using contains_of_leaf t l (by simpa [leaves] using h)
    | .option t, l, h => by simpa [RustType.containsType] using contains_of_leaf t l (by simpa [leaves] using h)
    | .hashMap k v, l, h => by
      simp only [leaves, List.mem_append] at h
      rcases h with h | h
      · simp [RustType.containsType, contains_of_leaf k l h]
      · simp [RustType.containsType, contains_of_leaf v l h]
    | .prim _, l, h => by simp [leaves] at h
  theorem containsList_of_leaf : ∀ (ts : List RustType) (l : Leaf), l ∈ leavesList ts →
      RustType.containsTypeList l.id ts = true
    | [], l, h => by simp [leavesList] at h
    | t :: ts, l, h => by
      simp only [leavesList, List.mem_append] at h
      rcases h with h | h
      · simp [RustType.containsTypeList, contains_of_leaf t l h]
      · simp [RustType.containsTypeList, containsList_of_leaf ts l h]
end

mutual
  /-- a name that is not the name of a primitive is mentioned only at name positions -/
  theorem leaf_of_contains {g : Str} (hg : ∀ p : Prim, p.id ≠ g) : ∀ t : RustType, t.containsType g = true →
      ∃ hd, (⟨g, hd⟩ : Leaf) ∈ leaves t
    | .simple i, h => by
      simp only [RustType.containsType, beq_iff_eq] at h
      subst h; exact ⟨false, by simp [leaves]⟩
    | .generic i ps, h => by
      simp only [RustType.containsType, Bool.or_eq_true, beq_iff_eq] at h
      rcases h with h | h
      · subst h; exact ⟨true, by simp [leaves]⟩
      · obtain ⟨hd, hl⟩ := leafList_of_contains hg ps h
        exact ⟨hd, by simp [leaves, hl]⟩
    | .vec t, h => by
      obtain ⟨hd, hl⟩ := leaf_of_contains hg t (by simpa [RustType.containsType] using h)
      exact ⟨hd, by simpa [leaves] using hl⟩
    | .array t _, h => by
      obtain ⟨hd, hl⟩ := leaf_of_contains hg t (by simpa [RustType.containsType] using h)
      exact ⟨hd, by simpa [leaves] using hl⟩
    | .slice t, h => by
      obtain ⟨hd, hl⟩ := leaf_of_contains hg t (by simpa [RustType.containsType] using h)
      exact ⟨hd, by simpa [leaves] using hl⟩
    | .option t, h => by
      obtain ⟨hd, hl⟩ := leaf_of_contains hg t (by simpa [RustType.containsType] using h)
      exact ⟨hd, by simpa [leaves] using hl⟩
    | .hashMap k v, h => by
      simp only [RustType.containsType, Bool.or_eq_true] at h
      rcases h with h | h
      · obtain ⟨hd, hl⟩ := leaf_of_contains hg k h
        exact ⟨hd, by simp [leaves, hl]⟩
      · obtain ⟨hd, hl⟩ := leaf_of_contains hg v h
        exact ⟨hd, by simp [leaves, hl]⟩
    | .prim p, h => by
      simp only [RustType.containsType, beq_iff_eq] at h
      exact absurd h.symm (hg p)
  theorem leafList_of_contains {g : Str} (hg : ∀ p : Prim, p.id ≠ g) : ∀ ts : List RustType,
      RustType.containsTypeList g ts = true → ∃ hd, (⟨g, hd⟩ : Leaf) ∈ leavesList ts
    | [], h => by simp [RustType.containsTypeList] at h
    | t :: ts, h => by
      simp only [RustType.containsTypeList, Bool.or_eq_true] at h
      rcases h with h | h
      · obtain ⟨hd, hl⟩ := leaf_of_contains hg t h
        exact ⟨hd, by simp [leavesList, hl]⟩
      · obtain ⟨hd, hl⟩ := leafList_of_contains hg ts h
        exact ⟨hd, by simp [leavesList, hl]⟩
end

/-! ## 2. `eraseDups` (`Itertools::unique`: first occurrences, in order) -/

theorem nodup_eraseDups_aux {α} [BEq α] [LawfulBEq α] : ∀ (n : Nat) (l : List α), l.length ≤ n → l.eraseDups.Nodup
  | _, [], _ => by simp
  | 0, a :: as, h => by simp at h
  | n+1, a :: as, h => by
    rw [List.eraseDups_cons, List.nodup_cons]
    refine ⟨?_, nodup_eraseDups_aux n _ (Nat.le_trans (List.length_filter_le _ _) (by simpa using h))⟩
    rw [List.mem_eraseDups]
    simp

theorem nodup_eraseDups {α} [BEq α] [LawfulBEq α] (l : List α) : l.eraseDups.Nodup :=
  nodup_eraseDups_aux l.length l (Nat.le_refl _)

theorem eraseDups_filter_aux {α} [BEq α] [LawfulBEq α] (p : α → Bool) : ∀ (n : Nat) (l : List α), l.length ≤ n →
    (l.filter p).eraseDups = l.eraseDups.filter p
  | _, [], _ => by simp
  | 0, a :: as, h => by simp at h
  | n+1, a :: as, h => by
    have hlen : (as.filter fun b => !b == a).length ≤ n :=
      Nat.le_trans (List.length_filter_le _ _) (by simpa using h)
    rw [List.eraseDups_cons (a := a) (as := as)]
    by_cases hp : p a = true
    · rw [List.filter_cons_of_pos hp, List.eraseDups_cons, List.filter_cons_of_pos hp]
      congr 1
      rw [← eraseDups_filter_aux p n _ hlen, List.filter_filter, List.filter_filter]
      congr 1
      apply List.filter_congr
      intro b _
      exact Bool.and_comm _ _
    · rw [List.filter_cons_of_neg hp, List.filter_cons_of_neg hp, ← eraseDups_filter_aux p n _ hlen,
        List.filter_filter]
      congr 1
      apply List.filter_congr
      intro b _
      by_cases hb : p b = true
      · have : b ≠ a := fun hba => hp (hba ▸ hb)
        simp [hb, this]
      · simp [hb]

/-- `unique` commutes with `filter` -/
theorem eraseDups_filter {α} [BEq α] [LawfulBEq α] (p : α → Bool) (l : List α) :
    (l.filter p).eraseDups = l.eraseDups.filter p :=
  eraseDups_filter_aux p l.length l (Nat.le_refl _)

theorem eraseDups_of_nodup {α} [BEq α] [LawfulBEq α] : ∀ (l : List α), l.Nodup → l.eraseDups = l
  | [], _ => by simp
  | a :: as, h => by
    rw [List.nodup_cons] at h
    rw [List.eraseDups_cons]
    have : as.filter (fun b => !b == a) = as := by
      apply List.filter_eq_self.2
      intro b hb
      have : b ≠ a := fun hba => h.1 (hba ▸ hb)
      simp [this]
    rw [this, eraseDups_of_nodup as h.2]

/-! ## 3. the generic parameters of the helper struct -/

/-- the `generic_types` `write_types_for_anonymous_structs` computes for the helper struct of a struct
variant with the fields `fs` (the same expression is evaluated again by the Kotlin, Swift and Scala
back ends where the enum's case refers to the helper) -/
def helperGens (e : RustEnum) (fs : List RustField) : List Str :=
  (fs.flatMap fun f => e.genericTypes.filter fun g => f.ty.containsType g).eraseDups

theorem anonymousStruct_generics (e : RustEnum) (n v : Str) (fs : List RustField) :
    (anonymousStruct e n v fs).genericTypes = helperGens e fs := rfl

theorem anonymousStruct_fields (e : RustEnum) (n v : Str) (fs : List RustField) :
    (anonymousStruct e n v fs).fields = fs := rfl

theorem kotlin_usedGenerics (e : RustEnum) (fs : List RustField) : Kotlin.usedGenerics e fs = helperGens e fs := rfl
theorem scala_usedGenerics (e : RustEnum) (fs : List RustField) : Scala.usedGenerics e fs = helperGens e fs := rfl

/-- the back ends that write a helper struct (all but TypeScript, which prints the fields inline) -/
def writesHelper : LangCfg → Bool
  | .typescript _ => false
  | _ => true

theorem innerGens_eq {lc : LangCfg} (h : writesHelper lc = true) (e : RustEnum) (fs : List RustField) :
    innerGens lc e fs = helperGens e fs := by
  cases lc <;> first | rfl | cases h

theorem innerGens_typescript (c : TypeScript.Cfg) (e : RustEnum) (fs : List RustField) :
    innerGens (.typescript c) e fs = e.genericTypes := rfl

theorem mem_helperGens {e : RustEnum} {fs : List RustField} {g : Str} :
    g ∈ helperGens e fs ↔ g ∈ e.genericTypes ∧ ∃ f ∈ fs, f.ty.containsType g = true := by
  simp only [helperGens, List.mem_eraseDups, List.mem_flatMap, List.mem_filter]
  constructor
  · rintro ⟨f, hf, hg, hc⟩
    exact ⟨hg, f, hf, hc⟩
  · rintro ⟨hg, f, hf, hc⟩
    exact ⟨f, hf, hg, hc⟩

theorem helperGens_nil (e : RustEnum) : helperGens e [] = [] := rfl

/-- the order: first the parameters the first field mentions, in the order of the enum's parameter
list, then those of the remaining fields that the first field does not mention -/
theorem helperGens_cons (e : RustEnum) (f : RustField) (fs : List RustField) :
    helperGens e (f :: fs) =
      (e.genericTypes.filter fun g => f.ty.containsType g).eraseDups ++
        (helperGens e fs).filter fun g => !f.ty.containsType g := by
  simp only [helperGens, List.flatMap_cons]
  rw [List.eraseDups_append, ← eraseDups_filter]
  congr 2
  rw [List.removeAll]
  apply List.filter_congr
  intro x hx
  simp only [List.mem_flatMap, List.mem_filter] at hx
  obtain ⟨_, _, hxg, _⟩ := hx
  cases hc : f.ty.containsType x <;> simp [List.mem_filter, hxg, hc]

/-! ## 4. references under two scopes -/

mutual
  /-- `typeRefs` depends on the scope only through the names the type mentions -/
  theorem typeRefs_scope_congr (lc : LangCfg) (r : Renames) (s1 s2 gens : List Str) : ∀ t : RustType,
      (∀ id, t.containsType id = true → (id ∈ s1 ↔ id ∈ s2)) →
      typeRefs lc r s1 gens t = typeRefs lc r s2 gens t
    | .simple i, h => by
      have := h i (by simp [RustType.containsType])
      simp [typeRefs, tgt_eq, this]
    | .generic i ps, h => by
      have h1 := h i (by simp [RustType.containsType])
      have h2 := typeRefsList_scope_congr lc r s1 s2 gens ps
        (fun id hc => h id (by simp [RustType.containsType, hc]))
      simp [typeRefs, tgt_eq, h1, h2]
    | .vec t, h => by
      simpa [typeRefs] using typeRefs_scope_congr lc r s1 s2 gens t (fun id hc => h id (by simpa [RustType.containsType] using hc))
    | .array t _, h => by
      simpa [typeRefs] using typeRefs_scope_congr lc r s1 s2 gens t (fun id hc => h id (by simpa [RustType.containsType] using hc))
    | .slice t, h => by
      simpa [typeRefs] using typeRefs_scope_congr lc r s1 s2 gens t (fun id hc => h id (by simpa [RustType.containsType] using hc))
    | .option t, h => by
      simpa [typeRefs] using typeRefs_scope_congr lc r s1 s2 gens t (fun id hc => h id (by simpa [RustType.containsType] using hc))
    | .hashMap k v, h => by
      have hk := typeRefs_scope_congr lc r s1 s2 gens k (fun id hc => h id (by simp [RustType.containsType, hc]))
      have hv := typeRefs_scope_congr lc r s1 s2 gens v (fun id hc => h id (by simp [RustType.containsType, hc]))
      simp [typeRefs, hk, hv]
    | .prim _, _ => by simp [typeRefs]
  theorem typeRefsList_scope_congr (lc : LangCfg) (r : Renames) (s1 s2 gens : List Str) : ∀ ts : List RustType,
      (∀ id, RustType.containsTypeList id ts = true → (id ∈ s1 ↔ id ∈ s2)) →
      typeRefsList lc r s1 gens ts = typeRefsList lc r s2 gens ts
    | [], _ => by simp [typeRefsList]
    | t :: ts, h => by
      have ht := typeRefs_scope_congr lc r s1 s2 gens t (fun id hc => h id (by simp [RustType.containsTypeList, hc]))
      have hts := typeRefsList_scope_congr lc r s1 s2 gens ts (fun id hc => h id (by simp [RustType.containsTypeList, hc]))
      simp [typeRefsList, ht, hts]
end

mutual
  /-- every name position of a type gives a reference -/
  theorem ref_of_leaf (lc : LangCfg) (r : Renames) (scope gens : List Str) : ∀ (t : RustType) (l : Leaf),
      l ∈ leaves t → (⟨spell lc gens (recName r l.id), tgt scope l.id, l.head⟩ : Ref) ∈ typeRefs lc r scope gens t
    | .simple i, l, h => by
      simp only [leaves, List.mem_singleton] at h
      subst h; simp [typeRefs]
    | .generic i ps, l, h => by
      simp only [leaves, List.mem_cons] at h
      rcases h with rfl | h
      · simp [typeRefs]
      · simp [typeRefs, refList_of_leaf lc r scope gens ps l h]
    | .vec t, l, h => by simpa [typeRefs] using ref_of_leaf lc r scope gens t l (by simpa [leaves] using h)
    | .array t _, l, h => by simpa [typeRefs] using ref_of_leaf lc r scope gens t l (by simpa [leaves] using h)
    | .slice t, l, h => by simpa [typeRefs] using ref_of_leaf lc r scope gens t l (by simpa [leaves] using h)
    | .option t, l, h => by simpa [typeRefs] using ref_of_leaf lc r scope gens t l (by simpa [leaves] using h)
    | .hashMap k v, l, h => by
      simp only [leaves, List.mem_append] at h
      rcases h with h | h
      · simp [typeRefs, ref_of_leaf lc r scope gens k l h]
      · simp [typeRefs, ref_of_leaf lc r scope gens v l h]
    | .prim _, l, h => by simp [leaves] at h
  theorem refList_of_leaf (lc : LangCfg) (r : Renames) (scope gens : List Str) : ∀ (ts : List RustType) (l : Leaf),
      l ∈ leavesList ts →
      (⟨spell lc gens (recName r l.id), tgt scope l.id, l.head⟩ : Ref) ∈ typeRefsList lc r scope gens ts
    | [], l, h => by simp [leavesList] at h
    | t :: ts, l, h => by
      simp only [leavesList, List.mem_append] at h
      rcases h with h | h
      · simp [typeRefsList, ref_of_leaf lc r scope gens t l h]
      · simp [typeRefsList, refList_of_leaf lc r scope gens ts l h]
end

/-- the spelling of a leaf that carries the name of a generic parameter the back end was told about:
the bare name, unless the configuration maps that very name to something else -/
theorem spell_param {lc : LangCfg} {gens : List Str} {g : Str} (hm : mapGet (typeMappingsOf lc) g = none)
    (hg : g ∈ gens) : spell lc gens g = g := by
  cases lc <;> simp only [typeMappingsOf] at hm <;>
    simp [spell, hm, Kotlin.formatSimple, Swift.formatSimple, hg]

theorem ne_append_self {p n : Str} (hp : p ≠ []) : n ≠ p ++ n := by
  intro h
  have := congrArg List.length h
  simp only [List.length_append] at this
  cases p with
  | nil => exact hp rfl
  | cons c t => simp at this

/-! ## 5. `reconcile` does not change which parameters a field mentions (outside shadowing)

The back ends see the fields after `reconcile_aliases` (`Pipeline.checkField`); the C09 reference
semantics (`innerGens`) is stated on the fields as written in the source. -/

mutual
  theorem contains_checkType {r : Renames} {g : Str} (hrec : ∀ id, (recName r id == g) = (id == g)) :
      ∀ t : RustType, (checkType [] r [] t).containsType g = t.containsType g
    | .simple id => by
      have := hrec id
      simp only [recName] at this
      simp only [checkType]
      cases h : resolveRenamed [] r [] id <;> simp_all [RustType.containsType]
    | .generic id ps => by
      have := hrec id
      simp only [recName] at this
      simp only [checkType]
      cases h : resolveRenamed [] r [] id <;>
        simp_all [RustType.containsType, containsList_checkTypes hrec ps]
    | .vec t => by simp only [checkType, RustType.containsType, contains_checkType hrec t]
    | .array t _ => by simp only [checkType, RustType.containsType, contains_checkType hrec t]
    | .slice t => by simp only [checkType, RustType.containsType, contains_checkType hrec t]
    | .option t => by simp only [checkType, RustType.containsType, contains_checkType hrec t]
    | .hashMap k v => by
      simp only [checkType, RustType.containsType, contains_checkType hrec k, contains_checkType hrec v]
    | .prim _ => by simp [checkType]
  theorem containsList_checkTypes {r : Renames} {g : Str} (hrec : ∀ id, (recName r id == g) = (id == g)) :
      ∀ ts : List RustType, RustType.containsTypeList g (checkTypes [] r [] ts) = RustType.containsTypeList g ts
    | [] => by simp [checkTypes]
    | t :: ts => by
      simp only [checkTypes, RustType.containsTypeList, contains_checkType hrec t, containsList_checkTypes hrec ts]
end

/-- the helper of the reconciled variant declares what the helper of the source variant would -/
theorem helperGens_checkField {r : Renames} {e e' : RustEnum} (hg : e'.genericTypes = e.genericTypes)
    (hrec : ∀ g ∈ e.genericTypes, ∀ id, (recName r id == g) = (id == g)) (fs : List RustField) :
    helperGens e' (fs.map (checkField [] r [])) = helperGens e fs := by
  simp only [helperGens, hg, List.flatMap_map]
  simp only [List.flatMap_def]
  congr 2
  apply List.map_congr_left
  intro f _
  apply List.filter_congr
  intro g hgm
  simp only [checkField]
  exact contains_checkType (hrec g hgm) f.ty

/-- in a program in scope without shadowing, `reconcile` maps a name to a generic parameter's name
only if it is that name already -/
theorem recName_param {P : ParsedData} (hs : InScope P) (hsh : Known_shadow P = false) {it : RustItem}
    (hit : it ∈ typeItems P) {g : Str} (hg : g ∈ generics it) (id : Str) :
    (recName (renamesOf P) id == g) = (id == g) := by
  by_cases hex : ∃ t ∈ typeItems P, (itemId t).serdeRename = true ∧ (itemId t).original = id
  · obtain ⟨t, ht, hts, rfl⟩ := hex
    rw [renamed_of_scope hs ht]
    have := noShadow hsh hit hg ht hts
    rw [beq_eq_false_iff_ne.2 this.1, beq_eq_false_iff_ne.2 this.2]
  · have : recName (renamesOf P) id = id :=
      recName_other fun t ht hts heq => hex ⟨t, ht, hts, heq⟩
    rw [this]

end TsV.C09_HelperParams
