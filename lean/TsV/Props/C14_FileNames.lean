import TsV.Model.Files
import TsV.Lemmas.Rename
/-!
# C14, file names: one output file per crate — is `output_file_name` injective?

In folder mode `write_multiple_files` writes the module of crate `c` to `output_file_name lang c` and the collector keeps one
entry per crate (`Props/C14.lean`: `collect_lookup`, `partition_*`).  "Each type is written to exactly one file, the file of its
crate" therefore also needs *different crates to get different files*.  That holds for five languages and fails for Swift, whose file
name is the PascalCase form of the crate name: `SharedModels` and `shared_models` are two crates and one file, so the module written
second replaces the first (replayed on the real binary by `tools/c14.py`, open finding `swift-module-file-collision`).

Since the `fix:` commit 8f4a2d5 `to_pascal_case` asks `char::is_lowercase` (its "all uppercase" test), so the Swift file name and
with it the statements here take the Unicode tables `U` of Rust `std` as a parameter; the witness holds for every table that is
right about ASCII.
-/
namespace TsV.C14
open TsV TsV.Files

/-- the full statement: different crates never share an output file -/
def C14_file_names_full (U : UnicodeOps) : Prop :=
  ∀ (l : Lang) (a b : Str), outputFileName U l a = outputFileName U l b → a = b

/-- the inputs on which it fails: Swift, two different crate names with one PascalCase form (decidable) -/
def Known_swift_file_collision (U : UnicodeOps) (l : Lang) (a b : Str) : Prop :=
  l = .swift ∧ a ≠ b ∧ Rename.toPascal U a = Rename.toPascal U b

instance (U : UnicodeOps) (l : Lang) (a b : Str) : Decidable (Known_swift_file_collision U l a b) := by
  unfold Known_swift_file_collision; infer_instance

/-- kernel-checked witness: two crates, one Swift file -/
theorem swift_file_names_collide (U : UnicodeOps) (hU : U.AsciiCorrect) :
    outputFileName U .swift s%"SharedModels" = outputFileName U .swift s%"shared_models" ∧
      (s%"SharedModels" : Str) ≠ s%"shared_models" := by
  refine ⟨?_, by decide⟩
  simp only [outputFileName]
  rw [RenameLemmas.toPascal_asciiTable U hU _ (by decide), RenameLemmas.toPascal_asciiTable U hU s%"shared_models" (by decide)]
  decide

theorem C14_file_names_not_full (U : UnicodeOps) (hU : U.AsciiCorrect) : ¬ C14_file_names_full U := fun h =>
  absurd (h .swift s%"SharedModels" s%"shared_models" (swift_file_names_collide U hU).1) (swift_file_names_collide U hU).2

example : Known_swift_file_collision .ascii .swift s%"SharedModels" s%"shared_models" := by
  unfold Known_swift_file_collision; decide

/-- outside the known class the file name determines the crate: for TypeScript, Kotlin, Scala, Go and Python always, for Swift
whenever the PascalCase forms differ -/
theorem C14_file_names_partial (U : UnicodeOps) (l : Lang) (a b : Str) (h : outputFileName U l a = outputFileName U l b)
    (hk : ¬ Known_swift_file_collision U l a b) : a = b := by
  by_cases hab : a = b
  · exact hab
  · exfalso
    cases l <;> simp [outputFileName] at h
    case swift => exact hk ⟨rfl, hab, h⟩
    all_goals exact hab h

/-- the exact characterisation: two different crates share a file iff they are in the known class -/
theorem C14_file_names_iff (U : UnicodeOps) (l : Lang) (a b : Str) (hab : a ≠ b) :
    outputFileName U l a = outputFileName U l b ↔ Known_swift_file_collision U l a b := by
  constructor
  · intro h
    exact Classical.byContradiction fun hk => hab (C14_file_names_partial U l a b h hk)
  · rintro ⟨rfl, _, hp⟩
    simp [outputFileName, hp]

/-- non-vacuity of the partial statement: an ordinary pair of crates -/
example : ¬ Known_swift_file_collision .ascii .swift s%"alpha" s%"beta_x" := by
  unfold Known_swift_file_collision; decide

end TsV.C14
