"""C16 — rename_all case conversion agrees with serde_derive's algorithm (rename.rs, parser.rs)."""
import itertools, re
from common import *

RULES = ["lowercase", "UPPERCASE", "PascalCase", "camelCase", "snake_case", "SCREAMING_SNAKE_CASE",
         "kebab-case", "SCREAMING-KEBAB-CASE"]
UNKNOWN = ["Camel_Snake", "lower-case", ""]
REPS = ["a", "B", "1", "_", "é", "É"]
DICTIONARY = ["foo_bar", "FooBar", "Hello", "Number1", "AddressLine1", "URL", "TOTP", "id", "ID", "user_id", "userID",
              "HTTPServer", "x", "X", "a1", "A1", "a_1", "_private", "__", "_", "type", "r#type", "fooBAR", "Foo_Bar",
              "foo__bar", "trailing_", "IOError", "i32", "Vec2D", "snake_case_name", "SCREAMING_SNAKE", "kebab",
              "éclair", "Éclair", "straße", "ǅ", "naïve_field", "MyÉnum", "A", "Z42", "VeryTasty", "outcome",
              "very_tasty", "a", "z42", "B2B", "eTag", "iOS", "macOS", "x86_64", "OK", "Ok", "NaN"] + \
             [chr(i) for i in range(1, 128)] + ["x" + chr(i) + "Y" for i in range(33, 127)]

FIELD_CONV = re.compile(r"^[a-z0-9_]+$")


def upper_camel(s):
    if not re.fullmatch(r"[A-Z][A-Za-z0-9]*", s):
        return False
    return bool(re.search(r"[a-z]", s)) or bool(re.fullmatch(r"[A-Z][0-9]*", s))


def norm(a, who):
    if "panic" in a:
        return {"panic": "byte-slice"}
    return a


def strings(check):
    maxlen = 7 if check.thorough else 5
    out = []
    for n in range(1, maxlen + 1):
        for t in itertools.product(REPS, repeat=n):
            out.append("".join(t))
    return out, maxlen


def run(check):
    strs_, maxlen = strings(check)
    allstrs = strs_ + DICTIONARY
    check.rule = ("every string of length 1..%d over the class representatives {a,B,1,_,é,É} (%d strings) plus a %d-word "
                  "dictionary, x 8 rules (+%d unknown rules) x {field, variant}; compared: typeshare rename_all_to_case "
                  "(hook) vs model, vendored serde_derive case.rs vs Serde model; non-trivial = the string contains a "
                  "word boundary (underscore, case change or non-ASCII letter)" % (maxlen, len(strs_), len(DICTIONARY), len(UNKNOWN)))
    mreq, rreq, meta = [], [], []
    for s_ in allstrs:
        for rule in RULES + UNKNOWN:
            mreq.append([S("rename"), rule, s_])
            rreq.append({"op": "rename", "rule": rule, "s": s_})
            meta.append(("ts", rule, s_))
            if rule in RULES:
                for pos in ("field", "variant"):
                    mreq.append([S("serde"), S(pos), rule, s_])
                    rreq.append({"op": "serde", "pos": pos, "rule": rule, "s": s_})
                    meta.append((pos, rule, s_))
    # the public RenameExt functions directly
    for s_ in DICTIONARY + strs_[:3000]:
        for f in ("camel", "pascal", "snake", "screaming_snake", "kebab", "screaming_kebab"):
            mreq.append([S("renameext"), S(f), s_])
            rreq.append({"op": "renameext", "f": f, "s": s_})
            meta.append(("ext", f, s_))
    mans, rans = model(mreq), runner(rreq)
    impl_ts, impl_serde, model_ts, model_serde = {}, {}, {}, {}
    mismatches = []
    for (kind, rule, s_), ma, ra, rq in zip(meta, mans, rans, rreq):
        who = "typeshare" if kind in ("ts", "ext") else "serde"
        ma, ra = norm(ma, who), norm(ra, who)
        boundary = bool(re.search(r"_|[a-z1][A-Z]|[A-Z][a-z]|[^\x00-\x7f]", s_))
        check.saw((kind, rule, s_), nontrivial=boundary)
        check.count(kind)
        if kind == "ts":
            impl_ts[(rule, s_)], model_ts[(rule, s_)] = ra, ma
        elif kind in ("field", "variant"):
            impl_serde[(kind, rule, s_)], model_serde[(kind, rule, s_)] = ra, ma
        if ma != ra:
            mismatches.append((kind, rule, s_, ma, ra, rq))
    for s_ in ("foo_bar", "FooBar", "URL", "éB_1"):
        check.sample({"string": s_, "rule": "camelCase", "typeshare": impl_ts[("camelCase", s_)],
                      "serde_field": impl_serde[("field", "camelCase", s_)],
                      "serde_variant": impl_serde[("variant", "camelCase", s_)]})

    # --- the property on the implementation (oracle), used when the correspondence breaks
    def newly_failing():
        out = []
        for (rule, s_), got in impl_ts.items():
            if rule not in RULES:
                if got != {"ok": s_}:
                    out.append(("unknown-rule", rule, s_, got, {"ok": s_}))
                continue
            for pos, scope in (("field", FIELD_CONV.match(s_)), ("variant", upper_camel(s_))):
                want = impl_serde[(pos, rule, s_)]
                if "panic" in want:
                    continue        # serde_derive itself fails (compile error in the user's crate): nothing to agree with
                if got != want and (scope or model_ts[(rule, s_)] == model_serde[(pos, rule, s_)]):
                    out.append((pos, rule, s_, got, want))
        out.sort(key=lambda t: (len(t[2]), t[2]))
        return out

    if mismatches:
        fails = newly_failing()
        ts_broken = any(k in ("ts", "ext") for k, *_ in mismatches)
        if fails and ts_broken:
            pos, rule, s_, got, want = fails[0]
            check.violation("rename_all %s on %s %r gives %s, serde_derive gives %s" % (rule, pos, s_, got, want),
                            case={"position": pos, "rule": rule, "ident": s_}, impl=got, model=want, failing_input=True)
        else:
            kind, rule, s_, ma, ra, rq = mismatches[0]
            check.violation("%s differs from its model on %r / %s" % ("typeshare" if kind in ("ts", "ext") else "vendored serde case.rs", s_, rule),
                            case=rq, impl=ra, model=ma, failing_input=False,
                            broken="correspondence %s (theorems TsV.C16.*)" % kind)

    # --- known findings: stored witnesses, replayed on the implementation
    witnesses = {
        "allcaps-special-case": ("variant", "camelCase", "URL"),
        "snake-splits-fields": ("field", "snake_case", "fooBar"),
        "pascal-on-variant-with-underscore": ("variant", "PascalCase", "Foo_Bar"),
    }
    for kid, (pos, rule, s_) in witnesses.items():
        got = impl_ts.get((rule, s_)) or norm(runner([{"op": "rename", "rule": rule, "s": s_}])[0], "typeshare")
        want = impl_serde.get((pos, rule, s_)) or norm(runner([{"op": "serde", "pos": pos, "rule": rule, "s": s_}])[0], "serde")
        if got != want:
            check.known(kid, {"position": pos, "rule": rule, "ident": s_, "typeshare": got, "serde": want})
    # --- repaired classes: their stored witnesses must give serde's name now; a difference means the defect has returned
    repaired = {
        "unicode-case-mapping": ("7d1c05f", [("variant", "lowercase", "É"), ("variant", "lowercase", "Éclair"),
                                             ("variant", "UPPERCASE", "MyÉnum"), ("field", "UPPERCASE", "éclair"),
                                             ("field", "UPPERCASE", "straße"), ("variant", "UPPERCASE", "ǅ")]),
    }
    for kid, (commit, ws) in repaired.items():
        for pos, rule, s_ in ws:
            got = impl_ts.get((rule, s_)) or norm(runner([{"op": "rename", "rule": rule, "s": s_}])[0], "typeshare")
            want = impl_serde.get((pos, rule, s_)) or norm(runner([{"op": "serde", "pos": pos, "rule": rule, "s": s_}])[0], "serde")
            check.saw(("repaired", kid, pos, rule, s_))
            check.count("repaired-witness")
            if got != want and not any(v["failing_input_found"] for v in check.violations):
                check.violation("the repaired class %s (fix %s) has returned: rename_all %s on %s %r gives %s, serde_derive gives %s"
                                % (kid, commit, rule, pos, s_, got, want),
                                case={"position": pos, "rule": rule, "ident": s_}, impl=got, model=want, failing_input=True)
    if not check.has_failing():
        ident_part(check, impl_serde)
        if not check.has_failing():
            backend_part(check)
    n_div = sum(1 for (rule, s_), got in impl_ts.items() if rule in RULES
                for pos in ("field", "variant") if "panic" not in impl_serde[(pos, rule, s_)] and got != impl_serde[(pos, rule, s_)])
    check.extra["divergences_from_serde_outside_conventional_names"] = n_div
    check.exhaustive = True
    check.extra["exhaustive_scope"] = "strings of length <= %d over 6 class representatives" % maxlen
    check.assumptions += ["Unicode case mapping (char::is_uppercase for the snake/kebab family; str::to_lowercase/uppercase are no longer used by rename_all_to_case since 7d1c05f) is a parameter of the model; its table for the alphabet is computed by Rust std on every run",
                          "serde's algorithm is the vendored serde_derive 1.0.214 internals/case.rs, compiled unchanged into the runner"]


def backend_part(check):
    """the names the rules give must also be the names each back end *writes*: one struct and one struct variant per rule, multi-word
    fields first and a single-word field last, through all six generators; judged with C01's extractors (the key each declaration
    binds) against the python reading of serde's rule"""
    import c01, l2
    from syn_gen import m_path, m_nv, m_list, lit_s, t_path, field
    from gen import Gen
    ts = [m_path("typeshare")]
    reqs, meta = [], []
    g = Gen(check.rng)
    for rule in RULES:
        ra = [m_list("serde", [m_nv("rename_all", lit_s(rule))])]
        # the languages with a date type bind the key of a date field a second time (TypeScript's reviver; Python's translation
        # functions): those fields come last but one
        fs = lambda dates=False: ("named", [field([], w, t_path("u8")) for w in ("first_name", "created_by_user", "x2_value")]
                                  + ([field([], w, t_path("OffsetDateTime")) for w in ("last_seen_at", "deleted_at")] if dates else [])
                                  + [field([], "age", t_path("u8"))])
        mk = lambda dates: {"attrs": [], "items": [
            {"kind": "struct", "attrs": ts + ra, "ident": "Person", "generics": [], "fields": fs(dates)},
            {"kind": "enum", "attrs": ts + [m_list("serde", [m_nv("tag", lit_s("t")), m_nv("content", lit_s("c"))])], "ident": "Ev", "generics": [],
             "variants": [{"attrs": list(ra), "ident": "Made", "fields": fs(dates)}, {"attrs": [], "ident": "Gone", "fields": ("unit",)}]}]}
        f = {"attrs": [], "items": [
            {"kind": "struct", "attrs": ts + ra, "ident": "Person", "generics": [], "fields": fs()},
            {"kind": "enum", "attrs": ts + [m_list("serde", [m_nv("tag", lit_s("t")), m_nv("content", lit_s("c"))])], "ident": "Ev", "generics": [],
             "variants": [{"attrs": list(ra), "ident": "Made", "fields": fs()}, {"attrs": [], "ident": "Gone", "fields": ("unit",)}]}]}
        for lang in LANGS:
            cfg = {"package": "proto" if lang == "go" else "com.example", "type_mappings": {}, "version_header": False, "prefix": "", "module_name": ""}
            for ff in [f] + ([mk(True)] if lang in ("typescript", "go", "python") else []):
                m, r, texts = l2.requests(lang, cfg, [{"crate": "", "file_name": "out", "path": "src/lib.rs", "file": ff}], g)
                reqs.append(r)
                meta.append((rule, lang, cfg, ff, texts[0]))
    for (rule, lang, cfg, f, src), a in zip(meta, runner(reqs)):
        check.saw(("backend", rule, lang), nontrivial=True)
        check.count("backend-level")
        probs, n = c01.oracle(lang, cfg, f, l2.norm(a))
        if probs:
            check.violation("rename_all %s: the %s back end does not write the names the rule gives: %s" % (rule, lang, probs[0]),
                            case={"source": src, "rule": rule, "lang": lang}, impl=a, failing_input=True)
            return


def ident_part(check, impl_serde):
    """through parser::parse: the name a field / variant gets under each rule - incl. identifiers written as raw identifiers
    (`r#type`, `r#Match`), whose `r#` serde strips *before* applying the rule - against the model and against the vendored
    serde case.rs applied to the identifier without `r#`"""
    from syn_gen import m_path, m_nv, m_list, lit_s, t_path, field
    from gen import Gen
    import l1
    fields = ["user_id", "r#type", "r#match", "r#fn", "created_at", "r#async", "x", "r#loop_count"]
    variants = ["FooBar", "r#Match", "r#Type", "Ok", "r#LoopCount", "A"]
    ts = [m_path("typeshare")]
    reqs, meta = [], []
    # where the container carries the rule: alone; in a second / third serde attribute; after other arguments of the same
    # attribute; with foreign attributes in between (serde_derive reads all serde attributes of the container)
    def layouts(rule):
        ra = m_nv("rename_all", lit_s(rule))
        other = m_list("serde", [m_path("deny_unknown_fields")])
        bound = m_list("serde", [m_nv("bound", lit_s(""))])
        derive = m_list("derive", [m_path("Debug"), m_path("Clone")])
        return [[m_list("serde", [ra])],
                [other, m_list("serde", [ra])],
                [other, derive, bound, m_list("serde", [ra])],
                [m_list("serde", [m_path("deny_unknown_fields"), m_nv("bound", lit_s("")), ra])],
                [m_list("serde", [ra]), other]]
    for rule, ra in [(None, [])] + [(r, l) for r in RULES for l in layouts(r)]:
        f = {"attrs": [], "items": [
            {"kind": "struct", "attrs": ts + ra, "ident": "S", "generics": [],
             "fields": ("named", [field([], w, t_path("u8")) for w in fields])},
            {"kind": "enum", "attrs": ts + ra, "ident": "E", "generics": [],
             "variants": [{"attrs": [], "ident": w, "fields": ("unit",)} for w in variants]},
            # struct-variant fields follow the *variant's* rule; an enum-wide `rename_all_fields` (which typeshare does not read) of
            # another rule must not displace it
            {"kind": "enum", "attrs": ts + [m_list("serde", [m_nv("tag", lit_s("t")), m_nv("content", lit_s("c")),
                                                              m_nv("rename_all_fields", lit_s("SCREAMING-KEBAB-CASE" if rule != "SCREAMING-KEBAB-CASE" else "camelCase"))])],
             "ident": "F", "generics": [],
             "variants": [{"attrs": list(ra), "ident": "Sv", "fields": ("named", [field([], w, t_path("u8")) for w in fields])}]}]}
        m, r, text = l1.requests(f, Gen(check.rng))
        reqs.append((m, r))
        meta.append((rule, text))
    names = set(w.replace("r#", "") for w in fields + variants)
    sreq = [{"op": "serde", "pos": pos, "rule": rule, "s": w.replace("r#", "")}
            for rule in RULES for pos, ws in (("field", fields), ("variant", variants)) for w in ws]
    sans = iter(runner(sreq))
    want = {}
    for rule in RULES:
        for pos, ws in (("field", fields), ("variant", variants)):
            for w in ws:
                want[(rule, pos, w)] = next(sans)
    mans, rans, diffs = l1.compare(reqs)
    for (rule, text), ma, ra in zip(meta, mans, rans):
        check.saw(("ident", rule), nontrivial=rule is not None)
        check.count("ident-level")
        d = ra.get("ok") or {}
        got = {}
        for st in d.get("structs", []):
            for w, fl in zip(fields, st["fields"]):
                got[("field", w)] = fl["id"]["r"]
        for en in d.get("enums", []):
            if en["id"]["o"] == "F":
                if rule:
                    for w, fl in zip(fields, en["variants"][0].get("fields", [])):
                        got[("field", w + " (struct-variant field, enum has rename_all_fields)")] = fl["id"]["r"]
                continue
            for w, v in zip(variants, en["variants"]):
                got[("variant", w)] = v["id"]["r"]
        for (pos, w), g in sorted(got.items()):
            w0 = w.split(" (")[0]
            exp = want[(rule, pos, w0)].get("ok") if rule else w0.replace("r#", "")
            if exp is not None and g != exp:
                check.violation("rename_all %s on %s `%s`: typeshare names it %r, serde_derive %r" % (rule, pos, w, g, exp),
                                case={"source": text, "rule": rule, "position": pos, "ident": w}, impl=g, model=exp, failing_input=True)
                return
    if diffs:
        i = diffs[0]
        check.violation("parser::parse differs from the model on identifiers under rename_all %s: %s" % (meta[i][0], l1.first_diff(mans[i], rans[i])),
                        case={"source": meta[i][1]}, impl=rans[i], model=mans[i], failing_input=False,
                        broken="correspondence L1 getIdent (theorems TsV.C16.C16_field / C16_variant via C01/C02 parse halves)")
