import TsV.Model.Lang.Go
import TsV.Lemmas.C04_Common
/-!
# C04 for the Go back end (`write_field`, go.rs:513-540; `format_special_type`, go.rs:136-146)
-/
namespace TsV.C04.Go
open TsV TsV.Lang TsV.Lang.Go TsV.C04

/-! ## binding semantics (trusted specification)

Go's idiom for an optional struct field is a pointer type together with `,omitempty` in the json
tag; with `no_pointer_slice` a slice type (`[]T`, nil-able by itself) with `,omitempty` counts as
well. -/

def isOptional (cfg : Cfg) (g : GoField) : Bool :=
  g.omitempty && ((s%"*").isPrefixOf g.ty || (cfg.noPointerSlice && (s%"[]").isPrefixOf g.ty))

/-- the type without the marker: the pointee of an optional pointer field -/
def stripOptional (g : GoField) : Str :=
  if g.omitempty && (s%"*").isPrefixOf g.ty then g.ty.drop 1 else g.ty

/-! ## `format_type` on `Option` -/

/-- the pointer `format_special_type` puts in front of the translation of `Option<r>` -/
def ptr (cfg : Cfg) (r : RustType) : Str := if r.isVec && cfg.noPointerSlice then [] else s%"*"

theorem formatType_option {cfg : Cfg} {r : RustType} (st : Imports)
    (h : NoOptionKey cfg.typeMappings (.option r)) :
    formatType cfg (.option r) st =
      (formatType cfg r st).bind fun (x : Str × Imports) => .ok (ptr cfg r ++ x.1, x.2) := by
  have h' : mapGet cfg.typeMappings (RustType.option r).display = none := h rfl
  rw [formatType]
  simp only [special, h']
  rfl

theorem formatType_option_ok {cfg : Cfg} {r : RustType} {st st' : Imports} {t : Str}
    (hk : NoOptionKey cfg.typeMappings (.option r))
    (h : formatType cfg (.option r) st = .ok (t, st')) :
    ∃ s, formatType cfg r st = .ok (s, st') ∧ t = ptr cfg r ++ s := by
  rw [formatType_option st hk] at h
  obtain ⟨⟨s, st1⟩, hs, h⟩ := bind_ok h
  simp only [Outcome.ok.injEq, Prod.mk.injEq] at h
  obtain ⟨h1, h2⟩ := h
  subst h2
  exact ⟨s, hs, h1.symm⟩

/-- with `no_pointer_slice`, the `Vec` under the `Option` is not replaced by a type mapping (a
mapping keyed `Vec<…>` would put an arbitrary configured name where the slice is expected) -/
def SliceUnmapped (cfg : Cfg) (t : RustType) : Prop :=
  ∀ r, t = .option (.vec r) → cfg.noPointerSlice = true → mapGet cfg.typeMappings (RustType.vec r).display = none

theorem formatType_vec_ok {cfg : Cfg} {r : RustType} {st st' : Imports} {t : Str}
    (hm : mapGet cfg.typeMappings (RustType.vec r).display = none)
    (h : formatType cfg (.vec r) st = .ok (t, st')) :
    ∃ s, t = s%"[]" ++ s := by
  rw [formatType] at h
  simp only [special, hm] at h
  obtain ⟨⟨s, st1⟩, _, h⟩ := bind_ok h
  simp only [Outcome.ok.injEq, Prod.mk.injEq] at h
  exact ⟨s, h.1.symm⟩

/-! ## the acronym pass -/

/-- the acronym pass (`convert_acronyms_to_uppercase`, applied by `write_field` to the whole type
text) leaves the punctuation of pointer and slice types in place -/
def AcrTransparent (U : UnicodeOps) (cfg : Cfg) : Prop :=
  ∀ (c : Char) (s : Str), c ∈ ['*', '[', ']'] →
    acr U cfg (c :: s) = (acr U cfg s).bind fun r => .ok (c :: r)

theorem acr_nil (U : UnicodeOps) (cfg : Cfg) (h : cfg.uppercaseAcronyms = []) (s : Str) :
    acr U cfg s = .ok s := by
  simp [acr, convertAcronyms, h]

/-- without configured acronyms the pass is the identity -/
theorem acrTransparent_nil (U : UnicodeOps) (cfg : Cfg) (h : cfg.uppercaseAcronyms = []) :
    AcrTransparent U cfg := by
  intro c s _
  simp [acr_nil U cfg h]

/-! ## one field -/

theorem fieldFacts_ok {U : UnicodeOps} {cfg : Cfg} {f : RustField} {st st' : Imports} {g : GoField}
    (h : fieldFacts U cfg f st = .ok (g, st')) :
    g.omitempty = opt f ∧
    ∃ typeName goType,
      (match typeOverride f .go with
       | some t => typeName = t
       | none => formatType cfg f.ty st = .ok (typeName, st')) ∧
      acr U cfg typeName = .ok goType ∧
      g.ty = (if f.hasDefault && !f.ty.isOptional then s%"*" else []) ++ goType := by
  unfold fieldFacts at h
  obtain ⟨⟨typeName, st1⟩, htn, h⟩ := bind_ok h
  obtain ⟨goType, hgt, h⟩ := bind_ok h
  obtain ⟨name, _, h⟩ := bind_ok h
  simp only [Outcome.ok.injEq, Prod.mk.injEq] at h
  obtain ⟨h1, h2⟩ := h
  subst h1 h2
  refine ⟨rfl, typeName, goType, ?_, hgt, rfl⟩
  cases ho : typeOverride f .go with
  | some t => rw [ho] at htn; simp at htn; simp [htn.1]
  | none => rw [ho] at htn; exact htn

/-- **Go, one field** (no `go(type = …)` override): pointer (or, with `no_pointer_slice`, slice)
plus `,omitempty` exactly when the field is `Option<_>` or has `serde(default)`; without the
marker the type is the (acronym-cased) translation of the `Option`-stripped Rust type -/
theorem field {U : UnicodeOps} {cfg : Cfg} {f : RustField} {st st' : Imports} {g : GoField}
    (hov : typeOverride f .go = none) (hk : NoOptionKey cfg.typeMappings f.ty)
    (hs : SliceUnmapped cfg f.ty) (ha : AcrTransparent U cfg)
    (h : fieldFacts U cfg f st = .ok (g, st')) :
    isOptional cfg g = opt f ∧
    ∃ inner, formatType cfg (stripOption f.ty) st = .ok (inner, st') ∧
      acr U cfg inner = .ok (stripOptional g) := by
  obtain ⟨hom, typeName, goType, htn, hgt, hty⟩ := fieldFacts_ok h
  rw [hov] at htn
  simp only at htn
  by_cases ho : f.ty.isOptional = true
  · obtain ⟨r, hr⟩ := (isOptional_iff _).1 ho
    rw [hr] at htn hk
    obtain ⟨s, hfs, hts⟩ := formatType_option_ok hk htn
    subst hts
    have hopt : opt f = true := by simp [opt, ho]
    have hpre : (if f.hasDefault && !f.ty.isOptional then s%"*" else ([] : Str)) = [] := by simp [ho]
    rw [hpre, List.nil_append] at hty
    by_cases hv : (r.isVec && cfg.noPointerSlice) = true
    · -- `Option<Vec<_>>` with `no_pointer_slice`: a bare slice
      have hp : ptr cfg r = [] := by simp [ptr, hv]
      rw [hp, List.nil_append] at hgt
      simp only [Bool.and_eq_true] at hv
      obtain ⟨hvec, hnps⟩ := hv
      obtain ⟨r', hr'⟩ : ∃ r', r = .vec r' := by
        cases r <;> simp [RustType.isVec] at hvec
        exact ⟨_, rfl⟩
      subst hr'
      obtain ⟨s', hs'⟩ := formatType_vec_ok (hs r' hr hnps) hfs
      subst hs'
      have h1 := ha '[' (']' :: s') (by simp)
      have h2 := ha ']' s' (by simp)
      have hgt' : acr U cfg ('[' :: ']' :: s') = .ok goType := hgt
      rw [h1, h2] at hgt'
      obtain ⟨x, hx, hgt'⟩ := bind_ok hgt'
      obtain ⟨y, hy, hx⟩ := bind_ok hx
      simp only [Outcome.ok.injEq] at hx hgt'
      subst hx hgt'
      refine ⟨by simp [isOptional, hom, hopt, hty, hnps], s%"[]" ++ s', by rw [hr]; exact hfs, ?_⟩
      have : stripOptional g = g.ty := by simp [stripOptional, hty]
      rw [this, hty]; exact hgt
    · have hp : ptr cfg r = s%"*" := by simp [ptr, hv]
      rw [hp] at hgt
      have h1 := ha '*' s (by simp)
      have hgt' : acr U cfg ('*' :: s) = .ok goType := hgt
      rw [h1] at hgt'
      obtain ⟨x, hx, hgt'⟩ := bind_ok hgt'
      simp only [Outcome.ok.injEq] at hgt'
      subst hgt'
      refine ⟨by simp [isOptional, hom, hopt, hty], s, by rw [hr]; exact hfs, ?_⟩
      have : stripOptional g = x := by simp [stripOptional, hom, hopt, hty]
      rw [this]; exact hx
  · have ho' : f.ty.isOptional = false := by simpa using ho
    rw [stripOption_of_not_optional _ ho']
    cases hdef : f.hasDefault with
    | true =>
      have hopt : opt f = true := by simp [opt, hdef]
      have hpre : (if f.hasDefault && !f.ty.isOptional then s%"*" else ([] : Str)) = s%"*" := by
        simp [ho', hdef]
      rw [hpre] at hty
      refine ⟨by simp [isOptional, hom, hopt, hty], typeName, htn, ?_⟩
      have : stripOptional g = goType := by simp [stripOptional, hom, hopt, hty]
      rw [this]; exact hgt
    | false =>
      have hopt : opt f = false := by simp [opt, hdef, ho']
      have hpre : (if f.hasDefault && !f.ty.isOptional then s%"*" else ([] : Str)) = [] := by simp [hdef]
      rw [hpre, List.nil_append] at hty
      refine ⟨by simp [isOptional, hom, hopt], typeName, htn, ?_⟩
      have : stripOptional g = goType := by simp [stripOptional, hom, hopt, hty]
      rw [this]; exact hgt

/-- with a `go(type = "t")` override the text replaces the translated type including the pointer
that `Option` would have contributed; the `serde(default)` pointer is still added -/
theorem field_override {U : UnicodeOps} {cfg : Cfg} {f : RustField} {st st' : Imports} {g : GoField} {t : Str}
    (hov : typeOverride f .go = some t) (h : fieldFacts U cfg f st = .ok (g, st')) :
    g.omitempty = opt f ∧ ∃ goType, acr U cfg t = .ok goType ∧
      g.ty = (if f.hasDefault && !f.ty.isOptional then s%"*" else []) ++ goType := by
  obtain ⟨hom, typeName, goType, htn, hgt, hty⟩ := fieldFacts_ok h
  rw [hov] at htn
  simp only at htn
  subst htn
  exact ⟨hom, goType, hgt, hty⟩

/-! ## every field of a struct, of a struct variant; payloads; aliases -/

def FieldGen (U : UnicodeOps) (cfg : Cfg) (f : RustField) (g : GoField) : Prop :=
  ∃ st st', fieldFacts U cfg f st = .ok (g, st')

theorem fieldsFacts_pointwise (U : UnicodeOps) (cfg : Cfg) :
    ∀ (fs : List RustField) (st : Imports) (gs : List GoField) (st' : Imports),
      fieldsFacts U cfg fs st = .ok (gs, st') → Pointwise (FieldGen U cfg) fs gs := by
  intro fs
  induction fs with
  | nil => intro st gs st' h; simp [fieldsFacts] at h; rw [h.1]; exact .nil
  | cons f t ih =>
    intro st gs st' h
    simp only [fieldsFacts] at h
    obtain ⟨⟨g, st1⟩, hg, h⟩ := bind_ok h
    obtain ⟨⟨rest, st2⟩, hrest, h⟩ := bind_ok h
    simp only [Outcome.ok.injEq, Prod.mk.injEq] at h
    rw [← h.1]
    exact .cons ⟨st, st1, hg⟩ (ih _ _ _ hrest)

/-- **every field of every struct** has its Go field, in order -/
theorem struct_fields {U : UnicodeOps} {cfg : Cfg} {rs : RustStruct} {st st' : Imports} {d : GoStruct}
    (h : structFacts U cfg rs st = .ok (d, st')) :
    Pointwise (FieldGen U cfg) rs.fields d.fields := by
  unfold structFacts at h
  obtain ⟨name, _, h⟩ := bind_ok h
  obtain ⟨⟨fields, st1⟩, hf, h⟩ := bind_ok h
  simp only [Outcome.ok.injEq, Prod.mk.injEq] at h
  rw [← h.1]
  exact fieldsFacts_pointwise _ _ _ _ _ _ hf

theorem anonStructs_pointwise (U : UnicodeOps) (cfg : Cfg) (e : RustEnum) :
    ∀ (vs : List (Id × List RustField)) (st : Imports) (ds : List GoStruct) (st' : Imports),
      anonStructs U cfg e vs st = .ok (ds, st') →
      Pointwise (fun (v : Id × List RustField) d => Pointwise (FieldGen U cfg) v.2 d.fields) vs ds := by
  intro vs
  induction vs with
  | nil => intro st ds st' h; simp [anonStructs] at h; rw [h.1]; exact .nil
  | cons v t ih =>
    intro st ds st' h
    obtain ⟨id, fields⟩ := v
    simp only [anonStructs] at h
    obtain ⟨sn, _, h⟩ := bind_ok h
    obtain ⟨⟨d, st1⟩, hd, h⟩ := bind_ok h
    obtain ⟨⟨rest, st2⟩, hrest, h⟩ := bind_ok h
    simp only [Outcome.ok.injEq, Prod.mk.injEq] at h
    rw [← h.1]
    exact .cons (struct_fields hd) (ih _ _ _ hrest)

/-- **every field of every struct variant**: one named struct per struct variant, in order -/
theorem variant_fields {U : UnicodeOps} {cfg : Cfg} {e : RustEnum} {tag content : Str} {cs : List Str}
    {st st' : Imports} {d : GoAlgEnum}
    (h : algEnumFacts U cfg e tag content cs st = .ok (d, st')) :
    Pointwise (fun (v : Id × List RustField) s => Pointwise (FieldGen U cfg) v.2 s.fields)
      (structVariants e) d.anonymous := by
  unfold algEnumFacts at h
  obtain ⟨⟨anonymous, st1⟩, han, h⟩ := bind_ok h
  obtain ⟨name, _, h⟩ := bind_ok h
  obtain ⟨tagField, _, h⟩ := bind_ok h
  obtain ⟨short, _, h⟩ := bind_ok h
  obtain ⟨tagAcr, _, h⟩ := bind_ok h
  obtain ⟨⟨variants, st2⟩, _, h⟩ := bind_ok h
  simp only [Outcome.ok.injEq, Prod.mk.injEq] at h
  rw [← h.1]
  exact anonStructs_pointwise _ _ _ _ _ _ _ han

/-- **newtype-variant payload**: typed with the (acronym-cased) translation of the payload type,
so `Option<T>` gives `*T` (`formatType_option`) -/
theorem payload {U : UnicodeOps} {cfg : Cfg} {e : RustEnum} {sn tag : Str} {cstructs : List Str}
    {id : Id} {cs : List Str} {ty : RustType} {st st' : Imports} {v : GoAlgVariant}
    (h : algVariant U cfg e sn tag cstructs (.tuple id cs ty) st = .ok (v, st')) :
    ∃ t p, formatType cfg ty st = .ok (t, st') ∧ acr U cfg t = .ok p.ty ∧ v.payload = some p := by
  unfold algVariant at h
  obtain ⟨vn, _, h⟩ := bind_ok h
  obtain ⟨⟨vt, st1⟩, hvt, h⟩ := bind_ok h
  obtain ⟨tagPart, _, h⟩ := bind_ok h
  simp only at h
  obtain ⟨payload, hp, h⟩ := bind_ok h
  simp only [Outcome.ok.injEq, Prod.mk.injEq] at h
  obtain ⟨h1, h2⟩ := h
  subst h1 h2
  simp only at hvt
  cases hf : formatType cfg ty st with
  | ok r =>
    obtain ⟨t, st2⟩ := r
    rw [hf] at hvt
    simp only [Outcome.ok.injEq, Prod.mk.injEq] at hvt
    obtain ⟨h3, h4⟩ := hvt
    subst h3 h4
    simp only at hp
    obtain ⟨ft, hft, hp⟩ := bind_ok hp
    simp only [Outcome.ok.injEq] at hp
    subst hp
    exact ⟨t, _, rfl, hft, rfl⟩
  | err er => rw [hf] at hvt; simp at hvt
  | panic s => rw [hf] at hvt; simp at hvt

/-- **alias**: `type X <translation of the type>` -/
theorem alias {U : UnicodeOps} {cfg : Cfg} {a : RustTypeAlias} {st st' : Imports} {ga : GoAlias}
    (h : aliasFacts U cfg a st = .ok (ga, st')) :
    formatType cfg a.ty st = .ok (ga.ty, st') := by
  unfold aliasFacts at h
  obtain ⟨name, _, h⟩ := bind_ok h
  obtain ⟨⟨ty, st1⟩, hty, h⟩ := bind_ok h
  simp only [Outcome.ok.injEq, Prod.mk.injEq] at h
  obtain ⟨h1, h2⟩ := h
  subst h1 h2
  exact hty

end TsV.C04.Go
