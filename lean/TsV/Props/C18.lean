import TsV.Model.Integer
/-!
# C18 — I54/U53 hold exactly the JavaScript-safe integers

The limits are written out as literals in the statements (not shared with the model's constants).
-/
namespace TsV.C18
open TsV.Integer

/-- acceptance: exactly `[0, 2^53-1]` -/
theorem u53_accept_iff (n : Int) :
    (u53TryFrom n).isSome ↔ (0 ≤ n ∧ n ≤ 9007199254740991) := by
  unfold u53TryFrom U53_MAX
  by_cases h0 : 0 ≤ n <;> by_cases h1 : n ≤ 9007199254740991 <;> simp [h0, h1]

/-- acceptance: exactly `[-(2^53-1), 2^53-1]` -/
theorem i54_accept_iff (n : Int) :
    (i54TryFrom n).isSome ↔ (-9007199254740991 ≤ n ∧ n ≤ 9007199254740991) := by
  unfold i54TryFrom I54_MIN I54_MAX
  by_cases h0 : -9007199254740991 ≤ n <;> by_cases h1 : n ≤ 9007199254740991 <;> simp [h0, h1]

/-- the literal limits are the powers of two the property names -/
theorem limits : (9007199254740991 : Int) = 2 ^ 53 - 1 := by decide

/-- nothing is truncated: an accepted value is stored unchanged and converts back unchanged -/
theorem u53_roundtrip (n v : Int) (h : u53TryFrom n = some v) : intoWide v = n := by
  unfold u53TryFrom at h; split at h <;> simp_all [intoWide]

theorem i54_roundtrip (n v : Int) (h : i54TryFrom n = some v) : intoWide v = n := by
  unfold i54TryFrom at h; split at h <;> simp_all [intoWide]

/-- rejected rather than truncated -/
theorem u53_reject (n : Int) (h : n < 0 ∨ 9007199254740991 < n) : u53TryFrom n = none := by
  unfold u53TryFrom U53_MAX
  rcases h with h | h
  · have : ¬ (0 ≤ n) := by omega
    simp [this]
  · have : ¬ (n ≤ 9007199254740991) := by omega
    simp [this]

theorem i54_reject (n : Int) (h : n < -9007199254740991 ∨ 9007199254740991 < n) :
    i54TryFrom n = none := by
  unfold i54TryFrom I54_MIN I54_MAX
  rcases h with h | h
  · have : ¬ (-9007199254740991 ≤ n) := by omega
    simp [this]
  · have : ¬ (n ≤ 9007199254740991) := by omega
    simp [this]

/-- widening `From<u8|u16|u32>`: always inside the range, value kept -/
theorem u53_from_narrow (m : Int) (h : 0 ≤ m ∧ m < 4294967296) :
    u53TryFrom (fromNarrow m) = some m := by
  unfold u53TryFrom fromNarrow U53_MAX
  have h0 : 0 ≤ m := h.1
  have h1 : m ≤ 9007199254740991 := by omega
  simp [h0, h1]

theorem i54_from_narrow (m : Int) (h : -2147483648 ≤ m ∧ m < 2147483648) :
    i54TryFrom (fromNarrow m) = some m := by
  unfold i54TryFrom fromNarrow I54_MIN I54_MAX
  have h0 : -9007199254740991 ≤ m := by omega
  have h1 : m ≤ 9007199254740991 := by omega
  simp [h0, h1]

/-- narrowing `TryFrom<U53> for u{8,16,32}` succeeds iff the value fits, and keeps the value -/
theorem u53_to_narrow (bits : Nat) (v : Int) (hv : 0 ≤ v) :
    u53ToNarrow bits v = (if v ≤ 2 ^ bits - 1 then some v else none) := by
  unfold u53ToNarrow
  have hp : (0 : Int) < 2 ^ bits := Int.pow_pos (by decide)
  by_cases h : v ≤ 2 ^ bits - 1
  · have h1 : ¬ (v < 0) := by omega
    have h2 : ¬ (v > 2 ^ bits - 1) := by omega
    have hm : v % 2 ^ bits = v := Int.emod_eq_of_lt hv (by omega)
    simp [h, h1, h2, hm]
  · have h2 : v > 2 ^ bits - 1 := by omega
    simp [h, h2]

/-- narrowing `TryFrom<I54> for i{8,16,32}` -/
theorem i54_to_narrow (bits : Nat) (hb : 0 < bits) (v : Int) :
    i54ToNarrow bits v =
      (if -(2 ^ (bits - 1)) ≤ v ∧ v ≤ 2 ^ (bits - 1) - 1 then some v else none) := by
  unfold i54ToNarrow
  have hp : (0 : Int) < 2 ^ (bits - 1) := Int.pow_pos (by decide)
  have hpow : (2 : Int) ^ bits = 2 * 2 ^ (bits - 1) := by
    have : bits = (bits - 1) + 1 := by omega
    conv => lhs; rw [this, Int.pow_succ]
    omega
  by_cases h : -(2 ^ (bits - 1)) ≤ v ∧ v ≤ 2 ^ (bits - 1) - 1
  · have h1 : ¬ (v < -(2 ^ (bits - 1))) := by omega
    have h2 : ¬ (v > 2 ^ (bits - 1) - 1) := by omega
    have hw : wrapSigned bits v = v := by
      unfold wrapSigned
      simp only
      by_cases hneg : v < 0
      · have hm : v % 2 ^ bits = v + 2 ^ bits := by
          have : (v + 2 ^ bits) % 2 ^ bits = v + 2 ^ bits :=
            Int.emod_eq_of_lt (by omega) (by omega)
          rw [← this]; simp
        rw [hm]
        have : v + 2 ^ bits ≥ 2 ^ (bits - 1) := by omega
        simp [this]
      · have hm : v % 2 ^ bits = v := Int.emod_eq_of_lt (by omega) (by omega)
        rw [hm]
        have : ¬ (v ≥ 2 ^ (bits - 1)) := by omega
        simp [this]
    simp [h, h1, h2, hw]
  · have : v < -(2 ^ (bits - 1)) ∨ v > 2 ^ (bits - 1) - 1 := by omega
    rcases this with h1 | h1 <;> simp [h, h1]

/-- `usize_from_u53_saturated` keeps every valid U53 -/
theorem usize_saturated (v : Int) (h : 0 ≤ v ∧ v ≤ 9007199254740991) :
    usizeFromU53Saturated v = v := by
  unfold usizeFromU53Saturated; omega

/-- serde_json deserialisation of an integer literal accepts exactly the same range -/
theorem u53_json_iff (k : Int) : (u53FromJson k).isSome ↔ (0 ≤ k ∧ k ≤ 9007199254740991) := by
  unfold u53FromJson
  by_cases h : k < 0 ∨ k ≥ 18446744073709551616
  · have : ¬ (0 ≤ k ∧ k ≤ 9007199254740991) := by omega
    rcases h with h | h <;> simp [h, this]
  · have h1 : ¬ (k < 0) := by omega
    have h2 : ¬ (k ≥ 18446744073709551616) := by omega
    simp only [h1, h2, decide_false, Bool.or_self, Bool.false_eq_true, ↓reduceIte]
    exact u53_accept_iff k

theorem i54_json_iff (k : Int) :
    (i54FromJson k).isSome ↔ (-9007199254740991 ≤ k ∧ k ≤ 9007199254740991) := by
  unfold i54FromJson
  by_cases h : k < -9223372036854775808 ∨ k ≥ 9223372036854775808
  · have : ¬ (-9007199254740991 ≤ k ∧ k ≤ 9007199254740991) := by omega
    rcases h with h | h <;> simp [h, this]
  · have h1 : ¬ (k < -9223372036854775808) := by omega
    have h2 : ¬ (k ≥ 9223372036854775808) := by omega
    simp only [h1, h2, decide_false, Bool.or_self, Bool.false_eq_true, ↓reduceIte]
    exact i54_accept_iff k

/-! ### through an IEEE-754 double -/

theorem bitLenAux_le (fuel n : Nat) : bitLenAux fuel n ≤ fuel := by
  induction fuel generalizing n with
  | zero => simp [bitLenAux]
  | succ f ih =>
    unfold bitLenAux
    split
    · omega
    · have := ih (n / 2); omega

theorem bitLenAux_small (k : Nat) : ∀ fuel n, n < 2 ^ k → bitLenAux fuel n ≤ k := by
  induction k with
  | zero =>
    intro fuel n h
    have : n = 0 := by simpa using h
    subst this
    cases fuel <;> simp [bitLenAux]
  | succ k ih =>
    intro fuel n h
    cases fuel with
    | zero => simp [bitLenAux]
    | succ f =>
      unfold bitLenAux
      split
      · omega
      · have : n / 2 < 2 ^ k := by
          rw [Nat.pow_succ] at h; omega
        have := ih f (n / 2) this
        omega

/-- every natural number below 2^53 is its own nearest double -/
theorem f64RoundNat_exact (n : Nat) (h : n < 2 ^ 53) : f64RoundNat n = n := by
  have hb : bitLen n ≤ 53 := bitLenAux_small 53 128 n h
  have he : bitLen n - 53 = 0 := by omega
  unfold f64RoundNat
  simp [he]

/-- conversion through a double leaves every accepted value unchanged -/
theorem f64_exact (n : Int) (h : -9007199254740991 ≤ n ∧ n ≤ 9007199254740991) :
    f64Round n = n := by
  unfold f64Round
  have hn : n.natAbs < 2 ^ 53 := by omega
  rw [f64RoundNat_exact _ hn]
  split <;> omega

/-- tightness: just outside the next power of two the double is no longer exact -/
theorem f64_tight : f64Round 9007199254740993 ≠ 9007199254740993 := by decide

theorem f64_tight_neg : f64Round (-9007199254740993) ≠ -9007199254740993 := by decide

/-- ordering and equality are those of the underlying integers (the representation is the integer;
`derive(PartialOrd, Ord, PartialEq, Eq)` on a one-field tuple struct compares that field) -/
theorem order_agrees (a b x y : Int) (ha : u53TryFrom a = some x) (hb : u53TryFrom b = some y) :
    (x < y ↔ a < b) ∧ (x = y ↔ a = b) := by
  have := u53_roundtrip a x ha
  have := u53_roundtrip b y hb
  simp [intoWide] at *
  subst_vars
  exact ⟨Iff.rfl, Iff.rfl⟩

/-! non-vacuity: concrete values at and next to the limits -/
example : u53TryFrom 9007199254740991 = some 9007199254740991 := by decide
example : u53TryFrom 9007199254740992 = none := by decide
example : i54TryFrom (-9007199254740991) = some (-9007199254740991) := by decide
example : i54TryFrom (-9007199254740992) = none := by decide
example : u53ToNarrow 32 4294967296 = none := by decide
example : i54ToNarrow 8 (-128) = some (-128) := by decide
example : f64Round 9007199254740993 = 9007199254740992 := by decide
example : f64Round 9007199254740995 = 9007199254740996 := by decide

end TsV.C18
