import TsV.Lemmas.C07_Backends_Langs
import TsV.Lemmas.C07_Backends_Go
import TsV.Lemmas.C07_Backends_Parse
/-!
# C07, generation side — composing parser, glue and back ends into `Generate.run`
-/
namespace TsV.C07BE
open TsV TsV.Outcome

/-- the only hypothesis of the whole-run theorem: when the target is Go, the configured
`uppercase_acronyms` satisfy `Go.cfgOk` (decidable; `true` for the five other back ends) -/
def GoOk (E : Ext) : Generate.LangCfg → Bool
  | .go cfg => Go.cfgOk E.U cfg
  | _ => true

theorem jobsNo64_of_wf {jobs : List Job} (h : ∀ j ∈ jobs, DataWf j.2.1) : jobsNo64 jobs = true := by
  rw [jobsNo64, List.all_eq_true]; exact fun j hj => (h j hj).no64

theorem jobsUnitOk_of_wf {jobs : List Job} (h : ∀ j ∈ jobs, DataWf j.2.1) : jobsUnitOk jobs = true := by
  rw [jobsUnitOk, List.all_eq_true]; exact fun j hj => (h j hj).unitOk

/-- every back end on well-formed jobs -/
theorem generate_np (E : Ext) (lang : Generate.LangCfg) (multi : Bool) (jobs : List Job)
    (hgo : GoOk E lang = true) (hw : ∀ j ∈ jobs, DataWf j.2.1) :
    NP (match lang with
      | .typescript cfg => Lang.TypeScript.generateAll E cfg multi jobs
      | .kotlin cfg => Lang.Kotlin.generateAll E cfg multi jobs
      | .swift cfg => Lang.Swift.generateAll E cfg multi jobs
      | .scala cfg => Lang.Scala.generateAll E cfg multi jobs
      | .go cfg => Lang.Go.generateAll E cfg multi jobs
      | .python cfg => Lang.Python.generateAll E cfg multi jobs) := by
  cases lang with
  | typescript cfg => exact TypeScript.generateAll_np E cfg multi jobs (jobsNo64_of_wf hw)
  | kotlin cfg => exact Kotlin.generateAll_np E cfg multi jobs
  | swift cfg => exact Swift.generateAll_np E cfg multi jobs
  | scala cfg => exact Scala.generateAll_np E cfg multi jobs
  | go cfg => exact Go.generateAll_np E cfg multi jobs hgo (jobsUnitOk_of_wf hw)
  | python cfg => exact Python.generateAll_np E cfg multi jobs (jobsUnitOk_of_wf hw)

theorem run_np (E : Ext) (lang : Generate.LangCfg) (multi : Bool) (targetOs : List Str)
    (pick : List ImportedType → Option ImportedType) (files : List Generate.SourceFile)
    (hgo : GoOk E lang = true) : NP (Generate.run E lang multi targetOs pick files) := by
  unfold Generate.run
  simp only
  have hp := parseAll_np E { ignoredTypes := Generate.ignoredTypes lang, multiFile := multi, targetOs } pick files
  cases hpa : Generate.parseAll E { ignoredTypes := Generate.ignoredTypes lang, multiFile := multi, targetOs }
      pick files with
  | err e => rfl
  | panic s => exact (np_absurd hp hpa).elim
  | ok arrivals =>
    have hw := crates_wf E _ pick files arrivals hpa
    simp only [Outcome.bind_ok]
    split
    · exact np_ok _
    · refine np_bind _ _ ?_ (fun _ => np_ok _)
      apply generate_np E lang multi _ hgo
      intro j hj
      simp only [List.mem_map] at hj
      obtain ⟨⟨c, d⟩, hq, rfl⟩ := hj
      exact hw _ hq

end TsV.C07BE
