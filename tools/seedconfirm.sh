#!/bin/sh
# usage: tools/seedconfirm.sh <agent worktree> <name>   -- confirm a seeded change independently in /tmp/seedwt and store it under seeded/<name>/
SRC="$1"; NAME="$2"
WT=${SEEDWT:-/tmp/seedwt}
if [ ! -d "$WT" ]; then git -C /repo worktree add -q "$WT" HEAD; fi
git -C "$WT" checkout -q --detach "$(git -C /repo rev-parse HEAD)"; git -C "$WT" checkout -q -- .; git -C "$WT" clean -fdq -e target
cp "$SRC/demo.sh" "$WT/demo.sh"; for f in "$SRC"/demo_* "$SRC"/demo/ ; do [ -e "$f" ] && cp -r "$f" "$WT/"; done
cd "$WT"
git apply "$SRC/patch.diff" || { echo "PATCH DOES NOT APPLY"; exit 1; }
T=$(cargo nextest run --workspace --no-fail-fast --offline 2>&1 | grep -E "Summary" | tail -1)
echo "tests with patch: $T"
bash ./demo.sh >/tmp/seed_demo_with.log 2>&1; W=$?
git apply -R "$SRC/patch.diff"
bash ./demo.sh >/tmp/seed_demo_without.log 2>&1; WO=$?
echo "demo with patch: exit $W ; without: exit $WO"
mkdir -p /verif/seeded/"$NAME"
cp "$SRC/patch.diff" "$SRC/demo.sh" /verif/seeded/"$NAME"/
for f in "$SRC"/demo_* ; do [ -e "$f" ] && cp -r "$f" /verif/seeded/"$NAME"/; done
python3 - "$SRC/meta.json" "/verif/seeded/$NAME/meta.json" "$T" "$W" "$WO" <<'PY'
import json,sys
m=json.load(open(sys.argv[1]))
m["confirmed"]={"tests_with_patch":sys.argv[3].strip(),"demo_exit_with_patch":int(sys.argv[4]),"demo_exit_without_patch":int(sys.argv[5]),
                "how":"tools/seedconfirm.sh in a separate scratch worktree (/tmp/seedwt) of /repo HEAD"}
json.dump(m,open(sys.argv[2],"w"),indent=1)
PY
rm -f "$WT/demo.sh"; git -C "$WT" checkout -q -- .; git -C "$WT" clean -fdq -e target
