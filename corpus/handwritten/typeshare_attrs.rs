#[typeshare(swift = "Equatable, Hashable", kotlin = "JvmInline", redacted)]
#[typeshare(swift = "Hashable , Codable")]
#[typeshare(swiftGenericConstraints = "T: Equatable & Hashable, U: Codable")]
pub struct Deco<T, U> {
    #[typeshare(typescript(type = "string | null", readonly), python(type = "str"))]
    #[typeshare(swift(readonly))]
    pub a: T,
    #[typeshare(typescript(readonly))]
    #[typeshare(TypeScript(type = "any"))]
    #[typeshare(kotlin(foo), go(type = "int"), scala(bar = "baz"))]
    pub b: U,
    #[typeshare(serialized_as = "Vec<String>")]
    pub c: u8,
    #[typeshare(serialized_as = " Option<u8> ", skip)]
    pub d: u8,
    #[typeshare(typescript(type = "a" "b"))]
    pub f: u8,
    #[typeshare(typescript(type = 5))]
    pub g: u8,
    #[typeshare(typescript(type))]
    pub h: u8,
    #[typeshare(typescript())]
    pub i: u8,
    #[typeshare(typescript(readonly, readonly, type = "x", type = "y"))]
    pub j: u8,
    #[typeshare(java(x))]
    pub k: u8,
    #[typeshare(typescript = "x")]
    pub l: u8,
    #[typeshare(typescript(a::b))]
    pub m: u8,
}
#[typeshare]
pub struct BadSer { #[typeshare(serialized_as = "not a type(")] pub e: u8 }
#[typeshare::typeshare]
pub struct Qual { pub a: u8 }
#[::typeshare::typeshare]
pub struct Qual2 { pub a: u8 }
#[cfg_attr(feature = "ts", typeshare)]
pub struct NotAnnotated { pub a: u8 }
#[foo::typeshare::bar(x)]
pub struct Middle { pub a: u8 }
#[typeshare(serialized_as = "String")]
pub struct AsString { inner: Vec<u8> }
#[typeshare(serialized_as = "HashMap<String, Vec<Middle>>")]
pub enum AsMap { A, B }
#[typeshare]
pub type Al<T> = Vec<T>;
#[typeshare(redacted)]
pub type Red = String;
