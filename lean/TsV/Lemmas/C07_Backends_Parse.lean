import TsV.Lemmas.C07_Backends_Base
import TsV.Lemmas.NoPanic
/-!
# C07, generation side — what the parser and the glue guarantee about the items they hand on

Two facts that make three panic sites of the back ends unreachable in a whole run:

* `TryFrom<&syn::Type>` rejects `u64`/`i64`/`usize`/`isize` wherever they occur, so no parsed type
  contains a 64-bit primitive (`tryFrom_no64`) — typescript.rs:137;
* `parse_enum` builds a `RustEnum::Unit` only when every variant is a unit variant
  (`enumShape_wf`) — go.rs:301, python.rs:368.

`DataWf` states both for all items of a `ParsedData`; it is established by `parser::parse`
(`parseFile_wf`) and preserved by the collector fold (`collect_wf`) and by `reconcile_aliases`
(`reconcile_wf`).
-/
namespace TsV.C07BE
open TsV TsV.Syn TsV.Outcome TsV.RustTypes TsV.Parser

/-! ## types -/

theorem lookup_mem {α β} [BEq α] : ∀ (l : List (α × β)) (k : α) (v : β), l.lookup k = some v → ∃ k', (k', v) ∈ l
  | [], _, _, h => by simp [List.lookup] at h
  | (k0, v0) :: t, k, v, h => by
    simp only [List.lookup] at h
    split at h
    · cases h; exact ⟨k0, by simp⟩
    · obtain ⟨k', hk⟩ := lookup_mem t k v h
      exact ⟨k', by simp [hk]⟩

theorem primTable_vals : ∀ x ∈ primTable, Prim.is64 x.2 = false := by
  simp [primTable, Prim.is64]

theorem primLookup_no64 {id : Str} {p : Prim} (h : primTable.lookup id = some p) : Prim.is64 p = false := by
  obtain ⟨k, hk⟩ := lookup_mem _ _ _ h
  exact primTable_vals _ hk

theorem fromPath_no64 (id : Str) (ps : List RustType) (r : RustType) (h : fromPath id ps = .ok r)
    (hps : no64List ps = true) : no64 r = true := by
  unfold fromPath at h
  repeat' (split at h)
  all_goals first
    | (cases h; done)
    | (cases h; simp only [no64, no64List, Bool.and_eq_true] at hps ⊢; first | exact hps | exact hps.1 | exact ⟨hps.1, hps.2.1⟩)
    | (cases h; simp only [no64]; rw [primLookup_no64 ‹_›]; rfl)
    | (cases h; rfl)

mutual
  /-- **no parsed type contains a 64-bit primitive** -/
  theorem tryFrom_no64 : ∀ (t : SynType) (r : RustType), tryFrom t = .ok r → no64 r = true
    | .tuple [], r, h => by simp only [tryFrom, Outcome.ok.injEq] at h; subst h; rfl
    | .tuple (_ :: _), r, h => by simp [tryFrom] at h
    | .reference e, r, h => by simp only [tryFrom] at h; exact tryFrom_no64 e r h
    | .path q last args, r, h => by
      simp only [tryFrom] at h
      cases hl : tryFromList args with
      | ok ps => rw [hl] at h; exact fromPath_no64 _ _ _ h (tryFromList_no64 args ps hl)
      | err e => rw [hl] at h; cases h
      | panic s => rw [hl] at h; cases h
    | .array e len, r, h => by
      simp only [tryFrom] at h
      cases he : tryFrom e with
      | ok t =>
        rw [he] at h
        cases len with
        | none => cases h
        | some n =>
          simp only at h
          split at h
          · cases h; simpa [no64] using tryFrom_no64 e t he
          · cases h
      | err er => rw [he] at h; cases len <;> cases h
      | panic s => rw [he] at h; cases len <;> cases h
    | .slice e, r, h => by
      simp only [tryFrom] at h
      cases he : tryFrom e with
      | ok t => rw [he] at h; cases h; simpa [no64] using tryFrom_no64 e t he
      | err er => rw [he] at h; cases h
      | panic s => rw [he] at h; cases h
    | .other, r, h => by simp [tryFrom] at h
  theorem tryFromList_no64 : ∀ (ts : List SynType) (rs : List RustType), tryFromList ts = .ok rs →
      no64List rs = true
    | [], rs, h => by simp only [tryFromList, Outcome.ok.injEq] at h; subst h; rfl
    | t :: ts, rs, h => by
      simp only [tryFromList] at h
      cases ht : tryFrom t with
      | ok r =>
        rw [ht] at h
        cases hl : tryFromList ts with
        | ok rs' =>
          rw [hl] at h; cases h
          simp only [no64List, Bool.and_eq_true]
          exact ⟨tryFrom_no64 t r ht, tryFromList_no64 ts rs' hl⟩
        | err e => rw [hl] at h; cases h
        | panic s => rw [hl] at h; cases h
      | err e => rw [ht] at h; cases h
      | panic s => rw [ht] at h; cases h
end

theorem fromStr_no64 (pt : Str → Option SynType) (s : Str) (r : RustType) (h : fromStr pt s = .ok r) :
    no64 r = true := by
  unfold fromStr at h
  split at h
  · cases h
  · exact tryFrom_no64 _ _ h

theorem fieldType_no64 (E : Ext) (attrs : List Attr) (ty : SynType) (r : RustType)
    (h : fieldType E attrs ty = .ok r) : no64 r = true := by
  unfold fieldType at h
  split at h
  · exact fromStr_no64 _ _ _ h
  · exact tryFrom_no64 _ _ h

/-! ## items -/

/-- both facts about one item -/
def ItemWf (it : RustItem) : Prop := itemNo64 it = true ∧ itemUnitOk it = true

theorem mapM'_ok_pred {α β} (f : α → Outcome β) (P : β → Prop) (hf : ∀ a b, f a = .ok b → P b) :
    ∀ (l : List α) (r : List β), mapM' f l = .ok r → ∀ b ∈ r, P b
  | [], r, h => by simp only [mapM', Outcome.ok.injEq] at h; subst h; simp
  | a :: t, r, h => by
    simp only [mapM'] at h
    cases hfa : f a with
    | ok b0 =>
      rw [hfa] at h
      cases ht : mapM' f t with
      | ok bs =>
        rw [ht] at h; cases h
        intro b hb
        simp only [List.mem_cons] at hb
        rcases hb with rfl | hb
        · exact hf a _ hfa
        · exact mapM'_ok_pred f P hf t bs ht b hb
      | err e => rw [ht] at h; cases h
      | panic s => rw [ht] at h; cases h
    | err e => rw [hfa] at h; cases h
    | panic s => rw [hfa] at h; cases h

theorem parseField_no64 (E : Ext) (cf : Bool) (ra : Option Str) (f : Field) (rf : RustField)
    (h : parseField E cf ra f = .ok rf) : no64 rf.ty = true := by
  unfold parseField at h
  obtain ⟨ty, hty, h⟩ := (Outcome.bind_eq_ok _ _ _).1 h
  split at h
  · cases h
  · obtain ⟨id, _, h⟩ := (Outcome.bind_eq_ok _ _ _).1 h
    simp only [Outcome.pure_eq_ok, Outcome.ok.injEq] at h
    subst h
    exact fieldType_no64 _ _ _ _ hty

theorem parseFields_no64 (E : Ext) (ra : Option Str) (fs : List Field) (rfs : List RustField)
    (h : mapM' (parseField E true ra) fs = .ok rfs) : rfs.all (fun f => no64 f.ty) = true := by
  rw [List.all_eq_true]
  exact mapM'_ok_pred _ (fun rf => no64 rf.ty = true) (parseField_no64 E true ra) fs rfs h

theorem mkAlias_wf {E : Ext} {ident : Str} {attrs : List Attr} {gens : List GenericParam} {ty : RustType}
    {it : RustItem} (h : mkAlias E ident attrs gens ty = .ok it) (hty : no64 ty = true) : ItemWf it := by
  unfold mkAlias at h
  obtain ⟨id, _, h⟩ := (Outcome.bind_eq_ok _ _ _).1 h
  simp only [Outcome.pure_eq_ok, Outcome.ok.injEq] at h
  subst h
  exact ⟨hty, rfl⟩

theorem mkStruct_wf {E : Ext} {ident : Str} {attrs : List Attr} {gens : List GenericParam}
    {fs : List RustField} {it : RustItem} (h : mkStruct E ident attrs gens fs = .ok it)
    (hfs : fs.all (fun f => no64 f.ty) = true) : ItemWf it := by
  unfold mkStruct at h
  obtain ⟨id, _, h⟩ := (Outcome.bind_eq_ok _ _ _).1 h
  simp only [Outcome.pure_eq_ok, Outcome.ok.injEq] at h
  subst h
  exact ⟨hfs, rfl⟩

theorem serializedAlias_wf {E : Ext} {ident : Str} {attrs : List Attr} {gens : List GenericParam} {s : Str}
    {it : RustItem} (h : serializedAlias E ident attrs gens s = .ok it) : ItemWf it := by
  unfold serializedAlias at h
  obtain ⟨ty, hty, h⟩ := (Outcome.bind_eq_ok _ _ _).1 h
  exact mkAlias_wf h (fromStr_no64 _ _ _ hty)

theorem parseStruct_wf {E : Ext} {T : List Str} {attrs : List Attr} {ident : Str} {gens : List GenericParam}
    {fields : Fields} {it : RustItem} (h : parseStruct E T attrs ident gens fields = .ok it) : ItemWf it := by
  unfold parseStruct at h
  split at h
  · exact serializedAlias_wf h
  · split at h
    · obtain ⟨rfs, hr, h⟩ := (Outcome.bind_eq_ok _ _ _).1 h
      exact mkStruct_wf h (parseFields_no64 _ _ _ _ hr)
    · split at h
      · cases h
      · split at h
        · cases h
        · obtain ⟨ty, hty, h⟩ := (Outcome.bind_eq_ok _ _ _).1 h
          exact mkAlias_wf h (fieldType_no64 _ _ _ _ hty)
    · exact mkStruct_wf h rfl

theorem parseEnumVariant_no64 {E : Ext} {T : List Str} {ra : Option Str} {v : Variant} {rv : RustEnumVariant}
    (h : parseEnumVariant E T ra v = .ok rv) : variantNo64 rv = true := by
  unfold parseEnumVariant at h
  obtain ⟨id, _, h⟩ := (Outcome.bind_eq_ok _ _ _).1 h
  split at h
  · simp only [Outcome.pure_eq_ok, Outcome.ok.injEq] at h; subst h; rfl
  · split at h
    · cases h
    · split at h
      · cases h
      · obtain ⟨ty, hty, h⟩ := (Outcome.bind_eq_ok _ _ _).1 h
        simp only [Outcome.pure_eq_ok, Outcome.ok.injEq] at h; subst h
        exact fieldType_no64 _ _ _ _ hty
  · obtain ⟨rfs, hr, h⟩ := (Outcome.bind_eq_ok _ _ _).1 h
    simp only [Outcome.pure_eq_ok, Outcome.ok.injEq] at h; subst h
    exact parseFields_no64 _ _ _ _ hr

/-- **`RustEnum::Unit` is only built from unit variants** -/
theorem enumShape_wf {E : Ext} {attrs : List Attr} {shared : RustEnum} {it : RustItem}
    (h : enumShape E attrs shared = .ok it) (hk : shared.keys = none)
    (hv : shared.variants.all variantNo64 = true) : ItemWf it := by
  unfold enumShape at h
  split at h
  · rename_i hall
    split at h
    · cases h
    · split at h
      · cases h
      · simp only [Outcome.pure_eq_ok, Outcome.ok.injEq] at h; subst h
        exact ⟨hv, by simp only [itemUnitOk, enumUnitOk, hk]; exact hall⟩
  · split at h
    · cases h
    · split at h
      · cases h
      · simp only [Outcome.pure_eq_ok, Outcome.ok.injEq] at h; subst h
        exact ⟨hv, rfl⟩

theorem parseEnum_wf {E : Ext} {T : List Str} {attrs : List Attr} {ident : Str} {gens : List GenericParam}
    {variants : List Variant} {it : RustItem} (h : parseEnum E T attrs ident gens variants = .ok it) :
    ItemWf it := by
  unfold parseEnum at h
  split at h
  · exact serializedAlias_wf h
  · obtain ⟨vs, hvs, h⟩ := (Outcome.bind_eq_ok _ _ _).1 h
    obtain ⟨id, _, h⟩ := (Outcome.bind_eq_ok _ _ _).1 h
    refine enumShape_wf h rfl ?_
    rw [List.all_eq_true]
    exact mapM'_ok_pred _ (fun rv => variantNo64 rv = true) (fun _ _ => parseEnumVariant_no64) _ _ hvs

theorem parseTypeAlias_wf {E : Ext} {attrs : List Attr} {ident : Str} {gens : List GenericParam}
    {ty : SynType} {it : RustItem} (h : parseTypeAlias E attrs ident gens ty = .ok it) : ItemWf it := by
  unfold parseTypeAlias at h
  obtain ⟨t, ht, h⟩ := (Outcome.bind_eq_ok _ _ _).1 h
  exact mkAlias_wf h (fieldType_no64 _ _ _ _ ht)

theorem parseConst_wf {E : Ext} {attrs : List Attr} {ident : Str} {ty : SynType} {init : Option Lit}
    {it : RustItem} (h : parseConst E attrs ident ty init = .ok it) : ItemWf it := by
  unfold parseConst at h
  obtain ⟨v, _, h⟩ := (Outcome.bind_eq_ok _ _ _).1 h
  obtain ⟨t, ht, h⟩ := (Outcome.bind_eq_ok _ _ _).1 h
  split at h
  · obtain ⟨id, _, h⟩ := (Outcome.bind_eq_ok _ _ _).1 h
    simp only [Outcome.pure_eq_ok, Outcome.ok.injEq] at h; subst h
    exact ⟨fieldType_no64 _ _ _ _ ht, rfl⟩
  · cases h

/-! ## `ParsedData` -/

/-- both facts for every item of a `ParsedData` -/
structure DataWf (d : ParsedData) : Prop where
  structs : ∀ s ∈ d.structs, ItemWf (.struct s)
  enums : ∀ e ∈ d.enums, ItemWf (.enum e)
  aliases : ∀ a ∈ d.aliases, ItemWf (.alias a)
  consts : ∀ c ∈ d.consts, ItemWf (.const c)

theorem DataWf.congr {d d' : ParsedData} (h : DataWf d) (hs : d'.structs = d.structs)
    (he : d'.enums = d.enums) (ha : d'.aliases = d.aliases) (hc : d'.consts = d.consts) : DataWf d' :=
  ⟨by rw [hs]; exact h.structs, by rw [he]; exact h.enums, by rw [ha]; exact h.aliases,
   by rw [hc]; exact h.consts⟩

theorem DataWf.empty {d : ParsedData} (hs : d.structs = []) (he : d.enums = []) (ha : d.aliases = [])
    (hc : d.consts = []) : DataWf d :=
  ⟨by simp [hs], by simp [he], by simp [ha], by simp [hc]⟩

theorem DataWf.items {d : ParsedData} (h : DataWf d) : ∀ it ∈ itemsOf d, ItemWf it := by
  intro it hit
  rcases mem_itemsOf.1 hit with ⟨a, ha, rfl⟩ | ⟨a, ha, rfl⟩ | ⟨a, ha, rfl⟩ | ⟨a, ha, rfl⟩
  · exact h.aliases a ha
  · exact h.structs a ha
  · exact h.enums a ha
  · exact h.consts a ha

theorem DataWf.no64 {d : ParsedData} (h : DataWf d) : dataNo64 d = true := by
  rw [dataNo64, List.all_eq_true]; exact fun it hit => (h.items it hit).1

theorem DataWf.unitOk {d : ParsedData} (h : DataWf d) : dataUnitOk d = true := by
  rw [dataUnitOk, List.all_eq_true]; exact fun e he => (h.enums e he).2

open Visitor

theorem push_wf {d : ParsedData} {it : RustItem} (hd : DataWf d) (hi : ItemWf it) : DataWf (push d it) := by
  cases it with
  | struct s =>
    exact ⟨by intro x hx; simp only [push, List.mem_append, List.mem_singleton] at hx
              rcases hx with hx | rfl
              · exact hd.structs x hx
              · exact hi,
           hd.enums, hd.aliases, hd.consts⟩
  | enum e =>
    exact ⟨hd.structs,
           by intro x hx; simp only [push, List.mem_append, List.mem_singleton] at hx
              rcases hx with hx | rfl
              · exact hd.enums x hx
              · exact hi,
           hd.aliases, hd.consts⟩
  | alias a =>
    exact ⟨hd.structs, hd.enums,
           by intro x hx; simp only [push, List.mem_append, List.mem_singleton] at hx
              rcases hx with hx | rfl
              · exact hd.aliases x hx
              · exact hi,
           hd.consts⟩
  | const c =>
    exact ⟨hd.structs, hd.enums, hd.aliases,
           by intro x hx; simp only [push, List.mem_append, List.mem_singleton] at hx
              rcases hx with hx | rfl
              · exact hd.consts x hx
              · exact hi⟩

theorem addImports_wf {d : ParsedData} (imps : List ImportedType) (hd : DataWf d) : DataWf (addImports d imps) :=
  hd.congr rfl rfl rfl rfl

theorem addPaths_wf (E : Ext) (ctx : ParseContext) {d : ParsedData} (paths : List (List Str)) (hd : DataWf d) :
    DataWf (addPaths E ctx d paths) := by
  unfold addPaths; split
  · exact addImports_wf _ hd
  · exact hd

theorem collectIf_wf {ctx : ParseContext} {path : Str} {d d' : ParsedData} {attrs : List Attr}
    {p : Outcome RustItem} (h : collectIf ctx path d attrs p = .ok d') (hd : DataWf d)
    (hp : ∀ it, p = .ok it → ItemWf it) : DataWf d' := by
  unfold collectIf at h
  split at h
  · unfold collectResult at h
    cases p with
    | ok item => simp only [Outcome.ok.injEq] at h; subst h; exact push_wf hd (hp item rfl)
    | err e => simp only [Outcome.ok.injEq] at h; subst h; exact hd.congr rfl rfl rfl rfl
    | panic s => cases h
  · simp only [Outcome.pure_eq_ok, Outcome.ok.injEq] at h; subst h; exact hd

mutual
  theorem visitItem_wf (E : Ext) (ctx : ParseContext) (path : Str) : ∀ (it : Item) (d d' : ParsedData),
      visitItem E ctx path d it = .ok d' → DataWf d → DataWf d'
    | .struct a i g f, d, d', h, hd => by
      simp only [visitItem] at h
      obtain ⟨d1, h1, h2⟩ := (Outcome.bind_eq_ok _ _ _).1 h
      simp only [Outcome.pure_eq_ok, Outcome.ok.injEq] at h2; subst h2
      exact addPaths_wf _ _ _ (collectIf_wf h1 hd fun _ hp => parseStruct_wf hp)
    | .enum a i g v, d, d', h, hd => by
      simp only [visitItem] at h
      obtain ⟨d1, h1, h2⟩ := (Outcome.bind_eq_ok _ _ _).1 h
      simp only [Outcome.pure_eq_ok, Outcome.ok.injEq] at h2; subst h2
      exact addPaths_wf _ _ _ (collectIf_wf h1 hd fun _ hp => parseEnum_wf hp)
    | .alias a i g t, d, d', h, hd => by
      simp only [visitItem] at h
      obtain ⟨d1, h1, h2⟩ := (Outcome.bind_eq_ok _ _ _).1 h
      simp only [Outcome.pure_eq_ok, Outcome.ok.injEq] at h2; subst h2
      exact addPaths_wf _ _ _ (collectIf_wf h1 hd fun _ hp => parseTypeAlias_wf hp)
    | .const a i t l, d, d', h, hd => by
      simp only [visitItem] at h
      obtain ⟨d1, h1, h2⟩ := (Outcome.bind_eq_ok _ _ _).1 h
      simp only [Outcome.pure_eq_ok, Outcome.ok.injEq] at h2; subst h2
      exact addPaths_wf _ _ _ (collectIf_wf h1 hd fun _ hp => parseConst_wf hp)
    | .use t, d, d', h, hd => by
      simp only [visitItem] at h
      split at h
      · simp only [Outcome.pure_eq_ok, Outcome.ok.injEq] at h; subst h; exact addImports_wf _ hd
      · simp only [Outcome.pure_eq_ok, Outcome.ok.injEq] at h; subst h; exact hd
    | .mod a i items, d, d', h, hd => by
      simp only [visitItem] at h
      exact visitItems_wf E ctx path items _ d' h (addPaths_wf _ _ _ hd)
    | .other p items, d, d', h, hd => by
      simp only [visitItem] at h
      exact visitItems_wf E ctx path items _ d' h (addPaths_wf _ _ _ hd)
  theorem visitItems_wf (E : Ext) (ctx : ParseContext) (path : Str) : ∀ (items : List Item) (d d' : ParsedData),
      visitItems E ctx path d items = .ok d' → DataWf d → DataWf d'
    | [], d, d', h, hd => by
      simp only [visitItems, Outcome.pure_eq_ok, Outcome.ok.injEq] at h; subst h; exact hd
    | i :: is, d, d', h, hd => by
      simp only [visitItems] at h
      obtain ⟨d1, h1, h2⟩ := (Outcome.bind_eq_ok _ _ _).1 h
      exact visitItems_wf E ctx path is d1 d' h2 (visitItem_wf E ctx path i d d1 h1 hd)
end

theorem visitFile_wf {E : Ext} {ctx : ParseContext} {c fn p : Str} {f : File} {d : ParsedData}
    (h : visitFile E ctx c fn p f = .ok d) : DataWf d := by
  unfold visitFile at h
  simp only at h
  split at h
  · exact visitItems_wf _ _ _ _ _ _ h (addPaths_wf _ _ _ (DataWf.empty rfl rfl rfl rfl))
  · simp only [Outcome.pure_eq_ok, Outcome.ok.injEq] at h; subst h
    exact DataWf.empty rfl rfl rfl rfl

/-- **every `ParsedData` that `parser::parse` returns is well formed** -/
theorem parseFile_wf {E : Ext} {ctx : ParseContext} {pick : List ImportedType → Option ImportedType}
    {c fn p : Str} {f : File} {d : ParsedData} (h : parseFile E ctx pick c fn p f = .ok (some d)) :
    DataWf d := by
  unfold parseFile at h
  split at h
  · cases h
  · obtain ⟨d0, h0, h⟩ := (Outcome.bind_eq_ok _ _ _).1 h
    have hd0 := visitFile_wf h0
    split at h
    · cases h
    · split at h
      · simp only [Outcome.pure_eq_ok, Outcome.ok.injEq, Option.some.injEq] at h; subst h
        exact hd0.congr rfl rfl rfl rfl
      · simp only [Outcome.pure_eq_ok, Outcome.ok.injEq, Option.some.injEq] at h; subst h
        exact hd0

theorem parseAll_wf (E : Ext) (ctx : ParseContext) (pick : List ImportedType → Option ImportedType) :
    ∀ (files : List Generate.SourceFile) (r : List ParsedData), Generate.parseAll E ctx pick files = .ok r →
      ∀ d ∈ r, DataWf d
  | [], r, h => by simp only [Generate.parseAll, Outcome.ok.injEq] at h; subst h; simp
  | f :: fs, r, h => by
    simp only [Generate.parseAll] at h
    obtain ⟨o, ho, h⟩ := (Outcome.bind_eq_ok _ _ _).1 h
    obtain ⟨rest, hrest, h⟩ := (Outcome.bind_eq_ok _ _ _).1 h
    have ih := parseAll_wf E ctx pick fs rest hrest
    simp only [Outcome.ok.injEq] at h; subst h
    cases o with
    | none => exact ih
    | some d0 =>
      intro d hd
      simp only [List.mem_cons] at hd
      rcases hd with rfl | hd
      · exact parseFile_wf ho
      · exact ih d hd

/-! ## the collector fold and `reconcile_aliases` -/
open Pipeline

theorem addAssign_wf {a b : ParsedData} (ha : DataWf a) (hb : DataWf b) : DataWf (addAssign a b) :=
  ⟨by intro x hx; simp only [addAssign, List.mem_append] at hx
      exact hx.elim (ha.structs x) (hb.structs x),
   by intro x hx; simp only [addAssign, List.mem_append] at hx
      exact hx.elim (ha.enums x) (hb.enums x),
   by intro x hx; simp only [addAssign, List.mem_append] at hx
      exact hx.elim (ha.aliases x) (hb.aliases x),
   by intro x hx; simp only [addAssign, List.mem_append] at hx
      exact hx.elim (ha.consts x) (hb.consts x)⟩

theorem upsert_wf : ∀ (m : List (Str × ParsedData)) (d : ParsedData), (∀ p ∈ m, DataWf p.2) → DataWf d →
    ∀ p ∈ upsert m d, DataWf p.2
  | [], d, _, hd, p, hp => by
    simp only [upsert, List.mem_singleton] at hp; subst hp
    exact addAssign_wf (DataWf.empty rfl rfl rfl rfl) hd
  | (k, v) :: rest, d, hm, hd, p, hp => by
    simp only [upsert] at hp
    split at hp
    · simp only [List.mem_cons] at hp
      rcases hp with rfl | hp
      · exact addAssign_wf (hm (k, v) (by simp)) hd
      · exact hm p (by simp [hp])
    · split at hp
      · simp only [List.mem_cons] at hp
        rcases hp with rfl | rfl | hp
        · exact addAssign_wf (DataWf.empty rfl rfl rfl rfl) hd
        · exact hm (k, v) (by simp)
        · exact hm p (by simp [hp])
      · simp only [List.mem_cons] at hp
        rcases hp with rfl | hp
        · exact hm (k, v) (by simp)
        · exact upsert_wf rest d (fun q hq => hm q (by simp [hq])) hd p hp

theorem foldl_upsert_wf : ∀ (arrivals : List ParsedData) (m : List (Str × ParsedData)),
    (∀ d ∈ arrivals, DataWf d) → (∀ p ∈ m, DataWf p.2) → ∀ p ∈ arrivals.foldl upsert m, DataWf p.2
  | [], m, _, hm => by simpa using hm
  | d :: ds, m, ha, hm => by
    simp only [List.foldl_cons]
    exact foldl_upsert_wf ds (upsert m d) (fun x hx => ha x (by simp [hx]))
      (upsert_wf m d hm (ha d (by simp)))

theorem collect_wf (arrivals : List ParsedData) (h : ∀ d ∈ arrivals, DataWf d) :
    ∀ p ∈ collect arrivals, DataWf p.2 :=
  foldl_upsert_wf arrivals [] h (by simp)

mutual
  theorem checkType_no64 (c : Str) (r : Renames) (i : List ImportedType) : ∀ t : RustType,
      no64 (checkType c r i t) = no64 t
    | .generic id ps => by
      simp only [checkType]; split <;> (simp only [no64]; exact checkTypes_no64 c r i ps)
    | .vec t => by simp only [checkType, no64]; exact checkType_no64 c r i t
    | .array t n => by simp only [checkType, no64]; exact checkType_no64 c r i t
    | .slice t => by simp only [checkType, no64]; exact checkType_no64 c r i t
    | .hashMap k v => by simp only [checkType, no64, checkType_no64 c r i k, checkType_no64 c r i v]
    | .option t => by simp only [checkType, no64]; exact checkType_no64 c r i t
    | .prim p => by simp only [checkType]
    | .simple id => by simp only [checkType]; split <;> rfl
  theorem checkTypes_no64 (c : Str) (r : Renames) (i : List ImportedType) : ∀ ts : List RustType,
      no64List (checkTypes c r i ts) = no64List ts
    | [] => by simp only [checkTypes]
    | t :: ts => by simp only [checkTypes, no64List, checkType_no64 c r i t, checkTypes_no64 c r i ts]
end

theorem checkFields_no64 (c : Str) (r : Renames) (i : List ImportedType) (fs : List RustField) :
    (fs.map (checkField c r i)).all (fun f => no64 f.ty) = fs.all (fun f => no64 f.ty) := by
  induction fs with
  | nil => rfl
  | cons f fs ih => simp only [List.map_cons, List.all_cons, ih, checkField, checkType_no64]

theorem checkVariant_no64 (c : Str) (r : Renames) (i : List ImportedType) (v : RustEnumVariant) :
    variantNo64 (checkVariant c r i v) = variantNo64 v := by
  cases v with
  | unit _ _ => rfl
  | tuple _ _ t => simp only [checkVariant, variantNo64, checkType_no64]
  | anonymousStruct _ _ fs => simp only [checkVariant, variantNo64, checkFields_no64]

theorem checkVariant_isUnit (c : Str) (r : Renames) (i : List ImportedType) (v : RustEnumVariant) :
    variantIsUnit (checkVariant c r i v) = variantIsUnit v := by
  cases v <;> rfl

theorem map_all_congr {α} (g : α → α) (P : α → Bool) (h : ∀ a, P (g a) = P a) (l : List α) :
    (l.map g).all P = l.all P := by
  induction l with
  | nil => rfl
  | cons a t ih => simp only [List.map_cons, List.all_cons, ih, h]

theorem mem_sortBy {α} (key : α → Str) (l : List α) (x : α) : x ∈ sortBy key l ↔ x ∈ l :=
  (List.mergeSort_perm l _).mem_iff

theorem reconcileOne_wf (r : Renames) (crate : Str) {d : ParsedData} (hd : DataWf d) :
    DataWf (reconcileOne r crate d) := by
  refine ⟨?_, ?_, ?_, ?_⟩
  · intro x hx
    simp only [reconcileOne, mem_sortBy, List.mem_map] at hx
    obtain ⟨s, hs, rfl⟩ := hx
    have := (hd.structs s hs).1
    exact ⟨by simp only [itemNo64, checkFields_no64] at this ⊢; exact this, rfl⟩
  · intro x hx
    simp only [reconcileOne, mem_sortBy, List.mem_map] at hx
    obtain ⟨e, he, rfl⟩ := hx
    obtain ⟨h1, h2⟩ := hd.enums e he
    refine ⟨?_, ?_⟩
    · simp only [itemNo64] at h1 ⊢
      rw [map_all_congr _ _ (checkVariant_no64 crate r d.importTypes)]; exact h1
    · simp only [itemUnitOk, enumUnitOk] at h2 ⊢
      split
      · rename_i hk
        rw [hk] at h2
        simp only at h2
        rw [map_all_congr _ _ (checkVariant_isUnit crate r d.importTypes)]; exact h2
      · rfl
  · intro x hx
    simp only [reconcileOne, mem_sortBy, List.mem_map] at hx
    obtain ⟨a, ha, rfl⟩ := hx
    have := (hd.aliases a ha).1
    exact ⟨by simp only [itemNo64, checkType_no64] at this ⊢; exact this, rfl⟩
  · intro x hx
    simp only [reconcileOne, mem_sortBy] at hx
    exact hd.consts x hx

theorem reconcile_wf (m : List (Str × ParsedData)) (hm : ∀ p ∈ m, DataWf p.2) :
    ∀ p ∈ reconcile m, DataWf p.2 := by
  intro p hp
  simp only [reconcile, List.mem_map] at hp
  obtain ⟨⟨c, d⟩, hq, rfl⟩ := hp
  exact reconcileOne_wf _ _ (hm _ hq)

/-- the crates a run generates from are well formed -/
theorem crates_wf (E : Ext) (ctx : ParseContext) (pick : List ImportedType → Option ImportedType)
    (files : List Generate.SourceFile) (arrivals : List ParsedData)
    (h : Generate.parseAll E ctx pick files = .ok arrivals) :
    ∀ p ∈ reconcile (collect arrivals), DataWf p.2 :=
  reconcile_wf _ (collect_wf _ (parseAll_wf E ctx pick files arrivals h))

/-- `parseAll` never panics (from the parser-side theorem `parseFile_np`) -/
theorem parseAll_np (E : Ext) (ctx : ParseContext) (pick : List ImportedType → Option ImportedType) :
    ∀ files : List Generate.SourceFile, NP (Generate.parseAll E ctx pick files)
  | [] => by simp only [Generate.parseAll]; np_auto
  | f :: fs => by
    have := NoPanic.parseFile_np E ctx pick f.crateName f.fileName f.path f.file
    have := parseAll_np E ctx pick fs
    simp only [Generate.parseAll]; np_auto

end TsV.C07BE
