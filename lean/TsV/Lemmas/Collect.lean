import TsV.Lemmas.Order
/-! lemmas about the collector fold and reconcile for C06 -/
namespace TsV.Collect
open TsV TsV.Pipeline

/-- the per-crate accumulation -/
def merged (acc : ParsedData) (a : List ParsedData) : ParsedData := a.foldl addAssign acc

theorem merged_structs : ∀ (a : List ParsedData) (acc : ParsedData),
    (merged acc a).structs = acc.structs ++ a.flatMap (·.structs)
  | [], acc => by simp [merged]
  | d :: t, acc => by
    have := merged_structs t (addAssign acc d)
    simp only [merged, List.foldl_cons] at this ⊢
    rw [this]; simp [addAssign, List.append_assoc]

theorem merged_enums : ∀ (a : List ParsedData) (acc : ParsedData),
    (merged acc a).enums = acc.enums ++ a.flatMap (·.enums)
  | [], acc => by simp [merged]
  | d :: t, acc => by
    have := merged_enums t (addAssign acc d)
    simp only [merged, List.foldl_cons] at this ⊢
    rw [this]; simp [addAssign, List.append_assoc]

theorem merged_aliases : ∀ (a : List ParsedData) (acc : ParsedData),
    (merged acc a).aliases = acc.aliases ++ a.flatMap (·.aliases)
  | [], acc => by simp [merged]
  | d :: t, acc => by
    have := merged_aliases t (addAssign acc d)
    simp only [merged, List.foldl_cons] at this ⊢
    rw [this]; simp [addAssign, List.append_assoc]

theorem merged_consts : ∀ (a : List ParsedData) (acc : ParsedData),
    (merged acc a).consts = acc.consts ++ a.flatMap (·.consts)
  | [], acc => by simp [merged]
  | d :: t, acc => by
    have := merged_consts t (addAssign acc d)
    simp only [merged, List.foldl_cons] at this ⊢
    rw [this]; simp [addAssign, List.append_assoc]

theorem merged_errors : ∀ (a : List ParsedData) (acc : ParsedData),
    (merged acc a).errors = acc.errors ++ a.flatMap (·.errors)
  | [], acc => by simp [merged]
  | d :: t, acc => by
    have := merged_errors t (addAssign acc d)
    simp only [merged, List.foldl_cons] at this ⊢
    rw [this]; simp [addAssign, List.append_assoc]

/-- all arrivals belong to one crate with one output file name (single-file mode: crate `""`) -/
def Uniform (c fn : Str) (mf : Bool) (a : List ParsedData) : Prop :=
  ∀ d ∈ a, d.crateName = c ∧ d.fileName = fn ∧ d.multiFile = mf

theorem merged_meta (c fn : Str) (mf : Bool) : ∀ (a : List ParsedData) (acc : ParsedData),
    Uniform c fn mf a → acc.crateName = c → acc.fileName = fn → acc.multiFile = mf →
    (merged acc a).crateName = c ∧ (merged acc a).fileName = fn ∧ (merged acc a).multiFile = mf
  | [], acc, _, h1, h2, h3 => ⟨h1, h2, h3⟩
  | d :: t, acc, hu, _, _, _ => by
    have hd := hu d (by simp)
    have := merged_meta c fn mf t (addAssign acc d) (fun x hx => hu x (by simp [hx]))
      (by simp [addAssign, hd.1]) (by simp [addAssign, hd.2.1]) (by simp [addAssign, hd.2.2])
    simpa [merged] using this

/-- on a non-empty uniform list the meta data of the fold is the crate's, whatever the start value -/
theorem merged_meta' (c fn : Str) (mf : Bool) (d : ParsedData) (t : List ParsedData) (acc : ParsedData)
    (hu : Uniform c fn mf (d :: t)) :
    (merged acc (d :: t)).crateName = c ∧ (merged acc (d :: t)).fileName = fn ∧
      (merged acc (d :: t)).multiFile = mf := by
  have hd := hu d (by simp)
  have := merged_meta c fn mf t (addAssign acc d) (fun x hx => hu x (by simp [hx]))
    (by simp [addAssign, hd.1]) (by simp [addAssign, hd.2.1]) (by simp [addAssign, hd.2.2])
  simpa [merged] using this

/-- the collector on arrivals of a single crate: one entry holding the fold -/
theorem collect_uniform (c fn : Str) (mf : Bool) (d0 : ParsedData) (t : List ParsedData)
    (hu : Uniform c fn mf (d0 :: t)) : collect (d0 :: t) = [(c, merged {} (d0 :: t))] := by
  have h0 := hu d0 (by simp)
  unfold collect
  simp only [List.foldl_cons, upsert, h0.1]
  have : ∀ (rest : List ParsedData) (v : ParsedData), (∀ d ∈ rest, d.crateName = c) →
      rest.foldl upsert [(c, v)] = [(c, merged v rest)] := by
    intro rest
    induction rest with
    | nil => intro v _; rfl
    | cons d r ih =>
      intro v h
      have hd : d.crateName = c := h d (by simp)
      simp only [List.foldl_cons, upsert, hd, beq_self_eq_true, if_true]
      rw [ih _ (fun x hx => h x (by simp [hx]))]
      simp [merged]
  rw [this t _ (fun d hd => (hu d (by simp [hd])).1)]
  simp [merged]

/-! ### the rename table is insensitive to arrival order when names are unique -/

theorem find?_unique {α} (p : α → Bool) (l : List α) (x : α) (hx : x ∈ l) (hp : p x = true)
    (hu : ∀ y ∈ l, p y = true → y = x) : l.find? p = some x := by
  induction l with
  | nil => simp at hx
  | cons a t ih =>
    simp only [List.find?_cons]
    by_cases ha : p a = true
    · have hax : a = x := hu a (by simp) ha
      subst hax
      simp [ha]
    · simp only [ha]
      simp only [List.mem_cons] at hx
      rcases hx with rfl | hx
      · exact absurd hp ha
      · exact ih hx (fun y hy => hu y (by simp [hy]))

theorem find?_none_of {α} (p : α → Bool) (l : List α) (h : ∀ y ∈ l, p y = false) : l.find? p = none := by
  induction l with
  | nil => rfl
  | cons a t ih => simp [List.find?_cons, h a (by simp), ih (fun y hy => h y (by simp [hy]))]

/-- a rename table in which no (original, crate) pair occurs twice -/
def UniqueKeys (r : Renames) : Prop := (r.map fun e => (e.1, e.2.1)).Nodup

theorem renameOf_perm (r₁ r₂ : Renames) (hp : r₁.Perm r₂) (hu : UniqueKeys r₁) (x c : Str) :
    renameOf r₁ x c = renameOf r₂ x c := by
  unfold renameOf
  let p : Str × Str × Str → Bool := fun e => e.1 == x && e.2.1 == c
  by_cases h : ∃ e ∈ r₁, p e = true
  · obtain ⟨e, he, hpe⟩ := h
    have huniq : ∀ y ∈ r₁, p y = true → y = e := by
      intro y hy hpy
      apply Order.inj_of_nodup_map (fun e : Str × Str × Str => (e.1, e.2.1)) hu hy he
      simp only [p, Bool.and_eq_true, beq_iff_eq] at hpe hpy
      simp [hpe.1, hpe.2, hpy.1, hpy.2]
    rw [find?_unique p r₁.reverse e (by simpa using he) hpe (fun y hy => huniq y (by simpa using hy)),
        find?_unique p r₂.reverse e (by simpa using hp.subset he) hpe
          (fun y hy => huniq y (hp.symm.subset (by simpa using hy)))]
  · have hn : ∀ y ∈ r₁, p y = false := by
      intro y hy
      cases hpy : p y with
      | false => rfl
      | true => exact absurd ⟨y, hy, hpy⟩ h
    rw [find?_none_of p r₁.reverse (fun y hy => hn y (by simpa using hy)),
        find?_none_of p r₂.reverse (fun y hy => hn y (hp.symm.subset (by simpa using hy)))]

theorem hasRename_perm (r₁ r₂ : Renames) (hp : r₁.Perm r₂) (x : Str) : hasRename r₁ x = hasRename r₂ x := by
  unfold hasRename
  rw [Bool.eq_iff_iff]; simp only [List.any_eq_true]
  constructor <;> rintro ⟨e, he, h⟩
  · exact ⟨e, hp.subset he, h⟩
  · exact ⟨e, hp.symm.subset he, h⟩

/-- two rename tables that answer every query alike -/
def RenEquiv (r₁ r₂ : Renames) : Prop :=
  ∀ x c, renameOf r₁ x c = renameOf r₂ x c ∧ hasRename r₁ x = hasRename r₂ x

theorem resolve_equiv (r₁ r₂ : Renames) (h : RenEquiv r₁ r₂) (c : Str) (imps : List ImportedType) (id : Str) :
    resolveRenamed c r₁ imps id = resolveRenamed c r₂ imps id := by
  unfold resolveRenamed
  rw [(h id c).2]
  have : (fun i : ImportedType => (renameOf r₁ id i.baseCrate).map fun n => (i.baseCrate, n)) =
      fun i => (renameOf r₂ id i.baseCrate).map fun n => (i.baseCrate, n) := by
    funext i; rw [(h id i.baseCrate).1]
  rw [this, (h id c).1]

mutual
  theorem checkType_equiv (r₁ r₂ : Renames) (h : RenEquiv r₁ r₂) (c : Str) (imps : List ImportedType) :
      ∀ t : RustType, checkType c r₁ imps t = checkType c r₂ imps t
    | .generic id ps => by
      simp only [checkType]; rw [checkTypes_equiv r₁ r₂ h c imps ps, resolve_equiv r₁ r₂ h c imps id]
    | .vec t => by simp only [checkType]; rw [checkType_equiv r₁ r₂ h c imps t]
    | .array t n => by simp only [checkType]; rw [checkType_equiv r₁ r₂ h c imps t]
    | .slice t => by simp only [checkType]; rw [checkType_equiv r₁ r₂ h c imps t]
    | .hashMap k v => by
      simp only [checkType]; rw [checkType_equiv r₁ r₂ h c imps k, checkType_equiv r₁ r₂ h c imps v]
    | .option t => by simp only [checkType]; rw [checkType_equiv r₁ r₂ h c imps t]
    | .prim p => by simp [checkType]
    | .simple id => by simp only [checkType]; rw [resolve_equiv r₁ r₂ h c imps id]
  theorem checkTypes_equiv (r₁ r₂ : Renames) (h : RenEquiv r₁ r₂) (c : Str) (imps : List ImportedType) :
      ∀ ts : List RustType, checkTypes c r₁ imps ts = checkTypes c r₂ imps ts
    | [] => by simp [checkTypes]
    | t :: ts => by
      simp only [checkTypes]
      rw [checkType_equiv r₁ r₂ h c imps t, checkTypes_equiv r₁ r₂ h c imps ts]
end

end TsV.Collect
