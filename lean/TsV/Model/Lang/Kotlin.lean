import TsV.Model.Lang.Common
/-!
# Model of `core/src/language/kotlin.rs`

The Kotlin printer keeps no mutable state: no field of the `Kotlin` struct is written during
generation (`type_map(&mut self)` only hands out a reference), so every function is a pure
function of the configuration and the item.  Declarations are built as small fact records
(`KtParam` for a constructor parameter, `KtEntry` for a case of an `enum class`, `KtCase` for a
subclass of a `sealed class`, `KtDecl` for a whole declaration) and rendered by `render*`, so that
theorems can speak about what a declaration binds and what it refers to while the correspondence
compares the rendered bytes.
-/
namespace TsV.Lang.Kotlin
open TsV TsV.Lang

structure Cfg where
  typeMappings : List (Str × Str) := []
  versionHeader : Option Str := none     -- `some version` when the header is written
  package : Str := []
  moduleName : Str := []
  pfx : Str := []
  /-- not configuration: the Unicode tables of Rust `std` (`char::is_lowercase`) that `to_pascal_case`
  consults since the `fix:` commit 8f4a2d5 (`variantName`).  The rest of this back end is independent of
  them, so they travel with the configuration instead of being a parameter of every function; the driver
  sets the field to the run's table (`Main.lean: decodeLang`), the default is the ASCII table. -/
  U : UnicodeOps := UnicodeOps.ascii

/-- `const INLINE` -/
def inlineName : Str := s%"JvmInline"

/-- `Kotlin::format_simple_type` (kotlin.rs:37): mapping, else generic parameter, else prefixed -/
def formatSimple (cfg : Cfg) (gens : List Str) (base : Str) : Str :=
  match mapGet cfg.typeMappings base with
  | some m => m
  | none => if gens.contains base then base else cfg.pfx ++ base

/-- the leaves of `Kotlin::format_special_type` (kotlin.rs:76-97) -/
def formatPrim : Prim → Outcome Str
  | .unit => .ok s%"Unit"
  | .string | .char => .ok s%"String"
  | .i8 => .ok s%"Byte"
  | .i16 => .ok s%"Short"
  | .isize | .i32 => .ok s%"Int"
  | .i54 | .i64 => .ok s%"Long"
  | .u8 => .ok s%"UByte"
  | .u16 => .ok s%"UShort"
  | .usize | .u32 => .ok s%"UInt"
  | .u53 | .u64 => .ok s%"ULong"
  | .bool => .ok s%"Boolean"
  | .f32 => .ok s%"Float"
  | .f64 => .ok s%"Double"
  | .dateTime => .err (.formatError s%"UnsupportedSpecialType")

mutual
  /-- `Language::format_type` (default) with `Kotlin::format_simple_type`, the default
  `format_generic_type` / `format_generic_parameters` and `Kotlin::format_special_type`.
  Unlike TypeScript, special types are *not* looked up in the type mappings. -/
  def formatType (cfg : Cfg) (gens : List Str) : RustType → Outcome Str
    | .simple id => .ok (formatSimple cfg gens id)
    | .generic id ps =>
      match mapGet cfg.typeMappings id with
      | some m => .ok m
      | none =>
        match formatTypes cfg gens ps with
        | .ok strs => .ok (formatSimple cfg gens id ++ (if strs.isEmpty then [] else angle strs))
        | .err e => .err e
        | .panic s => .panic s
    | .vec r | .array r _ | .slice r =>
      match formatType cfg gens r with
      | .ok s => .ok (s%"List<" ++ s ++ s%">")
      | .err e => .err e
      | .panic s => .panic s
    | .option r =>
      match formatType cfg gens r with
      | .ok s => .ok (s ++ s%"?")
      | .err e => .err e
      | .panic s => .panic s
    | .hashMap k v =>
      match formatType cfg gens k with
      | .ok ks =>
        (match formatType cfg gens v with
        | .ok vs => .ok (s%"HashMap<" ++ ks ++ s%", " ++ vs ++ s%">")
        | .err e => .err e
        | .panic s => .panic s)
      | .err e => .err e
      | .panic s => .panic s
    | .prim p => formatPrim p
  def formatTypes (cfg : Cfg) (gens : List Str) : List RustType → Outcome (List Str)
    | [] => .ok []
    | t :: ts =>
      match formatType cfg gens t with
      | .ok s =>
        (match formatTypes cfg gens ts with
        | .ok ss => .ok (s :: ss)
        | .err e => .err e
        | .panic s => .panic s)
      | .err e => .err e
      | .panic s => .panic s
end

/-- `write_comments` / `write_comment` (kotlin.rs:475-494): one `/// ` line per comment -/
def comments (indent : Nat) (cs : List Str) : Str :=
  cs.flatMap fun c => tabs indent ++ s%"/// " ++ c ++ nl

/-- `remove_dash_from_identifier` (parser.rs:872) -/
def removeDash (name : Str) : Str := Str.replaceChar name '-' ['_']

/-- `is_inline` (kotlin.rs:496): the `kotlin = "…"` decorator set contains `JvmInline` -/
def isInline (d : DecoratorMap) : Bool :=
  match d.kotlin with
  | some ds => ds.contains inlineName
  | none => false

/-! ## constructor parameters (`write_element`) -/

/-- what one constructor parameter says -/
structure KtParam where
  comments : List Str
  serialName : Option Str   -- the wire key of `@SerialName(…)`, when the annotation is written
  isPrivate : Bool          -- `Visibility::Private`
  name : Str                -- the Kotlin property name as printed (dashes replaced)
  ty : Str
  dflt : Str                -- `""`, `" = null"` or `"? = null"`

/-- the text of `write_element` (no trailing newline / comma) -/
def renderParam (p : KtParam) : Str :=
  comments 1 p.comments ++
  (match p.serialName with
   | some n => s%"\t@SerialName(" ++ debugStr n ++ s%")\n"
   | none => []) ++
  (if p.isPrivate then s%"\tprivate val " else s%"\tval ") ++ p.name ++ s%": " ++ p.ty ++ p.dflt

/-- the default suffix (kotlin.rs:457-460) -/
def defaultSuffix (f : RustField) : Str :=
  if f.hasDefault && !f.ty.isOptional then s%"? = null"
  else if f.ty.isOptional then s%" = null"
  else []

/-- `write_element` (kotlin.rs:432) as a fact record -/
def paramFacts (cfg : Cfg) (gens : List Str) (requiresSerialName isPrivate : Bool) (f : RustField) :
    Outcome KtParam :=
  (match typeOverride f .kotlin with
   | some t => Outcome.ok t
   | none => formatType cfg gens f.ty).bind fun ty =>
  .ok { comments := f.comments,
        serialName := if requiresSerialName then some f.id.renamed else none,
        isPrivate,
        name := removeDash f.id.renamed,
        ty,
        dflt := defaultSuffix f }

def paramsFacts (cfg : Cfg) (gens : List Str) (requiresSerialName : Bool) : List RustField → Outcome (List KtParam)
  | [] => .ok []
  | f :: fs =>
    (paramFacts cfg gens requiresSerialName false f).bind fun p =>
    (paramsFacts cfg gens requiresSerialName fs).bind fun ps => .ok (p :: ps)

/-! ## enum cases -/

/-- one entry of an `enum class` (kotlin.rs:315-324) -/
structure KtEntry where
  comments : List Str
  serialName : Str     -- wire name (`id.renamed`), printed with `{:?}`
  name : Str           -- Kotlin entry name (`id.original`)
  value : Str          -- constructor argument (`id.renamed`), printed with `{:?}`

def renderEntry (c : KtEntry) : Str :=
  comments 1 c.comments ++ s%"\t@SerialName(" ++ debugStr c.serialName ++ s%")\n" ++
  s%"\t" ++ c.name ++ s%"(" ++ debugStr c.value ++ s%"),\n"

/-- the payload of a subclass of a `sealed class` -/
inductive KtPayload where
  | object                                              -- `object Name`
  | content (key : Str) (ty : Str)                      -- `data class Name<G>(val key: ty)`
  | inner (key : Str) (tyName : Str) (generics : Str)   -- `… (val key: <prefix><Enum><Variant>Inner<G'>)`

/-- one subclass of a `sealed class` (kotlin.rs:331-425) -/
structure KtCase where
  comments : List Str
  serialName : Str     -- wire name; printed between plain quotes, *not* escaped (kotlin.rs:332)
  name : Str           -- Kotlin class name: Pascal-cased `id.original`, `_` in front of a digit
  generics : Str       -- the enum's `<A, B>` repeated on every data class
  payload : KtPayload
  parent : Str         -- `<prefix><enum id.renamed>` — the super class *reference* (`fix:` commit 3d3e1e7)
  parentGenerics : Str

def renderCase (c : KtCase) : Str :=
  comments 1 c.comments ++ s%"\t@Serializable\n" ++ s%"\t@SerialName(\"" ++ c.serialName ++ s%"\")\n" ++
  (match c.payload with
   | .object => s%"\tobject " ++ c.name
   | .content key ty =>
     s%"\tdata class " ++ c.name ++ c.generics ++ s%"(" ++ s%"val " ++ key ++ s%": " ++ ty ++ s%")"
   | .inner key tyName gens =>
     s%"\tdata class " ++ c.name ++ c.generics ++ s%"(" ++ s%"val " ++ key ++ s%": " ++ tyName ++ gens ++ s%")") ++
  s%": " ++ c.parent ++ c.parentGenerics ++ s%"()\n"

/-- the `variant_name` block (kotlin.rs:337-352) -/
def variantName (U : UnicodeOps) (original : Str) : Str :=
  let n := Rename.toPascal U original
  match n with
  | c :: _ => if Str.isAsciiDigit c then '_' :: n else n
  | [] => n

/-- the generic parameters of the enclosing enum that the fields mention (kotlin.rs:386-401) -/
def usedGenerics (e : RustEnum) (fields : List RustField) : List Str :=
  (fields.flatMap fun f => e.genericTypes.filter fun g => f.ty.containsType g).eraseDups

def caseFacts (cfg : Cfg) (e : RustEnum) (contentKey : Str) (v : RustEnumVariant) : Outcome KtCase :=
  let gp := genericSuffix e.genericTypes
  let mk (payload : KtPayload) : KtCase :=
    { comments := v.comments, serialName := v.id.renamed, name := variantName cfg.U v.id.original,
      generics := gp, payload, parent := cfg.pfx ++ e.id.renamed, parentGenerics := gp }
  match v with
  | .unit _ _ => .ok (mk .object)
  | .tuple _ _ ty =>
    (formatType cfg e.genericTypes ty).bind fun t => .ok (mk (.content contentKey t))
  | .anonymousStruct id _ fields =>
    .ok (mk (.inner contentKey (cfg.pfx ++ e.id.renamed ++ id.original ++ s%"Inner")
              (genericSuffix (usedGenerics e fields))))

def casesFacts (cfg : Cfg) (e : RustEnum) (contentKey : Str) : List RustEnumVariant → Outcome (List KtCase)
  | [] => .ok []
  | v :: vs =>
    (caseFacts cfg e contentKey v).bind fun c =>
    (casesFacts cfg e contentKey vs).bind fun cs => .ok (c :: cs)

def entryFacts (v : RustEnumVariant) : KtEntry :=
  { comments := v.comments, serialName := v.id.renamed, name := v.id.original, value := v.id.renamed }

/-! ## declarations -/

/-- what one top-level declaration binds -/
inductive KtDecl where
  /-- `typealias <name><generics> = <ty>` -/
  | typeAlias (comments : List Str) (name : Str) (generics : Str) (ty : Str)
  /-- `@JvmInline value class <name>(<param>)`, redacted or not -/
  | valueClass (comments : List Str) (name : Str) (param : KtParam) (redacted : Bool)
  /-- `object <name>` -/
  | object (comments : List Str) (name : Str)
  /-- `data class <name><generics> (<params>)`; `redacted = some s`: `toString()` returns `s` -/
  | dataClass (comments : List Str) (name : Str) (generics : Str) (params : List KtParam)
      (redacted : Option Str)
  /-- `enum class <name><generics>(val string: String) { entries }` -/
  | enumClass (comments : List Str) (name : Str) (generics : Str) (entries : List KtEntry)
  /-- `sealed class <name><generics> { cases }` -/
  | sealedClass (comments : List Str) (name : Str) (generics : Str) (cases : List KtCase)

/-- `f1,\n f2,\n … fn\n` (kotlin.rs:213-232) -/
def renderParams : List KtParam → Str
  | [] => []
  | [p] => renderParam p ++ nl
  | p :: ps => renderParam p ++ s%",\n" ++ renderParams ps

def renderDecl : KtDecl → Str
  | .typeAlias cs name gens ty =>
    comments 0 cs ++ s%"typealias " ++ name ++ gens ++ s%" = " ++ ty ++ s%"\n\n"
  | .valueClass cs name p redacted =>
    comments 0 cs ++ s%"@Serializable\n@JvmInline\nvalue class " ++ name ++ s%"(\n" ++
    renderParam p ++ nl ++
    (if redacted then
      s%") {\n\tfun unwrap() = value\n\n\toverride fun toString(): String = \"***\"\n}\n"
     else s%")\n") ++ nl
  | .object cs name =>
    comments 0 cs ++ s%"@Serializable\n" ++ s%"object " ++ name ++ s%"\n\n"
  | .dataClass cs name gens ps redacted =>
    comments 0 cs ++ s%"@Serializable\n" ++ s%"data class " ++ name ++ gens ++ s%" (\n" ++
    renderParams ps ++
    (match redacted with
     | some s => s%") {\n\toverride fun toString(): String = " ++ debugStr s ++ s%"\n}\n"
     | none => s%")\n") ++ nl
  | .enumClass cs name gens entries =>
    comments 0 cs ++ s%"@Serializable\n" ++ s%"enum class " ++ name ++ gens ++ s%"(val string: String) " ++
    s%"{\n" ++ entries.flatMap renderEntry ++ s%"}\n\n"
  | .sealedClass cs name gens cases =>
    comments 0 cs ++ s%"@Serializable\n" ++ s%"sealed class " ++ name ++ gens ++ s%" " ++
    s%"{\n" ++ cases.flatMap renderCase ++ s%"}\n\n"

/-- `write_struct` (kotlin.rs:186) -/
def structFacts (cfg : Cfg) (rs : RustStruct) : Outcome KtDecl :=
  if rs.fields.isEmpty then .ok (.object rs.comments (cfg.pfx ++ rs.id.renamed))
  else
    let requiresSerialName := rs.fields.any fun f => f.id.renamed.contains '-'
    (paramsFacts cfg rs.genericTypes requiresSerialName rs.fields).bind fun ps =>
      .ok (.dataClass rs.comments (cfg.pfx ++ rs.id.renamed) (genericSuffix rs.genericTypes) ps
            (if rs.isRedacted then some rs.id.renamed else none))

/-- the field `write_type_alias` synthesises for an inline value class (kotlin.rs:134-144) -/
def valueField (ty : RustType) : RustField :=
  { id := ⟨s%"value", s%"value", false⟩, ty, comments := [], hasDefault := false, decorators := [] }

/-- `write_type_alias` (kotlin.rs:123): the `typealias` and the value class are both named after
`id.renamed` (the `typealias` since the `fix:` commit 0c924cd) -/
def aliasFacts (cfg : Cfg) (a : RustTypeAlias) : Outcome KtDecl :=
  if isInline a.decorators then
    (paramFacts cfg [] false a.isRedacted (valueField a.ty)).bind fun p =>
      .ok (.valueClass a.comments (cfg.pfx ++ a.id.renamed) p a.isRedacted)
  else
    (formatType cfg a.genericTypes a.ty).bind fun ty =>
      .ok (.typeAlias a.comments (cfg.pfx ++ a.id.renamed) (genericSuffix a.genericTypes) ty)

/-- `write_types_for_anonymous_structs` with the Kotlin naming closure (kotlin.rs:249-251): the
helper classes are named `<enum id.renamed><variant id.original>Inner` (and `write_struct` puts the
prefix in front) -/
def innerStructs (e : RustEnum) : List RustStruct :=
  (structVariants e).map fun (id, fields) =>
    anonymousStruct e (e.id.renamed ++ id.original ++ s%"Inner") id.original fields

def structsFacts (cfg : Cfg) : List RustStruct → Outcome (List KtDecl)
  | [] => .ok []
  | s :: ss =>
    (structFacts cfg s).bind fun d =>
    (structsFacts cfg ss).bind fun ds => .ok (d :: ds)

/-- `write_enum` (kotlin.rs:247): the helper classes, then the enum itself -/
def enumFacts (cfg : Cfg) (e : RustEnum) : Outcome (List KtDecl) :=
  (structsFacts cfg (innerStructs e)).bind fun inners =>
  let gp := genericSuffix e.genericTypes
  match e.keys with
  | none =>
    .ok (inners ++ [.enumClass e.comments (cfg.pfx ++ e.id.renamed) gp (e.variants.map entryFacts)])
  | some (_, contentKey) =>
    (casesFacts cfg e contentKey e.variants).bind fun cases =>
      .ok (inners ++ [.sealedClass e.comments (cfg.pfx ++ e.id.renamed) gp cases])

/-- the declarations one item produces; `write_const` reports consts as unsupported (an io error
since the `fix:` commit bf55905; before it `todo!()` panicked) -/
def itemFacts (cfg : Cfg) : RustItem → Outcome (List KtDecl)
  | .struct s => (structFacts cfg s).bind fun d => .ok [d]
  | .enum e => enumFacts cfg e
  | .alias a => (aliasFacts cfg a).bind fun d => .ok [d]
  | .const _ => .err (.formatError s%"ConstUnsupported")

def itemsFacts (cfg : Cfg) : List RustItem → Outcome (List KtDecl)
  | [] => .ok []
  | it :: its =>
    (itemFacts cfg it).bind fun a =>
    (itemsFacts cfg its).bind fun b => .ok (a ++ b)

/-- `begin_file` (kotlin.rs:101): nothing at all without a package -/
def beginFile (cfg : Cfg) (d : ParsedData) : Str :=
  if cfg.package.isEmpty then [] else
  (match cfg.versionHeader with
   | some v => s%"/**\n * Generated by typeshare " ++ v ++ s%"\n */\n\n"
   | none => []) ++
  (if d.multiFile then s%"package " ++ cfg.package ++ s%"." ++ d.crateName ++ nl
   else s%"package " ++ cfg.package ++ nl) ++
  s%"\nimport kotlinx.serialization.Serializable\nimport kotlinx.serialization.SerialName\n\n"

/-- `write_imports` (kotlin.rs:288): one line per type, `import <package>.<crate>.<prefix><name>`
(since the `fix:` commit 8dc01bf the name carries the configured prefix, like the definition in
the other module; before it the line named the type as in the *Rust* source), then an empty line -/
def writeImports (cfg : Cfg) (imports : Pipeline.ScopedCrateTypes) : Str :=
  (imports.flatMap fun (path, tys) =>
    tys.flatMap fun t => s%"import " ++ cfg.package ++ s%"." ++ path ++ s%"." ++ cfg.pfx ++ t ++ nl) ++ nl

/-- `Language::generate_types` for one output file -/
def generate (cfg : Cfg) (d : ParsedData) (imports : Option Pipeline.ScopedCrateTypes) : Outcome Str :=
  match Pipeline.generateOrder d with
  | none => .panic s%"topsort"
  | some items =>
    (itemsFacts cfg items).bind fun decls =>
      .ok (beginFile cfg d ++
           (if d.multiFile then writeImports cfg (imports.getD []) else []) ++
           decls.flatMap renderDecl)

def generateFrom (cfg : Cfg) :
    List (Str × ParsedData × Option Pipeline.ScopedCrateTypes) → Outcome (List (Str × Str))
  | [] => .ok []
  | (crate, d, imps) :: rest =>
    (generate cfg d imps).bind fun text =>
    (generateFrom cfg rest).bind fun outs => .ok ((crate, text) :: outs)

/-- all output files of one run: `jobs` are the crates in map order with their reconciled data and
(in multi-file mode) the imports `used_imports` computed.  Returns (crate ↦ text) in the same order. -/
def generateAll (_E : Ext) (cfg : Cfg) (_multiFile : Bool)
    (jobs : List (Str × ParsedData × Option Pipeline.ScopedCrateTypes)) : Outcome (List (Str × Str)) :=
  generateFrom cfg jobs

end TsV.Lang.Kotlin
