import TsV.Model.Parser
/-!
# Model of `core/src/visitors.rs` and `parser::parse`
-/
namespace TsV
open TsV.Syn

structure ImportedType where
  baseCrate : Str
  typeName : Str
deriving Repr, Inhabited, DecidableEq

structure ParsedData where
  structs : List RustStruct := []
  enums : List RustEnum := []
  aliases : List RustTypeAlias := []
  consts : List RustConst := []
  /-- `HashSet<ImportedType>`: duplicate-free, order irrelevant -/
  importTypes : List ImportedType := []
  /-- `HashSet<String>` -/
  typeNames : List Str := []
  errors : List (ErrKind × Str) := []
  crateName : Str := []
  fileName : Str := []
  multiFile : Bool := false
deriving Repr, Inhabited

structure ParseContext where
  ignoredTypes : List Str := []
  multiFile : Bool := false
  targetOs : List Str := []

namespace Visitor
open Parser

def ignoredBaseCrates : List Str :=
  [s%"std", s%"serde", s%"serde_json", s%"typeshare", s%"once_cell", s%"itertools", s%"anyhow",
   s%"thiserror", s%"quote", s%"syn", s%"clap", s%"tokio", s%"reqwest", s%"regex", s%"http", s%"time",
   s%"axum", s%"either", s%"chrono", s%"base64", s%"rayon", s%"ring", s%"zip", s%"neon"]

def ignoredTypes : List Str :=
  [s%"Option", s%"String", s%"Vec", s%"HashMap", s%"T", s%"I54", s%"U53"]

def acceptCrate (U : UnicodeOps) (name : Str) : Bool :=
  !ignoredBaseCrates.contains name && (match name with | c :: _ => U.isLower c | [] => false)

def acceptType (U : UnicodeOps) (name : Str) : Bool :=
  (match name with | c :: _ => U.isUpper c | [] => false) && !ignoredTypes.contains name

def insertSet {α} [BEq α] (x : α) (l : List α) : List α := if l.contains x then l else l ++ [x]

def isSelfish (s : Str) : Bool := s == s%"crate" || s == s%"super" || s == s%"self"

/-- `ParsedData::push` -/
def push (d : ParsedData) : RustItem → ParsedData
  | .struct s => { d with typeNames := insertSet s.id.renamed d.typeNames, structs := d.structs ++ [s] }
  | .enum e => { d with typeNames := insertSet e.id.renamed d.typeNames, enums := d.enums ++ [e] }
  | .alias a => { d with typeNames := insertSet a.id.renamed d.typeNames, aliases := d.aliases ++ [a] }
  | .const c => { d with typeNames := insertSet c.id.renamed d.typeNames, consts := d.consts ++ [c] }

/-- `collect_result`: keeps an error instead of dropping the item; a panic aborts the parse -/
def collectResult (d : ParsedData) (filePath : Str) : Outcome RustItem → Outcome ParsedData
  | .ok item => .ok (push d item)
  | .err e => .ok { d with errors := d.errors ++ [(e, filePath)] }
  | .panic s => .panic s

/-- `visit_path`'s `extract_root_and_types` on the segments of one path -/
def importOfPath (E : Ext) (ctx : ParseContext) (crateName : Str) (segs : List Str) : Option ImportedType :=
  match segs.head?, segs.getLast? with
  | some first, some last =>
    if acceptCrate E.U first && acceptType E.U last && !ctx.ignoredTypes.contains last && first != last then
      some ⟨if isSelfish first then crateName else first, last⟩
    else none
  | _, _ => none

mutual
  /-- every `syn::Path` inside a type, in visit order -/
  def typePaths : SynType → List (List Str)
    | .tuple es => typePathsList es
    | .reference e => typePaths e
    | .path quals last args => (quals ++ [last]) :: typePathsList args
    | .array e _ => typePaths e
    | .slice e => typePaths e
    | .other => []
  def typePathsList : List SynType → List (List Str)
    | [] => []
    | t :: ts => typePaths t ++ typePathsList ts
end

/-- attribute paths are visited too (`visit_attribute` → `visit_meta` → `visit_path`) -/
def attrPaths (attrs : List Attr) : List (List Str) := attrs.map (·.val.segs)

def fieldsPaths : Fields → List (List Str)
  | .named fs | .unnamed fs => fs.flatMap fun f => attrPaths f.attrs ++ typePaths f.ty
  | .unit => []

/-- `ItemUseIter`, drained: stack of use-trees (head = top), the first path ident seen so far.
A name or glob without any leading path (`use foo;`) is skipped (since the `fix:` commit; before it
`expect("base name not in use statement?")` panicked). -/
def useIter (E : Ext) (crateName : Str) : Nat → List UseTree → Option Str → List ImportedType →
    List ImportedType
  | 0, _, _, acc => acc      -- fuel; never reached (see `useSize`)
  | _, [], _, acc => acc
  | fuel+1, t :: stack, base, acc =>
    let resolve (b : Str) : Str := if isSelfish b then crateName else b
    match t with
    | .path id sub => useIter E crateName fuel (sub :: stack) (base.orElse fun _ => some id) acc
    | .name id =>
      (match base with
      | none => useIter E crateName fuel stack base acc
      | some b =>
        let bc := resolve b
        if acceptCrate E.U bc && acceptType E.U id then
          useIter E crateName fuel stack base (acc ++ [⟨bc, id⟩])
        else useIter E crateName fuel stack base acc)
    | .rename _ _ => useIter E crateName fuel stack base acc
    | .glob =>
      (match base with
      | none => useIter E crateName fuel stack base acc
      | some b =>
        let bc := resolve b
        if acceptCrate E.U bc then useIter E crateName fuel stack base (acc ++ [⟨bc, s%"*"⟩])
        else useIter E crateName fuel stack base acc)
    | .group ts => useIter E crateName fuel (ts.reverse ++ stack) base acc

mutual
  def useSize : UseTree → Nat
    | .path _ t => 1 + useSize t
    | .name _ => 1
    | .rename _ _ => 1
    | .glob => 1
    | .group ts => 1 + useSizeList ts
  def useSizeList : List UseTree → Nat
    | [] => 0
    | t :: ts => useSize t + useSizeList ts
end

def addImports (d : ParsedData) (imps : List ImportedType) : ParsedData :=
  { d with importTypes := imps.foldl (fun acc i => insertSet i acc) d.importTypes }

def addPaths (E : Ext) (ctx : ParseContext) (d : ParsedData) (paths : List (List Str)) : ParsedData :=
  if ctx.multiFile then addImports d (paths.filterMap (importOfPath E ctx d.crateName)) else d

def usePaths : UseTree → List (List Str)
  | _ => []   -- `use` trees contain idents, not `syn::Path`s

/-- `has_typeshare_annotation(attrs) && self.target_os_accepted(attrs)` -/
def accepted (ctx : ParseContext) (attrs : List Attr) : Bool :=
  hasTypeshareAnnotation attrs && (TargetOs.accept attrs ctx.targetOs).getD true

/-- `visit_item_*`: parse the item when it is annotated and accepted, keep the outcome -/
def collectIf (ctx : ParseContext) (filePath : Str) (d : ParsedData) (attrs : List Attr)
    (parse : Outcome RustItem) : Outcome ParsedData :=
  if accepted ctx attrs then collectResult d filePath parse else pure d

mutual
  /-- the visitor over one item (pre-order, descending into modules and function bodies) -/
  def visitItem (E : Ext) (ctx : ParseContext) (filePath : Str) (d : ParsedData) : Item → Outcome ParsedData
    | .struct attrs ident gens fields =>
      (collectIf ctx filePath d attrs (parseStruct E ctx.targetOs attrs ident gens fields)).bind fun d' =>
        pure (addPaths E ctx d' (attrPaths attrs ++ fieldsPaths fields))
    | .enum attrs ident gens variants =>
      (collectIf ctx filePath d attrs (parseEnum E ctx.targetOs attrs ident gens variants)).bind fun d' =>
        pure (addPaths E ctx d'
          (attrPaths attrs ++ variants.flatMap fun v => attrPaths v.attrs ++ fieldsPaths v.fields))
    | .alias attrs ident gens ty =>
      (collectIf ctx filePath d attrs (parseTypeAlias E attrs ident gens ty)).bind fun d' =>
        pure (addPaths E ctx d' (attrPaths attrs ++ typePaths ty))
    | .const attrs ident ty init =>
      (collectIf ctx filePath d attrs (parseConst E attrs ident ty init)).bind fun d' =>
        pure (addPaths E ctx d' (attrPaths attrs ++ typePaths ty))
    | .use tree =>
      if ctx.multiFile then
        pure (addImports d ((useIter E d.crateName (useSize tree + 1) [tree] none []).filter
          fun i => !ctx.ignoredTypes.contains i.typeName))
      else pure d
    | .mod attrs _ items => visitItems E ctx filePath (addPaths E ctx d (attrPaths attrs)) items
    | .other paths items => visitItems E ctx filePath (addPaths E ctx d paths) items
  def visitItems (E : Ext) (ctx : ParseContext) (filePath : Str) (d : ParsedData) : List Item → Outcome ParsedData
    | [] => pure d
    | i :: is => (visitItem E ctx filePath d i).bind fun d' => visitItems E ctx filePath d' is
end

def allReferences (U : UnicodeOps) (d : ParsedData) : List Str :=
  let tys : List RustType :=
    d.structs.flatMap (fun s => s.fields.map (·.ty)) ++
    d.enums.flatMap (fun e => e.variants.flatMap fun v => match v with
      | .unit _ _ => []
      | .tuple _ _ ty => [ty]
      | .anonymousStruct _ _ fs => fs.map (·.ty)) ++
    d.aliases.map (·.ty) ++ d.consts.map (·.ty)
  (tys.flatMap RustType.allIds).filter (acceptType U)

def ImportedType.lt (a b : ImportedType) : Bool :=
  Str.lt a.baseCrate b.baseCrate || (a.baseCrate == b.baseCrate && Str.lt a.typeName b.typeName)

/-- the candidates with the smallest crate name (`String: Ord`, i.e. `Str.le`) -/
def minCrate (cands : List ImportedType) : List ImportedType :=
  cands.filter fun i => cands.all fun j => Str.le i.baseCrate j.baseCrate

/-- `reconcile_referenced_types`: keep the imports that are referenced by the typeshared types and
not defined locally, plus wildcard imports.  `find_type` takes, among the imports of that name in
the `HashSet`, the one whose crate name is smallest (`filter(..).min_by_key(|imp| &imp.base_crate)`,
since the `fix:` commit "resolve a type name imported from several crates the same way in every
run"; it was `find`, i.e. *some* matching import).  `min_by_key` returns the first of the minimal
elements in the set's iteration order: the model keeps `pick` as that choice, now restricted to
the candidates with the smallest crate name — which all are the same import
(`TsV.C06M.reconcileReferencedTypes_pick`: the result does not depend on `pick`). -/
def reconcileReferencedTypes (U : UnicodeOps) (pick : List ImportedType → Option ImportedType)
    (d : ParsedData) : ParsedData :=
  let refs := (allReferences U d).eraseDups
  let nonLocal := refs.filter fun r => !d.typeNames.contains r
  let found := nonLocal.filterMap fun name => pick (minCrate (d.importTypes.filter (·.typeName == name)))
  let wild := d.importTypes.filter (·.typeName == s%"*")
  { d with importTypes := (found ++ wild).eraseDups }

def isEmpty (d : ParsedData) : Bool :=
  d.structs.isEmpty && d.enums.isEmpty && d.aliases.isEmpty && d.consts.isEmpty && d.errors.isEmpty

/-- the visitor's result before `parsed_data()` post-processes it -/
def visitFile (E : Ext) (ctx : ParseContext) (crateName fileName filePath : Str) (f : File) :
    Outcome ParsedData :=
  let d0 : ParsedData := { crateName, fileName, multiFile := ctx.multiFile }
  if (TargetOs.accept f.attrs ctx.targetOs).getD true then
    visitItems E ctx filePath (addPaths E ctx d0 (attrPaths f.attrs)) f.items
  else pure d0

/-- `parser::parse` on an already tokenised file (`syn::parse_file` succeeded) -/
def parseFile (E : Ext) (ctx : ParseContext) (pick : List ImportedType → Option ImportedType)
    (crateName fileName filePath : Str) (f : File) : Outcome (Option ParsedData) :=
  if !f.marker then .ok none else
  (visitFile E ctx crateName fileName filePath f).bind fun d =>
    if isEmpty d then pure none
    else if d.multiFile then pure (some (reconcileReferencedTypes E.U pick d))
    else pure (some d)

end Visitor
end TsV
