/** A block doc
 * second line
 *
 * fourth */
#[typeshare]
pub struct Block {
    /** inner block */
    pub a: u8,
    /// line
    /** block after line
        indented */
    pub b: Option<Option<String>>,
}
/// enum doc
#[typeshare]
#[serde(tag = "t", content = "c")]
pub enum E {
    /** variant doc
    two lines */
    A { /** field doc */ x: u8 },
    B(/** payload doc */ String),
    C,
}
