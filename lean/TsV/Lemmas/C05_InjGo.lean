import TsV.Lemmas.C05_Inj
/-!
# C05 — unique readability of Go type expressions

Go's grammar is prefix: `[]T`, `[n]T`, `*T`, `map[K]V`, `Name[A, B]`.
-/
namespace TsV.C05L.InjGo
open TsV TsV.C05L.Inj

inductive Mark where
  | slice | ptr | arr (n : Nat)
deriving DecidableEq

inductive GTm where
  | leaf (n : Str)
  | app (n : Str) (a : GTm) (as : List GTm)
  | mp (k v : GTm)
  | pre (m : Mark) (t : GTm)
deriving Inhabited

def kwGoMap : Str := s%"map"

def renderMark : Mark → Str
  | .slice => s%"[]"
  | .ptr => s%"*"
  | .arr n => '[' :: (Str.natToStr n ++ s%"]")

mutual
  def render : GTm → Str
    | .leaf n => n
    | .app n a as => n ++ '[' :: (render a ++ (renderTail as ++ [']']))
    | .mp k v => 'm' :: 'a' :: 'p' :: '[' :: (render k ++ ']' :: render v)
    | .pre m t => renderMark m ++ render t
  def renderTail : List GTm → Str
    | [] => []
    | t :: ts => ',' :: ' ' :: (render t ++ renderTail ts)
end

mutual
  def WFg : GTm → Prop
    | .leaf n => NameOK n
    | .app n a as => NameOK n ∧ n ≠ kwGoMap ∧ WFg a ∧ WFgs as
    | .mp k v => WFg k ∧ WFg v
    | .pre _ t => WFg t
  def WFgs : List GTm → Prop
    | [] => True
    | t :: ts => WFg t ∧ WFgs ts
end

/-- a rest that follows a complete Go type: empty, `,` or `]` -/
def StopG (r : Str) : Prop := ∀ ch rest, r = ch :: rest → ch = ',' ∨ ch = ']'

theorem stopG_spHead (r : Str) (h : StopG r) : SpHead r := by
  intro ch rest e
  rcases h ch rest e with rfl | rfl <;> rfl

theorem stopG_comma (X : Str) : StopG (',' :: X) := by
  intro c rest e; simp only [List.cons.injEq] at e; exact .inl e.1.symm

theorem stopG_rb (X : Str) : StopG (']' :: X) := by
  intro c rest e; simp only [List.cons.injEq] at e; exact .inr e.1.symm

theorem stopG_tail (as : List GTm) (X : Str) : StopG (renderTail as ++ ']' :: X) := by
  cases as with
  | nil => simpa [renderTail] using stopG_rb X
  | cons t ts => simpa [renderTail] using stopG_comma _

/-- maximal runs of characters satisfying `P` are determined by the text -/
theorem span_split (P : Char → Bool) : ∀ (n n' X X' : Str), (∀ ch ∈ n, P ch = true) → (∀ ch ∈ n', P ch = true) →
    (∀ ch rest, X = ch :: rest → P ch = false) → (∀ ch rest, X' = ch :: rest → P ch = false) →
    n ++ X = n' ++ X' → n = n' ∧ X = X'
  | [], [], X, X', _, _, _, _, h => ⟨rfl, by simpa using h⟩
  | [], c' :: n', X, X', _, hn', hX, _, h => by
    simp only [List.nil_append, List.cons_append] at h
    have := hX c' _ h
    have := hn' c' (by simp)
    simp_all
  | c :: n, [], X, X', hn, _, _, hX', h => by
    simp only [List.nil_append, List.cons_append] at h
    have := hX' c _ h.symm
    have := hn c (by simp)
    simp_all
  | c :: n, c' :: n', X, X', hn, hn', hX, hX', h => by
    simp only [List.cons_append, List.cons.injEq] at h
    obtain ⟨rfl, h⟩ := h
    obtain ⟨rfl, rfl⟩ := span_split P n n' X X' (fun ch hc => hn ch (by simp [hc]))
      (fun ch hc => hn' ch (by simp [hc])) hX hX' h
    exact ⟨rfl, rfl⟩

theorem natToStr_digits (n : Nat) : ∀ ch ∈ Str.natToStr n, ch.isDigit = true := by
  intro ch h
  unfold Str.natToStr at h
  have : (toString n) = String.ofList (Nat.toDigits 10 n) := Nat.toString_eq_ofList_toDigits
  rw [this] at h
  simp only [String.toList_ofList] at h
  exact Nat.isDigit_of_mem_toDigits (by decide) (by decide) h

theorem natToStr_inj (n m : Nat) (h : Str.natToStr n = Str.natToStr m) : n = m := by
  unfold Str.natToStr at h
  have e1 : (toString n) = String.ofList (Nat.toDigits 10 n) := Nat.toString_eq_ofList_toDigits
  have e2 : (toString m) = String.ofList (Nat.toDigits 10 m) := Nat.toString_eq_ofList_toDigits
  rw [e1, e2] at h
  simp only [String.toList_ofList] at h
  have := congrArg (fun l => Nat.ofDigitChars 10 l 0) h
  simpa [Nat.ofDigitChars_ten_toDigits] using this

theorem natToStr_ne_nil (n : Nat) : Str.natToStr n ≠ [] := by
  unfold Str.natToStr
  have : (toString n) = String.ofList (Nat.toDigits 10 n) := Nat.toString_eq_ofList_toDigits
  rw [this]
  simp [Nat.toDigits_ne_nil]

/-- the first character of a rendering: a name character, `[` or `*` -/
theorem name_head {n : Str} (hn : NameOK n) : ∃ c t, n = c :: t ∧ special c = false := by
  obtain ⟨hne, hsp⟩ := hn
  cases n with
  | nil => exact absurd rfl hne
  | cons c t => exact ⟨c, t, rfl, hsp c (by simp)⟩

theorem mark_head (m : Mark) : ∃ c t, renderMark m = c :: t ∧ special c = true := by
  cases m with
  | slice => exact ⟨'[', _, rfl, rfl⟩
  | ptr => exact ⟨'*', _, rfl, rfl⟩
  | arr n => exact ⟨'[', _, rfl, rfl⟩

theorem map_nameOK : NameOK kwGoMap := by simp [NameOK, kwGoMap, special]

mutual
theorem urG : ∀ (a b : GTm) (r1 r2 : Str), WFg a → WFg b → StopG r1 → StopG r2 →
    render a ++ r1 = render b ++ r2 → a = b ∧ r1 = r2
  | .leaf n, b, r1, r2, ha, hb, h1, h2, h => by
    have hn : NameOK n := by simpa [WFg] using ha
    cases b with
    | leaf n' =>
      have hn' : NameOK n' := by simpa [WFg] using hb
      simp only [render] at h
      obtain ⟨rfl, rfl⟩ := name_split n n' _ _ hn.2 hn'.2 (stopG_spHead _ h1) (stopG_spHead _ h2) h
      exact ⟨rfl, rfl⟩
    | app n' a' as' =>
      simp only [WFg] at hb
      simp only [render, List.append_assoc, List.cons_append] at h
      obtain ⟨_, e⟩ := name_split n n' _ _ hn.2 hb.1.2 (stopG_spHead _ h1) (spHead_cons '[' rfl _) h
      rcases h1 _ _ e with h | h <;> simp at h
    | mp k' v' =>
      have : render (.mp k' v') ++ r2 = kwGoMap ++ '[' :: (render k' ++ ']' :: (render v' ++ r2)) := by
        simp [render, kwGoMap]
      rw [this] at h
      simp only [render] at h
      obtain ⟨_, e⟩ := name_split n kwGoMap _ _ hn.2 map_nameOK.2 (stopG_spHead _ h1) (spHead_cons '[' rfl _) h
      rcases h1 _ _ e with h | h <;> simp at h
    | pre m t =>
      obtain ⟨c, t', hc, hs⟩ := name_head hn
      obtain ⟨c', t'', hc', hs'⟩ := mark_head m
      simp only [render, hc, hc', List.cons_append, List.cons.injEq] at h
      rw [h.1] at hs; simp [hs'] at hs
  | .app n a as, b, r1, r2, ha, hb, h1, h2, h => by
    simp only [WFg] at ha
    obtain ⟨hn, hnm, hwa, hwas⟩ := ha
    cases b with
    | leaf n' =>
      have hn' : NameOK n' := by simpa [WFg] using hb
      simp only [render, List.append_assoc, List.cons_append] at h
      obtain ⟨_, e⟩ := name_split n n' _ _ hn.2 hn'.2 (spHead_cons '[' rfl _) (stopG_spHead _ h2) h
      rcases h2 _ _ e.symm with h | h <;> simp at h
    | app n' a' as' =>
      simp only [WFg] at hb
      obtain ⟨hn', _, hwa', hwas'⟩ := hb
      simp only [render, List.append_assoc, List.cons_append] at h
      obtain ⟨rfl, e⟩ := name_split n n' _ _ hn.2 hn'.2 (spHead_cons '[' rfl _) (spHead_cons '[' rfl _) h
      simp only [List.cons.injEq, true_and] at e
      obtain ⟨rfl, e2⟩ := urG a a' _ _ hwa hwa' (stopG_tail as _) (stopG_tail as' _) e
      obtain ⟨rfl, rfl⟩ := urGTail as as' _ _ hwas hwas' e2
      exact ⟨rfl, rfl⟩
    | mp k' v' =>
      have : render (.mp k' v') ++ r2 = kwGoMap ++ '[' :: (render k' ++ ']' :: (render v' ++ r2)) := by
        simp [render, kwGoMap]
      rw [this] at h
      simp only [render, List.append_assoc, List.cons_append] at h
      obtain ⟨e, _⟩ := name_split n kwGoMap _ _ hn.2 map_nameOK.2 (spHead_cons '[' rfl _) (spHead_cons '[' rfl _) h
      exact absurd e hnm
    | pre m t =>
      obtain ⟨c, t', hc, hs⟩ := name_head hn
      obtain ⟨c', t'', hc', hs'⟩ := mark_head m
      simp only [render, hc, hc', List.cons_append, List.cons.injEq] at h
      rw [h.1] at hs; simp [hs'] at hs
  | .mp k v, b, r1, r2, ha, hb, h1, h2, h => by
    simp only [WFg] at ha
    have hthis : render (.mp k v) ++ r1 = kwGoMap ++ '[' :: (render k ++ ']' :: (render v ++ r1)) := by
      simp [render, kwGoMap]
    cases b with
    | leaf n' =>
      have hn' : NameOK n' := by simpa [WFg] using hb
      rw [hthis] at h
      simp only [render] at h
      obtain ⟨_, e⟩ := name_split kwGoMap n' _ _ map_nameOK.2 hn'.2 (spHead_cons '[' rfl _) (stopG_spHead _ h2) h
      rcases h2 _ _ e.symm with h | h <;> simp at h
    | app n' a' as' =>
      simp only [WFg] at hb
      rw [hthis] at h
      simp only [render, List.append_assoc, List.cons_append] at h
      obtain ⟨e, _⟩ := name_split kwGoMap n' _ _ map_nameOK.2 hb.1.2 (spHead_cons '[' rfl _) (spHead_cons '[' rfl _) h
      exact absurd e.symm hb.2.1
    | mp k' v' =>
      simp only [WFg] at hb
      simp only [render, List.append_assoc, List.cons_append, List.cons.injEq, true_and] at h
      obtain ⟨rfl, e⟩ := urG k k' _ _ ha.1 hb.1 (stopG_rb _) (stopG_rb _) h
      simp only [List.cons.injEq, true_and] at e
      obtain ⟨rfl, rfl⟩ := urG v v' r1 r2 ha.2 hb.2 h1 h2 e
      exact ⟨rfl, rfl⟩
    | pre m t =>
      obtain ⟨c', t'', hc', hs'⟩ := mark_head m
      simp only [render, hc', List.cons_append, List.cons.injEq] at h
      rw [← h.1] at hs'; simp [special] at hs'
  | .pre m t, b, r1, r2, ha, hb, h1, h2, h => by
    simp only [WFg] at ha
    cases b with
    | leaf n' =>
      have hn' : NameOK n' := by simpa [WFg] using hb
      obtain ⟨c, t', hc, hs⟩ := name_head hn'
      obtain ⟨c', t'', hc', hs'⟩ := mark_head m
      simp only [render, hc, hc', List.cons_append, List.cons.injEq] at h
      rw [← h.1] at hs; simp [hs'] at hs
    | app n' a' as' =>
      simp only [WFg] at hb
      obtain ⟨c, t', hc, hs⟩ := name_head hb.1
      obtain ⟨c', t'', hc', hs'⟩ := mark_head m
      simp only [render, hc, hc', List.cons_append, List.cons.injEq] at h
      rw [← h.1] at hs; simp [hs'] at hs
    | mp k' v' =>
      obtain ⟨c', t'', hc', hs'⟩ := mark_head m
      simp only [render, hc', List.cons_append, List.cons.injEq] at h
      rw [h.1] at hs'; simp [special] at hs'
    | pre m' t' =>
      simp only [WFg] at hb
      simp only [render, List.append_assoc] at h
      cases m with
      | slice =>
        cases m' with
        | slice =>
          simp only [renderMark, List.cons_append, List.nil_append, List.cons.injEq, true_and] at h
          obtain ⟨rfl, rfl⟩ := urG t t' r1 r2 ha hb h1 h2 h
          exact ⟨rfl, rfl⟩
        | ptr => simp [renderMark] at h
        | arr n' =>
          simp only [renderMark, List.cons_append, List.nil_append, List.cons.injEq, true_and, List.append_assoc] at h
          have hd := natToStr_digits n'
          cases hn : Str.natToStr n' with
          | nil => exact absurd hn (natToStr_ne_nil n')
          | cons d ds =>
            rw [hn] at h hd
            simp only [List.cons_append, List.cons.injEq] at h
            have := hd d (by simp)
            rw [← h.1] at this
            simp at this
      | ptr =>
        cases m' with
        | slice => simp [renderMark] at h
        | ptr =>
          simp only [renderMark, List.cons_append, List.nil_append, List.cons.injEq, true_and] at h
          obtain ⟨rfl, rfl⟩ := urG t t' r1 r2 ha hb h1 h2 h
          exact ⟨rfl, rfl⟩
        | arr n' => simp [renderMark] at h
      | arr n =>
        cases m' with
        | slice =>
          simp only [renderMark, List.cons_append, List.nil_append, List.cons.injEq, true_and, List.append_assoc] at h
          have hd := natToStr_digits n
          cases hn : Str.natToStr n with
          | nil => exact absurd hn (natToStr_ne_nil n)
          | cons d ds =>
            rw [hn] at h hd
            simp only [List.cons_append, List.cons.injEq] at h
            have := hd d (by simp)
            rw [h.1] at this
            simp at this
        | ptr => simp [renderMark] at h
        | arr n' =>
          simp only [renderMark, List.cons_append, List.nil_append, List.cons.injEq, true_and, List.append_assoc] at h
          obtain ⟨e, e2⟩ := span_split Char.isDigit (Str.natToStr n) (Str.natToStr n') _ _ (natToStr_digits n)
            (natToStr_digits n') (by intro ch rest e; simp only [List.cons.injEq] at e; rw [← e.1]; decide)
            (by intro ch rest e; simp only [List.cons.injEq] at e; rw [← e.1]; decide) h
          obtain rfl := natToStr_inj n n' e
          simp only [List.cons.injEq, true_and] at e2
          obtain ⟨rfl, rfl⟩ := urG t t' r1 r2 ha hb h1 h2 e2
          exact ⟨rfl, rfl⟩
theorem urGTail : ∀ (as bs : List GTm) (X1 X2 : Str), WFgs as → WFgs bs →
    renderTail as ++ ']' :: X1 = renderTail bs ++ ']' :: X2 → as = bs ∧ X1 = X2
  | [], [], X1, X2, _, _, h => by simpa [renderTail] using h
  | [], b :: bs, X1, X2, _, _, h => by simp [renderTail] at h
  | a :: as, [], X1, X2, _, _, h => by simp [renderTail] at h
  | a :: as, b :: bs, X1, X2, ha, hb, h => by
    simp only [WFgs] at ha hb
    simp only [renderTail, List.cons_append, List.append_assoc, List.cons.injEq, true_and] at h
    obtain ⟨rfl, e⟩ := urG a b _ _ ha.1 hb.1 (stopG_tail as _) (stopG_tail bs _) h
    obtain ⟨rfl, rfl⟩ := urGTail as bs X1 X2 ha.2 hb.2 e
    exact ⟨rfl, rfl⟩
end

theorem renderG_inj (a b : GTm) (ha : WFg a) (hb : WFg b) (h : render a = render b) : a = b := by
  have := urG a b [] [] ha hb (by intro _ _ e; cases e) (by intro _ _ e; cases e) (by simpa using h)
  exact this.1

end TsV.C05L.InjGo
