#[typeshare]
#[derive(Serialize)]
#[serde(rename_all = "kebab-case", deny_unknown_fields)]
#[serde(rename = "First", rename = "Second")]
pub struct Attrs {
    #[serde(rename(serialize = "ser", deserialize = "de"))]
    pub a: u8,
    #[serde(default = "default_b", skip_serializing_if = "Option::is_none")]
    pub b: Option<u8>,
    #[serde(with = "time::serde::rfc3339")]
    pub c: OffsetDateTime,
    #[serde(rename = "x")]
    #[serde(rename = "y")]
    pub d: u8,
    #[serde(skip_serializing)]
    pub e: u8,
    #[serde(skip_deserializing)]
    pub f: u8,
    #[serde(alias = "gg")]
    pub g_field_name: u8,
    #[serde(default, rename = "  padded  ")]
    pub h: u8,
    #[serde(rename = 5)]
    pub i: u8,
    #[serde(rename = CONST)]
    pub j: u8,
    #[serde(borrow)]
    #[cfg_attr(feature = "x", serde(skip))]
    pub k: u8,
    #[serde(skip, default)]
    pub l: u8,
    #[serde(bound(serialize = "T: A"))]
    pub m: u8,
    #[serde = "weird"]
    pub n: u8,
    #[serde]
    pub o: u8,
    #[serde()]
    pub p: u8,
    #[serde(default,)]
    pub q: u8,
    #[serde(skip = true)]
    pub r: u8,
    #[serde(this is not meta +)]
    pub s: u8,
}
