import TsV.Lemmas.C01_Main
import TsV.Lemmas.C12_Common
/-!
# C01, the reviver — the printer state as a trace of events

TypeScript's `types_for_custom_json_translation` (`CustomMap`) is written in two places only:
`format_special_type` *resets* the entry of a custom-translated type (`Date` / `Uint8Array`) to the
empty set when a special Rust type is mapped to it, and `write_field` *adds* the field's wire name
to the entry of the type it printed.  This file describes the state after any sequence of such
events exactly (`mem_run_iff`).
-/
namespace TsV.C01R
open TsV TsV.Lang TsV.Lang.TypeScript

/-- one write to `types_for_custom_json_translation` -/
inductive Ev where
  | reset (t : Str)            -- `.insert(mapped, BTreeSet::new())` in `format_special_type`
  | add (t : Str) (k : Str)    -- `.entry(ts_ty)…insert(field.id.renamed)` in `write_field`
deriving DecidableEq, Repr

/-- the keys recorded for the translated type `t` -/
def keysOf (st : CustomMap) (t : Str) : List Str := (cmGet st t).getD []

def Ev.apply (st : CustomMap) : Ev → CustomMap
  | .reset t => cmInsert st t []
  | .add t k => cmInsert st t (Parser.insertSorted Str.lt k (keysOf st t))

/-- the state after a sequence of events -/
def run (st : CustomMap) (evs : List Ev) : CustomMap := evs.foldl Ev.apply st

theorem run_nil (st : CustomMap) : run st [] = st := rfl
theorem run_cons (st : CustomMap) (e : Ev) (evs : List Ev) : run st (e :: evs) = run (e.apply st) evs := rfl
theorem run_append (st : CustomMap) (a b : List Ev) : run st (a ++ b) = run (run st a) b := by
  simp [run, List.foldl_append]

/-! ## `BTreeMap::insert` / `get` on the association list -/

theorem cmGet_cmInsert (k k' : Str) (v : List Str) : ∀ m : CustomMap,
    cmGet (cmInsert m k v) k' = if k' = k then some v else cmGet m k'
  | [] => by
    by_cases h : k' = k
    · subst h; simp [cmInsert, cmGet]
    · have : (k == k') = false := by simpa using fun e => h e.symm
      simp [cmInsert, cmGet, h, this]
  | (a, b) :: rest => by
    simp only [cmInsert]
    by_cases h1 : (a == k) = true
    · have ha : a = k := by simpa using h1
      subst ha
      simp only [beq_self_eq_true, if_true]
      by_cases h : k' = a
      · subst h; simp [cmGet]
      · have : (a == k') = false := by simpa using fun e => h e.symm
        simp [cmGet, h, this]
    · have hak : a ≠ k := by simpa using h1
      simp only [h1, if_false, Bool.false_eq_true]
      by_cases h2 : Str.lt k a = true
      · simp only [h2, if_true]
        by_cases h : k' = k
        · subst h; simp [cmGet]
        · have : (k == k') = false := by simpa using fun e => h e.symm
          simp [cmGet, h, this]
      · simp only [h2, if_false, Bool.false_eq_true]
        have ih := cmGet_cmInsert k k' v rest
        by_cases h3 : (a == k') = true
        · have : a = k' := by simpa using h3
          subst this
          simp [cmGet, hak]
        · have h3' : (a == k') = false := by simpa using h3
          simp only [cmGet, List.find?_cons, h3'] at ih ⊢
          exact ih

theorem keysOf_reset (st : CustomMap) (t t' : Str) :
    keysOf (Ev.apply st (.reset t')) t = if t = t' then [] else keysOf st t := by
  unfold keysOf Ev.apply
  rw [cmGet_cmInsert]
  split <;> rfl

theorem keysOf_add (st : CustomMap) (t t' k : Str) :
    keysOf (Ev.apply st (.add t' k)) t =
      if t = t' then Parser.insertSorted Str.lt k (keysOf st t') else keysOf st t := by
  unfold Ev.apply
  show (cmGet (cmInsert st t' _) t).getD [] = _
  rw [cmGet_cmInsert]
  split <;> rfl

/-! ## the exact content of an entry after a trace -/

/-- `k` is recorded for `t` after the events iff it was recorded before and no reset of `t`
happened, or some field added it and no reset of `t` happened afterwards -/
theorem mem_run_iff (t k : Str) : ∀ (evs : List Ev) (st : CustomMap),
    k ∈ keysOf (run st evs) t ↔
      (k ∈ keysOf st t ∧ Ev.reset t ∉ evs) ∨
      ∃ pre post, evs = pre ++ Ev.add t k :: post ∧ Ev.reset t ∉ post
  | [], st => by
    simp [run_nil]
  | e :: r, st => by
    rw [run_cons, mem_run_iff t k r (e.apply st)]
    have split_cons : (∃ pre post, e :: r = pre ++ Ev.add t k :: post ∧ Ev.reset t ∉ post) ↔
        (e = Ev.add t k ∧ Ev.reset t ∉ r) ∨ ∃ pre post, r = pre ++ Ev.add t k :: post ∧ Ev.reset t ∉ post := by
      constructor
      · rintro ⟨pre, post, h, hp⟩
        cases pre with
        | nil => simp only [List.nil_append, List.cons.injEq] at h; exact Or.inl ⟨h.1, h.2 ▸ hp⟩
        | cons a pre' =>
          simp only [List.cons_append, List.cons.injEq] at h
          exact Or.inr ⟨pre', post, h.2, hp⟩
      · rintro (⟨rfl, hp⟩ | ⟨pre, post, h, hp⟩)
        · exact ⟨[], r, rfl, hp⟩
        · exact ⟨e :: pre, post, by simp [h], hp⟩
    rw [split_cons]
    cases e with
    | reset t' =>
      rw [keysOf_reset]
      by_cases h : t = t'
      · subst h
        simp
      · have : Ev.reset t ≠ Ev.reset t' := fun e => h (by cases e; rfl)
        simp [h, this]
    | add t' k' =>
      rw [keysOf_add]
      by_cases h : t = t'
      · subst h
        simp only [if_true, TsV.C12L.mem_insertSorted_iff, List.mem_cons, reduceCtorEq, false_or, Ev.add.injEq, true_and]
        by_cases hk : k = k'
        · subst hk
          simp only [true_or, true_and]
          constructor
          · rintro (h | h)
            · exact Or.inr (Or.inl h)
            · exact Or.inr (Or.inr h)
          · rintro (⟨_, h⟩ | h | h)
            · exact Or.inl h
            · exact Or.inl h
            · exact Or.inr h
        · have hk' : ¬ k' = k := fun e => hk e.symm
          simp [hk, hk']
      · have h' : ¬ t' = t := fun e => h e.symm
        simp [h, h']

/-- soundness direction: whatever is recorded was recorded before or was added -/
theorem mem_run_sound (t k : Str) (evs : List Ev) (st : CustomMap) (h : k ∈ keysOf (run st evs) t) :
    k ∈ keysOf st t ∨ Ev.add t k ∈ evs := by
  rcases (mem_run_iff t k evs st).1 h with ⟨h, _⟩ | ⟨pre, post, rfl, _⟩
  · exact Or.inl h
  · exact Or.inr (by simp)

/-- completeness direction: without resets nothing is lost -/
theorem mem_run_complete (t k : Str) (evs : List Ev) (st : CustomMap) (hr : Ev.reset t ∉ evs)
    (h : k ∈ keysOf st t ∨ Ev.add t k ∈ evs) : k ∈ keysOf (run st evs) t := by
  refine (mem_run_iff t k evs st).2 ?_
  rcases h with h | h
  · exact Or.inl ⟨h, hr⟩
  · obtain ⟨pre, post, rfl⟩ := List.append_of_mem h
    exact Or.inr ⟨pre, post, rfl, fun hp => hr (by simp [hp])⟩

end TsV.C01R
