import TsV.Lemmas.C05_HelperGenerics
import TsV.Lemmas.C03_Emission_Go
import TsV.Lemmas.C03_Emission_Python
import TsV.Props.C03
/-!
# C03_EmptiedVariants — lemmas

1. the parser keeps a struct variant all of whose fields are skipped (or that is written `V {}`) as
   `.anonymousStruct id comments []`;
2. `write_types_for_anonymous_structs` for a variant without fields: the helper record of each of
   the five helper-writing back ends, which is always built (no error path), and its text;
3. generic list / text lemmas for lifting to the file level.
-/
namespace TsV.C03_EmptiedVariants
open TsV TsV.Syn TsV.Parser TsV.Lang TsV.C03E TsV.Outcome

/-! ## 1. parsing -/

/-- a struct variant none of whose fields is kept -/
def Emptied (T : List Str) (v : Variant) : Prop :=
  ∃ fs, v.fields = .named fs ∧ ∀ f ∈ fs, isSkipped f.attrs T = true

theorem parseVariant_emptied (E : Ext) (T : List Str) (ra : Option Str) (v : Variant) (h : Emptied T v) :
    parseEnumVariant E T ra v =
      (getIdent E (some v.ident) v.attrs ra).bind fun id =>
        .ok (.anonymousStruct id (parseCommentAttrs E v.attrs) []) := by
  obtain ⟨fs, hv, hall⟩ := h
  have hf : (fs.filter fun f => !isSkipped f.attrs T) = [] := by
    rw [List.filter_eq_nil_iff]
    intro f hf
    simp [hall f hf]
  unfold parseEnumVariant
  simp only [hv, hf, Outcome.mapM']
  rfl

/-! ## 2. the helper of a variant without fields -/

theorem kotlin_helper_nil (c : Kotlin.Cfg) (e : RustEnum) (n v : Str) :
    Kotlin.structFacts c (anonymousStruct e n v []) = .ok (.object (anonymousStruct e n v []).comments (c.pfx ++ n)) := rfl

theorem swift_helper_nil (U : UnicodeOps) (c : Swift.Cfg) (e : RustEnum) (n v : Str) (st : Swift.St) :
    Swift.structFacts U c (anonymousStruct e n v []) st =
      .ok ({ comments := (anonymousStruct e n v []).comments, name := Swift.kw (c.pfx ++ n), generics := [],
             conformances := Swift.structConformances c e.decorators, props := [], codingKeys := [],
             explicitCodingKeys := false, initParams := [], initAssigns := [] }, st) := rfl

theorem scala_helper_nil (c : Scala.Cfg) (e : RustEnum) (n v : Str) :
    Scala.classFacts c (anonymousStruct e n v []) =
      .ok { comments := (anonymousStruct e n v []).comments, name := n, generics := [], params := [] } := rfl

theorem go_helper_nil (U : UnicodeOps) (c : Go.Cfg) (e : RustEnum) (n v : Str) (st : Go.Imports) :
    Go.structFacts U c (anonymousStruct e n v []) st =
      (Go.acr U c n).bind fun name =>
        .ok ({ comments := (anonymousStruct e n v []).comments, name, generics := [], fields := [] }, st) := rfl

theorem python_helper_nil (E : Ext) (c : Python.Cfg) (e : RustEnum) (n v : Str) (st : Python.St) :
    Python.structFacts E c (anonymousStruct e n v []) st =
      .ok ({ name := n, generics := [], comments := (anonymousStruct e n v []).comments, modelConfig := false,
             fields := [] }, Python.addImport st Python.kPydantic s%"BaseModel") := rfl

/-! ## 3. lifting -/

theorem mapM'_pure {α β} (g : α → β) : ∀ l : List α, Outcome.mapM' (fun a => Outcome.ok (g a)) l = .ok (l.map g)
  | [] => rfl
  | a :: t => by simp only [Outcome.mapM', mapM'_pure g t, List.map_cons]

theorem splitsInto_mem {defs : List (Str × Str)} {b : Str} (h : SplitsInto defs b) :
    ∀ d ∈ defs, ∃ chunk, chunk <:+: b ∧ DefinesHead d.1 d.2 chunk := by
  obtain ⟨lead, chunks, rfl, _, hp⟩ := h
  intro d hd
  obtain ⟨k, hk⟩ := List.getElem?_of_mem hd
  obtain ⟨c, hc, hdc⟩ := hp.nth k d hk
  refine ⟨c, ?_, hdc⟩
  have hm : c ∈ chunks := List.mem_of_getElem? hc
  obtain ⟨l1, l2, rfl⟩ := List.append_of_mem hm
  exact ⟨lead ++ l1.flatten, l2.flatten, by simp [List.append_assoc]⟩

theorem block_infix_text {blocks : List Str} {b : Str} (hb : b ∈ blocks) (n : Nat) (header mid footer : Str) :
    b <:+: header ++ (blocks.take n).flatten ++ mid ++ (blocks.drop n).flatten ++ footer := by
  rw [← List.take_append_drop n blocks] at hb
  rcases List.mem_append.1 hb with h | h
  · obtain ⟨l1, l2, hl⟩ := List.append_of_mem h
    rw [hl]
    exact ⟨header ++ l1.flatten, l2.flatten ++ mid ++ (blocks.drop n).flatten ++ footer, by simp [List.append_assoc]⟩
  · obtain ⟨l1, l2, hl⟩ := List.append_of_mem h
    rw [hl]
    exact ⟨header ++ (blocks.take n).flatten ++ mid ++ l1.flatten, l2.flatten ++ footer, by simp [List.append_assoc]⟩

/-- every definition of every item's block is in the text of the file -/
theorem defs_in_text {defs : RustItem → List (Str × Str)} {items : List RustItem} {blocks : List Str}
    (hp : Paired (fun it b => SplitsInto (defs it) b) items blocks) (n : Nat) (header mid footer : Str)
    (it : RustItem) (hit : it ∈ items) (d : Str × Str) (hd : d ∈ defs it) :
    ∃ chunk, chunk <:+: header ++ (blocks.take n).flatten ++ mid ++ (blocks.drop n).flatten ++ footer ∧
      DefinesHead d.1 d.2 chunk := by
  obtain ⟨k, hk⟩ := List.getElem?_of_mem hit
  obtain ⟨b, hb, hs⟩ := hp.nth k it hk
  obtain ⟨chunk, hc, hdh⟩ := splitsInto_mem hs d hd
  exact ⟨chunk, hc.trans (block_infix_text (List.mem_of_getElem? hb) n header mid footer), hdh⟩

end TsV.C03_EmptiedVariants
