import TsV.Lemmas.C15_Spec
/-!
# C15 — lemmas

1. tagged text: `erase`, `docChars`, `tInter` against `Str.intercalate`, the flat-map forms of an
   intercalated list;
2. running a lexer: `final` / `okOn` over concatenations, printer text, and the generic
   `run_flatMap` (a block is a prefix, a list of entries, a suffix);
3. per lexer: what one doc string does to the lexer (`line_okOn`, `tsDoc_okOn`, `pyDoc_okOn`);
4. per renderer: `contained = all (not Bad)`.
-/
namespace TsV.C15
open TsV TsV.Lang

/-! ## 1. tagged text -/

@[simp] theorem P_nil : P [] = [] := rfl
@[simp] theorem D_nil : D [] = [] := rfl
@[simp] theorem P_cons (c : Char) (s : Str) : P (c :: s) = (c, false) :: P s := rfl
@[simp] theorem D_cons (c : Char) (s : Str) : D (c :: s) = (c, true) :: D s := rfl
@[simp] theorem P_append (a b : Str) : P (a ++ b) = P a ++ P b := by simp [P]
@[simp] theorem D_append (a b : Str) : D (a ++ b) = D a ++ D b := by simp [D]
@[simp] theorem erase_nil : erase [] = [] := rfl
@[simp] theorem erase_append (a b : TStr) : erase (a ++ b) = erase a ++ erase b := by simp [erase]
@[simp] theorem erase_P (s : Str) : erase (P s) = s := by
  induction s with
  | nil => rfl
  | cons c s ih => simp [erase] at ih ⊢; exact ih
@[simp] theorem erase_D (s : Str) : erase (D s) = s := by
  induction s with
  | nil => rfl
  | cons c s ih => simp [erase] at ih ⊢; exact ih
@[simp] theorem docChars_nil : docChars [] = [] := rfl
@[simp] theorem docChars_append (a b : TStr) : docChars (a ++ b) = docChars a ++ docChars b := by
  simp [docChars]
@[simp] theorem docChars_P (s : Str) : docChars (P s) = [] := by
  induction s with
  | nil => rfl
  | cons c s ih => simp [docChars] at ih ⊢; exact ih
@[simp] theorem docChars_D (s : Str) : docChars (D s) = s := by
  induction s with
  | nil => rfl
  | cons c s ih => simp [docChars] at ih ⊢; exact ih

theorem erase_tInter (sep : TStr) (xs : List TStr) :
    erase (tInter sep xs) = Str.intercalate (erase sep) (xs.map erase) := by
  induction xs with
  | nil => rfl
  | cons x xs ih =>
    cases xs with
    | nil => simp [tInter, Str.intercalate]
    | cons y ys => simp [tInter, Str.intercalate] at ih ⊢; rw [ih]

theorem erase_flatMap {α} (f : α → TStr) (xs : List α) :
    erase (xs.flatMap f) = xs.flatMap fun x => erase (f x) := by
  induction xs with
  | nil => rfl
  | cons x xs ih => simp [List.flatMap_cons, ih]

theorem docChars_flatMap {α} (f : α → TStr) (xs : List α) :
    docChars (xs.flatMap f) = xs.flatMap fun x => docChars (f x) := by
  induction xs with
  | nil => rfl
  | cons x xs ih => simp [List.flatMap_cons, ih]

/-- `a ⊔ b ⊔ c ⊔` as a flat map -/
theorem tInter_append_sep (sep : TStr) (xs : List TStr) (h : xs ≠ []) :
    tInter sep xs ++ sep = xs.flatMap fun x => x ++ sep := by
  induction xs with
  | nil => exact absurd rfl h
  | cons x xs ih =>
    cases xs with
    | nil => simp [tInter]
    | cons y ys =>
      have := ih (by simp)
      simp only [tInter, List.flatMap_cons, List.append_assoc] at this ⊢
      rw [this]

/-- `⊔ a ⊔ b ⊔ c` as a flat map -/
theorem sep_append_tInter (sep : TStr) (xs : List TStr) (h : xs ≠ []) :
    sep ++ tInter sep xs = xs.flatMap fun x => sep ++ x := by
  induction xs with
  | nil => exact absurd rfl h
  | cons x xs ih =>
    cases xs with
    | nil => simp [tInter]
    | cons y ys =>
      have := ih (by simp)
      simp only [tInter, List.flatMap_cons, List.append_assoc] at this ⊢
      rw [this]

/-! ## 2. running a lexer -/

section run
variable {σ : Type} (step : σ → Char → σ) (inC : σ → Bool)

theorem final_append (s : σ) (a b : TStr) :
    final step s (a ++ b) = final step (final step s a) b := by
  induction a generalizing s with
  | nil => rfl
  | cons x a ih => obtain ⟨c, d⟩ := x; simp [final, ih]

theorem okOn_append (s : σ) (a b : TStr) :
    okOn step inC s (a ++ b) = (okOn step inC s a && okOn step inC (final step s a) b) := by
  induction a generalizing s with
  | nil => simp [okOn, final]
  | cons x a ih => obtain ⟨c, d⟩ := x; simp [okOn, final, ih, Bool.and_assoc]

@[simp] theorem okOn_P (s : σ) (x : Str) : okOn step inC s (P x) = true := by
  induction x generalizing s with
  | nil => rfl
  | cons c x ih => simp [okOn, ih]

@[simp] theorem final_P (s : σ) (x : Str) : final step s (P x) = x.foldl step s := by
  induction x generalizing s with
  | nil => rfl
  | cons c x ih => simp [final, ih]

@[simp] theorem final_D (s : σ) (x : Str) : final step s (D x) = x.foldl step s := by
  induction x generalizing s with
  | nil => rfl
  | cons c x ih => simp [final, ih]

/-- a block `entries ++ suffix` read from a state satisfying the invariant `I`: it is contained
exactly when no entry is bad, provided each entry is fine exactly when it is not bad, a good entry
re-establishes `I`, and the suffix leads from `I` back to `code` -/
theorem run_flatMap [DecidableEq σ] (I : σ → Prop) (ET : Str → TStr) (bad : Str → Bool)
    (suffix : TStr) (code : σ)
    (h1 : ∀ s c, I s → okOn step inC s (ET c) = !bad c)
    (h2 : ∀ s c, I s → bad c = false → I (final step s (ET c)))
    (h3 : ∀ s, I s → okOn step inC s suffix = true ∧ final step s suffix = code)
    (cs : List Str) (s : σ) (hs : I s) :
    (okOn step inC s (cs.flatMap ET ++ suffix) && (final step s (cs.flatMap ET ++ suffix) == code))
      = cs.all fun c => !bad c := by
  induction cs generalizing s with
  | nil => simp [h3 s hs]
  | cons c cs ih =>
    have e : (c :: cs).flatMap ET ++ suffix = ET c ++ (cs.flatMap ET ++ suffix) := by simp
    rw [e, okOn_append, final_append, List.all_cons, h1 s c hs]
    cases hb : bad c with
    | true => simp
    | false => simpa using ih _ (h2 s c hs hb)

/-- the same with a printer-written prefix in front -/
theorem run_block [DecidableEq σ] (I : σ → Prop) (ET : Str → TStr) (bad : Str → Bool)
    (pre : Str) (suffix : TStr) (code : σ)
    (h0 : I (pre.foldl step code))
    (h1 : ∀ s c, I s → okOn step inC s (ET c) = !bad c)
    (h2 : ∀ s c, I s → bad c = false → I (final step s (ET c)))
    (h3 : ∀ s, I s → okOn step inC s suffix = true ∧ final step s suffix = code)
    (cs : List Str) :
    containedIn step inC code (P pre ++ (cs.flatMap ET ++ suffix)) = cs.all fun c => !bad c := by
  unfold containedIn
  rw [okOn_append, final_append, okOn_P, final_P, Bool.true_and]
  exact run_flatMap step inC I ET bad suffix code h1 h2 h3 cs _ h0
end run

/-! ## 3a. line comments -/

theorem foldl_tabs_code (S : CSyntax) (n : Nat) : (tabs n).foldl (cStep S) .code = .code := by
  induction n with
  | zero => rfl
  | succ n ih => simpa [tabs, List.replicate_succ, cStep] using ih

theorem line_okOn (S : CSyntax) (c : Str) :
    okOn (cStep S) CSt.inComment .line (D c) = !c.any S.eol := by
  induction c with
  | nil => rfl
  | cons x t ih =>
    cases h : S.eol x <;> simp [okOn, cStep, h, CSt.inComment, ih]

theorem line_foldl (S : CSyntax) (c : Str) (h : c.any S.eol = false) :
    c.foldl (cStep S) .line = .line := by
  induction c with
  | nil => rfl
  | cons x t ih =>
    simp only [List.any_cons, Bool.or_eq_false_iff] at h
    simp [cStep, h.1, ih h.2]

/-- one `<tabs><pre><doc>\n` line -/
def lineEntry (n : Nat) (pre : Str) (w : Str → Str) (c : Str) : TStr :=
  P (tabs n ++ pre) ++ D (w c) ++ P nl

theorem contained_lines (S : CSyntax) (n : Nat) (pre : Str) (w : Str → Str)
    (hpre : pre.foldl (cStep S) .code = .line) (hnl : S.eol '\n' = true) (cs : List Str) :
    containedIn (cStep S) CSt.inComment .code (cs.flatMap (lineEntry n pre w))
      = cs.all fun c => !(w c).any S.eol := by
  have h := run_block (cStep S) CSt.inComment (fun s => s = .code) (lineEntry n pre w)
    (fun c => (w c).any S.eol) [] [] CSt.code rfl
    (by
      rintro s c rfl
      simp [lineEntry, okOn_append, foldl_tabs_code, hpre, line_okOn])
    (by
      rintro s c rfl hb
      simp [lineEntry, final_append, foldl_tabs_code, hpre, line_foldl S _ hb, nl, final, cStep, hnl])
    (by rintro s rfl; exact ⟨rfl, rfl⟩) cs
  simpa using h

/-! ## 3b. TypeScript block comments -/

/-- inside the (outermost) block comment -/
def InBlock (s : CSt) : Prop := s = .block 0 ∨ s = .blockStar 0

theorem tsSyntax_nest : tsSyntax.nest = false := rfl

theorem tsDoc_okOn (c : Str) :
    okOn (cStep tsSyntax) CSt.inComment (.block 0) (D c) = !Str.containsSub c s%"*/" ∧
    okOn (cStep tsSyntax) CSt.inComment (.blockStar 0) (D c)
      = !(Str.startsWith c s%"/" || Str.containsSub c s%"*/") := by
  induction c with
  | nil => simp [okOn, Str.containsSub, Str.startsWith]
  | cons x t ih =>
    obtain ⟨ih1, ih2⟩ := ih
    by_cases hs : x = '*'
    · subst hs
      simp [okOn, cStep, CSt.inComment, Str.containsSub, Str.startsWith, ih2]
    · by_cases hl : x = '/'
      · subst hl
        simp [okOn, cStep, CSt.inComment, Str.containsSub, Str.startsWith, ih1, tsSyntax_nest]
      · have hs' : (x == '*') = false := by simpa using hs
        have hl' : (x == '/') = false := by simpa using hl
        simp [okOn, cStep, CSt.inComment, Str.containsSub, Str.startsWith, ih1, tsSyntax_nest, hs, hl, hs', hl']

theorem tsDoc_final (c : Str) : ∀ s, InBlock s → okOn (cStep tsSyntax) CSt.inComment s (D c) = true →
    InBlock (c.foldl (cStep tsSyntax) s) := by
  induction c with
  | nil => intro s hs _; exact hs
  | cons x t ih =>
    intro s hs hok
    simp only [D_cons, okOn, Bool.not_true, Bool.false_or, Bool.and_eq_true] at hok
    refine ih _ ?_ hok.2
    rcases hs with rfl | rfl
    · by_cases hx : x = '*' <;> simp [cStep, hx, tsSyntax_nest, InBlock]
    · by_cases hx : x = '/'
      · subst hx; simp [cStep, CSt.inComment] at hok
      · by_cases hx' : x = '*' <;> simp [cStep, hx, hx', InBlock]

theorem foldl_tabs_block (n : Nat) : (tabs n).foldl (cStep tsSyntax) (.block 0) = .block 0 := by
  induction n with
  | zero => rfl
  | succ n ih => simpa [tabs, List.replicate_succ, cStep, tsSyntax_nest] using ih


theorem ts_block (pre sepS suf : Str)
    (hpre : InBlock (pre.foldl (cStep tsSyntax) .code))
    (hsep : ∀ s, InBlock s → sepS.foldl (cStep tsSyntax) s = .block 0)
    (hsuf : ∀ s, InBlock s → suf.foldl (cStep tsSyntax) s = .code) (cs : List Str) :
    containedIn (cStep tsSyntax) CSt.inComment .code
        (P pre ++ (cs.flatMap (fun c => P sepS ++ D c) ++ P suf))
      = cs.all fun c => !Str.containsSub c s%"*/" :=
  run_block _ _ InBlock _ (fun c => Str.containsSub c s%"*/") pre (P suf) .code hpre
    (by intro s c hs; simp [okOn_append, hsep s hs, (tsDoc_okOn c).1])
    (by
      intro s c hs hb
      simp only [final_append, final_P, final_D, hsep s hs]
      exact tsDoc_final c _ (Or.inl rfl) (by simp [(tsDoc_okOn c).1, hb]))
    (by intro s hs; simp [hsuf s hs]) cs

theorem flatMap_map' {α β γ} (f : α → β) (g : β → List γ) (l : List α) :
    (l.map f).flatMap g = l.flatMap fun x => g (f x) := by
  induction l with
  | nil => rfl
  | cons x l ih => simp [List.flatMap_cons, ih]

theorem contained_ts (U : UnicodeOps) (n : Nat) (cs : List Str) :
    contained .typescript U n cs = cs.all fun c => !Bad .typescript U c := by
  have hsp : ∀ s, InBlock s → (s%" ").foldl (cStep tsSyntax) s = .block 0 := by
    rintro s (rfl | rfl) <;> simp [cStep, tsSyntax_nest]
  have hsep : ∀ s, InBlock s → (nl ++ tabs n ++ s%" * ").foldl (cStep tsSyntax) s = .block 0 := by
    rintro s (rfl | rfl) <;>
      simp [nl, List.foldl_append, cStep, tsSyntax_nest, foldl_tabs_block]
  have hpre : InBlock ((tabs n ++ s%"/**").foldl (cStep tsSyntax) .code) := by
    simp [List.foldl_append, foldl_tabs_code, cStep, InBlock]
  show containedIn _ _ _ (renderT .typescript U n cs) = cs.all fun c => !Str.containsSub c s%"*/"
  match cs with
  | [] => rfl
  | [c] =>
    have e : renderT .typescript U n [c]
        = P (tabs n ++ s%"/**") ++ ([c].flatMap (fun c => P s%" " ++ D c) ++ P (s%" */" ++ nl)) := by
      simp [renderT]
    rw [e]
    exact ts_block _ _ _ hpre hsp (by
      rintro s (rfl | rfl) <;> simp [nl, cStep, tsSyntax_nest]) _
  | c1 :: c2 :: r =>
    have e : renderT .typescript U n (c1 :: c2 :: r)
        = P (tabs n ++ s%"/**") ++ ((c1 :: c2 :: r).flatMap (fun c => P (nl ++ tabs n ++ s%" * ") ++ D c)
            ++ P (nl ++ tabs n ++ s%" */" ++ nl)) := by
      have := sep_append_tInter (P (nl ++ tabs n ++ s%" * ")) ((c1 :: c2 :: r).map D) (by simp)
      rw [flatMap_map'] at this
      rw [← this]
      simp [renderT, nl]
    rw [e]
    exact ts_block _ _ _ hpre hsep (by
      rintro s (rfl | rfl) <;>
        simp [nl, List.foldl_append, cStep, tsSyntax_nest, foldl_tabs_block]) _


/-! ## 3c. Python -/

theorem okOn_D_cons {σ : Type} (step : σ → Char → σ) (inC : σ → Bool) (s : σ) (x : Char) (t : Str) :
    okOn step inC s (D (x :: t)) = ((inC s && inC (step s x)) && okOn step inC (step s x) (D t)) := by
  simp [okOn]

/-- inside the docstring -/
def InDoc (s : PSt) : Prop := s = .long '"' ∨ s = .longEsc '"' ∨ s = .longQ1 '"' ∨ s = .longQ2 '"'

theorem startsWith_q2_q1 (t : Str) (b : Bool) :
    (Str.startsWith t s%"\"" || (Str.startsWith t s%"\"\"" || b)) = (Str.startsWith t s%"\"" || b) := by
  cases t with
  | nil => simp [Str.startsWith]
  | cons y t' => cases hy : (y == '"') <;> simp [Str.startsWith, hy]

theorem pyDoc_okOn (c : Str) :
    okOn pyStep PSt.inComment (.long '"') (D c) = !unescapedTripleQuote false c ∧
    okOn pyStep PSt.inComment (.longEsc '"') (D c) = !unescapedTripleQuote true c ∧
    okOn pyStep PSt.inComment (.longQ1 '"') (D c)
      = !(Str.startsWith c s%"\"\"" || unescapedTripleQuote false c) ∧
    okOn pyStep PSt.inComment (.longQ2 '"') (D c)
      = !(Str.startsWith c s%"\"" || unescapedTripleQuote false c) := by
  induction c with
  | nil => simp [okOn, unescapedTripleQuote, Str.startsWith]
  | cons x t ih =>
    obtain ⟨ih0, ihE, ih1, ih2⟩ := ih
    simp only [okOn_D_cons]
    by_cases hq : x = '"'
    · subst hq
      refine ⟨?_, ?_, ?_, ?_⟩
      · simp [pyStep, PSt.inComment, unescapedTripleQuote, Str.startsWith, ih1]
      · simp [pyStep, PSt.inComment, unescapedTripleQuote, ih0]
      · simp [pyStep, PSt.inComment, unescapedTripleQuote, Str.startsWith, ih2, startsWith_q2_q1]
      · simp [pyStep, PSt.inComment, unescapedTripleQuote, Str.startsWith]
    · have hq' : (x == '"') = false := by simpa using hq
      by_cases hb : x = '\\'
      · subst hb
        simp [pyStep, PSt.inComment, unescapedTripleQuote, Str.startsWith, ihE, ih0]
      · simp [pyStep, PSt.inComment, unescapedTripleQuote, Str.startsWith, ih0, hq, hq', hb]

theorem pyDoc_final (c : Str) : ∀ s, InDoc s → okOn pyStep PSt.inComment s (D c) = true →
    InDoc (c.foldl pyStep s) := by
  induction c with
  | nil => intro s hs _; exact hs
  | cons x t ih =>
    intro s hs hok
    rw [okOn_D_cons] at hok
    simp only [Bool.and_eq_true] at hok
    refine ih _ ?_ hok.2
    have h2 := hok.1.2
    rcases hs with rfl | rfl | rfl | rfl
    · by_cases hx : x = '"'
      · simp [pyStep, hx, InDoc]
      · by_cases hx' : x = '\\' <;> simp [pyStep, hx, hx', InDoc]
    · simp [pyStep, InDoc]
    · by_cases hx : x = '"'
      · simp [pyStep, hx, InDoc]
      · by_cases hx' : x = '\\' <;> simp [pyStep, hx, hx', InDoc]
    · by_cases hx : x = '"'
      · subst hx; simp [pyStep, PSt.inComment] at h2
      · by_cases hx' : x = '\\' <;> simp [pyStep, hx, hx', InDoc]

theorem foldl_indent (s : PSt) (hs : s = .code ∨ s = .long '"' ∨ s = .hash) (n : Nat) :
    (Python.indent n).foldl pyStep s = s := by
  induction n with
  | zero => rfl
  | succ n ih =>
    have : Python.indent (n + 1) = s%"    " ++ Python.indent n := by
      simp [Python.indent, List.replicate_succ]
    rw [this, List.foldl_append]
    rcases hs with rfl | rfl | rfl <;> simpa [pyStep, pyFromCode, pyEol] using ih

theorem hash_okOn (c : Str) : okOn pyStep PSt.inComment .hash (D c) = !c.any pyEol := by
  induction c with
  | nil => rfl
  | cons x t ih =>
    cases h : pyEol x <;> simp [okOn, pyStep, h, PSt.inComment, ih]

theorem hash_foldl (c : Str) (h : c.any pyEol = false) : c.foldl pyStep .hash = .hash := by
  induction c with
  | nil => rfl
  | cons x t ih =>
    simp only [List.any_cons, Bool.or_eq_false_iff] at h
    simp [pyStep, h.1, ih h.2]


/-! ## 4. the renderers -/

theorem contained_pyDoc (U : UnicodeOps) (n : Nat) (cs : List Str) :
    contained .pyDoc U n cs = cs.all fun c => !Bad .pyDoc U c := by
  show containedIn _ _ _ (renderT .pyDoc U n cs) = cs.all fun c => !unescapedTripleQuote false c
  match cs with
  | [] => rfl
  | c1 :: r =>
    have e : renderT .pyDoc U n (c1 :: r)
        = P (Python.indent n ++ s%"\"\"\"\n") ++
          ((c1 :: r).flatMap (fun c => P (Python.indent n) ++ D c ++ P nl)
            ++ P (Python.indent n ++ s%"\"\"\"" ++ nl)) := by
      have := tInter_append_sep (P nl) ((c1 :: r).map fun c => P (Python.indent n) ++ D c) (by simp)
      rw [flatMap_map'] at this
      rw [← this]
      simp [renderT]
    rw [e]
    refine run_block _ _ (fun s => s = PSt.long '"') _ (fun c => unescapedTripleQuote false c) _ _ PSt.code
      ?_ ?_ ?_ ?_ _
    · simp [List.foldl_append, foldl_indent, pyStep, pyFromCode]
    · rintro s c rfl
      simp [okOn_append, foldl_indent, (pyDoc_okOn c).1]
    · rintro s c rfl hb
      have h := pyDoc_final c _ (Or.inl rfl) (by simp [(pyDoc_okOn c).1, hb])
      simp only [final_append, final_P, final_D, foldl_indent _ (Or.inr (Or.inl rfl))]
      rcases h with h | h | h | h <;> simp [h, nl, pyStep]
    · rintro s rfl
      simp [okOn_append, final_append, okOn, final, foldl_indent, pyStep, pyFromCode, nl]

theorem contained_pyHash (U : UnicodeOps) (n : Nat) (cs : List Str) :
    contained .pyHash U n cs = cs.all fun c => !Bad .pyHash U c := by
  show containedIn _ _ _ (renderT .pyHash U n cs) = cs.all fun c => !c.any pyEol
  match cs with
  | [] => rfl
  | c1 :: r =>
    have e : renderT .pyHash U n (c1 :: r)
        = P [] ++ ((c1 :: r).flatMap (fun c => P (Python.indent n ++ s%"# ") ++ D c ++ P nl) ++ []) := by
      have := tInter_append_sep (P nl) ((c1 :: r).map fun c => P (Python.indent n ++ s%"# ") ++ D c) (by simp)
      rw [flatMap_map'] at this
      rw [← this]
      simp [renderT]
    rw [e]
    refine run_block _ _ (fun s => s = PSt.code) _ (fun c => c.any pyEol) _ _ PSt.code rfl ?_ ?_ ?_ _
    · rintro s c rfl
      have hsp : pyEol ' ' = false := by decide
      simp [okOn_append, okOn, foldl_indent, pyStep, pyFromCode, hash_okOn, hsp]
    · rintro s c rfl hb
      have hsp : pyEol ' ' = false := by decide
      have hnl : pyEol '\n' = true := by decide
      simp [final_append, final, foldl_indent, pyStep, pyFromCode, hash_foldl c hb, nl, hsp, hnl]
    · rintro s rfl; exact ⟨rfl, rfl⟩

theorem contained_kotlin (U : UnicodeOps) (n : Nat) (cs : List Str) :
    contained .kotlin U n cs = cs.all fun c => !Bad .kotlin U c :=
  contained_lines kotlinSyntax n s%"/// " id (by decide) (by decide) cs

theorem contained_swift (U : UnicodeOps) (n : Nat) (cs : List Str) :
    contained .swift U n cs = cs.all fun c => !Bad .swift U c :=
  contained_lines swiftSyntax n s%"/// " (Swift.trimEnd U) (by decide) (by decide) cs

theorem contained_scala (U : UnicodeOps) (n : Nat) (cs : List Str) :
    contained .scala U n cs = cs.all fun c => !Bad .scala U c :=
  contained_lines scalaSyntax n s%"// " id (by decide) (by decide) cs

theorem contained_go (U : UnicodeOps) (n : Nat) (cs : List Str) :
    contained .go U n cs = cs.all fun c => !Bad .go U c :=
  contained_lines goSyntax n s%"// " id (by decide) (by decide) cs

/-- the exact characterisation, all seven renderers -/
theorem contained_eq (sty : Style) (U : UnicodeOps) (n : Nat) (cs : List Str) :
    contained sty U n cs = cs.all fun c => !Bad sty U c := by
  cases sty
  · exact contained_ts U n cs
  · exact contained_kotlin U n cs
  · exact contained_swift U n cs
  · exact contained_scala U n cs
  · exact contained_go U n cs
  · exact contained_pyDoc U n cs
  · exact contained_pyHash U n cs


/-! ## 5. the tagged renderers are the model's renderers -/

@[simp] theorem erase_cons (c : Char) (d : Bool) (t : TStr) : erase ((c, d) :: t) = c :: erase t := rfl
@[simp] theorem docChars_cons_false (c : Char) (t : TStr) : docChars ((c, false) :: t) = docChars t := rfl
@[simp] theorem docChars_cons_true (c : Char) (t : TStr) : docChars ((c, true) :: t) = c :: docChars t := rfl

theorem written_fun (sty : Style) (U : UnicodeOps) :
    written sty U = if sty = .swift then Swift.trimEnd U else id := by
  funext c; cases sty <;> rfl

theorem docChars_tInter (sep : TStr) (h : docChars sep = []) (xs : List TStr) :
    docChars (tInter sep xs) = xs.flatMap docChars := by
  induction xs with
  | nil => rfl
  | cons x xs ih =>
    cases xs with
    | nil => simp [tInter]
    | cons y ys => simp [tInter, h] at ih ⊢; rw [ih]

theorem map_erase_D (cs : List Str) : (cs.map D).map erase = cs := by
  induction cs with
  | nil => rfl
  | cons c cs ih => simp at ih ⊢; exact ih

/-- forgetting the tags gives exactly the text the back-end model writes -/
theorem erase_renderT (sty : Style) (U : UnicodeOps) (n : Nat) (cs : List Str) :
    erase (renderT sty U n cs) = render sty U n cs := by
  cases sty
  · match cs with
    | [] => rfl
    | [c] => simp [renderT, render, TypeScript.comments]
    | c1 :: c2 :: r =>
      simp [renderT, render, TypeScript.comments, erase_tInter, Function.comp_def]
  · simp [renderT, render, Kotlin.comments, erase_flatMap]
  · simp [renderT, render, Swift.comments, erase_flatMap]
  · simp [renderT, render, Scala.comments, erase_flatMap]
  · simp [renderT, render, Go.comments, erase_flatMap]
  · by_cases h : cs = []
    · subst h; rfl
    · simp [renderT, render, Python.docstring, h, erase_tInter, Function.comp_def]
  · by_cases h : cs = []
    · subst h; rfl
    · simp [renderT, render, Python.hashComments, h, erase_tInter, Function.comp_def]

/-- the characters tagged as doc text are exactly the doc strings (as the printer writes them: Swift
strips trailing white space), in order -/
theorem docChars_renderT (sty : Style) (U : UnicodeOps) (n : Nat) (cs : List Str) :
    docChars (renderT sty U n cs) = cs.flatMap (written sty U) := by
  cases sty
  · match cs with
    | [] => rfl
    | [c] => simp [renderT, written]
    | c1 :: c2 :: r =>
      simp [renderT, written_fun, docChars_tInter, flatMap_map']
  · simp [renderT, written_fun, docChars_flatMap]
  · simp [renderT, written_fun, docChars_flatMap]
  · simp [renderT, written_fun, docChars_flatMap]
  · simp [renderT, written_fun, docChars_flatMap]
  · by_cases h : cs = []
    · subst h; rfl
    · simp [renderT, written_fun, h, docChars_tInter, flatMap_map']
  · by_cases h : cs = []
    · subst h; rfl
    · simp [renderT, written_fun, h, docChars_tInter, flatMap_map']


/-! ## 6. reading `Bad` for Python docstrings -/

theorem unescaped_imp_contains (c : Str) : ∀ b, unescapedTripleQuote b c = true →
    Str.containsSub c s%"\"\"\"" = true := by
  induction c with
  | nil => intro b h; simp [unescapedTripleQuote] at h
  | cons x t ih =>
    intro b h
    cases b with
    | true =>
      simp only [unescapedTripleQuote] at h
      simp [Str.containsSub, ih _ h]
    | false =>
      simp only [unescapedTripleQuote] at h
      by_cases hx : x = '\\'
      · simp only [hx, if_true] at h
        simp [Str.containsSub, ih _ h]
      · simp only [hx, if_false, Bool.or_eq_true] at h
        rcases h with h | h
        · simp [Str.containsSub, h]
        · simp [Str.containsSub, ih _ h]

theorem unescaped_eq_contains (c : Str) (h : ∀ x ∈ c, x ≠ '\\') :
    unescapedTripleQuote false c = Str.containsSub c s%"\"\"\"" := by
  induction c with
  | nil => rfl
  | cons x t ih =>
    have hx : x ≠ '\\' := h x (by simp)
    have ht := ih fun y hy => h y (by simp [hy])
    simp [unescapedTripleQuote, hx, Str.containsSub, ht]

/-! ## 7. a contained block is transparent for the text that follows -/

theorem containedIn_final {σ : Type} [DecidableEq σ] (step : σ → Char → σ) (inC : σ → Bool) (code : σ)
    (t : TStr) (h : containedIn step inC code t = true) : final step code t = code := by
  simp only [containedIn, Bool.and_eq_true, beq_iff_eq] at h
  exact h.2

theorem final_eq_foldl {σ : Type} (step : σ → Char → σ) (s : σ) (t : TStr) :
    final step s t = (erase t).foldl step s := by
  induction t generalizing s with
  | nil => rfl
  | cons x t ih => obtain ⟨c, d⟩ := x; simp [final, ih]


end TsV.C15
