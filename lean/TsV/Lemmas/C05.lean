import TsV.Model.Generate
import TsV.Lemmas.Outcome
/-!
# C05 — definitions: the target-side type tree, the structural translation, its rendering

`translate L c gens` is defined by structural recursion on the *shape* of the Rust type only; the
six `formatType` functions of the back-end models are proved equal to `show L ∘ translate L`
(text component) in `TsV.Lemmas.C05_Langs`.
-/
namespace TsV.C05L
open TsV TsV.Lang

/-- a target-side type expression -/
inductive TTy where
  | prim (name : Str)                    -- the target's built-in for a Rust primitive
  | seq (t : TTy)                        -- the target's sequence
  | fixedSeq (t : TTy) (n : Nat)         -- a sequence of statically known length (TypeScript tuple, Go array)
  | map (k v : TTy)                      -- the target's map
  | opt (t : TTy)                        -- the target's optional
  | user (name : Str) (args : List TTy)  -- a user type (name as printed, prefix included) with its arguments
  | param (name : Str)                   -- a generic parameter of the enclosing declaration
  | mapped (name : Str)                  -- the right-hand side of a configured type mapping
deriving Repr, Inhabited

/-- the part of a back-end configuration the type level depends on -/
structure TCfg where
  typeMappings : List (Str × Str) := []
  pfx : Str := []                 -- Kotlin / Swift `prefix`
  noPointerSlice : Bool := false  -- Go `no_pointer_slice`

/-- back ends whose `format_special_type` looks the special type up in the type mappings (by `Display`) -/
def usesDisplay : TsV.Lang → Bool
  | .typescript | .go | .python => true
  | _ => false

/-- back ends that prefix user type names -/
def prefixes : TsV.Lang → Bool
  | .kotlin | .swift => true
  | _ => false

/-- back ends with a fixed-length sequence type -/
def hasFixed : TsV.Lang → Bool
  | .typescript | .go => true
  | _ => false

/-- back ends that refuse a generic parameter as a map key -/
def genericKeyForbidden : TsV.Lang → Bool
  | .typescript | .python => true
  | _ => false

/-- the name a type is looked up by in the type mappings: the identifier for user types (all six
back ends), the `Display` string for special types (TypeScript, Go, Python only) -/
def lookupKey (L : TsV.Lang) : RustType → Option Str
  | .simple id => some id
  | .generic id _ => some id
  | t => if usesDisplay L then some t.display else none

/-- the configured replacement of a type, if any -/
def lookup (L : TsV.Lang) (c : TCfg) (t : RustType) : Option Str :=
  match lookupKey L t with
  | some k => mapGet c.typeMappings k
  | none => none

/-- **the primitive table**, read off the six `format_special_type`s -/
def primTarget : TsV.Lang → Prim → Outcome Str
  | .typescript, p =>
    (match p with
    | .unit => .ok s%"undefined"
    | .dateTime => .ok s%"Date"
    | .string | .char => .ok s%"string"
    | .bool => .ok s%"boolean"
    | .i8 | .u8 | .i16 | .u16 | .i32 | .u32 | .i54 | .u53 | .f32 | .f64 => .ok s%"number"
    | .u64 | .i64 | .isize | .usize => .panic s%"typescript.rs:137")
  | .kotlin, p => Kotlin.formatPrim p
  | .swift, p =>
    (match p with
    | .unit => .ok s%"CodableVoid"
    | .string => .ok s%"String"
    | .char => .ok s%"Unicode.Scalar"
    | .i8 => .ok s%"Int8"
    | .u8 => .ok s%"UInt8"
    | .i16 => .ok s%"Int16"
    | .u16 => .ok s%"UInt16"
    | .usize => .ok s%"UInt"
    | .isize => .ok s%"Int"
    | .i32 => .ok s%"Int32"
    | .u32 => .ok s%"UInt32"
    | .i54 | .i64 => .ok s%"Int64"
    | .u53 | .u64 => .ok s%"UInt64"
    | .bool => .ok s%"Bool"
    | .f32 => .ok s%"Float"
    | .f64 => .ok s%"Double"
    | .dateTime => .err (.formatError s%"UnsupportedSpecialType"))
  | .scala, p =>
    (match p with
    | .unit => .ok s%"Unit"
    | .string | .char => .ok s%"String"
    | .i8 => .ok s%"Byte"
    | .i16 => .ok s%"Short"
    | .isize | .i32 => .ok s%"Int"
    | .i54 | .i64 => .ok s%"Long"
    | .u8 => .ok s%"UByte"
    | .u16 => .ok s%"UShort"
    | .usize | .u32 => .ok s%"UInt"
    | .u53 | .u64 => .ok s%"ULong"
    | .bool => .ok s%"Boolean"
    | .f32 => .ok s%"Float"
    | .f64 => .ok s%"Double"
    | .dateTime => .err (.formatError s%"UnsupportedSpecialType"))
  | .go, p => .ok (Go.primType p).1
  | .python, p =>
    (match p with
    | .dateTime => .ok s%"datetime"
    | .unit => .ok s%"None"
    | .string | .char => .ok s%"str"
    | .i8 | .u8 | .i16 | .u16 | .i32 | .u32 | .i54 | .u53 | .u64 | .i64 | .isize | .usize => .ok s%"int"
    | .f32 | .f64 => .ok s%"float"
    | .bool => .ok s%"bool")

/-- the printed name of a (non-mapped) user type: prefixed in Kotlin and Swift unless the name is
a generic parameter of the enclosing declaration -/
def userName (L : TsV.Lang) (c : TCfg) (gens : List Str) (id : Str) : Str :=
  if prefixes L && !gens.contains id then c.pfx ++ id else id

/-- is the optional marker dropped at the type level?  TypeScript adds optionality above the type
(`?:` / `| undefined`, property C04); Go with `no_pointer_slice` writes `Option<Vec<T>>` as a slice -/
def dropsOption (L : TsV.Lang) (c : TCfg) (r : RustType) : Bool :=
  match L with
  | .typescript => true
  | .go => r.isVec && c.noPointerSlice
  | _ => false

/-- a map key that is a generic parameter of the enclosing declaration -/
def isGenericKey (gens : List Str) : RustType → Bool
  | .simple id => gens.contains id
  | _ => false

/-- the type-mapping prelude shared by every node: a mapped type is replaced as a whole -/
def withMap (L : TsV.Lang) (c : TCfg) (t : RustType) (k : Outcome TTy) : Outcome TTy :=
  match lookup L c t with
  | some m => .ok (.mapped m)
  | none => k

mutual
  /-- **the structural translation** -/
  def translate (L : TsV.Lang) (c : TCfg) (gens : List Str) : RustType → Outcome TTy
    | t@(.simple id) => withMap L c t
        (.ok (if gens.contains id then .param id else .user (userName L c gens id) []))
    | t@(.generic id ps) => withMap L c t
        ((translateList L c gens ps).bind fun args => .ok (.user (userName L c gens id) args))
    | t@(.vec r) => withMap L c t ((translate L c gens r).bind fun x => .ok (.seq x))
    | t@(.slice r) => withMap L c t ((translate L c gens r).bind fun x => .ok (.seq x))
    | t@(.array r n) => withMap L c t
        ((translate L c gens r).bind fun x => .ok (if hasFixed L then .fixedSeq x n else .seq x))
    | t@(.option r) => withMap L c t
        ((translate L c gens r).bind fun x => .ok (if dropsOption L c r then x else .opt x))
    | t@(.hashMap k v) => withMap L c t
        (if genericKeyForbidden L && isGenericKey gens k then .err (.formatError s%"GenericKeyForbiddenInTS")
         else (translate L c gens k).bind fun a => (translate L c gens v).bind fun b => .ok (.map a b))
    | t@(.prim p) => withMap L c t ((primTarget L p).bind fun n => .ok (.prim n))
  def translateList (L : TsV.Lang) (c : TCfg) (gens : List Str) : List RustType → Outcome (List TTy)
    | [] => .ok []
    | t :: ts =>
      (translate L c gens t).bind fun x => (translateList L c gens ts).bind fun xs => .ok (x :: xs)
end

/-! ## rendering -/

def brOpen : TsV.Lang → Str
  | .typescript | .kotlin | .swift => s%"<"
  | _ => s%"["

def brClose : TsV.Lang → Str
  | .typescript | .kotlin | .swift => s%">"
  | _ => s%"]"

mutual
  /-- the text of a target type expression -/
  def «show» (L : TsV.Lang) : TTy → Str
    | .prim n => n
    | .param n => n
    | .mapped n => n
    | .user n args =>
      n ++ (if args.isEmpty then [] else brOpen L ++ Str.intercalate s%", " (showAll L args) ++ brClose L)
    | .seq t =>
      (match L with
      | .typescript => «show» L t ++ s%"[]"
      | .kotlin => s%"List<" ++ «show» L t ++ s%">"
      | .swift => s%"[" ++ «show» L t ++ s%"]"
      | .scala => s%"Vector[" ++ «show» L t ++ s%"]"
      | .go => s%"[]" ++ «show» L t
      | .python => s%"List[" ++ «show» L t ++ s%"]")
    | .fixedSeq t n =>
      (match L with
      | .typescript => s%"[" ++ Str.intercalate s%", " (List.replicate n («show» L t)) ++ s%"]"
      | .kotlin => s%"List<" ++ «show» L t ++ s%">"
      | .swift => s%"[" ++ «show» L t ++ s%"]"
      | .scala => s%"Vector[" ++ «show» L t ++ s%"]"
      | .go => s%"[" ++ Str.natToStr n ++ s%"]" ++ «show» L t
      | .python => s%"List[" ++ «show» L t ++ s%"]")
    | .map k v =>
      (match L with
      | .typescript => s%"Record<" ++ «show» L k ++ s%", " ++ «show» L v ++ s%">"
      | .kotlin => s%"HashMap<" ++ «show» L k ++ s%", " ++ «show» L v ++ s%">"
      | .swift => s%"[" ++ «show» L k ++ s%": " ++ «show» L v ++ s%"]"
      | .scala => s%"Map[" ++ «show» L k ++ s%", " ++ «show» L v ++ s%"]"
      | .go => s%"map[" ++ «show» L k ++ s%"]" ++ «show» L v
      | .python => s%"Dict[" ++ «show» L k ++ s%", " ++ «show» L v ++ s%"]")
    | .opt t =>
      (match L with
      | .typescript => «show» L t
      | .kotlin => «show» L t ++ s%"?"
      | .swift => «show» L t ++ s%"?"
      | .scala => s%"Option[" ++ «show» L t ++ s%"]"
      | .go => s%"*" ++ «show» L t
      | .python => s%"Optional[" ++ «show» L t ++ s%"]")
  def showAll (L : TsV.Lang) : List TTy → List Str
    | [] => []
    | t :: ts => «show» L t :: showAll L ts
end

theorem showAll_eq_map (L : TsV.Lang) : ∀ ts, showAll L ts = ts.map («show» L)
  | [] => by simp [showAll]
  | t :: ts => by simp [showAll, showAll_eq_map L ts]

/-! ## `Outcome.map` -/

def omap {α β} (f : α → β) : Outcome α → Outcome β
  | .ok a => .ok (f a)
  | .err e => .err e
  | .panic s => .panic s

@[simp] theorem omap_ok {α β} (f : α → β) (a : α) : omap f (.ok a) = .ok (f a) := rfl
@[simp] theorem omap_err {α β} (f : α → β) (e) : omap f (.err e : Outcome α) = .err e := rfl
@[simp] theorem omap_panic {α β} (f : α → β) (s) : omap f (.panic s : Outcome α) = .panic s := rfl

theorem omap_bind_ok {α β γ} (x : Outcome α) (g : α → β) (f : β → γ) :
    omap f (x.bind fun a => .ok (g a)) = omap (fun a => f (g a)) x := by
  cases x <;> rfl

/-- the configuration each back end hands to the type level -/
def tcfgTS (c : TypeScript.Cfg) : TCfg := { typeMappings := c.typeMappings }
def tcfgKt (c : Kotlin.Cfg) : TCfg := { typeMappings := c.typeMappings, pfx := c.pfx }
def tcfgSw (c : Swift.Cfg) : TCfg := { typeMappings := c.typeMappings, pfx := c.pfx }
def tcfgSc (c : Scala.Cfg) : TCfg := { typeMappings := c.typeMappings }
def tcfgGo (c : Go.Cfg) : TCfg := { typeMappings := c.typeMappings, noPointerSlice := c.noPointerSlice }
def tcfgPy (c : Python.Cfg) : TCfg := { typeMappings := c.typeMappings }

end TsV.C05L
