/-!
# Model of `lib/src/integer.rs` (I54 / U53)

Rust's `u64`/`i64` values are modelled as `Int` restricted by the explicit domain predicates
`IsU64` / `IsI64`; the `truncated_type!` range check, the widening `From` impls, the narrowing
`TryFrom` impls (`value.0 as $into` is modelled as reduction modulo `2^bits`, i.e. what `as` does),
`usize_from_u53_saturated`, and conversion through an IEEE-754 double (`f64Round`: round to nearest,
ties to even, 53 significant bits; exponent range is irrelevant below 2^64).
-/
namespace TsV.Integer

def U53_MAX : Int := 9007199254740991
def I54_MAX : Int := 9007199254740991
def I54_MIN : Int := -9007199254740991

def IsU64 (n : Int) : Prop := 0 ≤ n ∧ n < 18446744073709551616
def IsI64 (n : Int) : Prop := -9223372036854775808 ≤ n ∧ n < 9223372036854775808

/-- `impl TryFrom<u64> for U53`: `if !(0..=U53_MAX).contains(&value) { Err } else { Ok }` -/
def u53TryFrom (n : Int) : Option Int :=
  if !(decide (0 ≤ n) && decide (n ≤ U53_MAX)) then none else some n

/-- `impl TryFrom<i64> for I54` -/
def i54TryFrom (n : Int) : Option Int :=
  if !(decide (I54_MIN ≤ n) && decide (n ≤ I54_MAX)) then none else some n

/-- `impl From<U53> for u64` / `From<I54> for i64` -/
def intoWide (v : Int) : Int := v

/-- `impl From<u32|u16|u8> for U53`, `From<i32|i16|i8> for I54`: `$from(value.into())` -/
def fromNarrow (v : Int) : Int := v

/-- `impl TryFrom<U53> for u{bits}`: range check then `value.0 as u{bits}` -/
def u53ToNarrow (bits : Nat) (v : Int) : Option Int :=
  if v < 0 || v > (2 : Int) ^ bits - 1 then none else some (v % (2 : Int) ^ bits)

/-- wrap an integer into the two's complement range of `bits` bits (`as i{bits}`) -/
def wrapSigned (bits : Nat) (v : Int) : Int :=
  let m := v % (2 : Int) ^ bits
  if m ≥ (2 : Int) ^ (bits - 1) then m - (2 : Int) ^ bits else m

/-- `impl TryFrom<I54> for i{bits}` -/
def i54ToNarrow (bits : Nat) (v : Int) : Option Int :=
  if v < -((2 : Int) ^ (bits - 1)) || v > (2 : Int) ^ (bits - 1) - 1 then none
  else some (wrapSigned bits v)

/-- `usize_from_u53_saturated` on a 64-bit target -/
def usizeFromU53Saturated (v : Int) : Int := min v 18446744073709551615

/-- number of binary digits of `n`, by fuel (`fuel ≥ digits`) -/
def bitLenAux : Nat → Nat → Nat
  | 0, _ => 0
  | fuel+1, n => if n = 0 then 0 else 1 + bitLenAux fuel (n / 2)

def bitLen (n : Nat) : Nat := bitLenAux 128 n

/-- nearest double to the natural number `n` (< 2^128), as an exact natural number:
keep 53 significant bits, round to nearest, ties to even. -/
def f64RoundNat (n : Nat) : Nat :=
  let e := bitLen n - 53
  let q := n / 2 ^ e
  let r := n % 2 ^ e
  let half := 2 ^ (e - 1)
  let q' := if e = 0 then q else if r > half || (r == half && q % 2 == 1) then q + 1 else q
  q' * 2 ^ e

/-- `(n as f64)` as an exact integer -/
def f64Round (n : Int) : Int :=
  if n < 0 then - (f64RoundNat n.natAbs : Int) else (f64RoundNat n.natAbs : Int)

/-- `serde_json::from_str::<U53>` on an integer literal `k` (any size): serde's `try_from = "u64"`
first needs a `u64`, then the range check. -/
def u53FromJson (k : Int) : Option Int :=
  if k < 0 || k ≥ 18446744073709551616 then none else u53TryFrom k

def i54FromJson (k : Int) : Option Int :=
  if k < -9223372036854775808 || k ≥ 9223372036854775808 then none else i54TryFrom k

end TsV.Integer
