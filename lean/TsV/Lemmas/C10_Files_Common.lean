import TsV.Lemmas.C10_Lex
import TsV.Lemmas.C10_Spec
import TsV.Lemmas.C03_Emission_Common
/-!
# C10, whole files — shared lemmas

* `wb_dropAngles`: a text that is closed when `<`/`>` are tracked as brackets is closed when they are
  not (the file-level lexer of TypeScript does not track them, the declaration-level one does);
* `Threaded` runs with a state invariant;
* `toPascal` / `toCamel` on key strings.
-/
namespace TsV.C10Files
open TsV TsV.Lang TsV.C10Lex TsV.C03E

/-! ## forgetting the angle brackets -/

def dropAngles (stk : List Char) : List Char := stk.filter (· != '<')

theorem codeStep_dropAngles {r : Bool} {stk : List Char} {c : Char} {b : St}
    (h : codeStep ⟨true, r⟩ stk c = some b) :
    codeStep ⟨false, r⟩ (dropAngles stk) c = some ⟨b.mode, dropAngles b.stack⟩ := by
  by_cases h1 : c = '/'
  · subst h1; simp [codeStep] at h ⊢; subst h; simp
  by_cases h2 : c = '"'
  · subst h2; simp [codeStep, isQuote] at h ⊢; subst h; simp
  by_cases h3 : c = '\''
  · subst h3; simp [codeStep, isQuote] at h ⊢; subst h; simp
  by_cases h4 : c = '`'
  · subst h4; cases r <;> simp [codeStep, isQuote, isOpen, opener?] at h ⊢ <;> subst h <;> simp
  by_cases h5 : c = '('
  · subst h5; cases r <;> simp [codeStep, isQuote, isOpen] at h ⊢ <;> subst h <;> simp [dropAngles]
  by_cases h6 : c = '['
  · subst h6; cases r <;> simp [codeStep, isQuote, isOpen] at h ⊢ <;> subst h <;> simp [dropAngles]
  by_cases h7 : c = '{'
  · subst h7; cases r <;> simp [codeStep, isQuote, isOpen] at h ⊢ <;> subst h <;> simp [dropAngles]
  by_cases h8 : c = '<'
  · subst h8; cases r <;> simp [codeStep, isQuote, isOpen, opener?] at h ⊢ <;> subst h <;> simp [dropAngles]
  by_cases h9 : c = ')'
  · subst h9
    cases stk with
    | nil => cases r <;> simp [codeStep, isQuote, isOpen, opener?] at h
    | cons t rest =>
      cases r <;> simp [codeStep, isQuote, isOpen, opener?] at h ⊢ <;>
        (obtain ⟨rfl, rfl⟩ := h; simp [dropAngles])
  by_cases h10 : c = ']'
  · subst h10
    cases stk with
    | nil => cases r <;> simp [codeStep, isQuote, isOpen, opener?] at h
    | cons t rest =>
      cases r <;> simp [codeStep, isQuote, isOpen, opener?] at h ⊢ <;>
        (obtain ⟨rfl, rfl⟩ := h; simp [dropAngles])
  by_cases h11 : c = '}'
  · subst h11
    cases stk with
    | nil => cases r <;> simp [codeStep, isQuote, isOpen, opener?] at h
    | cons t rest =>
      cases r <;> simp [codeStep, isQuote, isOpen, opener?] at h ⊢ <;>
        (obtain ⟨rfl, rfl⟩ := h; simp [dropAngles])
  by_cases h12 : c = '>'
  · subst h12
    cases stk with
    | nil => cases r <;> simp [codeStep, isQuote, isOpen, opener?] at h
    | cons t rest =>
      cases r <;> simp [codeStep, isQuote, isOpen, opener?] at h ⊢ <;>
        (obtain ⟨rfl, rfl⟩ := h; simp [dropAngles])
  · cases r <;> simp [codeStep, isQuote, isOpen, opener?, h1, h2, h3, h4, h5, h6, h7, h8, h9, h10, h11, h12] at h ⊢ <;>
      subst h <;> simp


theorem step_dropAngles {r : Bool} {a : St} {c : Char} {b : St} (h : step ⟨true, r⟩ a c = some b) :
    step ⟨false, r⟩ ⟨a.mode, dropAngles a.stack⟩ c = some ⟨b.mode, dropAngles b.stack⟩ := by
  cases a with | mk m s =>
  cases m <;> simp only [step] at h ⊢
  case code => exact codeStep_dropAngles h
  case slash =>
    split at h
    · cases h; simp_all
    split at h
    · cases h; simp_all
    · simp only [*, if_false]; exact codeStep_dropAngles h
  all_goals
    repeat' split at h
    all_goals first | cases h | skip
    all_goals simp_all

theorem scan_dropAngles {r : Bool} : ∀ (x : Str) (a b : St), scan ⟨true, r⟩ a x = some b →
    scan ⟨false, r⟩ ⟨a.mode, dropAngles a.stack⟩ x = some ⟨b.mode, dropAngles b.stack⟩
  | [], a, b, h => by cases h; rfl
  | c :: cs, a, b, h => by
    simp only [scan] at h ⊢
    cases hs : step ⟨true, r⟩ a c with
    | none => rw [hs] at h; cases h
    | some a' =>
      rw [hs] at h
      rw [step_dropAngles hs]
      exact scan_dropAngles cs a' b h

/-- **closed with `<`/`>` as brackets ⟹ closed without** -/
theorem wb_dropAngles {r : Bool} {x : Str} (h : wellBracketed ⟨true, r⟩ x = true) :
    wellBracketed ⟨false, r⟩ x = true := by
  have h0 : scan ⟨true, r⟩ init x = some init := by simpa [wellBracketed] using h
  have := scan_dropAngles x init init h0
  simpa [wellBracketed, init, dropAngles] using this

theorem nb_dropAngles {r : Bool} {x : Str} (h : NB ⟨true, r⟩ x) : NB ⟨false, r⟩ x :=
  nb_of_wb (wb_dropAngles h.wb)


/-! ## threaded runs with a state invariant -/

theorem Threaded.inv {σ : Type} {w : RustItem → σ → Outcome (Str × σ)} {P : σ → Prop} {Q : Str → Prop}
    {items : List RustItem} {st : σ} {blocks : List Str} {st' : σ}
    (h : Threaded w items st blocks st') (h0 : P st)
    (hstep : ∀ it ∈ items, ∀ s b s', P s → w it s = .ok (b, s') → Q b ∧ P s') :
    (∀ b ∈ blocks, Q b) ∧ P st' := by
  induction h with
  | nil => exact ⟨by simp, h0⟩
  | cons hw _ ih =>
    obtain ⟨hq, hp⟩ := hstep _ (by simp) _ _ _ h0 hw
    obtain ⟨hqs, hp'⟩ := ih hp (fun it hit => hstep it (by simp [hit]))
    refine ⟨?_, hp'⟩
    intro b hb
    rcases List.mem_cons.1 hb with rfl | hb
    · exact hq
    · exact hqs b hb

/-- the items `generate_types` writes are the items of the parsed data -/
theorem mem_of_generateOrder {d : ParsedData} {items : List RustItem} (h : Pipeline.generateOrder d = some items)
    {it : RustItem} (hit : it ∈ items) : it ∈ TsV.C12L.itemsOf d :=
  (TsV.C12L.generateOrder_perm d items h).subset hit


/-! ## case conversions on key strings -/

theorem keyChar_upper (c : Char) (h : keyChar c = true) : keyChar (Str.asciiUpper c) = true := by
  simp only [keyChar, Bool.or_eq_true, beq_iff_eq] at h ⊢
  rcases h with h | h
  · exact .inl (identChar_upper c h)
  · subst h; exact .inr rfl
theorem keyChar_lower (c : Char) (h : keyChar c = true) : keyChar (Str.asciiLower c) = true := by
  simp only [keyChar, Bool.or_eq_true, beq_iff_eq] at h ⊢
  rcases h with h | h
  · exact .inl (identChar_lower c h)
  · subst h; exact .inr rfl

theorem pascalGo_key (b : Bool) : ∀ (cap : Bool) (s : Str), KeyStr s → KeyStr (Rename.pascalGo b cap s)
  | _, [], _ => by intro c hc; simp [Rename.pascalGo] at hc
  | cap, ch :: rest, h => by
    have hch := h ch (by simp)
    have hrest : KeyStr rest := fun d hd => h d (by simp [hd])
    simp only [Rename.pascalGo]
    split
    · exact pascalGo_key b true rest hrest
    · split
      · intro c hc
        simp only [List.mem_cons] at hc
        rcases hc with rfl | hc
        · exact keyChar_upper ch hch
        · exact pascalGo_key b false rest hrest c hc
      · intro c hc
        simp only [List.mem_cons] at hc
        rcases hc with rfl | hc
        · split
          · exact keyChar_lower ch hch
          · exact hch
        · exact pascalGo_key b false rest hrest c hc

theorem toPascal_key {U : UnicodeOps} {s : Str} (h : KeyStr s) : KeyStr (Rename.toPascal U s) := pascalGo_key _ _ s h

theorem toCamel_key {U : UnicodeOps} {s : Str} (h : KeyStr s) : KeyStr (Rename.toCamel U s) := by
  have hp := toPascal_key (U := U) h
  unfold Rename.toCamel
  cases hq : Rename.toPascal U s with
  | nil => intro c hc; simp [Rename.lowerFirst] at hc
  | cons c t =>
    rw [hq] at hp
    intro d hd
    simp only [Rename.lowerFirst, List.mem_cons] at hd
    rcases hd with rfl | hd
    · exact keyChar_lower c (hp c (by simp))
    · exact hp d (by simp [hd])

/-- the struct variants of an in-scope enum -/
theorem structVariants_scope {L : Lang} {lx : LexCfg} {D : List Str → Prop} (e : RustEnum) (he : EnumScope L lx D e) :
    ∀ p ∈ structVariants e, IdentStr p.1.original ∧ ∀ f ∈ p.2, FieldScope L lx D f := by
  intro p hp
  simp only [structVariants, List.mem_filterMap] at hp
  obtain ⟨v, hv, hsome⟩ := hp
  have hvo := he.variants v hv
  cases v with
  | unit _ _ => simp at hsome
  | tuple _ _ _ => simp at hsome
  | anonymousStruct vid cs fs =>
    simp only [Option.some.injEq] at hsome
    subst hsome
    exact ⟨hvo.2.1, hvo.2.2.2⟩

/-- the generic parameters of a synthesised struct are among the enum's -/
theorem anonymousStruct_generics (e : RustEnum) (n vo : Str) (fs : List RustField) :
    ∀ g ∈ (anonymousStruct e n vo fs).genericTypes, g ∈ e.genericTypes := by
  intro g hg
  simp only [anonymousStruct] at hg
  have := List.mem_eraseDups.mp hg
  simp only [List.mem_flatMap, List.mem_filter] at this
  obtain ⟨_, _, h, _⟩ := this
  exact h

/-- the doc line of a synthesised struct has no line break -/
theorem anonymousStruct_docs (e : RustEnum) (n vo : Str) (fs : List RustField) (h1 : IdentStr vo)
    (h2 : IdentStr e.id.original) : ∀ c ∈ (anonymousStruct e n vo fs).comments, '\n' ∉ c := by
  intro d hdm
  simp only [anonymousStruct, List.mem_singleton] at hdm
  subst hdm
  have h1 : '\n' ∉ vo := KeyStr.no_nl (IdentStr.key h1)
  have h2 : '\n' ∉ e.id.original := KeyStr.no_nl (IdentStr.key h2)
  simp [h1, h2]


/-! ## the scope predicates are decidable (given a decidable doc-comment condition) -/

section decidable
variable (L : Lang) (lx : LexCfg) (D : List Str → Prop) [∀ cs, Decidable (D cs)]

instance (f : RustField) : Decidable (FieldScope L lx D f) :=
  decidable_of_iff (D f.comments ∧ KeyStr f.id.renamed ∧ IdentStr f.id.original ∧ TypeOk f.ty ∧
      ∀ t, typeOverride f L = some t → wellBracketed lx t = true)
    ⟨fun ⟨a, b, c, d, e⟩ => ⟨a, b, c, d, e⟩, fun h => ⟨h.docs, h.key, h.original, h.ty, h.override⟩⟩

instance (s : RustStruct) : Decidable (StructScope L lx D s) :=
  decidable_of_iff (D s.comments ∧ KeyStr s.id.renamed ∧ (∀ g ∈ s.genericTypes, IdentStr g) ∧
      ∀ f ∈ s.fields, FieldScope L lx D f)
    ⟨fun ⟨a, b, c, d⟩ => ⟨a, b, c, d⟩, fun h => ⟨h.docs, h.name, h.generics, h.fields⟩⟩

instance (a : RustTypeAlias) : Decidable (AliasScope D a) :=
  decidable_of_iff (D a.comments ∧ KeyStr a.id.original ∧ KeyStr a.id.renamed ∧ (∀ g ∈ a.genericTypes, IdentStr g) ∧
      TypeOk a.ty)
    ⟨fun ⟨a, b, c, d, e⟩ => ⟨a, b, c, d, e⟩, fun h => ⟨h.docs, h.original, h.renamed, h.generics, h.ty⟩⟩

instance (v : RustEnumVariant) : Decidable (VariantScope L lx D v) := by
  cases v <;> unfold VariantScope <;> infer_instance

instance (e : RustEnum) : Decidable (EnumScope L lx D e) :=
  decidable_of_iff (D e.comments ∧ IdentStr e.id.original ∧ KeyStr e.id.renamed ∧ (∀ g ∈ e.genericTypes, IdentStr g) ∧
      (∀ v ∈ e.variants, VariantScope L lx D v) ∧ (∀ k, e.keys = some k → IdentStr k.1) ∧
      (∀ k, e.keys = some k → KeyStr k.2))
    ⟨fun ⟨a, b, c, d, e, f, g⟩ => ⟨a, b, c, d, e, f, g⟩,
     fun h => ⟨h.docs, h.original, h.renamed, h.generics, h.variants, h.tag, h.content⟩⟩

instance (c : RustConst) : Decidable (ConstScope c) :=
  decidable_of_iff (IdentStr c.id.renamed ∧ TypeOk c.ty) ⟨fun ⟨a, b⟩ => ⟨a, b⟩, fun h => ⟨h.name, h.ty⟩⟩

instance (it : RustItem) : Decidable (ItemScope L lx D it) := by
  cases it <;> unfold ItemScope <;> infer_instance

end decidable


/-! ## evaluating the ordering pass on small programs

`toposort_impl::inner` is a well-founded recursion, which `decide` does not unfold; the dependency
graph itself (`Deps.graph`, fuel-structural) does reduce. -/

/-- two items without dependencies -/
theorem topsort_pair (a b : RustItem) (h : Deps.graph [a, b] = some [[], []]) : Deps.topsort [a, b] = some [a, b] := by
  unfold Deps.topsort
  rw [h]
  have : Topsort.toposort [[], []] = some [0, 1] := by
    simp [Topsort.toposort, Topsort.inner, List.range, List.range.loop]
  simp only [Option.bind_eq_bind, Option.bind_some, this]
  rfl

/-- two items, the second depending on the first -/
theorem topsort_pair_dep (a b : RustItem) (h : Deps.graph [a, b] = some [[], [0]]) :
    Deps.topsort [a, b] = some [a, b] := by
  unfold Deps.topsort
  rw [h]
  have : Topsort.toposort [[], [0]] = some [0, 1] := by
    simp [Topsort.toposort, Topsort.inner, List.range, List.range.loop]
  simp only [Option.bind_eq_bind, Option.bind_some, this]
  rfl

theorem ok_of_isOk {α} {x : Outcome α} (h : x.isOk = true) : ∃ a, x = .ok a := by
  cases x with
  | ok a => exact ⟨a, rfl⟩
  | err e => cases h
  | panic s => cases h

end TsV.C10Files
