import TsV.Lemmas.C06_RepeatedNames
import TsV.Props.C06_Multi
/-!
# C06_RepeatedNames — single-file mode: how the items are split over source files does not matter, also when names repeat

C06: "output is a deterministic function of the inputs".  `Props/C06.lean` (`C06_arrival_order`) and
`Props/C06_Multi.lean` need *unique* type and const names per crate (`WF`, `WFm`).  Legal Rust repeats
names — one definition per `cfg` branch, the same name in two modules, and nothing stops the same item
from being written twice — and typeshare reads the text and sees all of them.  This module has **no
hypothesis on names**:

* `visit_split`, `visitFile_split`: visiting the items `xs ++ ys` of a file equals visiting `xs` and `ys`
  separately and merging with `ParsedData`'s `AddAssign` (`Pipeline.addAssign`) — equality of the whole
  record (structs, enums, aliases, consts, errors, type names, meta data), for every outcome;
* `parse_split`: the same for `parser::parse` (`Visitor.parseFile`) when both parts have something
  annotated; `split_paths`: each part parsed under its own path — the paths only label the errors;
* `collect_split`, `run_split`: `AddAssign` is associative (`addAssign_assoc`), so the collector's map and
  hence the whole run (all six back ends, errors included) on a file holding `xs ++ ys` equal those on
  two files holding `xs` and `ys` delivered one after the other — among any files before and after;
* `repeated_names_example`, `collected_example`: `cfg` twins, the same name in a module, the same item
  twice and a user of the name — one file, and one file per item in that order: the same run result
  (`run_split` four times, hypotheses kernel-checked), and kernel-checked what both collect to;
* when the parts arrive in *another* order: `parsed_multiset` (= `C06.C06_multi_collect`, which never
  needed unique names): per crate the same parsed definitions up to order; `reconciled_multiset`: the
  same *reconciled* definitions up to order provided the `serde(rename)` table is consistent (`Agree`:
  equally named types of a crate are not renamed to different names) — and **without that proviso the
  multiset statement is false on the model** (`ArrivalMultiset_not_full`: twins `Handle` renamed `H1` /
  `H2` and `Other { h: Handle }`; `Other`'s field is `H2` or `H1` depending on which twin arrives
  last).  That is inside the recorded finding `duplicate-type-names-arrival-order`.
* `C06_RepeatedNames : C06_RepeatedNames_full`.
-/
namespace TsV.C06_RepeatedNames
open TsV TsV.Pipeline TsV.Visitor TsV.Collect TsV.C06M TsV.Generate

/-! ## 1. the visitor -/

/-- **visiting `xs ++ ys` = visiting `xs`, visiting `ys`, merging** (single-file mode; any items, any
names; a panic in the first part wins as it does in one go) -/
theorem visit_split (E : Ext) (ctx : ParseContext) (h : ctx.multiFile = false) (p c fn : Str) (xs ys : List Syn.Item) :
    visitItems E ctx p (fresh c fn) (xs ++ ys) =
      (visitItems E ctx p (fresh c fn) xs).bind fun a =>
        (visitItems E ctx p (fresh c fn) ys).bind fun b => .ok (addAssign a b) := by
  rw [C03.visitItems_collects E ctx h, C03.visitItems_collects E ctx h, C03.visitItems_collects E ctx h,
    annotatedList_append, List.map_append, collectAll_split]

theorem visitFile_eq (E : Ext) (ctx : ParseContext) (h : ctx.multiFile = false) (p c fn : Str) (f : Syn.File) :
    visitFile E ctx c fn p f =
      if (TargetOs.accept f.attrs ctx.targetOs).getD true then visitItems E ctx p (fresh c fn) f.items
      else .ok (fresh c fn) := by
  unfold visitFile
  simp only [C03.addPaths_single E ctx h, h]
  rfl

/-- the same for a file: same inner attributes, the items split (the `marker` is not looked at here) -/
theorem visitFile_split (E : Ext) (ctx : ParseContext) (h : ctx.multiFile = false) (p c fn : Str) (attrs : List Syn.Attr)
    (xs ys : List Syn.Item) (m m1 m2 : Bool) :
    visitFile E ctx c fn p ⟨attrs, xs ++ ys, m⟩ =
      (visitFile E ctx c fn p ⟨attrs, xs, m1⟩).bind fun a =>
        (visitFile E ctx c fn p ⟨attrs, ys, m2⟩).bind fun b => .ok (addAssign a b) := by
  rw [visitFile_eq E ctx h, visitFile_eq E ctx h, visitFile_eq E ctx h]
  by_cases ha : (TargetOs.accept attrs ctx.targetOs).getD true = true
  · simp only [ha, if_true]
    exact visit_split E ctx h p c fn xs ys
  · simp only [ha, Bool.false_eq_true, if_false, Outcome.bind_ok]
    rw [addAssign_fresh c fn (fresh c fn) ⟨rfl, rfl, rfl, rfl⟩]

/-- what a visit leaves untouched, and the type-name set stays duplicate-free -/
theorem visitFile_meta (E : Ext) (ctx : ParseContext) (h : ctx.multiFile = false) (p c fn : Str) (f : Syn.File)
    (d : ParsedData) (hv : visitFile E ctx c fn p f = .ok d) : Meta (fresh c fn) d ∧ d.typeNames.Nodup := by
  rw [visitFile_eq E ctx h] at hv
  by_cases ha : (TargetOs.accept f.attrs ctx.targetOs).getD true = true
  · simp only [ha, if_true] at hv
    rw [C03.visitItems_collects E ctx h] at hv
    obtain ⟨hm, hn⟩ := collectAll_meta p _ _ d hv
    exact ⟨hm, hn List.nodup_nil⟩
  · simp only [ha, Bool.false_eq_true, if_false, Outcome.ok.injEq] at hv
    subst hv
    exact ⟨⟨rfl, rfl, rfl, rfl⟩, List.nodup_nil⟩

/-! ## 2. `parser::parse` -/

theorem isEmpty_addAssign (a b : ParsedData) (h : Visitor.isEmpty a = false) : Visitor.isEmpty (addAssign a b) = false := by
  cases hb : Visitor.isEmpty (addAssign a b) with
  | false => rfl
  | true =>
    have : Visitor.isEmpty a = true := by
      simp only [Visitor.isEmpty, addAssign, Bool.and_eq_true, List.isEmpty_iff, List.append_eq_nil_iff] at hb ⊢
      exact ⟨⟨⟨⟨hb.1.1.1.1.1, hb.1.1.1.2.1⟩, hb.1.1.2.1⟩, hb.1.2.1⟩, hb.2.1⟩
    rw [this] at h
    cases h

/-- what `parser::parse` returned, in terms of the visit (single-file mode, marker set) -/
theorem parseFile_some (E : Ext) (ctx : ParseContext) (h : ctx.multiFile = false)
    (pick : List ImportedType → Option ImportedType) (p c fn : Str) (attrs : List Syn.Attr) (xs : List Syn.Item)
    (d : ParsedData) (hp : parseFile E ctx pick c fn p ⟨attrs, xs, true⟩ = .ok (some d)) :
    visitFile E ctx c fn p ⟨attrs, xs, true⟩ = .ok d ∧ Visitor.isEmpty d = false := by
  unfold parseFile at hp
  simp only [Bool.not_true, Bool.false_eq_true, if_false] at hp
  obtain ⟨a, ha, hp⟩ := (Outcome.bind_eq_ok _ _ _).1 hp
  have hmf : a.multiFile = false := (visitFile_meta E ctx h p c fn _ a ha).1.multiFile
  cases he : Visitor.isEmpty a with
  | true => simp [he, pure] at hp
  | false =>
    simp only [he, hmf, Bool.false_eq_true, if_false, pure, Outcome.ok.injEq, Option.some.injEq] at hp
    subst hp
    exact ⟨ha, he⟩

/-- **`parse` on the whole file = merge of `parse` on the parts** (each part contains something annotated) -/
theorem parse_split (E : Ext) (ctx : ParseContext) (h : ctx.multiFile = false)
    (pick : List ImportedType → Option ImportedType) (p c fn : Str) (attrs : List Syn.Attr) (xs ys : List Syn.Item)
    (d1 d2 : ParsedData)
    (h1 : parseFile E ctx pick c fn p ⟨attrs, xs, true⟩ = .ok (some d1))
    (h2 : parseFile E ctx pick c fn p ⟨attrs, ys, true⟩ = .ok (some d2)) :
    parseFile E ctx pick c fn p ⟨attrs, xs ++ ys, true⟩ = .ok (some (addAssign d1 d2)) := by
  obtain ⟨v1, e1⟩ := parseFile_some E ctx h pick p c fn attrs xs d1 h1
  obtain ⟨v2, _⟩ := parseFile_some E ctx h pick p c fn attrs ys d2 h2
  have hm2 := (visitFile_meta E ctx h p c fn _ d2 v2).1
  unfold parseFile
  simp only [Bool.not_true, Bool.false_eq_true, if_false]
  rw [visitFile_split E ctx h p c fn attrs xs ys true true true, v1, v2]
  have hmf : (addAssign d1 d2).multiFile = false := hm2.multiFile
  simp only [Outcome.bind_ok, isEmpty_addAssign d1 d2 e1, hmf, Bool.false_eq_true, if_false]
  rfl

/-- **each part under its own path**: the path is only the label of the errors — the one-go result is the
merge of the parts' results with the errors attributed to the one file -/
theorem split_paths (E : Ext) (ctx : ParseContext) (h : ctx.multiFile = false) (p p1 p2 c fn : Str) (xs ys : List Syn.Item)
    (a b : ParsedData) (ha : visitItems E ctx p1 (fresh c fn) xs = .ok a) (hb : visitItems E ctx p2 (fresh c fn) ys = .ok b) :
    visitItems E ctx p (fresh c fn) (xs ++ ys) = .ok (relabel p (addAssign a b)) := by
  rw [C03.visitItems_collects E ctx h] at ha hb
  have e : relabel p (fresh c fn) = fresh c fn := rfl
  have ha' := collectAll_relabel p1 p ((C03.annotatedList ctx xs).map (C03.parseItem E ctx)) (fresh c fn)
  have hb' := collectAll_relabel p2 p ((C03.annotatedList ctx ys).map (C03.parseItem E ctx)) (fresh c fn)
  rw [ha, e] at ha'
  rw [hb, e] at hb'
  rw [visit_split E ctx h, C03.visitItems_collects E ctx h, C03.visitItems_collects E ctx h, ha', hb']
  simp [relabel, addAssign]

/-! ## 3. the collector and the run -/

/-- **the collector**: the merged result delivered once, or the two parts delivered one after the other —
anywhere among the other arrivals (`AddAssign` is associative: `addAssign_assoc`) -/
theorem collect_split (pre post : List ParsedData) (d1 d2 : ParsedData) (hc : d2.crateName = d1.crateName) :
    collect (pre ++ addAssign d1 d2 :: post) = collect (pre ++ d1 :: d2 :: post) :=
  collect_split_general pre post d1 d2 hc

/-- "`parser::parse` returned a result" (the file was not dropped as empty, nothing panicked) -/
def arrives (o : Outcome (Option ParsedData)) : Bool :=
  match o with
  | .ok (some _) => true
  | _ => false

theorem arrives_iff {o : Outcome (Option ParsedData)} (h : arrives o = true) : ∃ d, o = .ok (some d) := by
  cases o with
  | ok r => cases r with
    | none => cases h
    | some d => exact ⟨d, rfl⟩
  | err e => cases h
  | panic s => cases h

theorem bind_ok_right {α} (x : Outcome α) : (x.bind fun a => Outcome.ok a) = x := by cases x <;> rfl

theorem parseAll_append (E : Ext) (ctx : ParseContext) (pick : List ImportedType → Option ImportedType) :
    ∀ xs ys : List SourceFile, parseAll E ctx pick (xs ++ ys) =
      (parseAll E ctx pick xs).bind fun A => (parseAll E ctx pick ys).bind fun B => .ok (A ++ B)
  | [], ys => by simp [parseAll, bind_ok_right]
  | f :: t, ys => by
    simp only [List.cons_append, parseAll, parseAll_append E ctx pick t ys]
    cases Visitor.parseFile E ctx pick f.crateName f.fileName f.path f.file with
    | ok r =>
      cases parseAll E ctx pick t with
      | ok A =>
        cases parseAll E ctx pick ys with
        | ok B => cases r <;> simp
        | err e => rfl
        | panic s => rfl
      | err e => rfl
      | panic s => rfl
    | err e => rfl
    | panic s => rfl

/-- **the whole run**: a file holding `xs ++ ys`, or two files holding `xs` and `ys` delivered one after
the other — among any other files before and after — give the same result: the texts of every back end,
or the same errors.  No hypothesis on the names of the items. -/
theorem run_split (E : Ext) (lang : LangCfg) (targetOs : List Str) (pick : List ImportedType → Option ImportedType)
    (p c fn : Str) (attrs : List Syn.Attr) (xs ys : List Syn.Item) (pre post : List SourceFile)
    (h1 : arrives (parseFile E { ignoredTypes := ignoredTypes lang, multiFile := false, targetOs } pick c fn p
      ⟨attrs, xs, true⟩) = true)
    (h2 : arrives (parseFile E { ignoredTypes := ignoredTypes lang, multiFile := false, targetOs } pick c fn p
      ⟨attrs, ys, true⟩) = true) :
    run E lang false targetOs pick (pre ++ ⟨c, fn, p, ⟨attrs, xs ++ ys, true⟩⟩ :: post) =
      run E lang false targetOs pick (pre ++ ⟨c, fn, p, ⟨attrs, xs, true⟩⟩ :: ⟨c, fn, p, ⟨attrs, ys, true⟩⟩ :: post) := by
  obtain ⟨d1, h1⟩ := arrives_iff h1
  obtain ⟨d2, h2⟩ := arrives_iff h2
  have h3 := parse_split E _ rfl pick p c fn attrs xs ys d1 d2 h1 h2
  obtain ⟨v1, _⟩ := parseFile_some E _ rfl pick p c fn attrs xs d1 h1
  obtain ⟨v2, _⟩ := parseFile_some E _ rfl pick p c fn attrs ys d2 h2
  obtain ⟨m1, _⟩ := visitFile_meta E _ rfl p c fn _ d1 v1
  obtain ⟨m2, _⟩ := visitFile_meta E _ rfl p c fn _ d2 v2
  have hcol := fun A B => collect_split A B d1 d2 (m2.crateName.trans m1.crateName.symm)
  simp only [run]
  rw [parseAll_append, parseAll_append]
  cases parseAll E { ignoredTypes := ignoredTypes lang, multiFile := false, targetOs } pick pre with
  | ok A =>
    simp only [parseAll, h1, h2, h3, Outcome.bind_ok]
    cases parseAll E { ignoredTypes := ignoredTypes lang, multiFile := false, targetOs } pick post with
    | ok B => simp only [Outcome.bind_ok, hcol]
    | err e => rfl
    | panic s => rfl
  | err e => rfl
  | panic s => rfl

/-! ## 4. another arrival order: multisets -/

/-- **the parsed definitions, per crate, as multisets** do not depend on the arrival order — names may
repeat (`MapEq`: same crates, per crate the item lists and errors up to order, the sets as sets) -/
theorem parsed_multiset (a b : List ParsedData) (hp : a.Perm b) (hu : UniformPerCrate a) :
    MapEq (collect a) (collect b) := C06.C06_multi_collect a b hp hu

/-- **the reconciled definitions as multisets** do not depend on the arrival order when the rename table
is consistent (no two equally named types of one crate renamed differently) — names may repeat -/
theorem reconciled_multiset (a b : List ParsedData) (hp : a.Perm b) (hu : UniformPerCrate a)
    (hr : Agree (collectSerdeRenames (collect a))) : MapEq (reconcile (collect a)) (reconcile (collect b)) :=
  reconcile_mapEq' (parsed_multiset a b hp hu)
    (renEquiv_of_agree _ _ (collectSerdeRenames_perm (parsed_multiset a b hp hu)) hr)

/-- the multiset statement at full strength (no proviso on the rename table) -/
def ArrivalMultiset_full : Prop :=
  ∀ a b : List ParsedData, a.Perm b → UniformPerCrate a → MapEq (reconcile (collect a)) (reconcile (collect b))

def twin (renamed : Str) : ParsedData :=
  { structs := [{ id := ⟨s%"Handle", renamed, true⟩, genericTypes := [], fields := [], comments := [], decorators := {},
                  isRedacted := false }] }
def user : ParsedData :=
  { structs := [{ id := ⟨s%"Other", s%"Other", false⟩, genericTypes := [],
                  fields := [⟨⟨s%"h", s%"h", false⟩, .simple s%"Handle", [], false, []⟩], comments := [], decorators := {},
                  isRedacted := false }] }

/-- the field types (head identifiers) of every struct of every crate -/
def fieldIds (m : List (Str × ParsedData)) : List (List Str) :=
  m.flatMap fun p => p.2.structs.map fun s => s.fields.map (·.ty.id)

theorem fieldIds_perm {m m' : List (Str × ParsedData)} (h : MapEq m m') : (fieldIds m).Perm (fieldIds m') :=
  Rel₂.flatMap_perm h fun _ _ _ _ hpq => hpq.2.structs.map _

/-- `fieldIds (reconcile m)` without the sorting pass (which the kernel does not unfold) -/
def fieldIdsRec (m : List (Str × ParsedData)) : List (List Str) :=
  m.flatMap fun p => p.2.structs.map fun s =>
    (s.fields.map (checkField p.1 (collectSerdeRenames m) p.2.importTypes)).map (·.ty.id)

theorem fieldIds_reconcile (m : List (Str × ParsedData)) : (fieldIds (reconcile m)).Perm (fieldIdsRec m) := by
  unfold fieldIds fieldIdsRec
  rw [reconcile_eq, List.flatMap_map]
  apply flatMap_perm_congr
  intro p _
  simp only [reconcileOne]
  refine ((sortBy_perm _ _).map _).trans ?_
  rw [List.map_map]
  exact .refl _

/-- `#[serde(rename = "H1")] struct Handle {}` and `#[serde(rename = "H2")] struct Handle {}` (two `cfg`
branches) and `struct Other { h: Handle }`: `Other.h` is reconciled to the rename of the twin that
arrived last -/
theorem witness :
    fieldIdsRec (collect [twin s%"H1", twin s%"H2", user]) = [[], [], [s%"H2"]] ∧
    fieldIdsRec (collect [twin s%"H2", twin s%"H1", user]) = [[], [], [s%"H1"]] := by
  decide +kernel

/-- **false on the model**: with differently renamed twins the reconciled definitions depend on the
arrival order even as a multiset -/
theorem ArrivalMultiset_not_full : ¬ ArrivalMultiset_full := by
  intro h
  have hp : [twin s%"H1", twin s%"H2", user].Perm [twin s%"H2", twin s%"H1", user] := List.Perm.swap _ _ _
  have := fieldIds_perm (h _ _ hp (fun d _ d' _ _ => by
    have e : ∀ x ∈ [twin s%"H1", twin s%"H2", user], x.fileName = [] ∧ x.multiFile = false := by
      intro x hx
      simp only [List.mem_cons, List.not_mem_nil, or_false] at hx
      rcases hx with rfl | rfl | rfl <;> exact ⟨rfl, rfl⟩
    rw [(e d ‹_›).1, (e d ‹_›).2, (e d' ‹_›).1, (e d' ‹_›).2]
    exact ⟨rfl, rfl⟩))
  have this := (fieldIds_reconcile _).symm.trans (this.trans (fieldIds_reconcile _))
  rw [witness.1, witness.2] at this
  have hm : [s%"H2"] ∈ [[], [], [s%"H1"]] := this.subset (by simp)
  revert hm
  decide

/-- the proviso of `reconciled_multiset` fails on the witness and holds when the twins agree -/
example : ¬ Agree (collectSerdeRenames (collect [twin s%"H1", twin s%"H2", user])) := by
  intro h
  have := h (s%"Handle", [], s%"H1") (by decide +kernel) (s%"Handle", [], s%"H2") (by decide +kernel) rfl rfl
  revert this
  decide

/-! ## the statement at full strength -/

/-- **C06_RepeatedNames**: no hypothesis on names.  (1) visitor, `parse`, collector and run commute with
splitting a file's items over files delivered in order; (2) in any arrival order the parsed definitions
per crate are the same multiset, and the reconciled ones too when the rename table is consistent. -/
def C06_RepeatedNames_full : Prop :=
  (∀ (E : Ext) (ctx : ParseContext), ctx.multiFile = false → ∀ (p c fn : Str) (attrs : List Syn.Attr) (xs ys : List Syn.Item),
    (visitItems E ctx p (fresh c fn) (xs ++ ys) =
      (visitItems E ctx p (fresh c fn) xs).bind fun a =>
        (visitItems E ctx p (fresh c fn) ys).bind fun b => .ok (addAssign a b)) ∧
    (∀ m m1 m2 : Bool, visitFile E ctx c fn p ⟨attrs, xs ++ ys, m⟩ =
      (visitFile E ctx c fn p ⟨attrs, xs, m1⟩).bind fun a =>
        (visitFile E ctx c fn p ⟨attrs, ys, m2⟩).bind fun b => .ok (addAssign a b)) ∧
    (∀ (pick : List ImportedType → Option ImportedType) (d1 d2 : ParsedData),
      parseFile E ctx pick c fn p ⟨attrs, xs, true⟩ = .ok (some d1) →
      parseFile E ctx pick c fn p ⟨attrs, ys, true⟩ = .ok (some d2) →
      parseFile E ctx pick c fn p ⟨attrs, xs ++ ys, true⟩ = .ok (some (addAssign d1 d2))) ∧
    (∀ (p1 p2 : Str) (a b : ParsedData), visitItems E ctx p1 (fresh c fn) xs = .ok a →
      visitItems E ctx p2 (fresh c fn) ys = .ok b →
      visitItems E ctx p (fresh c fn) (xs ++ ys) = .ok (relabel p (addAssign a b)))) ∧
  (∀ (pre post : List ParsedData) (d1 d2 : ParsedData), d2.crateName = d1.crateName →
    collect (pre ++ addAssign d1 d2 :: post) = collect (pre ++ d1 :: d2 :: post)) ∧
  (∀ (E : Ext) (lang : LangCfg) (targetOs : List Str) (pick : List ImportedType → Option ImportedType) (p c fn : Str)
    (attrs : List Syn.Attr) (xs ys : List Syn.Item) (pre post : List SourceFile),
    arrives (parseFile E { ignoredTypes := ignoredTypes lang, multiFile := false, targetOs } pick c fn p ⟨attrs, xs, true⟩) = true →
    arrives (parseFile E { ignoredTypes := ignoredTypes lang, multiFile := false, targetOs } pick c fn p ⟨attrs, ys, true⟩) = true →
    run E lang false targetOs pick (pre ++ ⟨c, fn, p, ⟨attrs, xs ++ ys, true⟩⟩ :: post) =
      run E lang false targetOs pick (pre ++ ⟨c, fn, p, ⟨attrs, xs, true⟩⟩ :: ⟨c, fn, p, ⟨attrs, ys, true⟩⟩ :: post)) ∧
  (∀ a b : List ParsedData, a.Perm b → UniformPerCrate a →
    MapEq (collect a) (collect b) ∧
    (Agree (collectSerdeRenames (collect a)) → MapEq (reconcile (collect a)) (reconcile (collect b))))

theorem C06_RepeatedNames : C06_RepeatedNames_full :=
  ⟨fun E ctx h p c fn attrs xs ys =>
      ⟨visit_split E ctx h p c fn xs ys, fun m m1 m2 => visitFile_split E ctx h p c fn attrs xs ys m m1 m2,
       fun pick d1 d2 h1 h2 => parse_split E ctx h pick p c fn attrs xs ys d1 d2 h1 h2,
       fun p1 p2 a b ha hb => split_paths E ctx h p p1 p2 c fn xs ys a b ha hb⟩,
   fun pre post d1 d2 hc => collect_split pre post d1 d2 hc,
   fun E lang os pick p c fn attrs xs ys pre post h1 h2 => run_split E lang os pick p c fn attrs xs ys pre post h1 h2,
   fun a b hp hu => ⟨parsed_multiset a b hp hu, fun hr => reconciled_multiset a b hp hu hr⟩⟩

/-! ## non-vacuity: repeated names, kernel-checked -/

def wE : Ext := { U := .ascii, parseType := fun _ => none }
def tsAttr : Syn.Attr := ⟨.path [s%"typeshare"]⟩
def cfgAttr (neg : Bool) : Syn.Attr :=
  ⟨.list [s%"cfg"] true [if neg then .list [s%"not"] true [.nameValue [s%"feature"] (some (.str s%"fast"))]
                         else .nameValue [s%"feature"] (some (.str s%"fast"))]⟩
def fieldOf (n t : Str) : Syn.Field := ⟨[], some n, .path [] t []⟩

/-- `#[cfg(feature = "fast")] #[typeshare] pub struct Handle { pub fd: u32 }` -/
def twinA : Syn.Item := .struct [cfgAttr false, tsAttr] s%"Handle" [] (.named [fieldOf s%"fd" s%"u32"])
/-- `#[cfg(not(feature = "fast"))] #[typeshare] pub struct Handle { pub name: String }` -/
def twinB : Syn.Item := .struct [cfgAttr true, tsAttr] s%"Handle" [] (.named [fieldOf s%"name" s%"String"])
/-- `pub mod v2 { #[typeshare] pub enum Handle { Open, Closed } }` -/
def modTwin : Syn.Item := .mod [] s%"v2" [.enum [tsAttr] s%"Handle" [] [⟨[], s%"Open", .unit⟩, ⟨[], s%"Closed", .unit⟩]]
/-- `#[typeshare] pub struct Other { pub h: Handle }` -/
def other : Syn.Item := .struct [tsAttr] s%"Other" [] (.named [fieldOf s%"h" s%"Handle"])

def src (items : List Syn.Item) : SourceFile := ⟨[], s%"out.ts", s%"src/lib.rs", ⟨[], items, true⟩⟩

def ctx0 (lang : LangCfg) : ParseContext := { ignoredTypes := ignoredTypes lang, multiFile := false, targetOs := [] }

/-- every part — each single item and each tail of the item list — parses to something (the hypotheses of
`run_split` on the witness) -/
theorem parts_arrive :
    ([[twinA], [twinB], [modTwin], [twinA], [other], [twinB, modTwin, twinA, other], [modTwin, twinA, other],
      [twinA, other]].all fun items =>
      arrives (parseFile wE (ctx0 (.typescript {})) List.head? [] s%"out.ts" s%"src/lib.rs" ⟨[], items, true⟩)) = true := by
  decide +kernel

/-- **the repeated-name cases** — `cfg` twins, the same name in a module, the same item twice, then a user
of the name — written into one file, or one file per item delivered in that order: the same run result
(`run_split`, four times) -/
theorem repeated_names_example (lang : LangCfg) (hl : ignoredTypes lang = ignoredTypes (.typescript {})) :
    run wE lang false [] List.head? [src [twinA, twinB, modTwin, twinA, other]] =
      run wE lang false [] List.head? [src [twinA], src [twinB], src [modTwin], src [twinA], src [other]] := by
  have hp := parts_arrive
  simp only [List.all_cons, List.all_nil, Bool.and_true, Bool.and_eq_true, ctx0, ← hl] at hp
  obtain ⟨a1, a2, a3, _, a5, t1, t2, t3⟩ := hp
  have s1 := run_split wE lang [] List.head? s%"src/lib.rs" [] s%"out.ts" [] [twinA] [twinB, modTwin, twinA, other] [] [] a1 t1
  have s2 := run_split wE lang [] List.head? s%"src/lib.rs" [] s%"out.ts" [] [twinB] [modTwin, twinA, other] [src [twinA]] [] a2 t2
  have s3 := run_split wE lang [] List.head? s%"src/lib.rs" [] s%"out.ts" [] [modTwin] [twinA, other] [src [twinA], src [twinB]] []
    a3 t3
  have s4 := run_split wE lang [] List.head? s%"src/lib.rs" [] s%"out.ts" [] [twinA] [other]
    [src [twinA], src [twinB], src [modTwin]] [] a1 a5
  exact s1.trans (s2.trans (s3.trans s4))

/-- what the one file and the five files parse and collect to, kernel-checked on a projection: the three
`Handle`s and `Other` in source order (names, field names), the enum, the type-name set -/
def proj (o : Outcome (List ParsedData)) : List (List (List Str)) :=
  match o with
  | .ok arr => (collect arr).map fun p =>
      (p.2.structs.map fun s => s.id.original :: s.fields.map (·.id.original)) ++
        [p.2.enums.map (·.id.original), p.2.typeNames, p.2.errors.map (·.2)]
  | _ => []

theorem collected_example :
    proj (parseAll wE (ctx0 (.typescript {})) List.head? [src [twinA, twinB, modTwin, twinA, other]]) =
      proj (parseAll wE (ctx0 (.typescript {})) List.head? [src [twinA], src [twinB], src [modTwin], src [twinA], src [other]]) ∧
    proj (parseAll wE (ctx0 (.typescript {})) List.head? [src [twinA, twinB, modTwin, twinA, other]]) =
      [[[s%"Handle", s%"fd"], [s%"Handle", s%"name"], [s%"Handle", s%"fd"], [s%"Other", s%"h"], [s%"Handle"],
        [s%"Handle", s%"Other"], []]] := by
  decide +kernel

end TsV.C06_RepeatedNames
