import TsV.Lemmas.C02_Base
import TsV.Model.Lang.Scala
/-!
# C02, Scala: `serialName` of every case, the content parameter name (no tag key is carried)
-/
namespace TsV.C02.Sc
open TsV TsV.Lang TsV.Lang.Scala TsV.C02

def caseHoles (c : ScCase) : List (Role × Str) :=
  match c.content with
  | none => []
  | some (_, p, _) => [(.content, p)]

/-- binding semantics: a `case object` / `case class` of the companion object is the case `name`,
serialised as the value of its `serialName`; a case class carries its payload under the name of its
single parameter -/
def wire (se : ScEnum) : EnumWire :=
  { cases := se.cases.map fun c => ⟨some c.name, some c.serialName⟩,
    holes := se.cases.flatMap caseHoles }

theorem caseFacts_facts (cfg : Cfg) (e : RustEnum) (v : RustEnumVariant) (c : ScCase)
    (h : caseFacts cfg e v = .ok c) :
    c.serialName = v.id.renamed ∧
    c.name = (match e.keys with | none => v.id.original | some _ => variantName v.id.original) ∧
    (match e.keys with
     | none => caseHoles c = []
     | some (_, ck) => ∀ x ∈ caseHoles c, x = (.content, ck)) := by
  unfold caseFacts at h
  cases hk : e.keys with
  | none => simp only [hk] at h; simp at h; subst h; simp [caseHoles]
  | some p =>
    obtain ⟨tag, ck⟩ := p
    simp only [hk] at h
    cases v with
    | unit id cs => simp at h; subst h; simp [caseHoles, RustEnumVariant.id]
    | tuple id cs ty =>
      simp only at h
      cases hf : formatType cfg e.genericTypes ty with
      | ok t => rw [hf] at h; simp at h; subst h; simp [caseHoles, RustEnumVariant.id]
      | err x => rw [hf] at h; simp at h
      | panic x => rw [hf] at h; simp at h
    | anonymousStruct id cs fs => simp at h; subst h; simp [caseHoles, RustEnumVariant.id]

theorem variantName_upperCamel (s : Str) (h : C16.UpperCamel s) : variantName s = s := by
  obtain ⟨c, rest, rfl, hc⟩ := upperCamel_head s h
  simp [variantName, upper_notDigit c hc]

/-- **Scala**: whatever `write_enum` emits for an in-scope enum is correct on the wire -/
theorem correct (cfg : Cfg) (e : RustEnum) (hs : InScopeEnum e) (se : ScEnum)
    (h : enumFacts cfg e = .ok se) : (wire se).Correct e := by
  unfold enumFacts at h
  obtain ⟨inner, _, h⟩ := (Outcome.bind_eq_ok _ _ _).1 h
  obtain ⟨cases, hc, h⟩ := (Outcome.bind_eq_ok _ _ _).1 h
  simp at h; subst h
  have hser : cases.map (·.serialName) = e.variants.map (·.id.renamed) :=
    Outcome.mapM'_map _ _ _ (fun v c hvc => (caseFacts_facts cfg e v c hvc).1) _ _ hc
  have hname : cases.map (·.name) = e.variants.map (·.id.original) := by
    refine mapM'_map_mem _ _ _ _ _ ?_ hc
    intro v hv c hvc
    rw [(caseFacts_facts cfg e v c hvc).2.1]
    cases e.keys with
    | none => rfl
    | some p => exact variantName_upperCamel _ (hs.camel v hv)
  refine ⟨?_, ?_, ?_⟩
  · have := congrArg (List.map some) hser
    simpa [EnumWire.Names, wire, Function.comp_def] using this
  · have : (cases.map (·.name)).Nodup := by rw [hname]; exact hs.distinct
    simpa [EnumWire.Distinct, wire, List.filterMap_map, Function.comp_def] using this
  · have hall := Outcome.mapM'_ok_forall₂ _ _ _ hc
    have hlen := Outcome.mapM'_ok_length _ _ _ hc
    have hmem : ∀ c ∈ cases, ∃ v, caseFacts cfg e v = .ok c := by
      intro c hcm
      obtain ⟨i, hi, rfl⟩ := List.getElem_of_mem hcm
      exact ⟨e.variants[i]'(by omega), hall i (by omega) hi⟩
    cases hk : e.keys with
    | none =>
      simp only [EnumWire.Keys, hk, wire, List.flatMap_eq_nil_iff]
      intro c hcm
      obtain ⟨v, hv⟩ := hmem c hcm
      have := (caseFacts_facts cfg e v c hv).2.2
      simpa [hk] using this
    | some p =>
      obtain ⟨tag, ck⟩ := p
      simp only [EnumWire.Keys, hk, wire, List.mem_flatMap]
      rintro x ⟨c, hcm, hx⟩
      obtain ⟨v, hv⟩ := hmem c hcm
      have := (caseFacts_facts cfg e v c hv).2.2
      simp only [hk] at this
      exact Or.inr (this x hx)

end TsV.C02.Sc
