import TsV.Lemmas.Capstone_Items
import TsV.Lemmas.Capstone_Order
/-!
# Capstone — TypeScript: from `writeItem … = .ok (b, st')` to the fact records and the clauses
-/
namespace TsV.Cap.TS
open TsV TsV.Syn TsV.Parser TsV.Pipeline TsV.Generate TsV.C03E TsV.Lang TsV.Lang.TypeScript TsV.Outcome

/-- C04's reading of one property line -/
def Reads (tf : TsField) (o : Bool) (core : Str) : Prop := o = C04.Ts.isOptional tf ∧ core = C04.Ts.stripOptional tf

theorem fieldsFacts_pointwise (cfg : Cfg) (gens : List Str) : ∀ (fs : List RustField) (st st' : CustomMap)
    (tfs : List TsField), C01.TypeScript.fieldsFacts cfg gens fs st = .ok (tfs, st') →
    C04.Pointwise (C04.Ts.FieldGen cfg gens) fs tfs
  | [], st, st', tfs, h => by simp [C01.TypeScript.fieldsFacts] at h; obtain ⟨rfl, _⟩ := h; exact .nil
  | f :: fs, st, st', tfs, h => by
    simp only [C01.TypeScript.fieldsFacts] at h
    obtain ⟨⟨tf, st1⟩, h1, h2⟩ := bindOk h
    obtain ⟨⟨rest, st2⟩, h3, h4⟩ := bindOk h2
    cases h4
    exact .cons ⟨st, st1, h1⟩ (fieldsFacts_pointwise cfg gens fs st1 _ rest h3)

/-- the interface of a struct is the rendering of one `TsField` per field -/
theorem writeItem_struct (U : UnicodeOps) (cfg : Cfg) (rs : RustStruct) (st st' : CustomMap) (b : Str)
    (h : writeItem U cfg (.struct rs) st = .ok (b, st')) :
    ∃ tfs, C01.TypeScript.fieldsFacts cfg rs.genericTypes rs.fields st = .ok (tfs, st') ∧
      b = comments 0 rs.comments ++ s%"export interface " ++ rs.id.renamed ++ genericSuffix rs.genericTypes ++
        s%" {\n" ++ tfs.flatMap renderField ++ s%"}\n\n" :=
  C01.TypeScript.writeStruct_fields cfg rs st st' b h

theorem structKeys_eq (E : Ext) (cfg : Cfg) (rs : RustStruct) (st st' : CustomMap) (tfs : List TsField)
    (h : C01.TypeScript.fieldsFacts cfg rs.genericTypes rs.fields st = .ok (tfs, st')) :
    C01.structKeys E .typescript (cfg, st) rs = .ok (tfs.map C01.TypeScript.boundKey) := by
  simp [C01.structKeys, h]

theorem fields_c04 (E : Ext) (cfg : Cfg) (gens : List Str) (fs : List RustField) (tfs : List TsField)
    (h : C04.Pointwise (C04.Ts.FieldGen cfg gens) fs tfs) :
    C04.Pointwise (fun rf' p => C04.InScope gens rf' (.typescript cfg) →
      C04.Known_scalaDefaultNonOption (.typescript cfg) rf' = false →
      ∃ o core, Reads p o core ∧ o = C04.opt rf' ∧
        C04.Translates E gens (C04.stripOption rf'.ty) (.typescript cfg) core) fs tfs := by
  refine h.imp ?_
  rintro rf' tf ⟨st0, st1, hf⟩ hs _
  obtain ⟨h1, _, h3⟩ := C04.Ts.field hf
  obtain ⟨st2, h3⟩ := h3 hs.1 hs.2.1
  exact ⟨_, _, ⟨rfl, rfl⟩, h1, ⟨st0, st2, h3⟩⟩

/-- **clauses 2 + 3 for the interface of a source struct** -/
theorem struct_ok (E : Ext) (hU : E.U.AsciiCorrect) (cfg : Cfg) (targetOs : List Str) (c : Str) (r : Renames)
    (attrs : List Attr) (ident : Str) (gens : List GenericParam) (fs : List Field) (rs : RustStruct)
    (st st' : CustomMap) (tfs : List TsField)
    (hparse : parseStruct E targetOs attrs ident gens (.named fs) = .ok (.struct rs))
    (hd : C01.TypeScript.fieldsFacts cfg (recStruct c r rs).genericTypes (recStruct c r rs).fields st = .ok (tfs, st')) :
    StructClauses E .typescript (.typescript cfg) targetOs c r attrs fs (recStruct c r rs)
      (tfs.map C01.TypeScript.boundKey) Reads tfs :=
  struct_clauses E hU .typescript (.typescript cfg) (cfg, st) targetOs c r attrs ident gens fs rs _ Reads _ hparse
    (structKeys_eq E cfg _ st st' tfs hd)
    (fields_c04 E cfg _ _ _ (fieldsFacts_pointwise cfg _ _ st st' tfs hd))

/-! ## enums -/

theorem variantsFacts_units (cfg : Cfg) (e : RustEnum) : ∀ (vs : List RustEnumVariant) (st : CustomMap),
    vs.all variantIsUnit = true → C01.TypeScript.variantsFacts cfg e vs st = .ok ([], st)
  | [], st, _ => rfl
  | .unit id cs :: vs, st, h => by
    simp only [C01.TypeScript.variantsFacts]
    exact variantsFacts_units cfg e vs st (by simpa [variantIsUnit] using h)
  | .tuple id cs ty :: vs, st, h => by simp [variantIsUnit] at h
  | .anonymousStruct id cs fs :: vs, st, h => by simp [variantIsUnit] at h

theorem recEnum_allUnit (c : Str) (r : Renames) (e : RustEnum) :
    (recEnum c r e).variants.all variantIsUnit = e.variants.all variantIsUnit := by
  simp [recEnum, List.all_map, Function.comp_def, variantIsUnit_check]

/-- a parsed enum without keys has unit variants only -/
theorem parsed_units (E : Ext) (T : List Str) (attrs : List Attr) (ident : Str) (gens : List GenericParam)
    (vs : List Variant) (e : RustEnum) (h : parseEnum E T attrs ident gens vs = .ok (.enum e))
    (hk : e.keys = none) : e.variants.all variantIsUnit = true := by
  have hsa := C02.parseEnum_enum_noSerializedAs E T attrs ident gens vs e h
  obtain ⟨_, k2⟩ := C08.parseEnum_keys E T attrs ident gens vs hsa e h
  cases hall : e.variants.all variantIsUnit with
  | true => rfl
  | false =>
    obtain ⟨t, c, _, _, hkeys⟩ := k2 hall
    rw [hk] at hkeys
    cases hkeys

/-- the declaration of an enum is the rendering of C02's `EnumDecl`; the struct variants are printed
inline, their property lists are `variantsFacts` -/
theorem writeItem_enum (E : Ext) (cfg : Cfg) (T : List Str) (attrs : List Attr) (ident : Str)
    (gens : List GenericParam) (vs : List Variant) (e : RustEnum) (c : Str) (r : Renames)
    (hparse : parseEnum E T attrs ident gens vs = .ok (.enum e)) (st st' : CustomMap) (b : Str)
    (h : writeItem E.U cfg (.enum (recEnum c r e)) st = .ok (b, st')) :
    ∃ d tfss, C02.TS.enumFacts cfg (recEnum c r e) st = .ok (d, st') ∧ b = C02.TS.renderEnumDecl d ∧
      C01.TypeScript.variantsFacts cfg (recEnum c r e) (recEnum c r e).variants st = .ok (tfss, st') := by
  have h' : writeEnum cfg (recEnum c r e) st = .ok (b, st') := h
  have h2 := h'
  rw [C02.TS.writeEnum_eq] at h2
  obtain ⟨⟨d, st1⟩, hd, h2⟩ := bindOk h2
  simp only [Outcome.ok.injEq, Prod.mk.injEq] at h2
  obtain ⟨hbd, hst1⟩ := h2
  subst hst1
  cases hk : (recEnum c r e).keys with
  | none =>
    have hu : (recEnum c r e).variants.all variantIsUnit = true := by
      rw [recEnum_allUnit]
      exact parsed_units E T attrs ident gens vs e hparse hk
    have hst : st = st1 := by
      simp only [writeEnum, hk, Outcome.ok.injEq, Prod.mk.injEq] at h'
      exact h'.2
    subst hst
    exact ⟨d, [], hd, hbd.symm, variantsFacts_units cfg _ _ _ hu⟩
  | some kc =>
    obtain ⟨tag, content⟩ := kc
    simp only [writeEnum, hk] at h'
    obtain ⟨⟨body, st2⟩, hb, h'⟩ := bindOk h'
    simp only [Outcome.ok.injEq, Prod.mk.injEq] at h'
    obtain ⟨_, hst2⟩ := h'
    subst hst2
    obtain ⟨tfss, ht⟩ := C01.TypeScript.writeVariants_facts cfg _ tag content _ st _ body hb
    exact ⟨d, tfss, hd, hbd.symm, ht⟩

/-- **clauses 2 + 4 for the declaration of a source enum** -/
theorem enum_ok (E : Ext) (hU : E.U.AsciiCorrect) (cfg : Cfg) (targetOs : List Str) (c : Str) (r : Renames)
    (attrs : List Attr) (ident : Str) (gens : List GenericParam) (vs : List Variant) (e : RustEnum)
    (st st' : CustomMap) (d : C02.TS.EnumDecl) (tfss : List (List TsField)) (acronyms : List Str)
    (hparse : parseEnum E targetOs attrs ident gens vs = .ok (.enum e))
    (hd : C02.TS.enumFacts cfg (recEnum c r e) st = .ok (d, st'))
    (ht : C01.TypeScript.variantsFacts cfg (recEnum c r e) (recEnum c r e).variants st = .ok (tfss, st')) :
    EnumClauses E .typescript targetOs attrs vs (recEnum c r e) acronyms
      (tfss.map (·.map C01.TypeScript.boundKey)) (C02.TS.wire d) := by
  refine enum_clauses E hU .typescript (cfg, st) targetOs c r attrs ident gens vs e acronyms _ _ hparse
    (by simp [C01.enumKeys, ht]) ?_
  intro hs hk
  exact C02.C02_backend .typescript E hU acronyms _ hs hk cfg st d st' hd

/-! ## finding the block of a source item -/

theorem block_of (U : UnicodeOps) (cfg : Cfg) {items emitted : List RustItem} {blocks : List Str} {st0 stN : CustomMap}
    (hperm : items.Perm emitted) (ht : Threaded (writeItem U cfg) items st0 blocks stN) {x : RustItem}
    (hx : x ∈ emitted) :
    ∃ (k : Nat) (b : Str) (st st' : CustomMap), items[k]? = some x ∧ blocks[k]? = some b ∧
      writeItem U cfg x st = .ok (b, st') := by
  obtain ⟨k, hk⟩ := getElem?_of_perm_mem hperm hx
  obtain ⟨sts, _, _, _, hall⟩ := ht.nth
  obtain ⟨s, s', b, _, _, hb, hw⟩ := hall k x hk
  exact ⟨k, b, s, s', hk, hb, hw⟩

end TsV.Cap.TS
