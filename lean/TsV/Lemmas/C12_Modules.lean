import TsV.Lemmas.C12_Modules_Python
import TsV.Lemmas.C12_Scala
import TsV.Lemmas.C12_Go
import TsV.Lemmas.C12_TypeScript
/-!
# C12_Modules — the modules of a folder run, one by one

`generateAll … jobs` writes one module per crate, the printer state of one module being the start
state of the next (Python, Go, TypeScript; Swift's flag is handled in `Lemmas/C14_Helpers.lean`;
Scala and Kotlin have no state).  For each back end: every output of the run is what `generate`
writes for that crate's data from *some* start state — for Python a state that satisfies the run
invariant `Py.Inv` and that provides everything the start state of the run provided.
-/
namespace TsV.C12_Modules
open TsV TsV.Lang TsV.C12L

abbrev Job := Str × ParsedData × Option Pipeline.ScopedCrateTypes

namespace Py
open Python TsV.C12L.Python

theorem generateFrom_each (E : Ext) (cfg : Cfg) : ∀ (jobs : List Job) (st0 : St) (res : List (Str × Str)),
    generateFrom E cfg jobs st0 = .ok res → Inv st0 →
    res.map (·.1) = jobs.map (·.1) ∧
    ∀ p ∈ jobs.zip res, ∃ stIn st, Inv stIn ∧ Mono st0 stIn ∧ generate E cfg p.1.2.1 stIn = .ok (p.2.2, st)
  | [], st0, res, h, _ => by
    simp only [generateFrom, Outcome.ok.injEq] at h
    subst h
    exact ⟨rfl, by simp⟩
  | (c, d, imps) :: rest, st0, res, h, hi => by
    simp only [generateFrom, bind_ok_iff] at h
    obtain ⟨⟨text, st1⟩, h1, outs, h2, h3⟩ := h
    simp only [Outcome.ok.injEq] at h3
    subst h3
    have hi1 := generate_inv E cfg d st0 text st1 h1 hi
    have hm1 := (generate_spec E cfg d st0 text st1 h1).1
    obtain ⟨hn, hall⟩ := generateFrom_each E cfg rest st1 outs h2 hi1
    refine ⟨by simp [hn], ?_⟩
    intro p hp
    simp only [List.zip_cons_cons, List.mem_cons] at hp
    rcases hp with rfl | hp
    · exact ⟨st0, st1, hi, Mono.refl st0, h1⟩
    · obtain ⟨stIn, st, h4, h5, h6⟩ := hall p hp
      exact ⟨stIn, st, h4, hm1.trans h5, h6⟩

/-- consecutive modules: the state the later one is written from provides everything the earlier
one's did -/
theorem generateFrom_grows (E : Ext) (cfg : Cfg) : ∀ (jobs : List Job) (st0 : St) (res : List (Str × Str)),
    generateFrom E cfg jobs st0 = .ok res →
    ∃ sts : List St, sts.length = jobs.length ∧ sts.Pairwise Mono ∧ (∀ s ∈ sts, Mono st0 s) ∧
      ∀ p ∈ (jobs.zip res).zip sts, ∃ body,
        p.1.2.2 = beginFile cfg ++ writeAllImports p.2 ++ writeCustomFns p.2 ++ body
  | [], st0, res, h => ⟨[], rfl, .nil, by simp, by simp⟩
  | (c, d, imps) :: rest, st0, res, h => by
    simp only [generateFrom, bind_ok_iff] at h
    obtain ⟨⟨text, st1⟩, h1, outs, h2, h3⟩ := h
    simp only [Outcome.ok.injEq] at h3
    subst h3
    obtain ⟨hm1, _, body, hb⟩ := generate_spec E cfg d st0 text st1 h1
    obtain ⟨sts, hl, hp, hall, hz⟩ := generateFrom_grows E cfg rest st1 outs h2
    refine ⟨st1 :: sts, by simp [hl], List.pairwise_cons.2 ⟨hall, hp⟩, ?_, ?_⟩
    · intro s hs
      rcases List.mem_cons.1 hs with rfl | hs
      · exact hm1
      · exact hm1.trans (hall s hs)
    · intro p hp'
      simp only [List.zip_cons_cons, List.mem_cons] at hp'
      rcases hp' with rfl | hp'
      · exact ⟨body, hb⟩
      · exact hz p hp'

end Py

namespace Sc
open Scala

/-- Scala has no printer state: every module is `generate` of its own data -/
theorem generateFrom_each (cfg : Cfg) : ∀ (jobs : List Job) (res : List (Str × Str)),
    generateFrom cfg jobs = .ok res →
    res.map (·.1) = jobs.map (·.1) ∧ ∀ p ∈ jobs.zip res, generate cfg p.1.2.1 = .ok p.2.2
  | [], res, h => by
    simp only [generateFrom, Outcome.ok.injEq] at h
    subst h
    exact ⟨rfl, by simp⟩
  | (c, d, imps) :: rest, res, h => by
    simp only [generateFrom, bind_ok_iff] at h
    obtain ⟨text, h1, outs, h2, h3⟩ := h
    simp only [Outcome.ok.injEq] at h3
    subst h3
    obtain ⟨hn, hall⟩ := generateFrom_each cfg rest outs h2
    refine ⟨by simp [hn], ?_⟩
    intro p hp
    simp only [List.zip_cons_cons, List.mem_cons] at hp
    rcases hp with rfl | hp
    · exact h1
    · exact hall p hp

end Sc

namespace Kt
open Kotlin

/-- Kotlin has no printer state either -/
theorem generateFrom_each (cfg : Cfg) : ∀ (jobs : List Job) (res : List (Str × Str)),
    generateFrom cfg jobs = .ok res →
    res.map (·.1) = jobs.map (·.1) ∧ ∀ p ∈ jobs.zip res, generate cfg p.1.2.1 p.1.2.2 = .ok p.2.2
  | [], res, h => by
    simp only [generateFrom, Outcome.ok.injEq] at h
    subst h
    exact ⟨rfl, by simp⟩
  | (c, d, imps) :: rest, res, h => by
    simp only [generateFrom, bind_ok_iff] at h
    obtain ⟨text, h1, outs, h2, h3⟩ := h
    simp only [Outcome.ok.injEq] at h3
    subst h3
    obtain ⟨hn, hall⟩ := generateFrom_each cfg rest outs h2
    refine ⟨by simp [hn], ?_⟩
    intro p hp
    simp only [List.zip_cons_cons, List.mem_cons] at hp
    rcases hp with rfl | hp
    · exact h1
    · exact hall p hp

end Kt

namespace Go'
open Go

theorem generateFrom_each (U : UnicodeOps) (cfg : Cfg) : ∀ (jobs : List Job) (st0 : Imports) (res : List (Str × Str)),
    generateFrom U cfg jobs st0 = .ok res →
    res.map (·.1) = jobs.map (·.1) ∧ ∀ p ∈ jobs.zip res, ∃ stIn st, generate U cfg p.1.2.1 stIn = .ok (p.2.2, st)
  | [], st0, res, h => by
    simp only [generateFrom, Outcome.ok.injEq] at h
    subst h
    exact ⟨rfl, by simp⟩
  | (c, d, imps) :: rest, st0, res, h => by
    simp only [generateFrom, bind_ok_iff] at h
    obtain ⟨⟨text, st1⟩, h1, outs, h2, h3⟩ := h
    simp only [Outcome.ok.injEq] at h3
    subst h3
    obtain ⟨hn, hall⟩ := generateFrom_each U cfg rest st1 outs h2
    refine ⟨by simp [hn], ?_⟩
    intro p hp
    simp only [List.zip_cons_cons, List.mem_cons] at hp
    rcases hp with rfl | hp
    · exact ⟨st0, st1, h1⟩
    · exact hall p hp

end Go'

namespace TS
open TypeScript

theorem generateFrom_each (U : UnicodeOps) (cfg : Cfg) : ∀ (jobs : List Job) (st0 : CustomMap) (res : List (Str × Str)),
    generateFrom U cfg jobs st0 = .ok res →
    res.map (·.1) = jobs.map (·.1) ∧
    ∀ p ∈ jobs.zip res, ∃ stIn st, generate U cfg p.1.2.1 p.1.2.2 stIn = .ok (p.2.2, st)
  | [], st0, res, h => by
    simp only [generateFrom, Outcome.ok.injEq] at h
    subst h
    exact ⟨rfl, by simp⟩
  | (c, d, imps) :: rest, st0, res, h => by
    simp only [generateFrom, bind_ok_iff] at h
    obtain ⟨⟨text, st1⟩, h1, outs, h2, h3⟩ := h
    simp only [Outcome.ok.injEq] at h3
    subst h3
    obtain ⟨hn, hall⟩ := generateFrom_each U cfg rest st1 outs h2
    refine ⟨by simp [hn], ?_⟩
    intro p hp
    simp only [List.zip_cons_cons, List.mem_cons] at hp
    rcases hp with rfl | hp
    · exact ⟨st0, st1, h1⟩
    · exact hall p hp

end TS

end TsV.C12_Modules
